----------------------------- MODULE RegSyncMC -----------------------------
(***************************************************************************)
(* Model-checking instances of RegSync (C18): the scenario spaces.  Each    *)
(* space isolates one dimension of the quantifier so that it can be         *)
(* enumerated exhaustively:                                                 *)
(*   FilterScns   every allow list x deny list of up to two expressions     *)
(*                over all subsets of three tags (overlapping, empty,       *)
(*                unset), two source populations                            *)
(*   DecideQuick  one tag: source image x target image x platform x media   *)
(*   DecideFull   type list x backup shape x switch combination x entry     *)
(*                type, and one- and two-run histories (mode, source move   *)
(*                or delete, mode); Quick is a sub-space of Full            *)
(*   HoleScns     the target holds image H with a layer missing (under the  *)
(*                mirrored tag and / or a bystander tag): trusted unless    *)
(*                forceRecursive, repaired by any copy of H, never backed up*)
(*   RollScns     four runs while a tag moves A -> B -> A (and A->B->C,     *)
(*                A->B->X) with every backup shape, constant names included *)
(*   ParScns      two and three entries, parallel 0..4: every interleaving  *)
(*                of the entries' request sequences under the throttle      *)
(*   RegScns      registry entries: repository filters x tag filters        *)
(*   FlagScns     two-entry lists, first entry with an inline flag, tags    *)
(*                that differ only by letter case (v2 / V2)                 *)
(*   FaultScns    one scripted fault in the first run (round 5): every      *)
(*                request class of the mirror path x the 1st-3rd request of *)
(*                the class x a hard / not-found / transient kind x run mode*)
(*                x entry types (repository, repository + platform, image,  *)
(*                registry), sequential and two parallel entries; a second  *)
(*                plain run follows                                         *)
(*   PlatScns     two and three entries of one configuration that read the  *)
(*                SAME source index (same or different tag / repository)    *)
(*                with different `platform:` values (amd64 / arm64 / unset) *)
(*                in every order: each target gets ITS platform's image     *)
(*                (round 5; the lookup cache is keyed by the index digest)  *)
(*   SameScns     the target is a repository of the source registry         *)
(*   S14Scns      top level alternations of 2-3 of the five pool tags in    *)
(*   S14Quick     every order, as allow and as deny list; with Anchoring =  *)
(*                "asis" (as found) TLC finds the C18-1 (S14) counterexample*)
(*   BkForceScns  platform + switches on a target that holds the index;     *)
(*                with PlatMatch = "asis" (as found): C18-2 counterexample  *)
(*   SharedBkScns two entries with the same constant backup name: the race  *)
(*                that makes "backup names of different entries are         *)
(*                distinct" an assumption of the check (parallel >= 2);     *)
(*                SharedBkSeqScns: the same with parallel 0 / 1 is fine     *)
(* Mirrors nothing in the code; it only enumerates inputs of RegSync.       *)
(***************************************************************************)
EXTENDS RegSync

CharsDef == [v1 |-> <<"v", "1">>, v10 |-> <<"v", "1", "0">>, xv2 |-> <<"x", "v", "2">>, v2 |-> <<"v", "2">>,
             latest |-> <<"l", "a", "t", "e", "s", "t">>, V2 |-> <<"V", "2">>, dtA |-> <<"s", "h", "a", "2", "5", "6", "-">>,
             r1 |-> <<"r", "1">>, r10 |-> <<"r", "1", "0">>, r2 |-> <<"r", "2">>, xr2 |-> <<"x", "r", "2">>]
\* lexicographic (ASCII: upper case first), as the registry lists them (dtA stands for sha256-...)
NameOrderDef == <<"V2", "latest", "r1", "r10", "r2", "dtA", "v1", "v10", "v2", "xr2", "xv2">>

E0 == [type |-> "repository", srepo |-> "r1", stag |-> "", treg |-> "tgt", trepo |-> "r1", ttag |-> "",
       allow |-> <<>>, deny |-> <<>>, rallow |-> <<>>, rdeny |-> <<>>, platform |-> "", mts |-> <<>>,
       backup |-> "none", referrers |-> FALSE, digestTags |-> FALSE, fastCheck |-> FALSE, force |-> FALSE]
Img1(r, t) == [E0 EXCEPT !.type = "image", !.srepo = r, !.stag = t, !.trepo = r, !.ttag = t]
F(ts, style) == [tags |-> ts, style |-> style]
Run(m) == [op |-> "run", mode |-> m, repo |-> "", tag |-> "", img |-> ""]
RunF(m, f) == [op |-> "run", mode |-> m, repo |-> "", tag |-> "", img |-> "", fault |-> f]
Flt(reg, cls, n, kind) == [reg |-> reg, cls |-> cls, nth |-> n, kind |-> kind, hit |-> FALSE]
Move(r, t, i) == [op |-> IF i = "" THEN "del" ELSE "move", mode |-> "", repo |-> r, tag |-> t, img |-> i]
Scn(c, s, t, p) == [conf |-> c, src |-> s, tgt |-> t, plan |-> p]
Conf(par, es) == [parallel |-> par, entries |-> es]
Pop(repo, f) == {<<repo, t, f[t]>> : t \in {u \in DOMAIN f : f[u] # ""}}
OrdSeq(S) == SelectSeq(NameOrderDef, LAMBDA x : x \in S)

\* ---------------------------------------------------------------- filters
T3 == {"v1", "v10", "v2"}
Lists3(z) == {<<>>} \cup {<<F(OrdSeq(a), "group")>> : a \in SUBSET T3}
               \cup {<<F(OrdSeq(a), "group"), F(OrdSeq(b), "class")>> : a, b \in SUBSET T3}
FilterScns(z) ==
  {Scn(Conf(0, <<[E0 EXCEPT !.allow = al, !.deny = de]>>), s,
       {<<"r1", "v1", "B">>, <<"r1", "v2", "A">>, <<"r1", "zz", "C">>}, <<Run("once")>>) :
     al \in Lists3(z), de \in Lists3(z),
     s \in {{<<"r1", "v1", "A">>, <<"r1", "v10", "A">>, <<"r1", "v2", "A">>},
            {<<"r1", "v1", "B">>, <<"r1", "v2", "X">>}}}

\* ---------------------------------------------------------------- one tag, all options
Switches == {<<FALSE, FALSE, FALSE, FALSE>>, <<TRUE, FALSE, FALSE, FALSE>>, <<FALSE, TRUE, FALSE, FALSE>>,
             <<FALSE, FALSE, TRUE, FALSE>>, <<FALSE, FALSE, FALSE, TRUE>>, <<TRUE, TRUE, FALSE, FALSE>>,
             <<FALSE, TRUE, TRUE, FALSE>>}       \* <<fastCheck, force, digestTags, referrers>>
Opt(e, pl, mt, bk, sw) == [e EXCEPT !.platform = pl, !.mts = mt, !.backup = bk, !.fastCheck = sw[1], !.force = sw[2],
                                    !.digestTags = sw[3], !.referrers = sw[4]]
DecideSpace(Types, SrcI, TgtI, Plats, Mtss, Bks, Sws, Plans) ==
  {Scn(Conf(0, <<Opt(e, pl, mt, bk, sw)>>),
       Pop("r1", [v1 |-> si, dtA |-> IF sw[3] THEN "S" ELSE ""]), Pop("r1", [v1 |-> ti, zz |-> "C"]), p) :
     e \in Types, si \in SrcI, ti \in TgtI, pl \in Plats, mt \in Mtss, bk \in Bks, sw \in Sws, p \in Plans}
Modes3 == {"once", "check", "missing"}
Plans2(Ms, Imgs) == {<<Run(a), Move("r1", "v1", i), Run(b)>> : a \in Ms, b \in Ms, i \in Imgs}
DecideQuick(z) ==
  DecideSpace({Img1("r1", "v1"), [E0 EXCEPT !.allow = <<F(<<"v1">>, "group")>>]}, {"A", "X", ""}, {"", "A", "B", "X", "Xa"},
              {"", "amd64", "s390x"}, {<<>>, <<"ociindex", "dockerman">>}, {"none", "tagtpl", "const"},
              {<<FALSE, FALSE, FALSE, FALSE>>, <<FALSE, TRUE, FALSE, FALSE>>, <<FALSE, FALSE, TRUE, FALSE>>},
              {<<Run("once")>>, <<Run("check")>>, <<Run("missing")>>, <<Run("once"), Move("r1", "v1", "B"), Run("once")>>,
               <<Run("once"), Move("r1", "v1", ""), Run("once")>>, <<Run("missing"), Move("r1", "v1", "X"), Run("once")>>})
DecideFull(z) ==
  DecideSpace({Img1("r1", "v1"), E0}, {"A", "B", "X", ""}, {"", "A", "X", "Xa"},
              {"", "amd64", "s390x"}, {<<>>, <<"ociindex", "dockerman">>},
              {"none", "tagtpl", "const", "fullref", "othreg"}, Switches,
              {<<Run(a)>> : a \in Modes3} \cup
              {<<Run(m[1]), Move("r1", "v1", i), Run(m[2])>> :
                 m \in {<<"once", "once">>, <<"missing", "once">>, <<"once", "check">>}, i \in {"A", "B", "X", ""}})

\* ---------------------------------------------------------------- a target with a missing layer
HoleSpace(Es, Mts, Sws) ==
  {Scn(Conf(0, <<Opt(e, "", mt, bk, sw)>>), Pop("r1", [v1 |-> si, v2 |-> "H"]), Pop("r1", [v1 |-> ti, zz |-> zi]), p) :
     e \in Es, si \in {"H", "A"}, ti \in {"H", "A", ""}, zi \in {"H", "C"}, mt \in Mts, bk \in {"none", "tagtpl", "fullref"}, sw \in Sws,
     p \in {<<Run("once")>>, <<Run("missing")>>, <<Run("check")>>, <<Run("once"), Move("r1", "v1", "H"), Run("once")>>}}
HoleScns(z) == HoleSpace({Img1("r1", "v1"), [E0 EXCEPT !.deny = <<F(<<"v2">>, "group")>>]}, {<<>>},
                         {<<FALSE, FALSE, FALSE, FALSE>>, <<FALSE, TRUE, FALSE, FALSE>>, <<TRUE, TRUE, FALSE, FALSE>>, <<FALSE, FALSE, TRUE, FALSE>>})
HoleFull(z) == HoleSpace({Img1("r1", "v1"), [E0 EXCEPT !.deny = <<F(<<"v2">>, "group")>>], E0}, {<<>>, <<"dockerman">>}, Switches)

\* ---------------------------------------------------------------- a tag moving forth and back
RollScns(z) ==
  {Scn(Conf(par, <<[e EXCEPT !.backup = bk]>>), {<<"r1", "v1", "A">>, <<"r1", "v2", "C">>}, t,
       <<Run("once"), Move("r1", "v1", "B"), Run("once"), Move("r1", "v1", last), Run(m), Move("r1", "v2", "B"), Run("once")>>) :
     par \in {0, 2}, e \in {Img1("r1", "v1"), E0}, bk \in {"none", "tagtpl", "const", "fullref", "othreg"},
     t \in {{}, {<<"r1", "v1", "A">>}, {<<"r1", "v1", "C">>, <<"r1", "old", "B">>, <<"r1", "bak-v1", "A">>}},
     last \in {"A", "C", "X"}, m \in {"once", "check"}}

\* ---------------------------------------------------------------- parallel entries
ParSrc == {<<"r1", "v1", "A">>, <<"r1", "v2", "B">>, <<"r2", "v1", "X">>, <<"r2", "latest", "A">>}
ParTgt == {<<"r1", "v1", "B">>, <<"r2", "v1", "Xb">>, <<"r2", "latest", "A">>}
ParScns(z) ==
  {Scn(Conf(par, es), ParSrc, ParTgt, <<Run(m), Move("r1", "v2", "C"), Run("once")>>) :
     par \in 0..4, m \in Modes3,
     es \in {<<[E0 EXCEPT !.backup = "tagtpl"], [E0 EXCEPT !.srepo = "r2", !.trepo = "r2", !.platform = "amd64", !.backup = "const"]>>,
             <<[Img1("r1", "v1") EXCEPT !.backup = "const"], [Img1("r1", "v2") EXCEPT !.backup = "tagtpl"],
               [E0 EXCEPT !.srepo = "r2", !.trepo = "m/r2", !.backup = "othreg"]>>}}

\* ---------------------------------------------------------------- entries sharing a source index, different platforms
Plats3 == {"amd64", "arm64", ""}
PlatA(p) == [Img1("r1", "v1") EXCEPT !.trepo = "solo", !.platform = p]
PlatB(t, p) == [Img1("r1", t) EXCEPT !.platform = p]
PlatC(p) == [E0 EXCEPT !.srepo = "r2", !.trepo = "r2", !.platform = p]
PlatSrc(i) == {<<"r1", "v1", i>>, <<"r1", "v2", i>>, <<"r2", "v1", i>>, <<"r2", "latest", "A">>}
PlatScns(z) ==
  {Scn(Conf(0, es), PlatSrc(i), {<<"r2", "latest", "A">>}, <<Run(m), Run("once")>>) :
     i \in {"X", "Y"}, m \in {"once", "check"},
     es \in UNION {{<<PlatA(p1), PlatB(t, p2)>>, <<PlatB(t, p1), PlatC(p2)>>, <<PlatC(p1), PlatA(p2)>>} : p1 \in Plats3, p2 \in Plats3, t \in {"v1", "v2"}}
          \cup {<<PlatA(p1), PlatB("v2", p2), PlatC(p3)>> : p1 \in Plats3, p2 \in Plats3, p3 \in Plats3}} \cup
  {Scn(Conf(2, es), PlatSrc("X"), {}, <<Run("once")>>) :
     es \in UNION {{<<PlatA(p1), PlatB("v1", p2)>>, <<PlatB("v2", p1), PlatC(p2)>>} : p1 \in Plats3, p2 \in Plats3}}

\* ---------------------------------------------------------------- one scripted fault
FaultClasses == {<<"src", "catalog">>, <<"src", "tag_list">>, <<"src", "manifest_head">>, <<"src", "manifest_get">>, <<"src", "blob_get">>,
                 <<"tgt", "tag_list">>, <<"tgt", "blob_head">>, <<"tgt", "upload_post">>, <<"tgt", "upload_put">>, <<"tgt", "manifest_put">>}
FaultEntries == {<<[E0 EXCEPT !.backup = "tagtpl"], [E0 EXCEPT !.srepo = "r2", !.trepo = "r2", !.platform = "amd64"]>>,
                 <<[E0 EXCEPT !.type = "registry", !.srepo = "", !.trepo = "", !.rdeny = <<F(<<"r10">>, "group")>>]>>,
                 <<Img1("r1", "v2"), [E0 EXCEPT !.allow = <<F(<<"v1", "v2">>, "group")>>]>>}
FaultScns(z) ==
  {Scn(Conf(0, es), ParSrc, ParTgt, <<RunF(m, Flt(c[1], c[2], n, kind)), Run("once")>>) :
     es \in FaultEntries, m \in Modes3, c \in FaultClasses, n \in 1..3, kind \in {"404", "403", "500once"}} \cup
  {Scn(Conf(2, es), ParSrc, ParTgt, <<RunF("once", Flt(c[1], c[2], n, "404")), Run("once")>>) :
     es \in FaultEntries, c \in FaultClasses, n \in 1..2}

\* ---------------------------------------------------------------- mirror inside the source registry
SameScns(z) ==
  {Scn(Conf(par, <<[e EXCEPT !.treg = "src", !.trepo = "mirror/r1", !.backup = bk, !.platform = pl],
                   [E0 EXCEPT !.srepo = "r2", !.trepo = "r2", !.backup = "const"]>>),
       {<<"r1", "v1", "A">>, <<"r1", "v2", "X">>, <<"r2", "v1", "B">>, <<"mirror/r1", "v1", t1>>, <<"mirror/r1", "zz", "C">>},
       {<<"r2", "v1", "A">>, <<"r1", "v1", "C">>}, <<Run(m), Move("r1", "v1", "B"), Run("once")>>) :
     par \in {0, 2}, e \in {Img1("r1", "v1"), E0}, bk \in {"none", "tagtpl", "const", "fullref", "othreg"},
     pl \in {"", "arm64"}, t1 \in {"A", "B"}, m \in Modes3}

\* ---------------------------------------------------------------- registry entries
R3 == {"r1", "r10", "r2"}
RLists(z) == {<<>>} \cup {<<F(OrdSeq(a), "group")>> : a \in SUBSET R3}
RegScns(z) ==
  {Scn(Conf(par, <<[E0 EXCEPT !.type = "registry", !.srepo = "", !.trepo = "", !.rallow = ra, !.rdeny = rd,
                               !.allow = al, !.deny = <<F(<<"v2">>, "class")>>, !.backup = "fullref"]>>),
       {<<"r1", "v1", "A">>, <<"r1", "v2", "B">>, <<"r10", "v1", "B">>, <<"r2", "v2", "A">>, <<"r2", "latest", "X">>},
       {<<"r1", "v1", "B">>, <<"r10", "v1", "B">>, <<"r2", "v2", "C">>, <<"r2", "latest", "A">>},
       <<Run(m), Move("r10", "v1", "C"), Run("once")>>) :
     par \in {0, 3}, ra \in RLists(z), rd \in RLists(z), al \in {<<>>, <<F(<<"v1", "latest">>, "group")>>}, m \in Modes3}

\* ---------------------------------------------------------------- S14
T5 == {"v1", "v10", "xv2", "v2", "latest"}
AltSeqs(z) == {s \in UNION {[1..n -> T5] : n \in 2..3} : \A i, j \in DOMAIN s : i # j => s[i] # s[j]}
S14Scns(z) ==
  {Scn(Conf(0, <<[E0 EXCEPT !.allow = al, !.deny = de]>>), {<<"r1", t, "A">> : t \in T5}, {<<"r1", "v10", "B">>}, <<Run("once")>>) :
     al \in {<<>>} \cup {<<F(s, "alt")>> : s \in AltSeqs(z)}, de \in {<<>>} \cup {<<F(s, "alt")>> : s \in AltSeqs(z)}}

\* the two element alternations only (quick tier, anchored reading)
S14Quick(z) ==
  {Scn(Conf(0, <<[E0 EXCEPT !.allow = al, !.deny = de]>>), {<<"r1", t, "A">> : t \in T5}, {<<"r1", "v10", "B">>}, <<Run("once")>>) :
     al \in {<<>>} \cup {<<F(s, "alt")>> : s \in {q \in AltSeqs(z) : Len(q) = 2}}, de \in {<<>>, <<F(<<"v2", "v1">>, "alt")>>}}

\* ---------------------------------------------------------------- regular expression features
\* two-entry allow / deny lists whose first entry carries an inline flag (unclosed or scoped) and
\* whose later entry is plain, over tags that differ only by letter case.  The design treats an
\* entry as the subset it matches on its own whatever its spelling; the spellings matter to the
\* real binary (how the entries of a list are combined).
CaseTags == {"v1", "v2", "V2"}
FlagScns(z) ==
  {Scn(Conf(0, <<IF pos = "allow" THEN [E0 EXCEPT !.allow = <<F(OrdSeq(a), s1), F(OrdSeq(b), s2)>>]
                                   ELSE [E0 EXCEPT !.deny = <<F(OrdSeq(a), s1), F(OrdSeq(b), s2)>>]>>),
       {<<"r1", t, "A">> : t \in CaseTags} \cup {<<"r1", "latest", "B">>}, {<<"r1", "V2", "C">>, <<"r1", "zz", "C">>}, <<Run("once")>>) :
     a \in SUBSET CaseTags, s1 \in {"iflag", "iscoped"}, b \in (SUBSET CaseTags) \ {{}}, s2 \in {"group", "anch"}, pos \in {"allow", "deny"}}

\* ---------------------------------------------------------------- forced platform copy over an index
BkForceScns(z) ==
  {Scn(Conf(0, <<Opt(Img1("r1", "v1"), "amd64", <<>>, bk, sw)>>), {<<"r1", "v1", "X">>}, {<<"r1", "v1", "X">>}, <<Run("once")>>) :
     bk \in {"tagtpl", "const"}, sw \in Switches}

\* ---------------------------------------------------------------- shared backup name
SharedBkScns(z) ==
  {Scn(Conf(par, <<[Img1("r1", "v1") EXCEPT !.backup = "const"], [Img1("r1", "v2") EXCEPT !.backup = "const"]>>),
       {<<"r1", "v1", "A">>, <<"r1", "v2", "A">>}, {<<"r1", "v1", "B">>, <<"r1", "v2", "C">>}, <<Run("once")>>) : par \in {2}}
SharedBkSeqScns(z) ==
  {Scn(Conf(par, <<[Img1("r1", "v1") EXCEPT !.backup = "const"], [Img1("r1", "v2") EXCEPT !.backup = "const"]>>),
       {<<"r1", "v1", "A">>, <<"r1", "v2", "A">>}, {<<"r1", "v1", "B">>, <<"r1", "v2", "C">>}, <<Run("once")>>) : par \in {0, 1}}

\* TLC evaluates every constant level definition without parameters when it starts; the spaces
\* above take a dummy parameter so that only the one a configuration selects is built
CONSTANT Space
SpaceScns == CASE Space = "quick" -> <<FilterScns(0), DecideQuick(0), RollScns(0), ParScns(0), RegScns(0), SharedBkSeqScns(0), SameScns(0), HoleScns(0), FlagScns(0),
                                      BkForceScns(0), S14Quick(0), FaultScns(0), PlatScns(0)>>
               [] Space = "gen" -> <<DecideQuick(0), RollScns(0), ParScns(0), RegScns(0), SameScns(0), S14Quick(0), BkForceScns(0), HoleScns(0), FlagScns(0), FaultScns(0), FaultScns(0), FaultScns(0), PlatScns(0), PlatScns(0)>>
               [] Space = "full" -> <<DecideFull(0), HoleFull(0)>>
               [] Space = "par" -> <<ParScns(0)>>
               [] Space = "fault" -> <<FaultScns(0)>>
               [] Space = "plat" -> <<PlatScns(0)>>
               [] Space = "s14" -> <<S14Scns(0)>>
               [] Space = "bkforce" -> <<BkForceScns(0)>>
               [] Space = "sharedbk" -> <<SharedBkScns(0)>>
               [] OTHER -> <<SharedBkSeqScns(0)>>
=============================================================================

SPECIFICATION Spec
CONSTANTS
 FewerIsMismatch = TRUE
 NilCreatedSafe = TRUE
 NilPlatformSafe = TRUE
 Mut = ""
 Level = 2
INVARIANTS Holds TypeOk RefusedIsErr
CHECK_DEADLOCK FALSE

\* ocidir.ManifestDelete as found: the model reproduces S15 (expected: Containment violated)
CONSTANTS TitleClean = "rooted" LinkPolicy = "skip" DeleteValidates = FALSE MaxFull = 1 MaxCore = 1
  Eps = {"lay"}
SPECIFICATION Spec
INVARIANTS Containment
CHECK_DEADLOCK FALSE

\* switch DeleteValidates = FALSE: ocidir.ManifestDelete as it was before fix 3b8373e (S15, finding C20-1; the reverse of
\* the fix is seeded/fixrev-C20-manifestdelete-digest).  Expected counterexample: Containment violated by ManifestDelete
\* with a caller-supplied manifest and a digest such as sha256:../../../victim.  The default of every other
\* configuration is DeleteValidates = TRUE (the repaired code).
CONSTANTS TitleClean = "rooted" ExtractGuard = "reroot" Whiteout = "none" LinkPolicy = "skip" DeleteValidates = FALSE MaxFull = 1 MaxCore = 1
  Eps = {"lay"}
SPECIFICATION Spec
INVARIANTS Containment
CHECK_DEADLOCK FALSE

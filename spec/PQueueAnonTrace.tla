-------------------------- MODULE PQueueAnonTrace --------------------------
(* Trace spec for C17, anonymous-entry runs (harness/cmd/c17drv -mode anon). *)
EXTENDS PQueueAnonProp, Json, IOUtils
Log == ndJsonDeserialize(IOEnv.VERIF_TRACE)
VARIABLE l
Ev == Log[l]
TInit == AInit /\ l = 1
TNext ==
  /\ l <= Len(Log)
  /\ l' = l + 1
  /\ \/ Ev.ev = "reset" /\ AReset
     \/ Ev.ev \in {"a_acq_fast", "a_try_ok"} /\ AAdmit(Ev.q, Ev.p, Ev.max, Ev.act, Ev.que)
     \/ Ev.ev = "a_enqueue" /\ AEnqueue(Ev.q, Ev.p, Ev.max, Ev.act, Ev.que)
     \/ Ev.ev = "a_promote" /\ APromote(Ev.q)
     \/ Ev.ev = "a_wake" /\ AWake(Ev.q, Ev.p)
     \/ Ev.ev = "a_cancel_rm" /\ ACancelRemove(Ev.q, Ev.p, Ev.act, Ev.que)
     \/ Ev.ev = "a_cancel_pass" /\ ACancelPass(Ev.q, Ev.p, Ev.act, Ev.que)
     \/ Ev.ev = "a_released" /\ AReleased(Ev.q, Ev.p, Ev.max, Ev.act, Ev.que)
     \/ Ev.ev = "a_try_fail" /\ ATryFail(Ev.q, Ev.p, Ev.act, Ev.que)
     \/ Ev.ev = "gaveup" /\ AGaveUp(Ev.p)
     \/ Ev.ev = "holding" /\ AHolding(Ev.q, Ev.p)
     \/ Ev.ev = "quiescent" /\ AQuiescent
     \/ Ev.ev = "final" /\ AFinal
     \/ Ev.ev = "stuck" /\ AStuck
TSpec == TInit /\ [][TNext]_<<avars, l>>
HW == TLCSet(1, IF TLCGet(1) > l THEN TLCGet(1) ELSE l)
Accepted == PrintT(<<"HIGHWATER", TLCGet(1), Len(Log)>>)
ASSUME TLCSet(1, 0)
=============================================================================

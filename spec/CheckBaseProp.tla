---------------------------- MODULE CheckBaseProp ----------------------------
(***************************************************************************)
(* X06 - (P) property monitor for regclient.ImageCheckBase: the observer   *)
(* state machine over reset / req / done events.  The obligations are the  *)
(* operators of CheckBaseMeaning (Allowed, Judge), written from the        *)
(* statement in extra.d/X06.json.  Mirrors no code.                        *)
(***************************************************************************)
EXTENDS CheckBaseMeaning

VARIABLES pw, prefused, pwrote, pphase, bad
pvars == <<pw, prefused, pwrote, pphase, bad>>

NoWorld == [opt |-> [ref |-> 0, dig |-> "", skip |-> 0, plat |-> ""],
            img |-> [kind |-> "missing", ann |-> "none", ents |-> <<>>],
            base |-> [kind |-> "missing", ann |-> "none", ents |-> <<>>]]
PInit == pw = NoWorld /\ prefused = FALSE /\ pwrote = FALSE /\ pphase = "idle" /\ bad = ""
PReset(w) == pw' = w /\ prefused' = FALSE /\ pwrote' = FALSE /\ pphase' = "run" /\ bad' = ""
PReq(method, refused) ==
  /\ pphase = "run"
  /\ prefused' = (prefused \/ refused = 1)
  /\ pwrote' = (pwrote \/ method \notin {"GET", "HEAD"})
  /\ bad' = IF method \notin {"GET", "HEAD"} THEN "read-only" ELSE bad
  /\ UNCHANGED <<pw, pphase>>
PDone(res, mutated) ==
  /\ pphase = "run"
  /\ pphase' = "idle"
  /\ bad' = IF bad # "" THEN bad ELSE Judge(pw, prefused, pwrote, mutated, res)
  /\ UNCHANGED <<pw, prefused, pwrote>>
Ok == bad = ""
=============================================================================

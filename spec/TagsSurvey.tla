---------------------------- MODULE TagsSurvey ----------------------------
(* Survey pass of the C06 trace validation for seq-mode traces only: the    *)
(* same monitor TagsProp driven by the same events as in TagsTrace, but a   *)
(* violated obligation does not stop TLC: it is printed                     *)
(*      <<"REJECT", trace id, line of the offending event, obligation>>     *)
(* when the next trace starts, the rest of the offending trace is skipped,  *)
(* and the run goes on.  In seq mode the monitor is deterministic, so one   *)
(* pass decides every trace (a rejected trace costs no JVM restart).  The   *)
(* runner confirms one representative of every rejected class through       *)
(* TagsTrace (invariant Ok) as well.  The log must end with a reset line.   *)
EXTENDS TagsProp, Json, IOUtils, Integers
Log == ndJsonDeserialize(IOEnv.VERIF_TRACE)
VARIABLES l, tid, badl
Ev == Log[l]
SInit == PInit /\ l = 1 /\ tid = "" /\ badl = 0
Act == \/ Ev.ev = "op" /\ POp(Ev.kind, Ev.tag, Ev.man, Ev.res, Ev.list)
       \/ Ev.ev = "obs" /\ PObs(Ev.list, Ev.head, Ev.get, Ev.ft)
       \/ Ev.ev = "rawreg" /\ PRawReg(Ev.tags, Ev.xtags, Ev.mans)
       \/ Ev.ev = "rawidx" /\ PRawIdx(Ev.valid, Ev.ent, Ev.files)
       \/ Ev.ev = "note" /\ PNote
SNext ==
  /\ l <= Len(Log)
  /\ l' = l + 1
  /\ IF Ev.ev = "reset"
     THEN /\ Ev.mode = "seq"
          /\ bad # "" => PrintT(<<"REJECT", tid, badl, bad>>)
          /\ PReset(Ev.mode, Ev.backend, Ev.alist, Ev.adel, Ev.tags0, Ev.amb0, Ev.mans0, Ev.fallback, Ev.withman, Ev.subj, Ev.mdelok)
          /\ tid' = Ev.trace /\ badl' = 0
     ELSE IF bad # "" THEN UNCHANGED <<pvars, tid, badl>>
     ELSE /\ Act
          /\ tid' = tid
          /\ badl' = IF bad' # "" THEN l ELSE 0
SSpec == SInit /\ [][SNext]_<<pvars, l, tid, badl>>
HW == TLCSet(1, IF TLCGet(1) > l THEN TLCGet(1) ELSE l)
Accepted == PrintT(<<"HIGHWATER", TLCGet(1), Len(Log)>>)
ASSUME TLCSet(1, 0)
=============================================================================

CONSTANTS
 Tags = {"t1", "t2", "t3"}
 Mans = {"m1", "m2", "m3"}
 TagOrder <- MCTagOrder3
 Procs = {"p1"}
 Confs <- Seq1Both
 MaxOps = 4
 OpTags = {"t1", "t2"}
 OpMans = {"m1", "m2"}
 OpKinds <- MutGc
 UseMutex = TRUE
 FreshPH = TRUE
INIT SInit
NEXT SNext
INVARIANTS Emit
CHECK_DEADLOCK FALSE

\* what if Extract applied whiteout markers by stripping ".wh." from the cleaned base name (seeded C20-6)?  expected:
\* Containment violated by the name ".wh..." in the root of the archive (what is left is "..": the parent is removed)
CONSTANTS TitleClean = "rooted" ExtractGuard = "reroot" Whiteout = "strip" LinkPolicy = "skip" DeleteValidates = TRUE MaxFull = 1 MaxCore = 1
  Eps = {"tar"}
SPECIFICATION Spec
INVARIANTS Containment
CHECK_DEADLOCK FALSE

CONSTANTS
 Confs <- MCConfs
 FixWaitErr = TRUE
 Reduce = FALSE
 MCShapes = {"schema1", "bentry", "dtag", "art", "loop", "idx2"}
 MCPairs = {"samereg", "tworeg", "reg2dir", "samerepo", "dir2reg"}
 MCOpts <- MCOptsAll
 MCFeats <- MCFeatsAll
 MCInit = "corners"
 MCTag0 = {"none", "same"}
 MCByDigest = {FALSE, TRUE}
 MCTgtByDigest = {FALSE}
 MaxFaults = 2
 AllowCancel = TRUE
 AllowCrash = TRUE
 Cap = 2
 Rare = 12
INIT Init
NEXT CovNext
INVARIANTS TypeOK
CHECK_DEADLOCK FALSE

\* random programs of length <= 5 over the whole vocabulary (-simulate)
CONSTANTS
 Images <- ImagesGen
 Options <- OptsGen
 MaxProg = 5
 Places <- AllPlaces
 FixData = FALSE
 FixWriter = FALSE
 FixAdded = FALSE
 FixTag = FALSE
 Fine = FALSE
SPECIFICATION Spec
INVARIANT Emit
CHECK_DEADLOCK FALSE

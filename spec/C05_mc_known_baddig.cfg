INIT Init
NEXT Next
CONSTANTS
 Confs <- BadDigConfs
 MaxPartial = 0
 MaxFaults = 0
 DefChunk = 2
 ChunkLimit = 6
 RetryLimit = 10
 HttpRetries = 5
 IgnoreInvalidDigest = TRUE
INVARIANTS O2Strict

SPECIFICATION Spec
CONSTANTS
 FewerIsMismatch = TRUE
 NilCreatedSafe = FALSE
 NilPlatformSafe = TRUE
 Mut = ""
 Level = 0
INVARIANTS Holds
CHECK_DEADLOCK FALSE

SPECIFICATION Spec
VIEW View
INVARIANTS TypeOK LeaksOnlyS3 LeaksOnlyKnown
CHECK_DEADLOCK FALSE
CONSTANTS
 HonorsHost = FALSE
 SchemeBound = TRUE
 PgNoMirrors = TRUE
 FoldCase = TRUE
 StripOnRedirect = TRUE
 MaxFaults = 3
 Confs <- QuickGenConfs
 ChalKinds <- AllChal
 FaultKinds <- AllFaults
 RedirTo <- AllRedir
 TokReplies <- AllTok
 ForeignRealms <- TaRealm
 LocTo <- AllLoc

\* baseline, interruption WITHOUT death: ONE error return (quick subset; / failing source readers C07_mc_fault.cfg has two: copy goroutines whose context
\* was cancelled) in the first attempt, the process goes on through its error path (+ Close), may still be killed, then the retry: holds
CONSTANTS
 Scenarios <- FaultQ
 MaxCrash = 1
 MarkerMode = "ifbad"
 MarkerWindow = TRUE
 MaxFault = 1
INIT Init
NEXT Next
INVARIANTS TypeOK NoStuck CrashStateOK ReturnOK RetryOK FaultRetOK
CHECK_DEADLOCK FALSE

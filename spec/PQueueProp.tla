---------------------------- MODULE PQueueProp ----------------------------
(***************************************************************************)
(* (P) property monitor for C17 (request throttles).  Observation shaped:  *)
(* it knows nothing about how the queue decides, it only tracks, from the  *)
(* events emitted at the queue's linearization points, who is in the       *)
(* active list and who waits, and states the property:                     *)
(*   bound        never more entries admitted than the limit               *)
(*   count        the queue's own lengths (logged under its mutex) equal   *)
(*                what the admissions/releases observed so far imply       *)
(*                (a slot that leaks or vanishes shows here first)         *)
(*   handover     a wake-up is consumed only by the entry it was meant for *)
(*   gaveup       a caller that returned an error holds no slot, waits in  *)
(*                no queue and owes no hand-over                           *)
(*   quiescent    when nobody can move, a waiter implies a full queue of   *)
(*                real holders (no lost wake-up, no lost slot)             *)
(*   final        when every caller has finished all queues are empty      *)
(*   deadlock     the run never gets stuck with unfinished callers         *)
(* The first violated obligation is latched in `bad`.                      *)
(***************************************************************************)
EXTENDS Naturals, FiniteSets, Sequences, TLC
VARIABLES act,      \* queue -> set of entries in the active list
          que,      \* queue -> set of waiting entries
          mx,       \* queue -> limit
          handed,   \* <<q,p>>: promoted by a release, wake-up not yet consumed
          owes,     \* <<q,p>>: raced hand-over the cancelled caller must pass on
          bad
pvars == <<act, que, mx, handed, owes, bad>>

Get(f, q) == IF q \in DOMAIN f THEN f[q] ELSE {}
Put(f, q, v) == [x \in DOMAIN f \cup {q} |-> IF x = q THEN v ELSE f[x]]
Flag(b, name) == IF bad # "" THEN bad ELSE IF b THEN name ELSE ""
\* first failing check of a list of <<condition-that-is-bad, name>>
First(checks) == IF bad # "" THEN bad
                 ELSE IF \E i \in 1..Len(checks) : checks[i][1]
                      THEN checks[CHOOSE i \in 1..Len(checks) : checks[i][1] /\ \A j \in 1..(i-1) : ~checks[j][1]][2]
                      ELSE ""
CountBad(a, w, nAct, nQue) == (nAct >= 0 /\ nAct # Cardinality(a)) \/ (nQue >= 0 /\ nQue # Cardinality(w))

PInit == act = <<>> /\ que = <<>> /\ mx = <<>> /\ handed = {} /\ owes = {} /\ bad = ""
PReset == act' = <<>> /\ que' = <<>> /\ mx' = <<>> /\ handed' = {} /\ owes' = {} /\ bad' = ""

\* an entry is admitted directly (Acquire fast path, TryAcquire success)
PAdmit(q, p, m, nAct, nQue) ==
  LET a == Get(act, q) \cup {p} IN
  /\ act' = Put(act, q, a)
  /\ mx' = Put(mx, q, m)
  /\ bad' = First(<< <<p \in Get(act, q), "double-admit">>,
                    <<Cardinality(a) > m, "bound">>,
                    <<CountBad(a, Get(que, q), nAct, nQue), "count">> >>)
  /\ UNCHANGED <<que, handed, owes>>

PEnqueue(q, p, m, nAct, nQue) ==
  LET w == Get(que, q) \cup {p} IN
  /\ que' = Put(que, q, w)
  /\ mx' = Put(mx, q, m)
  /\ bad' = First(<< <<p \in Get(act, q) \/ p \in Get(que, q), "double-enqueue">>,
                    <<CountBad(Get(act, q), w, nAct, nQue), "count">> >>)
  /\ UNCHANGED <<act, handed, owes>>

\* a release hands its slot to waiter p (inside release's critical section; the bound is
\* checked at the `released` event that closes that critical section)
PPromote(q, p) ==
  /\ que' = Put(que, q, Get(que, q) \ {p})
  /\ act' = Put(act, q, Get(act, q) \cup {p})
  /\ handed' = handed \cup {<<q, p>>}
  /\ bad' = Flag(p \notin Get(que, q), "promote-nonwaiter")
  /\ UNCHANGED <<mx, owes>>

PWake(q, p) ==
  /\ handed' = handed \ {<<q, p>>}
  /\ bad' = Flag(<<q, p>> \notin handed, "wake-without-handover")
  /\ UNCHANGED <<act, que, mx, owes>>

PCancelRemove(q, p, nAct, nQue) ==
  LET w == Get(que, q) \ {p} IN
  /\ que' = Put(que, q, w)
  /\ bad' = First(<< <<p \notin Get(que, q), "cancel-remove-nonwaiter">>,
                    <<CountBad(Get(act, q), w, nAct, nQue), "count">> >>)
  /\ UNCHANGED <<act, mx, handed, owes>>

PCancelPass(q, p, nAct, nQue) ==
  /\ handed' = handed \ {<<q, p>>}
  /\ owes' = owes \cup {<<q, p>>}
  /\ bad' = First(<< <<<<q, p>> \notin handed, "cancel-pass-without-handover">>,
                    <<CountBad(Get(act, q), Get(que, q), nAct, nQue), "count">> >>)
  /\ UNCHANGED <<act, que, mx>>

PReleased(q, p, m, nAct, nQue) ==
  LET a == Get(act, q) \ {p} IN
  /\ act' = Put(act, q, a)
  /\ owes' = owes \ {<<q, p>>}
  /\ bad' = First(<< <<Cardinality(a) > m, "bound">>,
                    <<CountBad(a, Get(que, q), nAct, nQue), "count">> >>)
  /\ UNCHANGED <<que, mx, handed>>

PTryFail(q, p, nAct, nQue) ==
  /\ bad' = Flag(CountBad(Get(act, q), Get(que, q), nAct, nQue), "count")
  /\ UNCHANGED <<act, que, mx, handed, owes>>

\* harness observations -------------------------------------------------
\* caller p got an error back from Acquire / AcquireMulti
PGaveUp(p) ==
  /\ bad' = Flag(\/ \E q \in DOMAIN act : p \in act[q]
                 \/ \E q \in DOMAIN que : p \in que[q]
                 \/ \E x \in owes \cup handed : x[2] = p, "gaveup-keeps-slot")
  /\ UNCHANGED <<act, que, mx, handed, owes>>

\* caller p returned successfully holding queue q
PHolding(q, p) ==
  /\ bad' = Flag(p \notin Get(act, q) \/ <<q, p>> \in handed \cup owes, "holding-not-active")
  /\ UNCHANGED <<act, que, mx, handed, owes>>

\* no caller can take a step except holders releasing: a waiter implies a full queue
PQuiescent ==
  /\ bad' = Flag(\/ handed # {} \/ owes # {}
                 \/ \E q \in DOMAIN que : que[q] # {} /\ Cardinality(Get(act, q)) < mx[q],
                 "waiter-with-free-slot")
  /\ UNCHANGED <<act, que, mx, handed, owes>>

PFinal ==
  /\ bad' = Flag(\/ \E q \in DOMAIN act : act[q] # {}
                 \/ \E q \in DOMAIN que : que[q] # {}
                 \/ handed # {} \/ owes # {}, "leftover-after-all-finished")
  /\ UNCHANGED <<act, que, mx, handed, owes>>

PStuck == bad' = Flag(TRUE, "deadlock") /\ UNCHANGED <<act, que, mx, handed, owes>>
PNote == UNCHANGED pvars

Ok == bad = ""
=============================================================================

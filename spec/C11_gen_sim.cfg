SPECIFICATION Spec
INVARIANTS Emit
CHECK_DEADLOCK FALSE
CONSTANTS
 HonorsHost = FALSE
 SchemeBound = TRUE
 StripOnRedirect = TRUE
 MaxFaults = 4
 Confs <- AllConfs
 ChalKinds <- AllChal
 FaultKinds <- AllFaults
 RedirTo <- AllRedir
 TokReplies <- AllTok
 ForeignRealms <- TaRealm

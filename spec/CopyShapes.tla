----------------------------- MODULE CopyShapes -----------------------------
(* Graph catalogue of C03 / C04 / C14, generated from harness/cmd/copydrv      *)
(* (content.go: buildShape) by tools/props/copy_common.py:shapes_tla; the      *)
(* runner refuses to run when this file and the driver disagree.  Per shape:   *)
(* root; mans: manifest -> kind; kids: manifest -> sequence of descriptors     *)
(* <<child, role, platform, inline>> in document order (duplicates kept);      *)
(* refs: <<referrer, subject, artifact type>>; dtags: <<tag, on, to>>;         *)
(* fbs: the fall-back referrer indexes <<index, subject>> a source without     *)
(* referrers API holds under the tag sha256-<hex of subject>; long: objects     *)
(* named by a sha512 digest (their fall-back tag is truncated, hence no digest  *)
(* tag); uniq / uniqfb:                                                         *)
(* objects that exactly one descriptor, referrer edge or digest tag names       *)
(* (without / with those fall-back indexes), used by (D)'s reduction.           *)
EXTENDS TLC

Shape_img == [root |-> "M",
  blobs |-> {"C", "L1", "L2"},
  mans |-> ("M" :> "image"),
  kids |-> ("M" :> <<<<"C", "config", "", FALSE>>, <<"L1", "layer", "", FALSE>>, <<"L2", "layer", "", FALSE>>>>),
  refs |-> {},
  dtags |-> {},
  long |-> {},
  fbs |-> {},
  uniq |-> {"C", "L1", "L2", "M"},
  uniqfb |-> {"C", "L1", "L2", "M"},
  order |-> <<"C", "L1", "L2", "M">>]

Shape_dup == [root |-> "M",
  blobs |-> {"C", "L1", "L2"},
  mans |-> ("M" :> "image"),
  kids |-> ("M" :> <<<<"C", "config", "", FALSE>>, <<"L1", "layer", "", FALSE>>, <<"L1", "layer", "", FALSE>>, <<"L2", "layer", "", FALSE>>, <<"L1", "layer", "", FALSE>>>>),
  refs |-> {},
  dtags |-> {},
  long |-> {},
  fbs |-> {},
  uniq |-> {"C", "L2", "M"},
  uniqfb |-> {"C", "L2", "M"},
  order |-> <<"C", "L1", "L2", "M">>]

Shape_idx2 == [root |-> "I",
  blobs |-> {"L", "L1", "C1", "C2"},
  mans |-> ("M1" :> "image") @@ ("M2" :> "image") @@ ("I" :> "index"),
  kids |-> ("M1" :> <<<<"C1", "config", "", FALSE>>, <<"L", "layer", "", FALSE>>, <<"L1", "layer", "", FALSE>>>>) @@
           ("M2" :> <<<<"C2", "config", "", FALSE>>, <<"L", "layer", "", FALSE>>>>) @@
           ("I" :> <<<<"M1", "entry", "linux/amd64", FALSE>>, <<"M2", "entry", "linux/arm64", FALSE>>>>),
  refs |-> {},
  dtags |-> {},
  long |-> {},
  fbs |-> {},
  uniq |-> {"L1", "C1", "C2", "M1", "M2", "I"},
  uniqfb |-> {"L1", "C1", "C2", "M1", "M2", "I"},
  order |-> <<"L", "L1", "C1", "C2", "M1", "M2", "I">>]

Shape_nested == [root |-> "O",
  blobs |-> {"L1", "C1", "C2"},
  mans |-> ("M1" :> "image") @@ ("M2" :> "image") @@ ("I" :> "index") @@ ("N" :> "index") @@ ("O" :> "index"),
  kids |-> ("M1" :> <<<<"C1", "config", "", FALSE>>, <<"L1", "layer", "", FALSE>>>>) @@
           ("M2" :> <<<<"C2", "config", "", FALSE>>, <<"L1", "layer", "", FALSE>>>>) @@
           ("I" :> <<<<"M1", "entry", "linux/amd64", FALSE>>>>) @@
           ("N" :> <<<<"I", "entry", "linux/amd64", FALSE>>>>) @@
           ("O" :> <<<<"N", "entry", "linux/amd64", FALSE>>, <<"M2", "entry", "linux/arm64", FALSE>>>>),
  refs |-> {},
  dtags |-> {},
  long |-> {},
  fbs |-> {},
  uniq |-> {"C1", "C2", "M1", "M2", "I", "N", "O"},
  uniqfb |-> {"C1", "C2", "M1", "M2", "I", "N", "O"},
  order |-> <<"L1", "C1", "C2", "M1", "M2", "I", "N", "O">>]

Shape_art == [root |-> "M",
  blobs |-> {"C", "L1", "E", "B1", "B2", "B3"},
  mans |-> ("M" :> "image") @@ ("R1" :> "artifact") @@ ("R2" :> "artifact") @@ ("RR" :> "artifact"),
  kids |-> ("M" :> <<<<"C", "config", "", FALSE>>, <<"L1", "layer", "", FALSE>>>>) @@
           ("R1" :> <<<<"E", "config", "", FALSE>>, <<"B1", "layer", "", FALSE>>>>) @@
           ("R2" :> <<<<"E", "config", "", FALSE>>, <<"B2", "layer", "", FALSE>>>>) @@
           ("RR" :> <<<<"E", "config", "", FALSE>>, <<"B3", "layer", "", FALSE>>>>) @@
           ("FB:M" :> <<<<"R1", "entry", "", FALSE>>, <<"R2", "entry", "", FALSE>>>>) @@
           ("FB:R1" :> <<<<"RR", "entry", "", FALSE>>>>),
  refs |-> {<<"R1", "M", "sbom">>, <<"R2", "M", "sig">>, <<"RR", "R1", "sig">>},
  dtags |-> {},
  long |-> {},
  fbs |-> {<<"FB:M", "M">>, <<"FB:R1", "R1">>},
  uniq |-> {"C", "L1", "M", "B1", "B2", "B3", "R1", "R2", "RR"},
  uniqfb |-> {"C", "L1", "M", "B1", "B2", "B3", "FB:M", "FB:R1"},
  order |-> <<"C", "L1", "M", "E", "B1", "B2", "B3", "R1", "R2", "RR">>]

Shape_artidx == [root |-> "I",
  blobs |-> {"L1", "C1", "C2", "E", "B1", "B2"},
  mans |-> ("M1" :> "image") @@ ("M2" :> "image") @@ ("I" :> "index") @@ ("R1" :> "artifact") @@ ("RI" :> "artifact"),
  kids |-> ("M1" :> <<<<"C1", "config", "", FALSE>>, <<"L1", "layer", "", FALSE>>>>) @@
           ("M2" :> <<<<"C2", "config", "", FALSE>>, <<"L1", "layer", "", FALSE>>>>) @@
           ("I" :> <<<<"M1", "entry", "linux/amd64", FALSE>>, <<"M2", "entry", "linux/arm64", FALSE>>>>) @@
           ("R1" :> <<<<"E", "config", "", FALSE>>, <<"B1", "layer", "", FALSE>>>>) @@
           ("RI" :> <<<<"E", "config", "", FALSE>>, <<"B2", "layer", "", FALSE>>>>) @@
           ("FB:M1" :> <<<<"R1", "entry", "", FALSE>>>>) @@
           ("FB:I" :> <<<<"RI", "entry", "", FALSE>>>>),
  refs |-> {<<"R1", "M1", "sbom">>, <<"RI", "I", "sig">>},
  dtags |-> {},
  long |-> {},
  fbs |-> {<<"FB:M1", "M1">>, <<"FB:I", "I">>},
  uniq |-> {"C1", "C2", "M1", "M2", "I", "B1", "B2", "R1", "RI"},
  uniqfb |-> {"C1", "C2", "M1", "M2", "I", "B1", "B2", "FB:M1", "FB:I"},
  order |-> <<"L1", "C1", "C2", "M1", "M2", "I", "E", "B1", "B2", "R1", "RI">>]

Shape_bentry == [root |-> "I",
  blobs |-> {"C1", "L1", "X", "Y"},
  mans |-> ("M1" :> "image") @@ ("I" :> "index"),
  kids |-> ("M1" :> <<<<"C1", "config", "", FALSE>>, <<"L1", "layer", "", FALSE>>>>) @@
           ("I" :> <<<<"M1", "entry", "linux/amd64", FALSE>>, <<"X", "bentry", "", FALSE>>, <<"Y", "uentry", "", FALSE>>>>),
  refs |-> {},
  dtags |-> {},
  long |-> {},
  fbs |-> {},
  uniq |-> {"C1", "L1", "M1", "X", "Y", "I"},
  uniqfb |-> {"C1", "L1", "M1", "X", "Y", "I"},
  order |-> <<"C1", "L1", "M1", "X", "Y", "I">>]

Shape_docker == [root |-> "DL",
  blobs |-> {"L", "C1", "C2"},
  mans |-> ("D1" :> "image") @@ ("D2" :> "image") @@ ("DL" :> "index"),
  kids |-> ("D1" :> <<<<"C1", "config", "", FALSE>>, <<"L", "layer", "", FALSE>>>>) @@
           ("D2" :> <<<<"C2", "config", "", FALSE>>, <<"L", "layer", "", FALSE>>>>) @@
           ("DL" :> <<<<"D1", "entry", "linux/amd64", FALSE>>, <<"D2", "entry", "linux/arm64", FALSE>>>>),
  refs |-> {},
  dtags |-> {},
  long |-> {},
  fbs |-> {},
  uniq |-> {"C1", "C2", "D1", "D2", "DL"},
  uniqfb |-> {"C1", "C2", "D1", "D2", "DL"},
  order |-> <<"L", "C1", "C2", "D1", "D2", "DL">>]

Shape_schema1 == [root |-> "S1",
  blobs |-> {"L1", "L2"},
  mans |-> ("S1" :> "schema1"),
  kids |-> ("S1" :> <<<<"L1", "layer", "", FALSE>>, <<"L2", "layer", "", FALSE>>>>),
  refs |-> {},
  dtags |-> {},
  long |-> {},
  fbs |-> {},
  uniq |-> {"L1", "L2", "S1"},
  uniqfb |-> {"L1", "L2", "S1"},
  order |-> <<"L1", "L2", "S1">>]

Shape_ext == [root |-> "M",
  blobs |-> {"C", "L1", "LX"},
  mans |-> ("M" :> "image"),
  kids |-> ("M" :> <<<<"C", "config", "", FALSE>>, <<"L1", "layer", "", FALSE>>, <<"LX", "ext", "", FALSE>>>>),
  refs |-> {},
  dtags |-> {},
  long |-> {},
  fbs |-> {},
  uniq |-> {"C", "L1", "LX", "M"},
  uniqfb |-> {"C", "L1", "LX", "M"},
  order |-> <<"C", "L1", "LX", "M">>]

Shape_empty == [root |-> "M",
  blobs |-> {"C", "L0", "L1"},
  mans |-> ("M" :> "image"),
  kids |-> ("M" :> <<<<"C", "config", "", FALSE>>, <<"L0", "layer", "", TRUE>>, <<"L1", "layer", "", FALSE>>>>),
  refs |-> {},
  dtags |-> {},
  long |-> {},
  fbs |-> {},
  uniq |-> {"C", "L0", "L1", "M"},
  uniqfb |-> {"C", "L0", "L1", "M"},
  order |-> <<"C", "L0", "L1", "M">>]

Shape_inline == [root |-> "I",
  blobs |-> {"C", "L1"},
  mans |-> ("M" :> "image") @@ ("I" :> "index"),
  kids |-> ("M" :> <<<<"C", "config", "", TRUE>>, <<"L1", "layer", "", FALSE>>>>) @@
           ("I" :> <<<<"M", "entry", "linux/amd64", TRUE>>>>),
  refs |-> {},
  dtags |-> {},
  long |-> {},
  fbs |-> {},
  uniq |-> {"C", "L1", "M", "I"},
  uniqfb |-> {"C", "L1", "M", "I"},
  order |-> <<"C", "L1", "M", "I">>]

Shape_dtag == [root |-> "M",
  blobs |-> {"C", "L1", "CS", "LS"},
  mans |-> ("M" :> "image") @@ ("S" :> "image"),
  kids |-> ("M" :> <<<<"C", "config", "", FALSE>>, <<"L1", "layer", "", FALSE>>>>) @@
           ("S" :> <<<<"CS", "config", "", FALSE>>, <<"LS", "layer", "", FALSE>>>>),
  refs |-> {},
  dtags |-> {<<"dt:S", "M", "S">>},
  long |-> {},
  fbs |-> {},
  uniq |-> {"C", "L1", "M", "CS", "LS", "S"},
  uniqfb |-> {"C", "L1", "M", "CS", "LS", "S"},
  order |-> <<"C", "L1", "M", "CS", "LS", "S">>]

Shape_loop == [root |-> "M",
  blobs |-> {"C", "L1", "CS", "LS"},
  mans |-> ("M" :> "image") @@ ("S" :> "image"),
  kids |-> ("M" :> <<<<"C", "config", "", FALSE>>, <<"L1", "layer", "", FALSE>>>>) @@
           ("S" :> <<<<"CS", "config", "", FALSE>>, <<"LS", "layer", "", FALSE>>>>),
  refs |-> {},
  dtags |-> {<<"dt:S", "M", "S">>, <<"dt:M", "S", "M">>},
  long |-> {},
  fbs |-> {},
  uniq |-> {"C", "L1", "CS", "LS", "S"},
  uniqfb |-> {"C", "L1", "CS", "LS", "S"},
  order |-> <<"C", "L1", "M", "CS", "LS", "S">>]

Shape_diamond == [root |-> "T",
  blobs |-> {"L", "LA", "LB", "CS", "CA", "CB"},
  mans |-> ("SH" :> "image") @@ ("OA" :> "image") @@ ("OB" :> "image") @@ ("IA" :> "index") @@ ("IB" :> "index") @@ ("T" :> "index"),
  kids |-> ("SH" :> <<<<"CS", "config", "", FALSE>>, <<"L", "layer", "", FALSE>>>>) @@
           ("OA" :> <<<<"CA", "config", "", FALSE>>, <<"LA", "layer", "", FALSE>>>>) @@
           ("OB" :> <<<<"CB", "config", "", FALSE>>, <<"LB", "layer", "", FALSE>>>>) @@
           ("IA" :> <<<<"SH", "entry", "linux/amd64", FALSE>>, <<"OA", "entry", "linux/arm64", FALSE>>>>) @@
           ("IB" :> <<<<"SH", "entry", "linux/amd64", FALSE>>, <<"OB", "entry", "linux/arm", FALSE>>>>) @@
           ("T" :> <<<<"IA", "entry", "linux/amd64", FALSE>>, <<"IB", "entry", "linux/amd64", FALSE>>>>),
  refs |-> {},
  dtags |-> {},
  long |-> {},
  fbs |-> {},
  uniq |-> {"L", "LA", "LB", "CS", "CA", "CB", "OA", "OB", "IA", "IB", "T"},
  uniqfb |-> {"L", "LA", "LB", "CS", "CA", "CB", "OA", "OB", "IA", "IB", "T"},
  order |-> <<"L", "LA", "LB", "CS", "CA", "CB", "SH", "OA", "OB", "IA", "IB", "T">>]

Shape_diamond2 == [root |-> "T",
  blobs |-> {"C", "L"},
  mans |-> ("M" :> "image") @@ ("I" :> "index") @@ ("T" :> "index"),
  kids |-> ("M" :> <<<<"C", "config", "", FALSE>>, <<"L", "layer", "", FALSE>>>>) @@
           ("I" :> <<<<"M", "entry", "linux/amd64", FALSE>>>>) @@
           ("T" :> <<<<"M", "entry", "linux/amd64", FALSE>>, <<"I", "entry", "linux/amd64", FALSE>>>>),
  refs |-> {},
  dtags |-> {},
  long |-> {},
  fbs |-> {},
  uniq |-> {"C", "L", "I", "T"},
  uniqfb |-> {"C", "L", "I", "T"},
  order |-> <<"C", "L", "M", "I", "T">>]

Shape_artshare == [root |-> "A",
  blobs |-> {"E", "LA", "LR"},
  mans |-> ("A" :> "image") @@ ("R" :> "artifact"),
  kids |-> ("A" :> <<<<"E", "config", "", FALSE>>, <<"LA", "layer", "", FALSE>>>>) @@
           ("R" :> <<<<"E", "config", "", FALSE>>, <<"LR", "layer", "", FALSE>>>>) @@
           ("FB:A" :> <<<<"R", "entry", "", FALSE>>>>),
  refs |-> {<<"R", "A", "sig">>},
  dtags |-> {},
  long |-> {},
  fbs |-> {<<"FB:A", "A">>},
  uniq |-> {"LA", "LR", "A", "R"},
  uniqfb |-> {"LA", "LR", "A", "FB:A"},
  order |-> <<"E", "LA", "LR", "A", "R">>]

Shape_sha512 == [root |-> "I",
  blobs |-> {"L5", "L1", "C5", "C2", "E", "B5"},
  mans |-> ("M5" :> "image") @@ ("M2" :> "image") @@ ("R5" :> "artifact") @@ ("I" :> "index"),
  kids |-> ("M5" :> <<<<"C5", "config", "", FALSE>>, <<"L5", "layer", "", FALSE>>, <<"L1", "layer", "", FALSE>>>>) @@
           ("M2" :> <<<<"C2", "config", "", FALSE>>, <<"L5", "layer", "", FALSE>>>>) @@
           ("R5" :> <<<<"E", "config", "", FALSE>>, <<"B5", "layer", "", FALSE>>>>) @@
           ("I" :> <<<<"M5", "entry", "linux/amd64", FALSE>>, <<"M2", "entry", "linux/arm64", FALSE>>>>) @@
           ("FB:M5" :> <<<<"R5", "entry", "", FALSE>>>>),
  refs |-> {<<"R5", "M5", "sig">>},
  dtags |-> {},
  long |-> {"L5", "C5", "M5", "B5"},
  fbs |-> {<<"FB:M5", "M5">>},
  uniq |-> {"L1", "C5", "C2", "M5", "M2", "E", "B5", "R5", "I"},
  uniqfb |-> {"L1", "C5", "C2", "M5", "M2", "E", "B5", "I", "FB:M5"},
  order |-> <<"L5", "L1", "C5", "C2", "M5", "M2", "E", "B5", "R5", "I">>]

Shape_inlinebad == [root |-> "I",
  blobs |-> {"C", "L1"},
  mans |-> ("M" :> "image") @@ ("I" :> "index"),
  kids |-> ("M" :> <<<<"C", "config", "", FALSE>>, <<"L1", "layer", "", FALSE>>>>) @@
           ("I" :> <<<<"M", "entry", "linux/amd64", FALSE>>>>),
  refs |-> {},
  dtags |-> {},
  long |-> {},
  fbs |-> {},
  uniq |-> {"C", "L1", "M", "I"},
  uniqfb |-> {"C", "L1", "M", "I"},
  order |-> <<"C", "L1", "M", "I">>]

Shape_dupentry == [root |-> "I",
  blobs |-> {"C", "L", "C2"},
  mans |-> ("M" :> "image") @@ ("M2" :> "image") @@ ("I" :> "index"),
  kids |-> ("M" :> <<<<"C", "config", "", FALSE>>, <<"L", "layer", "", FALSE>>>>) @@
           ("M2" :> <<<<"C2", "config", "", FALSE>>, <<"L", "layer", "", FALSE>>>>) @@
           ("I" :> <<<<"M", "entry", "linux/amd64", FALSE>>, <<"M", "entry", "linux/386", FALSE>>, <<"M2", "entry", "linux/arm64", FALSE>>>>),
  refs |-> {},
  dtags |-> {},
  long |-> {},
  fbs |-> {},
  uniq |-> {"C", "C2", "M2", "I"},
  uniqfb |-> {"C", "C2", "M2", "I"},
  order |-> <<"C", "L", "M", "C2", "M2", "I">>]

Shape_sigloop == [root |-> "I",
  blobs |-> {"CX", "LX", "CA", "LA"},
  mans |-> ("X" :> "image") @@ ("A" :> "image") @@ ("SG" :> "index") @@ ("I" :> "index"),
  kids |-> ("X" :> <<<<"CX", "config", "", FALSE>>, <<"LX", "layer", "", FALSE>>>>) @@
           ("A" :> <<<<"CA", "config", "", FALSE>>, <<"LA", "layer", "", FALSE>>>>) @@
           ("SG" :> <<<<"X", "entry", "linux/amd64", FALSE>>, <<"A", "entry", "linux/amd64", FALSE>>>>) @@
           ("I" :> <<<<"X", "entry", "linux/amd64", FALSE>>>>),
  refs |-> {},
  dtags |-> {<<"dt:SG", "X", "SG">>},
  long |-> {},
  fbs |-> {},
  uniq |-> {"CX", "LX", "CA", "LA", "A", "SG", "I"},
  uniqfb |-> {"CX", "LX", "CA", "LA", "A", "SG", "I"},
  order |-> <<"CX", "LX", "X", "CA", "LA", "A", "SG", "I">>]

Shape_foreign == [root |-> "M",
  blobs |-> {"C", "L1", "LF", "LD", "LX"},
  mans |-> ("M" :> "image"),
  kids |-> ("M" :> <<<<"C", "config", "", FALSE>>, <<"L1", "layer", "", FALSE>>, <<"LF", "layer", "", FALSE>>, <<"LD", "layer", "", FALSE>>, <<"LX", "ext", "", FALSE>>>>),
  refs |-> {},
  dtags |-> {},
  long |-> {},
  fbs |-> {},
  uniq |-> {"C", "L1", "LF", "LD", "LX", "M"},
  uniqfb |-> {"C", "L1", "LF", "LD", "LX", "M"},
  order |-> <<"C", "L1", "LF", "LD", "LX", "M">>]

Shape_big == [root |-> "M",
  blobs |-> {"C", "LB", "L2"},
  mans |-> ("M" :> "image"),
  kids |-> ("M" :> <<<<"C", "config", "", FALSE>>, <<"LB", "layer", "", FALSE>>, <<"L2", "layer", "", FALSE>>>>),
  refs |-> {},
  dtags |-> {},
  long |-> {},
  fbs |-> {},
  uniq |-> {"C", "LB", "L2", "M"},
  uniqfb |-> {"C", "LB", "L2", "M"},
  order |-> <<"C", "LB", "L2", "M">>]

Shape_xref == [root |-> "I",
  blobs |-> {"L1", "C1", "C2"},
  mans |-> ("M1" :> "image") @@ ("M2" :> "image") @@ ("I" :> "index") @@ ("X1" :> "index") @@ ("X2" :> "index"),
  kids |-> ("M1" :> <<<<"C1", "config", "", FALSE>>, <<"L1", "layer", "", FALSE>>>>) @@
           ("M2" :> <<<<"C2", "config", "", FALSE>>, <<"L1", "layer", "", FALSE>>>>) @@
           ("I" :> <<<<"M1", "entry", "linux/amd64", FALSE>>, <<"M2", "entry", "linux/arm64", FALSE>>>>) @@
           ("X1" :> <<<<"M2", "entry", "linux/arm64", FALSE>>>>) @@
           ("X2" :> <<<<"M1", "entry", "linux/amd64", FALSE>>>>) @@
           ("FB:M1" :> <<<<"X1", "entry", "", FALSE>>>>) @@
           ("FB:M2" :> <<<<"X2", "entry", "", FALSE>>>>),
  refs |-> {<<"X1", "M1", "sig">>, <<"X2", "M2", "sig">>},
  dtags |-> {},
  long |-> {},
  fbs |-> {<<"FB:M1", "M1">>, <<"FB:M2", "M2">>},
  uniq |-> {"C1", "C2", "I", "X1", "X2"},
  uniqfb |-> {"C1", "C2", "I", "FB:M1", "FB:M2"},
  order |-> <<"L1", "C1", "C2", "M1", "M2", "I", "X1", "X2">>]

Shapes == ("img" :> Shape_img) @@ ("dup" :> Shape_dup) @@ ("idx2" :> Shape_idx2) @@ ("nested" :> Shape_nested) @@ ("art" :> Shape_art) @@ ("artidx" :> Shape_artidx) @@ ("bentry" :> Shape_bentry) @@ ("docker" :> Shape_docker) @@ ("schema1" :> Shape_schema1) @@ ("ext" :> Shape_ext) @@ ("empty" :> Shape_empty) @@ ("inline" :> Shape_inline) @@ ("dtag" :> Shape_dtag) @@ ("loop" :> Shape_loop) @@ ("diamond" :> Shape_diamond) @@ ("diamond2" :> Shape_diamond2) @@ ("artshare" :> Shape_artshare) @@ ("sha512" :> Shape_sha512) @@ ("inlinebad" :> Shape_inlinebad) @@ ("dupentry" :> Shape_dupentry) @@ ("sigloop" :> Shape_sigloop) @@ ("foreign" :> Shape_foreign) @@ ("big" :> Shape_big) @@ ("xref" :> Shape_xref)
=============================================================================

SPECIFICATION Spec
INVARIANTS Emit
CHECK_DEADLOCK FALSE
CONSTANTS
 HonorsHost = FALSE
 SchemeBound = TRUE
 PgNoMirrors = TRUE
 FoldCase = TRUE
 StripOnRedirect = TRUE
 MaxFaults = 2
 Confs <- MidGenConfs
 ChalKinds <- QuickChal
 FaultKinds <- QuickFaults
 RedirTo <- CoreRedir
 TokReplies <- AllTok
 ForeignRealms <- TaRealm
 LocTo <- AllLoc

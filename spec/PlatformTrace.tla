---------------------------- MODULE PlatformTrace ----------------------------
(***************************************************************************)
(* Trace spec / property monitor for C16.  The log (env VERIF_TRACE) is    *)
(* recorded from the real types/platform, types/descriptor and             *)
(* types/manifest code by harness/cmd/c16drv:                              *)
(*   line i (1..NP)  {"ev":"plat", id=i, spelled fields, what String(),     *)
(*                    Parse(String()) and Parse(spelling) returned}         *)
(*   "host" lines    for one (spelled) host h: over the list `reps` of      *)
(*                    target ids: compat[], match[], bz[] = Better(t, zero),*)
(*                    run[] = positions of the runnable targets, and        *)
(*                    better[t][j] = Better(reps[t], reps[run[j]])          *)
(*   "search" lines  DescriptorListSearch / GetPlatformDesc on a list of    *)
(*                    target positions (0 = entry without platform) for the *)
(*                    host of line hl; res = chosen list index, 0 = none;   *)
(*                    api "DescriptorListSearch+<filter>": searched with an *)
(*                    artifact type / annotation / sort option next to the  *)
(*                    platform: entries that do not pass the filter (the    *)
(*                    driver's own evaluation) are 0 in `list`, fpass = 0   *)
(*                    when the chosen entry is one of them                  *)
(* The monitor has no state besides the position and the latched verdict:  *)
(* every obligation is a predicate over the current line (and the lines it *)
(* refers to), evaluated with the reference model Platform.tla.            *)
(***************************************************************************)
EXTENDS Platform, Json, IOUtils, Integers
Log == ndJsonDeserialize(IOEnv.VERIF_TRACE)
VARIABLES l, bad
Ev == Log[l]

Sp(i) == [os |-> Log[i].os, ak |-> Log[i].arch, variant |-> Log[i].variant, osver |-> Log[i].osver]
C(i) == Canon(Sp(i))
First(checks) == IF \E i \in 1..Len(checks) : checks[i][1]
                 THEN checks[CHOOSE i \in 1..Len(checks) : checks[i][1] /\ \A j \in 1..(i-1) : ~checks[j][1]][2]
                 ELSE ""
B(x) == x = 1

\* O6: normal form, idempotent print/parse, aliases
PlatBad(e) ==
  LET c == C(e.id) IN
  First(<< <<e.id # l \/ Sp(e.id) \notin Universe, "tooling:plat-line-out-of-place">>,
           <<e.str # CanonStr(c), "normal-form: String() is not the canonical value">>,
           <<e.reparse # e.str, "normal-form: Parse(String()) does not print to itself">>,
           <<e.reparse2 # e.reparse, "normal-form: second Parse/String round differs">>,
           <<e.p_err # 0, "parse: spelling built from valid components rejected">>,
           <<e.p_os # c.os \/ e.p_arch # c.arch \/ e.p_variant # c.variant \/ e.p_osver # c.osver,
             "parse: alias not mapped to the canonical value">>,
           <<e.pu_str # e.p_str, "parse: upper-case spelling parses differently">> >>)

\* O1-O4 on the recorded relations of one host
HostBad(e) ==
  LET h == C(e.h)
      n == Len(e.reps)
      T(i) == C(e.reps[i])
      R == e.run                      \* positions (in reps) of runnable targets, as recorded
      Col(p) == CHOOSE j \in 1..Len(R) : R[j] = p
      Bt(t, p) == B(e.better[t][Col(p)])   \* Better(reps[t], reps[p]) for runnable p
      RS == {R[j] : j \in 1..Len(R)}
  IN First(<<
       <<\E t \in 1..n : B(e.compat[t]) # Runnable(h, T(t)), "runnable: Compatible differs from the reference rule">>,
       <<\E t \in 1..n : B(e.match[t]) # Exact(h, T(t)), "exact: Match differs from the reference rule">>,
       <<RS # {t \in 1..n : B(e.compat[t])}, "tooling:run-list">>,
       <<\E t \in 1..n : B(e.bz[t]) # B(e.compat[t]), "found: first runnable entry not taken / non-runnable taken">>,
       <<\E t \in 1..n, p \in RS : Bt(t, p) /\ ~B(e.compat[t]), "runnable: a non-runnable entry is ranked better">>,
       <<\E p \in RS : Bt(p, p), "order: Better is not irreflexive">>,
       <<\E a \in RS, b \in RS : Bt(a, b) /\ Bt(b, a), "order: Better is not asymmetric">>,
       <<\E a \in RS, b \in RS, c \in RS : Bt(a, b) /\ Bt(b, c) /\ ~Bt(a, c), "order: Better is not transitive">>,
       <<\E t \in RS, p \in RS : B(e.match[t]) /\ ~B(e.match[p]) /\ (~Bt(t, p) \/ Bt(p, t)),
         "exact: an exact match does not beat a merely compatible entry">> >>)

\* O1-O5 on an actual search over a list (any order)
SearchBad(e) ==
  LET he == Log[e.hl]
      R == he.run
      RS == {R[j] : j \in 1..Len(R)}
      Col(p) == CHOOSE j \in 1..Len(R) : R[j] = p
      Bt(t, p) == B(he.better[t][Col(p)])
      L == e.list
      Runs == {i \in 1..Len(L) : L[i] # 0 /\ L[i] \in RS}
  IN First(<<
       <<he.ev # "host" \/ he.h # e.h, "tooling:search-host-line">>,
       <<e.fpass = 0, "filter: the chosen entry does not pass the requested filter">>,
       <<e.res < 0, "runnable: what was returned is not an entry of the list">>,
       <<e.res = 0 /\ Runs # {}, "found: a runnable entry exists but none was returned">>,
       <<e.res # 0 /\ e.res \notin Runs, "runnable: the chosen entry cannot run on the requested platform">>,
       <<e.res # 0 /\ e.res \in Runs /\ \E i \in Runs : Bt(L[i], L[e.res]), "best: a strictly better entry was passed over">>,
       <<e.res # 0 /\ e.res \in Runs /\ (\E i \in Runs : B(he.match[L[i]])) /\ ~B(he.match[L[e.res]]),
         "exact: an exact match exists but a merely compatible entry was chosen">> >>)

TInit == l = 1 /\ bad = ""
TNext ==
  /\ l <= Len(Log)
  /\ l' = l + 1
  /\ \/ Ev.ev = "plat" /\ bad' = PlatBad(Ev)
     \/ Ev.ev = "host" /\ bad' = HostBad(Ev)
     \/ Ev.ev = "search" /\ bad' = (IF Log[Ev.hl].ev = "host" THEN SearchBad(Ev) ELSE "")  \* host line neutralised
     \/ Ev.ev = "skip" /\ bad' = ""
TSpec == TInit /\ [][TNext]_<<l, bad>>
Ok == bad = ""
HW == TLCSet(1, IF TLCGet(1) > l THEN TLCGet(1) ELSE l)
Accepted == PrintT(<<"HIGHWATER", TLCGet(1), Len(Log)>>)
ASSUME TLCSet(1, 0)
=============================================================================

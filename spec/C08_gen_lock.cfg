CONSTANTS
 Copies = {"c1", "c2"}
 Confs <- LockConfs
 MaxCloses = 3
 MaxOps = 2
INIT GInit
NEXT GNext
INVARIANTS Emit
CHECK_DEADLOCK FALSE

CONSTANTS
 Confs <- MCConfs
 FixWaitErr = TRUE
 Reduce = FALSE
 MCShapes = {"img"}
 MCPairs = {"tworeg"}
 MCOpts <- MCOptsDefault
 MCFeats <- MCFeatsDefault
 MCInit = "empty"
 MCTag0 = {"stale"}
 MCByDigest = {FALSE}
 MCTgtByDigest = {FALSE}
 MaxFaults = 1
 AllowCancel = TRUE
 AllowCrash = FALSE
 Cap = 0
INIT Init
NEXT Next
INVARIANTS TypeOK InvC04 InvFb InvFbListed InvC03 InvC14 InvC14T InvFailTag

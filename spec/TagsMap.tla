---------------------------- MODULE TagsMap ----------------------------
(***************************************************************************)
(* C06 - the reference model the property statement names: "a simple map   *)
(* from tag to digest plus a set of stored manifests".  Pure operators, no *)
(* variables; used by the monitor TagsProp (P), by the design spec Tags    *)
(* (D) as the refinement target, and by the history generator TagsGen.     *)
(*                                                                         *)
(* Mirrors no code: it is the statement.  What a conforming back end does  *)
(* (registry: DELETE/PUT /v2/<repo>/manifests/<ref>; layout: index.json    *)
(* entries + blobs/<alg>/<hex> files) must project onto it.                *)
(*                                                                         *)
(* tg : [Tags -> Mans \cup {NONE}]   the tag map (NONE = tag absent)       *)
(* ms : SUBSET Mans                  the stored manifests                  *)
(* Operation kinds:                                                        *)
(*   push   (t,m)  push manifest m by tag t                                *)
(*   pushd  (m)    push manifest m by digest (no tag)                      *)
(*   tagdel (t)    delete tag t                                            *)
(*   mdel   (m)    delete manifest m by digest                             *)
(*   mdelr  (m)    the same with the client's referrer check switched on   *)
(*   head/get (ref), list : observations, no effect                        *)
(*   gc            housekeeping of the back end (a layout's garbage        *)
(*                 collection, RegClient.Close): the tag map is untouched  *)
(*                 and every manifest a tag points at stays stored; which  *)
(*                 of the other stored manifests go is the collector's     *)
(*                 business, not the statement's (MGcOK)                   *)
(***************************************************************************)
EXTENDS Naturals, FiniteSets, Sequences
CONSTANTS Tags, Mans
NONE == "-"
MutKinds == {"push", "pushd", "tagdel", "mdel", "mdelr"}
ReadKinds == {"head", "get", "list"}

\* does the operation have a target to act on (a delete of something absent may be refused)
MPresent(tg, ms, k, t, m) ==
  CASE k \in {"push", "pushd"} -> TRUE
    [] k = "tagdel" -> tg[t] # NONE
    [] k \in {"mdel", "mdelr"} -> m \in ms
    [] OTHER -> TRUE

\* push sets exactly that tag; tag delete removes that tag alone; manifest delete removes the
\* manifest and every tag pointing at it - and nothing else
MTags(tg, k, t, m) ==
  CASE k = "push" -> [tg EXCEPT ![t] = m]
    [] k = "tagdel" -> [tg EXCEPT ![t] = NONE]
    [] k \in {"mdel", "mdelr"} -> [x \in Tags |-> IF tg[x] = m THEN NONE ELSE tg[x]]
    [] OTHER -> tg

MMans(ms, k, m) ==
  CASE k \in {"push", "pushd"} -> ms \cup {m}
    [] k \in {"mdel", "mdelr"} -> ms \ {m}
    [] OTHER -> ms

\* housekeeping: the manifests some tag points at are protected, the others may be swept
MProt(tg) == {tg[t] : t \in Tags} \ {NONE}
MGcOK(tg, ms, kept) == (MProt(tg) \cap ms) \subseteq kept /\ kept \subseteq ms

MListed(tg) == {t \in Tags : tg[t] # NONE}
\* answer to head / get of a reference (a tag or a digest)
MResolve(tg, ms, ref) == IF ref \in Tags THEN tg[ref] ELSE IF ref \in ms THEN ref ELSE NONE

\* every tag points at a stored manifest (preserved by every operation)
MWellFormed(tg, ms) == \A t \in Tags : tg[t] = NONE \/ tg[t] \in ms

ToSet(s) == {s[i] : i \in 1..Len(s)}
=============================================================================

SPECIFICATION MSpec
CONSTANTS
 DescPlatStrict = TRUE
 PlatLookupStrict = FALSE
 ReadFaults = FALSE
 EqualAnnStrict = TRUE
 PutFirst = FALSE
 DedupByDigest = TRUE
 DeleteKeepsOne = FALSE
 Faults = FALSE
 Alphabet <- AlphaSmall
 MaxCmds = 2
INVARIANTS Holds TypeOk
CHECK_DEADLOCK FALSE

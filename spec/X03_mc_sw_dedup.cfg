SPECIFICATION MSpec
CONSTANTS
 DescPlatStrict = FALSE
 PlatLookupStrict = FALSE
 ReadFaults = FALSE
 EqualAnnStrict = FALSE
 PutFirst = FALSE
 DedupByDigest = TRUE
 DeleteKeepsOne = FALSE
 Faults = FALSE
 Alphabet <- AlphaSmall
 MaxCmds = 2
INVARIANTS Holds TypeOk
CHECK_DEADLOCK FALSE

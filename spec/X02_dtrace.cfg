CONSTANTS
 Scenarios = {}
 MaxCrash = 0
 Variant = "code"
SPECIFICATION DSpec
CONSTRAINT HW
POSTCONDITION Reached
CHECK_DEADLOCK FALSE

SPECIFICATION Spec
INVARIANTS Emit
CHECK_DEADLOCK FALSE
CONSTANTS
 HonorsHost = FALSE
 SchemeBound = TRUE
 PgNoMirrors = TRUE
 FoldCase = TRUE
 StripOnRedirect = TRUE
 MaxFaults = 3
 Confs <- ChainConfs
 ChalKinds <- ChainChal
 FaultKinds <- Nothing
 RedirTo <- ChainRedir
 TokReplies <- Nothing
 ForeignRealms <- TaRealm
 LocTo <- AllLoc

---------------------------- MODULE ConfFileProp ----------------------------
(***************************************************************************)
(* (P) property monitor of area X02: persistence of regctl's configuration *)
(* and credentials (internal/conffile.Write, cmd/regctl ConfigSave and the *)
(* commands registry login / logout / set, config set).                    *)
(*                                                                         *)
(* Observation shaped: it consumes facts about the configuration directory *)
(* at instants of a run of the real code, and results of commands; it      *)
(* knows nothing about temp files, system calls or their order (the names  *)
(* of calls in the events are ignored).  The obligations S1-S4 are the     *)
(* constant operators of ConfFileObl.tla; this module only keeps what they *)
(* refer to: the observation before the running command (pv), the labels   *)
(* of the complete contents being written (news), the configuration table  *)
(* the command started from (bases).                                       *)
(*                                                                         *)
(* Observers (none shares code with regclient's writer):                   *)
(*   sys    the directory after the k-th mutating system call of the run,  *)
(*          i.e. what a kill -9 at that instant leaves (rebuilt by the     *)
(*          replayer of tools/props/x02.py from the strace log; content    *)
(*          labels = sha256, modes and owners from the calls)              *)
(*   end    a command returned: exit status, lstat/sha256 of the real      *)
(*          directory, the table read by python's json module              *)
(*   fresh  crash state k loaded by a fresh real regctl                    *)
(*   retry  crash state k after the interrupted command was run again      *)
(*   raceend all racing saves have returned                                *)
(* `bad` holds the obligations violated by the CURRENT observation (not    *)
(* latched: TLC runs with -continue, one finding must not hide another).   *)
(* Deviation from the CONVENTIONS skeleton: every trace of a batch is its  *)
(* own behaviour (see ConfFileTrace.tla).                                  *)
(***************************************************************************)
EXTENDS ConfFileObl, TLC

VARIABLES id,      \* [priv, uid, gid] of the saving process(es)
          mode,    \* "seq": commands one after the other | "race": racing saves
          rdok,    \* the start state was loadable
          pv,      \* observation before the running command (race: before the first)
          news,    \* labels of the complete contents the running commands intend to write
          last,    \* the most recent observation
          cur,     \* the most recent table read at a command's end (or the start table)
          bases,   \* tables the running command may have started from
          cmds,    \* writer -> declared command
          okn,     \* labels whose save reported success (race)
          k,       \* number of system-call observations so far
          bad
pvars == <<id, mode, rdok, pv, news, last, cur, bases, cmds, okn, k, bad>>

FactsOf(e) == [cfg |-> e.cfg, cfg_mode |-> e.cfg_mode, cfg_uid |-> e.cfg_uid, cfg_gid |-> e.cfg_gid,
               dir_ex |-> e.dir_ex, dir_mode |-> e.dir_mode, tmp_go |-> e.tmp_go, tmp_n |-> e.tmp_n, others |-> e.others]
TableOf(e) == [parse |-> e.parse, hn |-> e.hn, hu |-> e.hu, hp |-> e.hp, ht |-> e.ht, hl |-> e.hl, hr |-> e.hr,
               blob |-> e.blob, top |-> e.top]
NoFacts == [cfg |-> "absent", cfg_mode |-> 0, cfg_uid |-> 0, cfg_gid |-> 0, dir_ex |-> 0, dir_mode |-> 0,
            tmp_go |-> <<>>, tmp_n |-> 0, others |-> ""]
NoTable == [parse |-> "absent", hn |-> <<>>, hu |-> <<>>, hp |-> <<>>, ht |-> <<>>, hl |-> <<>>, hr |-> <<>>,
            blob |-> 0, top |-> ""]
NoCmd == [kind |-> "", h |-> "", u |-> "", p |-> "", v |-> "", new |-> ""]
Writers == 1..4

PInit == /\ id = [priv |-> 0, uid |-> 0, gid |-> 0] /\ mode = "" /\ rdok = FALSE /\ pv = NoFacts /\ news = {}
         /\ last = NoFacts /\ cur = NoTable /\ bases = {} /\ cmds = [w \in Writers |-> NoCmd] /\ okn = {} /\ k = 0
         /\ bad = <<>>

\* header of a trace: who runs, and the independent observation of the start state
PReset(h) ==
  /\ id' = [priv |-> h.priv, uid |-> h.puid, gid |-> h.pgid] /\ mode' = h.mode /\ rdok' = (h.parse # "bad")
  /\ pv' = FactsOf(h) /\ last' = FactsOf(h) /\ news' = {} /\ cur' = TableOf(h) /\ bases' = {TableOf(h)}
  /\ cmds' = [w \in Writers |-> NoCmd] /\ okn' = {} /\ k' = 0 /\ bad' = <<>>

\* a command is about to run: e.new is the label of the complete content it is to leave ("" when it is to fail or
\* to leave the file alone), known to the observer independently of the writer for a "put" (the bytes were made by
\* the observer) and read off the real file at the command's end otherwise (its meaning is then judged by S4)
PCmd(e) ==
  /\ cmds' = [cmds EXCEPT ![e.w] = [kind |-> e.kind, h |-> e.h, u |-> e.u, p |-> e.p, v |-> e.v, new |-> e.new]]
  /\ IF mode = "seq" THEN pv' = last /\ news' = {e.new} \ {""} /\ bases' = {cur}
     ELSE pv' = pv /\ news' = news \cup ({e.new} \ {""}) /\ bases' = bases \cup {cur}
  /\ bad' = <<>>
  /\ UNCHANGED <<id, mode, rdok, last, cur, okn, k>>

\* the directory after one more mutating system call: an instant at which the process may be killed
PSys(e) ==
  /\ k' = k + 1 /\ last' = FactsOf(e)
  /\ bad' = Failing(<< <<e.k # k + 1, "seq">> >> \o StateChecks(e, pv, news, id))
  /\ UNCHANGED <<id, mode, rdok, pv, news, cur, bases, cmds, okn>>

\* command of writer e.w returned with exit status ok
PEnd(e) ==
  /\ last' = FactsOf(e) /\ cur' = TableOf(e) /\ bases' = bases \cup {TableOf(e)}
  /\ okn' = IF e.ok = 1 /\ cmds[e.w].new # "" THEN okn \cup {cmds[e.w].new} ELSE okn
  /\ bad' = Failing(<< <<e.n # k, "seq">> >> \o StateChecks(e, pv, news, id)
                    \o (IF mode = "seq" THEN EndChecks(e, pv, IF cmds[e.w].new = "" THEN pv.cfg ELSE cmds[e.w].new, e.ok)
                        ELSE <<>>)
                    \o CmdChecks(cmds[e.w], bases, TableOf(e), e.ok))
  /\ UNCHANGED <<id, mode, rdok, pv, news, cmds, k>>

\* all racing saves have returned
PRaceEnd(e) ==
  /\ bad' = Failing(StateChecks(e, pv, news, id) \o RaceEndChecks(e, pv, okn))
  /\ UNCHANGED <<id, mode, rdok, pv, news, last, cur, bases, cmds, okn, k>>

\* crash state e.k loaded by a fresh regctl
PFresh(e) ==
  /\ bad' = Failing(<< <<e.k > k, "seq">>, <<rdok /\ e.ok # 1, "S1-loadable">> >>)
  /\ UNCHANGED <<id, mode, rdok, pv, news, last, cur, bases, cmds, okn, k>>

\* crash state e.k after the interrupted command of writer e.w was run again by a new process
PRetry(e) ==
  /\ bad' = Failing(<< <<e.k > k, "seq">>, <<rdok /\ e.ok # 1, "S1-rerun-succeeds">>,
                       <<e.ok = 1 /\ cmds[e.w].kind = "put" /\ e.cfg # cmds[e.w].new, "S2-success-in-place">> >>
                    \o CmdChecks(cmds[e.w], bases, TableOf(e), e.ok))
  /\ UNCHANGED <<id, mode, rdok, pv, news, last, cur, bases, cmds, okn, k>>

PUnknown == bad' = <<"unknown-event">> /\ UNCHANGED <<id, mode, rdok, pv, news, last, cur, bases, cmds, okn, k>>

Ok == bad = <<>>
=============================================================================

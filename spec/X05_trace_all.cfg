SPECIFICATION TSpecAll
CONSTRAINT HW
POSTCONDITION Accepted
CHECK_DEADLOCK FALSE

\* baseline, copy of a two-image index (9 goroutines): run with -simulate, BFS does not finish
CONSTANTS
 Scenarios <- IxCopy
 MaxCrash = 1
 MarkerMode = "ifbad"
 MarkerWindow = TRUE
 MaxFault = 0
INIT Init
NEXT Next
INVARIANTS TypeOK NoStuck CrashStateOK ReturnOK RetryOK
CHECK_DEADLOCK FALSE

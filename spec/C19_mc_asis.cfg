SPECIFICATION MCSpec
VIEW view
INVARIANTS DryNoChange ThrottleOk NotBlocked
CONSTANTS
 Gated = {"tag.delete", "m:delete", "image.copy", "image.copy+dt", "image.copy+fr"}
 RelOnErr = {"image.config", "m:config", "image.importTar", "image.exportTar", "image.copy", "image.copy+dt", "image.copy+fr"}
 StubReads = {}
 NS = 1
 MaxLen = 2
 Pars = {0}
 Alphabet = "core"

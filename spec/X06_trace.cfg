SPECIFICATION TSpec
CONSTRAINT HW
INVARIANT Ok
POSTCONDITION Accepted
CHECK_DEADLOCK FALSE

---------------------------- MODULE PathSafeTrace ----------------------------
(***************************************************************************)
(* Trace spec for C20.  Each line of the log (env VERIF_TRACE) is a fact   *)
(* recorded by tools/props/c20.py from the strace log of the driver        *)
(* process tree (harness/cmd/c20drv, which also execs the real regctl) and *)
(* from the driver's before / after listings:                              *)
(*   scn   start of a scenario: designated directory, declared scratch,    *)
(*         and the scenario record of PathSafe that was executed           *)
(*   sys   one successful mutating system call inside the operation phase  *)
(*   rd    one successful read-only open below the harness tree (layout    *)
(*         entry points)                                                   *)
(*   chg   one changed entry of the listings                               *)
(*   vic   victim file unchanged (1) or not (0)                            *)
(*   obs   what was created / removed, translated back to the model's      *)
(*         vocabulary: compared with PathSafe!Touches (drift only)         *)
(* The monitor (PathSafeProp) judges; the comparison with the design model *)
(* is drift: printed as DRIFT lines, never a verdict.                      *)
(* Two configurations: C20_trace.cfg checks the invariant bad = "" (TLC    *)
(* stops at the first rejected line; this is what produces verdicts);      *)
(* C20_trace_scan.cfg has no invariant and prints one REJECT line per      *)
(* scenario whose latch is set when the next scenario starts, so that the  *)
(* runner can find all candidates of a long log in one pass and confirm    *)
(* one representative per class under C20_trace.cfg.                       *)
(***************************************************************************)
EXTENDS PathSafe, PathSafeProp, Json, IOUtils
Log == ndJsonDeserialize(IOEnv.VERIF_TRACE)
VARIABLES l, cur, badl     \* badl: log line at which the latch of the current scenario was set (for REJECT lines)
Ev == Log[l]
NoScn == [ep |-> "-", n |-> 0]
ScnOf(e) == [n |-> e.n, ep |-> e.ep, segs |-> e.segs, lead |-> e.lead, trail |-> e.trail, unpack |-> e.unpack, strip |-> e.strip,
             ents |-> e.ents, op |-> e.op, h |-> e.h, place |-> e.place, wm |-> e.wm, chk |-> e.chk, opt |-> e.opt,
             odir |-> e.odir, comp |-> e.comp, hdr |-> e.hdr, pos |-> e.pos]
ToSet(s) == {s[i] : i \in 1..Len(s)}
\* drift: the real run touched a path the design model does not predict (model vocabulary)
Drift(e) == cur.ep \in {"art", "tar", "lnk"} /\ ~(ToSet(e.touched) \subseteq Touches(cur))
TInit == PInit /\ l = 1 /\ cur = NoScn /\ badl = 0
TNext ==
  /\ l <= Len(Log)
  /\ l' = l + 1
  /\ \/ Ev.ev = "scn" /\ PScenario(Ev.allow) /\ cur' = ScnOf(Ev) /\ (bad # "" => PrintT("REJECT|" \o ToString(cur.n) \o "|" \o ToString(badl) \o "|" \o bad))
     \/ Ev.ev = "sys" /\ PWrite(Ev.call, Ev.phys, Ev.lex) /\ UNCHANGED cur
     \/ Ev.ev = "rd" /\ PRead(Ev.phys) /\ UNCHANGED cur
     \/ Ev.ev = "chg" /\ PChange(Ev.what, Ev.path) /\ UNCHANGED cur
     \/ Ev.ev = "vic" /\ PVictim(Ev.same) /\ UNCHANGED cur
     \/ Ev.ev = "obs" /\ PSkip /\ UNCHANGED cur /\ (Drift(Ev) => PrintT(<<"DRIFT", Ev.n>>))
     \/ Ev.ev = "skip" /\ PSkip /\ UNCHANGED cur
  /\ badl' = IF bad' = "" THEN 0 ELSE IF bad = "" \/ Ev.ev = "scn" THEN l ELSE badl
TSpec == TInit /\ [][TNext]_<<allow, bad, l, cur, badl>>
Ok == POk
HW == TLCSet(1, IF TLCGet(1) > l THEN TLCGet(1) ELSE l)
Accepted == PrintT(<<"HIGHWATER", TLCGet(1), Len(Log)>>)
ASSUME TLCSet(1, 0)
=============================================================================

CONSTANTS
 Copies = {"c1", "c2"}
 Confs <- LinkMixConfs
 MaxCloses = 2
 MaxOps = 1
 KeyMode = "clean"
 LockRefTgt = TRUE
 CtxKinds = {"bg", "cancelled"}
 MarkCtx = FALSE
 Eager = FALSE
SPECIFICATION Spec
INVARIANTS TypeOK LocksNonNeg MarkIsReach
PROPERTIES O3
CHECK_DEADLOCK FALSE

-------------------------- MODULE RegHttpUploadGen --------------------------
(***************************************************************************)
(* Scenario generator for C12, upload layer: reply scripts for the chunk   *)
(* loop of RegHttpUpload.  A script is at most MaxLen replies chosen       *)
(* freely; after that the registry repeats its last reply for ever (the    *)
(* adversary of "whatever a registry answers").  A behaviour is printed    *)
(* when the upload returned (always, with Guard = TRUE), or when the       *)
(* design keeps re-sending the same chunk beyond the bound (predicted      *)
(* run-away; only with Guard = FALSE, the code before commit 94ee6b0).     *)
(***************************************************************************)
EXTENDS RegHttpUpload, Json
VARIABLE hist
gvars == <<vars, hist>>

Stop == pc \in {"done", "fail"} \/ same > 2 * (UL + 1)
GInit == Init /\ hist = <<>>
GNext == /\ ~Stop
         /\ \/ (Fill \/ Finish) /\ UNCHANGED hist
            \/ \E p \in Replies :
                 /\ IF Len(hist) < MaxLen THEN TRUE ELSE p = hist[Len(hist)]
                 /\ Patch(p)
                 /\ hist' = IF Len(hist) < MaxLen THEN Append(hist, p) ELSE hist
GSpec == GInit /\ [][GNext]_gvars
Emit == Stop => PrintT(<<"SCN", ToJson([b |-> B, c |-> C, script |-> hist,
                                        predicted |-> IF pc \in {"done", "fail"} THEN pc ELSE "runaway"])>>)
=============================================================================

SPECIFICATION Spec
CONSTANTS
 FewerIsMismatch = TRUE
 NilCreatedSafe = TRUE
 NilPlatformSafe = TRUE
 Mut = "prefixreversed"
 Level = 0
INVARIANTS Holds
CHECK_DEADLOCK FALSE

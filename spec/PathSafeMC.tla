----------------------------- MODULE PathSafeMC -----------------------------
(***************************************************************************)
(* C20 (D): the code paths that turn untrusted names into file-system      *)
(* operations, as a state machine over the model file system of PathSafe.  *)
(* One behaviour = one scenario (chosen in Init) executed step by step.    *)
(*   ArtStart/ArtMkdir/ArtCreate/ArtExtract <- cmd/regctl/artifact.go:     *)
(*        runArtifactGet (clean + strip, MkdirAll, os.Create | Extract)    *)
(*   TarStart, ExtractDir/Reg/Sym/Hard/End  <- pkg/archive/tar.go:Extract  *)
(*        (one action per header type of the loop)                         *)
(*   LayBlob*, LayManifest*, LayIndexOnly, LayClose, LayCopy               *)
(*        <- scheme/ocidir blob.go, manifest.go, tag.go, referrer.go,      *)
(*           close.go, image.go (copy into a layout)                       *)
(*   Import <- image.go:ImageImport                                        *)
(* Checked: Containment (C20 at model level) and Agree (the step-wise      *)
(* execution touches exactly what the closed form PathSafe!Touches says).  *)
(* Deviation: each layout operation is one step; errno values are not      *)
(* modelled (a failing call touches nothing).                              *)
(***************************************************************************)
EXTENDS PathSafe
CONSTANT Eps                       \* entry points included in this run
VARIABLES scn, pc, fs, base, todo, plan, touched
vars == <<scn, pc, fs, base, todo, plan, touched>>
NoPlan == [mode |-> "-", mkdir |-> <<>>, target |-> <<>>]

Init == /\ InSpace(scn, Eps)
        /\ pc = "start" /\ fs = FS0 /\ base = Out /\ todo = <<>> /\ plan = NoPlan /\ touched = {}

\* ---- regctl artifact get
\* (a benign second layer, pos # "only", is written to Out/ok; the model does not order the two layers)
ArtStart == /\ pc = "start" /\ scn.ep = "art"
            /\ plan' = ArtPlan([segs |-> scn.segs, lead |-> scn.lead, trail |-> scn.trail], scn.unpack, scn.strip)
            /\ touched' = IF scn.pos = "only" THEN {} ELSE {Out \o <<"ok">>}
            /\ pc' = IF scn.place = "layerdigest" /\ ~Validate(Dig(scn.h)) THEN "done" ELSE "art_mkdir"   \* l.Digest.Validate()
            /\ UNCHANGED <<scn, fs, base, todo>>
ArtMkdir == /\ pc = "art_mkdir"
            /\ IF DirsOk(fs, plan.mkdir)
               THEN LET new == {q \in Prefixes(plan.mkdir) : ~Has(fs, q)} IN
                    /\ fs' = fs \cup {Node(q, "dir") : q \in new}
                    /\ touched' = touched \cup new
                    /\ pc' = IF plan.mode = "file" THEN "art_create" ELSE "art_extract"
               ELSE /\ pc' = "done"                          \* "destination exists and is not a directory"
                    /\ UNCHANGED <<fs, touched>>
            /\ UNCHANGED <<scn, base, todo, plan>>
ArtCreate == /\ pc = "art_create"
             /\ IF IsDir(fs, plan.target) THEN UNCHANGED <<fs, touched>>
                ELSE fs' = Put(fs, Node(plan.target, "file")) /\ touched' = touched \cup {plan.target}
             /\ pc' = "done"
             /\ UNCHANGED <<scn, base, todo, plan>>
ArtExtract == /\ pc = "art_extract"
              /\ IF IsDir(fs, plan.target) THEN base' = plan.target /\ todo' = LayerTar /\ pc' = "extract"
                 ELSE pc' = "done" /\ UNCHANGED <<base, todo>>
              /\ UNCHANGED <<scn, fs, plan, touched>>

\* ---- archive.Extract
TarStart == /\ pc = "start" /\ scn.ep \in {"tar", "lnk"}
            /\ base' = Out /\ todo' = scn.ents /\ pc' = "extract"
            /\ UNCHANGED <<scn, fs, plan, touched>>
ExtractKind(k) == /\ pc = "extract" /\ todo # <<>> /\ Head(todo).k = k
                  /\ LET r == ApplyEntry(fs, base, Head(todo)) IN
                       /\ fs' = r.fs /\ touched' = touched \cup r.touched
                       /\ todo' = IF r.halt THEN <<>> ELSE Tail(todo)      \* a refused entry: Extract returns the error
                  /\ UNCHANGED <<scn, pc, base, plan>>
ExtractDir == ExtractKind("dir")
ExtractReg == ExtractKind("reg")
ExtractSym == ExtractKind("sym")
ExtractHard == ExtractKind("hard")
ExtractIgnored == ExtractKind("fifo") \/ ExtractKind("chr")                       \* header types without a case in the switch
ExtractEnd == /\ pc = "extract" /\ todo = <<>> /\ pc' = "done"
              /\ UNCHANGED <<scn, fs, base, todo, plan, touched>>

\* ---- layout operations and import: one step each
Lay(ops, t) == /\ pc = "start" /\ scn.ep = "lay" /\ scn.op \in ops
               /\ touched' = t /\ pc' = "done"
               /\ UNCHANGED <<scn, fs, base, todo, plan>>
LayBlobAccess == Lay({"BlobGet", "BlobHead", "BlobDelete"}, BlobAccessT(Out, scn))
LayBlobPut == Lay({"BlobPut"}, BlobPutT(Out, scn))
LayManifestRead == Lay({"ManifestGet", "ManifestHead"}, ManifestReadT(Out, scn))
LayManifestPut == Lay({"ManifestPut"}, ManifestPutT(Out, scn))
LayManifestDelete == Lay({"ManifestDelete"}, ManifestDeleteT(Out, scn))
LayIndexOnly == Lay({"TagDelete", "TagList", "ReferrerList"}, {})
LayClose == Lay({"Close"}, CloseT(Out, scn))
LayCopy == Lay({"ImageCopy"}, CopyT(Out, scn))
Import == /\ pc = "start" /\ scn.ep = "imp" /\ pc' = "done"
          /\ UNCHANGED <<scn, fs, base, todo, plan, touched>>

Next == \/ ArtStart \/ ArtMkdir \/ ArtCreate \/ ArtExtract
        \/ TarStart \/ ExtractDir \/ ExtractReg \/ ExtractSym \/ ExtractHard \/ ExtractIgnored \/ ExtractEnd
        \/ LayBlobAccess \/ LayBlobPut \/ LayManifestRead \/ LayManifestPut \/ LayManifestDelete
        \/ LayIndexOnly \/ LayClose \/ LayCopy \/ Import
Spec == Init /\ [][Next]_vars

Containment == \A p \in touched : Inside(Out, p)
Agree == pc = "done" => touched = Touches(scn)
=============================================================================

SPECIFICATION TSpec
CONSTRAINT HW
INVARIANT AOk
POSTCONDITION Accepted
CHECK_DEADLOCK FALSE

-------------------------- MODULE ThrottleUseConf --------------------------
(* The configuration space of X01: which programs the callers run (shared by the model-checking    *)
(* module ThrottleUseMC and the scenario generator ThrottleUseGen).  Hosts: "a" (upstream), "m"     *)
(* (its mirror, tried first), "b" (another registry).  Callers are interchangeable: only            *)
(* non-decreasing assignments of programs to o1 <= o2 <= o3 are in the space.                       *)
EXTENDS Naturals, Sequences, FiniteSets, TLC
CONSTANTS NOps, MaxFail, MaxRestart
MCOps == {"o1", "o2", "o3"}
MCHosts == {"a", "m", "b"}
OpSeq == <<"o1", "o2", "o3">>
HostLists == {<<"a">>, <<"m", "a">>, <<"b">>}
CopyLists == {<<"a", "b">>, <<"m", "a", "b">>, <<"b", "b">>}
Universe ==
  {[kind |-> k, hosts |-> hs, fail |-> f, restarts |-> r, cancel |-> c] :
     k \in {"req", "reader"}, hs \in HostLists, f \in 0..MaxFail, r \in 0..MaxRestart, c \in BOOLEAN}
  \cup {[kind |-> "copy", hosts |-> hs, fail |-> f, restarts |-> 0, cancel |-> FALSE] : hs \in CopyLists, f \in 0..1}
\* drop the combinations that mean nothing: restarts only for readers
Meaningful(p) == (p.kind = "req" => p.restarts = 0)
Idle == [kind |-> "req", hosts |-> <<"b">>, fail |-> 0, restarts |-> 0, cancel |-> FALSE]
\* a total order on the universe to pick one representative per multiset
HLRank(hs) == CASE hs = <<"a">> -> 0 [] hs = <<"m", "a">> -> 1 [] hs = <<"b">> -> 2 [] hs = <<"a", "b">> -> 3
                [] hs = <<"m", "a", "b">> -> 4 [] OTHER -> 5
Rank(p) == (((CASE p.kind = "req" -> 0 [] p.kind = "reader" -> 1 [] OTHER -> 2) * 6 + HLRank(p.hosts)) * 4 + p.fail) * 4
           + p.restarts * 2 + (IF p.cancel THEN 1 ELSE 0)
U == {u \in Universe : Meaningful(u)}
Assignments ==
  CASE NOps = 1 -> {[o \in MCOps |-> IF o = "o1" THEN x ELSE Idle] : x \in U}
    [] NOps = 2 -> {[o \in MCOps |-> IF o = "o1" THEN xy[1] ELSE IF o = "o2" THEN xy[2] ELSE Idle] :
                      xy \in {z \in U \X U : Rank(z[1]) <= Rank(z[2])}}
    [] OTHER -> {[o \in MCOps |-> IF o = "o1" THEN xyz[1] ELSE IF o = "o2" THEN xyz[2] ELSE xyz[3]] :
                   xyz \in {z \in U \X U \X U : Rank(z[1]) <= Rank(z[2]) /\ Rank(z[2]) <= Rank(z[3])}}
=============================================================================

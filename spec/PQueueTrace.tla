---------------------------- MODULE PQueueTrace ----------------------------
(* Trace spec for C17: replays an ndjson event log recorded from the real  *)
(* internal/pqueue (hooks, build tag verif) through the monitor PQueueProp. *)
EXTENDS PQueueProp, Json, IOUtils, Integers
Log == ndJsonDeserialize(IOEnv.VERIF_TRACE)
VARIABLE l
Ev == Log[l]
TInit == PInit /\ l = 1
TNext ==
  /\ l <= Len(Log)
  /\ l' = l + 1
  /\ \/ Ev.ev = "reset" /\ PReset
     \/ Ev.ev \in {"acq_fast", "try_ok"} /\ PAdmit(Ev.q, Ev.p, Ev.max, Ev.act, Ev.que)
     \/ Ev.ev = "enqueue" /\ PEnqueue(Ev.q, Ev.p, Ev.max, Ev.act, Ev.que)
     \/ Ev.ev = "promote" /\ PPromote(Ev.q, Ev.p)
     \/ Ev.ev = "wake" /\ PWake(Ev.q, Ev.p)
     \/ Ev.ev = "cancel_rm" /\ PCancelRemove(Ev.q, Ev.p, Ev.act, Ev.que)
     \/ Ev.ev = "cancel_pass" /\ PCancelPass(Ev.q, Ev.p, Ev.act, Ev.que)
     \/ Ev.ev = "released" /\ PReleased(Ev.q, Ev.p, Ev.max, Ev.act, Ev.que)
     \/ Ev.ev = "try_fail" /\ PTryFail(Ev.q, Ev.p, Ev.act, Ev.que)
     \/ Ev.ev = "gaveup" /\ PGaveUp(Ev.p)
     \/ Ev.ev = "holding" /\ PHolding(Ev.q, Ev.p)
     \/ Ev.ev = "quiescent" /\ PQuiescent
     \/ Ev.ev = "final" /\ PFinal
     \/ Ev.ev = "stuck" /\ PStuck
     \/ Ev.ev \in {"multi", "note"} /\ PNote
TSpec == TInit /\ [][TNext]_<<pvars, l>>
HW == TLCSet(1, IF TLCGet(1) > l THEN TLCGet(1) ELSE l)
Accepted == PrintT(<<"HIGHWATER", TLCGet(1), Len(Log)>>)
ASSUME TLCSet(1, 0)
=============================================================================

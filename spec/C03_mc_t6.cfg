CONSTANTS
 Confs <- MCConfs
 FixWaitErr = TRUE
 Reduce = FALSE
 MCShapes = {"artshare"}
 MCPairs = {"tworeg", "samereg", "reg2dir", "dir2dir"}
 MCOpts <- MCOptsRefsTgt
 MCFeats <- MCFeatsCore
 MCInit = "corners"
 MCTag0 = {"none", "same"}
 MCByDigest = {FALSE}
 MCTgtByDigest = {FALSE}
 MaxFaults = 0
 AllowCancel = FALSE
 AllowCrash = FALSE
 Cap = 0
INIT Init
NEXT Next
INVARIANTS TypeOK InvC04 InvFb InvFbListed InvC03 InvC14 InvC14T InvFailTag

----------------------------- MODULE CopyTrace -----------------------------
(* Trace spec for C03 / C04 / C14: replays an ndjson log recorded by        *)
(* harness/cmd/copydrv (real regclient.ImageCopy against model registries / *)
(* OCI layout directories) through the monitor CopyProp.  One event = one   *)
(* monitor step; every invariant is evaluated after every event.            *)
(* Event kinds: reset (header: pairing, options), man / edge / referrer /   *)
(* alias (names of objects in the referrer target repository) /             *)
(* dtag (facts about the source, parsed independently from its raw bytes),  *)
(* init (raw target store before the copy), req (a request served by a      *)
(* model registry; wr=1: it wrote to the target and carries the raw target  *)
(* store right after it), snap (an observation of a layout target), cancel, *)
(* result, final (after everything the copy started has ended), death.      *)
EXTENDS CopyProp, Json, IOUtils, Integers
Log == ndJsonDeserialize(IOEnv.VERIF_TRACE)
VARIABLE l
Ev == Log[l]
TInit == PInit /\ l = 1
TNext ==
  /\ l <= Len(Log)
  /\ l' = l + 1
  /\ \/ Ev.ev = "reset" /\ PReset(Ev)
     \/ Ev.ev = "man" /\ PMan(Ev.n, Ev.kind)
     \/ Ev.ev = "edge" /\ PEdge([p |-> Ev.p, c |-> Ev.c, role |-> Ev.role, psel |-> Ev.psel, hosted |-> Ev.hosted])
     \/ Ev.ev = "referrer" /\ PReferrer([r |-> Ev.r, s |-> Ev.s, match |-> Ev.match])
     \/ Ev.ev = "dtag" /\ PDTag([t |-> Ev.t, on |-> Ev.on, to |-> Ev.to, fb |-> Ev.fb])
     \/ Ev.ev = "alias" /\ PAlias(Ev.q, Ev.n, Ev.pfx)
     \/ Ev.ev = "init" /\ PInitStore(Store(Ev))
     \/ Ev.ev = "req" /\ Ev.wr = 0 /\ PReq(Ev.side, Ev.class, Ev.n, Ev.st, Ev.data)
     \/ Ev.ev = "req" /\ Ev.wr = 1 /\
          PWrite(Ev.side, Ev.class, Ev.n, Ev.st, Ev.data,
                 IF Ev.class = "manifest_put" THEN Ev.pn ELSE "",
                 IF Ev.class = "manifest_put" THEN Ev.fb ELSE 0,
                 IF Ev.class = "manifest_put" THEN Ev.istag ELSE 0, Store(Ev))
     \/ Ev.ev = "snap" /\ PSnap(Store(Ev))
     \/ Ev.ev = "result" /\ PResult(Ev.ok, Store(Ev))
     \/ Ev.ev = "final" /\ PFinal(Store(Ev))
     \/ Ev.ev = "death" /\ PDeath(Store(Ev))
     \/ Ev.ev \in {"cancel", "note"} /\ PNote
TSpec == TInit /\ [][TNext]_<<pvars, l>>
HW == TLCSet(1, IF TLCGet(1) > l THEN TLCGet(1) ELSE l)
Accepted == PrintT(<<"HIGHWATER", TLCGet(1), Len(Log)>>)
ASSUME TLCSet(1, 0)
=============================================================================

------------------------------ MODULE ScanLemma ------------------------------
(***************************************************************************)
(* The scan lemma behind C16 (DescriptorListSearch): for ANY relation      *)
(* Better on the runnable entries that is irreflexive and transitive, the  *)
(* left-to-right scan "replace the current choice when the next entry is   *)
(* better" over ANY list returns an entry that no entry of the list beats  *)
(* - whatever the order of the list.  TLC checks it exhaustively for every *)
(* such relation on N elements and every list over them up to length N     *)
(* (with repetitions); the scan is stepped entry by entry, as the code's   *)
(* loop does.  This lifts the pairwise laws validated on the recorded      *)
(* relation (PlatformTrace.tla) to lists of any content and order.         *)
(***************************************************************************)
EXTENDS Naturals, Sequences, FiniteSets
CONSTANT N
E == 1..N
VARIABLES rel, list, i, cur
StrictOrders == {r \in SUBSET (E \X E) :
                   /\ \A a \in E : <<a, a>> \notin r
                   /\ \A a \in E, b \in E, c \in E : <<a, b>> \in r /\ <<b, c>> \in r => <<a, c>> \in r}
Lists == UNION {[1..n -> E] : n \in 1..N}
Init == rel \in StrictOrders /\ list \in Lists /\ i = 1 /\ cur = 0
\* Better(t, prev): prev = 0 is "nothing found yet"
Better(t, p) == p = 0 \/ <<t, p>> \in rel
Next == /\ i <= Len(list)
        /\ cur' = IF Better(list[i], cur) THEN list[i] ELSE cur
        /\ i' = i + 1
        /\ UNCHANGED <<rel, list>>
Done == i > Len(list)
Seen == {list[j] : j \in 1..(i-1)}
\* inductive form: the current choice is never beaten by anything scanned so far
Maximal == cur # 0 => \A x \in Seen : <<x, cur>> \notin rel
Found == i > 1 => cur # 0
=============================================================================

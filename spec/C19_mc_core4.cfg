SPECIFICATION MCSpec
VIEW view
INVARIANTS DryNoChange ThrottleOk NotBlocked
CONSTANTS
 Ungated = {}
 LeakOnErr = {}
 StubReads = {}
 NS = 1
 MaxLen = 4
 Pars = {0}
 Alphabet = "core"

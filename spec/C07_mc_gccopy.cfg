\* baseline, copy of an index after an interrupted sweep: counterexample EXPECTED (known finding C07-copy-after-gc-crash, findings/C07-3.md)
CONSTANTS
 Scenarios <- GcThenCopy
 MaxCrash = 1
 MarkerMode = "ifbad"
 MarkerWindow = TRUE
 MaxFault = 0
INIT Init
NEXT Next
INVARIANTS TypeOK NoStuck CrashStateOK ReturnOK RetryOK FollowOK
CHECK_DEADLOCK FALSE

----------------------------- MODULE TarExportGen -----------------------------
(***************************************************************************)
(* Prints, for every single-root graph of the catalogue, the sequence of    *)
(* entry names the export walk of TarExport writes ("XORD").  The runner     *)
(* compares it with the entry order of the archive the real ImageExport      *)
(* wrote (drift, not a verdict): this binds the export model to the code.    *)
(***************************************************************************)
EXTENDS TarExport, Json
EmitOrder == phase = "init" => PrintT(<<"XORD", ToJson([g |-> sc.g, names |-> [i \in 1..Len(arch) |-> arch[i].name]])>>)
=============================================================================

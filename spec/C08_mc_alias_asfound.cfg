CONSTANTS
 Copies = {"c1", "c2"}
 Confs <- AliasConfs
 MaxCloses = 2
 MaxOps = 0
 KeyMode = "literal"
 LockRefTgt = TRUE
 CtxKinds = {"bg", "cancelled"}
 MarkCtx = FALSE
 Eager = FALSE
SPECIFICATION Spec
INVARIANTS TypeOK LocksNonNeg LocksExact MarkIsReach
PROPERTIES O1 O2 O3 O4
CHECK_DEADLOCK FALSE

INIT GInit
NEXT GNext
CONSTANTS
 DrainBug = TRUE
 LinkCode = TRUE
 DupPathBug = TRUE
 Ids <- GenTinyIds
INVARIANTS EmitCat Emit
CHECK_DEADLOCK FALSE

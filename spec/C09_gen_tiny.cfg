INIT GInit
NEXT GNext
CONSTANTS
 DrainBug = FALSE
 LinkCode = FALSE
 DupPathBug = FALSE
 Ids <- GenTinyIds
INVARIANTS EmitCat Emit
CHECK_DEADLOCK FALSE

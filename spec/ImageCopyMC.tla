---------------------------- MODULE ImageCopyMC ----------------------------
(* Model-checking harness of (D) ImageCopy: builds the configuration space *)
(* from small constants and states the properties by instantiating the     *)
(* monitor (P) CopyProp on the design spec's state, so that TLC checks on   *)
(* every reachable state of (D) literally the operators that judge the      *)
(* recorded traces of the real code.                                        *)
EXTENDS ImageCopy
CONSTANTS MCShapes,     \* set of shape names (CopyShapes)
          MCPairs,      \* subset of {"samerepo","samereg","tworeg","reg2dir","dir2reg","dir2dir"}
          MCOpts,       \* set of option records (Opt below)
          MCFeats,      \* set of feature records (Feat below)
          MCInit,       \* "all": every subset of the shape's objects pre-exists; "corners": {}, everything,
                        \* the manifests, the blobs, everything but the root; "empty": {}
          MCTag0,       \* subset of {"none","stale","same"}
          MCByDigest,   \* subset of BOOLEAN (source named by digest)
          MCTgtByDigest,
          MaxFaults, AllowCancel, AllowCrash, Cap

\* filter: set of artifact types, one ImageWithReferrers(filter) option each ({} = no filter); reftgt:
\* ImageWithReferrerTgt(another repository / layout)
OptX(force, referrers, filter, dtags, inclext, fast, plats, reftgt) ==
  [force |-> force, referrers |-> referrers, filter |-> filter, dtags |-> dtags, inclext |-> inclext,
   fast |-> fast, plats |-> plats, reftgt |-> reftgt]
Opt(force, referrers, filter, dtags, inclext, fast, plats) ==
  OptX(force, referrers, IF filter = "" THEN {} ELSE {filter}, dtags, inclext, fast, plats, FALSE)
OptRefsBoth == OptX(FALSE, TRUE, {"sbom", "sig"}, FALSE, FALSE, FALSE, FALSE, FALSE)
OptRefsTgt == OptX(FALSE, TRUE, {}, FALSE, FALSE, FALSE, FALSE, TRUE)
OptRefsTgtForce == OptX(TRUE, TRUE, {}, FALSE, FALSE, FALSE, FALSE, TRUE)
OptDefault == Opt(FALSE, FALSE, "", FALSE, FALSE, FALSE, FALSE)
OptForce == Opt(TRUE, FALSE, "", FALSE, FALSE, FALSE, FALSE)
OptFast == Opt(FALSE, FALSE, "", FALSE, FALSE, TRUE, FALSE)
OptPlats == Opt(FALSE, FALSE, "", FALSE, FALSE, FALSE, TRUE)
OptRefs == Opt(FALSE, TRUE, "", FALSE, FALSE, FALSE, FALSE)
OptRefsSbom == Opt(FALSE, TRUE, "sbom", FALSE, FALSE, FALSE, FALSE)
OptRefsForce == Opt(TRUE, TRUE, "", FALSE, FALSE, FALSE, FALSE)
OptRefsFast == Opt(FALSE, TRUE, "", FALSE, FALSE, TRUE, FALSE)
OptDTags == Opt(FALSE, FALSE, "", TRUE, FALSE, FALSE, FALSE)
OptRefsDTags == Opt(FALSE, TRUE, "", TRUE, FALSE, FALSE, FALSE)
OptExt == Opt(FALSE, FALSE, "", FALSE, TRUE, FALSE, FALSE)
FeatX(mount, headDigest, refApiSrc, refApiTgt, decline) ==
  [mount |-> mount, headDigest |-> headDigest, refApiSrc |-> refApiSrc, refApiTgt |-> refApiTgt, decline |-> decline,
   leftover |-> FALSE]
FeatLeftover == [FeatX(TRUE, TRUE, TRUE, TRUE, FALSE) EXCEPT !.leftover = TRUE]   \* referrers API + left-over sha256-<hex> tags
Feat(mount, headDigest, refApiSrc, refApiTgt) == FeatX(mount, headDigest, refApiSrc, refApiTgt, FALSE)
FeatDeclineOne == FeatX(TRUE, TRUE, TRUE, TRUE, TRUE)      \* mounts granted except for one blob
FeatAll == Feat(TRUE, TRUE, TRUE, TRUE)
FeatNoMount == Feat(FALSE, TRUE, TRUE, TRUE)
FeatNoHeadDigest == Feat(TRUE, FALSE, TRUE, TRUE)
FeatNoRefApi == Feat(TRUE, TRUE, FALSE, FALSE)
FeatNoRefApiTgt == Feat(TRUE, TRUE, TRUE, FALSE)

ASSUME Reduce => (MaxFaults = 0 /\ ~AllowCancel /\ Cap = 0)

Universe(s) == Shapes[s].blobs \cup DOMAIN Shapes[s].mans
InitSets(s, p) == IF p = "samerepo" THEN {{}}
                  ELSE IF MCInit = "all" THEN SUBSET Universe(s)
                  ELSE IF MCInit = "empty" THEN {{}}
                  ELSE {{}, Universe(s), DOMAIN Shapes[s].mans, Shapes[s].blobs, Universe(s) \ {Shapes[s].root}}
AllConfs ==
  {[shape |-> s, pair |-> p, mount |-> f.mount, headDigest |-> f.headDigest, refApiSrc |-> f.refApiSrc,
    refApiTgt |-> f.refApiTgt, decline |-> f.decline, leftover |-> f.leftover, force |-> o.force, referrers |-> o.referrers, filter |-> o.filter,
    dtags |-> o.dtags, inclext |-> o.inclext, fast |-> o.fast, plats |-> o.plats, refTgt |-> o.reftgt, init |-> i,
    tag0 |-> t,
    byDigest |-> b, tgtByDigest |-> d, maxFaults |-> MaxFaults, cancel |-> AllowCancel, crash |-> AllowCrash,
    cap |-> Cap] :
   s \in MCShapes, p \in MCPairs, f \in MCFeats, o \in MCOpts, i \in UNION {InitSets(s2, p2) : s2 \in MCShapes, p2 \in MCPairs},
   t \in MCTag0, b \in MCByDigest, d \in MCTgtByDigest}
GoodConf(c) == /\ c.init \in InitSets(c.shape, c.pair)
               /\ c.refTgt => c.pair # "samerepo"
               /\ c.tgtByDigest => c.pair # "samerepo" /\ c.tag0 = "none"
MCConfs == {c \in AllConfs : GoodConf(c)}

\* ------------------------------------------------ (P) on the state of (D)
B(x) == IF x THEN 1 ELSE 0
HdrOf == [root |-> Root, tagged |-> B(~conf.tgtByDigest), faultfree |-> B(faults = 0 /\ ~ctxC /\ ~crashed),
          force |-> B(conf.force), referrers |-> B(conf.referrers), dtags |-> B(conf.dtags),
          inclext |-> B(conf.inclext), fast |-> B(conf.fast),
          mountok |-> B(conf.mount /\ conf.pair = "samereg"), samerepo |-> B(SameRepo),
          transient |-> B(faults > 0 /\ faults = retries /\ ~ctxC /\ ~crashed), reftgt |-> B(conf.refTgt),
          refapi_tgt |-> B(RefApiTgt)]
PSel(k) == B((k[2] \in {"entry", "bentry", "uentry"} /\ conf.plats) => k[3] = "linux/amd64")
PEdges == UNION {{[p |-> m, c |-> KidsSeq(m)[j][1], role |-> KidsSeq(m)[j][2], psel |-> PSel(KidsSeq(m)[j]), hosted |-> 1] :
                  j \in 1..Len(KidsSeq(m))} : m \in Mans}
PMKind == {<<m, Kind(m)>> : m \in Mans} \cup {<<"OLDM", "image">>}
PRefs == {[r |-> r[1], s |-> r[2], match |-> B(conf.filter = {} \/ r[3] \in conf.filter)] : r \in Sh.refs}
PAliasSet == IF conf.refTgt THEN {<<"r/" \o n, n, "r/">> : n \in AllNodes \cup {"D:" \o m : m \in Mans}} ELSE {}
PDTags == {[t |-> d[1], on |-> d[2], to |-> d[3], fb |-> 0] : d \in Sh.dtags} \cup
          {[t |-> FbTag(f[2]), on |-> f[2], to |-> f[1], fb |-> B(~RefApiSrc)] : f \in {f \in Sh.fbs : HasFB /\ f[2] \notin Sh.long}}
PInit0 == [b |-> InitB, m |-> InitM, x |-> {}, t |-> InitT]
PCur == [b |-> tb, m |-> tm, x |-> {}, t |-> tt]
RECURSIVE Rep(_, _)
Rep(x, n) == IF n = 0 THEN <<>> ELSE <<x>> \o Rep(x, n - 1)
RECURSIVE BagSeq(_, _)
BagSeq(f, S) == IF S = {} THEN <<>> ELSE LET x == CHOOSE x \in S : TRUE IN Rep(x, f[x]) \o BagSeq(f, S \ {x})
P == INSTANCE CopyProp WITH Groups <- {"C03", "C04", "C14"}, hdr <- HdrOf, mkind <- PMKind, edges <- PEdges,
       refs <- PRefs, dtags <- PDTags, alias <- PAliasSet, init0 <- PInit0, cur <- PCur, written <- written, tagMoved <- tagMoved,
       gets <- BagSeq(getc, DOMAIN getc), commits <- BagSeq(comc, DOMAIN comc),
       declined <- (IF conf.decline THEN {Sh.order[1]} ELSE {}), nBlobReq <- nBlobReq,
       nManPut <- nManPut, nWrites <- nWrites, res <- ret, bad <- ""

FaultFree == faults = 0 /\ ~ctxC /\ ~crashed
\* C04 in every reachable state (= every crash state): children first, the tag only old or final, nothing after it
InvC04 == ~lateWrite /\ P!First(P!StoreChecks(PCur, written, FALSE)) = ""
\* the client-made referrers index lists only manifests that are there
InvFb == \A p \in fbl : p[2] \in tm
\* ... and after a successful copy with referrers to a target without referrers API every referrer this copy
\* wrote is in the list behind its subject's fall-back tag (no lost update of the read-modify-write)
InvFbListed == (ret = "ok" /\ FaultFree /\ conf.referrers /\ ~RefApiTgt) =>
                 \A i \in Ids : (tasks[i].k = "man" /\ Q(tasks[i]) \in written /\ HasSubject(tasks[i].node))
                                  => <<tasks[i].rp \o SubjectOf(tasks[i].node), Q(tasks[i])>> \in fbl
\* C03 when the copy returned ok without faults
InvC03 == (ret = "ok" /\ FaultFree) => P!Complete(PCur, PInit0, TRUE)
\* C14 when the copy returned ok without faults
\* (with a separate referrer target the counters are per repository: not judged, as in the monitor)
InvC14 == (ret = "ok" /\ FaultFree /\ ~conf.refTgt) => P!First(P!C14Checks(PCur)) = ""
\* ... and no source GET of a blob the target had, no transfer where a mount is granted, no write onto the
\* identical image when the only faults were transient ones
InvC14T == (ret = "ok" /\ faults > 0 /\ faults = retries /\ ~ctxC /\ ~crashed) => P!First(P!C14TChecks(PCur)) = ""
\* an error result leaves the requested tag alone unless the final write was made
InvFailTag == (ret = "err" /\ ~tagMoved /\ ~conf.tgtByDigest) => TagOfT("T") = P!TagOf(PInit0, "T")
\* structural sanity of (D)
TypeOK == /\ \A i \in Ids : tasks[i].pend >= 0 /\ tasks[i].par < i
          /\ slots >= 0 /\ (conf.cap > 0 => slots <= conf.cap)
          /\ Cardinality({e \in seen : e.st = "inprog"}) <= Len(tasks)
          /\ \A e1, e2 \in seen : (e1.node = e2.node /\ e1.tag = e2.tag) => e1 = e2
Termination == <>(ret # "" \/ crashed)
\* option / feature sets referenced from the cfg files
MCOptsDefault == {OptDefault}
MCOptsCore == {OptDefault, OptForce, OptRefs, OptDTags}
MCOptsAll == {OptDefault, OptForce, OptFast, OptPlats, OptRefs, OptRefsSbom, OptRefsForce, OptRefsFast, OptDTags,
              OptRefsDTags, OptExt}
MCOptsRefs == {OptRefs, OptRefsDTags}
MCOptsRefsOnly == {OptRefs}
MCOptsRefs2 == {OptRefs, OptRefsSbom}
MCOptsRefs3 == {OptRefsBoth, OptRefsTgt}
MCOptsRefsBoth == {OptRefsBoth}
MCOptsRefsDTags == {OptDTags, OptRefsDTags}
MCOptsRefsTgt == {OptRefsTgt, OptRefsTgtForce}
MCOptsNoRefs == {OptDefault, OptForce, OptFast, OptPlats, OptDTags, OptExt}
MCOptsForce == {OptDefault, OptForce}
MCOptsDTags == {OptDefault, OptDTags}
\* the option sets of a periodic re-sync (C14: repeat copy onto the identical image; the options that switch the
\* top-level digest short-cut off, and those that do not)
MCOptsRepeat == {OptRefs, OptDTags, OptRefsDTags, OptPlats, OptFast}
MCFeatsDefault == {FeatAll}
MCFeatsCore == {FeatAll, FeatNoRefApi}
MCFeatsLeftover == {FeatAll, FeatLeftover}
MCFeatsMount == {FeatAll, FeatNoMount}
MCFeatsMount3 == {FeatAll, FeatNoMount, FeatDeclineOne}
MCFeatsAll == {FeatAll, FeatNoMount, FeatNoHeadDigest, FeatNoRefApi, FeatNoRefApiTgt}
=============================================================================

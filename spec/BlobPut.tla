------------------------------ MODULE BlobPut ------------------------------
(***************************************************************************)
(* (D) design spec for C05: a blob upload commits exactly the caller's     *)
(* bytes under their digest, or fails.                                     *)
(*                                                                         *)
(* Mirrors (file:function per action)                                      *)
(*   scheme/reg/blob.go:BlobPut               Start Mount MountR Post      *)
(*                                            PostR TryPut FullFail Cancel *)
(*                                            CancelR                      *)
(*   scheme/reg/blob.go:blobMount             Mount MountR (+ min length)  *)
(*   scheme/reg/blob.go:blobGetUploadURL      Post PostR (+ min length)    *)
(*   scheme/reg/blob.go:blobPutUploadFull     Full FullBody FullR          *)
(*   scheme/reg/blob.go:blobPutUploadChunked  ChInit Loop Fill Slice       *)
(*        (the code's own variables: bufBytes PatchSend PatchR StatusR     *)
(*        bufStart chunkStart chunkSize        Verify FinalR               *)
(*        finalChunk retryCur noProgress chunkURL; the capacity of the     *)
(*        slice is the explicit variable bufCap)                           *)
(*   scheme/reg/blob.go:blobUploadStatus      the GET sent by PatchR       *)
(*   scheme/reg/blob.go:blobUploadCancel      Cancel CancelR               *)
(*   internal/reghttp/http.go:Resp.next       Http: a 500/502/504/429/408  *)
(*        reply or a connection error is retried (same request, BodyFunc   *)
(*        called again); any other non 2xx status is final; every failure  *)
(*        except 404/416 raises the host's back-off counter (backoffSet),  *)
(*        and once that reaches the retry limit nothing is retried         *)
(*   internal/reghttp/http.go:Resp.Close      CloseReset (backoffReset):   *)
(*        called for every 2xx reply and, in the chunk loop, for every     *)
(*        reply that is a http response at all                             *)
(*   scheme/ocidir/blob.go:BlobPut            OCopy OVerify ORename        *)
(*   server: the upload part of the OCI distribution spec, Serve(c): one   *)
(*        atomic step per request; c is the server's choice where the spec *)
(*        (or the property's quantifier) leaves one                        *)
(*                                                                         *)
(* Abstractions / deliberate deviations                                    *)
(*   - one unit = one symbol of content; the source is <<1,2,..,len>>, so  *)
(*     every position is distinguishable; the digest is an ideal hash:     *)
(*     H(c) = c (algorithms are not modelled; the harness runs both).      *)
(*   - "500" stands for every status reghttp retries, status 0 for a       *)
(*     connection error (retried the same way, but not a http response     *)
(*     when it is final), "503" for a status that reghttp does not retry.  *)
(*   - the http transport's ContentLength check (body shorter or longer    *)
(*     than the declared size) is folded into FullBody: the request never  *)
(*     reaches the server and the identical retries are skipped.           *)
(*   - back-off delays (time), the throttle, auth and mirrors are not      *)
(*     modelled; the back-off counters are.                                *)
(*   - io.ReadFull is one step (short reads of the source are exercised by *)
(*     the harness only).                                                  *)
(*   - redirects (307 / 308) of session requests are followed by net/http  *)
(*     below reghttp; here a URL is an opaque token.  Which URL the next   *)
(*     request goes to (redirects x reference forms of the Location) is    *)
(*     specified in BlobPutLoc.tla; the harness runs every BlobPut         *)
(*     behaviour with and without redirects.                               *)
(*   - read errors of the source and context cancellation are not          *)
(*     modelled.                                                           *)
(*   - bufChange / bufRdr (re-creation of the bytes.Reader) is not         *)
(*     modelled: the body of a PATCH is the current bufBytes.              *)
(***************************************************************************)
EXTENDS Integers, Sequences, FiniteSets, TLC

CONSTANTS Confs,       \* set of configuration records, see BlobPutMC
          MaxPartial,  \* partial acceptances the server may choose per run
          MaxFaults,   \* transient faults the environment may inject per run
          DefChunk,    \* reg.blobChunkSize, used when host.BlobChunk <= 0
          ChunkLimit,  \* reg.blobChunkLimit
          RetryLimit,  \* retryLimit of blobPutUploadChunked (10 in the code)
          HttpRetries, \* reghttp retryLimit (5 in the code)
          IgnoreInvalidDigest \* as-found switch (before 69e13de): a declared digest that does not
                       \* validate is taken for "no digest"; FALSE = the repaired code

VARIABLES
  cf,          \* configuration (constant during a behaviour)
  pc,          \* control state of the client
  \* ------------------------------------------------ BlobPut and its reader
  putURL,      \* *url.URL shared by BlobPut, blobPutUploadFull (which edits it) and cancel
  rdPos,       \* bytes consumed from the caller's stream
  readOnce,    \* blobPutUploadFull: the body function has been called before
  result,      \* "none" | "ok" | "err"
  retD,        \* descriptor returned on success [dig, size]
  \* ------------------------------------------------ reghttp
  req, rsp, ret, tries,
  boCur, boReset, \* clientHost.backoffCur / backoffReset
  \* ------------------------------------------------ blobPutUploadChunked
  hostChunk,   \* host.BlobChunk (raised by OCI-Chunk-Min-Length)
  bufBytes, bufCap, bufStart, chunkStart, chunkSize, finalChunk, retryCur, noProgress, chunkURL,
  hashed,      \* everything that went through the digester (TeeReader)
  \* ------------------------------------------------ destination
  blobs,       \* digest -> content held by the target repository / layout
  sess,        \* upload session [open, data, tok, short]
  mounted,     \* the server accepted the anonymous mount
  nPartial, nFault, nEarly, refused, minViol,
  keptAll,     \* the server refused the single request upload but kept its whole body
  tmpFile      \* ocidir: content of the temp file, or NoFile

cvars == <<putURL, rdPos, readOnce, result, retD>>
hvars == <<req, rsp, ret, tries, boCur, boReset>>
lvars == <<hostChunk, bufBytes, bufCap, bufStart, chunkStart, chunkSize, finalChunk, retryCur, noProgress, chunkURL, hashed>>
svars == <<blobs, sess, mounted, nPartial, nFault, nEarly, refused, minViol, keptAll>>
vars == <<cf, pc, cvars, hvars, lvars, svars, tmpFile>>

Min2(a, b) == IF a < b THEN a ELSE b

\* ------------------------------------------------------------------ content
Src    == [i \in 1..cf.len |-> i]
Other  == <<0>>               \* some other content; its digest is the "wrong" digest
NoDig  == <<-1>>              \* no digest declared
NoFile == <<-2>>
H(c)   == c                   \* ideal hash

\* declared descriptor: digest of the stream / of other content / of the prefix that has the
\* declared size / none; size right, one more, one less (configurations keep it > 0), none.
\* "baddig" is a digest string that does not validate (malformed, or an algorithm that is not
\* available): d.Digest.Validate() != nil.  BlobPut rejects it up front (Start); with the as-found
\* switch IgnoreInvalidDigest every later test of the digest treats it exactly like no digest.
DDig  == CASE cf.decl \in {"right", "sizeplus", "sizeminus", "digonly"} -> H(Src)
           [] cf.decl = "wrongdig" -> H(Other)
           [] cf.decl = "prefix" -> H(SubSeq(Src, 1, cf.len - 1))
           [] OTHER -> NoDig
DSize == CASE cf.decl \in {"right", "wrongdig", "sizeonly", "baddig"} -> cf.len
           [] cf.decl \in {"sizeplus", "sizeonlyplus"} -> cf.len + 1
           [] cf.decl \in {"sizeminus", "sizeonlyminus", "prefix"} -> cf.len - 1
           [] OTHER -> 0
DigValid   == DDig # NoDig
\* validDesc in BlobPut: (d.Size > 0 && digest valid) || (d.Size == 0 && d.Digest == zeroDig)
ValidDesc  == (DSize > 0 /\ DigValid) \/ (DSize = 0 /\ DDig = H(<<>>))
Mismatch   == (DigValid /\ DDig # H(Src)) \/ (DSize > 0 /\ DSize # cf.len) \/ cf.decl = "baddig"
WellFormed == ~Mismatch
\* what the target holds under the declared digest before the call
Pre   == IF DigValid /\ cf.exists = "repo" THEN DDig ELSE NoFile
Avail == IF DigValid /\ cf.exists \in {"repo", "else"} THEN {DDig} ELSE {}
Held(d) == IF d \in DOMAIN blobs THEN blobs[d] ELSE NoFile

\* --------------------------------------------------------------------- URLs
\* tok: which Location of the session this is; q: it has a query string; dg: how many
\* digest parameters the client has appended
NoURL == [tok |-> -1, q |-> FALSE, dg |-> 0]
LocOf(t) == [tok |-> t, q |-> cf.loc = "query", dg |-> 0]
NextTok == IF cf.loc = "plain" THEN sess.tok ELSE sess.tok + 1
TokOK(u) == cf.loc = "plain" \/ u.tok = sess.tok

NoRng == -2
Reply(st, loc, rng, min) == [st |-> st, loc |-> loc, rng |-> rng, min |-> min]
NoReply == Reply(0, NoURL, NoRng, 0)
Request(m, u, mnt, start, body, dg) == [m |-> m, url |-> u, mount |-> mnt, start |-> start, body |-> body, dig |-> dg]
NoReq == Request("", NoURL, FALSE, 0, <<>>, NoDig)

C(a) == [a |-> a, k |-> 0, via |-> ""]

Init ==
  /\ cf \in Confs
  /\ pc = "start"
  /\ putURL = NoURL /\ rdPos = 0 /\ readOnce = FALSE /\ result = "none" /\ retD = [dig |-> NoDig, size |-> 0]
  /\ req = NoReq /\ rsp = NoReply /\ ret = "" /\ tries = 0 /\ boCur = 0 /\ boReset = 0
  /\ hostChunk = cf.chunk
  /\ bufBytes = <<>> /\ bufCap = 0 /\ bufStart = 0 /\ chunkStart = 0 /\ chunkSize = 0
  /\ finalChunk = FALSE /\ retryCur = 0 /\ noProgress = 0 /\ chunkURL = NoURL /\ hashed = <<>>
  /\ blobs = IF Pre = NoFile THEN <<>> ELSE (DDig :> Pre)
  /\ sess = [open |-> FALSE, data |-> <<>>, tok |-> 0, short |-> FALSE]
  /\ mounted = FALSE /\ nPartial = 0 /\ nFault = 0 /\ nEarly = 0 /\ refused = FALSE /\ minViol = FALSE /\ keptAll = FALSE
  /\ tmpFile = NoFile

Send(r, cont) == req' = r /\ ret' = cont /\ pc' = "srv" /\ UNCHANGED <<rsp, tries>>
Fail == result' = "err" /\ pc' = "done"
\* Resp.Close -> backoffReset: enough closed responses lower the back-off counter again
Lower == boCur > 0 /\ (boReset + 1 > 5 \/ boCur > HttpRetries)
CloseReset == /\ boCur' = IF Lower THEN boCur - 1 ELSE boCur
              /\ boReset' = IF boCur = 0 THEN boReset ELSE IF Lower THEN 0 ELSE boReset + 1
NoClose == UNCHANGED <<boCur, boReset>>
Is2xx(st) == st \in {201, 202, 204}
CloseIf2xx == IF Is2xx(rsp.st) THEN CloseReset ELSE NoClose

\* ------------------------------------------------------------------ BlobPut
\* (since 69e13de) both BlobPut implementations first reject a digest that is set but does not
\* validate: nothing is sent, nothing is read
Start ==
  /\ pc = "start"
  /\ IF cf.decl = "baddig" /\ ~IgnoreInvalidDigest
     THEN Fail /\ UNCHANGED <<putURL, rdPos, readOnce, retD>>
     ELSE /\ pc' = IF cf.dest = "ocidir" THEN "o_copy" ELSE IF ValidDesc THEN "mount" ELSE "post"
          /\ UNCHANGED cvars
  /\ UNCHANGED <<cf, hvars, lvars, svars, tmpFile>>

\* blobMount with an empty source ref: POST ?mount=<digest>, errors ignored
Mount ==
  /\ pc = "mount"
  /\ Send(Request("POST", NoURL, TRUE, 0, <<>>, DDig), "mount_r")
  /\ UNCHANGED <<cf, cvars, boCur, boReset, lvars, svars, tmpFile>>

\* host.BlobChunk is raised when the registry asks for bigger chunks
Adjust(m) == IF m > 0 /\ ((hostChunk > 0 /\ m > hostChunk) \/ (hostChunk <= 0 /\ m > DefChunk))
             THEN Min2(m, ChunkLimit) ELSE hostChunk

MountR ==
  /\ pc = "mount_r"
  /\ hostChunk' = IF rsp.st \in {201, 202} THEN Adjust(rsp.min) ELSE hostChunk
  /\ IF rsp.st = 201
     THEN \* mount succeeded: the caller's descriptor is returned, the stream is never read
          /\ result' = "ok" /\ retD' = [dig |-> DDig, size |-> DSize] /\ pc' = "done"
          /\ UNCHANGED putURL
     ELSE IF rsp.st = 202 /\ rsp.loc # NoURL
     THEN putURL' = rsp.loc /\ pc' = "tryput" /\ UNCHANGED <<result, retD>>
     ELSE pc' = "post" /\ UNCHANGED <<putURL, result, retD>>
  /\ CloseIf2xx
  /\ UNCHANGED <<cf, rdPos, readOnce, req, rsp, ret, tries, bufBytes, bufCap, bufStart, chunkStart, chunkSize,
                 finalChunk, retryCur, noProgress, chunkURL, hashed, svars, tmpFile>>

\* blobGetUploadURL
Post ==
  /\ pc = "post"
  /\ Send(Request("POST", NoURL, FALSE, 0, <<>>, NoDig), "post_r")
  /\ UNCHANGED <<cf, cvars, boCur, boReset, lvars, svars, tmpFile>>

PostR ==
  /\ pc = "post_r"
  /\ IF rsp.st = 202 /\ rsp.loc # NoURL
     THEN /\ hostChunk' = Adjust(rsp.min) /\ putURL' = rsp.loc /\ pc' = "tryput"
          /\ UNCHANGED <<result>>
     ELSE Fail /\ UNCHANGED <<hostChunk, putURL>>     \* no session to cancel
  /\ CloseIf2xx
  /\ UNCHANGED <<cf, rdPos, readOnce, retD, req, rsp, ret, tries, bufBytes, bufCap, bufStart, chunkStart, chunkSize,
                 finalChunk, retryCur, noProgress, chunkURL, hashed, svars, tmpFile>>

TryPut ==
  /\ pc = "tryput"
  /\ LET maxPut == IF cf.bmax = 0 THEN -1 ELSE cf.bmax      \* reg.blobMaxPut default -1
         tryPut == ValidDesc /\ ~(maxPut > 0 /\ DSize > maxPut)
     IN pc' = IF tryPut THEN "full" ELSE "ch_init"
  /\ UNCHANGED <<cf, cvars, hvars, lvars, svars, tmpFile>>

\* ---------------------------------------------------------- blobPutUploadFull
\* the digest parameter is appended to the URL object shared with BlobPut
Full ==
  /\ pc = "full"
  /\ putURL' = [putURL EXCEPT !.dg = @ + 1]
  /\ pc' = "full_body"
  /\ UNCHANGED <<cf, rdPos, readOnce, result, retD, hvars, lvars, svars, tmpFile>>

\* one call of the body function + sending the PUT (first try and every reghttp retry)
FullBody ==
  /\ pc = "full_body"
  /\ IF DSize = 0
     THEN \* empty blob: bodyFunc = nil
          /\ Send(Request("PUT", putURL, FALSE, 0, <<>>, DDig), "full_r")
          /\ UNCHANGED <<rdPos, readOnce, boCur>>
     ELSE IF readOnce /\ ~cf.seek
     THEN \* "blob source is not a seeker", ErrNotRetryable
          /\ pc' = "full_fail" /\ UNCHANGED <<rdPos, readOnce, req, rsp, ret, tries, boCur>>
     ELSE LET from == IF readOnce THEN 0 ELSE rdPos      \* Seek(0) on re-use
              body == SubSeq(Src, from + 1, cf.len)
          IN /\ rdPos' = cf.len /\ readOnce' = TRUE
             /\ IF Len(body) # DSize
                THEN \* http transport: "ContentLength=N with Body length M", nothing reaches the server.
                     \* Each try is a failure for the back-off counter; a seekable source is retried
                     \* until the counter reaches the limit, the other one fails on its second read.
                     /\ pc' = "full_fail" /\ UNCHANGED <<req, rsp, ret, tries>>
                     /\ boCur' = IF cf.seek /\ boCur + 1 < HttpRetries THEN HttpRetries ELSE boCur + 1
                ELSE Send(Request("PUT", putURL, FALSE, 0, body, DDig), "full_r") /\ UNCHANGED boCur
  /\ UNCHANGED <<cf, putURL, result, retD, boReset, lvars, svars, tmpFile>>

FullR ==
  /\ pc = "full_r"
  /\ IF rsp.st \in {201, 204}
     THEN result' = "ok" /\ retD' = [dig |-> DDig, size |-> DSize] /\ pc' = "done"
     ELSE pc' = "full_fail" /\ UNCHANGED <<result, retD>>
  /\ CloseIf2xx
  /\ UNCHANGED <<cf, putURL, rdPos, readOnce, req, rsp, ret, tries, lvars, svars, tmpFile>>

\* BlobPut: fall back to chunked only after a successful rewind, else cancel
FullFail ==
  /\ pc = "full_fail"
  /\ IF cf.seek THEN rdPos' = 0 /\ pc' = "ch_init" ELSE pc' = "cancel" /\ UNCHANGED rdPos
  /\ UNCHANGED <<cf, putURL, readOnce, result, retD, hvars, lvars, svars, tmpFile>>

\* ------------------------------------------------------- blobPutUploadChunked
ChInit ==
  /\ pc = "ch_init"
  /\ bufCap' = IF hostChunk > 0 THEN hostChunk ELSE DefChunk
  /\ bufBytes' = <<>> /\ bufStart' = 0 /\ chunkStart' = 0 /\ chunkSize' = 0
  /\ finalChunk' = FALSE /\ retryCur' = 0 /\ noProgress' = 0 /\ hashed' = <<>>
  /\ chunkURL' = putURL                      \* copy, including a digest parameter left by Full
  /\ pc' = "loop"
  /\ UNCHANGED <<cf, cvars, hvars, hostChunk, svars, tmpFile>>

\* for !finalChunk || chunkStart < bufStart+len(bufBytes)
Loop ==
  /\ pc = "loop"
  /\ pc' = IF ~finalChunk \/ chunkStart < bufStart + Len(bufBytes) THEN "fill" ELSE "verify"
  /\ UNCHANGED <<cf, cvars, hvars, lvars, svars, tmpFile>>

\* one iteration of: for chunkStart >= bufStart+len(bufBytes) && !finalChunk { io.ReadFull }
Fill ==
  /\ pc = "fill"
  /\ IF chunkStart >= bufStart + Len(bufBytes) /\ ~finalChunk
     THEN LET n == Min2(bufCap, cf.len - rdPos)          \* bufBytes[:cap], then a possibly short read
              data == SubSeq(Src, rdPos + 1, rdPos + n)
          IN /\ bufStart' = bufStart + Len(bufBytes)
             /\ bufBytes' = data
             /\ rdPos' = rdPos + n
             /\ hashed' = hashed \o data
             /\ finalChunk' = (n < bufCap)               \* io.EOF or io.ErrUnexpectedEOF
             /\ chunkSize' = n
             /\ pc' = "fill"
     ELSE pc' = "slice" /\ UNCHANGED <<bufStart, bufBytes, rdPos, hashed, finalChunk, chunkSize>>
  /\ UNCHANGED <<cf, putURL, readOnce, result, retD, hvars, hostChunk, bufCap, chunkStart, retryCur, noProgress, chunkURL, svars, tmpFile>>

\* "next chunk is inside the existing buf": the re-slice also gives up the capacity in front
Slice ==
  /\ pc = "slice"
  /\ LET inside == chunkStart > bufStart /\ chunkStart < bufStart + Len(bufBytes)
         k      == chunkStart - bufStart
         nb     == IF inside THEN SubSeq(bufBytes, k + 1, Len(bufBytes)) ELSE bufBytes
         nbs    == IF inside THEN chunkStart ELSE bufStart
         ncs    == IF inside THEN Len(nb) ELSE chunkSize
     IN /\ bufBytes' = nb /\ bufStart' = nbs /\ chunkSize' = ncs
        /\ bufCap' = IF inside THEN bufCap - k ELSE bufCap
        /\ IF ncs > 0 /\ chunkStart # nbs THEN pc' = "cancel"    \* "chunkStart != bufStart"
           ELSE IF ncs > 0 THEN pc' = "patch" ELSE pc' = "loop"
  /\ UNCHANGED <<cf, cvars, hvars, hostChunk, chunkStart, finalChunk, retryCur, noProgress, chunkURL, hashed, svars, tmpFile>>

PatchSend ==
  /\ pc = "patch"
  /\ Send(Request("PATCH", chunkURL, FALSE, chunkStart, SubSeq(bufBytes, 1, chunkSize), NoDig), "patch_r")
  /\ UNCHANGED <<cf, cvars, boCur, boReset, lvars, svars, tmpFile>>

\* take offset and next location from a reply
\* (since 94ee6b0) a reply that does not advance the offset counts; more than retryLimit of them
\* in a row end the upload, whatever the status was
Advance(r) ==
  LET ncs   == IF r.rng # NoRng THEN r.rng + 1 ELSE chunkStart + chunkSize
      stuck == ncs <= chunkStart
  IN /\ chunkStart' = ncs
     /\ noProgress' = IF stuck THEN noProgress + 1 ELSE 0
     /\ IF stuck /\ noProgress + 1 > RetryLimit
        THEN pc' = "cancel" /\ UNCHANGED chunkURL
        ELSE chunkURL' = (IF r.loc # NoURL THEN r.loc ELSE chunkURL) /\ pc' = "loop"

PatchR ==
  /\ pc = "patch_r"
  /\ IF rsp.st = 0 THEN NoClose ELSE CloseReset     \* resp.Close() also after an error status
  /\ CASE rsp.st = 0 ->                        \* no http response at all: "failed to send blob (chunk)"
            pc' = "cancel" /\ UNCHANGED <<retryCur, noProgress, chunkStart, chunkURL, req, ret, rsp, tries>>
       [] rsp.st = 201 ->                      \* early accept, continue as for 202
            Advance(rsp) /\ UNCHANGED <<retryCur, req, ret, rsp, tries>>
       [] rsp.st # 201 /\ rsp.st >= 400 /\ rsp.st < 500 /\ rsp.loc # NoURL /\ rsp.rng # NoRng ->
            \* "recoverable chunk upload error": no limit is checked on this path
            retryCur' = retryCur + 1 /\ Advance(rsp) /\ UNCHANGED <<req, ret, rsp, tries>>
       [] rsp.st \notin {0, 201, 202} /\ ~(rsp.st >= 400 /\ rsp.st < 500 /\ rsp.loc # NoURL /\ rsp.rng # NoRng) ->
            \* ask for the status of the upload
            /\ retryCur' = retryCur + 1
            /\ Send(Request("GET", chunkURL, FALSE, 0, <<>>, NoDig), "status_r")
            /\ UNCHANGED <<chunkStart, chunkURL, noProgress>>
       [] rsp.st = 202 ->
            retryCur' = (IF retryCur > 0 THEN retryCur - 1 ELSE 0) /\ Advance(rsp) /\ UNCHANGED <<req, ret, rsp, tries>>
  /\ UNCHANGED <<cf, cvars, hostChunk, bufBytes, bufCap, bufStart, chunkSize, finalChunk, hashed, svars, tmpFile>>

StatusR ==
  /\ pc = "status_r"
  /\ IF retryCur > RetryLimit \/ rsp.st # 204
     THEN pc' = "cancel" /\ UNCHANGED <<chunkStart, chunkURL, noProgress>>
     ELSE Advance(rsp)
  /\ CloseIf2xx
  /\ UNCHANGED <<cf, cvars, req, rsp, ret, tries, hostChunk, bufBytes, bufCap, bufStart, chunkSize, finalChunk, retryCur, hashed, svars, tmpFile>>

\* digest and size checks, then the closing PUT
Verify ==
  /\ pc = "verify"
  /\ IF (DigValid /\ H(hashed) # DDig) \/ (DSize # 0 /\ chunkStart # DSize)
     THEN pc' = "cancel" /\ UNCHANGED <<retD, chunkURL, req, ret>>
     ELSE /\ retD' = [dig |-> H(hashed), size |-> chunkStart]
          /\ chunkURL' = [chunkURL EXCEPT !.dg = @ + 1]
          /\ req' = Request("PUT", chunkURL', FALSE, 0, <<>>, H(hashed)) /\ ret' = "final_r" /\ pc' = "srv"
  /\ UNCHANGED <<cf, putURL, rdPos, readOnce, result, rsp, tries, boCur, boReset, hostChunk, bufBytes, bufCap, bufStart,
                 chunkStart, chunkSize, finalChunk, retryCur, noProgress, hashed, svars, tmpFile>>

FinalR ==
  /\ pc = "final_r"
  /\ IF rsp.st \in {201, 204} THEN result' = "ok" /\ pc' = "done" ELSE pc' = "cancel" /\ UNCHANGED result
  /\ CloseIf2xx
  /\ UNCHANGED <<cf, putURL, rdPos, readOnce, retD, req, rsp, ret, tries, lvars, svars, tmpFile>>

\* BlobPut: _ = reg.blobUploadCancel(ctx, r, putURL) -- the URL of the POST reply, not chunkURL
Cancel ==
  /\ pc = "cancel"
  /\ Send(Request("DELETE", putURL, FALSE, 0, <<>>, NoDig), "cancel_r")
  /\ UNCHANGED <<cf, cvars, boCur, boReset, lvars, svars, tmpFile>>

CancelR ==
  /\ pc = "cancel_r"
  /\ Fail
  /\ CloseIf2xx
  /\ UNCHANGED <<cf, putURL, rdPos, readOnce, retD, req, rsp, ret, tries, lvars, svars, tmpFile>>

\* ------------------------------------------------------------------ reghttp
\* retry the same request on a retryable failure.  Not for the mount (IgnoreErr drops the host and
\* sets no back-off), and not once the host's back-off counter has reached the limit.
Http ==
  /\ pc = "http"
  /\ LET ign  == ret = "mount_r"
         bo   == rsp.st \in {0, 500, 503, 400, 413} /\ ~ign      \* all failures but 404 and 416
         cur  == IF bo THEN boCur + 1 ELSE boCur                 \* backoffSet
         drop == rsp.st \notin {0, 500} \/ ign \/ cur >= HttpRetries
     IN /\ boCur' = cur
        /\ IF ~Is2xx(rsp.st) /\ ~drop /\ tries < HttpRetries
           THEN tries' = tries + 1 /\ pc' = (IF ret = "full_r" THEN "full_body" ELSE "srv")
           ELSE tries' = 0 /\ pc' = ret
  /\ UNCHANGED <<cf, cvars, req, rsp, ret, boReset, lvars, svars, tmpFile>>

\* ------------------------------------------------------------------- server
Faults(kinds) == IF nFault < MaxFaults THEN {C(a) : a \in kinds} ELSE {}
InOrder == sess.open /\ TokOK(req.url) /\ req.start = Len(sess.data)
MinStop == cf.enforce /\ sess.short /\ Len(req.body) > 0

SrvChoices ==
  CASE req.m = "POST" /\ req.mount ->
         {C("decline"), C("error")} \cup (IF req.dig \in Avail THEN {C("accept")} ELSE {})
    [] req.m = "POST" /\ ~req.mount -> {C("ok")} \cup Faults({"f500l", "f503l", "rstl"})
    [] req.m = "PATCH" ->
         IF ~InOrder \/ MinStop THEN {C("ok")}
         ELSE {C("ok")}
              \cup (IF nEarly = 0 /\ cf.early THEN {C("early201")} ELSE {})
              \cup (IF nPartial < MaxPartial /\ cf.part
                    THEN {[a |-> "partial", k |-> k, via |-> v] : k \in 1..(Len(req.body) - 1), v \in {"202", "416", "416bare"}}
                    ELSE {})
              \cup Faults({"f500l", "f503l", "rstl"})
              \cup (IF nFault < MaxFaults
                    THEN {[a |-> f, k |-> k, via |-> ""] : f \in {"f500a", "f503a", "rsta"}, k \in 1..Len(req.body)}
                    ELSE {})
    [] req.m = "PUT" ->
         IF ~(sess.open /\ TokOK(req.url)) \/ MinStop THEN {C("ok")}
         ELSE {C("ok")}
              \* the single request upload is refused; the session keeps the first k units of the body
              \cup (IF Len(req.body) > 0 /\ ~refused /\ cf.refuse
                    THEN {[a |-> "refuse", k |-> k, via |-> ""] : k \in (IF cf.part THEN 0..Len(req.body) ELSE {0})}
                    ELSE {})
              \cup Faults({"f500l", "f503l", "rstl", "f500a", "f503a", "rsta"})
              \* the request breaks off late: a proper prefix of the body stays in the session
              \cup (IF nFault < MaxFaults /\ cf.part
                    THEN {[a |-> f, k |-> k, via |-> ""] : f \in {"f500a", "f503a", "rsta"}, k \in 1..(Len(req.body) - 1)}
                    ELSE {})
    [] req.m = "GET" -> {C("ok")} \cup (IF sess.open THEN Faults({"f500l", "f503l", "rstl"}) ELSE {})
    [] OTHER -> {C("ok")}

FaultSt(a) == IF a \in {"f500l", "f500a"} THEN 500 ELSE IF a \in {"rstl", "rsta"} THEN 0 ELSE 503
IsFault(a) == a \in {"f500l", "f500a", "f503l", "f503a", "rstl", "rsta"}
Applied(a) == a \in {"f500a", "f503a", "rsta"}
SessReply(st, s) == Reply(st, LocOf(s.tok), Len(s.data) - 1, 0)
Commit(d, c) == (d :> c) @@ blobs

ServePost(c) ==
  /\ UNCHANGED <<nPartial, nEarly, refused, minViol, keptAll>>
  /\ nFault' = IF IsFault(c.a) THEN nFault + 1 ELSE nFault
  /\ IF IsFault(c.a)
     THEN rsp' = Reply(FaultSt(c.a), NoURL, NoRng, 0) /\ UNCHANGED <<blobs, sess, mounted>>
     ELSE IF c.a = "accept"
     THEN /\ blobs' = Commit(req.dig, req.dig)      \* content of an existing blob = its digest (ideal hash)
          /\ mounted' = TRUE /\ rsp' = Reply(201, NoURL, NoRng, 0) /\ UNCHANGED sess
     ELSE IF c.a = "error"
     THEN rsp' = Reply(400, NoURL, NoRng, 0) /\ UNCHANGED <<blobs, sess, mounted>>
     ELSE LET s == [open |-> TRUE, data |-> <<>>, tok |-> NextTok, short |-> FALSE]
          IN sess' = s /\ rsp' = Reply(202, LocOf(s.tok), NoRng, cf.min) /\ UNCHANGED <<blobs, mounted>>

ServePatch(c) ==
  /\ UNCHANGED <<blobs, mounted, refused, keptAll>>
  /\ IF ~sess.open
     THEN rsp' = Reply(404, NoURL, NoRng, 0) /\ UNCHANGED <<sess, nPartial, nFault, nEarly, minViol>>
     ELSE IF ~InOrder                          \* stale location or out of order: 416 + current state
     THEN rsp' = SessReply(416, sess) /\ UNCHANGED <<sess, nPartial, nFault, nEarly, minViol>>
     ELSE IF MinStop                           \* data after a short non final chunk: upload aborted
     THEN /\ rsp' = Reply(416, NoURL, NoRng, 0) /\ sess' = [sess EXCEPT !.open = FALSE]
          /\ minViol' = TRUE /\ UNCHANGED <<nPartial, nFault, nEarly>>
     ELSE IF IsFault(c.a) /\ ~Applied(c.a)
     THEN rsp' = Reply(FaultSt(c.a), NoURL, NoRng, 0) /\ nFault' = nFault + 1
          /\ UNCHANGED <<sess, nPartial, nEarly, minViol>>
     ELSE LET n   == Len(req.body)
              acc == IF c.a = "partial" \/ Applied(c.a) THEN c.k ELSE n
              s   == [open |-> TRUE, data |-> sess.data \o SubSeq(req.body, 1, acc), tok |-> NextTok,
                      short |-> (cf.min > 0 /\ n < cf.min)]
          IN /\ sess' = s
             /\ nPartial' = IF c.a = "partial" THEN nPartial + 1 ELSE nPartial
             /\ nFault' = IF Applied(c.a) THEN nFault + 1 ELSE nFault
             /\ nEarly' = IF c.a = "early201" THEN nEarly + 1 ELSE nEarly
             /\ UNCHANGED minViol
             /\ rsp' = CASE Applied(c.a) -> Reply(FaultSt(c.a), NoURL, NoRng, 0)
                         [] c.a = "partial" /\ c.via = "416" -> SessReply(416, s)
                         [] c.a = "partial" /\ c.via = "416bare" -> Reply(416, NoURL, NoRng, 0)
                         [] c.a = "early201" -> SessReply(201, s)
                         [] OTHER -> SessReply(202, s)

ServePut(c) ==
  /\ UNCHANGED <<mounted, nPartial, nEarly>>
  /\ IF ~sess.open
     THEN rsp' = Reply(404, NoURL, NoRng, 0) /\ UNCHANGED <<blobs, sess, nFault, refused, minViol, keptAll>>
     ELSE IF ~TokOK(req.url)
     THEN rsp' = SessReply(416, sess) /\ UNCHANGED <<blobs, sess, nFault, refused, minViol, keptAll>>
     ELSE IF MinStop
     THEN /\ rsp' = Reply(416, NoURL, NoRng, 0) /\ sess' = [sess EXCEPT !.open = FALSE]
          /\ minViol' = TRUE /\ UNCHANGED <<blobs, nFault, refused, keptAll>>
     ELSE IF c.a = "refuse"
     THEN /\ rsp' = Reply(413, NoURL, NoRng, 0) /\ refused' = TRUE
          /\ sess' = [sess EXCEPT !.data = @ \o SubSeq(req.body, 1, c.k),
                                  !.tok = IF c.k > 0 THEN NextTok ELSE @]
          /\ keptAll' = (keptAll \/ c.k = Len(req.body))
          /\ UNCHANGED <<blobs, nFault, minViol>>
     ELSE IF IsFault(c.a) /\ ~Applied(c.a)
     THEN rsp' = Reply(FaultSt(c.a), NoURL, NoRng, 0) /\ nFault' = nFault + 1
          /\ UNCHANGED <<blobs, sess, refused, minViol, keptAll>>
     ELSE IF Applied(c.a) /\ c.k > 0       \* broke off after k units, nothing to commit
     THEN /\ rsp' = Reply(FaultSt(c.a), NoURL, NoRng, 0) /\ nFault' = nFault + 1
          /\ sess' = [sess EXCEPT !.data = @ \o SubSeq(req.body, 1, c.k), !.tok = NextTok]
          /\ UNCHANGED <<blobs, refused, minViol, keptAll>>
     ELSE LET all == sess.data \o req.body
          IN /\ nFault' = IF Applied(c.a) THEN nFault + 1 ELSE nFault
             /\ UNCHANGED <<refused, minViol, keptAll>>
             /\ IF H(all) = req.dig
                THEN /\ blobs' = Commit(req.dig, all)
                     /\ sess' = [sess EXCEPT !.open = FALSE]
                     /\ rsp' = IF Applied(c.a) THEN Reply(FaultSt(c.a), NoURL, NoRng, 0)
                               ELSE Reply(201, NoURL, NoRng, 0)
                ELSE /\ UNCHANGED <<blobs, sess>>            \* DIGEST_INVALID, the session stays
                     /\ rsp' = IF Applied(c.a) THEN Reply(FaultSt(c.a), NoURL, NoRng, 0)
                               ELSE Reply(400, NoURL, NoRng, 0)

ServeGet(c) ==
  /\ UNCHANGED <<blobs, sess, mounted, nPartial, nEarly, refused, minViol, keptAll>>
  /\ nFault' = IF IsFault(c.a) THEN nFault + 1 ELSE nFault
  /\ rsp' = IF ~sess.open THEN Reply(404, NoURL, NoRng, 0)
            ELSE IF IsFault(c.a) THEN Reply(FaultSt(c.a), NoURL, NoRng, 0)
            ELSE SessReply(204, sess)

ServeDelete(c) ==
  /\ UNCHANGED <<blobs, mounted, nPartial, nFault, nEarly, refused, minViol, keptAll>>
  /\ IF sess.open THEN sess' = [sess EXCEPT !.open = FALSE] /\ rsp' = Reply(204, NoURL, NoRng, 0)
     ELSE UNCHANGED sess /\ rsp' = Reply(404, NoURL, NoRng, 0)

Serve(c) ==
  /\ pc = "srv"
  /\ pc' = "http"
  /\ CASE req.m = "POST" -> ServePost(c)
       [] req.m = "PATCH" -> ServePatch(c)
       [] req.m = "PUT" -> ServePut(c)
       [] req.m = "GET" -> ServeGet(c)
       [] OTHER -> ServeDelete(c)
  /\ UNCHANGED <<cf, cvars, req, ret, tries, boCur, boReset, lvars, tmpFile>>

\* --------------------------------------------------- scheme/ocidir BlobPut
OCopy ==
  /\ pc = "o_copy"
  /\ tmpFile' = Src /\ hashed' = Src /\ rdPos' = cf.len          \* io.Copy(tmpFile, TeeReader)
  /\ pc' = "o_verify"
  /\ UNCHANGED <<cf, putURL, readOnce, result, retD, hvars, hostChunk, bufBytes, bufCap, bufStart, chunkStart,
                 chunkSize, finalChunk, retryCur, noProgress, chunkURL, svars>>

OVerify ==
  /\ pc = "o_verify"
  /\ LET dg == IF DigValid THEN DDig ELSE H(hashed)
         sz == IF DSize <= 0 THEN Len(tmpFile) ELSE DSize
     IN IF (DigValid /\ DDig # H(hashed)) \/ (DSize > 0 /\ Len(tmpFile) # DSize)
        THEN Fail /\ UNCHANGED retD                               \* the temp file is left behind
        ELSE retD' = [dig |-> dg, size |-> sz] /\ pc' = "o_rename" /\ UNCHANGED result
  /\ UNCHANGED <<cf, putURL, rdPos, readOnce, hvars, lvars, svars, tmpFile>>

ORename ==
  /\ pc = "o_rename"
  /\ blobs' = Commit(retD.dig, tmpFile) /\ tmpFile' = NoFile
  /\ result' = "ok" /\ pc' = "done"
  /\ UNCHANGED <<cf, putURL, rdPos, readOnce, retD, hvars, lvars, sess, mounted, nPartial, nFault, nEarly, refused, minViol, keptAll>>

Client == \/ Start \/ Mount \/ MountR \/ Post \/ PostR \/ TryPut \/ Full \/ FullBody \/ FullR \/ FullFail
          \/ ChInit \/ Loop \/ Fill \/ Slice \/ PatchSend \/ PatchR \/ StatusR \/ Verify \/ FinalR
          \/ Cancel \/ CancelR \/ Http \/ OCopy \/ OVerify \/ ORename
Terminated == pc = "done" /\ UNCHANGED vars        \* so that TLC's deadlock check finds real dead ends
Next == Client \/ (\E c \in SrvChoices : Serve(c)) \/ Terminated
Spec == Init /\ [][Next]_vars /\ WF_vars(Next)

\* ---------------------------------------------------------------- properties
Done == pc = "done"
\* the mount short cut returns the caller's descriptor without reading the stream
MountShortcut == mounted /\ Mismatch

\* O1: success => the destination holds under the returned digest exactly the source, size = length
O1Strict == (Done /\ result = "ok") =>
              /\ retD.dig = H(Src) /\ retD.size = cf.len
              /\ Held(retD.dig) = Src
\* O2: a declared digest / size the stream does not match => error, nothing committed under it
O2Strict == Mismatch => /\ (DigValid => Held(DDig) = Pre)
                        /\ (Done => result = "err")
\* as found, a declared digest that does not validate was taken for "no digest" (finding C05-2,
\* fixed by 69e13de; reachable only with the switch, see C05_mc_known_baddig.cfg)
IgnoredDigest == IgnoreInvalidDigest /\ cf.decl = "baddig"
O1 == MountShortcut \/ O1Strict
O2 == MountShortcut \/ IgnoredDigest \/ O2Strict
\* O3: conforming destination, no transient fault, well formed input => success.  Not demanded
\* when the single PUT was refused and the source cannot be rewound (impossible for any client)
O3Strict == (Done /\ WellFormed /\ nFault = 0 /\ (cf.seek \/ ~refused) /\ ~minViol) => result = "ok"
\* as found (finding C05-3): when the refused single request left the WHOLE blob in the session and
\* the last buffer is a short one, the chunk loop reads to the end and then trips over its own
\* "chunkStart != bufStart" check instead of going on to the closing PUT
O3 == keptAll \/ O3Strict
\* S13: with the re-slice the chunks after a partial acceptance are smaller than requested; a
\* destination that enforces its minimum would refuse them
NoMinViolation == ~minViol

\* sanity of the loop: what is sent is the source at the claimed offset
BufInSync == pc \in {"patch", "loop", "fill", "slice"} =>
               bufBytes = SubSeq(Src, bufStart + 1, bufStart + Len(bufBytes))
PatchShape == pc = "patch" => chunkSize = Len(bufBytes) /\ chunkStart = bufStart /\ chunkSize <= bufCap
IsPrefix(a, b) == Len(a) <= Len(b) /\ a = SubSeq(b, 1, Len(a))
SessPrefix == sess.open => IsPrefix(sess.data, Src)
HashedIsRead == pc \in {"loop", "fill", "slice", "patch", "verify"} => hashed = SubSeq(Src, 1, rdPos)
\* no byte is committed that the client has not sent: only complete, verified content
OnlyVerified == \A d \in DOMAIN blobs : H(blobs[d]) = d
\* chunk sizes never exceed the (possibly raised) chunk size
ChunkBound == pc = "patch" => chunkSize <= (IF hostChunk > 0 THEN hostChunk ELSE DefChunk)
\* expected to be violated (S13): the buffer keeps the capacity it was created with
CapKept == pc \in {"loop", "fill", "slice", "patch"} => bufCap = (IF hostChunk > 0 THEN hostChunk ELSE DefChunk)
Terminates == <>Done
=============================================================================

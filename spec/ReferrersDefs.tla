---------------------------- MODULE ReferrersDefs ----------------------------
(***************************************************************************)
(* Constant-level vocabulary shared by the design spec (D) Referrers.tla   *)
(* and the property monitor (P) ReferrersProp.tla for property C10.        *)
(*                                                                         *)
(* The pool of the statement's quantifier:                                 *)
(*   Arts   three artifacts.  a1 is an OCI image manifest with an explicit *)
(*          artifactType, a2 an OCI image manifest WITHOUT artifactType    *)
(*          (its type is its config media type, as the OCI spec and        *)
(*          types/referrer.Add define), a3 an OCI index with artifactType. *)
(*   Subj   what an artifact may name as its subject: s1 (an image that is *)
(*          stored), s2 (a digest that is absent from the registry; the    *)
(*          harness uses a sha512 digest for it) or a1 (so that a3 can be  *)
(*          a referrer of a referrer).                                     *)
(*   Type / Ann  the artifact type and the value of the one annotation     *)
(*          (key c10.k) every artifact carries.                            *)
(*   Filters  the queries of the statement: none, by artifact type, by     *)
(*          annotation value, by annotation key only ("k"), and no filter  *)
(*          but sorted by the annotation, ascending "sa" / descending "sd" *)
(*          (the order itself is not part of the property), and           *)
(*          conjunctions in ONE call: type and annotation value (t1x, t1y, *)
(*          t2x), type and platform (t1p: nothing has a platform).         *)
(*   na     (round 5) the artifacts of a scenario that carry no annotation *)
(*          at all (member absent, or an empty map).                      *)
(* Expect(stored, subj, s, f) is THE definition of the property: the       *)
(* referrers of s under filter f are exactly the stored manifests naming s *)
(* that match f.                                                           *)
(***************************************************************************)
EXTENDS Naturals, Sequences, FiniteSets

Arts == {"a1", "a2", "a3"}
Subj == {"s1", "s2", "a1"}
Type == [a \in Arts |-> IF a = "a2" THEN "t2" ELSE "t1"]
Ann  == [a \in Arts |-> IF a = "a1" THEN "x" ELSE "y"]
Filters == {"none", "t1", "t2", "x", "y", "k", "sa", "sd", "t1x", "t1y", "t2x", "t1p"}
\* a query is a conjunction: artifact type part (sent to the referrers API, which may apply it and say
\* so in OCI-Filters-Applied), annotation part, platform part (no artifact of the pool has a platform)
FType(f) == CASE f \in {"t1", "t1x", "t1y", "t1p"} -> "t1" [] f \in {"t2", "t2x"} -> "t2" [] OTHER -> ""
FAnn(f) == CASE f \in {"x", "t1x", "t2x"} -> "x" [] f \in {"y", "t1y"} -> "y" [] OTHER -> ""
FPlat(f) == f = "t1p"
IsTypeFilter(f) == FType(f) # ""
TypeMatch(a, f) == FType(f) = "" \/ Type[a] = FType(f)
\* na: the artifacts of a scenario whose manifest carries NO annotation (no "annotations" member at all, or
\* an empty map - the caller / the harness chooses which): they have no value under c10.k, match neither an
\* annotation-value query nor the key query "k" (descriptor.Match: the key must be present), and are kept
\* by the sorted queries (sorted last)
AnnOf(na, a) == IF a \in na THEN "" ELSE Ann[a]
MatchN(na, a, f) == /\ TypeMatch(a, f) /\ (FAnn(f) = "" \/ AnnOf(na, a) = FAnn(f))
                    /\ (f = "k" => a \notin na) /\ ~FPlat(f)
Match(a, f) == MatchN({}, a, f)
\* subject maps: a1 and a2 name an image, only a3 may name another artifact
SubjMaps == {m \in [Arts -> Subj] : m["a1"] # "a1" /\ m["a2"] # "a1"}

\* subject maps by name: "ror" a3 names a1 (referrer of a referrer), "same" all three name one
\* subject, "split" a2 names the absent subject s2, "absent" all name s2, "all" every admissible map
SubjOf(sel) == CASE sel = "ror"    -> {[a \in Arts |-> IF a = "a3" THEN "a1" ELSE "s1"]}
                 [] sel = "same"   -> {[a \in Arts |-> "s1"]}
                 [] sel = "split"  -> {[a \in Arts |-> IF a = "a2" THEN "s2" ELSE "s1"]}
                 [] sel = "absent" -> {[a \in Arts |-> IF a = "a3" THEN "a1" ELSE "s2"]}
                 [] sel = "all"    -> SubjMaps
\* configuration space; paging only matters with the API, the response cache and missing tag-delete
\* support only for registries
\* Spells: how the caller writes the subject reference it lists - "dig" repo@digest, "tag" repo:tag
\* (only the stored subject s1 has a tag; RegClient.ReferrerList resolves it with a HEAD), "both"
\* repo:tag@digest, "plat" the tag of a multi-platform index plus WithReferrerPlatform (s1 only;
\* RegClient.ReferrerList resolves index and platform first).
\* Dopts: how the delete learns the subject - "check" WithManifestCheckReferrers (the scheme fetches
\* the manifest), "man" the caller hands the manifest over (WithManifest: no fetch)
ConfSpace(Modes, Caches, Pages, TagDels, SubjSel, Spells, Dopts) ==
  {c \in {[mode |-> m, cache |-> ch, page |-> g, tagdel |-> t, subj |-> sm, spell |-> sp, dopt |-> dp] :
             m \in Modes, ch \in Caches, g \in Pages, t \in TagDels, sm \in UNION {SubjOf(x) : x \in SubjSel},
             sp \in Spells, dp \in Dopts} :
     /\ (c.mode # "api" => c.page = 0)
     /\ (c.mode = "oci" => c.cache = 0 /\ c.tagdel = 1)
     /\ (c.mode = "api" => c.tagdel = 1)}

Range(s) == {s[i] : i \in 1..Len(s)}
HasDup(s) == \E i, j \in 1..Len(s) : i < j /\ s[i] = s[j]
ExpectN(stored, subj, na, s, f) == {a \in stored : subj[a] = s /\ MatchN(na, a, f)}
Expect(stored, subj, s, f) == ExpectN(stored, subj, {}, s, f)
=============================================================================

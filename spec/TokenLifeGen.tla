----------------------------- MODULE TokenLifeGen -----------------------------
(***************************************************************************)
(* X05 - scenario generator: behaviours of TokenLifeMC with a history of   *)
(* the API requests each thread made and of the choices the environment    *)
(* made (registry moods and token reply kinds per registry, in order).     *)
(* Every quiet state (all threads between two requests) prints the         *)
(* scenario once; harness/cmd/x05drv replays it on the real code.  pred is *)
(* the outcome (D) predicts for each request (drift comparison only).      *)
(***************************************************************************)
EXTENDS TokenLifeMC, Json
VARIABLE hist
gvars == <<dvars, pvars, hist>>

GInit == /\ MCInit
         /\ hist = [threads |-> [p \in Procs |-> <<>>], rs |-> [h \in Hosts |-> <<>>],
                    ts |-> [h \in Hosts |-> <<>>], pred |-> <<>>]
Upd(e) ==
  CASE e.ev = "call" -> [hist EXCEPT !.threads[e.c \div 100] = Append(@, [h |-> e.h, repo |-> e.repo, meth |-> e.meth])]
    [] e.ev = "reg" -> [hist EXCEPT !.rs[e.h] = Append(@, e.mood)]
    [] e.ev = "tok" -> [hist EXCEPT !.ts[e.svc] = Append(@, e.reply)]
    [] e.ev = "end" -> [hist EXCEPT !.pred = Append(@, [c |-> e.c, res |-> e.res])]
    [] OTHER -> hist
GNext == MCNext /\ hist' = Upd(ev')
GSpec == GInit /\ [][GNext]_gvars

Emit == (Quiet /\ \E p \in Procs : pr[p].cnt > 0 /\ ev.ev = "end") =>
          PrintT(<<"SCN", ToJson([hosts |-> [h \in Hosts |-> CredOf[h]], threads |-> hist.threads,
                                  rs |-> hist.rs, ts |-> hist.ts, pred |-> hist.pred])>>)
=============================================================================

SPECIFICATION TSpec
CONSTANT Groups = {"C14"}
CONSTRAINT HW
INVARIANT Ok
POSTCONDITION Accepted
CHECK_DEADLOCK FALSE

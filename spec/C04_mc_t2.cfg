CONSTANTS
 Confs <- MCConfs
 FixWaitErr = TRUE
 Reduce = FALSE
 MCShapes = {"schema1"}
 MCPairs = {"tworeg", "samereg"}
 MCOpts <- MCOptsDefault
 MCFeats <- MCFeatsMount
 MCInit = "corners"
 MCTag0 = {"none", "stale"}
 MCByDigest = {FALSE}
 MCTgtByDigest = {FALSE}
 MaxFaults = 2
 AllowCancel = TRUE
 AllowCrash = FALSE
 Cap = 0
INIT Init
NEXT Next
INVARIANTS TypeOK InvC04 InvFb InvFbListed InvC03 InvC14 InvC14T InvFailTag

INIT GInit
NEXT GNext
INVARIANTS Emit
CONSTRAINT Bounded
CHECK_DEADLOCK FALSE
CONSTANTS
 Hosts <- H2
 CredOf <- CredUP
 Reqs <- ReqsAll
 NProcs = 3
 NCalls = 2
 RegMoods <- MoodsBearer
 TokKinds <- KindsAll
 Budget = 2
 RetryLimit = 5
 MaxTok = 12
 Fix <- TreeFix
 Mut = {}

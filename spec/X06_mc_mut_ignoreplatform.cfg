SPECIFICATION Spec
CONSTANTS
 FewerIsMismatch = TRUE
 NilCreatedSafe = TRUE
 NilPlatformSafe = TRUE
 Mut = "ignoreplatform"
 Level = 0
INVARIANTS Holds
CHECK_DEADLOCK FALSE

------------------------------- MODULE ModGen -------------------------------
(* Scenario generator for C13: every finished run of Mod (breadth first for  *)
(* the exhaustive sets, -simulate for long programs) is printed once as a    *)
(* JSON scenario: the source image, the placement class, the option program  *)
(* in the driver's vocabulary (harness/cmd/c13drv/opts.go), whether every    *)
(* option is a no-op by its documented meaning, and what the design spec     *)
(* predicts for the code as it is now (all Fix switches on; error or not, per child the layer         *)
(* identities and the history sequence, media type / content truthfulness).  *)
EXTENDS ModMC, Json

HistStr(h) == FoldLeft(LAMBDA a, c : a \o c, "", h)
B(b) == IF b THEN 1 ELSE 0
OptJ(o) == [k |-> o.k, a |-> o.a, v |-> o.v, i |-> o.i, f |-> o.f]
KidJ(ch) == [lids |-> [i \in 1..Len(ch.L) |-> IF ch.L[i].ok THEN ch.L[i].id ELSE "X"],
             hseq |-> [j \in 1..Len(ch.H) |-> IF ch.H[j].e THEN "E" ELSE ch.H[j].id],
             good |-> [i \in 1..Len(ch.L) |-> B(ch.L[i].ok /\ ch.L[i].mt = ch.L[i].wc)],
             diff |-> [i \in 1..Len(ch.L) |-> B(i <= Len(ch.D) /\ ch.D[i] = DiffOf(ch.L[i]))]]
Scn == [img |-> [n |-> img.n, hist |-> HistStr(img.hist), shape |-> img.shape, mt |-> img.fam, comp |-> img.comp,
                 data |-> B(img.data), refs |-> B(img.refs), ext |-> 0, alg |-> img.alg, ut |-> B(img.ut)],
        place |-> place, src |-> src,
        prog |-> [j \in 1..Len(prog) |-> OptJ(prog[j])],
        noop |-> B(NoopProg), gigo |-> B(Gigo),
        expect |-> [err |-> B(err # ""), why |-> err, unchanged |-> B(Unchanged), resolves |-> B(Resolves),
                    kids |-> IF err = "" THEN [c \in 1..Len(kids) |-> KidJ(kids[c])] ELSE <<>>,
                    entdata |-> IF err = "" /\ img.shape = "index" THEN [c \in 1..Len(kids) |-> topm.ents[c].data] ELSE <<>>]]
Emit == Done => PrintT(<<"SCN", ToJson(Scn)>>)

\* universes for the generator configurations
\* (the alignment universe is covered exhaustively by ModMC and by the pairs; here a spread of patterns)
GenPats(n) == CASE n = 1 -> {<<"L">>, <<"E", "L">>, <<"L", "E">>, <<>>}
                [] n = 2 -> {<<"L", "L">>, <<"L", "E", "L">>, <<"E", "L", "L", "E">>, <<"E", "L", "E", "L">>}
                [] n = 3 -> {<<"L", "L", "L">>, <<"L", "E", "L", "L">>, <<"E", "L", "L", "E", "L">>, <<"L", "L", "E", "E", "L">>,
                             <<"E", "E", "L", "L", "L">>, <<"L", "L", "L", "E", "E">>, <<>>}
ImagesGen == UNION {{ImgA(n, h, sh, fam, comp, data, refs, alg) : h \in GenPats(n)} :
                      n \in 1..3, sh \in {"image", "index"}, fam \in {"oci", "docker"},
                      comp \in {"gzip", "zstd", "none", "mixed"}, data \in BOOLEAN, refs \in BOOLEAN, alg \in {"sha256", "sha512"}}
             \cup UNION {{UT(Img(2, h, sh, fam, comp, data, refs)) : h \in GenPats(2)} :
                      sh \in {"image", "index"}, fam \in {"oci", "docker"},
                      comp \in {"gzip", "zstd", "none", "mixed"}, data \in BOOLEAN, refs \in BOOLEAN}
OptsExtra == {O("ToOCIReferrers"), O("ExternalURLsRm")}     \* no-ops on these images; effective on the runner's attest / ext variants
OptsGen == OptsAll \cup OptsExtra
OptsAddRm == {Oa("AddLayer", ""), Oa("AddLayer", "linux/amd64"), Oi("RmIndex", 0), Oi("RmIndex", 1), Oi("RmIndex", 2),
              Os("RmCreatedBy", {"L1"}, "^ADD L1$"), Os("RmCreatedBy", {"L2"}, "^ADD L2$"), Os("RmCreatedBy", {"L3"}, "^ADD L3$"),
              Os("RmCreatedBy", {"L1", "L3"}, "^ADD L(1|3)$"), Oa("StripFile", "l1"), Oa("StripFile", "l2"), Oa("StripFile", "l3"),
              Oa("StripFile", "add"), O("Rebase")}
ImagesPairs == {Img(3, h, sh, "oci", "gzip", FALSE, FALSE) : h \in {<<"L", "L", "L">>, <<"E", "L", "E", "L", "L">>, <<"L", "L", "E", "L", "E">>},
                                                               sh \in {"image", "index"}}
=============================================================================

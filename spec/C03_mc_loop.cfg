CONSTANTS
 Confs <- MCConfs
 FixWaitErr = TRUE
 Reduce = TRUE
 MCShapes = {"sigloop", "artshare"}
 MCPairs = {"tworeg", "reg2dir"}
 MCOpts <- MCOptsRefsDTags
 MCFeats <- MCFeatsLeftover
 MCInit = "empty"
 MCTag0 = {"none"}
 MCByDigest = {FALSE}
 MCTgtByDigest = {FALSE}
 MaxFaults = 0
 AllowCancel = FALSE
 AllowCrash = FALSE
 Cap = 0
INIT Init
NEXT Next
INVARIANTS TypeOK InvFb InvFbListed InvC03 InvFailTag

---------------------------- MODULE TagsGen ----------------------------
(* History generator for C06: behaviours of the reference model TagsMap     *)
(* with the history of operations taken.  Two uses:                         *)
(*   cover   (C06_gen_cover.cfg, BFS, VIEW = model state only): every state *)
(*           of the map model is kept with the first (shortest) history     *)
(*           that reaches it, and for every operation of the alphabet the   *)
(*           history "shortest path + that operation" is printed: every     *)
(*           transition of the reference model becomes one test of the      *)
(*           implementation.                                                *)
(*   random  (C06_gen_rand.cfg, -simulate): histories of exactly MaxLen     *)
(*           operations, printed when complete.                             *)
(* Mirrors no code; the operations are those of the statement.  All of them *)
(* are always enabled (a delete of something absent is a legal request).    *)
EXTENDS TagsMap, TLC, Json
CONSTANT MaxLen
VARIABLES tg, ms, hist
gvars == <<tg, ms, hist>>

Op(k, t, m) == [k |-> k, t |-> t, m |-> m]
Ops == {Op("push", t, m) : t \in Tags, m \in Mans}
       \cup {Op(k, "", m) : k \in {"pushd", "mdel", "mdelr"}, m \in Mans}
       \cup {Op("tagdel", t, "") : t \in Tags}
       \cup {Op(k, t, "") : k \in {"head", "get"}, t \in Tags}
       \cup {Op(k, "", m) : k \in {"head", "get"}, m \in Mans}
       \cup {Op("list", "", ""), Op("gc", "", "")}

Step(o) == /\ Len(hist) < MaxLen
           /\ tg' = MTags(tg, o.k, o.t, o.m)
           \* (for the generator a collection sweeps every manifest no tag points at)
           /\ ms' = IF o.k = "gc" THEN ms \cap MProt(tg) ELSE MMans(ms, o.k, o.m)
           /\ hist' = Append(hist, o)

GInit == tg = [t \in Tags |-> NONE] /\ ms = {} /\ hist = <<>>
CoverNext == \E o \in Ops : Step(o) /\ PrintT(<<"SCN", ToJson(hist')>>)
RandNext == \E o \in Ops : Step(o)
View == <<tg, ms>>
EmitFull == Len(hist) = MaxLen => PrintT(<<"SCN", ToJson(hist)>>)
WellFormed == MWellFormed(tg, ms)
=============================================================================

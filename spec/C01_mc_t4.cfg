CONSTANTS
 MaxLen = 2
 ReadSizes = {1, 5}
 MaxDrops = 1
 MaxFails = 1
 MaxSeeks = 1
 MaxAgain = 0
 RetryLimit = 3
 Schemes = {"reg"}
 Vias = {"reader"}
 Withs = {TRUE}
 Chunks = {1}
 LyingSizes = FALSE
 LieMax = 1
 InlineData = FALSE
 Conc = 3
 Probes = FALSE
 Exts = {0, 1, 2}
 KeepSlots = FALSE
 TarUnverified = FALSE
 MTs = {TRUE}
 DigestHdrs = {"served"}
 Trailers = {FALSE}
 Sts = {"std", "alt"}
 DropKinds = {"ueof", "reset"}
INIT Init
NEXT Next
VIEW View
INVARIANTS TypeOK PCleanOk HashIsGot CountIsGot Bounded EofVerified EofSized NeverSelfBlocked NoLeftover WantIsAsked
CHECK_DEADLOCK FALSE

CONSTANTS
 MaxLen = 0
 Mode = "fetch"
INIT Init
NEXT Next
INVARIANT Emit
CHECK_DEADLOCK FALSE

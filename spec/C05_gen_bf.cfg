INIT GInit
NEXT GNext
CHECK_DEADLOCK FALSE
CONSTANTS
 Confs <- GenBreadthConfs
 MaxPartial = 0
 MaxFaults = 0
 DefChunk = 2
 ChunkLimit = 6
 RetryLimit = 10
 HttpRetries = 5
 IgnoreInvalidDigest = FALSE
INVARIANTS Emit

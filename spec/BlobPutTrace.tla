---------------------------- MODULE BlobPutTrace ----------------------------
(* Trace spec for C05: replays the ndjson event log recorded by            *)
(* harness/cmd/c05drv (server side events of the scripted upload endpoint, *)
(* outcome of the real regclient.BlobPut, independently computed facts)    *)
(* through the monitor BlobPutProp.  One action per event kind.            *)
EXTENDS BlobPutProp, Json, IOUtils
Log == ndJsonDeserialize(IOEnv.VERIF_TRACE)
VARIABLE l
Ev == Log[l]
TInit == PInit /\ l = 1
TNext ==
  /\ l <= Len(Log)
  /\ l' = l + 1
  /\ \/ Ev.ev = "reset" /\ PReset(Ev)
     \/ Ev.ev = "post" /\ PPost(Ev)
     \/ Ev.ev = "patch" /\ PPatch(Ev)
     \/ Ev.ev = "put" /\ PPut(Ev)
     \/ Ev.ev = "get" /\ PGet(Ev)
     \/ Ev.ev = "delete" /\ PDelete(Ev)
     \/ Ev.ev = "redir" /\ PRedir(Ev)
     \/ Ev.ev \in {"broken", "nosession", "other", "auth"} /\ PNote
     \/ Ev.ev = "result" /\ PResult(Ev)
TSpec == TInit /\ [][TNext]_<<pvars, l>>
HW == TLCSet(1, IF TLCGet(1) > l THEN TLCGet(1) ELSE l)
Accepted == PrintT(<<"HIGHWATER", TLCGet(1), Len(Log)>>)
ASSUME TLCSet(1, 0)
=============================================================================

----------------------------- MODULE TokenLifeMC -----------------------------
(***************************************************************************)
(* X05 - composition of the design spec TokenLife (D) with the monitor     *)
(* TokenLifeProp (P): every wire / API event (D) emits in a step is fed to  *)
(* the monitor in the same step; TLC checks the invariant Ok (bad = "").   *)
(* Mirrors no code of its own.  Configurations: spec/X05_mc_*.cfg.         *)
(***************************************************************************)
EXTENDS TokenLife, TokenLifeProp

Apply(e) ==
  CASE e.ev = "call" -> PCall(e.c, e.h, e.repo, e.meth)
    [] e.ev = "reg" -> PReg(e)
    [] e.ev = "tok" -> PTok(e)
    [] e.ev = "end" -> PEnd(e.c, e.res)
    [] OTHER -> UNCHANGED pvars

MCInit ==
  /\ Init
  /\ ps = PState(IF NProcs = 1 THEN 1 ELSE 0, RetryLimit,
                 [h \in Hosts |-> [svc |-> Svc(h), user |-> User(h), cred |-> CredOf[h]]],
                 [h \in {x \in Hosts : CredOf[x] = "idtoken"} |-> h])
  /\ bad = ""
MCNext == Next /\ Apply(ev')
MCSpec == MCInit /\ [][MCNext]_<<dvars, pvars>>

(* universes used by the configurations *)
H1 == {"r1"}
H2 == {"r1", "r2"}
CredUP == [h \in {"r1", "r2"} |-> IF h = "r1" THEN "userpass" ELSE "none"]
CredID == [h \in {"r1", "r2"} |-> IF h = "r1" THEN "idtoken" ELSE "userpass"]
ReqsOf(hh, rr, mm) == {[h |-> h, repo |-> r, meth |-> m] : h \in hh, r \in rr, m \in mm}
ReqsA == ReqsOf({"r1"}, {"a"}, {"GET", "PUT", "DELETE"})
ReqsAB == ReqsOf({"r1"}, {"a", "b"}, {"GET", "PUT"})
ReqsH2 == ReqsOf({"r1", "r2"}, {"a"}, {"GET", "PUT"})
ReqsAll == ReqsOf({"r1", "r2"}, {"a", "b"}, {"GET", "PUT", "DELETE"})
MoodsAll == {"std", "stub", "nosc", "pullsc", "realm2", "basic", "nohdr"}
MoodsBearer == {"std", "stub", "nosc", "pullsc"}
KindsAll == {"ok", "okr", "oka", "okpast", "okshort", "oknoiat", "okfut", "part", "deny", "empty", "junk"}
KindsCore == {"ok", "okr", "okpast", "part", "deny", "empty", "junk"}
KindsTime == {"ok", "okpast", "okshort", "oknoiat", "okfut"}
AllFix == {"requireToken", "keepRefresh"}
NoFix == {}
\* the tree since fix commit 99af9cc (finding X05-1 repaired, X05-2 open)
TreeFix == {"requireToken"}
=============================================================================

\* switch DeleteValidates = FALSE (ManifestDelete before fix 3b8373e): layout scenarios with the verdict of that variant;
\* used only to EXPLAIN escapes the real code shows (e.g. on the reverse-of-fix seed), never to predict the current code
CONSTANTS TitleClean = "rooted" ExtractGuard = "reroot" Whiteout = "none" LinkPolicy = "skip" DeleteValidates = FALSE MaxFull = 1 MaxCore = 1
  Eps = {"lay"}
CONSTANT WithVerdict = TRUE
INIT Init
NEXT Next
INVARIANT Emit
CHECK_DEADLOCK FALSE

\* layout scenarios with the verdict of the model of the code AS FOUND (ManifestDelete without Validate): esc = 1 where it escapes
CONSTANTS TitleClean = "rooted" LinkPolicy = "skip" DeleteValidates = FALSE MaxFull = 1 MaxCore = 1
  Eps = {"lay"}
CONSTANT WithVerdict = TRUE
INIT Init
NEXT Next
INVARIANT Emit
CHECK_DEADLOCK FALSE

SPECIFICATION MCSpec
VIEW view
INVARIANTS DryNoChange ThrottleOk NotBlocked
CONSTANTS
 Ungated = {}
 LeakOnErr = {}
 StubReads = {}
 NS = 2
 MaxLen = 2
 Pars = {0, 1, 2}
 Alphabet = "throttle"

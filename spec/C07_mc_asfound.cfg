\* switch MarkerMode=rewrite = writeIndex/initIndex as found before 5457c02 (os.Create + Write on every index write); crashes excluded from the window in which oci-layout is truncated: holds, i.e. that window was the only hazard
CONSTANTS
 Scenarios <- Quick
 MaxCrash = 1
 MarkerMode = "rewrite"
 MarkerWindow = FALSE
 MaxFault = 0
INIT Init
NEXT Next
INVARIANTS TypeOK NoStuck CrashStateOK ReturnOK RetryOK
CHECK_DEADLOCK FALSE

---------------------------- MODULE HostConfProp ----------------------------
(***************************************************************************)
(* X04 (P) - property monitor for the resolution of the effective          *)
(* per-registry host configuration.  Observation shaped: it only sees the  *)
(* configuration sources as the user wrote them and what a request then    *)
(* showed on the wire (address, scheme, path prefix, credentials, the      *)
(* credential helper that was asked), or the before/new/after records of a *)
(* direct call.  It states the behaviour a user relies on:                 *)
(*                                                                         *)
(*  S1 For a request to registry R only entries whose name denotes R count *)
(*     (RN: http(s):// prefixes are dropped; docker.io, registry-1.        *)
(*     docker.io, index.docker.io and https://index.docker.io/v1/ are one  *)
(*     registry; a name with a repository path denotes no registry).       *)
(*  S2 Entries for R are folded in the order given, field by field: a      *)
(*     field an entry gives wins, a field it does not give keeps its value *)
(*     (so TLS is never weakened and credentials are never dropped by an   *)
(*     entry that does not set them).  The only coupling is the kind of    *)
(*     credential: an entry that gives a password or token without a       *)
(*     helper removes an earlier helper; an entry that gives a helper and  *)
(*     no user/password/token removes earlier user/password/token.  Hence  *)
(*     explicit credentials are never shadowed by an earlier helper.       *)
(*  S3 A field no entry for R gives has the built-in default (TLS enabled, *)
(*     hostname = the registry name, no credentials) or the value of a     *)
(*     WithConfigHostDefault given before R's first entry; a registry      *)
(*     without any entry gets exactly the last host default (never its     *)
(*     name / hostname) over the built-in default.                         *)
(*  S4 Credentials and addresses of one registry are never used for        *)
(*     another: every request made for R (or one of R's mirrors) goes to   *)
(*     the hostname, with the scheme, path prefix and credentials of that  *)
(*     registry's own folded entries; a helper is asked for that           *)
(*     registry's own server name.                                         *)
(*  S5 A docker config.json entry gives credentials (user+password,        *)
(*     identity token, helper); it may also restate the connection         *)
(*     defaults derived from its key (both outcomes accepted), and         *)
(*     http:// in the key gives TLS disabled.                              *)
(*  S6 Unmarshal(Marshal(h)) = h on every field but the name, Marshal is    *)
(*     stable under another round trip, and every field is written and     *)
(*     read under its documented key.                                      *)
(*                                                                         *)
(* Nothing here depends on how the code gets there (key of the host map,   *)
(* order of HEAD/GET, which mirror first): that is (D), HostConf.tla.      *)
(* Deprecated fields (api, scheme) carry no obligation but S6.             *)
(***************************************************************************)
EXTENDS HostConfDefs

VARIABLES ps,     \* folded sources: [seen, al, defs, lastdef]
          bad     \* "" or the obligation the last observation violated
pvars == <<ps, bad>>

TRegs == BareRegs \cup {DockerName}

\* S1: the registry a written name denotes ("" = none)
RN(n) == CASE n \in {DockerName, DockerDNS, DockerAuth, DockerLegacy} -> DockerName
           [] n \in {"http://r1.test", "http://r1.test/"} -> "r1.test"
           [] n = "https://r2.test" -> "r2.test"
           [] n \in BareRegs -> n
           [] OTHER -> ""
SchemeOf(n) == IF n \in {"http://r1.test", "http://r1.test/"} THEN "http" ELSE "https"

ObFields == Fields \ {"api", "scheme"}
CredFields == {"user", "pass", "token", "helper", "expire"}

\* "the entry gives field f"
GivenValid(f, v) == CASE f \in StrFields -> v # ""
                      [] f \in {"chunk", "conc"} -> v > 0
                      [] f = "repoauth" -> v = 1
                      [] OTHER -> v # 0
\* not a meaningful value: the entry may be taken or ignored
Invalid(f, v) == f \in {"chunk", "conc"} /\ v < 0

NormVal(T, f, v) == CASE f = "prefix" -> TrimSlash(v)
                      [] f = "hostname" /\ T = DockerName /\ v \in {DockerName, DockerAuth} -> DockerDNS
                      [] OTHER -> v

Builtin(T, f) == CASE f = "tls" -> "enabled"
                   [] f = "hostname" -> IF T = DockerName THEN DockerDNS ELSE T
                   [] f = "conc" -> 3
                   [] f = "credhost" -> IF T = DockerName THEN DockerAuth ELSE ""
                   [] OTHER -> Z[f]

First(checks) == IF \E i \in 1..Len(checks) : checks[i][1]
                 THEN checks[CHOOSE i \in 1..Len(checks) : checks[i][1] /\ \A j \in 1..(i-1) : ~checks[j][1]][2]
                 ELSE ""

\* ------------------------------------------------------------ folding (S2, S3)
PInitState == [seen |-> [T \in TRegs |-> FALSE],
               al |-> [T \in TRegs |-> [f \in ObFields |-> {}]],
               defs |-> {}, lastdef |-> NoDef]

\* allowed values of the fields of T before its first entry
Base(s, T) ==
  [f \in ObFields |->
     {Builtin(T, f)} \cup
     (IF f = "hostname" THEN {}
      ELSE {NormVal(T, f, d[f]) : d \in {x \in s.defs : GivenValid(f, x[f])}})]

\* allowed values now (a registry without entries: exactly the last default)
Cur(s, T) ==
  IF s.seen[T] THEN s.al[T]
  ELSE [f \in ObFields |->
          IF f # "hostname" /\ s.lastdef # NoDef /\ GivenValid(f, s.lastdef[f])
          THEN (IF f = "credhost" THEN {Builtin(T, f), s.lastdef[f]} ELSE {NormVal(T, f, s.lastdef[f])})
          ELSE {Builtin(T, f)}]

\* one entry e for T; opt = fields e only restates (both outcomes accepted)
Upd(s, T, e, opt) ==
  LET base == IF s.seen[T] THEN s.al[T] ELSE Base(s, T)
      dropH == e.helper = "" /\ (e.pass # "" \/ e.token # "")
      dropC == e.helper # "" /\ e.user = "" /\ e.pass = "" /\ e.token = ""
      b1 == [f \in ObFields |->
               IF dropH /\ f = "helper" THEN {""}
               ELSE IF dropH /\ f = "expire" THEN {0}
               ELSE IF dropC /\ f \in {"user", "pass", "token"} THEN {""}
               ELSE base[f]]
  IN [f \in ObFields |->
        IF GivenValid(f, e[f])
        THEN (IF f \in opt THEN b1[f] \cup {NormVal(T, f, e[f])} ELSE {NormVal(T, f, e[f])})
        ELSE b1[f]]

FoldDefault(s, d) == [s EXCEPT !.defs = @ \cup {d}, !.lastdef = d]
FoldHost(s, e) ==    LET T == RN(e.name) IN
                   IF T = "" THEN s
                   ELSE [s EXCEPT !.seen[T] = TRUE, !.al[T] = Upd(s, T, e, {})]

\* an entry of the regctl config file (hosts.<name>): the file format defines tls as enabled and
\* hostname as the registry name when they are not written; the loader may restate them
FileRec(e) == LET T == RN(e.name) IN
              [e EXCEPT !.tls = IF e.tls = "" THEN "enabled" ELSE e.tls,
                        !.hostname = IF e.hostname = "" /\ T # "" THEN Builtin(T, "hostname") ELSE e.hostname]
FileOpt(e) == (IF e.tls = "" THEN {"tls"} ELSE {}) \cup (IF e.hostname = "" THEN {"hostname"} ELSE {})
FoldFile(s, e) == LET T == RN(e.name) IN
                  IF T = "" THEN s
                  ELSE [s EXCEPT !.seen[T] = TRUE, !.al[T] = Upd(s, T, FileRec(e), FileOpt(e))]

\* S5: one entry of a docker config.json (auths entry with the helper named for its key, a
\* credHelpers entry without auths entry, or an entry listed by the credsStore helper)
DockerCounts(key, user, pass, token, helper) ==
  RN(key) # "" /\ ((user # "" /\ pass # "") \/ token # "" \/ helper # "")
DockerRec(key, user, pass, token, helper) ==
  [Z EXCEPT !.name = key, !.user = user, !.pass = pass, !.token = token, !.helper = helper,
            !.tls = IF SchemeOf(key) = "http" THEN "disabled" ELSE "enabled",
            !.hostname = Builtin(RN(key), "hostname"),
            !.credhost = IF RN(key) = DockerName THEN DockerAuth ELSE IF key = RN(key) THEN "" ELSE key,
            !.conc = 3]
DockerOpt(key) == {"hostname", "credhost", "conc"} \cup (IF SchemeOf(key) = "http" THEN {} ELSE {"tls"})
FoldDocker(s, key, user, pass, token, helper) ==
  IF ~DockerCounts(key, user, pass, token, helper) THEN s
  ELSE LET T == RN(key) IN
       [s EXCEPT !.seen[T] = TRUE,
                 !.al[T] = Upd(s, T, DockerRec(key, user, pass, token, helper), DockerOpt(key))]

\* ------------------------------------------------------- observations (S1, S4)
MirrorRegs(m) == {RN(x) : x \in MirrorSet(m)} \ {""}
Servers(c) == (c.credhost \ {""}) \cup c.hostname
OthersHave(s, T, v) ==
  \E T2 \in TRegs \ {T} : s.seen[T2] /\ v \in (s.al[T2].user \cup s.al[T2].pass \cup s.al[T2].token)

\* o = [addr, scheme, prefix, user, pass, token, hasked, hserver, huser, hpass, htok]:
\* user/pass = the Basic credentials seen by the token service for this registry, token = the
\* refresh token posted to it, hasked/hserver = the helper executed and the server name it got
\* on stdin, huser/hpass/htok = what that helper answered (facts logged by the driver)
CredBad(s, T, o) ==
  LET c == Cur(s, T)
      direct == "" \in c.helper
      helpers == c.helper \ {""}
      sent == {o.user, o.pass, o.token} \ {""}
      directOK ==
        /\ o.hasked = ""
        /\ \E u \in c.user, p \in c.pass, t \in c.token :
             /\ o.token = t
             /\ IF u # "" /\ p # "" THEN o.user = u /\ o.pass = p ELSE o.user = "" /\ o.pass = ""
      helperOK ==
        /\ o.hasked \in helpers
        /\ o.hserver \in Servers(c)
        /\ o.token = o.htok
        /\ IF o.huser # "" /\ o.hpass # "" THEN o.user = o.huser /\ o.pass = o.hpass
           ELSE o.user = "" /\ o.pass = ""
  IN IF (direct /\ directOK) \/ helperOK THEN ""
     ELSE First(<<
       <<o.hasked # "" /\ helpers = {},
         "cred: explicit credentials are shadowed by a credential helper that is not configured (any more)">>,
       <<o.hasked # "" /\ o.hasked \notin helpers,
         "cred: another credential helper than the configured one was asked">>,
       <<o.hasked # "" /\ o.hserver \notin Servers(c),
         "cred: the credential helper was asked for the server name of another registry">>,
       <<o.hasked # "", "cred: the credentials sent are not the ones the helper returned">>,
       <<~direct, "cred: the configured credential helper was not asked">>,
       <<\E v \in sent : v \notin (c.user \cup c.pass \cup c.token) /\ OthersHave(s, T, v),
         "cred: credentials of another registry were sent">>,
       <<sent = {}, "cred: configured credentials were not sent">>,
       <<TRUE, "cred: other credentials than the configured ones were sent">> >>)

SchemeFor(t) == IF t = "disabled" THEN "http" ELSE "https"

\* one request observed while the user asked for registry r (kind "ping": upstream only,
\* "head": mirrors allowed)
ReqBad(s, kind, r, o) ==
  LET T0 == RN(r) IN
  IF T0 = "" THEN "tooling: probe for a name that is not a registry"
  ELSE
  LET mir == IF kind = "ping" THEN {} ELSE UNION {MirrorRegs(m) : m \in Cur(s, T0).mirrors}
      cands == {T0} \cup mir
      byAddr == {T \in cands : o.addr \in Cur(s, T).hostname}
      bySch == {T \in byAddr : o.scheme \in {SchemeFor(t) : t \in Cur(s, T).tls}}
      byPre == {T \in bySch : o.prefix \in Cur(s, T).prefix}
  IN IF byAddr = {} THEN "addr: request sent to an address that is not configured for the registry"
     ELSE IF bySch = {} /\ o.scheme = "http" THEN "tls: clear text request to a registry configured for TLS"
     ELSE IF bySch = {} THEN "tls: TLS request to a registry configured for clear text"
     ELSE IF byPre = {} THEN "prefix: path prefix differs from the configured one"
     ELSE IF \E T \in byPre : CredBad(s, T, o) = "" THEN ""
     ELSE CredBad(s, CHOOSE T \in byPre : TRUE, o)

\* end of one probe: addrs = the set of addresses contacted
DoneBad(s, kind, r, addrs) ==
  LET T0 == RN(r) IN
  IF T0 = "" THEN "tooling: probe for a name that is not a registry"
  ELSE IF kind = "ping"
  THEN (IF Cardinality(addrs) # 1 THEN "addr: a ping must contact exactly the registry" ELSE "")
  ELSE IF \E m \in Cur(s, T0).mirrors :
            \A T \in {T0} \cup MirrorRegs(m) : addrs \cap Cur(s, T).hostname # {}
       THEN "" ELSE "mirrors: a configured mirror or the upstream was not contacted"

\* TLS mode of one connection for registry r: o = [addr, conn, ccert]; conn = "plain" (clear text
\* request arrived), "tls-ok" (handshake completed), "tls-verify-fail" (the client refused the
\* server certificate); the server of address a presents a certificate only regcert "ca-" a
\* vouches for; ccert = label of the client certificate presented ("" none)
ExpectConn(t, rc, a) == IF t = "disabled" THEN "plain"
                        ELSE IF t = "insecure" THEN "tls-ok"
                        ELSE IF rc = CertOf(a) THEN "tls-ok" ELSE "tls-verify-fail"
TlsBad(s, r, o) ==
  LET T == RN(r) IN
  IF T = "" THEN "tooling: probe for a name that is not a registry"
  ELSE
  LET c == Cur(s, T)
      connOK == \E t \in c.tls, rc \in c.regcert : ExpectConn(t, rc, o.addr) = o.conn
      certOK == \E cc \in c.ccert, ck \in c.ckey :
                   o.ccert = IF cc # "" /\ ck = KeyOf(cc) THEN cc ELSE ""
  IN First(<<
       <<o.addr \notin c.hostname, "addr: request sent to an address that is not configured for the registry">>,
       <<~connOK /\ o.conn = "plain", "tls: clear text request to a registry configured for TLS">>,
       <<~connOK /\ o.conn = "tls-ok" /\ c.tls = {"disabled"}, "tls: TLS request to a registry configured for clear text">>,
       <<~connOK /\ o.conn = "tls-ok",
         "tls: server certificate accepted without verification although the registry is configured for verified TLS">>,
       <<~connOK, "tls: server certificate refused although the registry is configured to accept it">>,
       <<o.conn = "tls-ok" /\ ~certOK /\ o.ccert # "",
         "tlscert: a client certificate that is not configured for the registry was presented">>,
       <<o.conn = "tls-ok" /\ ~certOK, "tlscert: the configured client certificate was not presented">> >>)

\* ------------------------------------------------------------- direct calls
\* Host.Merge(n) on b gave a  (S2 on one step)
MergeBad(b, n, a) ==
  LET dropH == n.helper = "" /\ (n.pass # "" \/ n.token # "")
      dropC == n.helper # "" /\ n.user = "" /\ n.pass = "" /\ n.token = ""
  IN First(<<
    <<a.name # (IF b.name = "" THEN n.name ELSE b.name), "merge: the name of an existing entry changed">>,
    <<n.tls = "" /\ TLSRank(a.tls) < TLSRank(b.tls), "merge: TLS weakened by an entry that does not set TLS">>,
    <<dropH /\ a.helper # "",
      "merge: explicit password/token left shadowed by the earlier credential helper">>,
    <<n.helper = "" /\ ~dropH /\ a.helper # b.helper,
      "merge: credential helper dropped by an entry that gives neither credentials nor a helper">>,
    <<dropC /\ (a.user # "" \/ a.pass # "" \/ a.token # ""),
      "merge: earlier user/password/token kept beside a new credential helper">>,
    <<~dropC /\ \E f \in {"user", "pass", "token"} : n[f] = "" /\ a[f] # b[f],
      "merge: credential dropped or changed by an entry that does not set it">>,
    <<\E f \in ObFields : GivenValid(f, n[f]) /\ a[f] # NormVal("", f, n[f]),
      "merge: an explicitly given field did not take effect">>,
    <<\E f \in ObFields \ CredFields : ~GivenValid(f, n[f]) /\ ~Invalid(f, n[f]) /\ a[f] # b[f],
      "merge: a field changed that the new entry does not set">>,
    <<\E f \in ObFields : Invalid(f, n[f]) /\ a[f] \notin {b[f], n[f]},
      "merge: a field changed to a value nobody gave">>,
    <<n.expire = 0 /\ a.expire \notin ({b.expire} \cup (IF dropH THEN {0} ELSE {})),
      "merge: credential expiry changed by an entry that does not set it">> >>)

\* HostNewDefName(d, n) gave r (hasdef = 0: HostNewName(n))  (S1, S3 on one step)
NewNameBad(hasdef, d, n, r) ==
  LET T == RN(n)
      D(f) == IF hasdef = 1 /\ GivenValid(f, d[f]) THEN d[f] ELSE Builtin(T, f)
  IN IF T = "" THEN ""
     ELSE First(<<
       <<r.name # T, "name: the name is not resolved to the registry it denotes">>,
       <<r.hostname # Builtin(T, "hostname"), "name: hostname is not the one of the registry (another host's or a default's)">>,
       <<r.tls # (IF SchemeOf(n) = "http" THEN "disabled" ELSE D("tls")), "tls: a new entry does not start with the TLS mode of its name / the default">>,
       <<\E f \in {"user", "pass", "token", "helper"} : r[f] # (IF hasdef = 1 THEN d[f] ELSE ""),
         "cred: a new entry starts with credentials nobody configured">>,
       <<r.credhost \notin {Builtin(T, "credhost"), n, D("credhost")}, "cred: credential host of a new entry is another registry's">>,
       <<\E f \in ObFields \ (CredFields \cup {"tls", "hostname", "credhost"}) : r[f] # D(f),
         "default: a new entry does not start with the host default / built-in default">> >>)

\* h2 = Unmarshal(Marshal(h)); stable = 1 iff Marshal(h2) = Marshal(h) byte for byte; hdoc = the
\* fields found under their documented keys in Marshal(h) (generic JSON parse); hread = Unmarshal
\* of a document written by hand with the documented keys  (S6)
JsonBad(h, h2, hdoc, hread, stable) ==
  First(<<
    <<\E f \in Fields : h2[f] # h[f], "json: a field is lost or invented by Marshal/Unmarshal">>,
    <<stable # 1, "json: Marshal(Unmarshal(x)) is not stable">>,
    <<\E f \in Fields : hdoc[f] # h[f], "json: a field is not written under its documented key">>,
    <<\E f \in Fields : hread[f] # h[f], "json: a documented key is not read">> >>)

\* ------------------------------------------------------------------ actions
Latch(b) == bad' = IF bad # "" THEN bad ELSE b
PInit == ps = PInitState /\ bad = ""
PReset == ps' = PInitState /\ bad' = ""
PDefault(d) == ps' = FoldDefault(ps, d) /\ UNCHANGED bad
PSrcHost(e) == ps' = FoldHost(ps, e) /\ UNCHANGED bad
PSrcFile(e) == ps' = FoldFile(ps, e) /\ UNCHANGED bad
PSrcDocker(key, user, pass, token, helper) ==
  ps' = FoldDocker(ps, key, user, pass, token, helper) /\ UNCHANGED bad
PReq(kind, r, o) == Latch(ReqBad(ps, kind, r, o)) /\ UNCHANGED ps
PDone(kind, r, addrs) == Latch(DoneBad(ps, kind, r, addrs)) /\ UNCHANGED ps
PTls(r, o) == Latch(TlsBad(ps, r, o)) /\ UNCHANGED ps
PMerge(b, n, a) == Latch(MergeBad(b, n, a)) /\ UNCHANGED ps
PNewName(hasdef, d, n, r) == Latch(NewNameBad(hasdef, d, n, r)) /\ UNCHANGED ps
PJson(h, h2, hdoc, hread, stable) == Latch(JsonBad(h, h2, hdoc, hread, stable)) /\ UNCHANGED ps
PNote == UNCHANGED pvars

Ok == bad = ""
=============================================================================

----------------------------- MODULE PathSafeGen -----------------------------
(* Scenario generator for C20: one initial state per scenario of PathSafe     *)
(* (entry points chosen by Eps); each is printed as JSON together with the    *)
(* model's verdict under the configured constants: esc = 1 when the model     *)
(* says the scenario touches a path outside the designated directory, nt =    *)
(* number of paths the model says are touched.                                *)
EXTENDS PathSafe, Json
CONSTANT Eps
VARIABLE x
Init == InSpace(x, Eps)
Next == UNCHANGED x
Emit == PrintT(<<"SCN", ToJson(x @@ [esc |-> IF Contained(x) THEN 0 ELSE 1, nt |-> Cardinality(Touches(x))])>>)
=============================================================================

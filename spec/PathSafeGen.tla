----------------------------- MODULE PathSafeGen -----------------------------
(* Scenario generator for C20: one initial state per scenario of PathSafe     *)
(* (entry points chosen by Eps); each is printed as JSON together with the    *)
(* model's verdict under the configured constants: esc = 1 when the model     *)
(* says the scenario touches a path outside the designated directory, nt =    *)
(* number of paths the model says are touched (only with WithVerdict; the     *)
(* main space is checked by PathSafeMC instead).                              *)
EXTENDS PathSafe, Json
CONSTANTS Eps, WithVerdict
VARIABLE x
Init == InSpace(x, Eps)
Next == UNCHANGED x
Emit == IF WithVerdict THEN PrintT(<<"SCN", ToJson(x @@ [esc |-> IF Contained(x) THEN 0 ELSE 1, nt |-> Cardinality(Touches(x))])>>)
        ELSE PrintT(<<"SCN", ToJson(x)>>)
=============================================================================

SPECIFICATION TSpec
CONSTRAINT HW
POSTCONDITION Accepted
CHECK_DEADLOCK FALSE

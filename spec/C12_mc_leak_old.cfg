CONSTANTS
 Hosts = {"up"}
 Up = "up"
 Ids = {"A"}
 N = 2
 RA = 50
 Kinds = {"ok", "ok206", "short0", "short206", "s500"}
 MaxFaults = 3
 MaxSeeks = 1
 Conc = 2
 LinkEntries = FALSE
 Directs = {"none"}
 StoreAnchor = TRUE
 RelNR = TRUE
 FixLeak = FALSE
 PrioAsc = TRUE
 Rs = {3}
 Prios = {0}
 Meths = {"GET"}
 Waive <- WaiveNone
 Confs <- EqConfs
INIT MCInit
NEXT MCNext
INVARIANTS Ok NoThrottleBlock
CHECK_DEADLOCK FALSE

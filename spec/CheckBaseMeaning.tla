---------------------------- MODULE CheckBaseMeaning --------------------------
(***************************************************************************)
(* X06 - the MEANING half of the property monitor (P) of                   *)
(* regclient.ImageCheckBase: pure operators, no variables.                 *)
(* (`regctl image check-base`).  Mirrors NO code: it is written from the   *)
(* statement in extra.d/X06.json.  It looks only at                        *)
(*   - the facts of the world the call ran in (what the image reference    *)
(*     and the base reference resolve to in the registries: single image / *)
(*     index, per platform the layer list and the config history, the base *)
(*     annotations, the options given; all re-read from the registry state *)
(*     by the driver with encoding/json, not taken from the generator),    *)
(*   - every request the call sent (method, refused or served),            *)
(*   - the class of the result (nil / mismatch = wraps errs.ErrMismatch /  *)
(*     err = any other error / panic), and whether any registry changed.   *)
(*                                                                         *)
(* World record (flags are 0/1 so that the JSON of a trace has the same    *)
(* shape as the TLA value):                                                *)
(*   opt  = [ref, dig, skip, plat]   ref: base reference option given;     *)
(*          dig: "" | "cur" (= digest the base reference resolves to now)  *)
(*          | "old" (another well formed digest) | "baddig" (unparsable)   *)
(*   img / base = [kind, ann, ents]  kind: "single" | "index" | "missing"; *)
(*          ents: <<[plat, ann, layers, hist]>> (one entry, plat "" for a  *)
(*          single image); ann: "none" | "name" (base.name only) | "cur" / *)
(*          "old" / "baddig" (base.name + base.digest of that class) |     *)
(*          "badname" (base.name is not a reference)                       *)
(*   hist entry = [id, e, nc]: text fields, empty_layer, no `created`.     *)
(***************************************************************************)
EXTENDS Sequences, Integers, FiniteSets, TLC

IsPre(s, t) == Len(s) <= Len(t) /\ \A i \in 1..Len(s) : s[i] = t[i]

\* "really built on base manifest b": b's layers are the first layers of the image and (unless the
\* config check is skipped) b's build history is the beginning of the image's build history
BuiltOn(i, b, skip) == /\ Len(b.layers) > 0
                       /\ IsPre(b.layers, i.layers)
                       /\ (skip = 1 \/ IsPre(b.hist, i.hist))

\* the base manifests that can stand for platform p (empty: the question has no answer)
BaseFor(base, p) ==
  IF base.kind = "single" THEN {base.ents[1]}
  ELSE IF base.kind = "index" /\ p # ""
       THEN {base.ents[k] : k \in {j \in DOMAIN base.ents : base.ents[j].plat = p}}
       ELSE {}

\* comparison of one image manifest with the current base for platform p
Compare(iman, base, p, skip) ==
  LET bs == BaseFor(base, p) IN
  IF bs = {} THEN {"err"}
  ELSE LET b == CHOOSE x \in bs : TRUE IN
       IF Len(b.layers) = 0 THEN {"err"}
       ELSE IF BuiltOn(iman, b, skip) THEN {"nil"} ELSE {"mismatch"}

\* a known base digest decides alone: unchanged iff the base reference still resolves to it
DigRes(d) == IF d = "cur" THEN "nil" ELSE IF d = "old" THEN "mismatch" ELSE "err"
OptDig(opt) == IF opt.dig = "" THEN {} ELSE {opt.dig}
AnnDig(a) == IF a \in {"cur", "old", "baddig"} THEN {a} ELSE {}

\* what is known about the base of a manifest with annotation state a.  When both the option and the
\* annotation give a digest the statement does not say which one wins: both are candidates.
Known(a, opt) ==
  IF opt.ref = 1 THEN [name |-> "ok", digs |-> OptDig(opt)]
  ELSE IF a = "none" THEN [name |-> "none", digs |-> {}]
  ELSE IF a = "badname" THEN [name |-> "bad", digs |-> {}]
  ELSE [name |-> "ok", digs |-> AnnDig(a) \cup OptDig(opt)]

ByDigest(digs, base) == IF base.kind = "missing" THEN {"err"} ELSE {DigRes(d) : d \in digs}

\* one platform entry e of an index checked without a platform option: its base is known from the
\* option, from its own annotations or from the annotations of the index (the statement does not choose)
PerEntry(e, idxann, opt, base) ==
  LET one(a) == LET kk == Known(a, opt) IN
                IF kk.name # "ok" THEN {"err"}
                ELSE IF kk.digs # {} THEN ByDigest(kk.digs, base)
                ELSE Compare(e, base, e.plat, opt.skip)
  IN (IF e.plat = "" THEN {"err"} ELSE {}) \cup one(e.ann) \cup one(idxann)     \* an entry without platform may be refused

\* the set of result classes the statement allows when no request was refused
Allowed(w) ==
  LET opt == w.opt  img == w.img  base == w.base IN
  IF img.kind = "missing"
  THEN {"err"} \cup (IF opt.ref = 1 /\ opt.dig # "" THEN ByDigest({opt.dig}, base) ELSE {})
  ELSE
  LET k0 == Known(img.ann, opt) IN
  IF k0.name # "ok" THEN {"err"}
  ELSE IF k0.digs # {} THEN ByDigest(k0.digs, base)
  ELSE IF img.kind = "single" THEN Compare(img.ents[1], base, opt.plat, opt.skip)
  ELSE IF opt.plat # ""
  THEN LET es == {k \in DOMAIN img.ents : img.ents[k].plat = opt.plat} IN
       IF es = {} THEN {"err"}
       ELSE Compare(img.ents[CHOOSE k \in es : TRUE], base, opt.plat, opt.skip)
  ELSE LET per(k) == PerEntry(img.ents[k], img.ann, opt, base)
           nonnil == UNION {per(k) \ {"nil"} : k \in DOMAIN img.ents}
           allnil == \A k \in DOMAIN img.ents : "nil" \in per(k)
       IN nonnil \cup (IF allnil THEN {"nil"} ELSE {})

\* the verdict on one finished call: "" or the name of the violated obligation
Judge(w, refused, wrote, mutated, res) ==
  IF res \notin {"nil", "mismatch", "err"} THEN "returns"                \* the call returns (no panic)
  ELSE IF wrote \/ mutated = 1 THEN "read-only"                          \* no state changing request
  ELSE IF refused THEN (IF res = "nil" THEN "nil-on-refusal" ELSE "")   \* never nil when a fetch failed
  ELSE IF res \in Allowed(w) THEN ""
  ELSE IF res = "nil" THEN "nil-unsound"                                 \* nil although not built on the current base
  ELSE IF res = "mismatch" THEN "mismatch-unfounded"                     \* mismatch although nothing differs
  ELSE IF Allowed(w) = {"nil"} THEN "must-nil"
  ELSE IF Allowed(w) = {"mismatch"} THEN "must-mismatch"                 \* the base moved and it is not said
  ELSE "must-decide"
=============================================================================

SPECIFICATION MCSpec
VIEW view
INVARIANTS ReadSameMC
CONSTANTS
 Ungated = {}
 LeakOnErr = {}
 StubReads = {"manifest.get", "tag.ls"}
 NS = 1
 MaxLen = 2
 Pars = {0}
 Alphabet = "core"

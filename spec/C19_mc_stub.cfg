SPECIFICATION MCSpec
VIEW view
INVARIANTS ReadSameMC
CONSTANTS
 Gated = {"tag.delete", "m:delete", "manifest.put", "m:put", "blob.put", "b:put", "image.importTar", "image.copy", "image.copy+dt", "image.copy+fr"}
 RelOnErr = {"image.config", "m:config", "image.importTar", "image.exportTar", "image.copy", "image.copy+dt", "image.copy+fr"}
 StubReads = {"manifest.get", "tag.ls"}
 NS = 1
 MaxLen = 2
 Pars = {0}
 Alphabet = "core"

----------------------------- MODULE BlobPutOci -----------------------------
(***************************************************************************)
(* (D) for overlapping blob puts on ONE OCI layout (C05).                  *)
(*                                                                         *)
(* Mirrors scheme/ocidir/blob.go:BlobPut at the level of file system       *)
(* objects (directory entries, inodes, open descriptors):                  *)
(*   Create   os.CreateTemp(dir, "*.tmp"): a fresh inode under a name no   *)
(*            other put uses                                               *)
(*   Write    io.Copy(tmpFile, TeeReader(rdr, digester)), one unit per     *)
(*            step, through the put's own descriptor at its own offset     *)
(*   ReadErr  the source breaks off: the put returns the error             *)
(*   Verify   digest / size of what went through the digester (the STREAM, *)
(*            not the file) against the declared descriptor                *)
(*   Rename   os.Rename(tmp, blobs/<alg>/<hex>), success                   *)
(* The layout throttle admits several writers and BlobPut takes no lock,   *)
(* so every interleaving of the steps of two puts is a behaviour.          *)
(*                                                                         *)
(* Obligations (the same as in BlobPutProp, read at the END of the whole   *)
(* history): a put that reported success finds exactly its stream under    *)
(* the digest it returned; a put whose stream does not match its declared  *)
(* digest reports an error; well formed input without a read error         *)
(* succeeds; every digest named file holds the content of that digest.     *)
(*                                                                         *)
(* Deviations: ideal hash (digest = content); sizes only through the       *)
(* content; FixedTmp = TRUE is NOT the code: it replaces CreateTemp by one *)
(* temp name per declared digest opened with O_TRUNC and exists to show    *)
(* that the check depends on the unique temp names (expected               *)
(* counterexample C05_mc_oci_fixed.cfg).                                   *)
(***************************************************************************)
EXTENDS Integers, Sequences, FiniteSets, TLC
CONSTANTS Procs, BlobLen, FixedTmp

Good == [i \in 1..BlobLen |-> i]                 \* the blob of digest D
Bad == [i \in 1..BlobLen |-> 0]                  \* other bytes of the same length
Short == SubSeq(Good, 1, BlobLen - 1)            \* the blob with its end missing
H(c) == c
Confs == [src : {Good, Bad, Short}, decl : {"D", "none"}, brk : 0..BlobLen]   \* brk: unit whose read fails (0 never)

VARIABLES cf, pc, dir, ino, fd, wr, res
vars == <<cf, pc, dir, ino, fd, wr, res>>

\* names are <<kind, number, content>> so that all of them compare
TmpName(p) == IF FixedTmp /\ cf[p].decl = "D" THEN <<"tmp", 0, <<>>>> ELSE <<"tmp", p, <<>>>>
Final(p) == IF cf[p].decl = "D" THEN <<"blob", 0, H(Good)>> ELSE <<"blob", 0, H(cf[p].src)>>
NewIno == Cardinality(DOMAIN ino) + 1
Pad(s, n) == IF Len(s) >= n THEN s ELSE s \o [i \in 1..(n - Len(s)) |-> -1]
SetAt(s, i, v) == [Pad(s, i) EXCEPT ![i] = v]

Init == /\ cf \in [Procs -> Confs]
        /\ pc = [p \in Procs |-> "create"]
        /\ dir = <<>> /\ ino = <<>>
        /\ fd = [p \in Procs |-> 0] /\ wr = [p \in Procs |-> 0]
        /\ res = [p \in Procs |-> "none"]

Create(p) ==
  /\ pc[p] = "create"
  /\ LET name == TmpName(p)
         i == IF name \in DOMAIN dir THEN dir[name] ELSE NewIno      \* O_CREATE | O_TRUNC
     IN /\ dir' = (name :> i) @@ dir
        /\ ino' = (i :> <<>>) @@ ino
        /\ fd' = [fd EXCEPT ![p] = i]
  /\ pc' = [pc EXCEPT ![p] = "write"]
  /\ UNCHANGED <<cf, wr, res>>

Write(p) ==
  /\ pc[p] = "write" /\ wr[p] < Len(cf[p].src) /\ cf[p].brk # wr[p] + 1
  /\ ino' = [ino EXCEPT ![fd[p]] = SetAt(@, wr[p] + 1, cf[p].src[wr[p] + 1])]
  /\ wr' = [wr EXCEPT ![p] = @ + 1]
  /\ UNCHANGED <<cf, pc, dir, fd, res>>

ReadErr(p) ==
  /\ pc[p] = "write" /\ wr[p] < Len(cf[p].src) /\ cf[p].brk = wr[p] + 1
  /\ res' = [res EXCEPT ![p] = "err"] /\ pc' = [pc EXCEPT ![p] = "done"]
  /\ UNCHANGED <<cf, dir, ino, fd, wr>>

Verify(p) ==
  /\ pc[p] = "write" /\ wr[p] = Len(cf[p].src)
  /\ IF cf[p].decl = "D" /\ H(cf[p].src) # H(Good)
     THEN res' = [res EXCEPT ![p] = "err"] /\ pc' = [pc EXCEPT ![p] = "done"]
     ELSE pc' = [pc EXCEPT ![p] = "rename"] /\ UNCHANGED res
  /\ UNCHANGED <<cf, dir, ino, fd, wr>>

Rename(p) ==
  /\ pc[p] = "rename"
  /\ IF TmpName(p) \in DOMAIN dir
     THEN /\ dir' = [n \in (DOMAIN dir \ {TmpName(p)}) \cup {Final(p)} |->
                       IF n = Final(p) THEN dir[TmpName(p)] ELSE dir[n]]
          /\ res' = [res EXCEPT ![p] = "ok"]
     ELSE res' = [res EXCEPT ![p] = "err"] /\ UNCHANGED dir           \* ENOENT
  /\ pc' = [pc EXCEPT ![p] = "done"]
  /\ UNCHANGED <<cf, ino, fd, wr>>

AllDone == \A p \in Procs : pc[p] = "done"
Next == (\E p \in Procs : Create(p) \/ Write(p) \/ ReadErr(p) \/ Verify(p) \/ Rename(p))
        \/ (AllDone /\ UNCHANGED vars)
Spec == Init /\ [][Next]_vars

Stored(n) == IF n \in DOMAIN dir THEN ino[dir[n]] ELSE <<-2>>
\* O1 at the end of the history
SuccessMeansStored == AllDone => \A p \in Procs : res[p] = "ok" => Stored(Final(p)) = cf[p].src
\* O2
MismatchIsError == \A p \in Procs : (pc[p] = "done" /\ cf[p].decl = "D" /\ cf[p].src # Good) => res[p] = "err"
\* O3
WellFormedSucceeds == \A p \in Procs : (pc[p] = "done" /\ cf[p].brk = 0 /\ (cf[p].decl = "none" \/ cf[p].src = Good)) => res[p] = "ok"
\* every digest named file holds that digest's content once nobody writes any more
NamesMatch == AllDone => \A n \in DOMAIN dir : n[1] = "blob" => H(ino[dir[n]]) = n[3]
=============================================================================

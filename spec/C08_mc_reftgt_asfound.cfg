CONSTANTS
 Copies = {"c1", "c2"}
 Confs <- RefTgtConfs
 MaxCloses = 2
 MaxOps = 1
 KeyMode = "resolve"
 LockRefTgt = FALSE
 CtxKinds = {"bg", "cancelled"}
 MarkCtx = FALSE
 Eager = TRUE
SPECIFICATION Spec
INVARIANTS TypeOK LocksNonNeg MarkIsReach
PROPERTIES O3
CHECK_DEADLOCK FALSE

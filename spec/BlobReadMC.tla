---------------------------- MODULE BlobReadMC ----------------------------
(* Model-checking instance of BlobRead: the property monitor BlobReadProp is  *)
(* instantiated over the observation variables of the design spec, so the    *)
(* invariant checked on (D) is literally the state predicate of (P).         *)
EXTENDS BlobRead
P == INSTANCE BlobReadProp WITH hdr <- [intended |-> scn.intended, size |-> scn.size],
                                delivered <- got, st <- cst, bad <- ""
PCleanOk == P!CleanOk
\* `ret.seq` only counts calls; it is left out of the fingerprint
View == <<scn, pc, why, pend, src, tvars, rvars, got, cst, ret.op, ret.n, ret.err, seeks, again, extused>>
=============================================================================

CONSTANTS
 Space = "s14"
 Scenarios <- SpaceScns
 Anchoring = "asis"
 PlatMatch = "fixed"
 Chars <- CharsDef
 NameOrder <- NameOrderDef
INIT Init
NEXT Next
INVARIANTS PostOk BackupOk ThrottleBound HeldInSection CheckWritesNothing

CONSTANTS
 MaxLen = 4
 ReadSizes = {1, 2, 3, 7}
 MaxDrops = 2
 MaxFails = 1
 MaxSeeks = 1
 MaxAgain = 1
 RetryLimit = 3
 Schemes = {"reg", "ocidir"}
 Vias = {"tarraw", "tarwalk", "tariter"}
 Withs = {TRUE, FALSE}
 Chunks = {1, 7}
 LyingSizes = TRUE
 LieMax = 2
 InlineData = FALSE
 Conc = 3
 Probes = FALSE
 Exts = {0}
 KeepSlots = FALSE
 TarUnverified = FALSE
 MTs = {TRUE, FALSE}
 DigestHdrs = {"absent", "echo", "served"}
 Trailers = {TRUE, FALSE}
 Sts = {"std"}
 DropKinds = {"ueof"}
INIT GInit
NEXT GNext
INVARIANTS Emit
CHECK_DEADLOCK FALSE
CONSTANTS
 Replies <- HonestReplies

\* round 5: every program of length <= 2 over the forms of the stream handed to WithLayerAddTar and the options that read or rewrite the added layer (breadth first, exhaustive: the same run checks the invariants of the design spec)
CONSTANTS
 Images <- ImagesForms
 Options <- OptsFormsWith
 MaxProg = 2
 Places = {"same-tag", "cross"}
 FixData = TRUE
 FixWriter = TRUE
 FixAdded = TRUE
 FixTag = TRUE
 FixClose = TRUE
 FixDesc = TRUE
 SrcKinds = {"reg", "dir"}
 Fine = FALSE
SPECIFICATION Spec
INVARIANTS Emit TypeOK PostAligned PostTruthful PostResolves PostNoop PostNoopIff
CHECK_DEADLOCK FALSE

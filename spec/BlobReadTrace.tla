---------------------------- MODULE BlobReadTrace ----------------------------
(* Trace spec for C01: replays the ndjson log recorded by harness/cmd/c01drv  *)
(* from the real regclient (RegClient.BlobGet and the readers it returns)     *)
(* through the monitor BlobReadProp.  Mirrors no code.                        *)
EXTENDS BlobReadProp, Json, IOUtils, Integers
Log == ndJsonDeserialize(IOEnv.VERIF_TRACE)
VARIABLE l
Ev == Log[l]
TInit == PInit /\ l = 1
TNext ==
  /\ l <= Len(Log)
  /\ l' = l + 1
  /\ \/ Ev.ev = "reset" /\ PReset(Ev.intended, Ev.size)
     \/ Ev.ev = "open" /\ POpen(Ev.err)
     \/ Ev.ev = "read" /\ PRead(Ev.syms, Ev.err)
     \/ Ev.ev = "seek0" /\ PSeek0(Ev.err)
     \/ Ev.ev = "end" /\ PEnd(Ev.sha_ok, Ev.len_ok, Ev.left, Ev.partial)
     \/ Ev.ev = "note" /\ PNote
TSpec == TInit /\ [][TNext]_<<pvars, l>>
\* batch mode (C01_trace_all.cfg): print the first violated obligation of every trace and carry on,
\* so that one TLC run partitions a whole batch; rejected traces are then confirmed under TSpec
Report == (bad = "" /\ bad' # "") => PrintT(<<"REJECT", l, bad'>>)
TSpecAll == TInit /\ [][TNext /\ Report]_<<pvars, l>>
HW == TLCSet(1, IF TLCGet(1) > l THEN TLCGet(1) ELSE l)
Accepted == PrintT(<<"HIGHWATER", TLCGet(1), Len(Log)>>)
ASSUME TLCSet(1, 0)
=============================================================================

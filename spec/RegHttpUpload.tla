---------------------------- MODULE RegHttpUpload ----------------------------
(***************************************************************************)
(* (D) design spec for C12, upload part: the chunk loop of                 *)
(* scheme/reg/blob.go:blobPutUploadChunked against a registry that may     *)
(* answer anything ("an upload session never repeats a request without     *)
(* making progress", "every client operation terminates").                 *)
(*                                                                         *)
(* Code mirrored (scheme/reg/blob.go:blobPutUploadChunked):                *)
(*   Fill    inner `for chunkStart >= bufStart+len(bufBytes) && !final`:   *)
(*           bufStart += len, io.ReadFull of the next chunk, finalChunk on *)
(*           a short read; then the re-slice when the registry accepted    *)
(*           only part of the buffer (capacity shrinks with the slice),    *)
(*           and the `chunkStart != bufStart` error                        *)
(*   Patch   the PATCH of the chunk and the classification of its reply:   *)
(*           201 | 4xx + Location + Range (retryCur++, no limit check) |   *)
(*           any other status but 202 (retryCur++, upload status GET,      *)
(*           limit check) | 202 (retryCur-- when positive); then           *)
(*           chunkStart := end of the reported Range + 1, or += chunkSize  *)
(*           when no Range is given; then (Guard, commit 94ee6b0) the      *)
(*           noProgress counter: consecutive rounds that do not advance    *)
(*           chunkStart are limited, whatever the status                   *)
(*   Finish  loop exit: digest / size check and the final PUT              *)
(* Each reghttp.Do inside is one logical request of RegHttp.tla; here only *)
(* its outcome matters (the environment picks it).                         *)
(*                                                                         *)
(* Deliberate deviations: the upload retry limit (10 in the code) is the   *)
(* constant UL; contents are abstracted to offsets; Location changes, the  *)
(* digest and OCI-Chunk-Min-Length are left out (C05 models them).         *)
(* Guard = TRUE is the code since commit 94ee6b0 (findings/C12-2.patch).   *)
(* Guard = FALSE is the code before (suspicion S2 and its 202/201 sibling: *)
(* endless repetition), kept to explain seeded/fixrev-C12-2.               *)
(***************************************************************************)
EXTENDS Integers, Sequences, TLC

CONSTANTS B,      \* blob length
          C,      \* chunk size
          UL,     \* upload retry limit
          Guard,  \* TRUE: as the code (noProgress counter); FALSE: before commit 94ee6b0
          MaxLen  \* generator: length of the scripted part of a reply script

VARIABLES pc, chunkStart, bufStart, bufLen, bufCap, chunkSize, final, rdPos, retryCur, stale,
          same,   \* consecutive PATCHes identical to the previous one (observation)
          lastP   \* the previous PATCH <<start, size>>
vars == <<pc, chunkStart, bufStart, bufLen, bufCap, chunkSize, final, rdPos, retryCur, stale, same, lastP>>

Min2(a, b) == IF a < b THEN a ELSE b

\* replies to PATCH; r = end of Range + 1 (the offset the registry claims to hold), 0 = no Range header
Offsets == 1..B
Replies == [k : {"202", "201", "4xxLR"}, r : Offsets \cup {0}]
             \cup [k : {"other"}, r : Offsets \cup {0}, st : {"ok", "fail"}]   \* then the status GET
             \cup {[k |-> "doerr", r |-> 0]}
ReplyOK(p) == p.k = "4xxLR" => p.r # 0            \* that branch needs a Range header

Init == /\ pc = "fill" /\ chunkStart = 0 /\ bufStart = 0 /\ bufLen = 0 /\ bufCap = C /\ chunkSize = 0
        /\ final = FALSE /\ rdPos = 0 /\ retryCur = 0 /\ stale = 0 /\ same = 0 /\ lastP = <<-1, 0>>

LoopCond == ~final \/ chunkStart < bufStart + bufLen

\* one pass of the loop head up to the PATCH
Fill ==
  /\ pc = "fill"
  /\ IF ~LoopCond THEN /\ pc' = "finish"
                       /\ UNCHANGED <<chunkStart, bufStart, bufLen, bufCap, chunkSize, final, rdPos, retryCur, stale, same, lastP>>
     ELSE
     \* inner loop (at most a few iterations: every iteration reads or hits the end)
     LET RECURSIVE Inner(_, _, _, _, _)
         Inner(bs, bl, cs, fin, rp) ==
           IF chunkStart >= bs + bl /\ ~fin
           THEN LET n == Min2(bufCap, B - rp) IN Inner(bs + bl, n, n, n < bufCap, rp + n)
           ELSE <<bs, bl, cs, fin, rp>>
         v  == Inner(bufStart, bufLen, chunkSize, final, rdPos)
         bs == v[1]  bl == v[2]  cs == v[3]  fin == v[4]  rp == v[5]
         slice == chunkStart > bs /\ chunkStart < bs + bl
         bs2 == IF slice THEN chunkStart ELSE bs
         bl2 == IF slice THEN bl - (chunkStart - bs) ELSE bl
         cs2 == IF slice THEN bl2 ELSE cs
     IN /\ bufStart' = bs2 /\ bufLen' = bl2 /\ chunkSize' = cs2 /\ final' = fin /\ rdPos' = rp
        /\ bufCap' = IF slice THEN bufCap - (chunkStart - bs) ELSE bufCap
        /\ pc' = IF cs2 > 0 /\ chunkStart # bs2 THEN "fail" ELSE IF cs2 > 0 THEN "patch" ELSE "fill"
        /\ UNCHANGED <<chunkStart, retryCur, stale, same, lastP>>

Patch(p) ==
  /\ pc = "patch" /\ ReplyOK(p)
  /\ same' = IF lastP = <<chunkStart, chunkSize>> THEN same + 1 ELSE 0
  /\ lastP' = <<chunkStart, chunkSize>>
  /\ LET giveup == \/ p.k = "doerr"
                   \/ (p.k = "other" /\ (retryCur + 1 > UL \/ p.st = "fail"))
         rc == CASE p.k \in {"4xxLR", "other"} -> retryCur + 1
                 [] p.k = "202" -> IF retryCur > 0 THEN retryCur - 1 ELSE 0
                 [] OTHER -> retryCur
         cs == IF p.r # 0 THEN p.r ELSE chunkStart + chunkSize
         st == IF cs <= chunkStart THEN stale + 1 ELSE 0
     IN IF giveup THEN /\ pc' = "fail" /\ UNCHANGED <<chunkStart, retryCur, stale>>
        ELSE IF Guard /\ st > UL THEN /\ pc' = "fail" /\ UNCHANGED <<chunkStart, retryCur, stale>>
        ELSE /\ pc' = "fill" /\ chunkStart' = cs /\ retryCur' = rc /\ stale' = st
  /\ UNCHANGED <<bufStart, bufLen, bufCap, chunkSize, final, rdPos>>

Finish == /\ pc = "finish"
          /\ pc' = IF chunkStart = B THEN "done" ELSE "fail"     \* size check, then the final PUT
          /\ UNCHANGED <<chunkStart, bufStart, bufLen, bufCap, chunkSize, final, rdPos, retryCur, stale, same, lastP>>

Next == Fill \/ Finish \/ \E p \in Replies : Patch(p)
Spec == Init /\ [][Next]_vars /\ WF_vars(Next)

\* ------------------------------------------------------------ properties
TypeOK == /\ pc \in {"fill", "patch", "finish", "done", "fail"}
          /\ chunkStart \in 0..(2 * B + C) /\ bufLen \in 0..C /\ bufCap \in 0..C /\ retryCur \in Nat
\* O2: the upload returns, whatever the registry answers
Terminates == <>(pc \in {"done", "fail"})
\* the same chunk is not sent again and again: bounded by the retry limit
NoEndlessRepeat == same <= 2 * (UL + 1)
\* state constraint for the runs with Guard = FALSE (the counter grows without bound)
Bounded == retryCur <= UL + 3 /\ same <= 2 * (UL + 1) + 1
=============================================================================

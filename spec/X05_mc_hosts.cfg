INIT MCInit
NEXT MCNext
INVARIANTS Ok MutexSane
CONSTRAINT Bounded
CHECK_DEADLOCK FALSE
CONSTANTS
 Hosts <- H2
 CredOf <- CredID
 Reqs <- ReqsH2
 NProcs = 2
 NCalls = 1
 RegMoods <- MoodsBearer
 TokKinds <- KindsCore
 Budget = 1
 RetryLimit = 5
 MaxTok = 4
 Fix <- AllFix
 Mut = {}

SPECIFICATION Spec
CONSTANTS
 Confs <- LiveConfs
 MaxPartial = 2
 MaxFaults = 1
 DefChunk = 2
 ChunkLimit = 6
 RetryLimit = 10
 HttpRetries = 5
 IgnoreInvalidDigest = FALSE
PROPERTY Terminates

CONSTANTS
 MaxLen = 2
 ReadSizes = {5}
 MaxDrops = 2
 MaxFails = 0
 MaxSeeks = 1
 MaxAgain = 0
 RetryLimit = 3
 Schemes = {"reg"}
 Vias = {"reader"}
 Withs = {FALSE}
 Chunks = {5}
 LyingSizes = FALSE
 LieMax = 1
 InlineData = FALSE
 Conc = 1
 Probes = FALSE
 Exts = {0}
 KeepSlots = FALSE
 TarUnverified = FALSE
 MTs = {TRUE}
 DigestHdrs = {"served"}
 Trailers = {FALSE}
 Sts = {"std"}
 DropKinds = {"ueof"}
INIT Init
NEXT Next
VIEW View
INVARIANTS TypeOK PCleanOk NeverSelfBlocked
CHECK_DEADLOCK FALSE

CONSTANTS
 Copies = {"c1", "c2"}
 Confs <- LockConfs
 MaxCloses = 2
 MaxOps = 1
 KeyMode = "resolve"
 LockRefTgt = TRUE
 CtxKinds = {"bg", "cancelled"}
 MarkCtx = TRUE
 Eager = FALSE
SPECIFICATION Spec
INVARIANTS TypeOK LocksNonNeg LocksExact
PROPERTIES O1
CHECK_DEADLOCK FALSE

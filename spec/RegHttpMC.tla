------------------------------ MODULE RegHttpMC ------------------------------
(***************************************************************************)
(* Model-checking instance of RegHttp for C12: the configuration space and *)
(* the composition of the design spec (D) with the property monitor (P):   *)
(* every step of (D) hands the events it emits (obs') to RegHttpProp, so   *)
(* TLC checks (D) |= (P) over all reply sequences within the bounds.       *)
(* Mirrors no code by itself (RegHttp.tla does).                           *)
(***************************************************************************)
EXTENDS RegHttp, SequencesExt
CONSTANTS Rs,        \* retry limits explored
          Prios,     \* priorities a host may get
          Meths,     \* request methods explored
          Directs,   \* values of Req.DirectURL explored: "none" and/or host names
          Waive      \* sequence handed to (P): <<>> or <<"prio-asc">>
VARIABLES m, bad
mvars == <<vars, m, bad>>

P == INSTANCE RegHttpProp

HostSeq == SetToSeq(Hosts)
Header == [ev |-> "reset", R |-> conf.R, D |-> 1, up |-> Up, hosts |-> HostSeq,
           prio |-> [i \in 1..Len(HostSeq) |-> conf.prio[HostSeq[i]]],
           slack |-> 0, waive |-> Waive, layer |-> 1]

\* one logical request: reads may use mirrors or not, may opt out of back-off (IgnoreErr), may
\* announce the expected length; writes always carry NoMirrors (as every scheme/reg literal should)
\* oneshot: the body function fails with ErrNotRetryable on its second call (a source that is no io.Seeker)
ReqOpts == {[meth |-> me, nomir |-> nm, ie |-> ie, expect |-> ex, oneshot |-> os, direct |-> di] :
              me \in Meths, nm \in BOOLEAN, ie \in BOOLEAN, ex \in BOOLEAN, os \in BOOLEAN, di \in Directs}
ReqOK(q) == /\ q.meth \in {"PUT", "DELETE"} => q.nomir /\ ~q.expect
            /\ q.meth = "HEAD" => ~q.expect
            /\ q.oneshot => q.meth = "PUT"
            \* a pagination link: a plain GET (the NoMirrors of the repaired literal is derived from LinkEntries)
            /\ q.direct # "none" => q.meth = "GET" /\ ~q.nomir /\ ~q.ie /\ ~q.expect
AllConfs == {[R |-> r, dmax |-> 4, prio |-> p, req |-> q] :
               r \in Rs, p \in [Hosts -> Prios], q \in [Ids -> {o \in ReqOpts : ReqOK(o)}]}
\* equal priorities: the part of the space where the code's host order is the documented one
EqConfs == {c \in AllConfs : \A g, h \in Hosts : c.prio[g] = c.prio[h]}
\* requests that use back-off and mirrors (sequences of plain reads on one client)
PlainConfs == {c \in EqConfs : \A i \in Ids : ~c.req[i].ie /\ ~c.req[i].nomir /\ ~c.req[i].oneshot /\ ~c.req[i].expect}
\* a listing request followed by the request for its pagination link
LinkConfs == {c \in EqConfs : /\ \E i \in Ids : c.req[i].direct # "none"
                              /\ \A i \in Ids : ~c.req[i].ie /\ ~c.req[i].expect /\ ~c.req[i].oneshot
                                                  /\ (c.req[i].direct = "none" => ~c.req[i].nomir)}
\* uploads whose body can be sent only once, followed by other traffic (throttle slots after a not-retryable abort)
OneShotConfs == {c \in EqConfs : \E i \in Ids : c.req[i].oneshot}
\* generator: at least two such uploads and one plain read, nothing opted out of back-off
NRConfs == {c \in EqConfs : /\ Cardinality({i \in Ids : c.req[i].oneshot}) >= 2
                            /\ \E i \in Ids : c.req[i].meth = "GET" /\ ~c.req[i].expect
                            /\ \A i \in Ids : ~c.req[i].ie /\ (c.req[i].meth = "PUT" => c.req[i].oneshot)
                                                /\ (c.req[i].meth = "GET" => ~c.req[i].nomir /\ ~c.req[i].expect)}

WaiveNone == <<>>
WaivePrio == <<"prio-asc">>

MCInit == Init /\ m = P!PHeader(Header) /\ bad = ""
Mon == m' = P!PFold(m, obs') /\ bad' = m'.bad
MCNext == Next /\ Mon
\* the client keeps running while a call is in progress (the caller and time need not move)
MCSpec == MCInit /\ [][MCNext]_mvars /\ WF_mvars((LoopExit \/ Attempt \/ BodyFail \/ CtxExit \/ Consume) /\ Mon)

Ok == bad = ""
=============================================================================

---------------------------- MODULE ImageCopyGen ----------------------------
(* Scenario generator for C03 / C04 / C14: behaviours of (D) ImageCopy with *)
(* a history of the steps an outside scheduler can impose on the real code: *)
(* which request is served next ("rel"), which one fails and how ("fault":  *)
(* 503 = ends the request, resetall = the connection fails on every         *)
(* attempt, 500 = transient, repeated by reghttp), when the caller's        *)
(* context is cancelled and when the process dies.  A request is named as   *)
(* the driver names it: (side, class, object or tag).  Used with -simulate; *)
(* every finished behaviour is printed once as a JSON scenario that          *)
(* harness/cmd/copydrv replays through the gates of the model registries.   *)
EXTENDS ImageCopyMC, Json
VARIABLE hist
gvars == <<vars, hist>>

TgtRef(t) == t.rp \o (IF t.tag # "" THEN t.tag ELSE t.node)
TgtObj(t) == t.rp \o t.node
SrcRef(t) == IF t.via = "top" THEN (IF conf.byDigest THEN t.node ELSE "S")
             ELSE IF t.tag # "" THEN t.tag ELSE t.node
ReqName(t) ==
  CASE t.pc = "headT"  -> <<"manifest_head", TgtRef(t)>>
    [] t.pc = "headT2" -> <<"manifest_get", TgtRef(t)>>
    [] t.pc = "headS"  -> <<"manifest_head", SrcRef(t)>>
    [] t.pc \in {"headS2", "getS"} -> <<"manifest_get", SrcRef(t)>>
    [] t.pc = "refs"   -> <<"referrers", t.node>>
    [] t.pc = "refs2"  -> <<"manifest_get", FbTag(t.node)>>
    [] t.pc = "dtagsR" -> <<"tag_list", "">>
    [] t.pc = "put"    -> <<"manifest_put", TgtRef(t)>>
    [] t.pc = "fbget"  -> <<"manifest_get", t.rp \o FbTag(SubjectOf(t.node))>>
    [] t.pc = "fbput"  -> <<"manifest_put", t.rp \o FbTag(SubjectOf(t.node))>>
    [] t.pc = "bhead"  -> <<"blob_head", TgtObj(t)>>
    [] t.pc = "bmount" -> <<"mount_post", TgtObj(t)>>
    [] t.pc \in {"bmdel", "bdel"} -> <<"upload_delete", "">>
    [] t.pc \in {"bget", "brewind"} -> <<"blob_get", t.node>>
    [] t.pc = "bpost"  -> <<"upload_post", TgtObj(t)>>
    [] t.pc = "bpost2" -> <<"upload_post", "">>
    [] t.pc \in {"bput", "bput2"} -> <<"upload_put", TgtObj(t)>>
    [] t.pc = "bpatch" -> <<"upload_patch", "">>
    [] OTHER -> <<"", "">>
SideOf(t) == IF SameRepo THEN "both" ELSE IF OnSrcSide(t.pc) THEN "src" ELSE "tgt"
\* what the step of task i means for the scheduler (pre-state, plus faults' to tell the outcome)
Label(i) ==
  LET t == tasks[i] IN
  IF IsRequest(i) /\ ~EffCancel(i)
  THEN <<[op |-> IF faults' > faults THEN "fault" ELSE "rel", host |-> SideOf(t), class |-> ReqName(t)[1],
          n |-> ReqName(t)[2],
          kind |-> IF faults' = faults THEN ""
                   ELSE IF tasks'[i].pc = t.pc THEN "500"
                   ELSE IF t.pc = "headT" /\ tasks'[i].pc = "done" THEN "resetall" ELSE "503"]>>
  ELSE <<>>

\* Environment events are thinned out at random (1 in Rare steps), otherwise a uniformly random walk
\* would cancel, crash or fault within the first few steps of almost every behaviour.
CONSTANT Rare
\* (the reference to hist keeps TLC from evaluating this once as a constant)
Sometimes == RandomElement(1..(Rare + 0 * Len(hist))) = 1
GInit == Init /\ hist = <<>>
GNext == \/ Live /\ \E i \in Ids : Allowed(i) /\ Step(i) /\ hist' = hist \o Label(i) /\ (faults' > faults => Sometimes)
         \/ Live /\ Return /\ hist' = hist
         \/ Live /\ Cancel /\ Sometimes /\ hist' = Append(hist, [op |-> "cancel", host |-> "", class |-> "", n |-> "", kind |-> ""])
         \/ Live /\ Crash /\ Sometimes /\ hist' = Append(hist, [op |-> "death", host |-> "", class |-> "", n |-> "", kind |-> ""])
GSpec == GInit /\ [][GNext]_gvars

Finished == crashed \/ (ret # "" /\ Quiet)
Emit == Finished => PrintT(<<"SCN", ToJson([conf |-> conf, ret |-> ret, crashed |-> crashed, faults |-> faults,
                                            cancelled |-> ctxC, steps |-> hist])>>)
=============================================================================

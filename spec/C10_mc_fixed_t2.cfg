CONSTANTS
 ProcSeq <- P1
 Confs <- SensibleConfs
 Modes = {"tag", "api", "oci"}
 Caches = {0, 1}
 Pages = {0, 1, 2}
 TagDels = {1}
 SubjSel = {"ror", "split"}
 Spells = {"dig"}
 Dopts = {"check"}
 Inits <- InitsMC0
 NAs <- NAsNone
 MaxOps = 5
 MaxConc = 1
 SameSubject = TRUE
 MixSameArt = FALSE
 LockPut = TRUE
 LockDel = TRUE
 LockDelEarly = TRUE
 ObsFilters = {"none", "t1", "x"}
 ListConc = FALSE
 CowIndex = TRUE
 InvAfterDel = TRUE
 NormKey = TRUE
 TrustApplied = FALSE
 PlainIds = {"n1"}
 FeatFromPut = FALSE
 LockStyle = "global"
INIT MInit
NEXT MNext
VIEW MView
INVARIANTS Ok TagExact CacheRLExact CacheCoherent LockSane NoApiTag TagMutex
CHECK_DEADLOCK FALSE

SPECIFICATION MCSpec
VIEW view
INVARIANTS DryNoChange ThrottleOk NotBlocked ReadSameMC
CONSTANTS
 Ungated = {}
 LeakOnErr = {}
 StubReads = {}
 NS = 1
 MaxLen = 2
 Pars = {0}
 Alphabet = "core"

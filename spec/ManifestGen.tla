---------------------------- MODULE ManifestGen ----------------------------
(* Scenario generators for C02 (one initial state per scenario, printed as JSON). *)
EXTENDS Manifest, Json
CONSTANTS MaxLen, Mode
VARIABLE x
Init == IF Mode = "edit" THEN x \in EditScenarios(MaxLen) ELSE x \in FetchScenarios
Next == UNCHANGED x
Emit == PrintT(<<"SCN", ToJson(x)>>)
=============================================================================

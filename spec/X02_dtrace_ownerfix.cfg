CONSTANTS
 Scenarios = {}
 MaxCrash = 0
 Variant = "ownerfix"
SPECIFICATION DSpec
CONSTRAINT HW
POSTCONDITION Reached
CHECK_DEADLOCK FALSE

------------------------------- MODULE AuthTrace -----------------------------
(* Trace spec for C11: replays the ndjson facts recorded by harness/cmd/c11drv *)
(* from the real regclient through the monitor AuthProp.  With the invariant   *)
(* Ok (C11_trace.cfg) the first violated obligation stops TLC; without it      *)
(* (C11_scan.cfg) every trace is evaluated and the rejected ones are listed    *)
(* (REJECT lines), so that one pass classifies thousands of traces.            *)
EXTENDS AuthProp, Json, IOUtils, Integers
Log == ndJsonDeserialize(IOEnv.VERIF_TRACE)
VARIABLES l,      \* next line
          tid,    \* id of the current trace
          badl,   \* line at which `bad` was latched
          alls    \* every <<line, violated obligation>> of the current trace (bad keeps only the first)
Ev == Log[l]
Mark == badl' = IF bad = "" /\ bad' # "" THEN l ELSE badl
TInit == PInit /\ l = 1 /\ tid = "" /\ badl = 0 /\ alls = {}
TNext ==
  /\ l <= Len(Log)
  /\ l' = l + 1
  /\ \/ Ev.ev = "reset" /\ PReset(Ev.tls) /\ tid' = Ev.trace /\ badl' = 0 /\ alls' = {}
     \/ Ev.ev = "msg" /\ PMsg(Ev.to, Ev.scheme, Ev.owners) /\ Mark /\ UNCHANGED tid
        /\ alls' = alls \cup {<<l, x>> : x \in MsgBads(Ev.to, Ev.scheme, Ev.owners)}
     \/ Ev.ev = "challenge" /\ PChallenge(Ev.from, Ev.realm) /\ UNCHANGED <<tid, badl, alls>>
     \/ Ev.ev = "log" /\ PLog(Ev.owners) /\ Mark /\ UNCHANGED tid
        /\ alls' = alls \cup {<<l, x>> : x \in LogBads(Ev.owners)}
     \/ Ev.ev = "errout" /\ PErr(Ev.owners) /\ Mark /\ UNCHANGED tid
        /\ alls' = alls \cup {<<l, x>> : x \in ErrBads(Ev.owners)}
     \/ Ev.ev \in {"logdone", "redirect", "location"} /\ PNote /\ UNCHANGED <<tid, badl, alls>>
     \/ Ev.ev = "done" /\ PNote /\ UNCHANGED <<tid, badl, alls>>
        /\ (bad # "" => PrintT(<<"FIRST", tid, badl, bad>>))
        /\ \A x \in alls : PrintT(<<"REJECT", tid, x[1], x[2]>>)
TSpec == TInit /\ [][TNext]_<<pvars, l, tid, badl, alls>>
HW == TLCSet(1, IF TLCGet(1) > l THEN TLCGet(1) ELSE l)
Accepted == PrintT(<<"HIGHWATER", TLCGet(1), Len(Log)>>)
ASSUME TLCSet(1, 0)
=============================================================================

------------------------------- MODULE AuthTrace -----------------------------
(* Trace spec for C11: replays the ndjson facts recorded by harness/cmd/c11drv *)
(* from the real regclient through the monitor AuthProp.  With the invariant   *)
(* Ok (C11_trace.cfg) the first violated obligation stops TLC; without it      *)
(* (C11_scan.cfg) every trace is evaluated and the rejected ones are listed    *)
(* (REJECT lines), so that one pass classifies thousands of traces.            *)
EXTENDS AuthProp, Json, IOUtils, Integers
Log == ndJsonDeserialize(IOEnv.VERIF_TRACE)
VARIABLES l,      \* next line
          tid,    \* id of the current trace
          badl    \* line at which `bad` was latched
Ev == Log[l]
Mark == badl' = IF bad = "" /\ bad' # "" THEN l ELSE badl
TInit == PInit /\ l = 1 /\ tid = "" /\ badl = 0
TNext ==
  /\ l <= Len(Log)
  /\ l' = l + 1
  /\ \/ Ev.ev = "reset" /\ PReset(Ev.tls) /\ tid' = Ev.trace /\ badl' = 0
     \/ Ev.ev = "msg" /\ PMsg(Ev.to, Ev.scheme, Ev.owners) /\ Mark /\ UNCHANGED tid
     \/ Ev.ev = "challenge" /\ PChallenge(Ev.from, Ev.realm) /\ UNCHANGED <<tid, badl>>
     \/ Ev.ev = "log" /\ PLog(Ev.owners) /\ Mark /\ UNCHANGED tid
     \/ Ev.ev \in {"logdone", "redirect"} /\ PNote /\ UNCHANGED <<tid, badl>>
     \/ Ev.ev = "done" /\ PNote /\ UNCHANGED <<tid, badl>>
        /\ (bad # "" => PrintT(<<"REJECT", tid, badl, bad>>))
TSpec == TInit /\ [][TNext]_<<pvars, l, tid, badl>>
HW == TLCSet(1, IF TLCGet(1) > l THEN TLCGet(1) ELSE l)
Accepted == PrintT(<<"HIGHWATER", TLCGet(1), Len(Log)>>)
ASSUME TLCSet(1, 0)
=============================================================================

------------------------------ MODULE RegSync ------------------------------
(***************************************************************************)
(* (D) design spec for C18: the decision automaton of `regsync once`,      *)
(* `regsync once --missing` and `regsync check` over small populations of  *)
(* a source and a target registry, implementation shaped: one action per   *)
(* registry request / critical section of cmd/regsync/root.go.             *)
(*                                                                         *)
(*   action        mirrors                                                 *)
(*   StartRun      runOnce / runCheck: loadConf, one goroutine per entry   *)
(*                 when defaults.parallel > 0, else (and always for check) *)
(*                 the entries one after the other (MayStep)               *)
(*   Begin         process: switch on s.Type                               *)
(*   Catalog       processRegistry: rc.RepoList + filterList(s.Repos)      *)
(*   Catalog2      processRegistry: the next page is empty, leave the loop *)
(*   NextRepo      processRegistry: loop over the filtered repositories    *)
(*   TagList       processRepo: rc.TagList(source) + filterList(s.Tags);   *)
(*                 "No matching tags found" returns nil                    *)
(*   TgtTags       processRepo (actionMissing): rc.TagList(target), drop the *)
(*                 tags that exist there                                   *)
(*   NextTag       processRepo: loop over the tags / processImage          *)
(*   HeadSrc       processRef: rc.ManifestHead(src)                        *)
(*   HeadTgt       processRef: rc.ManifestHead(tgt) and the decisions up to*)
(*                 the platform lookup: matches?, missing mode, media type *)
(*   Platform      getPlatformDigest: rc.ManifestGet(src) unless the index *)
(*                 digest is in manifestCache, manifest.GetPlatformDesc;   *)
(*                 second matches? test; actionCheck returns here / above  *)
(*   Acquire       opts.throttle.Acquire (pqueue, Max = max(parallel,1))   *)
(*   BkRead        "run backup": ImageCopy(tgt, backupRef) reads the tag   *)
(*   BkWrite       ... and finally puts the backup tag (errors only warn)  *)
(*   CpRead        ImageCopy(src, tgt): reads the source (by digest when a *)
(*                 platform was resolved: src.Digest is set)               *)
(*   DtWrite       image.go imageCopyOpt: digest tags of the copied manifest *)
(*                 are copied before the manifest itself is put            *)
(*   CpWrite       imageCopyOpt: ManifestPut(tgt) unless equal and not     *)
(*                 forced; throttleDone (deferred)                         *)
(*   Fault         a request of the run is answered with an error status   *)
(*                 (round 5): `fault` = [reg, cls, nth, kind, hit] makes   *)
(*                 the nth request of class cls at registry reg fail.  The *)
(*                 classes map to the request positions of this automaton  *)
(*                 (SrcPos / TgtPos); what the code does with the error:   *)
(*                 RepoList / TagList(source) / ManifestHead(source) /     *)
(*                 getPlatformDigest / ImageCopy errors are returned and   *)
(*                 joined (the entry goes on with the next tag, abortOnErr *)
(*                 is off; runOnce exits 1); a failing TagList(target) in  *)
(*                 missing mode is only logged (no tag is dropped from the *)
(*                 list); transient kinds ("500once", "reset1") are retried*)
(*                 by regclient and change nothing                         *)
(*   EndRun / Idle the process exits; the observer compares before / after *)
(*   EnvMove       the environment moves / deletes a source tag between runs *)
(*   FilterList    filterList: "^(?:" + filter + ")$" (Anchoring = "fixed",*)
(*                 the code since 798ad2f) or, as found, "^" + filter + "$"*)
(*                 (Anchoring = "asis": a top level alternation a|b|c is   *)
(*                 then bound only at its outer ends, finding C18-1)       *)
(*   Platform      PlatMatch = "fixed" (since 749f3ad) / "asis" (finding   *)
(*                 C18-2): what tgtMatches means after the platform lookup *)
(* The repaired readings are the default of every configuration; the as    *)
(* found ones remain as switches for the expected-counterexample configs   *)
(* (C18_mc_s14.cfg, C18_mc_bkforce.cfg), which explain the reverse seeds.  *)
(*                                                                         *)
(* Completeness: the fifth component of a tag tuple; only image H is ever  *)
(* incomplete (target side repositories hold it with a layer missing); a   *)
(* copy from the source repairs it, forceRecursive makes a matching target *)
(* be copied again, a backup copy of a holed image fails with a warning.   *)
(* Deliberate deviations: an ImageCopy is two steps (read the source       *)
(* reference, write the tag) - blobs, child manifests and their order are  *)
(* C03/C04's subject and every copy is taken to be complete; registry      *)
(* errors: one scripted fault per run, on the mirror path only (a failing  *)
(* ManifestHead(target) is read as "absent" and a failing backup copy only *)
(* warns - both deliberate in the code - so faults on those requests are   *)
(* not part of the scenario space); referrers requests are not positions   *)
(* of this automaton; rate limit*)
(* waiting, hooks, server mode and abortOnErr are left out; tag and        *)
(* repository lists are one page; referrers are not visible at tag level.  *)
(* The postconditions are RegSyncDefs!EndBad / OverwriteBad, i.e. exactly  *)
(* what the property monitor evaluates on real traces.                     *)
(***************************************************************************)
EXTENDS RegSyncDefs, Integers, TLC

CONSTANTS Scenarios,   \* sequence of sets of [conf, src, tgt, plan]: src/tgt sets of <<repo, tag, img>>,
                       \* plan a sequence of [op, mode, repo, tag, img] (op: run | move | del)
                       \* (a sequence of sets: TLC's union of large sets of records is quadratic)
          Anchoring,   \* "fixed" (current code) | "asis" (as found): how filterList binds an expression (C18-1 / S14)
          PlatMatch,   \* "fixed" (current code) | "asis" (as found): tgtMatches after the platform lookup (C18-2)
          Chars,       \* name -> sequence of characters (only needed for Anchoring = "asis")
          NameOrder    \* sequence of all tag and repository names in the registry's listing order

VARIABLES conf, plan, world, phase, mode, proc, held, cache, errs,
          before, puts, nw, exitc, bkbad, nrun, fault
vars == <<conf, plan, world, phase, mode, proc, held, cache, errs, before, puts, nw, exitc, bkbad, nrun, fault>>

\* no fault in this run
NoF == [reg |-> "", cls |-> "", nth |-> 0, kind |-> "", hit |-> FALSE]

\* tags / repositories no entry names; the driver puts the same content into the model registries
Bystanders == {<<"tgt", "keep", "v1", "C", 1>>, <<"tgt", "keep", "stable", "X", 1>>,
               <<"oth", "r1", "v1", "B", 1>>, <<"oth", "bk/r1", "latest-old", "C", 1>>}

\* ------------------------------------------------------------ filterList
IsPre(s, t) == Len(s) <= Len(t) /\ SubSeq(t, 1, Len(s)) = s
IsSuf(s, t) == Len(s) <= Len(t) /\ SubSeq(t, Len(t) - Len(s) + 1, Len(t)) = s
IsIn(s, t) == \E i \in 0..(Len(t) - Len(s)) : SubSeq(t, i + 1, i + Len(s)) = s
\* regexp.Compile(...).MatchString(t) for the spellings the scenarios use: the whole expression is
\* grouped before it is anchored; as found ("asis") only the outer alternatives were anchored
CodeMatch(f, t) ==
  IF Anchoring = "asis" /\ f.style = "alt" /\ Len(f.tags) >= 2
  THEN LET n == Len(f.tags) IN
       \/ IsPre(Chars[f.tags[1]], Chars[t])
       \/ IsSuf(Chars[f.tags[n]], Chars[t])
       \/ \E i \in 2..(n - 1) : IsIn(Chars[f.tags[i]], Chars[t])
  ELSE InS(t, f.tags)
FilterList(allow, deny, in) ==
  LET allowed == IF Len(allow) > 0 THEN {x \in in : \E i \in DOMAIN allow : CodeMatch(allow[i], x)} ELSE in
  IN {x \in allowed : ~\E i \in DOMAIN deny : CodeMatch(deny[i], x)}
Sorted(S) == SelectSeq(NameOrder, LAMBDA x : x \in S)

\* ------------------------------------------------------------ processes
P0 == [pc |-> "idle", repos |-> <<>>, tags |-> <<>>, sr |-> "", st |-> "", tr |-> "", tt |-> "",
       mSrc |-> "", mTgt |-> "", tEx |-> FALSE, tMa |-> FALSE, use |-> "", img |-> ""]
Ent(k) == conf.entries[k]
Max1 == IF conf.parallel > 0 THEN conf.parallel ELSE 1
Sequential == conf.parallel = 0 \/ mode = "check"
MayStep(k) == phase = "run" /\ (Sequential => \A j \in DOMAIN proc : j < k => proc[j].pc = "done")
Set(k, r) == proc' = [proc EXCEPT ![k] = r]
Clear(p) == [p EXCEPT !.mSrc = "", !.mTgt = "", !.tEx = FALSE, !.tMa = FALSE, !.use = "", !.img = ""]
SRef(p) == <<"src", p.sr, p.st>>
TgRef(k) == <<Ent(k).treg, proc[k].tr, proc[k].tt>>
Pr(k) == Pair(k, proc[k].sr, proc[k].st, Ent(k).treg, proc[k].tr, proc[k].tt)
TgtTagsOf(reg, repo) == {x[3] : x \in {y \in world : y[1] = reg /\ y[2] = repo}}

keepW == UNCHANGED <<world, puts, nw, bkbad>>
keepR == UNCHANGED <<conf, plan, phase, mode, before, exitc, nrun>>

\* Image H is held with a layer missing by every target side repository that has it (complete = 0)
\* until a copy from the source brings the layer along - for all tags of that repository.
MirrorRepos == {"mirror/r1", "mirror/r2"}
TargetSide(reg, repo) == reg # "src" \/ repo \in MirrorRepos
Repair(st, r, img) == IF img = "H" THEN {IF x[1] = r[1] /\ x[2] = r[2] /\ x[4] = "H" THEN <<x[1], x[2], x[3], x[4], 1>> ELSE x : x \in st}
                      ELSE st
\* a tag level write reaches a registry: the monitor's obligation O3 is evaluated on the spot
WriteC(r, img, c) ==
  /\ world' = IF c = 1 THEN Repair(SetTag(world, r, img, 1), r, img) ELSE SetTag(world, r, img, 0)
  /\ puts' = puts \cup {r}
  /\ nw' = nw + 1
  /\ bkbad' = IF bkbad # "" THEN bkbad ELSE OverwriteBad(conf, before, world, r, img)
Write(r, img) == WriteC(r, img, 1)

Load(s) ==
  /\ conf' = s.conf /\ plan' = s.plan
  /\ world' = {<<"src", x[1], x[2], x[3], IF x[3] = "H" /\ TargetSide("src", x[1]) THEN 0 ELSE 1>> : x \in s.src}
               \cup {<<"tgt", x[1], x[2], x[3], IF x[3] = "H" THEN 0 ELSE 1>> : x \in s.tgt} \cup Bystanders
  /\ proc' = [k \in DOMAIN s.conf.entries |-> P0]
  /\ phase' = "idle"
  /\ UNCHANGED <<mode, held, cache, errs, before, puts, nw, exitc, bkbad, nrun, fault>>

Init == /\ phase = "setup" /\ conf = <<>> /\ plan = <<>> /\ world = {} /\ mode = "" /\ proc = <<>>
        /\ held = {} /\ cache = {} /\ errs = {} /\ before = {} /\ puts = {} /\ nw = 0 /\ exitc = 0
        /\ bkbad = "" /\ nrun = 0 /\ fault = NoF
Setup == phase = "setup" /\ \E i \in DOMAIN Scenarios : \E s \in Scenarios[i] : Load(s)

StartRun ==
  /\ phase = "idle" /\ plan # <<>> /\ Head(plan).op = "run"
  /\ phase' = "run" /\ mode' = Head(plan).mode /\ plan' = Tail(plan) /\ nrun' = nrun + 1
  /\ before' = world /\ puts' = {} /\ nw' = 0 /\ errs' = {} /\ held' = {} /\ cache' = {} /\ exitc' = 0
  /\ proc' = [k \in DOMAIN proc |-> [P0 EXCEPT !.pc = "start"]]
  /\ fault' = IF "fault" \in DOMAIN Head(plan) THEN Head(plan).fault ELSE NoF
  /\ UNCHANGED <<conf, world, bkbad>>

EnvMove ==
  /\ phase = "idle" /\ plan # <<>> /\ Head(plan).op \in {"move", "del"}
  /\ LET s == Head(plan) IN
     world' = SetTag(world, <<"src", s.repo, s.tag>>, IF s.op = "del" THEN "" ELSE s.img, 1)
  /\ plan' = Tail(plan)
  /\ UNCHANGED <<conf, phase, mode, proc, held, cache, errs, before, puts, nw, exitc, bkbad, nrun, fault>>

Begin(k) ==
  /\ MayStep(k) /\ proc[k].pc = "start"
  /\ LET e == Ent(k) IN
     Set(k, CASE e.type = "image" -> [proc[k] EXCEPT !.pc = "headsrc", !.sr = e.srepo, !.st = e.stag, !.tr = e.trepo, !.tt = e.ttag]
              [] e.type = "repository" -> [proc[k] EXCEPT !.pc = "taglist", !.sr = e.srepo, !.tr = e.trepo]
              [] e.type = "registry" -> [proc[k] EXCEPT !.pc = "catalog"])
  /\ keepW /\ keepR /\ UNCHANGED <<held, cache, errs>>

Catalog(k) ==
  /\ MayStep(k) /\ proc[k].pc = "catalog"
  /\ Set(k, [proc[k] EXCEPT !.pc = "nextrepo", !.repos = Sorted(FilterList(Ent(k).rallow, Ent(k).rdeny, SrcRepos(world)))])
  /\ keepW /\ keepR /\ UNCHANGED <<held, cache, errs>>

NextRepo(k) ==
  /\ MayStep(k) /\ proc[k].pc = "nextrepo"
  /\ Set(k, IF proc[k].repos = <<>> THEN [proc[k] EXCEPT !.pc = "catalog2"]
            ELSE [proc[k] EXCEPT !.pc = "taglist", !.sr = Head(proc[k].repos), !.tr = Head(proc[k].repos), !.repos = Tail(proc[k].repos)])
  /\ keepW /\ keepR /\ UNCHANGED <<held, cache, errs>>

Catalog2(k) ==
  /\ MayStep(k) /\ proc[k].pc = "catalog2"
  /\ Set(k, [proc[k] EXCEPT !.pc = "done", !.sr = "", !.tr = ""])
  /\ keepW /\ keepR /\ UNCHANGED <<held, cache, errs>>

AfterTags(k) == IF Ent(k).type = "registry" THEN "nextrepo" ELSE "done"

TagList(k) ==
  /\ MayStep(k) /\ proc[k].pc = "taglist"
  /\ LET ts == Sorted(FilterList(Ent(k).allow, Ent(k).deny, SrcTags(world, proc[k].sr))) IN
     Set(k, IF ts = <<>> THEN [proc[k] EXCEPT !.pc = AfterTags(k)]
            ELSE [proc[k] EXCEPT !.pc = IF mode = "missing" THEN "tgttags" ELSE "nexttag", !.tags = ts])
  /\ keepW /\ keepR /\ UNCHANGED <<held, cache, errs>>

TgtTags(k) ==
  /\ MayStep(k) /\ proc[k].pc = "tgttags"
  /\ Set(k, [proc[k] EXCEPT !.pc = "nexttag", !.tags = SelectSeq(proc[k].tags, LAMBDA t : t \notin TgtTagsOf(Ent(k).treg, proc[k].tr))])
  /\ keepW /\ keepR /\ UNCHANGED <<held, cache, errs>>

NextTag(k) ==
  /\ MayStep(k) /\ proc[k].pc = "nexttag"
  /\ Set(k, IF proc[k].tags = <<>> THEN [Clear(proc[k]) EXCEPT !.pc = AfterTags(k), !.st = "", !.tt = ""]
            ELSE [Clear(proc[k]) EXCEPT !.pc = "headsrc", !.st = Head(proc[k].tags), !.tt = Head(proc[k].tags), !.tags = Tail(proc[k].tags)])
  /\ keepW /\ keepR /\ UNCHANGED <<held, cache, errs>>

\* this tag is finished (skipped, checked, copied or failed): image entries end here
Finish(p, k) == [Clear(p) EXCEPT !.pc = IF Ent(k).type = "image" THEN "done" ELSE "nexttag"]

HeadSrc(k) ==
  /\ MayStep(k) /\ proc[k].pc = "headsrc"
  /\ LET m == Img(world, SRef(proc[k])) IN
     IF m = "" THEN Set(k, Finish(proc[k], k)) /\ errs' = errs \cup {k}
     ELSE Set(k, [proc[k] EXCEPT !.pc = "headtgt", !.mSrc = m]) /\ UNCHANGED errs
  /\ keepW /\ keepR /\ UNCHANGED <<held, cache>>

\* "Image sync needed" is logged; a check run returns, everything else queues for the throttle
Needed(p, k) == IF mode = "check" THEN Finish(p, k) ELSE [p EXCEPT !.pc = "acquire"]

HeadTgt(k) ==
  /\ MayStep(k) /\ proc[k].pc = "headtgt"
  /\ LET e == Ent(k)
         p == proc[k]
         t == Img(world, TgRef(k))
         ex == t # ""
         ma == ex /\ t = p.mSrc
         q == [p EXCEPT !.mTgt = t, !.tEx = ex, !.tMa = ma]
     IN Set(k, IF ma /\ (e.fastCheck \/ ~(e.force \/ e.referrers \/ e.digestTags)) THEN Finish(p, k)
               ELSE IF ex /\ mode = "missing" THEN Finish(p, k)
               ELSE IF ~MtOk(e, p.mSrc) THEN Finish(p, k)
               ELSE IF IsList(p.mSrc) /\ e.platform # "" THEN [q EXCEPT !.pc = "platform"]
               ELSE Needed(q, k))
  /\ keepW /\ keepR /\ UNCHANGED <<held, cache, errs>>

Platform(k) ==
  /\ MayStep(k) /\ proc[k].pc = "platform"
  /\ LET e == Ent(k)
         p == proc[k]
         c == Resolve(p.mSrc, e.platform)
         \* tgtMatches describes the manifest that will be written; as found ("asis"):
         \* `if tgtExists && platDigest == digest(mTgt) { tgtMatches = true }` kept a TRUE from the
         \* comparison with the index
         ma == IF PlatMatch = "asis" THEN p.tMa \/ (p.tEx /\ c = p.mTgt) ELSE p.tEx /\ c = p.mTgt
     IN IF c = "none" THEN Set(k, Finish(p, k)) /\ errs' = errs \cup {k}
        ELSE /\ Set(k, IF ma /\ ~e.force THEN Finish(p, k) ELSE Needed([p EXCEPT !.use = c, !.tMa = ma], k))
             /\ UNCHANGED errs
  /\ cache' = cache \cup {proc[k].mSrc}
  /\ keepW /\ keepR /\ UNCHANGED held

Acquire(k) ==
  /\ MayStep(k) /\ proc[k].pc = "acquire"
  /\ Cardinality(held) < Max1
  /\ held' = held \cup {k}
  /\ Set(k, [proc[k] EXCEPT !.pc = IF proc[k].tEx /\ ~proc[k].tMa /\ HasBackup(Ent(k)) THEN "bkread" ELSE "cpread"])
  /\ keepW /\ keepR /\ UNCHANGED <<cache, errs>>

BkRead(k) ==
  /\ MayStep(k) /\ proc[k].pc = "bkread"
  /\ LET b == Img(world, TgRef(k))
         r == BackupRef(Ent(k), Pr(k))
         \* a holed image cannot be copied to another repository ("Failed to backup existing image",
         \* the run goes on); inside one repository ImageCopy moves no blobs and just tags it
         fails == Compl(world, TgRef(k)) = 0 /\ <<r[1], r[2]>> # <<Ent(k).treg, proc[k].tr>>
     IN Set(k, IF b = "" \/ fails THEN [proc[k] EXCEPT !.pc = "cpread"] ELSE [proc[k] EXCEPT !.pc = "bkwrite", !.img = b])
  /\ keepW /\ keepR /\ UNCHANGED <<held, cache, errs>>

BkWrite(k) ==
  /\ MayStep(k) /\ proc[k].pc = "bkwrite"
  /\ LET r == BackupRef(Ent(k), Pr(k)) IN
     IF Img(world, r) # proc[k].img THEN WriteC(r, proc[k].img, Compl(world, TgRef(k))) ELSE keepW
  /\ Set(k, [proc[k] EXCEPT !.pc = "cpread", !.img = ""])
  /\ keepR /\ UNCHANGED <<held, cache, errs>>

\* the digest tags imageCopyOpt brings along with image i from repository sr
DtOf(i, sr) == IF i = "A" THEN {d \in DigTags : Has(world, <<"src", sr, d>>)} ELSE {}

CpRead(k) ==
  /\ MayStep(k) /\ proc[k].pc = "cpread"
  /\ LET p == proc[k]
         i == IF p.use # "" THEN p.use ELSE Img(world, SRef(p))
     IN IF i = "" THEN Set(k, Finish(p, k)) /\ errs' = errs \cup {k} /\ held' = held \ {k}
        ELSE /\ Set(k, [p EXCEPT !.pc = IF Ent(k).digestTags /\ DtOf(i, p.sr) # {} THEN "dtwrite" ELSE "cpwrite", !.img = i])
             /\ UNCHANGED <<errs, held>>
  /\ keepW /\ keepR /\ UNCHANGED cache

DtWrite(k) ==
  /\ MayStep(k) /\ proc[k].pc = "dtwrite"
  /\ LET p == proc[k]
         d == CHOOSE x \in DtOf(p.img, p.sr) : TRUE
         i == Img(world, <<"src", p.sr, d>>)
     IN IF Img(world, <<Ent(k).treg, p.tr, d>>) # i \/ Ent(k).force THEN Write(<<Ent(k).treg, p.tr, d>>, i) ELSE keepW
  /\ Set(k, [proc[k] EXCEPT !.pc = "cpwrite"])
  /\ keepR /\ UNCHANGED <<held, cache, errs>>

CpWrite(k) ==
  /\ MayStep(k) /\ proc[k].pc = "cpwrite"
  /\ IF Img(world, TgRef(k)) # proc[k].img \/ Ent(k).force THEN Write(TgRef(k), proc[k].img) ELSE keepW
  /\ Set(k, Finish(proc[k], k))
  /\ held' = held \ {k}
  /\ keepR /\ UNCHANGED <<cache, errs>>

EndRun ==
  /\ phase = "run" /\ \A k \in DOMAIN proc : proc[k].pc = "done"
  /\ phase' = "ended" /\ exitc' = IF errs = {} THEN 0 ELSE 1
  /\ UNCHANGED <<conf, plan, world, mode, proc, held, cache, errs, before, puts, nw, bkbad, nrun, fault>>

Idle ==
  /\ phase = "ended"
  /\ phase' = "idle" /\ mode' = "" /\ before' = {} /\ puts' = {} /\ nw' = 0 /\ exitc' = 0 /\ errs' = {} /\ cache' = {}
  /\ proc' = [k \in DOMAIN proc |-> P0]
  /\ fault' = NoF
  /\ UNCHANGED <<conf, plan, world, held, bkbad, nrun>>

Finished == phase = "idle" /\ plan = <<>>
Stop == Finished /\ UNCHANGED vars

Normal(k) == \/ Begin(k) \/ Catalog(k) \/ NextRepo(k) \/ Catalog2(k) \/ TagList(k) \/ TgtTags(k) \/ NextTag(k)
           \/ HeadSrc(k) \/ HeadTgt(k) \/ Platform(k) \/ Acquire(k) \/ BkRead(k) \/ BkWrite(k)
           \/ CpRead(k) \/ DtWrite(k) \/ CpWrite(k)

\* ------------------------------------------------------------ a scripted fault (round 5)
\* the request positions of this automaton at which a request of the class is sent: to the source ...
SrcPos(cls) == CASE cls = "catalog" -> {"catalog", "catalog2"}
                 [] cls = "tag_list" -> {"taglist"}
                 [] cls = "manifest_head" -> {"headsrc"}
                 [] cls = "manifest_get" -> {"platform", "cpread"}
                 [] cls = "blob_get" -> {"cpread"}
                 [] OTHER -> {}
\* ... and to the registry of the entry's target
TgtPos(cls) == CASE cls = "tag_list" -> {"tgttags"}
                 [] cls \in {"blob_head", "upload_post", "upload_patch", "upload_put", "manifest_put"} -> {"cpwrite"}
                 [] OTHER -> {}
Transient(kind) == kind \in {"500once", "reset1"}
\* a failing HEAD of a blob at the target is read as "not there": the blob is uploaded, no error
SoftCls(cls) == cls = "blob_head"
\* entry k is about to send a request of the faulted class to the faulted registry
AtFault(k) ==
  /\ fault.nth >= 1 /\ MayStep(k)
  /\ \/ fault.reg = "src" /\ proc[k].pc \in SrcPos(fault.cls)
     \/ fault.reg = Ent(k).treg /\ proc[k].pc \in TgtPos(fault.cls)
  /\ proc[k].pc = "platform" => proc[k].mSrc \notin cache
  /\ proc[k].pc = "cpwrite" => (Img(world, TgRef(k)) # proc[k].img \/ Ent(k).force)
\* what the code does with the error at each position
Fire(k) ==
  LET p == proc[k]
      pc == p.pc
  IN /\ fault' = [fault EXCEPT !.nth = 0, !.hit = TRUE]
     /\ Set(k, CASE pc \in {"catalog", "catalog2"} -> [p EXCEPT !.pc = "done", !.sr = "", !.tr = "", !.repos = <<>>]
                 [] pc = "taglist" -> [p EXCEPT !.pc = AfterTags(k)]
                 [] pc = "tgttags" -> [p EXCEPT !.pc = "nexttag"]
                 [] OTHER -> Finish(p, k))
     /\ errs' = IF pc = "tgttags" THEN errs ELSE errs \cup {k}
     /\ held' = held \ {k}
     /\ keepW /\ keepR /\ UNCHANGED cache
Step(k) == IF AtFault(k)
           THEN IF fault.nth > 1 THEN Normal(k) /\ fault' = [fault EXCEPT !.nth = @ - 1]
                ELSE IF Transient(fault.kind) \/ SoftCls(fault.cls) THEN Normal(k) /\ fault' = [fault EXCEPT !.nth = 0, !.hit = TRUE]
                ELSE Fire(k)
           ELSE Normal(k) /\ UNCHANGED fault
Next == \/ Setup \/ StartRun \/ EnvMove \/ EndRun \/ Idle \/ Stop
        \/ \E k \in DOMAIN proc : Step(k)
Spec == Init /\ [][Next]_vars /\ WF_vars(Next)

\* ------------------------------------------------------------ properties of the design
\* the statement (O1, O2, O4 of RegSyncProp) in the state the observer compares
PostOk == phase = "ended" => EndBad(conf, mode, exitc, before, world, puts, nw, nw) = ""
\* O3, evaluated at every write
BackupOk == bkbad = ""
ThrottleBound == phase # "setup" => Cardinality(held) <= Max1
HeldInSection == \A k \in DOMAIN proc : (k \in held) <=> proc[k].pc \in {"bkread", "bkwrite", "cpread", "dtwrite", "cpwrite"}
CheckWritesNothing == mode = "check" => nw = 0
\* the run ends with every entry done whatever the interleaving
Terminates == <>Finished
=============================================================================

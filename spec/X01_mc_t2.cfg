CONSTANTS
  Ops <- MCOps
  Hosts <- MCHosts
  Confs <- MCConfs
  RetryLimit <- MCRetry
  LeakOn <- MCLeak
  NOps = 3
  MaxFail = 1
  MaxRestart = 1
  Limits = {1}
  Leak = ""
SPECIFICATION Spec
INVARIANTS TypeOK SlotBound SendUnderSlot InnerUnderSlot NoLeak NoneLeftWaiting NoIdleSlot
CHECK_DEADLOCK FALSE

CONSTANTS
 Confs <- MCConfs
 FixWaitErr = TRUE
 Reduce = FALSE
 MCShapes = {"img", "schema1"}
 MCPairs = {"tworeg", "samereg"}
 MCOpts <- MCOptsDefault
 MCFeats <- MCFeatsMount3
 MCInit = "all"
 MCTag0 = {"none"}
 MCByDigest = {FALSE}
 MCTgtByDigest = {FALSE}
 MaxFaults = 1
 AllowCancel = FALSE
 AllowCrash = FALSE
 Cap = 0
INIT Init
NEXT Next
INVARIANTS TypeOK InvC04 InvFb InvFbListed InvC03 InvC14 InvC14T InvFailTag

----------------------------- MODULE HostConfMC -----------------------------
(***************************************************************************)
(* X04 - model checking of (D) HostConf against (P) HostConfProp.          *)
(* Every behaviour applies up to MaxOpts configuration sources drawn from  *)
(* a finite universe (WithConfigHost entries, WithConfigHostDefault,       *)
(* docker config files); after every source the monitor is fed what the    *)
(* user wrote and then judges every request observation (D) predicts for   *)
(* every probe registry (Ping and ManifestHead).  bad # "" = (D) violates  *)
(* the statement.  With Fix = {} (the code as found) TLC reports the known *)
(* defects as counterexamples; with all repairs the invariant holds.       *)
(* MergeOK checks the one-step obligation of Host.Merge over every pair of *)
(* records of a product universe (one TLC initial state per pair).         *)
(***************************************************************************)
EXTENDS HostConf, HostConfProp

CONSTANTS MaxOpts,
          UNames, UTls, UCred, UHostname, UMirrors, UPrefix,   \* WithConfigHost entries
          UDefTls, UDefCred,                                    \* WithConfigHostDefault
          UDockKey, UDockCred,                                  \* docker config entries
          ProbeRegs

CredRec(k) ==
  CASE k = "none"  -> [user |-> "",   pass |-> "",   token |-> "",   helper |-> ""]
    [] k = "up1"   -> [user |-> "u1", pass |-> "p1", token |-> "",   helper |-> ""]
    [] k = "up2"   -> [user |-> "u2", pass |-> "p2", token |-> "",   helper |-> ""]
    [] k = "u1"    -> [user |-> "u1", pass |-> "",   token |-> "",   helper |-> ""]
    [] k = "tok1"  -> [user |-> "",   pass |-> "",   token |-> "t1", helper |-> ""]
    [] k = "tok2"  -> [user |-> "",   pass |-> "",   token |-> "t2", helper |-> ""]
    [] k = "h1"    -> [user |-> "",   pass |-> "",   token |-> "",   helper |-> "h1"]
    [] k = "h2"    -> [user |-> "",   pass |-> "",   token |-> "",   helper |-> "h2"]
    [] k = "up1h1" -> [user |-> "u1", pass |-> "p1", token |-> "",   helper |-> "h1"]
WithCred(h, k) == [h EXCEPT !.user = CredRec(k).user, !.pass = CredRec(k).pass,
                            !.token = CredRec(k).token, !.helper = CredRec(k).helper]

HostSources ==
  {[k |-> "host", es |-> <<WithCred([Z EXCEPT !.name = n, !.tls = t, !.hostname = hn,
                                             !.mirrors = mi, !.prefix = pre], ck)>>] :
     n \in UNames, t \in UTls, ck \in UCred, hn \in UHostname, mi \in UMirrors, pre \in UPrefix}
DefSources ==
  {[k |-> "default", d |-> WithCred([Z EXCEPT !.tls = t], ck)] : t \in UDefTls, ck \in UDefCred}
\* one auths entry (kinds with a helper also get a credHelpers entry; "h1" alone is a credHelpers
\* entry without auths entry)
DockerConf(key, ck) ==
  [auths |-> IF ck \in {"h1", "h2"} THEN <<>>
             ELSE <<[key |-> key, user |-> CredRec(ck).user, pass |-> CredRec(ck).pass,
                     token |-> CredRec(ck).token]>>,
   helpers |-> IF CredRec(ck).helper = "" THEN <<>> ELSE <<[key |-> key, helper |-> CredRec(ck).helper]>>,
   store |-> "", list |-> <<>>]
DockerSources == {[k |-> "docker", dc |-> DockerConf(key, ck)] : key \in UDockKey, ck \in UDockCred}
Sources == HostSources \cup DefSources \cup DockerSources

\* what the monitor is told about a source: exactly what the user wrote
RECURSIVE FoldHosts(_, _, _)
FoldHosts(s, es, i) == IF i > Len(es) THEN s ELSE FoldHosts(FoldHost(s, es[i]), es, i + 1)
RECURSIVE FoldAuths(_, _, _)
FoldAuths(s, dc, i) ==
  IF i > Len(dc.auths) THEN s
  ELSE FoldAuths(FoldDocker(s, dc.auths[i].key, dc.auths[i].user, dc.auths[i].pass, dc.auths[i].token,
                            HelperFor(dc, dc.auths[i].key)), dc, i + 1)
RECURSIVE FoldHelpers(_, _, _)
FoldHelpers(s, dc, i) ==
  IF i > Len(dc.helpers) THEN s
  ELSE FoldHelpers(IF HasAuth(dc, dc.helpers[i].key) THEN s
                   ELSE FoldDocker(s, dc.helpers[i].key, "", "", "", dc.helpers[i].helper), dc, i + 1)
RECURSIVE FoldStore(_, _, _)
FoldStore(s, dc, i) ==
  IF dc.store = "" \/ i > Len(dc.list) THEN s
  ELSE FoldStore(FoldDocker(s, dc.list[i].key, dc.list[i].user, "", "", dc.store), dc, i + 1)
FoldSource(s, src) ==
  CASE src.k = "host" -> FoldHosts(s, src.es, 1)
    [] src.k = "default" -> FoldDefault(s, src.d)
    [] src.k = "docker" -> FoldStore(FoldHelpers(FoldAuths(s, src.dc, 1), src.dc, 1), src.dc, 1)

\* the monitor's verdict on everything (D) predicts for the state (hs, d)
ProbeKinds == {"ping", "head"}
Verdicts(hs, d, s) ==
  UNION {UNION {{ReqBad(s, kind, r, o) : o \in os} \cup {DoneBad(s, kind, r, {o.addr : o \in os})} :
                  os \in ObsSetsOf(hs, d, kind, r)} : kind \in ProbeKinds, r \in ProbeRegs}
Verdict(hs, d, s) == LET v == Verdicts(hs, d, s) \ {""} IN
                     IF v = {} THEN "" ELSE CHOOSE x \in v : TRUE

MCInit == Init /\ ps = PInitState /\ bad = Verdict(hosts, def, ps)
MCNext == /\ nopt < MaxOpts
          /\ \E src \in Sources :
               /\ Apply(src)
               /\ ps' = FoldSource(ps, src)
               /\ bad' = Verdict(hosts', def', ps')
MCSpec == MCInit /\ [][MCNext]_<<dvars, pvars>>

\* ------------------------------------------------- Merge, one step, all pairs
CONSTANTS MStr,      \* [field -> set of values] for the string fields that vary
          MInt       \* [field -> set of values] for the int fields that vary
MRecs == {r \in [StrFields \cup IntFields \cup {"name"} -> STRING \cup Int] : FALSE}  \* (typing aid only)
VARIABLES mb, mn
MergeUniverse ==
  LET fs == DOMAIN MStr
      fi == DOMAIN MInt
      SV == [f \in fs |-> MStr[f]]
  IN {[f \in DOMAIN Z |-> IF f \in fs THEN sv[f] ELSE IF f \in fi THEN iv[f] ELSE Z[f]] :
        sv \in [fs -> UNION {MStr[f] : f \in fs}], iv \in [fi -> UNION {MInt[f] : f \in fi}]}
MergeRecs == {r \in MergeUniverse : /\ \A f \in DOMAIN MStr : r[f] \in MStr[f]
                                    /\ \A f \in DOMAIN MInt : r[f] \in MInt[f]}
MergeInit == mb \in MergeRecs /\ mn \in MergeRecs
MergeNext == UNCHANGED <<mb, mn>>
MergeSpec == MergeInit /\ [][MergeNext]_<<mb, mn>>
MergeOK == MergeBad(mb, mn, Merge(mb, mn)) = ""
=============================================================================

----------------------------- MODULE HostConfMC -----------------------------
(***************************************************************************)
(* X04 - model checking of (D) HostConf against (P) HostConfProp.          *)
(* Every behaviour applies up to MaxOpts configuration sources drawn from  *)
(* a finite universe (WithConfigHost entries, WithConfigHostDefault,       *)
(* docker config files); after every source the monitor is fed what the    *)
(* user wrote and then judges every request observation (D) predicts for   *)
(* every probe registry (Ping and ManifestHead).  bad # "" = (D) violates  *)
(* the statement.  With Fix = {} (the code as found) TLC reports the known *)
(* defects as counterexamples; with all repairs the invariant holds.       *)
(* MergeRecs is the product universe of records for the one-step families *)
(* (Merge, HostNewDefName, JSON) of HostConfGen.                           *)
(***************************************************************************)
EXTENDS HostConf, HostConfProp

CONSTANTS MaxOpts,
          UNames, UTls, UCred, UHostname, UMirrors, UPrefix,   \* WithConfigHost entries
          UDefTls, UDefCred, UDefHostname,                      \* WithConfigHostDefault
          UDockKey, UDockCred,                                  \* docker config entries
          ProbeSet                                              \* set of <<kind, registry>>

CredRec(k) ==
  CASE k = "none"  -> [user |-> "",   pass |-> "",   token |-> "",   helper |-> ""]
    [] k = "up1"   -> [user |-> "u1", pass |-> "p1", token |-> "",   helper |-> ""]
    [] k = "up2"   -> [user |-> "u2", pass |-> "p2", token |-> "",   helper |-> ""]
    [] k = "u1"    -> [user |-> "u1", pass |-> "",   token |-> "",   helper |-> ""]
    [] k = "tok1"  -> [user |-> "",   pass |-> "",   token |-> "t1", helper |-> ""]
    [] k = "tok2"  -> [user |-> "",   pass |-> "",   token |-> "t2", helper |-> ""]
    [] k = "h1"    -> [user |-> "",   pass |-> "",   token |-> "",   helper |-> "h1"]
    [] k = "h2"    -> [user |-> "",   pass |-> "",   token |-> "",   helper |-> "h2"]
    [] k = "up1h1" -> [user |-> "u1", pass |-> "p1", token |-> "",   helper |-> "h1"]
WithCred(h, k) == [h EXCEPT !.user = CredRec(k).user, !.pass = CredRec(k).pass,
                            !.token = CredRec(k).token, !.helper = CredRec(k).helper]

HostSources ==
  {[k |-> "host", es |-> <<WithCred([Z EXCEPT !.name = n, !.tls = t, !.hostname = hn,
                                             !.mirrors = mi, !.prefix = pre], ck)>>] :
     n \in UNames, t \in UTls, ck \in UCred, hn \in UHostname, mi \in UMirrors, pre \in UPrefix}
DefSources ==
  {[k |-> "default", d |-> WithCred([Z EXCEPT !.tls = t, !.hostname = hn], ck)] :
     t \in UDefTls, ck \in UDefCred, hn \in UDefHostname}
\* one auths entry (kinds with a helper also get a credHelpers entry; "h1" alone is a credHelpers
\* entry without auths entry; "s1" is a credsStore)
DockerConf(key, ck) ==
  IF ck = "s1"      \* a credsStore whose helper lists the key with user u1
  THEN [auths |-> <<>>, helpers |-> <<>>, store |-> "s1", list |-> <<[key |-> key, user |-> "u1"]>>]
  ELSE
  [auths |-> IF ck \in {"h1", "h2"} THEN <<>>
             ELSE <<[key |-> key, user |-> CredRec(ck).user, pass |-> CredRec(ck).pass,
                     token |-> CredRec(ck).token]>>,
   helpers |-> IF CredRec(ck).helper = "" THEN <<>> ELSE <<[key |-> key, helper |-> CredRec(ck).helper]>>,
   store |-> "", list |-> <<>>]
DockerSources == {[k |-> "docker", dc |-> DockerConf(key, ck)] : key \in UDockKey, ck \in UDockCred}
Sources == HostSources \cup DefSources \cup DockerSources

\* what the monitor is told about a source: exactly what the user wrote
RECURSIVE FoldHosts(_, _, _)
FoldHosts(s, es, i) == IF i > Len(es) THEN s ELSE FoldHosts(FoldHost(s, es[i]), es, i + 1)
RECURSIVE FoldAuths(_, _, _)
FoldAuths(s, dc, i) ==
  IF i > Len(dc.auths) THEN s
  ELSE FoldAuths(FoldDocker(s, dc.auths[i].key, dc.auths[i].user, dc.auths[i].pass, dc.auths[i].token,
                            HelperFor(dc, dc.auths[i].key)), dc, i + 1)
RECURSIVE FoldHelpers(_, _, _)
FoldHelpers(s, dc, i) ==
  IF i > Len(dc.helpers) THEN s
  ELSE FoldHelpers(IF HasAuth(dc, dc.helpers[i].key) THEN s
                   ELSE FoldDocker(s, dc.helpers[i].key, "", "", "", dc.helpers[i].helper), dc, i + 1)
RECURSIVE FoldStore(_, _, _)
FoldStore(s, dc, i) ==
  IF dc.store = "" \/ i > Len(dc.list) THEN s
  ELSE FoldStore(FoldDocker(s, dc.list[i].key, dc.list[i].user, "", "", dc.store), dc, i + 1)
FoldSource(s, src) ==
  CASE src.k = "host" -> FoldHosts(s, src.es, 1)
    [] src.k = "default" -> FoldDefault(s, src.d)
    [] src.k = "docker" -> FoldStore(FoldHelpers(FoldAuths(s, src.dc, 1), src.dc, 1), src.dc, 1)

\* the monitor's verdict on everything (D) predicts for the state (hs, d)
Verdicts(hs, d, s) ==
  UNION {UNION {{ReqBad(s, p[1], p[2], o) : o \in os} \cup {DoneBad(s, p[1], p[2], {o.addr : o \in os})} :
                  os \in ObsSetsOf(hs, d, p[1], p[2])} : p \in ProbeSet}
Verdict(hs, d, s) == LET v == Verdicts(hs, d, s) \ {""} IN
                     IF v = {} THEN "" ELSE CHOOSE x \in v : TRUE

MCInit == Init /\ ps = PInitState /\ bad = Verdict(hosts, def, ps)
MCNext == /\ nopt < MaxOpts
          /\ \E src \in Sources :
               /\ Apply(src)
               /\ ps' = FoldSource(ps, src)
               /\ bad' = Verdict(hosts', def', ps')
MCSpec == MCInit /\ [][MCNext]_<<dvars, pvars>>

\* ------------------------------------------- record universe, one-step families
CONSTANTS MGroup,    \* set of fields that vary (the others stay zero)
          MVals,     \* 2 or 3: values per varying field (zero value included) of the new entry
          MValsB     \* the same for the existing entry
SVals(f, MV) == CASE f = "tls" -> IF MV = 2 THEN {"", "disabled"} ELSE {"", "enabled", "insecure", "disabled"}
              [] f = "prefix" -> IF MV = 2 THEN {"", "/pp/"} ELSE {"", "pp", "/pp/", "qq"}
              [] f = "mirrors" -> IF MV = 2 THEN {"", "m1.test"} ELSE {"", "m1.test", "m1.test,r2.test"}
              [] f = "hostname" -> IF MV = 2 THEN {"", "alt.test"} ELSE {"", "alt.test", "r2.test"}
              [] f = "credhost" -> IF MV = 2 THEN {"", "alt.test"} ELSE {"", "alt.test", "http://r1.test"}
              [] f = "user" -> IF MV = 2 THEN {"", "u1"} ELSE {"", "u1", "u2"}
              [] f = "pass" -> IF MV = 2 THEN {"", "p1"} ELSE {"", "p1", "p2"}
              [] f = "token" -> IF MV = 2 THEN {"", "t1"} ELSE {"", "t1", "t2"}
              [] f = "helper" -> IF MV = 2 THEN {"", "h1"} ELSE {"", "h1", "h2"}
              [] f = "regcert" -> IF MV = 2 THEN {"", "ca-r1.test"} ELSE {"", "ca-r1.test", "ca-r2.test"}
              [] f = "ccert" -> IF MV = 2 THEN {"", "cc1"} ELSE {"", "cc1", "cc2"}
              [] f = "ckey" -> IF MV = 2 THEN {"", "ck1"} ELSE {"", "ck1", "ck2"}
              [] f = "ao1" -> IF MV = 2 THEN {"", "a"} ELSE {"", "a", "b"}
              [] f = "ao2" -> IF MV = 2 THEN {"", "a"} ELSE {"", "a", "b"}
              [] f = "api" -> {"", "x"}
              [] f = "scheme" -> {"", "x"}
              [] f = "name" -> {"", "r1.test", "r2.test"}
IVals(f, MV) == CASE f = "expire" -> IF MV = 2 THEN {0, 1} ELSE {0, 1, 2}
              [] f = "prio" -> IF MV = 2 THEN {0, 1} ELSE {0, 1, 2}
              [] f = "repoauth" -> {0, 1}
              [] f = "chunk" -> IF MV = 2 THEN {0, 1} ELSE {0, 1, 2, -1}
              [] f = "bmax" -> IF MV = 2 THEN {0, 1} ELSE {0, 1, 2, -1}
              [] f = "rps" -> IF MV = 2 THEN {0, 1} ELSE {0, 1, 2}
              [] f = "conc" -> IF MV = 2 THEN {0, 1} ELSE {0, 1, 3, -1}
SD(f, MV) == IF f \in MGroup THEN SVals(f, MV) ELSE {""}
ID(f, MV) == IF f \in MGroup THEN IVals(f, MV) ELSE {0}
MergeRecsOf(MV) ==
  {[name |-> v0, tls |-> v1, hostname |-> v2, user |-> v3, pass |-> v4, token |-> v5, helper |-> v6,
    expire |-> i1, credhost |-> v7, prefix |-> v8, mirrors |-> v9, prio |-> i2, repoauth |-> i3,
    ao1 |-> v10, ao2 |-> v11, chunk |-> i4, bmax |-> i5, rps |-> i6, conc |-> i7,
    regcert |-> v12, ccert |-> v13, ckey |-> v14, api |-> v15, scheme |-> v16] :
     v0 \in SD("name", MV), v1 \in SD("tls", MV), v2 \in SD("hostname", MV), v3 \in SD("user", MV), v4 \in SD("pass", MV),
     v5 \in SD("token", MV), v6 \in SD("helper", MV), v7 \in SD("credhost", MV), v8 \in SD("prefix", MV),
     v9 \in SD("mirrors", MV), v10 \in SD("ao1", MV), v11 \in SD("ao2", MV), v12 \in SD("regcert", MV),
     v13 \in SD("ccert", MV), v14 \in SD("ckey", MV), v15 \in SD("api", MV), v16 \in SD("scheme", MV),
     i1 \in ID("expire", MV), i2 \in ID("prio", MV), i3 \in ID("repoauth", MV), i4 \in ID("chunk", MV),
     i5 \in ID("bmax", MV), i6 \in ID("rps", MV), i7 \in ID("conc", MV)}
MergeRecs == MergeRecsOf(MVals)
\* values for ProbeSet (a cfg file cannot write tuples)
ProbeSetStd == {<<"ping", "r1.test">>, <<"head", "r1.test">>, <<"ping", "u.test">>, <<"ping", "m1.test">>,
                <<"ping", "docker.io">>, <<"head", "docker.io">>, <<"ping", "registry-1.docker.io">>,
                <<"head", "registry-1.docker.io">>, <<"head", "index.docker.io">>, <<"ping", "r2.test">>,
                <<"head", "r2.test">>}
=============================================================================

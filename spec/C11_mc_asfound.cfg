SPECIFICATION Spec
VIEW View
INVARIANTS TypeOK LeaksOnlyKnown
CHECK_DEADLOCK FALSE
CONSTANTS
 HonorsHost = FALSE
 SchemeBound = FALSE
 PgNoMirrors = FALSE
 FoldCase = FALSE
 StripOnRedirect = FALSE
 MaxFaults = 3
 Confs <- QuickGenConfs
 ChalKinds <- AllChal
 FaultKinds <- AllFaults
 RedirTo <- AllRedir
 TokReplies <- AllTok
 ForeignRealms <- TaRealm
 LocTo <- AllLoc

CONSTANTS
 Tags = {"t1", "t2"}
 Mans = {"m1", "m2"}
 TagOrder <- MCTagOrder
 Procs = {"p1", "p2", "p3"}
 Confs <- OldHead
 MaxOps = 1
 OpTags = {"t1", "t2"}
 OpMans = {"m1", "m2"}
 OpKinds <- HeadRaceKinds
 UseMutex = TRUE
 FreshPH = TRUE
SPECIFICATION Spec
INVARIANTS HeadStable
CHECK_DEADLOCK FALSE

---------------------------- MODULE ReferrersProp ----------------------------
(***************************************************************************)
(* (P) property monitor for C10: "the referrers of a subject are exactly   *)
(* the live manifests that name it".                                       *)
(*                                                                         *)
(* Observation shaped.  It knows nothing about fall-back tags, caches,     *)
(* locks or the referrers API; it sees only                                *)
(*   call / ret   a ManifestPut or a referrer-aware ManifestDelete of an   *)
(*                artifact was issued / returned (calls may overlap); a    *)
(*                "plain" call pushes a manifest that has no subject,      *)
(*   stored       FACT logged by the harness at a quiescent point: which   *)
(*                artifact manifests are in raw storage (simreg's manifest *)
(*                map, or the blob files of the layout),                   *)
(*   list         result of RegClient.ReferrerList(subject, filter): the   *)
(*                returned descriptors in order, with artifact type and    *)
(*                annotation value of each,                                *)
(*   tag          FACT: content of the client-managed fall-back tag read   *)
(*                from raw storage and parsed with encoding/json,          *)
(*   fetch        a ManifestGet by digest of an index stored earlier, with *)
(*                the independently computed sha256 of the returned bytes. *)
(*                                                                         *)
(* The reference model is the multimap subject -> set of artifacts, kept   *)
(* as the set of stored artifacts plus the fixed subject map of the trace  *)
(* (header).  Overlapping calls are handled by linearisability: `poss` is  *)
(* the set of <<stored set, pending calls already applied>> pairs that     *)
(* some linearisation of the calls seen so far can produce; a call that    *)
(* returned an error may or may not have taken effect.  The `stored` fact  *)
(* must be one of the possible sets (a successful push is stored, a        *)
(* successful delete is gone) and then fixes `cur`, against which every    *)
(* listing of that quiescent point is judged:                              *)
(*   list-lost / list-leftover / list-duplicate / list-attr / list-error   *)
(*   filter-lost / filter-extra         (filtered queries)                 *)
(*   tag-lost / tag-leftover / tag-duplicate / tag-attr                    *)
(*       (only where the client maintains the fall-back tag: modes "tag"   *)
(*        and "oci"; with the referrers API the tag is not judged)         *)
(*   incoherent-get   a get by digest returned bytes of another digest     *)
(*   incoherent-view  ... or an object whose descriptor list is not the    *)
(*       one in its own bytes                                              *)
(*       (a listing machinery that corrupts what the client serves under   *)
(*        a digest breaks "the manifests currently stored")                *)
(*   store-mismatch   raw storage disagrees with every linearisation       *)
(* The first violated obligation is latched in `bad`.                      *)
(***************************************************************************)
EXTENDS ReferrersDefs, TLC
VARIABLES subj,     \* Arts -> Subj, from the trace header
          mode,     \* "api" | "tag" | "oci", from the trace header
          na,       \* artifacts without any annotation, from the trace header
          pend,     \* call id -> [k, a] of the calls that have not returned
          poss,     \* set of [st : SUBSET Arts, ap : SUBSET DOMAIN pend]
          cur,      \* stored set fixed by the last `stored` fact
          quiet,    \* TRUE between a `stored` fact and the next call
          bad
pvars == <<subj, mode, na, pend, poss, cur, quiet, bad>>

First(checks) == IF bad # "" THEN bad
                 ELSE IF \E i \in 1..Len(checks) : checks[i][1]
                      THEN checks[CHOOSE i \in 1..Len(checks) : checks[i][1] /\ \A j \in 1..(i-1) : ~checks[j][1]][2]
                      ELSE ""

\* a "plain" call pushes a manifest without a subject: no referrer comes or goes
ApplyOp(st, o) == CASE o.k = "put" -> st \cup {o.a} [] o.k = "del" -> st \ {o.a} [] OTHER -> st
Step1(P, pd) == P \cup {[st |-> ApplyOp(c.st, pd[i]), ap |-> c.ap \cup {i}] :
                        <<c, i>> \in {x \in P \X DOMAIN pd : x[2] \notin x[1].ap}}
RECURSIVE CloseN(_, _, _)
CloseN(P, pd, n) == IF n = 0 THEN P ELSE CloseN(Step1(P, pd), pd, n - 1)
Close(P, pd) == CloseN(P, pd, Cardinality(DOMAIN pd))
Drop(f, id) == [x \in DOMAIN f \ {id} |-> f[x]]
With(f, id, v) == [x \in DOMAIN f \cup {id} |-> IF x = id THEN v ELSE f[x]]

DefaultSubj == [a \in Arts |-> "s1"]
PInit == /\ subj = DefaultSubj /\ mode = "tag" /\ na = {} /\ pend = <<>> /\ poss = {[st |-> {}, ap |-> {}]}
         /\ cur = {} /\ quiet = FALSE /\ bad = ""
PReset(m, sm, n) == /\ subj' = sm /\ mode' = m /\ na' = n /\ pend' = <<>> /\ poss' = {[st |-> {}, ap |-> {}]}
                 /\ cur' = {} /\ quiet' = FALSE /\ bad' = ""

PCall(id, k, a) ==
  LET pd == With(pend, id, [k |-> k, a |-> a]) IN
  /\ pend' = pd
  /\ poss' = Close(poss, pd)
  /\ quiet' = FALSE
  /\ bad' = First(<< <<id \in DOMAIN pend, "protocol-call-twice">>,
                    <<k \notin {"put", "del", "plain"} \/ (k # "plain" /\ a \notin Arts), "protocol-bad-call">> >>)
  /\ UNCHANGED <<subj, mode, na, cur>>

PRet(id, res) ==
  IF id \notin DOMAIN pend
  THEN /\ bad' = First(<< <<TRUE, "protocol-ret-without-call">> >>)
       /\ UNCHANGED <<subj, mode, na, pend, poss, cur, quiet>>
  ELSE LET keep == IF res = "ok" THEN {c \in poss : id \in c.ap} ELSE poss IN
       /\ pend' = Drop(pend, id)
       /\ poss' = {[st |-> c.st, ap |-> c.ap \ {id}] : c \in keep}
       /\ UNCHANGED <<subj, mode, na, cur, quiet, bad>>

PStored(set) ==
  /\ cur' = set
  /\ poss' = {[st |-> set, ap |-> {}]}
  /\ quiet' = TRUE
  /\ bad' = First(<< <<DOMAIN pend # {}, "protocol-stored-while-pending">>,
                    <<set \notin {c.st : c \in poss}, "store-mismatch">> >>)
  /\ UNCHANGED <<subj, mode, na, pend>>

AttrBad(res, types, anns) ==
  \/ Len(types) # Len(res) \/ Len(anns) # Len(res)
  \/ \E i \in 1..Len(res) : res[i] \in Arts /\ (types[i] # Type[res[i]] \/ anns[i] # AnnOf(na, res[i]))

PList(s, f, res, types, anns, err) ==
  LET E == ExpectN(cur, subj, na, s, f) IN
  /\ bad' = First(<< <<~quiet, "protocol-list-not-quiescent">>,
                    <<f \notin Filters, "protocol-bad-filter">>,
                    <<err # "", "list-error">>,
                    <<E \ Range(res) # {}, IF f = "none" THEN "list-lost" ELSE "filter-lost">>,
                    <<Range(res) \ E # {}, IF f = "none" THEN "list-leftover" ELSE "filter-extra">>,
                    <<HasDup(res), "list-duplicate">>,
                    <<AttrBad(res, types, anns), "list-attr">> >>)
  /\ UNCHANGED <<subj, mode, na, pend, poss, cur, quiet>>

PTag(s, res, types, anns) ==
  LET E == Expect(cur, subj, s, "none") IN
  /\ bad' = IF mode = "api" THEN bad
            ELSE First(<< <<~quiet, "protocol-tag-not-quiescent">>,
                          <<E \ Range(res) # {}, "tag-lost">>,
                          <<Range(res) \ E # {}, "tag-leftover">>,
                          <<HasDup(res), "tag-duplicate">>,
                          <<AttrBad(res, types, anns), "tag-attr">> >>)
  /\ UNCHANGED <<subj, mode, na, pend, poss, cur, quiet>>

\* outcome: "same" (the bytes hash to the digest asked for), "notfound", "error", or "other";
\* view: "same" / "differs" - does the structured view of the returned object (its descriptor
\* list) agree with its own raw bytes ("none": not an index / not obtained)
PFetch(outcome, view) ==
  /\ bad' = First(<< <<outcome \notin {"same", "notfound", "error"}, "incoherent-get">>,
                    <<view = "differs", "incoherent-view">> >>)
  /\ UNCHANGED <<subj, mode, na, pend, poss, cur, quiet>>

PNote == UNCHANGED pvars

Ok == bad = ""
=============================================================================

---------------------------- MODULE IndexEditTrace ----------------------------
(***************************************************************************)
(* X03 - trace spec: replays the ndjson event log (env VERIF_TRACE) that   *)
(* harness/cmd/x03drv recorded while running the real regctl binary        *)
(* through the monitor IndexEditProp.  One trace = one scenario; events:   *)
(*   reset  header: what tag v1 of the target resolved to after the set-up *)
(*          and the pool manifests the target repository held              *)
(*   cmd    a command line is about to be executed (its flags)             *)
(*   obs    the target registry served a state changing request: what the  *)
(*          tag resolves to now, which referenced manifests are missing    *)
(*   done   the command ended: exit status, whether a request of it had    *)
(*          been refused (fault injection), the tag, missing manifests,    *)
(*          pool manifests and digest tags in the target, and with         *)
(*          --by-digest the index stored under the printed digest          *)
(* Mirrors no code.                                                        *)
(***************************************************************************)
EXTENDS IndexEditProp, Json, IOUtils
Log == ndJsonDeserialize(IOEnv.VERIF_TRACE)
VARIABLE l
Ev == Log[l]
CmdOf(e) == [op |-> e.op, refs |-> e.refs, plats |-> e.plats, digs |-> e.digs, dann |-> e.dann, dplat |-> e.dplat,
             mt |-> e.mt, ann |-> e.ann, at |-> e.at, subj |-> e.subj, bydig |-> e.bydig = 1, dtags |-> e.dtags = 1,
             rfr |-> e.rfr = 1]
TInit == PInit /\ l = 1
TNext ==
  /\ l <= Len(Log)
  /\ l' = l + 1
  /\ \/ Ev.ev = "reset" /\ PReset(Ev.tag, Ev.have)
     \/ Ev.ev = "cmd" /\ PCmd(CmdOf(Ev))
     \/ Ev.ev = "obs" /\ PObs(Ev.tag, Ev.missing)
     \/ Ev.ev = "done" /\ PDone(Ev.rc, Ev.faulted, Ev.tag, Ev.missing, Ev.have, Ev.xt, Ev.pushed)
TSpec == TInit /\ [][TNext]_<<pvars, l>>
HW == TLCSet(1, IF TLCGet(1) > l THEN TLCGet(1) ELSE l)
Accepted == PrintT(<<"HIGHWATER", TLCGet(1), Len(Log)>>)
ASSUME TLCSet(1, 0)
=============================================================================

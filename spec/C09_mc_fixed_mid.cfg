SPECIFICATION Spec
CONSTANTS
 DrainBug = FALSE
 LinkCode = FALSE
 DupPathBug = FALSE
 Ids <- MidIds
INVARIANTS PropHolds Ordered PassBound
CHECK_DEADLOCK TRUE

---------------------------- MODULE BlobPutProp ----------------------------
(***************************************************************************)
(* (P) property monitor for C05: "a blob upload commits exactly the        *)
(* caller's bytes under their digest, or fails".                           *)
(*                                                                         *)
(* Observation shaped: it sees what the destination sees (POST, PATCH,     *)
(* PUT, GET, DELETE of the upload session with the server's reaction) and  *)
(* the outcome of BlobPut (returned descriptor or error) together with     *)
(* facts the harness computed independently of regclient (crypto/sha256,   *)
(* crypto/sha512 of the source and of what the destination holds, and a    *)
(* symbol decoding of those bytes).  It knows nothing about buffers,       *)
(* chunk sizes or the order of requests.  It mirrors no code; the events   *)
(* come from harness/cmd/c05drv (scripted conforming upload endpoint, or   *)
(* an OCI layout directory).                                               *)
(*                                                                         *)
(*  O1  success => under the returned digest the destination holds exactly *)
(*      the bytes of the caller's stream, the returned size is its length  *)
(*      and the returned digest is a digest of those bytes                 *)
(*  O2  declared digest or size that the stream does not match => an error *)
(*      is returned and what the destination holds under the declared      *)
(*      digest is what it held before (checked at every commit and at the  *)
(*      end)                                                               *)
(*  O3  well formed input + conforming destination without transient       *)
(*      failures => success.  Not demanded when the destination refused    *)
(*      the single request upload and the source cannot be rewound (no     *)
(*      client can succeed then; the same when it redirected that request, *)
(*      which also means sending the body twice), and not when it both     *)
(*      enforces a minimum chunk length and accepts chunks partially (a    *)
(*      combination the distribution spec does not describe).              *)
(*                                                                         *)
(* `bad` latches the first violated obligation; `hbad` latches an          *)
(* observation that the harness' own endpoint must never produce (the      *)
(* runner turns that into a tooling error, not into a verdict).            *)
(***************************************************************************)
EXTENDS Integers, Sequences, TLC
VARIABLES h,        \* facts about the scenario: source, declared descriptor, destination
          off,      \* bytes the upload session holds
          open,     \* a session is open
          short,    \* the last chunk the client sent was below the announced minimum
          nfault,   \* transient failures injected so far
          nonconf,  \* the destination left the behaviours O3 quantifies over ("" = it did not)
          refused,  \* the destination refused a single request upload
          bad, hbad
pvars == <<h, off, open, short, nfault, nonconf, refused, bad, hbad>>

NoHdr == [none |-> TRUE]
PInit == h = NoHdr /\ off = 0 /\ open = FALSE /\ short = FALSE /\ nfault = 0 /\ nonconf = ""
         /\ refused = FALSE /\ bad = "" /\ hbad = ""
PReset(hdr) == h' = hdr /\ off' = 0 /\ open' = FALSE /\ short' = FALSE /\ nfault' = 0 /\ nonconf' = ""
               /\ refused' = FALSE /\ bad' = "" /\ hbad' = ""

First(cur, checks) ==
  IF cur # "" THEN cur
  ELSE IF \E i \in 1..Len(checks) : checks[i][1]
       THEN checks[CHOOSE i \in 1..Len(checks) : checks[i][1] /\ \A j \in 1..(i-1) : ~checks[j][1]][2]
       ELSE ""

DeclDigest == h.ddig # ""
Mismatch == (DeclDigest /\ h.ddig \notin {h.src256, h.src512}) \/ (h.dsize > 0 /\ h.dsize # h.len)
IsFault(e) == e.fault # "none"
Count(e) == IF IsFault(e) THEN nfault + 1 ELSE nfault

\* ---- POST: session start or anonymous mount
PPost(e) ==
  /\ nfault' = Count(e)
  /\ open' = (open \/ (e.status = 202) \/ (IsFault(e) /\ e.fault = "applied"))
  /\ off' = IF e.status = 202 THEN 0 ELSE off
  /\ short' = IF e.status = 202 THEN FALSE ELSE short
  /\ hbad' = First(hbad, << <<e.mounted = 1 /\ (e.mount = "" \/ e.status # 201), "mount-reply">>,
                           <<e.status = 201 /\ e.mounted # 1, "201-without-mount">>,
                           <<~IsFault(e) /\ e.status \notin {201, 202, 400}, "post-status">> >>)
  /\ UNCHANGED <<h, nonconf, refused, bad>>

\* ---- PATCH: the server keeps acc bytes of the n it was sent
PPatch(e) ==
  LET inorder == e.start = off /\ e.tok = "ok"
      partial == e.acc > 0 /\ e.acc < e.n
  IN
  /\ nfault' = Count(e)
  /\ off' = off + e.acc
  /\ short' = IF e.acc > 0 THEN (h.min > 0 /\ e.n < h.min) ELSE short
  /\ open' = IF e.why = "minlen" THEN FALSE ELSE open
  /\ nonconf' = IF nonconf = "" /\ partial /\ h.min > 0 /\ h.enforce = 1 THEN "partial-with-enforced-minimum" ELSE nonconf
  /\ hbad' = First(hbad, << <<e.acc < 0 \/ e.acc > e.n, "acc-range">>,
                           <<e.acc > 0 /\ ~inorder, "accepted-out-of-order">>,
                           <<e.off # off + e.acc, "offset">>,
                           <<~IsFault(e) /\ e.status \in {201, 202} /\ (e.acc < 1 \/ e.rng # off + e.acc - 1), "range-reply">>,
                           <<~IsFault(e) /\ e.status \in {201, 202} /\ ~open, "patch-without-session">>,
                           <<e.why = "minlen" /\ ~(h.enforce = 1 /\ short), "minlen-unjustified">>,
                           <<~IsFault(e) /\ e.status \notin {201, 202, 400, 404, 416}, "patch-status">> >>)
  /\ UNCHANGED <<h, refused, bad>>

\* ---- PUT: closing request or single request upload; a PUT that is refused or breaks off may
\* leave acc bytes of its body in the session
PPut(e) ==
  /\ nfault' = Count(e)
  /\ off' = off + e.acc
  /\ refused' = (refused \/ (e.why = "refused" /\ e.n > 0))
  /\ open' = IF e.committed = 1 \/ e.why = "minlen" THEN FALSE ELSE open
  /\ bad' = First(bad, << <<e.committed = 1 /\ Mismatch /\ DeclDigest /\ e.cdig = h.ddig, "O2-commit">> >>)
  /\ hbad' = First(hbad, << <<e.committed = 1 /\ (e.cdig # e.digest \/ e.clen # off + e.n), "commit-facts">>,
                           <<e.acc < 0 \/ e.acc > e.n \/ (e.acc > 0 /\ (e.committed = 1 \/ ~(e.why = "refused" \/ IsFault(e)))), "kept-prefix">>,
                           <<e.committed = 1 /\ ~open, "commit-without-session">>,
                           <<e.why = "minlen" /\ ~(h.enforce = 1 /\ short), "minlen-unjustified">> >>)
  /\ nonconf' = IF nonconf = "" /\ e.acc > 0 /\ h.min > 0 /\ h.enforce = 1 THEN "partial-with-enforced-minimum" ELSE nonconf
  /\ UNCHANGED <<h, short>>

PGet(e) ==
  /\ nfault' = Count(e)
  /\ hbad' = First(hbad, << <<e.status = 204 /\ e.rng # off - 1, "status-range">> >>)
  /\ UNCHANGED <<h, off, open, short, nonconf, refused, bad>>

\* ---- a request answered with a redirect (307 / 308) to another URL of the destination: nothing
\* happens to the session.  A redirected single request upload has to be sent a second time, which a
\* source that cannot be rewound does not allow: for O3 it counts like a refused single request
\* upload (no client can succeed then).
PRedir(e) ==
  /\ refused' = (refused \/ (e.method = "PUT" /\ e.n > 0))
  /\ hbad' = First(hbad, << <<e.status \notin {307, 308} /\ ~(e.method = "GET" /\ e.status \in {301, 302, 303}), "redirect-status">> >>)
  /\ UNCHANGED <<h, off, open, short, nfault, nonconf, bad>>

PDelete(e) == open' = FALSE /\ UNCHANGED <<h, off, short, nfault, nonconf, refused, bad, hbad>>
\* requests that never became part of the session (broken by the transport, unknown session)
PNote == UNCHANGED pvars

\* ---- outcome of BlobPut
PResult(e) ==
  LET ok == e.ok = 1 IN
  /\ bad' = First(bad, <<
       <<Mismatch /\ ok, "O2-noerror">>,
       <<Mismatch /\ DeclDigest /\ e.dheld # h.pre, "O2-commit">>,
       <<ok /\ e.hheld = "-", "O1-absent">>,
       <<ok /\ (e.hheld # h.syms \/ e.hsha # h.srcsha \/ e.hlen # h.len), "O1-content">>,
       <<ok /\ e.rsize # h.len, "O1-size">>,
       <<ok /\ e.rdig \notin {h.src256, h.src512}, "O1-digest">>,
       <<~ok /\ ~Mismatch /\ nfault = 0 /\ nonconf = "" /\ (h.seek = 1 \/ ~refused), "O3-failed">> >>)
  /\ hbad' = First(hbad, << <<e.misnamed # 0 /\ h.dest = "reg", "endpoint-holds-unverified-content">> >>)
  /\ UNCHANGED <<h, off, open, short, nfault, nonconf, refused>>

Ok == bad = ""
Harness == hbad = ""
=============================================================================

\* before the repair (FixWriter off): a rewritten layer is compressed by its original media type
CONSTANTS
 Images <- ImagesData
 Options <- OptsAsisWriter
 MaxProg = 2
 Places = {"same-tag"}
 SrcKinds = {"reg"}
 FixData = TRUE
 FixWriter = FALSE
 FixAdded = TRUE
 FixTag = TRUE
 FixClose = TRUE
 FixDesc = TRUE
 Fine = FALSE
SPECIFICATION Spec
INVARIANTS PostTruthful
CHECK_DEADLOCK FALSE

CONSTANTS
 Copies = {"c1", "c2"}
 Confs <- SweepConfsGen
 MaxCloses = 4
 MaxOps = 2
 KeyMode = "resolve"
 LockRefTgt = TRUE
 CtxKinds = {"bg", "cancelled", "expired", "late"}
 MarkCtx = FALSE
 Eager = FALSE
INIT GInit
NEXT GNext
INVARIANTS Emit TypeOK LocksExact MarkIsReach FallbackPresent
CHECK_DEADLOCK FALSE

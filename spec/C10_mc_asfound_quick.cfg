CONSTANTS
 ProcSeq <- P2
 Confs <- SensibleConfs
 Modes = {"tag", "api", "oci"}
 Caches = {0, 1}
 Pages = {0, 1}
 TagDels = {1}
 SubjSel = {"ror"}
 Spells = {"dig"}
 Dopts = {"check"}
 Inits <- InitsMC0
 NAs <- NAsNone
 MaxOps = 3
 MaxConc = 2
 SameSubject = TRUE
 MixSameArt = FALSE
 LockPut = TRUE
 LockDel = FALSE
 LockDelEarly = FALSE
 ObsFilters = {"none", "t1"}
 ListConc = FALSE
 CowIndex = FALSE
 InvAfterDel = FALSE
 NormKey = TRUE
 TrustApplied = FALSE
 PlainIds = {"n1"}
 FeatFromPut = FALSE
 LockStyle = "global"
INIT MInit
NEXT MNext
VIEW MView
INVARIANTS Ok TagExact CacheRLExact CacheCoherent LockSane NoApiTag TagMutex
CHECK_DEADLOCK FALSE

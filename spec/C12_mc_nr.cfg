CONSTANTS
 Hosts = {"up"}
 Up = "up"
 Ids = {"A", "B"}
 N = 2
 RA = 50
 Kinds = {"ok", "s500", "reset", "s404"}
 MaxFaults = 3
 MaxSeeks = 0
 Conc = 2
 LinkEntries = FALSE
 Directs = {"none"}
 StoreAnchor = TRUE
 RelNR = TRUE
 FixLeak = TRUE
 PrioAsc = TRUE
 Rs = {2}
 Prios = {0}
 Meths = {"GET", "PUT"}
 Waive <- WaiveNone
 Confs <- OneShotConfs
INIT MCInit
NEXT MCNext
INVARIANTS Ok RetryBound TypeOK NoThrottleBlock SlotsAccounted
CHECK_DEADLOCK FALSE

INIT Init
NEXT Step
CONSTANTS
 DrainBug = FALSE
 LinkCode = FALSE
 DupPathBug = FALSE
 Ids <- SimIds
INVARIANTS PropHolds PropExact Ordered PassBound
CHECK_DEADLOCK FALSE

INIT Init
NEXT Step
CONSTANTS
 DrainBug = TRUE
 LinkCode = TRUE
 DupPathBug = TRUE
 Ids <- SimIds
INVARIANTS PropHoldsButKnown KnownReproduced Ordered PassBound
CHECK_DEADLOCK FALSE

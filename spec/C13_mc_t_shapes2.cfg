\* thorough: as C13_mc_shapes with every pair of options
CONSTANTS
 Images <- ImagesShapes
 Options <- OptsAll
 MaxProg = 2
 Places = {"same-tag", "cross"}
 SrcKinds = {"reg", "dir"}
 FixData = TRUE
 FixWriter = TRUE
 FixAdded = TRUE
 FixTag = TRUE
 FixClose = TRUE
 FixDesc = TRUE
 Fine = FALSE
SPECIFICATION Spec
INVARIANTS TypeOK PostAligned PostTruthful PostResolves PostNoop PostNoopIff
CHECK_DEADLOCK FALSE

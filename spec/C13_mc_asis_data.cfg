\* before the repair (FixData off): the index entry of a child carries the parent's body as data
CONSTANTS
 Images <- ImagesData
 Options <- OptsAsisData
 MaxProg = 1
 Places = {"same-tag"}
 SrcKinds = {"reg"}
 FixData = FALSE
 FixWriter = TRUE
 FixAdded = TRUE
 FixTag = TRUE
 FixClose = TRUE
 FixDesc = TRUE
 Fine = FALSE
SPECIFICATION Spec
INVARIANTS PostTruthful
CHECK_DEADLOCK FALSE

------------------------------ MODULE Platform ------------------------------
(***************************************************************************)
(* C16 - platform selection.  Reference model of types/platform:           *)
(*   normalisation of aliases   platform.go:normalize / Parse / String     *)
(*   "can run"                  compare.go:Compatible   (here: Runnable)   *)
(*   "exact match"              compare.go:Match        (here: Exact)      *)
(* written from the documented rules, independently of compare.go, over a  *)
(* finite universe of *spelled* platforms (every alias spelling of every   *)
(* component).  The ranking itself ("the ordering") is by the statement    *)
(* the implementation's own: it is recorded from the real code as tables   *)
(* and checked for the laws that make a left-to-right "replace if better"  *)
(* scan return a best entry (PlatformTrace.tla, ScanLemma.tla).            *)
(*                                                                         *)
(* Deliberate limits: os.features / features are not varied (empty);       *)
(* variants are restricted per architecture to the ones that exist.        *)
(***************************************************************************)
EXTENDS Naturals, Sequences, FiniteSets, TLC

OsSp == {"linux", "windows", "darwin", "macos", "freebsd"}
OsvSp == {"", "10.0.1", "10.0.2", "10.0.1.7"}
\* architecture spellings with the variant spellings explored for each
ArchKeys == {"amd64", "x86_64", "x86-64", "arm64", "aarch64", "arm", "armhf", "armel", "i386", "386", "riscv64",
             "ppc64le"}
ArchVar(k) == CASE k \in {"amd64", "x86_64", "x86-64"} -> {"", "v1", "v2", "v3"}
                [] k \in {"arm64", "aarch64"} -> {"", "v8", "8", "v9"}
                [] k = "arm" -> {"", "v5", "v6", "v7", "v8", "5", "6", "7", "8"}
                [] k = "armhf" -> {"", "v6"}
                [] k = "armel" -> {"", "v7"}
                [] k = "i386" -> {"", "v2"}
                \* architectures without alias folding: a numbered variant next to the plain entry, and variant
                \* families that are not numbered at all (the number does not identify the entry there)
                [] k = "386" -> {"", "v1"}
                [] k = "riscv64" -> {"", "rva20u64", "rva22u64"}
                [] k = "ppc64le" -> {"", "power8", "power9"}
                [] OTHER -> {""}

\* ---- canonical form (what normalize() is documented to produce)
CanonOs(os) == IF os = "macos" THEN "darwin" ELSE os
CanonArch(k) == CASE k \in {"amd64", "x86_64", "x86-64"} -> "amd64"
                  [] k \in {"arm64", "aarch64"} -> "arm64"
                  [] k \in {"arm", "armhf", "armel"} -> "arm"
                  [] k \in {"i386", "386"} -> "386"
                  [] OTHER -> k
CanonVar(k, v) ==
  CASE k = "i386" -> ""
    [] k \in {"amd64", "x86_64", "x86-64"} -> IF v = "v1" THEN "" ELSE v
    [] k \in {"arm64", "aarch64"} -> IF v \in {"8", "v8"} THEN "" ELSE v
    [] k = "armhf" -> "v7"
    [] k = "armel" -> "v6"
    [] k = "arm" -> CASE v \in {"", "7"} -> "v7" [] v \in {"5", "6", "8"} -> "v" \o v [] OTHER -> v
    [] OTHER -> v
\* numeric rank of a canonical variant: "" is the baseline 0, "vN" / "N" is N
VarVer(v) == CASE v = "" -> 0 [] v \in {"v1"} -> 1 [] v = "v2" -> 2 [] v = "v3" -> 3
               [] v \in {"v5", "5"} -> 5 [] v \in {"v6", "6"} -> 6 [] v \in {"v7", "7"} -> 7
               [] v \in {"v8", "8"} -> 8 [] v = "v9" -> 9 [] OTHER -> 0
\* windows build = first three components of a four component version
Build(osv) == IF osv = "10.0.1.7" THEN "10.0.1" ELSE osv

Spelled == {[os |-> os, ak |-> k, variant |-> v, osver |-> ov] :
              os \in OsSp, k \in ArchKeys, v \in UNION {ArchVar(x) : x \in ArchKeys}, ov \in OsvSp}
Universe == {p \in Spelled : p.variant \in ArchVar(p.ak)}

Canon(p) == [os |-> CanonOs(p.os), arch |-> CanonArch(p.ak), variant |-> CanonVar(p.ak, p.variant),
             osver |-> p.osver]
CanonStr(c) == c.os \o "/" \o c.arch \o (IF c.variant = "" THEN "" ELSE "/" \o c.variant)

\* ---- can the host run the target (both canonical)
\* level 1 is the baseline of every architecture: a host without variant runs it
ArchOk(h, t) == h.arch = t.arch /\ (VarVer(h.variant) >= VarVer(t.variant) \/ (h.variant = "" /\ VarVer(t.variant) = 1))
Runnable(h, t) ==
  CASE h.os = "linux" -> t.os = "linux" /\ ArchOk(h, t)
    [] h.os = "windows" -> \/ t.os = "windows" /\ ArchOk(h, t) /\ (h.osver = "" \/ Build(h.osver) = Build(t.osver))
                           \/ t.os = "linux" /\ ArchOk(h, t)
    [] h.os = "darwin" -> t.os \in {"darwin", "linux"} /\ ArchOk(h, t)
    [] OTHER -> t.os = h.os /\ ArchOk(h, t) /\ h.osver = t.osver
\* ---- is the target exactly the host's platform
Exact(h, t) ==
  /\ h.os = t.os /\ h.arch = t.arch /\ h.variant = t.variant
  /\ CASE h.os = "linux" -> TRUE
       [] h.os = "windows" -> Build(h.osver) = Build(t.osver)
       [] OTHER -> h.osver = t.osver
=============================================================================

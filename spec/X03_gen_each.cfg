INIT GInit
NEXT GNext
CONSTANTS
 DescPlatStrict = FALSE
 PlatLookupStrict = FALSE
 ReadFaults = FALSE
 EqualAnnStrict = FALSE
 PutFirst = FALSE
 DedupByDigest = FALSE
 DeleteKeepsOne = FALSE
 Faults = FALSE
 GenMode = "each"
INVARIANTS Emit
CHECK_DEADLOCK FALSE

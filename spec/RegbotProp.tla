----------------------------- MODULE RegbotProp -----------------------------
(***************************************************************************)
(* C19 (P) - property monitor over what an outside observer of             *)
(* `regbot once` sees (recorded by harness/cmd/c19drv from the REAL        *)
(* binary): the requests that reached the model registries, the changes    *)
(* of the layout directory (before/after snapshot and strace), and what    *)
(* every statement of every script logged, in a dry run and in a normal    *)
(* run that started from the same world, plus - for configs with several   *)
(* scripts - whether a script that did not get to its end gets there when  *)
(* it is run alone in the same mode on the same world.                     *)
(*                                                                         *)
(* Obligations = the sentences of the property statement, nothing else:    *)
(*  O1 dry-request  no request with a state-changing method (PUT, POST,    *)
(*                  PATCH, DELETE) reaches any registry in a dry run       *)
(*  O2 dry-layout   no file of the layout is created, modified or removed  *)
(*                  in a dry run (snapshot difference, or a successful     *)
(*                  mutating system call on a path below the layout)       *)
(*  O3 read-same    a read-only function that ran in both runs on the same *)
(*                  world logged the same thing in both; "same world" =    *)
(*                  no write function had begun before it in the normal    *)
(*                  run (wprior = 0) or the normal run changed nothing     *)
(*  O4 stops-alone  after a script's own unprotected error it logs nothing  *)
(*                  more (no later statement begins, no end marker)        *)
(*  O5 isolation    a script of a config with several scripts that did not *)
(*                  reach its end reaches it neither when run alone (same  *)
(*                  mode, same world): its own doing, not the others'.     *)
(*                  In a dry run the world never changes (O1, O2) so the   *)
(*                  comparison is always valid; in a normal run it is      *)
(*                  valid when the other scripts began no write function.  *)
(* image.exportTar writing its tar file is recorded (run.tarout) but is no *)
(* obligation: the file is neither a registry nor an OCI layout.           *)
(* Events with a "tooling:" verdict mean the trace itself is malformed.    *)
(***************************************************************************)
EXTENDS RegbotAPI, Integers, Sequences, FiniteSets

VARIABLES
  bad,       \* "" or the violated obligation
  nscripts,  \* scripts in the config (from the trace header)
  norchg     \* number of changes the normal run made to registries and layout (-1: not yet known)
pvars == <<bad, nscripts, norchg>>

Statuses == {"ok", "err", "norun"}
Ends == {"done", "failed", "norun", "hung"}

PInit == bad = "" /\ nscripts = 0 /\ norchg = -1
PReset(n) == bad' = "" /\ nscripts' = n /\ norchg' = -1

\* a request received by a registry
PReq(run, method) ==
  /\ bad' = IF run = "dry" /\ method \in WriteMethods THEN "dry-request" ELSE ""
  /\ UNCHANGED <<nscripts, norchg>>

\* a change of the layout directory (only changes are reported)
PFs(run, src) ==
  /\ bad' = IF run = "dry" THEN "dry-layout:" \o src ELSE ""
  /\ UNCHANGED <<nscripts, norchg>>

\* summary of a run
PRun(run, nregchanged, nlaychanged) ==
  /\ norchg' = IF run = "nor" THEN nregchanged + nlaychanged ELSE norchg
  /\ bad' = ""
  /\ UNCHANGED nscripts

SameWorld(wprior) == wprior = 0 \/ norchg = 0
Compared == ReadOps \cup GuardOps \cup {"foreach"}     \* foreach = tag.ls
PStmt(op, dryst, norst, dry, nor, wprior) ==
  /\ bad' = IF norchg < 0 \/ dryst \notin Statuses \/ norst \notin Statuses \/ op \notin AllOps THEN "tooling:stmt"
            ELSE IF op \in Compared /\ dryst # "norun" /\ norst # "norun" /\ SameWorld(wprior)
                    /\ (dryst # norst \/ dry # nor) THEN "read-same"
            ELSE ""
  /\ UNCHANGED <<nscripts, norchg>>

\* end of a script: how it ended in the two runs of the whole config and, when it was run alone, there
\* dryafter / norafter: lines the script logged after its first own unprotected error
PScript(dry, nor, solodry, solonor, owrites, dryafter, norafter) ==
  /\ bad' = IF dryafter > 0 \/ norafter > 0 THEN "stops-alone"
            ELSE IF dry \notin Ends \/ nor \notin Ends \/ solodry \notin Ends \cup {"na"} \/ solonor \notin Ends \cup {"na"} THEN "tooling:script"
            ELSE IF nscripts > 1 /\ ((dry # "done" /\ solodry = "na") \/ (nor # "done" /\ solonor = "na")) THEN "tooling:solo-missing"
            ELSE IF dry # "done" /\ solodry = "done" THEN "isolation:dry"
            ELSE IF nor # "done" /\ solonor = "done" /\ owrites = 0 THEN "isolation:nor"
            ELSE ""
  /\ UNCHANGED <<nscripts, norchg>>

POk == bad = ""
=============================================================================

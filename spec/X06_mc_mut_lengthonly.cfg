SPECIFICATION Spec
CONSTANTS
 FewerIsMismatch = TRUE
 NilCreatedSafe = TRUE
 NilPlatformSafe = TRUE
 Mut = "lengthonly"
 Level = 0
INVARIANTS Holds
CHECK_DEADLOCK FALSE

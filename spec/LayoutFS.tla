------------------------------ MODULE LayoutFS ------------------------------
(***************************************************************************)
(* (D) design spec for C07: every operation that writes an OCI layout      *)
(* directory as a program over ATOMIC SYSTEM CALLS, with Crash enabled     *)
(* between any two of them, followed by a Retry of the same operation by a *)
(* new process.  The observation of every state (what an independent       *)
(* checker and a fresh reader would see) is checked against the property   *)
(* monitor LayoutFSProp (O1-O6), which is INSTANCEd here.                  *)
(*                                                                         *)
(* Code mirrored (regclient), one macro per function, one primitive per    *)
(* system call:                                                            *)
(*   InitIndex /   scheme/ocidir/ocidir.go:initIndex -> writeLayout (valid();*)
(*   MarkerEnsure  when oci-layout is missing or unreadable: MkdirAll,     *)
(*                 OpenFile(oci-layout.tmp), Write, Rename)                *)
(*   BlobPut       scheme/ocidir/blob.go:BlobPut       (initIndex under    *)
(*                 o.mu, MkdirAll, CreateTemp, Write*, Rename, refMod)     *)
(*   ManPut        scheme/ocidir/manifest.go:manifestPut (initIndex,       *)
(*                 MkdirAll, CreateTemp, Write, Rename, updateIndex,       *)
(*                 refMod, referrerPut when the manifest has a subject)    *)
(*   UpdIndex      ocidir.go:updateIndex  (readIndex; an UNREADABLE index  *)
(*                 is replaced by an empty one; indexSet; writeIndex)      *)
(*   WriteIndex    ocidir.go:writeIndex   (writeLayout, CreateTemp(index   *)
(*                 tmp), Write, Rename)                                    *)
(*   RefPut/RefDel scheme/ocidir/referrer.go:referrerPut / referrerDelete  *)
(*                 (fall-back tag read-modify-write through manifestPut /  *)
(*                 tagDelete)                                              *)
(*   TagDel        scheme/ocidir/tag.go:tagDelete                          *)
(*   ManDel        manifest.go:ManifestDelete (manifestGet, referrerDelete,*)
(*                 readIndex, writeIndex, os.Remove)                       *)
(*   Close/GcScan  scheme/ocidir/close.go:Close (mark from the index,      *)
(*                 sweep blobs/<alg>/ with os.Remove, temp files included) *)
(*   Copy/CopyM/   image.go:ImageCopy / imageCopyOpt / imageCopyBlob,      *)
(*   CopyB         blob.go:BlobCopy (head on the target first, goroutine   *)
(*                 per child, seen map, referrers after the children,      *)
(*                 manifest last; GCLock around the copy)                  *)
(*   Import        image.go:ImageImport, OCI branch (blobs while reading   *)
(*                 the tar, manifests afterwards, innermost first, the     *)
(*                 selected manifest by digest and finally by tag)         *)
(*   Retag         image.go:imageCopyOpt inside one repository (only the   *)
(*                 top manifest is pushed under the new tag)               *)
(*   BlobDel       scheme/ocidir/blob.go:BlobDelete (os.Remove)            *)
(*   BlobPutBad    blob.go:BlobPut with a descriptor whose digest or size  *)
(*                 does not match the bytes (error before the rename; the  *)
(*                 temp file stays); man_bad: manifestPut to a digest      *)
(*                 reference that is not the manifest's digest             *)
(*   PutParts      the driver's piecewise push (harness/cmd/c07drv)        *)
(* Readers: Readable = ocidir.go:valid + readIndex; ManifestHead by tag /  *)
(* by digest = manifest.go:ManifestHead; BlobHead = blob.go:BlobHead.      *)
(*                                                                         *)
(* Deliberate deviations:                                                  *)
(*  - content is symbolic (ideal hash): a digest-named file appears only   *)
(*    through rename of a completely written temp file, as in the code, so *)
(*    cas is a set of object names; temp files carry a written-chunk count *)
(*  - index.json holds a tag map plus a set of untagged entries (order and *)
(*    duplicate entries are C06's subject)                                 *)
(*  - the throttle (3 concurrent blob puts) is not modelled: every         *)
(*    interleaving of the copy goroutines is allowed (superset)            *)
(*  - an operation that fails by itself (Fail: bad content, missing tag)    *)
(*    stops at once; an operation INTERRUPTED WITHOUT DEATH (action Fault: *)
(*    a system call returns an error - disk full, file size limit, EMFILE, *)
(*    permission, I/O error - or the goroutine's source reader fails       *)
(*    because the caller's context was cancelled / the connection broke)   *)
(*    takes the code's error path: every function returns the error, the   *)
(*    deferred unlocks run, a copy waits for all its goroutines and does   *)
(*    not push the manifest, and the command's rc.Close (GC) follows when  *)
(*    the scenario has one; nothing is undone (no error path of the code   *)
(*    removes a file)                                                      *)
(*  - the order in which os.ReadDir / the tar reader / the driver present  *)
(*    blobs is left open (any order)                                       *)
(*  - MarkerMode = "ifbad" is the code (baseline of every config that is   *)
(*    expected to hold and of the trace binding): since commit 5457c02     *)
(*    oci-layout is written only when missing or unreadable, through a     *)
(*    temp file and rename.  MarkerMode = "rewrite" is a SWITCH that keeps *)
(*    the code as it was found (initIndex: Stat + os.Create + Write;       *)
(*    writeIndex: os.Create(oci-layout) + Write on EVERY index write); its *)
(*    configs C07_mc_asfound*.cfg carry the expected counterexample of     *)
(*    finding C07-1 and explain the seeds fixrev-C07-marker-*.             *)
(***************************************************************************)
EXTENDS Naturals, Sequences, FiniteSets, TLC, SequencesExt

CONSTANTS Scenarios,      \* set of [start, kind, t, o, gc, tar]
          MaxCrash,       \* 1: crash + retry; 2: the retry may crash as well
          MarkerMode,     \* "ifbad" (the code, baseline) | "rewrite" (as found before 5457c02)
          MarkerWindow,   \* FALSE: no crash while oci-layout is truncated (only meaningful with "rewrite")
          MaxFault        \* number of error returns / failing source readers in the first attempt (0: none)

VARIABLES fs,     \* [marker, index, cas, tmps, dirs]   the directory
          pr,     \* [thr, par, loc, mu, mod, gcl, seen, fl]  the writing process (fl: goroutines that will find an error
                  \*                                         when they have joined their children)
          ctl     \* [phase, crashes, scen, res]
vars == <<fs, pr, ctl>>

MaxT == 11    \* thread slots (1 = the caller's goroutine)
Thr == 1..MaxT

(* ------------------------------ catalogue ------------------------------ *)
Images == {"M1", "M2", "M3"}
Arts == {"A1", "A2"}
RLs == {"RL0", "RLa", "RLb", "RLab"}
Lists == {"IX", "IB", "IN"}     \* IX: index of two images; IB: cache export, its entries are BLOBS (two layers and a
                               \* cache config), not manifests; IN: an index whose only entry is the index IX
Manifests == Images \cup Arts \cup RLs \cup Lists
RLSet(o) == CASE o = "RLa" -> {"A1"} [] o = "RLb" -> {"A2"} [] o = "RLab" -> {"A1", "A2"} [] OTHER -> {}
RLName(s) == CASE s = {"A1"} -> "RLa" [] s = {"A2"} -> "RLb" [] s = {"A1", "A2"} -> "RLab" [] OTHER -> "RL0"
Children(o) == CASE o = "M1" -> {"C1", "L1", "L2"} [] o = "M2" -> {"C2", "L1", "L3"} [] o = "M3" -> {"C3", "L4"}
                 [] o = "IX" -> {"M1", "M2"} [] o = "IB" -> {"LC1", "LC2", "CC"} [] o = "IN" -> {"IX"} [] o = "A1" -> {"CE", "LA"} [] o = "A2" -> {"CE", "LB"}
                 [] o \in RLs -> RLSet(o) [] OTHER -> {}
Subject(o) == IF o \in Arts THEN "M1" ELSE ""
Chunks(o) == CASE o = "L1" -> 2 [] o = "L4" -> 3 [] o = "L0" -> 0 [] o = "LK1" -> 2 [] OTHER -> 1   \* write calls (32 KiB copy buffer)
Fb(s) == "fb-" \o s                                               \* fall-back tag of subject s
SrcReferrers(o) == IF o = "M1" THEN {"A1"} ELSE {}                \* referrers in the source layout
Closure1(S) == S \cup UNION {Children(o) : o \in S}
Closure(o) == Closure1(Closure1(Closure1({o})))

(* ------------------------------ index values --------------------------- *)
EmptyIdx == [ex |-> TRUE, tags |-> <<>>, un |-> {}]
NoIdx == [ex |-> FALSE, tags |-> <<>>, un |-> {}]          \* index.json does not exist
TagsOf(ix) == DOMAIN ix.tags
RestrictTo(f, S) == [x \in S |-> f[x]]
\* ocidir.go:indexSet (first matching entry replaced, later duplicates pruned)
IndexSet(ix, t, o) ==
  IF t # "" THEN [ex |-> TRUE, tags |-> [x \in TagsOf(ix) \cup {t} |-> IF x = t THEN o ELSE ix.tags[x]], un |-> ix.un \ {o}]
  ELSE [ix EXCEPT !.un = @ \cup {o}]
IndexDelTag(ix, t) == [ix EXCEPT !.tags = RestrictTo(ix.tags, TagsOf(ix) \ {t})]
IndexDelObj(ix, o) == [ex |-> TRUE, tags |-> RestrictTo(ix.tags, {t \in TagsOf(ix) : ix.tags[t] # o}), un |-> ix.un \ {o}]
Mentions(ix, o) == o \in ix.un \/ \E t \in TagsOf(ix) : ix.tags[t] = o

(* ------------------------------ readers -------------------------------- *)
Readable == fs.marker = "complete" /\ fs.index.ex          \* valid() and readIndex succeed
HeadTag(t) == Readable /\ t \in TagsOf(fs.index) /\ fs.index.tags[t] \in fs.cas
HeadDig(o) == Readable /\ o \in fs.cas                              \* ManifestHead by digest
\* referrer list of subject s as referrerList reads it: [st: ok | err | gone, s: set of artifacts]
RefList(s) ==
  IF ~Readable THEN [st |-> "err", s |-> {}]
  ELSE IF Fb(s) \notin TagsOf(fs.index) THEN [st |-> "ok", s |-> {}]
  ELSE IF fs.index.tags[Fb(s)] \notin fs.cas THEN [st |-> "gone", s |-> {}]
  ELSE [st |-> "ok", s |-> RLSet(fs.index.tags[Fb(s)])]

(* ------------------------------ instructions --------------------------- *)
Ins(i) == [i |-> i, o |-> "", t |-> "", c |-> FALSE, s |-> {}, u |-> {}, v |-> EmptyIdx, p |-> <<>>]
InsO(i, o) == [Ins(i) EXCEPT !.o = o]
InsT(i, t) == [Ins(i) EXCEPT !.t = t]
InsS(i, s) == [Ins(i) EXCEPT !.s = s]
ManPut(t, o, c) == [Ins("ManPut") EXCEPT !.t = t, !.o = o, !.c = c]
ManPutL(t, o, c) == <<Ins("Lock"), ManPut(t, o, c), Ins("Unlock")>>
WriteIndex(v) == [Ins("WriteIndex") EXCEPT !.v = v]
CopyM(t, o, c, refs) == [Ins("CopyM") EXCEPT !.t = t, !.o = o, !.c = c, !.s = IF refs THEN {"refs"} ELSE {}]
Repeat(x, n) == [j \in 1..n |-> x]
DirChain == <<"root", "blobs", "alg">>
DirIdx(d) == CHOOSE j \in 1..3 : DirChain[j] = d
IsBlob(o) == o \notin Manifests

Macros == {"InitIndex", "InitIndexL", "MkdirAll", "BlobPutBad", "MarkerEnsure", "BlobPut", "ManPut", "UpdIndex", "WriteIndex", "RefPut",
           "TagDel", "ManDel", "RefDel", "DelEntries", "Close", "GcScan", "CopyM", "Retag", "BlobDel", "CopyB2", "ImpB",
           "ImpM", "Import", "PutParts", "PutChild"}

MarkerCreate ==
  IF MarkerMode = "rewrite" THEN <<Ins("TruncMarker"), Ins("WriteMarker")>>
  ELSE <<[Ins("CreatTmp") EXCEPT !.t = "marker"], Ins("WriteTmp"), Ins("RenameMarker")>>

OpProg(sc) ==
  LET body == CASE sc.kind = "blob_put" -> <<InsO("BlobPut", sc.o)>>
                [] sc.kind \in {"put_tag", "put_index", "put_ref"} -> <<InsO("PutParts", sc.o)>> \o ManPutL(sc.t, sc.o, FALSE)
                [] sc.kind \in {"put_digest", "put_refd"} -> <<InsO("PutParts", sc.o)>> \o ManPutL("", sc.o, FALSE)
                [] sc.kind = "put_child" -> <<InsO("PutParts", sc.o)>> \o ManPutL("", sc.o, TRUE)
                [] sc.kind = "tag_delete" -> <<Ins("Lock"), InsT("TagDel", sc.t), Ins("Unlock")>>
                [] sc.kind = "man_delete" -> <<Ins("Lock"), InsO("ManDel", sc.o), Ins("Unlock")>>
                [] sc.kind = "blob_bad" -> <<InsO("BlobPutBad", sc.o)>>     \* sc.o = the bytes sent; the descriptor lies
                [] sc.kind = "man_bad" -> <<Ins("Lock"), Ins("InitIndex"), Ins("Fail")>>   \* manifestPut: initIndex, then the
                                                                                          \* reference digest is compared
                [] sc.kind = "blob_delete" -> <<InsO("BlobDel", sc.o)>>              \* blob.go:BlobDelete = os.Remove
                [] sc.kind = "retag" ->     \* ImageCopy inside one repository: nothing but the manifest is pushed
                     <<Ins("GcLock"), [Ins("Retag") EXCEPT !.t = sc.t, !.o = sc.o], Ins("GcUnlock")>>
                [] sc.kind \in {"copy", "copy_ref"} ->
                     <<Ins("GcLock"), CopyM(sc.t, sc.o, FALSE, sc.kind = "copy_ref"), Ins("GcUnlock")>>
                [] sc.kind = "import" -> <<[Ins("Import") EXCEPT !.t = sc.t, !.o = sc.o]>>
  IN body \o (IF sc.gc THEN <<Ins("Close")>> ELSE <<>>)

\* expansion of the macro at the head of a thread's stack, reading the directory as the code does at that point
\* (refMod, which only sets the "modified" flag read by Close, is folded into the renames / unlinks)
RECURSIVE Exp(_)
Exp(h) ==
  CASE h.i = "MkdirAll" ->
         LET miss == SelectSeq(SubSeq(DirChain, 1, DirIdx(h.o)), LAMBDA d : d \notin fs.dirs)
         IN [j \in 1..Len(miss) |-> InsO("Mkdir", miss[j])]
    [] h.i = "InitIndex" ->
         IF (MarkerMode = "rewrite" /\ fs.marker # "absent") \/ (MarkerMode = "ifbad" /\ fs.marker = "complete") THEN <<>>
         ELSE <<InsO("MkdirAll", "root")>> \o MarkerCreate
    [] h.i = "InitIndexL" ->      \* initIndex(r, false): takes o.mu itself; nothing is written when the marker is there
         IF Exp(Ins("InitIndex")) = <<>> THEN <<>> ELSE <<Ins("Lock"), Ins("InitIndex"), Ins("Unlock")>>
    [] h.i = "MarkerEnsure" ->
         IF MarkerMode = "rewrite" THEN MarkerCreate
         ELSE IF fs.marker = "complete" THEN <<>> ELSE MarkerCreate
    [] h.i = "BlobPut" ->
         <<Ins("InitIndexL"), InsO("MkdirAll", "alg"),
           [Ins("CreatTmp") EXCEPT !.t = "blob", !.o = h.o]>> \o Repeat(Ins("WriteTmp"), Chunks(h.o))
         \o <<InsO("RenameCas", h.o)>>
    [] h.i = "BlobPutBad" ->     \* BlobPut: digest and size are compared after the last write, BEFORE the rename
         <<Ins("InitIndexL"), InsO("MkdirAll", "alg"),
           [Ins("CreatTmp") EXCEPT !.t = "blob", !.o = h.o]>> \o Repeat(Ins("WriteTmp"), Chunks(h.o)) \o <<Ins("Fail")>>
    [] h.i = "ManPut" ->
         <<Ins("InitIndex"), InsO("MkdirAll", "alg"), [Ins("CreatTmp") EXCEPT !.t = "man", !.o = h.o], Ins("WriteTmp"),
           InsO("RenameCas", h.o), [Ins("UpdIndex") EXCEPT !.t = h.t, !.o = h.o, !.c = h.c]>>
         \o (IF Subject(h.o) # "" THEN <<InsO("RefPut", h.o)>> ELSE <<>>)
    [] h.i = "UpdIndex" ->
         LET base == IF Readable THEN fs.index ELSE EmptyIdx       \* unreadable => replaced by an empty index
             new == IF h.c THEN base ELSE IndexSet(base, h.t, h.o)
         IN IF ~Readable \/ ~h.c THEN <<WriteIndex(new)>> ELSE <<>>
    [] h.i = "WriteIndex" ->
         <<InsO("MkdirAll", "root"), Ins("MarkerEnsure"), [Ins("CreatTmp") EXCEPT !.t = "index", !.v = h.v],
           Ins("WriteTmp"), Ins("RenameIndex")>>
    [] h.i = "RefPut" ->
         LET rl == RefList(Subject(h.o))
         IN IF rl.st # "ok" THEN <<Ins("Fail")>>
            ELSE <<ManPut(Fb(Subject(h.o)), RLName(rl.s \cup {h.o}), FALSE)>>
    [] h.i = "TagDel" ->
         IF ~Readable \/ h.t \notin TagsOf(fs.index) THEN <<Ins("Fail")>>
         ELSE <<WriteIndex(IndexDelTag(fs.index, h.t))>>
    [] h.i = "ManDel" ->
         IF ~Readable \/ h.o \notin fs.cas THEN <<Ins("Fail")>>
         ELSE (IF Subject(h.o) # "" THEN <<InsO("RefDel", h.o)>> ELSE <<>>)
              \o <<InsO("DelEntries", h.o), InsO("UnlinkCas", h.o)>>
    [] h.i = "RefDel" ->
         LET rl == RefList(Subject(h.o))
         IN IF rl.st = "err" THEN <<Ins("Fail")>>
            ELSE IF rl.st = "gone" THEN <<>>                   \* fs.ErrNotExist is ignored by ManifestDelete
            ELSE IF h.o \notin rl.s THEN <<>>                  \* ErrNotFound is ignored
            ELSE IF rl.s = {h.o} THEN <<InsT("TagDel", Fb(Subject(h.o)))>>
            ELSE <<ManPut(Fb(Subject(h.o)), RLName(rl.s \ {h.o}), FALSE)>>
    [] h.i = "DelEntries" ->
         IF ~Readable THEN <<Ins("Fail")>>
         ELSE IF Mentions(fs.index, h.o) THEN <<WriteIndex(IndexDelObj(fs.index, h.o))>> ELSE <<>>
    [] h.i = "Close" ->
         IF ~pr.mod \/ pr.gcl > 0 THEN <<>> ELSE <<Ins("Lock"), Ins("GcScan"), Ins("Unlock")>>
    [] h.i = "GcScan" ->
         IF ~Readable THEN <<Ins("Fail")>>
         ELSE LET roots == {fs.index.tags[t] : t \in TagsOf(fs.index)} \cup fs.index.un
                  Mark1(S) == S \cup UNION {Children(o) : o \in S \cap fs.cas}   \* children of manifests that can be read
                  reach == Mark1(Mark1(Mark1(roots)))
              IN <<[Ins("Sweep") EXCEPT !.s = fs.cas \ reach,
                                         !.u = {f \in DOMAIN fs.tmps : fs.tmps[f].cls \in {"blob", "man"}}],
                   Ins("ClearMod")>>
    [] h.i = "CopyM" ->       \* imageCopyOpt: the head request on the target decides, once, what is done
         LET refs == h.s # {}
             has == IF h.t # "" THEN HeadTag(h.t) ELSE HeadDig(h.o)
             same == has /\ (IF h.t # "" THEN fs.index.tags[h.t] = h.o ELSE TRUE)
             descend == ~same \/ h.o \in Lists                    \* mSrc is fetched: differing digest or a list
             kids == IF descend THEN Children(h.o) ELSE {}
             kprogs == {<<CopyM("", m, TRUE, refs)>> : m \in kids \cap Manifests}
                       \cup {<<InsO("CopyB", b)>> : b \in kids \ Manifests}
             rprogs == IF refs THEN {<<CopyM("", a, TRUE, refs)>> : a \in SrcReferrers(h.o)} ELSE {}
         IN IF same /\ ~refs THEN <<>>
            ELSE \* the referrers are started while the children are still being copied (the first
                 \* wait loop of imageCopyOpt only polls); everything is joined before the manifest is pushed
                 (IF kprogs \cup rprogs # {} THEN <<[Ins("Spawn") EXCEPT !.p = SetToSeq(kprogs \cup rprogs)], Ins("Wait")>>
                  ELSE <<>>)
                 \o (IF ~same THEN ManPutL(IF h.t # "" THEN h.t ELSE "", h.o, h.c) ELSE <<>>)
    [] h.i = "BlobDel" -> IF h.o \in fs.cas THEN <<InsO("UnlinkBlob", h.o)>> ELSE <<Ins("Fail")>>   \* ENOENT
    [] h.i = "Retag" -> IF HeadTag(h.t) /\ fs.index.tags[h.t] = h.o THEN <<>> ELSE ManPutL(h.t, h.o, FALSE)
    [] h.i = "CopyB2" -> IF h.o \in fs.cas THEN <<>> ELSE <<InsO("BlobPut", h.o)>>      \* BlobCopy: BlobHead first
    [] h.i = "ImpB" -> IF h.o \in fs.cas THEN <<>> ELSE <<InsO("BlobPut", h.o)>>        \* imageImportBlob
    [] h.i = "ImpM" -> IF HeadDig(h.o) THEN <<>> ELSE ManPutL(h.t, h.o, h.c)            \* finish handler: head, then put
    [] h.i = "Import" ->
         LET cl == Closure(h.o)
             inner == (cl \cap Manifests) \ {h.o}
         IN <<[Ins("Any") EXCEPT !.s = cl \ Manifests, !.t = "ImpB"],
              [Ins("Any") EXCEPT !.s = inner, !.t = "ImpMc"],
              [Ins("ImpM") EXCEPT !.o = h.o, !.t = "tar"]>>        \* by digest; carries the archive's own ref.name
            \o ManPutL(h.t, h.o, FALSE)
    [] h.i = "PutParts" ->
         <<[Ins("Any") EXCEPT !.s = Children(h.o) \ Manifests, !.t = "BlobPut"],
           [Ins("Any") EXCEPT !.s = Children(h.o) \cap Manifests, !.t = "PutChild"]>>
    [] h.i = "PutChild" -> <<InsO("PutParts", h.o)>> \o ManPutL("", h.o, TRUE)
    [] OTHER -> <<h>>

RECURSIVE Norm(_)
Norm(st) == IF st = <<>> THEN <<>>
            ELSE IF st[1].i \in Macros THEN Norm(Exp(st[1]) \o Tail(st))
            ELSE st

(* ------------------------------ primitives ----------------------------- *)
Busy(t) == pr.thr[t] # <<>>
KidsOf(t) == {c \in Thr : pr.par[c] = t /\ Busy(c)}
FreeSlots == {c \in Thr : ~Busy(c) /\ c # 1}
TmpCls(f) == fs.tmps[f].cls
CasCls(o) == IF o \in Manifests THEN "casman" ELSE "casblob"

\* label of a system call primitive: <<call, target class, object>>
Label(t, h) ==
  CASE h.i = "Mkdir" -> <<"mkdir", "dir", "">>
    [] h.i = "TruncMarker" -> <<IF fs.marker = "absent" THEN "openat_creat" ELSE "openat_trunc", "marker", "">>
    [] h.i = "WriteMarker" -> <<"write", "marker", "">>
    [] h.i = "CreatTmp" -> <<"openat_creat", h.t \o "tmp", "">>
    [] h.i = "WriteTmp" -> <<"write", TmpCls(pr.loc[t]) \o "tmp", "">>
    [] h.i = "RenameCas" -> <<"rename", CasCls(h.o), h.o>>
    [] h.i = "RenameIndex" -> <<"rename", "index", "">>
    [] h.i = "RenameMarker" -> <<"rename", "marker", "">>
    [] h.i \in {"UnlinkCas", "UnlinkBlob"} -> <<"unlink", CasCls(h.o), h.o>>
    [] OTHER -> <<"silent", "", "">>
SysPrims == {"Mkdir", "TruncMarker", "WriteMarker", "CreatTmp", "WriteTmp", "RenameCas", "RenameIndex", "RenameMarker",
             "UnlinkCas", "UnlinkBlob"}

SetThr(t, st) == [pr.thr EXCEPT ![t] = st]
\* a goroutine that has returned leaves nothing behind
Fin(p) == [p EXCEPT !.loc = [c \in Thr |-> IF p.thr[c] = <<>> THEN 0 ELSE p.loc[c]],
                    !.par = [c \in Thr |-> IF p.thr[c] = <<>> THEN 0 ELSE p.par[c]]]
\* os.CreateTemp picks an unused random name; the model names a temp file by the smallest unused number
NewTmp == CHOOSE f \in 1..(Cardinality(DOMAIN fs.tmps) + 1) : f \notin DOMAIN fs.tmps /\ \A g \in 1..(f - 1) : g \in DOMAIN fs.tmps

\* what the caller's goroutine still does after an error came back to it: the command's rc.Close
ErrPath == IF ctl.scen.gc THEN <<Ins("Close")>> ELSE <<>>
\* one step of thread t: expand macros at the head, then execute ONE primitive
Do(t) ==
  LET st == Norm(pr.thr[t]) IN
  /\ ctl.phase \in {"run", "retry", "follow"}
  /\ pr.thr[t] # <<>>
  /\ LET h == IF st = <<>> THEN Ins("Nop") ELSE st[1]
         rest == IF st = <<>> THEN <<>> ELSE Tail(st)
     IN
     \/ /\ h.i = "Nop"         \* everything left expanded to nothing (e.g. a copy that is skipped)
        /\ pr' = Fin([pr EXCEPT !.thr = SetThr(t, <<>>)]) /\ UNCHANGED <<fs, ctl>>
     \/ /\ h.i = "Lock" /\ pr.mu = 0
        /\ pr' = Fin([pr EXCEPT !.mu = t, !.thr = SetThr(t, rest)]) /\ UNCHANGED <<fs, ctl>>
     \/ /\ h.i = "Unlock"
        /\ pr' = Fin([pr EXCEPT !.mu = 0, !.thr = SetThr(t, rest)]) /\ UNCHANGED <<fs, ctl>>
     \/ /\ h.i = "ClearMod"
        /\ pr' = Fin([pr EXCEPT !.mod = FALSE, !.thr = SetThr(t, rest)]) /\ UNCHANGED <<fs, ctl>>
     \/ /\ h.i = "GcLock"
        /\ pr' = Fin([pr EXCEPT !.gcl = @ + 1, !.thr = SetThr(t, rest)]) /\ UNCHANGED <<fs, ctl>>
     \/ /\ h.i = "GcUnlock"
        /\ pr' = Fin([pr EXCEPT !.gcl = @ - 1, !.thr = SetThr(t, rest)]) /\ UNCHANGED <<fs, ctl>>
     \/ /\ h.i = "Spawn"       \* go func() per child; children land in free thread slots
        /\ Cardinality(FreeSlots) >= Len(h.p)
        /\ LET slots == SetToSeq(FreeSlots)
               slotOf(j) == slots[j]
           IN pr' = Fin([pr EXCEPT !.thr = [c \in Thr |-> IF c = t THEN rest
                                                   ELSE IF \E j \in 1..Len(h.p) : slotOf(j) = c
                                                        THEN h.p[CHOOSE j \in 1..Len(h.p) : slotOf(j) = c]
                                                        ELSE pr.thr[c]],
                               !.par = [c \in Thr |-> IF \E j \in 1..Len(h.p) : slotOf(j) = c THEN t ELSE pr.par[c]]])
        /\ UNCHANGED <<fs, ctl>>
     \/ /\ h.i = "Wait" /\ KidsOf(t) = {}      \* a goroutine reported an error: no manifest is pushed, the error goes up
        /\ pr' = Fin(IF t \notin pr.fl THEN [pr EXCEPT !.thr = SetThr(t, rest)]
                     ELSE IF t = 1 THEN [pr EXCEPT !.thr = SetThr(1, ErrPath), !.gcl = 0, !.fl = {}]
                     ELSE [pr EXCEPT !.thr = SetThr(t, <<>>), !.fl = (@ \ {t}) \cup {pr.par[t]}])
        /\ UNCHANGED <<fs, ctl>>
     \/ /\ h.i = "CopyB"       \* imageSeenOrWait: first copier proceeds, later ones wait for it
        /\ IF h.o \in pr.seen
           THEN pr' = Fin([pr EXCEPT !.thr = SetThr(t, <<InsO("WaitSeen", h.o)>> \o rest)])
           ELSE pr' = Fin([pr EXCEPT !.seen = @ \cup {h.o}, !.thr = SetThr(t, <<InsO("CopyB2", h.o)>> \o rest)])
        /\ UNCHANGED <<fs, ctl>>
     \/ /\ h.i = "WaitSeen" /\ h.o \in fs.cas
        /\ pr' = Fin([pr EXCEPT !.thr = SetThr(t, rest)]) /\ UNCHANGED <<fs, ctl>>
     \/ /\ h.i = "Any"         \* the members of h.s in any order (directory / archive / caller order)
        /\ IF h.s = {} THEN pr' = Fin([pr EXCEPT !.thr = SetThr(t, rest)])
           ELSE \E x \in h.s :
                  LET one == CASE h.t = "ImpMc" -> [Ins("ImpM") EXCEPT !.o = x, !.c = TRUE]
                               [] OTHER -> InsO(h.t, x)
                  IN pr' = Fin([pr EXCEPT !.thr = SetThr(t, <<one, [h EXCEPT !.s = @ \ {x}]>> \o rest)])
        /\ UNCHANGED <<fs, ctl>>
     \/ /\ h.i = "Fail"        \* the operation returns an error: nothing more is written
        /\ pr' = Fin([pr EXCEPT !.thr = [c \in Thr |-> <<>>], !.mu = 0])
        /\ ctl' = [ctl EXCEPT !.phase = "done", !.res = "err"] /\ UNCHANGED fs
     \/ /\ h.i = "Sweep"       \* close.go: os.Remove of every unmarked file below blobs/<alg>/
        /\ IF h.s = {} /\ h.u = {} THEN pr' = Fin([pr EXCEPT !.thr = SetThr(t, rest)]) /\ UNCHANGED fs
           ELSE \/ \E o \in h.s : /\ fs' = [fs EXCEPT !.cas = @ \ {o}]
                                  /\ pr' = Fin([pr EXCEPT !.thr = SetThr(t, <<[h EXCEPT !.s = @ \ {o}]>> \o rest)])
                \/ \E f \in h.u : /\ fs' = [fs EXCEPT !.tmps = RestrictTo(@, DOMAIN @ \ {f})]
                                  /\ pr' = Fin([pr EXCEPT !.thr = SetThr(t, <<[h EXCEPT !.u = @ \ {f}]>> \o rest)])
        /\ UNCHANGED ctl
     \* ---- system calls ----
     \/ /\ h.i = "Mkdir"
        /\ fs' = [fs EXCEPT !.dirs = @ \cup {h.o}]
        /\ pr' = Fin([pr EXCEPT !.thr = SetThr(t, rest)]) /\ UNCHANGED ctl
     \/ /\ h.i = "TruncMarker"          \* os.Create: O_CREAT|O_TRUNC
        /\ fs' = [fs EXCEPT !.marker = "empty"]
        /\ pr' = Fin([pr EXCEPT !.thr = SetThr(t, rest)]) /\ UNCHANGED ctl
     \/ /\ h.i = "WriteMarker"
        /\ fs' = [fs EXCEPT !.marker = "complete"]
        /\ pr' = Fin([pr EXCEPT !.thr = SetThr(t, rest)]) /\ UNCHANGED ctl
     \/ /\ h.i = "CreatTmp"             \* os.CreateTemp: O_CREAT|O_EXCL, fresh name
        /\ fs' = [fs EXCEPT !.tmps = [f \in DOMAIN @ \cup {NewTmp} |->
                     IF f = NewTmp THEN [cls |-> h.t, o |-> h.o, v |-> h.v, w |-> 0] ELSE @[f]]]
        /\ pr' = Fin([pr EXCEPT !.loc = [@ EXCEPT ![t] = NewTmp], !.thr = SetThr(t, rest)]) /\ UNCHANGED ctl
     \/ /\ h.i = "WriteTmp"
        /\ fs' = [fs EXCEPT !.tmps = [@ EXCEPT ![pr.loc[t]].w = @ + 1]]
        /\ pr' = Fin([pr EXCEPT !.thr = SetThr(t, rest)]) /\ UNCHANGED ctl
     \/ /\ h.i = "RenameCas"            \* the temp file is complete here (all chunks written, digest verified)
        /\ fs' = [fs EXCEPT !.cas = @ \cup {h.o}, !.tmps = RestrictTo(@, DOMAIN @ \ {pr.loc[t]})]
        /\ pr' = Fin([pr EXCEPT !.mod = TRUE, !.thr = SetThr(t, rest)]) /\ UNCHANGED ctl
     \/ /\ h.i = "RenameIndex"
        /\ fs' = [fs EXCEPT !.index = fs.tmps[pr.loc[t]].v, !.tmps = RestrictTo(@, DOMAIN @ \ {pr.loc[t]})]
        /\ pr' = Fin([pr EXCEPT !.mod = TRUE, !.thr = SetThr(t, rest)]) /\ UNCHANGED ctl
     \/ /\ h.i = "RenameMarker"
        /\ fs' = [fs EXCEPT !.marker = "complete", !.tmps = RestrictTo(@, DOMAIN @ \ {pr.loc[t]})]
        /\ pr' = Fin([pr EXCEPT !.thr = SetThr(t, rest)]) /\ UNCHANGED ctl
     \/ /\ h.i = "UnlinkBlob" /\ h.o \in fs.cas      \* BlobDelete does not mark the repository as modified
        /\ fs' = [fs EXCEPT !.cas = @ \ {h.o}]
        /\ pr' = Fin([pr EXCEPT !.thr = SetThr(t, rest)]) /\ UNCHANGED ctl
     \/ /\ h.i = "UnlinkCas"
        /\ fs' = [fs EXCEPT !.cas = @ \ {h.o}]
        /\ pr' = Fin([pr EXCEPT !.mod = TRUE, !.thr = SetThr(t, rest)]) /\ UNCHANGED ctl

(* ------------------------------ start states --------------------------- *)
AllDirs == {"root", "blobs", "alg"}
Layout(tags, un, cas) == [marker |-> "complete", index |-> [ex |-> TRUE, tags |-> tags, un |-> un], cas |-> cas, tmps |-> <<>>, dirs |-> AllDirs]
T1(t, o) == [x \in {t} |-> o]
T2(t1, o1, t2, o2) == [x \in {t1, t2} |-> IF x = t1 THEN o1 ELSE o2]
StartFS(s) ==
  CASE s = "E" -> [marker |-> "absent", index |-> NoIdx, cas |-> {}, tmps |-> <<>>, dirs |-> {}]
    [] s = "E0" -> [marker |-> "absent", index |-> NoIdx, cas |-> {}, tmps |-> <<>>, dirs |-> {"root"}]
    [] s = "P1" -> Layout(T1("v1", "M1"), {}, Closure("M1"))
    [] s = "P2" -> Layout(T2("v1", "M1", "v2", "M2"), {}, Closure("M1") \cup Closure("M2"))
    [] s = "PX" -> Layout(T2("v1", "M1", "ix", "IX"), {}, Closure("IX"))
    [] s = "PB" -> Layout([x \in {"v1", "cache", "nest"} |-> CASE x = "v1" -> "M1" [] x = "cache" -> "IB" [] OTHER -> "IN"], {},
                          Closure("M1") \cup Closure("IB") \cup Closure("IN"))
    [] s = "PR" -> Layout(T2("v1", "M1", Fb("M1"), "RLa"), {}, Closure("M1") \cup Closure("RLa"))
    [] s = "PR2" -> Layout(T2("v1", "M1", Fb("M1"), "RLab"), {"A2"}, Closure("M1") \cup Closure("RLab"))
    [] s = "PT" -> [Layout(T2("v1", "M1", "v2", "M2"), {}, Closure("M1") \cup Closure("M2") \cup {"L4"})
                     EXCEPT !.tmps = <<[cls |-> "blob", o |-> "", v |-> EmptyIdx, w |-> 0],
                                      [cls |-> "index", o |-> "", v |-> EmptyIdx, w |-> 0]>>]

NoThreads == [c \in Thr |-> <<>>]
FreshProc(prog) == [thr |-> [NoThreads EXCEPT ![1] = prog], par |-> [c \in Thr |-> 0], loc |-> [c \in Thr |-> 0],
                    mu |-> 0, mod |-> FALSE, gcl |-> 0, seen |-> {}, fl |-> {}]

Init == \E sc \in Scenarios :
          /\ fs = StartFS(sc.start)
          /\ pr = FreshProc(OpProg(sc))
          /\ ctl = [phase |-> "run", crashes |-> 0, scen |-> sc, res |-> "", fol |-> FALSE, faults |-> 0, rt |-> FALSE]

Step == \E t \in Thr : Do(t)

\* the caller's goroutine has nothing left to do: the operation returned nil
Return == /\ ctl.phase \in {"run", "retry", "follow"} /\ \A c \in Thr : ~Busy(c)
          /\ ctl' = [ctl EXCEPT !.phase = "done", !.res = IF ctl.phase = "run" /\ ctl.faults > 0 THEN "err" ELSE "ok"]
          /\ UNCHANGED <<fs, pr>>

\* INTERRUPTION WITHOUT DEATH: the system call thread t is about to make returns an error (or, for a copy
\* goroutine, its source reader fails: cancelled context, broken connection - the same place in ocidir.BlobPut:
\* io.Copy returns an error).  The directory is not changed by the failed call; the function returns the error
\* (mutex released by the deferred unlock, temp file left where it is).  In the caller's goroutine the command's
\* Close follows (a failing os.Remove inside the sweep ends Close itself); a copy goroutine reports to its parent,
\* which joins all children first (image.go: the wait loop drains waitCh) and then returns without ManifestPut.
Fault(t) ==
  LET st == Norm(pr.thr[t]) IN
  /\ ctl.phase = "run" /\ ctl.faults < MaxFault
  /\ st # <<>>
  /\ st[1].i \in SysPrims \/ (st[1].i = "Sweep" /\ (st[1].s # {} \/ st[1].u # {}))
  /\ LET mu2 == IF pr.mu = t THEN 0 ELSE pr.mu IN
     pr' = Fin(IF t = 1 THEN [pr EXCEPT !.thr = SetThr(1, IF st[1].i = "Sweep" THEN <<>> ELSE ErrPath), !.mu = mu2, !.gcl = 0]
               ELSE [pr EXCEPT !.thr = SetThr(t, <<>>), !.mu = mu2, !.fl = @ \cup {pr.par[t]}])
  /\ ctl' = [ctl EXCEPT !.faults = @ + 1]
  /\ UNCHANGED fs

\* SIGKILL: the directory stays as it is, the process and everything it knew is gone
\* temp files that nobody will ever finish: only where they lie matters from now on (below blobs/<alg>/ the
\* garbage collection removes them, elsewhere they stay), so they are reduced to one representative each
Leftovers ==
  LET inBlobs == \E f \in DOMAIN fs.tmps : fs.tmps[f].cls \in {"blob", "man"}
      inRoot == \E f \in DOMAIN fs.tmps : fs.tmps[f].cls \in {"index", "marker"}
      L(cls) == [cls |-> cls, o |-> "", v |-> EmptyIdx, w |-> 0]
  IN IF inBlobs /\ inRoot THEN <<L("blob"), L("index")>>
     ELSE IF inBlobs THEN <<L("blob")>> ELSE IF inRoot THEN <<L("index")>> ELSE <<>>
Crashable == MarkerWindow \/ fs.marker # "empty"
Crash == /\ ctl.phase \in {"run", "retry"} /\ ctl.crashes < MaxCrash
         /\ Crashable
         /\ pr' = FreshProc(<<>>)
         /\ fs' = [fs EXCEPT !.tmps = Leftovers]
         /\ ctl' = [ctl EXCEPT !.phase = "crashed", !.crashes = @ + 1]

\* a new process repeats the interrupted operation
\* (also after the process returned through its error path: phase "done" of a first attempt with a fault)
Retry == /\ ctl.phase = "crashed" \/ (ctl.phase = "done" /\ ctl.faults > 0 /\ ~ctl.rt /\ ctl.crashes = 0 /\ ~ctl.fol)
         /\ pr' = FreshProc(OpProg(ctl.scen))
         /\ ctl' = [ctl EXCEPT !.phase = "retry", !.rt = TRUE] /\ UNCHANGED fs

\* instead of the retry: a new process runs ANOTHER operation that should complete the content (scen.f = import /
\* copy of the image concerned under tag f.t, followed by Close) on the directory the crash left behind
NoF == [kind |-> "", t |-> "", o |-> ""]
FollowScen == [ctl.scen EXCEPT !.kind = ctl.scen.f.kind, !.t = ctl.scen.f.t, !.o = ctl.scen.f.o, !.gc = TRUE, !.f = NoF]
Follow == /\ ctl.phase = "crashed" /\ ctl.scen.f.kind # ""
          /\ pr' = FreshProc(OpProg(FollowScen))
          /\ ctl' = [ctl EXCEPT !.phase = "follow", !.fol = TRUE] /\ UNCHANGED fs

Next == Step \/ Return \/ Crash \/ Retry \/ Follow \/ (\E t \in Thr : Fault(t))
Spec == Init /\ [][Next]_vars

(* ------------------ observation of a state, judged by (P) -------------- *)
\* what the independent checker would report about fs
PreIdx == StartFS(ctl.scen.start).index
TagSeq(ix) == SetToSeq(TagsOf(ix))
Complete(o) == Closure(o) \subseteq fs.cas
ObsState ==
  LET ix == fs.index
      ts == TagSeq(ix)
  IN [marker |-> fs.marker, index |-> IF fs.index.ex THEN "ok" ELSE "absent",
      tag_t |-> ts, tag_d |-> [j \in 1..Len(ts) |-> ix.tags[ts[j]]],
      untagged |-> SetToSeq(ix.un), badfiles |-> <<>>,     \* digest-named files appear by rename only
      dangling |-> SetToSeq({t \in TagsOf(ix) : ~Complete(ix.tags[t])}),
      has |-> IF ctl.scen.o \in fs.cas THEN 1 ELSE 0]
\* what a fresh client would report
ObsFresh ==
  LET ok == Readable
      ix == IF ok THEN fs.index ELSE NoIdx
      rs == SetToSeq({t \in TagsOf(ix) : ix.tags[t] \in fs.cas})
      subj == IF ctl.scen.kind = "copy_ref" THEN ctl.scen.o ELSE Subject(ctl.scen.o)
      rl == IF subj = "" THEN [st |-> "ok", s |-> {}] ELSE RefList(subj)
  IN [tl |-> IF ok THEN "ok" ELSE "err",
      res_t |-> rs, res_d |-> [j \in 1..Len(rs) |-> ix.tags[rs[j]]],
      unres |-> SetToSeq({t \in TagsOf(ix) : ix.tags[t] \notin fs.cas}),
      broken |-> SetToSeq({t \in TagsOf(ix) : ix.tags[t] \in fs.cas /\ ~Complete(ix.tags[t])}),
      refs |-> SetToSeq(rl.s),
      refs_err |-> IF rl.st # "ok" THEN 1 ELSE 0]
Obs == [x \in DOMAIN ObsState \cup DOMAIN ObsFresh |-> IF x \in DOMAIN ObsState THEN ObsState[x] ELSE ObsFresh[x]]

\* the operation as (P) is told about it (header of a trace)
OpRec ==
  LET sc == ctl.scen
      subj == IF sc.kind = "copy_ref" THEN sc.o ELSE IF sc.kind \in {"put_ref", "put_refd", "man_delete"} THEN Subject(sc.o) ELSE ""
  IN [kind |-> sc.kind, optag |-> sc.t, opobj |-> sc.o, subj |-> subj, fbtag |-> IF subj = "" THEN "" ELSE Fb(subj),
      wantrefs |-> CASE sc.kind \in {"put_ref", "put_refd"} -> <<sc.o>>
                     [] sc.kind = "copy_ref" -> SetToSeq(SrcReferrers(sc.o))
                     [] OTHER -> <<>>,
      norefs |-> IF sc.kind = "man_delete" /\ subj # "" THEN <<sc.o>> ELSE <<>>]
Targets ==
  LET sc == ctl.scen IN
  (IF sc.t # "" THEN {sc.t} ELSE {})
  \cup (IF OpRec.subj # "" THEN {OpRec.fbtag} ELSE {})
  \cup (IF sc.kind = "man_delete" THEN {t \in TagsOf(PreIdx) : PreIdx.tags[t] = sc.o} ELSE {})

EstM == StartFS(ctl.scen.start).marker = "complete"
EstI == StartFS(ctl.scen.start).index.ex
Targets2 == Targets \cup (IF ctl.fol THEN {ctl.scen.f.t} ELSE {})     \* tags named by either operation of the history
P == INSTANCE LayoutFSProp WITH pre <- PreIdx.tags, tgt <- Targets2, op <- OpRec, estM <- EstM, estI <- EstI,
                                k <- 0, bad <- <<>>

\* O1-O4: every state is a crash state (also the states of the retry: it may be killed too)
CrashStateOK == Crashable => P!Failing(P!StateChecks(Obs, EstM, EstI) \o P!FreshChecks(Obs, EstM, EstI)) = <<>>
\* O5: the uninterrupted operation returned success => the intended state is there, completely
ReturnOK == (ctl.phase = "done" /\ ctl.crashes = 0 /\ ctl.faults = 0) =>
              /\ ctl.res = (IF ctl.scen.kind \in {"blob_bad", "man_bad"} THEN "err" ELSE "ok")
              /\ P!Failing(P!StateChecks(Obs, TRUE, EstI) \o P!FreshChecks(Obs, TRUE, EstI) \o P!GoalChecks(Obs, "O5")) = <<>>
\* O6: after crash(es) and a completed repetition the intended state is there (the repetition itself
\* may report an error, e.g. "not found" when the interrupted delete had already happened)
\* a crash state followed by another operation: when that operation returned success its tag resolves to its
\* image, and (CrashStateOK, every state) no tag that neither operation names changed and no tag is dangling
FollowOK == (ctl.phase = "done" /\ ctl.fol /\ ctl.res = "ok") =>
              LET f == ctl.scen.f
                  ix == fs.index
              IN /\ Readable /\ f.t \in TagsOf(ix) /\ ix.tags[f.t] = f.o /\ Complete(f.o)
                 /\ P!Failing(P!StateChecks(Obs, TRUE, TRUE) \o P!FreshChecks(Obs, TRUE, TRUE)) = <<>>
\* (the same after an interruption without death: error return / failing source reader, then the repetition)
FaultRetOK == (ctl.phase = "done" /\ ctl.faults > 0 /\ ctl.crashes = 0 /\ ~ctl.rt) => ctl.res = "err"
RetryOK == (ctl.phase = "done" /\ (ctl.crashes > 0 \/ ctl.rt) /\ ~ctl.fol) =>
              P!Failing(P!StateChecks(Obs, TRUE, EstI) \o P!FreshChecks(Obs, TRUE, EstI) \o P!GoalChecks(Obs, "O6")) = <<>>
\* sanity of the model itself
TypeOK == /\ fs.marker \in {"absent", "empty", "complete"}
          /\ pr.mu \in 0..MaxT /\ pr.gcl \in 0..1
          /\ \A c \in Thr : Busy(c) \/ c = 1 \/ pr.par[c] \in 0..MaxT
\* no thread is stuck while the operation runs (locks are released, waits end)
NoStuck == (ctl.phase \in {"run", "retry", "follow"} /\ \E c \in Thr : Busy(c)) => ENABLED Step
=============================================================================

------------------------------- MODULE Regbot -------------------------------
(***************************************************************************)
(* C19 (D) - design spec of `regbot once [--dry-run]`: a config of NS Lua  *)
(* scripts over the documented API runs against a world W (two registries, *)
(* one OCI layout).  One operator per sandbox binding, shaped like the     *)
(* code: argument checks, throttle acquisition, dry-run gate, side effect. *)
(*                                                                         *)
(* Code mirrored (cmd/regbot):                                             *)
(*   root.go:runOnce          Sched / CanRun: scripts one after the other  *)
(*                            (parallel <= 0) or all started at once       *)
(*   root.go:loadConf         throttle = pqueue of size max(1, parallel)   *)
(*   root.go:process          one sandbox per script; an error of a script *)
(*                            is logged and the loop goes on (Fail)        *)
(*   sandbox.go:RunScript     Begin/Raise/Finish, pcall = field p          *)
(*   repo.go:repoLs           RepoLs         tag.go:tagLs       TagLs      *)
(*   tag.go:tagDelete         TagDelete (gate before rc.TagDelete)         *)
(*   manifest.go:manifestGetWithOpts, rcManifestGet  ManifestGet           *)
(*   manifest.go:manifestHead ManifestGet(head)                            *)
(*   manifest.go:manifestDelete  MDelete (gate before rc.ManifestDelete)   *)
(*   manifest.go:manifestPut  ManifestPut (gate before rc.ManifestPut)     *)
(*   manifest.go:manifestExport, imageRateLimit  MExport, MRateLimit       *)
(*   blob.go:blobGet/blobHead BlobGet                                      *)
(*   blob.go:blobPut          BlobPut (dry run: the content is read and    *)
(*                            hashed, digest and size returned, no push)   *)
(*   image.go:configGet       ConfigPre (checkManifest), then Acquire,     *)
(*                            then ConfigIn (Imager, GetConfig, blob get)  *)
(*   image.go:imageCopy       CopyPre (checkReference x2), Acquire,        *)
(*                            CopyIn (gate, rc.ImageCopy)                  *)
(*   image.go:imageImportTar  ImportPre, Acquire, ImportIn (os.Open, gate, *)
(*                            rc.ImageImport)                              *)
(*   image.go:imageExportTar  ExportPre, Acquire, ExportIn (os.Create,     *)
(*                            rc.ImageExport)                              *)
(*   image.go:imageRateLimitWait  RateLimitWait                            *)
(*   reference.go:newReference, referenceGetSetTag/Digest, closeReference  *)
(*   internal/pqueue Acquire/release: Acquire(s) / the release in Body(s)  *)
(*                                                                         *)
(* The spec describes the code as it is since commit 003c17b: EVERY write  *)
(* binding tests the dry-run switch before its side effect, every          *)
(* throttled binding gives its slot back on every path (`defer done()`),   *)
(* no read binding looks at the switch.  Three switches (all empty in the  *)
(* C19_mc_* and C19_gen configs) re-create other behaviours:               *)
(*   Ungated    write bindings WITHOUT the gate.  The code as found before *)
(*              003c17b is Ungated = AsFoundUngated (manifest.put, m:put,  *)
(*              blob.put, b:put, image.importTar): C19_mc_asfound.cfg,     *)
(*              finding C19-1, seeded/fixrev-C19-1                         *)
(*   LeakOnErr  throttled bindings that keep the slot on their error paths *)
(*              (seeded/C19-1 = {image.config, m:config}): C19_mc_leak.cfg *)
(*   StubReads  read bindings that would answer without asking the world   *)
(*              in a dry run: C19_mc_stub.cfg                              *)
(*                                                                         *)
(* Deliberate deviations: contents are ideal (manifest and blob ids, no    *)
(* bytes, no media types: the generator's dimensions mt / feat / tmo / cmd *)
(* / verb / logfmt / cfgin are realised by the driver only); a registry    *)
(* repository exists once it holds an object, a layout can be listed once  *)
(* it has an index; paging,                                                *)
(* authentication, retries, referrers, the per-script timeout (a blocked   *)
(* Acquire is a deadlock here; the real one ends with the timeout) and     *)
(* the tar file formats are left out; a foreach governs one statement      *)
(* (optionally behind a guard), a guard governs one statement.             *)
(***************************************************************************)
EXTENDS RegbotAPI, Integers, Sequences, FiniteSets, TLC

CONSTANTS Ungated, LeakOnErr, StubReads, NS

AsFoundUngated == {"manifest.put", "m:put", "blob.put", "b:put", "image.importTar"}
Gated == WriteOps \ Ungated                  \* default (Ungated = {}): all of WriteOps
RelOnErr == ThrottledOps \ LeakOnErr         \* default (LeakOnErr = {}): all of ThrottledOps

Scripts == 1..NS

(* ------------------------------- world -------------------------------- *)
Locs == {"a1", "a2", "b1", "lay"}
Regs == {"rega", "regb"}
RegOf == [a1 |-> "rega", a2 |-> "rega", b1 |-> "regb", lay |-> "lay"]
RepoOf == [a1 |-> "repo1", a2 |-> "repo2", b1 |-> "repo1", lay |-> "lay"]
Mids == {"M1", "M2", "IX", "HM"}           \* amd64 image, arm64 image, index of both; HM = the empty
                                           \* manifest that results from putting / exporting the
                                           \* body-less object of a head request
Bids == {"C1", "L1", "C2", "L2", "S"}      \* configs, layers, S = a blob pushed from a string
Kids == [M1 |-> {"C1", "L1"}, M2 |-> {"C2", "L2"}, IX |-> {"M1", "M2"}, HM |-> {}]
Closure(m) == IF m = "IX" THEN {"IX", "M1", "M2", "C1", "L1", "C2", "L2"} ELSE {m} \cup Kids[m]
CfgOf == [M1 |-> "C1", M2 |-> "C2"]
HasCfg(m) == m \in {"M1", "M2"}
TagNames == {"ix", "new", "v1"}            \* the tag "none" exists nowhere, ever
TagOrder == <<"ix", "new", "v1">>          \* listing order (sorted)
None == "-"
NoTags == [t \in TagNames |-> None]
\* idx: the layout directory has an index.json (a layout that only ever received blobs has none
\* and cannot be listed)
MkWorld(tg) == [tag |-> tg,
                obj |-> [l \in Locs |-> UNION {Closure(tg[l][t]) : t \in {u \in TagNames : tg[l][u] # None}}],
                idx |-> \E t \in TagNames : tg["lay"][t] # None]
Indexed(w, l) == [w EXCEPT !.idx = @ \/ l = "lay"]
WorldA == MkWorld([a1 |-> [NoTags EXCEPT !.v1 = "M1", !.ix = "IX"], a2 |-> NoTags,
                   b1 |-> [NoTags EXCEPT !.v1 = "M2"], lay |-> [NoTags EXCEPT !.v1 = "M1", !.ix = "IX"]])
WorldB == MkWorld([a1 |-> [NoTags EXCEPT !.v1 = "M1", !.ix = "IX"], a2 |-> [NoTags EXCEPT !.v1 = "M1"],
                   b1 |-> NoTags, lay |-> [NoTags EXCEPT !.v1 = "M2"]])
\* N: the layout directory does not exist at all
WorldN == MkWorld([a1 |-> [NoTags EXCEPT !.v1 = "M1", !.ix = "IX"], a2 |-> NoTags,
                   b1 |-> [NoTags EXCEPT !.v1 = "M2"], lay |-> NoTags])
Worlds == [A |-> WorldA, B |-> WorldB, N |-> WorldN]
Exists(w, l) == w.obj[l] # {}
TagSeq(w, l) == SelectSeq(TagOrder, LAMBDA t : w.tag[l][t] # None)

(* ------------------------------ values -------------------------------- *)
NoM == [id |-> None, loc |-> None, tag |-> None, head |-> FALSE]
NoB == [id |-> None, loc |-> None, rd |-> FALSE]
NoC == [id |-> None, loc |-> None, tag |-> None]
NoR == [loc |-> "nil", tag |-> ""]
BadR == [loc |-> "bad", tag |-> ""]
NoEnv == [m |-> NoM, b |-> NoB, c |-> NoC, r |-> NoR, lt |-> "", lloc |-> ""]
NoStmt == [op |-> "", l1 |-> "", t1 |-> "", l2 |-> "", t2 |-> "", p |-> ""]
NoCtl == [guard |-> "none", body |-> <<>>, bi |-> 0, tags |-> <<>>, base |-> 0]
NoCur == [st |-> NoStmt, k |-> 0]

\* reference.go:checkReference - a string, a reference object, a manifest or a config
RefArg(l, t, e) ==
  CASE l = "bad" -> BadR
    [] l = "$m" -> IF e.m.id = None THEN NoR ELSE [loc |-> e.m.loc, tag |-> e.m.tag]
    [] l = "$c" -> IF e.c.id = None THEN NoR ELSE [loc |-> e.c.loc, tag |-> e.c.tag]
    [] l = "$r" -> e.r
    [] l = "@" -> [loc |-> e.lloc, tag |-> e.lt]
    [] OTHER -> [loc |-> l, tag |-> IF t = "@" THEN e.lt ELSE t]
Valid(r) == r.loc \in Locs
Lookup(w, r) == IF ~Valid(r) THEN None
                ELSE IF r.tag \in Mids THEN (IF r.tag \in w.obj[r.loc] THEN r.tag ELSE None)
                ELSE IF r.tag \in TagNames THEN w.tag[r.loc][r.tag] ELSE None
\* manifest.go:rcManifestGet - an index is resolved to the platform's image unless a list is wanted
Resolve(w, loc, id, plat) ==
  IF id # "IX" THEN id
  ELSE LET c == IF plat = "linux/arm64" THEN "M2" ELSE "M1" IN IF c \in w.obj[loc] THEN c ELSE None
RefStr(r) == IF r.tag = "" THEN r.loc ELSE r.loc \o ":" \o r.tag
RECURSIVE Join(_)
Join(sq) == IF sq = <<>> THEN "" ELSE IF Len(sq) = 1 THEN sq[1] ELSE sq[1] \o "," \o Join(Tail(sq))

(* ------------------- bindings: outcome of one call -------------------- *)
Fail(w, e) == [ok |-> FALSE, val |-> "err", w |-> w, e |-> e, tar |-> FALSE]
Ok(v, w, e) == [ok |-> TRUE, val |-> v, w |-> w, e |-> e, tar |-> FALSE]
Skip(op, dry) == dry /\ op \in Gated          \* the dry-run gate of a write binding

\* repo.ls+limit = repo.ls(host, {limit = 1}): the first page of one entry
RepoLs(st, w, e) ==
  LET all == SelectSeq(<<"a1", "a2", "b1">>, LAMBDA l : RegOf[l] = st.l1 /\ Exists(w, l)) IN
  IF st.l1 \notin Regs THEN Fail(w, e)
  ELSE Ok(Join(IF st.op = "repo.ls+limit" /\ all # <<>> THEN <<all[1]>> ELSE all), w, e)

TagLs(st, w, e) ==
  LET r == RefArg(st.l1, st.t1, e) IN
  IF ~Valid(r) \/ ~Exists(w, r.loc) \/ (r.loc = "lay" /\ ~w.idx) THEN Fail(w, e) ELSE Ok(Join(TagSeq(w, r.loc)), w, e)

ManifestGet(st, w, e) ==
  LET r == IF st.op \in {"m:get", "m:head"} THEN RefArg("$m", "", e) ELSE RefArg(st.l1, st.t1, e)
      id == Lookup(w, r)
      head == st.op \in ManifestHeadOps
      rid == IF head \/ st.op \in ManifestListOps THEN id ELSE Resolve(w, r.loc, id, st.l2) IN
  IF ~Valid(r) \/ id = None \/ rid = None THEN Fail(w, e)
  ELSE Ok(IF head THEN "head" ELSE rid, w, [e EXCEPT !.m = [id |-> rid, loc |-> r.loc, tag |-> r.tag, head |-> head]])

\* manifest.go:manifestExport - of a head object: GetOrig() is the zero manifest, the result is HM
MExport(st, w, e) ==
  IF e.m.id = None THEN Fail(w, e)
  ELSE IF e.m.head THEN Ok("HM", w, [e EXCEPT !.m.id = "HM", !.m.head = FALSE])
  ELSE Ok(e.m.id, w, e)
CExport(st, w, e) == IF e.c.id = None THEN Fail(w, e) ELSE Ok(e.c.id, w, e)
MRateLimit(st, w, e) == IF e.m.id = None THEN Fail(w, e) ELSE Ok("ratelimit", w, e)
RateLimitWait(st, w, e) ==
  LET r == IF st.op = "m:ratelimitWait" THEN RefArg("$m", "", e) ELSE RefArg(st.l1, st.t1, e) IN
  IF Lookup(w, r) = None THEN Fail(w, e) ELSE Ok("true", w, e)

\* the method forms <blob>:get / <blob>:head hand the blob object to checkReference, which
\* refuses it: they always fail (like <blob>:put)
BlobGet(st, w, e) ==
  LET r == RefArg(st.l1, st.t1, e) IN
  IF st.op \in {"b:get", "b:head"} \/ ~Valid(r) \/ st.l2 \notin w.obj[r.loc] THEN Fail(w, e)
  ELSE Ok("blob", w, [e EXCEPT !.b = [id |-> st.l2, loc |-> r.loc, rd |-> st.op = "blob.get"]])

ReferenceNew(st, w, e) ==
  LET r == RefArg(st.l1, st.t1, e) IN IF ~Valid(r) THEN Fail(w, e) ELSE Ok(RefStr(r), w, [e EXCEPT !.r = r])
RefTag(st, w, e) ==
  IF ~Valid(e.r) THEN Fail(w, e)
  ELSE IF st.l2 = "" THEN Ok(e.r.tag, w, e)
  ELSE Ok(RefStr([e.r EXCEPT !.tag = st.l2]), w, [e EXCEPT !.r.tag = st.l2])
RefDigest(st, w, e) == IF ~Valid(e.r) THEN Fail(w, e) ELSE Ok(IF e.r.tag \in Mids THEN e.r.tag ELSE "", w, e)
ReferenceClose(st, w, e) ==
  IF ~Valid(IF st.op = "r:close" THEN e.r ELSE RefArg(st.l1, st.t1, e)) THEN Fail(w, e) ELSE Ok("closed", w, e)

TagDelete(st, w, e, dry) ==
  LET r == RefArg(st.l1, st.t1, e) IN
  IF ~Valid(r) THEN Fail(w, e)
  ELSE IF Skip(st.op, dry) THEN Ok("done", w, e)
  ELSE IF r.tag \notin TagNames \/ w.tag[r.loc][r.tag] = None THEN Fail(w, e)
  ELSE Ok("done", [w EXCEPT !.tag[r.loc][r.tag] = None], e)

\* deletes the manifest the object holds (for a platform-resolved get: the platform's image)
MDelete(st, w, e, dry) ==
  LET m == e.m IN
  IF m.id = None THEN Fail(w, e)
  ELSE IF Skip(st.op, dry) THEN Ok("done", w, e)
  ELSE IF m.id \notin w.obj[m.loc] THEN Fail(w, e)
  ELSE Ok("done", [w EXCEPT !.obj[m.loc] = @ \ {m.id},
                            !.tag[m.loc] = [t \in TagNames |-> IF @[t] = m.id THEN None ELSE @[t]]], e)

\* manifest.New(WithOrig(m.GetOrig())): for the object of a head request that is the zero manifest HM
ManifestPut(st, w, e, dry) ==
  LET r == RefArg(st.l1, st.t1, e)
      id == IF e.m.head THEN "HM" ELSE e.m.id IN
  IF e.m.id = None \/ ~Valid(r) THEN Fail(w, e)
  ELSE IF Skip(st.op, dry) THEN Ok("done", w, e)
  ELSE Ok("done", Indexed([w EXCEPT !.obj[r.loc] = @ \cup {id},
                                    !.tag[r.loc] = IF r.tag \in TagNames THEN [@ EXCEPT ![r.tag] = id] ELSE @], r.loc), e)

\* content: a string (l2 = "str"), a blob object ($b; only one from blob.get carries a reader, and
\* the reader is used up by the push) or a config object ($c)
BlobPut(st, w, e, dry) ==
  LET r == RefArg(st.l1, st.t1, e)
      id == CASE st.l2 = "$b" -> IF e.b.rd THEN e.b.id ELSE None
              [] st.l2 = "$c" -> e.c.id
              [] OTHER -> "S" IN
  \* (a string content is read with CheckString(1), the reference: an object there is an error)
  IF st.op = "b:put" \/ ~Valid(r) \/ id = None \/ (id = "S" /\ st.l1 \in {"$r", "$m", "$c", "@"}) THEN Fail(w, e)
  ELSE IF Skip(st.op, dry) THEN Ok("blob:" \o id, w, IF st.l2 = "$b" THEN [e EXCEPT !.b.rd = FALSE] ELSE e)
  ELSE Ok("blob:" \o id, [w EXCEPT !.obj[r.loc] = @ \cup {id}], IF st.l2 = "$b" THEN [e EXCEPT !.b.rd = FALSE] ELSE e)

\* throttled bindings: Pre = what happens before throttle.Acquire, In = what happens holding the slot
\* <manifest>:config on the object of a get of an image: the exported field `config` (the
\* descriptor) hides the method, Lua fails with "attempt to call a non-function object"
ConfigPre(st, w, e) ==
  IF st.op = "m:config" /\ ~e.m.head /\ e.m.id \in {"M1", "M2", "HM"} THEN Fail(w, e)
  ELSE IF st.op = "m:config" \/ st.l1 = "$m" THEN (IF e.m.id = None THEN Fail(w, e) ELSE Ok("", w, e))
  ELSE LET r == RefArg(st.l1, st.t1, e)
           id == Lookup(w, r)
           rid == Resolve(w, r.loc, id, "") IN
       IF ~Valid(r) \/ id = None \/ rid = None THEN Fail(w, e)
       ELSE Ok("", w, [e EXCEPT !.m = [id |-> rid, loc |-> r.loc, tag |-> r.tag, head |-> FALSE]])
\* (the manifest fetched by checkManifest is local to the call; the spec parks it in e.m of a scratch
\* environment, see Begin/Body)
ConfigIn(st, w, e, m) ==
  IF ~HasCfg(m.id) \/ m.head \/ CfgOf[m.id] \notin w.obj[m.loc] THEN Fail(w, e)
  ELSE Ok(CfgOf[m.id], w, [e EXCEPT !.c = [id |-> CfgOf[m.id], loc |-> m.loc, tag |-> m.tag]])

CopyPre(st, w, e) ==
  IF Valid(RefArg(st.l1, st.t1, e)) /\ Valid(RefArg(st.l2, st.t2, e)) THEN Ok("", w, e) ELSE Fail(w, e)
CopyIn(st, w, e, dry) ==
  LET src == RefArg(st.l1, st.t1, e)
      tgt == RefArg(st.l2, st.t2, e)
      id == Lookup(w, src) IN
  IF Skip(st.op, dry) THEN Ok("done", w, e)
  ELSE IF id = None THEN Fail(w, e)
  ELSE Ok("done", Indexed([w EXCEPT !.obj[tgt.loc] = @ \cup (IF st.op = "image.copy+pf" THEN Closure(id) \ Closure("M2") ELSE Closure(id)),
                                    !.tag[tgt.loc] = IF tgt.tag \in TagNames THEN [@ EXCEPT ![tgt.tag] = id] ELSE @], tgt.loc), e)

ImportPre(st, w, e) == IF Valid(RefArg(st.l1, st.t1, e)) THEN Ok("", w, e) ELSE Fail(w, e)
ImportIn(st, w, e, dry) ==
  LET tgt == RefArg(st.l1, st.t1, e) IN
  IF st.l2 = "missing" THEN Fail(w, e)            \* os.Open fails, also in a dry run
  ELSE IF Skip(st.op, dry) THEN Ok("done", w, e)
  ELSE IF st.l2 # "good" THEN Fail(w, e)          \* not a tar
  ELSE Ok("done", Indexed([w EXCEPT !.obj[tgt.loc] = @ \cup Closure("M1"),
                                    !.tag[tgt.loc] = IF tgt.tag \in TagNames THEN [@ EXCEPT ![tgt.tag] = "M1"] ELSE @], tgt.loc), e)

ExportPre(st, w, e) == ImportPre(st, w, e)
\* writes a local tar file (tar), never the world; the file is created before the image is read
ExportIn(st, w, e) ==
  IF st.l2 # "out" THEN Fail(w, e)
  ELSE IF Lookup(w, RefArg(st.l1, st.t1, e)) = None THEN [Fail(w, e) EXCEPT !.tar = TRUE]
  ELSE [Ok("done", w, e) EXCEPT !.tar = TRUE]

Stub(st, w, e) == Ok("stub", w, e)
\* outcome of a statement that is not throttled
Exec(st, w, e, dry) ==
  IF dry /\ st.op \in StubReads THEN Stub(st, w, e)
  ELSE CASE st.op \in {"repo.ls", "repo.ls+limit"} -> RepoLs(st, w, e)
    [] st.op = "tag.ls" -> TagLs(st, w, e)
    [] st.op \in ManifestGetOps \cup ManifestListOps \cup ManifestHeadOps -> ManifestGet(st, w, e)
    [] st.op = "m:export" -> MExport(st, w, e)
    [] st.op = "c:export" -> CExport(st, w, e)
    [] st.op = "m:ratelimit" -> MRateLimit(st, w, e)
    [] st.op \in {"image.ratelimitWait", "m:ratelimitWait"} -> RateLimitWait(st, w, e)
    [] st.op \in {"blob.get", "blob.head", "b:get", "b:head"} -> BlobGet(st, w, e)
    [] st.op = "reference.new" -> ReferenceNew(st, w, e)
    [] st.op = "r:tag" -> RefTag(st, w, e)
    [] st.op = "r:digest" -> RefDigest(st, w, e)
    [] st.op \in {"reference.close", "r:close"} -> ReferenceClose(st, w, e)
    [] st.op = "tag.delete" -> TagDelete(st, w, e, dry)
    [] st.op = "m:delete" -> MDelete(st, w, e, dry)
    [] st.op \in {"manifest.put", "m:put"} -> ManifestPut(st, w, e, dry)
    [] st.op \in {"blob.put", "b:put"} -> BlobPut(st, w, e, dry)
Pre(st, w, e) ==
  CASE st.op \in {"image.config", "m:config"} -> ConfigPre(st, w, e)
    [] st.op \in CopyOps -> CopyPre(st, w, e)
    [] st.op = "image.importTar" -> ImportPre(st, w, e)
    [] st.op = "image.exportTar" -> ExportPre(st, w, e)
In(st, w, e, m, dry) ==
  IF dry /\ st.op \in StubReads THEN Stub(st, w, e)
  ELSE CASE st.op \in {"image.config", "m:config"} -> ConfigIn(st, w, e, m)
    [] st.op \in CopyOps -> CopyIn(st, w, e, dry)
    [] st.op = "image.importTar" -> ImportIn(st, w, e, dry)
    [] st.op = "image.exportTar" -> ExportIn(st, w, e)

(* ------------------------------- state -------------------------------- *)
VARIABLES
  W,     \* the world: registries and layout
  W0,    \* the world at the start (never changes)
  mode,  \* "dry" | "nor"
  par,   \* defaults.parallel
  pc,    \* per script: ready | acq | body | done | failed
  ip,    \* per script: number of statements consumed from its text
  env,   \* per script: Lua variables m b c r and the loop variables
  ctl,   \* per script: pending guard decision and loop state
  cur,   \* per script: the throttled statement in flight and its position in the script
  tmp,   \* per script: manifest fetched by the argument check of image.config
  held,  \* throttle slots in use
  tar,   \* the export tar file has been written
  last   \* observation of the most recent statement (for the scenario generator; not part of the state view)
vars == <<W, W0, mode, par, pc, ip, env, ctl, cur, tmp, held, tar, last>>
view == <<W, W0, mode, par, pc, ip, env, ctl, cur, tmp, held, tar>>

Max == IF par <= 0 THEN 1 ELSE par
\* root.go:runOnce - parallel <= 0: one script after the other
CanRun(s) == par > 0 \/ \A j \in 1..(s - 1) : pc[j] \in {"done", "failed"}
InLoop(s) == ctl[s].body # <<>>
K(s) == IF InLoop(s) THEN ctl[s].base + ctl[s].bi ELSE ip[s] + 1
Obs(s, k, st, status, val) == [s |-> s, k |-> k, op |-> st.op, st |-> status, val |-> val]

InitWith(w, m, p) ==
  /\ W = w /\ W0 = w /\ mode = m /\ par = p
  /\ pc = [s \in Scripts |-> "ready"] /\ ip = [s \in Scripts |-> 0]
  /\ env = [s \in Scripts |-> NoEnv] /\ ctl = [s \in Scripts |-> NoCtl]
  /\ cur = [s \in Scripts |-> NoCur] /\ tmp = [s \in Scripts |-> NoM]
  /\ held = 0 /\ tar = FALSE /\ last = Obs(1, 0, NoStmt, "init", "")

\* control state after one statement; g = guard decision for the next statement
After(c, e, g) ==
  IF c.body = <<>> THEN [c |-> [c EXCEPT !.guard = g], e |-> e]
  ELSE IF c.bi < Len(c.body) THEN [c |-> [c EXCEPT !.bi = @ + 1, !.guard = g], e |-> e]
  ELSE IF c.tags = <<>> THEN [c |-> NoCtl, e |-> e]
  ELSE [c |-> [c EXCEPT !.bi = 1, !.tags = Tail(@), !.guard = "none"], e |-> [e EXCEPT !.lt = Head(c.tags)]]

\* the statement has been carried out with outcome o (sandbox.go: a raised error ends the script
\* unless the call is protected by pcall)
Settle(s, k, st, o) ==
  /\ W' = o.w
  /\ tar' = (tar \/ o.tar)
  /\ last' = Obs(s, k, st, IF o.ok THEN "ok" ELSE "err", o.val)
  /\ IF o.ok \/ st.p = "p"
     THEN LET a == After(ctl[s], o.e, "none") IN
          /\ pc' = [pc EXCEPT ![s] = "ready"] /\ ctl' = [ctl EXCEPT ![s] = a.c] /\ env' = [env EXCEPT ![s] = a.e]
     ELSE /\ pc' = [pc EXCEPT ![s] = "failed"] /\ ctl' = [ctl EXCEPT ![s] = NoCtl] /\ env' = [env EXCEPT ![s] = o.e]

\* st: the next statement of the script text; ignored inside a loop (the body is in ctl)
Fetch(s, st) == IF InLoop(s) THEN ctl[s].body[ctl[s].bi] ELSE st
Consume(s) == ip' = [ip EXCEPT ![s] = IF InLoop(s) THEN @ ELSE @ + 1]

\* a plain statement starts: skipped by a false guard, carried out at once, or queued at the throttle
Begin(s, ext) ==
  LET st == Fetch(s, ext) IN
  /\ pc[s] = "ready" /\ CanRun(s) /\ st.op \notin CtlOps /\ st.op # ""
  /\ Consume(s)
  /\ IF ctl[s].guard = "skip"
     THEN LET a == After(ctl[s], env[s], "none") IN
          /\ ctl' = [ctl EXCEPT ![s] = a.c] /\ env' = [env EXCEPT ![s] = a.e]
          /\ last' = Obs(s, K(s), st, "norun", "")
          /\ UNCHANGED <<W, tar, pc, cur, tmp, held>>
     ELSE IF st.op \in ThrottledOps
     THEN LET o == Pre(st, W, env[s]) IN
          IF o.ok
          THEN /\ pc' = [pc EXCEPT ![s] = "acq"] /\ cur' = [cur EXCEPT ![s] = [st |-> st, k |-> K(s)]] /\ tmp' = [tmp EXCEPT ![s] = o.e.m]
               /\ ctl' = [ctl EXCEPT ![s].guard = "none"]
               /\ UNCHANGED <<W, tar, env, held, last>>
          ELSE Settle(s, K(s), st, Fail(W, env[s])) /\ UNCHANGED <<cur, tmp, held>>
     ELSE Settle(s, K(s), st, Exec(st, W, env[s], mode = "dry")) /\ UNCHANGED <<cur, tmp, held>>
  /\ UNCHANGED <<W0, mode, par>>

\* internal/pqueue: Acquire - waits while all slots are taken
Acquire(s) ==
  /\ pc[s] = "acq" /\ held < Max
  /\ held' = held + 1 /\ pc' = [pc EXCEPT ![s] = "body"]
  /\ UNCHANGED <<W, W0, mode, par, ip, env, ctl, cur, tmp, tar, last>>

\* the part of a throttled binding that runs holding the slot; `defer done()` gives it back on
\* every path, a binding in LeakOnErr only on the straight path
Body(s) ==
  LET st == cur[s].st
      o == In(st, W, env[s], tmp[s], mode = "dry") IN
  /\ pc[s] = "body"
  /\ held' = IF o.ok \/ st.op \in RelOnErr THEN held - 1 ELSE held
  /\ cur' = [cur EXCEPT ![s] = NoCur] /\ tmp' = [tmp EXCEPT ![s] = NoM]
  /\ Settle(s, cur[s].k, st, o)
  /\ UNCHANGED <<W0, mode, par, ip>>

\* if.head / ifnot.head: `if [not] pcall(manifest.head, ref) then <next statement> end`
Guard(s, ext) ==
  LET st == Fetch(s, ext)
      found == Lookup(W, RefArg(st.l1, st.t1, env[s])) # None
      run == IF st.op = "if.head" THEN found ELSE ~found
      a == After(ctl[s], env[s], IF run THEN "run" ELSE "skip") IN
  /\ pc[s] = "ready" /\ CanRun(s) /\ st.op \in GuardOps /\ ctl[s].guard = "none"
  /\ Consume(s)
  /\ ctl' = [ctl EXCEPT ![s] = a.c] /\ env' = [env EXCEPT ![s] = a.e]
  /\ last' = Obs(s, K(s), st, "ok", IF found THEN "true" ELSE "false")
  /\ UNCHANGED <<W, W0, mode, par, pc, cur, tmp, held, tar>>

\* foreach: `for _, t in ipairs(tag.ls(repo)) do <body> end`; body = the next one or two statements
Foreach(s, st, body) ==
  LET o == TagLs(st, W, env[s])
      r == RefArg(st.l1, st.t1, env[s])
      tags == TagSeq(W, r.loc) IN
  /\ pc[s] = "ready" /\ CanRun(s) /\ st.op = "foreach" /\ ~InLoop(s) /\ ctl[s].guard = "none"
  /\ ip' = [ip EXCEPT ![s] = @ + 1 + Len(body)]
  /\ last' = Obs(s, K(s), st, IF o.ok THEN "ok" ELSE "err", o.val)
  /\ IF ~o.ok THEN /\ pc' = [pc EXCEPT ![s] = "failed"] /\ UNCHANGED <<ctl, env>>
     ELSE IF tags = <<>> \/ body = <<>> THEN UNCHANGED <<pc, ctl, env>>
     ELSE /\ ctl' = [ctl EXCEPT ![s] = [guard |-> "none", body |-> body, bi |-> 1, tags |-> Tail(tags), base |-> ip[s] + 1]]
          /\ env' = [env EXCEPT ![s].lt = Head(tags), ![s].lloc = r.loc]
          /\ UNCHANGED pc
  /\ UNCHANGED <<W, W0, mode, par, cur, tmp, held, tar>>

\* error(<any value>) / a runtime fault of the Lua VM; whatever is raised, an unprotected raise ends
\* this script only (sandbox.go:RunScript returns the error, root.go:process logs it and returns
\* ErrScriptFailed), a raise inside pcall is swallowed
Raise(s, ext) ==
  LET st == Fetch(s, ext) IN
  /\ pc[s] = "ready" /\ CanRun(s) /\ st.op \in ErrorOps
  /\ Consume(s)
  /\ IF ctl[s].guard = "skip"
     THEN LET a == After(ctl[s], env[s], "none") IN
          /\ ctl' = [ctl EXCEPT ![s] = a.c] /\ env' = [env EXCEPT ![s] = a.e]
          /\ last' = Obs(s, K(s), st, "norun", "") /\ UNCHANGED pc
     ELSE IF st.p = "p"
     THEN LET a == After(ctl[s], env[s], "none") IN
          /\ ctl' = [ctl EXCEPT ![s] = a.c] /\ env' = [env EXCEPT ![s] = a.e]
          /\ last' = Obs(s, K(s), st, "err", "err") /\ UNCHANGED pc
     ELSE /\ pc' = [pc EXCEPT ![s] = "failed"] /\ ctl' = [ctl EXCEPT ![s] = NoCtl]
          /\ last' = Obs(s, K(s), st, "err", "err") /\ UNCHANGED env
  /\ UNCHANGED <<W, W0, mode, par, cur, tmp, held, tar>>

\* the script text is exhausted
Finish(s) ==
  /\ pc[s] = "ready" /\ CanRun(s) /\ ~InLoop(s)
  /\ pc' = [pc EXCEPT ![s] = "done"]
  /\ last' = Obs(s, 0, NoStmt, "end", "")
  /\ UNCHANGED <<W, W0, mode, par, ip, env, ctl, cur, tmp, held, tar>>

AllOver == \A s \in Scripts : pc[s] \in {"done", "failed"}

(* --------------------------- what is checked --------------------------- *)
\* C19, first sentence: a dry run leaves registries and layouts as they were
DryNoChange == mode = "dry" => W = W0
\* a read-only function answers from the world alone: same answer in a dry and in a normal run
ReadSame(stmts) ==
  \A s \in Scripts : \A st \in stmts :
     st.op \in ReadOps \ ThrottledOps => Exec(st, W, env[s], TRUE).val = Exec(st, W, env[s], FALSE).val
\* the throttle: never more holders than slots, every slot accounted for by a script in its body,
\* nothing held once all scripts are over (a leaked slot would block the next throttled call)
ThrottleOk == /\ held <= Max
              /\ held = Cardinality({s \in Scripts : pc[s] = "body"})
\* C19, last sentence, as a state property: a script that is neither over nor able to move is
\* blocked by the others (TLC: deadlock before AllOver)
Blocked == ~AllOver /\ \A s \in Scripts : pc[s] = "acq" \/ pc[s] \in {"done", "failed"} \/ ~CanRun(s)
NotBlocked == ~(Blocked /\ held >= Max)
=============================================================================

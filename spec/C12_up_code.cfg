CONSTANTS
 B = 3
 C = 2
 UL = 2
 Guard = TRUE
 MaxLen = 3
SPECIFICATION Spec
INVARIANTS TypeOK NoEndlessRepeat
PROPERTY Terminates
CHECK_DEADLOCK FALSE

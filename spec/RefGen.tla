------------------------------- MODULE RefGen -------------------------------
(* Scenario generator for C15: one initial state per scenario of RefGrammar;  *)
(* each is printed as JSON (inputs only: classes and lexemes).                 *)
EXTENDS RefGrammar, Json
VARIABLE x
Init == x \in Scenarios
Next == UNCHANGED x
Emit == PrintT(<<"SCN", ToJson([x EXCEPT !.d = x.d] @@ [s |-> Str(x)])>>)
=============================================================================

CONSTANTS
 Confs <- MCConfs
 FixWaitErr = TRUE
 Reduce = TRUE
 MCShapes = {"art"}
 MCPairs = {"tworeg"}
 MCOpts <- MCOptsRefsBoth
 MCFeats <- MCFeatsDefault
 MCInit = "empty"
 MCTag0 = {"none"}
 MCByDigest = {FALSE}
 MCTgtByDigest = {FALSE}
 MaxFaults = 0
 AllowCancel = FALSE
 AllowCrash = FALSE
 Cap = 0
INIT Init
NEXT Next
INVARIANTS TypeOK InvC04 InvFb InvFbListed InvC03 InvC14 InvC14T InvFailTag

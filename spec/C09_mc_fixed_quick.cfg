SPECIFICATION Spec
CONSTANTS
 DrainBug = FALSE
 LinkCode = FALSE
 DupPathBug = FALSE
 Table <- QuickTable
INVARIANTS PropHolds Ordered PassBound
CHECK_DEADLOCK TRUE

SPECIFICATION Spec
CONSTANTS
 DrainBug = FALSE
 LinkCode = FALSE
 DupPathBug = FALSE
 Ids <- QuickIds
INVARIANTS PropHolds Ordered PassBound
CHECK_DEADLOCK TRUE

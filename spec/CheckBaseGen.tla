----------------------------- MODULE CheckBaseGen -----------------------------
(***************************************************************************)
(* X06 - world generator: runs the design spec CheckBase on worlds and     *)
(* prints each finished behaviour once as JSON {w, exp: [res, reqs]} (the   *)
(* world and what the design expects: result class, request sequence).     *)
(* harness/cmd/x06drv builds the world on model registries and runs the    *)
(* real ImageCheckBase.  GenMode "core": exhaustive (BFS) over the worlds  *)
(* without refusals and without a digest option (every image graph x base  *)
(* graph x platform x skip x base given / annotated); "all": every world   *)
(* (used with -simulate: TLC draws random initial states).                 *)
(* Mirrors no code; adds only the selection of initial states.             *)
(***************************************************************************)
EXTENDS CheckBase, Json
CONSTANT GenMode

Core(x) == /\ x.fault = "none" /\ x.opt.dig = ""
           /\ (x.opt.ref = 1 => x.img.ann \in {"none", "name"})
           /\ (x.opt.ref = 0 => x.img.ann # "none" \/ x.img.kind = "missing")
           /\ \A k \in DOMAIN x.img.ents : x.img.ents[k].ann \in {x.img.ann, "name"}
GInit == Init /\ (GenMode = "core" => Core(w))
GSpec == GInit /\ [][Next]_vars
Emit == pc = "done" => PrintT(<<"SCN", ToJson([w |-> w, exp |-> [res |-> res, reqs |-> reqs]])>>)
=============================================================================

CONSTANTS
 Space = "gen"
 GenMode = "space"
 Scenarios <- SpaceScns
 Anchoring = "asis"
 PlatMatch = "asis"
 Chars <- CharsDef
 NameOrder <- NameOrderDef
INIT GInit
NEXT GNext
INVARIANTS Emit
CHECK_DEADLOCK FALSE

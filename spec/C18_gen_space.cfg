CONSTANTS
 Space = "gen"
 GenMode = "space"
 Scenarios <- SpaceScns
 Anchoring = "fixed"
 PlatMatch = "fixed"
 Chars <- CharsDef
 NameOrder <- NameOrderDef
INIT GInit
NEXT GNext
INVARIANTS Emit
CHECK_DEADLOCK FALSE

SPECIFICATION RTSpec
CONSTANTS
 DrainBug = FALSE
 LinkCode = FALSE
 DupPathBug = FALSE
 Ids <- ThoroughIds
INVARIANTS XOnce XComplete XDocker XSinglePass XRoundTrip Ordered
PROPERTY Termination
CHECK_DEADLOCK TRUE

SPECIFICATION RTSpec
CONSTANTS
 DrainBug = TRUE
 LinkCode = TRUE
 DupPathBug = TRUE
 Ids <- ThoroughIds
INVARIANTS XOnce XComplete XSinglePass XRoundTrip Ordered
PROPERTY Termination
CHECK_DEADLOCK TRUE

-------------------------------- MODULE Auth --------------------------------
(***************************************************************************)
(* (D) design spec for C11: how regclient attaches credentials to HTTP     *)
(* requests.  Implementation shaped; one action per request / reply.       *)
(*                                                                         *)
(* Mirrors (file:function per action)                                      *)
(*   StartDo       internal/reghttp/http.go:Resp.next (host list: mirrors  *)
(*                 + upstream, sortHostsCmp with default priorities puts   *)
(*                 the mirror first)                                       *)
(*   Attempt       http.go:Resp.next loop body: URL from h.config.Hostname *)
(*                 and TLS setting (or Req.DirectURL), h.getAuth(repo),    *)
(*                 Auth.AddScope(h.Hostname, docker scope),                *)
(*                 Auth.UpdateRequest (handler looked up by URL host,      *)
(*                 basic before bearer)                                    *)
(*   TokPost/TokGet internal/auth/auth.go:bearerHandler.GenerateAuth ->    *)
(*                 tryPost (refresh / identity token) then tryGet (basic   *)
(*                 credentials); TokReply = validateResponse               *)
(*   Reply*        http.go:Resp.next status switch (401 ->                 *)
(*                 Auth.HandleResponse keyed by resp.Request.URL.Host,     *)
(*                 i.e. the LAST host of a redirect chain; 404 drops the   *)
(*                 host; 5xx / transport error back off and move on)       *)
(*   ReplyRedirect net/http Client.do (sensitive headers are copied to the *)
(*                 same domain and to sub domains only, once stripped they *)
(*                 stay stripped) followed by http.go:checkRedirect ->     *)
(*                 Auth.UpdateRequest for the new URL host                 *)
(*   HBasic/HBearer auth.go:basicHandler/bearerHandler.ProcessChallenge    *)
(*                 and the ErrNoNewChallenge race check of HandleResponse  *)
(*   CredKind      http.go:clientHost.AuthCreds: the credential function   *)
(*                 of the clientHost that owns the Auth; it IGNORES its    *)
(*                 host argument (HonorsHost = FALSE is the code as is)    *)
(*   SrcGet        http.go:Resp.next calling Req.BodyFunc on a repeated    *)
(*                 attempt of a streamed blob PUT (blob.go:BlobCopy ->     *)
(*                 reader Seek(0) -> Resp.Seek -> Resp.next on the source) *)
(*   ReplyBroken   Req.BodyBytes requests: GetBody returns the drained     *)
(*                 reader, a 307 cannot re-send the body                   *)
(*   ReplyLoc      the POST is served but its Location header names        *)
(*                 another host or scheme (upload location)                *)
(*   hosts         identity of a host = name AND port: P has the name of A *)
(*                 and another port (net/http copies sensitive headers to  *)
(*                 it because it compares host names without ports; the    *)
(*                 handler table, authAllowed and checkRedirect compare    *)
(*                 URL.Host); Ac is A spelled in mixed case: the same      *)
(*                 host on the wire, another key for every string          *)
(*                 comparison in the client                                *)
(*   loc           scheme/reg/blob.go:blobGetUploadURL / blobMount: the    *)
(*                 upload URL is parsed relative to the FINAL url of the   *)
(*                 POST (after redirects) and used as Req.DirectURL        *)
(*   Prog          request sequences of regclient.ManifestGet/Head/Put,    *)
(*                 BlobGet (with the external URL fall back of             *)
(*                 scheme/reg/blob.go:BlobGet), BlobHead, BlobPut,         *)
(*                 ImageCopy (image.go:imageCopyOpt, blob.go:BlobCopy),    *)
(*                 also inside one registry (BlobMount with from=)         *)
(*                                                                         *)
(* Environment: every server is free to answer any request with any reply  *)
(* of the configured alphabets (at most MaxFaults replies that are not the *)
(* natural one).  `script` records the choices (it is the server script    *)
(* replayed by harness/cmd/c11drv), `wire` the predicted messages.         *)
(*                                                                         *)
(* Deliberate deviations                                                   *)
(*   - tokens never expire inside a behaviour; retry and back-off limits   *)
(*     (reghttp retryLimit 5) never bind because MaxFaults < 5, so they    *)
(*     are not modelled; delays are not modelled                           *)
(*   - ImageCopy copies config and layers concurrently; here the chains    *)
(*     run one after the other (server scripts are keyed by host and       *)
(*     object, so the replay is independent of the interleaving)           *)
(*   - a failed PUT of a blob ends BlobPut (the chunked fall back of the   *)
(*     code is not modelled: drift, not a verdict)                         *)
(*   - token servers do not redirect; credential helpers are not modelled  *)
(*   - the switches select the variant of the code that is modelled:       *)
(*     SchemeBound = TRUE      /repo since 14e04da (clientHost.authAllowed: *)
(*                             no credentials on http://<own TLS host>)    *)
(*     StripOnRedirect = TRUE  /repo since 7d8bea3 (checkRedirect drops a   *)
(*                             forwarded Authorization when the host       *)
(*                             changes)                                    *)
(*     FoldCase = TRUE         /repo since f7f5652 (authAllowed compares    *)
(*                             URL.Host with the configured name case       *)
(*                             insensitively); FALSE = as found (C11-4),    *)
(*                             C11_mc_case_asfound.cfg keeps its            *)
(*                             counterexample                               *)
(*     PgNoMirrors = TRUE      /repo since ac54726 (the next page link of   *)
(*                             TagList / ReferrerList is requested only     *)
(*                             from the host that returned it); FALSE = as  *)
(*                             found (C11-5): walked over the mirrors,      *)
(*                             C11_mc_page_asfound.cfg keeps its            *)
(*                             counterexample                               *)
(*     HonorsHost = FALSE      AuthCreds still ignores its host argument   *)
(*                             (S3, known finding C11-1); TRUE models its  *)
(*                             repair                                      *)
(*     SchemeBound, StripOnRedirect, FoldCase TRUE and HonorsHost FALSE    *)
(*     is the code as it is today (default of all          *)
(*     configs); all FALSE is the code as found, kept to explain the       *)
(*     fixrev-C11-* seeds and the history of the findings                  *)
(***************************************************************************)
EXTENDS AuthObl, Naturals, Sequences, FiniteSets, TLC

CONSTANTS
  HonorsHost,       \* AuthCreds returns credentials only for the clientHost's own hostname (not in /repo: S3)
  SchemeBound,      \* no credentials on a http URL of a host configured for TLS (in /repo since 14e04da)
  PgNoMirrors,      \* the next page link of a listing is requested only from the host that served the previous
                    \* page, with that host's clientHost (in /repo since ac54726)
  FoldCase,         \* authAllowed compares host names case insensitively (in /repo since f7f5652)
  StripOnRedirect,  \* Authorization is removed when a redirect leaves the host, also to a sub domain (since 7d8bea3)
  MaxFaults,        \* number of replies (registry or token server) that differ from the natural one
  Confs,            \* configurations explored
  ChalKinds,        \* subset of {"none","mal","uns","bnr","b1","b2","t","bt"}
  FaultKinds,       \* subset of {"nf","e5","err"}
  RedirTo,          \* set of <<host, scheme>> a 307 may point to
  TokReplies,       \* subset of {"tokr","deny","err","bad"} (besides the natural "tok"); bad = 200 with a body
                    \* that bearerToken cannot be decoded from (also when it carries a good token)
  ForeignRealms,    \* realms <<host, scheme>> an unconfigured host may name (besides X)
  LocTo             \* set of <<host, scheme>> an upload Location may name instead of the serving host

VARIABLES
  cf,      \* configuration, fixed during a behaviour
  pc,      \* step of the operation's program; 0 = ended with failure, Len+1 = ended with success
  ph,      \* "idle" | "attempt" | "gen" | "wait" | "end"
  hosts,   \* clientHosts still to try for the current request (mirrors first)
  cur,     \* index into hosts
  rq,      \* registry request in flight: [to, sch, az, ini, strip]
  tk,      \* token request in flight: [stage, to, sch, secs]
  gc,      \* continuation of a GenerateAuth that needs the network: [ctx, key, good, nto, nsch, copied]
  again,   \* the current request has already been attempted (Resp.retryCount > 1)
  sg,      \* "" | "done": nested GET on the source that re-opens a streamed body before a repeated attempt
  sess,    \* host that holds the upload session (where the POST was served)
  loc,     \* upload location: <<host, scheme>> of the final URL of the last POST / PATCH (blobGetUploadURL)
  au,      \* handlers: <<clientHost, repoKey, urlHost, type>> -> handler
  nf,      \* faults used
  named,   \* history: <<host, realm host>> named in challenges
  leaks,   \* history: credentials observed where the property forbids them
  wire,    \* history: messages sent (outside the VIEW)
  script   \* history: replies chosen by the servers (outside the VIEW)

vars == <<cf, pc, ph, hosts, cur, rq, tk, gc, again, sg, sess, loc, au, nf, named, leaks, wire, script>>
View == <<cf, pc, ph, hosts, cur, rq, tk, gc, again, sg, sess, loc, au, nf, named, leaks>>

Regs == {"A", "B", "M"}
TokOf(h) == CASE h = "A" -> "Ta" [] h = "B" -> "Tb" [] h = "M" -> "Tm" [] OTHER -> "X"
\* Go: sensitive headers follow a redirect to the same host or to a sub domain of the first host
\* (it compares URL.Hostname(), so also to the same name on another port)
SubDomain == {<<"A", "S">>, <<"A", "P">>, <<"P", "A">>}
\* spelling variants of a host: the same host for the network and for the property
Canon(h) == IF h = "Ac" THEN "A" ELSE h

None == <<>>
Pub == <<"pub">>                 \* token issued to an anonymous request: not a secret
IsSecret(s) == s # None /\ s # Pub
Owner(s) == s[2]
NoRq == [to |-> "", sch |-> "", az |-> None, ini |-> "", strip |-> FALSE, brk |-> FALSE]
NoTk == [stage |-> "", to |-> "", sch |-> "", secs |-> {}]
NoGc == [ctx |-> "", key |-> <<>>, good |-> FALSE, nto |-> "", nsch |-> "", copied |-> None]

HasUP(k) == k \in {"up", "uptok"}
HasIdt(k) == k \in {"tok", "uptok"}

(***************************************************************************)
(* Programs: the request sequences of the client operations.               *)
(***************************************************************************)
S(reg, repo, meth, obj, mir, direct, onok, onfail) ==
  [reg |-> reg, repo |-> repo, meth |-> meth, obj |-> obj, mir |-> mir, direct |-> direct,
   onok |-> onok, onfail |-> onfail, ign |-> FALSE, src |-> FALSE, n404 |-> FALSE]
N404(st) == [st EXCEPT !.n404 = TRUE]   \* the object does not exist anywhere (target repository of a copy inside A)
Ign(st) == [st EXCEPT !.ign = TRUE]     \* Req.IgnoreErr (anonymous blob mount): a back-off drops the host
\* Req.BodyFunc streams the blob from the source registry: every repeated attempt first seeks the
\* source reader back to 0, which is a new GET on the source (reghttp Resp.Seek -> Resp.next)
Src(st) == [st EXCEPT !.src = TRUE]
Ext == <<cf.extHost, cf.extSch>>
Loc == <<"loc">>                        \* Req.DirectURL = the upload location
Pg == <<"pg">>                          \* Req.DirectURL = the next page link (Link header, relative to the URL that
                                        \* served the previous page); tag.go:tagListLink and
                                        \* referrer.go:referrerListByAPIPage send it WITHOUT NoMirrors
\* Req.BodyBytes requests install a GetBody that returns the already drained reader: a 307 cannot
\* re-send the body (manifest PUT)
NoRebody(st) == st.meth = "PUT" /\ st.obj \in {"m", "k"}
\* blob.go:BlobCopy, chain copying blob `o` from A to B in steps n..n+10; `next` is where the op continues
Chain(o, n, next, ext) ==
  << S("B", "r1", "HEAD", o, FALSE, <<>>, next, n + 1),        \* BlobHead on the target: exists = skip
     S("A", "r1", "GET", o, TRUE, <<>>, n + 3, IF ext THEN n + 2 ELSE 0),
     S("A", "r1", "GET", o, FALSE, IF ext THEN Ext ELSE <<>>, n + 3, 0),  \* external URL fall back
     Ign(S("B", "r1", "POST", o, FALSE, <<>>, n + 5, n + 4)),  \* anonymous mount attempt
     S("B", "r1", "POST", "u", FALSE, <<>>, n + 5, 0),         \* blobGetUploadURL (no digest in the URL)
     Src(S("B", "r1", "PUT", o, FALSE, Loc, next, IF ext THEN 0 ELSE n + 6)),   \* blobPutUploadFull
     S("A", "r1", "GET", o, TRUE, <<>>, n + 7, n + 9),         \* Seek(0) on the source reader = new GET
     S("B", "r1", "PATCH", "u", FALSE, Loc, n + 8, n + 10),    \* blobPutUploadChunked
     S("B", "r1", "PUT", o, FALSE, Loc, next, n + 9),
     S("B", "r1", "DELETE", "u", FALSE, Loc, 0, 0),            \* blobUploadCancel
     S("B", "r1", "GET", "u", FALSE, Loc, n + 7, n + 9) >>     \* blobUploadStatus after a refused chunk
CopyHead ==   \* image.go:imageCopyOpt: HEAD on the target; when it exists compare with a HEAD of the source
  << S("B", "r1", "HEAD", "m", FALSE, <<>>, 2, 3),
     S("A", "r1", "HEAD", "m", TRUE, <<>>, 99, 0),
     S("A", "r1", "GET", "m", TRUE, <<>>, 4, 0) >>
Prog(op) ==
  CASE op = "mget"  -> << S("A", "r1", "GET", "m", TRUE, <<>>, 2, 0) >>
    [] op = "mhead" -> << S("A", "r1", "HEAD", "m", TRUE, <<>>, 2, 0) >>
    [] op = "two"   -> << S("A", "r1", "GET", "m", TRUE, <<>>, 2, 0),
                          S("A", "r2", "GET", "m", TRUE, <<>>, 3, 0) >>
    [] op = "bget"  -> << S("A", "r1", "GET", "l", TRUE, <<>>, 2, 0) >>
    [] op = "bhead" -> << S("A", "r1", "HEAD", "l", TRUE, <<>>, 2, 0) >>
    [] op = "ext"   -> << S("A", "r1", "GET", "x", TRUE, <<>>, 3, 2),
                          S("A", "r1", "GET", "x", FALSE, Ext, 3, 0) >>
    [] op = "mput"  -> << S("A", "r1", "PUT", "m", FALSE, <<>>, 2, 0) >>
    [] op = "bput"  -> << Ign(S("A", "r1", "POST", "u", FALSE, <<>>, 3, 2)),   \* anonymous mount
                          S("A", "r1", "POST", "u", FALSE, <<>>, 3, 0),        \* blobGetUploadURL
                          S("A", "r1", "PUT", "u", FALSE, Loc, 99, 4),         \* blobPutUploadFull
                          S("A", "r1", "PATCH", "u", FALSE, Loc, 5, 7),        \* blobPutUploadChunked
                          S("A", "r1", "PUT", "u", FALSE, Loc, 99, 6),
                          S("A", "r1", "DELETE", "u", FALSE, Loc, 0, 0),       \* blobUploadCancel
                          S("A", "r1", "GET", "u", FALSE, Loc, 4, 6) >>        \* blobUploadStatus after a refused chunk
    \* ImageCopy inside registry A from repository r1 to r3: blob.go:BlobCopy tries BlobMount with from=r1
    \* (not IgnoreErr) and falls back to pull and push
    [] op = "mount" -> << N404(S("A", "r3", "HEAD", "m", TRUE, <<>>, 2, 3)),
                          S("A", "r1", "HEAD", "m", TRUE, <<>>, 99, 0),
                          S("A", "r1", "GET", "m", TRUE, <<>>, 4, 0),
                          N404(S("A", "r3", "HEAD", "c", TRUE, <<>>, 10, 5)),
                          S("A", "r3", "POST", "c", FALSE, <<>>, 10, 6),          \* mount=<digest>&from=r1
                          S("A", "r1", "GET", "c", TRUE, <<>>, 7, 0),
                          Ign(S("A", "r3", "POST", "c", FALSE, <<>>, 9, 8)),     \* anonymous mount
                          S("A", "r3", "POST", "u", FALSE, <<>>, 9, 0),
                          Src(S("A", "r3", "PUT", "c", FALSE, Loc, 10, 0)),
                          S("A", "r3", "PUT", "m", FALSE, <<>>, 99, 0) >>
    \* chunked from the start (Host.BlobMax below the blob size): blobPutUploadChunked, blobUploadStatus
    \* after a refused chunk, blobUploadCancel
    [] op = "bputc" -> << Ign(S("A", "r1", "POST", "u", FALSE, <<>>, 3, 2)),
                          S("A", "r1", "POST", "u", FALSE, <<>>, 3, 0),
                          S("A", "r1", "PATCH", "u", FALSE, Loc, 4, 6),
                          S("A", "r1", "PUT", "u", FALSE, Loc, 99, 5),
                          S("A", "r1", "DELETE", "u", FALSE, Loc, 0, 0),
                          S("A", "r1", "GET", "u", FALSE, Loc, 3, 5) >>
    \* tag.go:TagList with a second page; referrer.go:referrerListByAPI with a second page, fall back to the
    \* referrers tag (obj k) when the API request fails (IgnoreErr)
    [] op = "tags"  -> << S("A", "r1", "GET", "g", TRUE, <<>>, 2, 0), S("A", "r1", "GET", "g", TRUE, Pg, 99, 0) >>
    [] op = "refs"  -> << Ign(S("A", "r1", "GET", "f", TRUE, <<>>, 2, 3)), S("A", "r1", "GET", "f", TRUE, Pg, 99, 3),
                          S("A", "r1", "GET", "k", TRUE, <<>>, 99, 0) >>
    [] op = "refsfb" -> << N404(Ign(S("A", "r1", "GET", "f", TRUE, <<>>, 99, 2))), S("A", "r1", "GET", "k", TRUE, <<>>, 99, 0) >>
    \* manifest with a subject on a registry without referrers API: referrerPut reads and writes the tag
    [] op = "mputsub" -> << S("A", "r1", "PUT", "m", FALSE, <<>>, 2, 0), S("A", "r1", "GET", "k", TRUE, <<>>, 3, 3),
                            S("A", "r1", "PUT", "k", FALSE, <<>>, 99, 0) >>
    [] op \in {"mdel", "tdel"} -> << S("A", "r1", "DELETE", "m", FALSE, <<>>, 99, 0) >>
    [] op = "bdel"  -> << S("A", "r1", "DELETE", "l", FALSE, <<>>, 99, 0) >>
    [] op = "ping"  -> << S("A", "r1", "GET", "o", FALSE, <<>>, 99, 0) >>
    [] op = "copy"  -> CopyHead \o Chain("c", 4, 15, FALSE)
                       \o << S("B", "r1", "PUT", "m", FALSE, <<>>, 99, 0) >>
    [] op = "copyext" -> CopyHead \o Chain("c", 4, 15, FALSE) \o Chain("x", 15, 26, TRUE)
                       \o << S("B", "r1", "PUT", "m", FALSE, <<>>, 99, 0) >>
P == Prog(cf.op)
Running == pc \in 1..Len(P)      \* 0 = failed, 99 = succeeded
Step == P[pc]
\* what serving the request normally amounts to (content of the model hosts: B is empty, the
\* external layer x is absent from A and M, every other host has everything)
Natural(st, to) ==
  IF st.n404 THEN "404"
  ELSE IF to = "B" THEN (IF st.meth \in {"HEAD", "GET"} THEN "404" ELSE "200")
  ELSE IF st.direct = Loc THEN (IF to = sess THEN "200" ELSE "404")   \* the session lives where it was opened
  ELSE IF st.obj = "x" /\ to \in {"A", "M"} /\ ~(st.direct \notin {<<>>, Pg} /\ st.direct[1] = "A") THEN "404"
  ELSE "200"

(***************************************************************************)
(* Client state helpers                                                    *)
(***************************************************************************)
H == hosts[cur]
RK(h, repo) == IF cf.repoAuth /\ h \in {"A", "M"} THEN repo ELSE ""
Key(uh, ty) == <<H, RK(H, Step.repo), uh, ty>>
Has(a, k) == k \in DOMAIN a
Put(a, k, v) == [x \in DOMAIN a \cup {k} |-> IF x = k THEN v ELSE a[x]]
Acts == IF Step.meth \in {"GET", "HEAD"} THEN {"pull"} ELSE {"pull", "push"}
ScopeOf == {<<Step.repo, a>> : a \in Acts}
URL == IF Step.direct \in {Loc, Pg} THEN loc
       ELSE IF Step.direct # <<>> THEN Step.direct
       ELSE <<H, IF cf.tls[H] THEN "https" ELSE "http">>
CredKind(h, asked) == IF HonorsHost /\ asked # h THEN "none" ELSE cf.cred[h]
NewBasic == [realm |-> "", svc |-> "", sc |-> {}, tok |-> None, rt |-> None]
NewBearer == [realm |-> <<>>, svc |-> "", sc |-> {}, tok |-> None, rt |-> None]
\* may credentials be attached to a request for <<uh, sch>> on behalf of clientHost h
Bound(h, uh, sch) == ~(SchemeBound /\ sch = "http" /\ (IF FoldCase THEN Canon(uh) ELSE uh) = h /\ cf.tls[h])

\* Auth.UpdateRequest for URL host uh: "none" | "basic" | "token" | "gen" | "err"
UR(a, uh, sch) ==
  LET kb == Key(uh, "basic")
      kt == Key(uh, "bearer")
      basicOK == Has(a, kb) /\ HasUP(CredKind(H, uh))
  IN IF ~Bound(H, uh, sch) THEN "none"
     ELSE IF basicOK THEN "basic"
     ELSE IF Has(a, kt) THEN (IF a[kt].tok # None THEN "token" ELSE "gen")
     ELSE IF Has(a, kb) THEN "err"
     ELSE "none"

(***************************************************************************)
(* History                                                                 *)
(***************************************************************************)
OwnersOf(secs) == {Owner(s) : s \in {x \in secs : IsSecret(x)}}
TlsHosts == {r \in Regs : cf.tls[r]}
\* the obligations are those of the property monitor (AuthObl.tla), evaluated on every message
NewLeaks(to, sch, secs, via) ==
  {[k |-> "O1", o |-> o, to |-> to, via |-> via] : o \in O1Bad(named, OwnersOf(secs), to)}
  \cup (IF O2Bad(TlsHosts, sch, to, OwnersOf(secs))
        THEN {[k |-> "O2", o |-> to, to |-> to, via |-> via]} ELSE {})
M(to, sch, secs, via) == [to |-> Canon(to), sch |-> sch, secs |-> secs, via |-> via]
Msgs(ms) ==   \* the messages of one step, in order
  /\ leaks' = leaks \cup UNION {NewLeaks(ms[i].to, ms[i].sch, ms[i].secs, ms[i].via) : i \in 1..Len(ms)}
  /\ wire' = wire \o [i \in 1..Len(ms) |-> [to |-> ms[i].to, sch |-> ms[i].sch, own |-> OwnersOf(ms[i].secs)]]
Msg(to, sch, secs, via) == Msgs(<<M(to, sch, secs, via)>>)
\* how the credentials on a request to `to` were chosen (classification of a leak)
Via(to, copied) ==
  IF copied THEN "copied"
  ELSE IF to = H THEN "own-handler"
  ELSE IF Canon(to) = H THEN "other-spelling"     \* handler keyed by another spelling of the clientHost's own name
  ELSE "foreign-handler"

(***************************************************************************)
(* Sending                                                                 *)
(***************************************************************************)
\* put a registry request on the wire
SendRq(to, sch, az, ini, strip, copied, brk, pre) ==
  /\ rq' = [to |-> to, sch |-> sch, az |-> az, ini |-> ini, strip |-> strip, brk |-> brk]
  /\ Msgs(pre \o <<M(to, sch, {az}, Via(to, copied))>>)
  /\ ph' = "wait"
  /\ tk' = NoTk /\ gc' = NoGc

\* bearerHandler.GenerateAuth without a token: tryPost when a refresh / identity token exists, else tryGet
TokSecs(a, k, stage) ==
  LET ck == CredKind(k[1], k[3]) IN
  IF stage = "post"
  THEN {IF a[k].rt # None THEN a[k].rt ELSE <<"idt", k[1]>>}
  ELSE IF HasUP(ck) THEN {<<"cred", k[1]>>} ELSE {}
BeginGen(a, k, ctx, good, nto, nsch, copied, pre) ==
  LET ck == CredKind(k[1], k[3])
      stage == IF a[k].rt # None \/ HasIdt(ck) THEN "post" ELSE "get"
      secs == TokSecs(a, k, stage)
  IN /\ tk' = [stage |-> stage, to |-> a[k].realm[1], sch |-> a[k].realm[2], secs |-> secs]
     /\ gc' = [ctx |-> ctx, key |-> k, good |-> good, nto |-> nto, nsch |-> nsch, copied |-> copied]
     /\ Msgs(pre \o <<M(a[k].realm[1], a[k].realm[2], secs, IF k[3] # k[1] THEN "foreign-handler" ELSE "own-handler")>>)
     /\ ph' = "gen"

(***************************************************************************)
(* Outcomes of one attempt inside Resp.next                                *)
(***************************************************************************)
FinishLoc(ok, l) ==
  /\ pc' = IF ok THEN Step.onok ELSE Step.onfail
  /\ loc' = IF ok /\ (Step.meth \in {"POST", "PATCH"} \/ Step.obj \in {"g", "f"}) THEN l ELSE loc
  /\ sess' = IF ok /\ Step.meth = "POST" THEN Canon(rq.to) ELSE sess
  /\ ph' = "idle" /\ hosts' = <<>> /\ cur' = 1 /\ again' = FALSE /\ sg' = ""
  /\ rq' = NoRq /\ tk' = NoTk /\ gc' = NoGc
Finish(ok) == FinishLoc(ok, <<rq.to, rq.sch>>)
DropHost ==   \* dropHost: the host is removed, the loop goes on (or ends with an error)
  LET hs == SubSeq(hosts, 1, cur - 1) \o SubSeq(hosts, cur + 1, Len(hosts)) IN
  IF hs = <<>> THEN Finish(FALSE)
  ELSE /\ hosts' = hs /\ cur' = IF cur > Len(hs) THEN 1 ELSE cur
       /\ ph' = "attempt" /\ rq' = NoRq /\ tk' = NoTk /\ gc' = NoGc /\ sg' = "" /\ again' = TRUE /\ UNCHANGED <<pc, loc, sess>>
NextHost ==   \* backoff without dropping: curHost++
  /\ cur' = IF cur + 1 > Len(hosts) THEN 1 ELSE cur + 1
  /\ ph' = "attempt" /\ rq' = NoRq /\ tk' = NoTk /\ gc' = NoGc /\ sg' = "" /\ again' = TRUE /\ UNCHANGED <<pc, hosts, loc, sess>>
Backoff == IF Step.ign THEN DropHost ELSE NextHost     \* Req.IgnoreErr: no back-off, the host is dropped
RetryHost ==  \* retryHost after a good challenge
  /\ ph' = "attempt" /\ rq' = NoRq /\ tk' = NoTk /\ gc' = NoGc /\ sg' = "" /\ again' = TRUE /\ UNCHANGED <<pc, hosts, cur, loc, sess>>

(***************************************************************************)
(* Client actions                                                          *)
(***************************************************************************)
StartDo ==
  /\ ph = "idle" /\ Running
  /\ hosts' = IF PgNoMirrors /\ Step.direct = Pg
               THEN <<IF cf.mirror /\ Step.reg = "A" /\ loc[1] = "M" THEN "M" ELSE Step.reg>>   \* hostByURL: the host that
               ELSE IF Step.mir /\ cf.mirror /\ Step.reg = "A" THEN <<"M", "A">> ELSE <<Step.reg>>  \* served the page
  /\ cur' = 1 /\ ph' = "attempt" /\ again' = FALSE /\ sg' = ""
  /\ UNCHANGED <<cf, pc, rq, tk, gc, loc, sess, au, nf, named, leaks, wire, script>>

End ==
  /\ ph = "idle" /\ ~Running
  /\ ph' = "end"
  /\ UNCHANGED <<cf, pc, hosts, cur, rq, tk, gc, again, sg, sess, loc, au, nf, named, leaks, wire, script>>

\* Auth.AddScope(h.Hostname, docker scope): only a bearer handler keyed by the clientHost's own name reacts
AddScope(a) ==
  LET k == Key(H, "bearer") IN
  IF Has(a, k) /\ ~(ScopeOf \subseteq a[k].sc)
  THEN Put(a, k, [a[k] EXCEPT !.sc = @ \cup ScopeOf, !.tok = None])
  ELSE a

\* credentials A's own Auth attaches to a request for A (UpdateRequest without network)
SrcAz ==
  LET kb == <<"A", RK("A", Step.repo), "A", "basic">>
      kt == <<"A", RK("A", Step.repo), "A", "bearer">>
  IN IF Has(au, kb) /\ HasUP(cf.cred["A"]) THEN <<"cred", "A">>
     ELSE IF Has(au, kt) /\ au[kt].tok # None THEN au[kt].tok
     ELSE None
SrcM == M("A", IF cf.tls["A"] THEN "https" ELSE "http", {SrcAz}, "own-handler")
SrcOK == [h |-> "A", o |-> Step.obj, r |-> [t |-> "ok", c |-> "", realm |-> "", rs |-> "", svc |-> "", to |-> "", ts |-> ""]]
NeedSrc == Step.src /\ again /\ sg = ""
\* BodyFunc of a repeated attempt: GET on the source registry, always served in this model
SrcGet ==
  /\ ph = "attempt" /\ NeedSrc
  /\ Msgs(<<SrcM>>)
  /\ script' = Append(script, SrcOK)
  /\ sg' = "done"
  /\ UNCHANGED <<cf, pc, ph, hosts, cur, rq, tk, gc, again, loc, sess, au, nf, named>>

Attempt ==
  /\ ph = "attempt" /\ ~NeedSrc
  /\ LET a1 == AddScope(au)
         u == URL
         r == UR(a1, u[1], u[2])
     IN /\ au' = a1
        /\ CASE r = "none"  -> SendRq(u[1], u[2], None, u[1], FALSE, FALSE, FALSE, <<>>) /\ UNCHANGED <<pc, hosts, cur, loc, sess, again, sg>>
             [] r = "basic" -> SendRq(u[1], u[2], <<"cred", H>>, u[1], FALSE, FALSE, FALSE, <<>>)
                               /\ UNCHANGED <<pc, hosts, cur, loc, sess, again, sg>>
             [] r = "token" -> SendRq(u[1], u[2], a1[Key(u[1], "bearer")].tok, u[1], FALSE, FALSE, FALSE, <<>>)
                               /\ UNCHANGED <<pc, hosts, cur, loc, sess, again, sg>>
             [] r = "gen"   -> BeginGen(a1, Key(u[1], "bearer"), "attempt", FALSE, u[1], u[2], None, <<>>)
                               /\ UNCHANGED <<pc, hosts, cur, rq, loc, sess, again, sg>>
             [] r = "err"   -> DropHost /\ UNCHANGED <<leaks, wire>>
  /\ UNCHANGED <<cf, nf, named, script>>

(***************************************************************************)
(* Token server                                                            *)
(***************************************************************************)
GenOK(a, tokv) ==   \* GenerateAuth returned "Bearer tokv"
  CASE gc.ctx \in {"attempt", "redirect"} ->
         /\ rq' = [to |-> gc.nto, sch |-> gc.nsch, az |-> tokv,
                   ini |-> IF gc.ctx = "attempt" THEN gc.nto ELSE rq.ini,
                   strip |-> IF gc.ctx = "attempt" THEN FALSE ELSE rq.strip,
                   brk |-> gc.ctx = "redirect" /\ NoRebody(Step)]
         /\ Msg(gc.nto, gc.nsch, {tokv}, Via(gc.nto, FALSE))
         /\ ph' = "wait" /\ tk' = NoTk /\ gc' = NoGc
         /\ UNCHANGED <<pc, hosts, cur, loc, sess, again, sg>>
    [] gc.ctx = "race" ->
         /\ (IF gc.good \/ rq.az # tokv THEN RetryHost ELSE DropHost)
         /\ UNCHANGED <<leaks, wire>>
GenFail ==
  /\ CASE gc.ctx = "attempt" -> DropHost                  \* UpdateRequest error wraps ErrHTTPUnauthorized
       [] gc.ctx = "redirect" -> Backoff                  \* checkRedirect error = failed round trip: back off
       [] gc.ctx = "race" -> IF gc.good THEN RetryHost ELSE DropHost
  /\ UNCHANGED <<leaks, wire>>

TokReply ==
  /\ ph = "gen"
  /\ \E r \in {"tok"} \cup (IF nf < MaxFaults THEN TokReplies ELSE {}) :
       LET k == gc.key
           authed == tk.secs # {}
           tokv == IF authed THEN <<"at", au[k].svc>> ELSE Pub
           a1 == Put(au, k, [au[k] EXCEPT !.tok = tokv,
                                         !.rt = IF r = "tokr" /\ authed THEN <<"rt", au[k].svc>> ELSE None])
       IN /\ nf' = IF r = "tok" THEN nf ELSE nf + 1
          /\ script' = Append(script, [h |-> tk.to, o |-> "t", r |-> [t |-> r, c |-> "", realm |-> "", rs |-> "",
                                                                 svc |-> "", to |-> "", ts |-> ""]])
          /\ CASE r \in {"tok", "tokr"} -> au' = a1 /\ GenOK(a1, tokv)
               [] r = "deny" /\ tk.stage = "post" ->      \* tryPost unauthorized: fall through to tryGet
                    LET secs == TokSecs(au, k, "get") IN
                    /\ tk' = [tk EXCEPT !.stage = "get", !.secs = secs]
                    /\ Msg(tk.to, tk.sch, secs, IF k[3] # k[1] THEN "foreign-handler" ELSE "own-handler")
                    /\ UNCHANGED <<au, pc, ph, hosts, cur, rq, gc, loc, sess, again, sg>>
               [] r = "deny" /\ tk.stage = "get" -> au' = au /\ GenFail
               [] r \in {"err", "bad"} -> au' = au /\ GenFail   \* validateResponse: a decode error is not ErrHTTPUnauthorized,
                                                               \* no fall through from tryPost to tryGet, b.token untouched
  /\ UNCHANGED <<cf, named>>

(***************************************************************************)
(* Registry replies                                                        *)
(***************************************************************************)
Rec(r) == script' = Append(script, [h |-> Canon(rq.to), o |-> Step.obj, r |-> r])
R0(t) == [t |-> t, c |-> "", realm |-> "", rs |-> "", svc |-> "", to |-> "", ts |-> ""]
Budget == nf < MaxFaults

ReplyNatural ==
  /\ ph = "wait" /\ ~rq.brk
  /\ Rec(R0("ok"))
  /\ IF Natural(Step, Canon(rq.to)) = "200" THEN Finish(TRUE) ELSE DropHost
  /\ UNCHANGED <<cf, au, nf, named, leaks, wire>>

\* the redirected request could not re-send its body: the round trip fails after the headers went out
ReplyBroken ==
  /\ ph = "wait" /\ rq.brk
  /\ Backoff
  /\ UNCHANGED <<cf, au, nf, named, leaks, wire, script>>

ReplyFault ==
  /\ ph = "wait" /\ Budget /\ ~rq.brk
  /\ \E f \in FaultKinds :
       /\ Rec(R0(f))
       /\ IF f = "nf" THEN DropHost ELSE Backoff
  /\ nf' = nf + 1
  /\ UNCHANGED <<cf, au, named, leaks, wire>>

\* challenges a host may send
Chals(h) ==
  LET realms == IF h \in Regs THEN {<<TokOf(h), "https">>, <<"X", "https">>} ELSE {<<"X", "https">>} \cup ForeignRealms
      svcs == IF h \in Regs THEN {h} ELSE {h, "A"}
  IN {[t |-> "u", c |-> x, realm |-> "", rs |-> "", svc |-> "", to |-> "", ts |-> ""] :
         x \in ChalKinds \cap {"none", "mal", "uns", "bnr", "b1", "b2"}}
     \cup {[t |-> "u", c |-> x, realm |-> r[1], rs |-> r[2], svc |-> s, to |-> "", ts |-> ""] :
         x \in ChalKinds \cap {"t", "bt"}, r \in realms, s \in svcs}

\* basicHandler.ProcessChallenge + race check; prev is the Authorization of the answered request
HBasic(a, c, prev) ==
  LET k == Key(rq.to, "basic")
      h0 == IF Has(a, k) THEN a[k] ELSE NewBasic
      r == IF c.c = "b2" THEN "2" ELSE "1"
  IN IF c.c = "bnr" THEN [au |-> Put(a, k, h0), good |-> FALSE, err |-> TRUE]       \* no realm: ErrInvalidChallenge
     ELSE IF h0.realm # r THEN [au |-> Put(a, k, [h0 EXCEPT !.realm = r]), good |-> TRUE, err |-> FALSE]
     ELSE [au |-> Put(a, k, h0), err |-> FALSE,
           good |-> HasUP(CredKind(H, rq.to)) /\ prev # <<"cred", H>>]              \* ErrNoNewChallenge: race check
\* bearerHandler.ProcessChallenge; gen = the race check has to fetch a token first
HBearer(a, c, prev) ==
  LET k == Key(rq.to, "bearer")
      h0 == IF Has(a, k) THEN a[k] ELSE NewBearer
      rl == <<c.realm, c.rs>>
      ex == ScopeOf \subseteq h0.sc
      a0 == Put(a, k, h0)
  IN IF h0.realm = rl /\ h0.svc = c.svc /\ ex
     THEN IF h0.tok # None THEN [au |-> a0, good |-> prev # h0.tok, err |-> FALSE, gen |-> FALSE]
          ELSE [au |-> a0, good |-> FALSE, err |-> FALSE, gen |-> TRUE]
     ELSE IF (h0.realm # <<>> /\ h0.realm # rl) \/ (h0.svc # "" /\ h0.svc # c.svc)
          THEN [au |-> a0, good |-> FALSE, err |-> TRUE, gen |-> FALSE]             \* ErrInvalidChallenge
          ELSE [au |-> Put(a, k, [h0 EXCEPT !.realm = rl, !.svc = c.svc,
                                            !.sc = IF ex THEN @ ELSE @ \cup ScopeOf,
                                            !.tok = IF ex THEN @ ELSE None]),
                good |-> TRUE, err |-> FALSE, gen |-> FALSE]

Reply401 ==
  /\ ph = "wait" /\ Budget /\ ~rq.brk
  /\ \E c \in Chals(Canon(rq.to)) :
       /\ Rec(c)
       /\ named' = IF c.c \in {"t", "bt"} THEN named \cup {<<Canon(rq.to), c.realm>>} ELSE named
       /\ CASE c.c \in {"none", "mal", "uns"} ->      \* empty / unparsable / unsupported challenge
                 au' = au /\ DropHost /\ UNCHANGED <<leaks, wire>>
            [] c.c \in {"bnr", "b1", "b2"} ->
                 LET b == HBasic(au, c, rq.az) IN
                 /\ au' = b.au
                 /\ (IF b.good /\ ~b.err THEN RetryHost ELSE DropHost)
                 /\ UNCHANGED <<leaks, wire>>
            [] c.c = "t" ->
                 LET t == HBearer(au, c, rq.az) IN
                 /\ au' = t.au
                 /\ IF t.gen THEN BeginGen(t.au, Key(rq.to, "bearer"), "race", FALSE, "", "", None, <<>>)
                                  /\ UNCHANGED <<pc, hosts, cur, rq, loc, sess, again, sg>>
                    ELSE (IF t.good /\ ~t.err THEN RetryHost ELSE DropHost) /\ UNCHANGED <<leaks, wire>>
            [] c.c = "bt" ->                           \* Basic first, then Bearer
                 LET b == HBasic(au, c, rq.az)
                     t == HBearer(b.au, c, rq.az)
                 IN /\ au' = t.au
                    /\ IF t.err THEN DropHost /\ UNCHANGED <<leaks, wire>>
                       ELSE IF t.gen THEN BeginGen(t.au, Key(rq.to, "bearer"), "race", b.good, "", "", None, <<>>)
                                          /\ UNCHANGED <<pc, hosts, cur, rq, loc, sess, again, sg>>
                       ELSE (IF b.good \/ t.good THEN RetryHost ELSE DropHost) /\ UNCHANGED <<leaks, wire>>
  /\ nf' = nf + 1
  /\ UNCHANGED cf

\* the POST is served, but the Location of the upload session names another host / scheme
ReplyLoc ==
  /\ ph = "wait" /\ Budget /\ ~rq.brk /\ Step.meth = "POST"
  /\ Natural(Step, Canon(rq.to)) = "200"
  /\ \E t \in LocTo :
       /\ Rec([t |-> "lc", c |-> "", realm |-> "", rs |-> "", svc |-> "", to |-> t[1], ts |-> t[2]])
       /\ FinishLoc(TRUE, t)
  /\ nf' = nf + 1
  /\ UNCHANGED <<cf, au, named, leaks, wire>>

\* 307: net/http copies the headers of the first request (sensitive ones only inside the first
\* host's domain), then checkRedirect runs Auth.UpdateRequest of the SAME clientHost for the new host
ReplyRedirect ==
  /\ ph = "wait" /\ Budget /\ ~rq.brk
  /\ \E t \in RedirTo :
       LET to == t[1]
           sch == t[2]
           leaves == to # rq.ini
           strip == rq.strip \/ (leaves /\ (<<rq.ini, to>> \notin SubDomain \/ StripOnRedirect))
           \* the header of the FIRST request of the chain is what gets copied
           copied == IF strip THEN None ELSE rq.az
           r == UR(au, to, sch)
           rd == [h |-> Canon(rq.to), o |-> Step.obj,
                  r |-> [t |-> "rd", c |-> "", realm |-> "", rs |-> "", svc |-> "", to |-> to, ts |-> sch]]
           \* net/http re-opens the body with GetBody = BodyFunc: for a streamed blob a GET on the source
           pre == IF Step.src THEN <<SrcM>> ELSE <<>>
       IN /\ script' = IF Step.src THEN Append(Append(script, rd), SrcOK) ELSE Append(script, rd)
          /\ CASE r = "none"  -> SendRq(to, sch, IF Bound(H, to, sch) THEN copied ELSE None, rq.ini, strip,
                                        copied # None, NoRebody(Step), pre)
                                 /\ UNCHANGED <<pc, hosts, cur, loc, sess, again, sg>>
               [] r = "basic" -> SendRq(to, sch, <<"cred", H>>, rq.ini, strip, FALSE, NoRebody(Step), pre)
                                 /\ UNCHANGED <<pc, hosts, cur, loc, sess, again, sg>>
               [] r = "token" -> SendRq(to, sch, au[Key(to, "bearer")].tok, rq.ini, strip, FALSE, NoRebody(Step), pre)
                                 /\ UNCHANGED <<pc, hosts, cur, loc, sess, again, sg>>
               [] r = "gen"   -> BeginGen(au, Key(to, "bearer"), "redirect", FALSE, to, sch, copied, pre)
                                 /\ rq' = [rq EXCEPT !.strip = strip]
                                 /\ UNCHANGED <<pc, hosts, cur, loc, sess, again, sg>>
               [] r = "err"   -> Backoff /\ Msgs(pre)
  /\ nf' = nf + 1
  /\ UNCHANGED <<cf, au, named>>

Init ==
  /\ cf \in Confs
  /\ pc = 1 /\ ph = "idle" /\ hosts = <<>> /\ cur = 1
  /\ rq = NoRq /\ tk = NoTk /\ gc = NoGc /\ loc = <<>> /\ sess = "" /\ again = FALSE /\ sg = ""
  /\ au = <<>> /\ nf = 0 /\ named = {} /\ leaks = {} /\ wire = <<>> /\ script = <<>>

Next ==
  \/ StartDo \/ SrcGet \/ Attempt \/ TokReply
  \/ ReplyNatural \/ ReplyBroken \/ ReplyFault \/ Reply401 \/ ReplyRedirect \/ ReplyLoc
  \/ End

Spec == Init /\ [][Next]_vars

(***************************************************************************)
(* Properties of the design (the observation level statement is AuthProp)  *)
(***************************************************************************)
NoLeak == leaks = {}
\* the code as it is today (SchemeBound, StripOnRedirect, ~HonorsHost) leaks only through handlers that
\* are keyed by a foreign host and filled with the clientHost's own credentials (S3)
LeaksOnlyS3 == \A l \in leaks : l.via = "foreign-handler"
\* (with FoldCase = FALSE, the code before f7f5652, LeaksOnlyS3 is violated: a handler keyed by a mixed-case
\* spelling of the registry's own name sends its credentials over http, via = "other-spelling")
\* without redirects and upload locations no credential of one configured registry reaches another one
\* (violated by the page links walked over the mirrors, PgNoMirrors = FALSE, the code before ac54726)
NoCrossConfigured == \A l \in leaks : ~(l.k = "O1" /\ l.o \in Regs /\ l.to \in Regs)
\* the code as found leaked, but only through these three mechanisms; in particular a
\* credential chosen by a handler that is keyed by the clientHost's own hostname never reaches
\* another host (registries, mirror and upstream stay separated whatever the servers do)
LeaksOnlyKnown ==
  \A l \in leaks :
     \/ l.k = "O1" /\ l.via = "foreign-handler"   \* S3: handler keyed by a foreign host, the clientHost's credentials
     \/ l.k = "O1" /\ l.via = "copied"            \* net/http copies Authorization to sub domains of the first host
     \/ l.k = "O2"                                \* the host keyed handler ignores the scheme
\* each repair removes its class
S3Repaired == HonorsHost => \A l \in leaks : ~(l.k = "O1" /\ l.via = "foreign-handler")
SchemeRepaired == (SchemeBound /\ HonorsHost) => \A l \in leaks : l.k # "O2"
CopyRepaired == StripOnRedirect => \A l \in leaks : l.via # "copied" \/ l.k = "O2"
TypeOK ==
  /\ pc \in 0..(Len(P) + 1) \cup {99}
  /\ ph \in {"idle", "attempt", "gen", "wait", "end"}
  /\ nf \in 0..MaxFaults
  /\ ph \in {"attempt", "wait", "gen"} => cur \in 1..Len(hosts)
Terminated == ph = "end"
=============================================================================

-------------------------- MODULE ThrottleUseProp --------------------------
(***************************************************************************)
(* (P) property monitor for X01 (use of the request throttles).            *)
(* Observation shaped: it sees the throttle's own events (hooks of         *)
(* internal/pqueue, build tag verif: who was admitted to / queued at /     *)
(* released from which queue, attributed to the goroutine that made the    *)
(* call) and what reached the wire (a tracing RoundTripper: a request is   *)
(* sent to a host by a goroutine, a response body is read), and states:    *)
(*   limit     a host's throttle has the limit configured for that host    *)
(*   send      a request is sent to a throttled host only by a goroutine   *)
(*             that holds a slot of that host's throttle at that moment    *)
(*   read      a response body is read only while the slot its request was *)
(*             sent under is still held                                    *)
(*   final     when every call has returned and every reader is closed no  *)
(*             slot is held and nobody is queued                           *)
(*   stuck     every call returns                                          *)
(* The first violated obligation is latched in `bad`.                      *)
(***************************************************************************)
EXTENDS Naturals, FiniteSets, Sequences, TLC
VARIABLES qof,      \* host -> queue id (calibration)
          lim,      \* host -> configured limit
          held,     \* set of <<queue, entry, goroutine, serial>>
          waiting,  \* set of <<queue, entry, goroutine>>
          under,    \* request id -> <<queue, entry>> of the slot it was sent under
          ser,      \* serial number of the next admission
          bad
pvars == <<qof, lim, held, waiting, under, ser, bad>>

Flag(b, name) == IF bad # "" THEN bad ELSE IF b THEN name ELSE ""
Put(f, k, v) == [x \in DOMAIN f \cup {k} |-> IF x = k THEN v ELSE f[x]]

PInit == qof = <<>> /\ lim = <<>> /\ held = {} /\ waiting = {} /\ under = <<>> /\ ser = 1 /\ bad = ""
PReset == qof' = <<>> /\ lim' = <<>> /\ held' = {} /\ waiting' = {} /\ under' = <<>> /\ ser' = 1 /\ bad' = ""

PConf(h, n) == lim' = Put(lim, h, n) /\ UNCHANGED <<qof, held, waiting, under, ser, bad>>
\* a request sent alone showed which queue serves host h; m is that queue's limit
PCalib(h, q, m) ==
  /\ qof' = Put(qof, h, q)
  /\ bad' = Flag(h \in DOMAIN lim /\ lim[h] # m, "limit")
  /\ UNCHANGED <<lim, held, waiting, under, ser>>

PAdmit(q, e, g) ==
  /\ held' = held \cup {<<q, e, g, ser>>}
  /\ ser' = ser + 1
  /\ UNCHANGED <<qof, lim, waiting, under, bad>>
PEnqueue(q, e, g) == waiting' = waiting \cup {<<q, e, g>>} /\ UNCHANGED <<qof, lim, held, under, ser, bad>>
\* a release hands its slot to the waiting entry e: it belongs to the goroutine that queued it
PPromote(q, e) ==
  LET w == {x \in waiting : x[1] = q /\ x[2] = e} IN
  /\ waiting' = waiting \ w
  /\ held' = held \cup {<<q, e, x[3], ser>> : x \in w}
  /\ ser' = ser + 1
  /\ UNCHANGED <<qof, lim, under, bad>>
PCancelRemove(q, e) == waiting' = {x \in waiting : ~(x[1] = q /\ x[2] = e)} /\ UNCHANGED <<qof, lim, held, under, ser, bad>>
PReleased(q, e) == held' = {x \in held : ~(x[1] = q /\ x[2] = e)} /\ UNCHANGED <<qof, lim, waiting, under, ser, bad>>

\* goroutine g sends request r to host h
PSend(h, g, r) ==
  IF h \notin DOMAIN qof THEN UNCHANGED pvars     \* not a throttled host (redirect target, token server)
  ELSE LET mine == {x \in held : x[1] = qof[h] /\ x[3] = g} IN
       /\ bad' = Flag(mine = {}, "send-without-slot")
       /\ under' = IF mine = {} THEN under
                   ELSE LET last == CHOOSE x \in mine : \A y \in mine : y[4] <= x[4] IN Put(under, r, <<last[1], last[2], last[4]>>)
       /\ UNCHANGED <<qof, lim, held, waiting, ser>>
\* the body of the response to request r is read
PRead(r) ==
  /\ bad' = Flag(r \in DOMAIN under /\ ~\E x \in held : x[1] = under[r][1] /\ x[2] = under[r][2] /\ x[4] = under[r][3],
                 "read-after-release")
  /\ UNCHANGED <<qof, lim, held, waiting, under, ser>>
PFinal ==
  /\ bad' = IF bad # "" THEN bad ELSE IF held # {} THEN "slot-leak" ELSE IF waiting # {} THEN "left-waiting" ELSE ""
  /\ UNCHANGED <<qof, lim, held, waiting, under, ser>>
PStuck == bad' = Flag(TRUE, "stuck") /\ UNCHANGED <<qof, lim, held, waiting, under, ser>>
PNote == UNCHANGED pvars
Ok == bad = ""
=============================================================================

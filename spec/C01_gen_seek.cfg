CONSTANTS
 MaxLen = 2
 ReadSizes = {5}
 MaxDrops = 0
 MaxFails = 0
 MaxSeeks = 1
 MaxAgain = 0
 RetryLimit = 3
 Schemes = {"reg", "ocidir"}
 Vias = {"reader"}
 Withs = {TRUE, FALSE}
 Chunks = {5}
 LyingSizes = FALSE
 LieMax = 1
 InlineData = FALSE
 Conc = 3
 Probes = FALSE
 Exts = {0}
 KeepSlots = FALSE
 TarUnverified = FALSE
 MTs = {TRUE}
 DigestHdrs = {"served"}
 Trailers = {FALSE}
 Sts = {"std"}
 DropKinds = {"ueof"}
INIT GInit
NEXT GNext
INVARIANTS Emit
CHECK_DEADLOCK FALSE
CONSTANTS
 Replies <- SwitchReplies

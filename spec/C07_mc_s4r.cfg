CONSTANTS
 Scenarios <- Populated
 MaxCrash = 1
 MarkerMode = "rewrite"
 MarkerWindow = TRUE
INIT Init
NEXT Next
INVARIANTS RetryOK
CHECK_DEADLOCK FALSE

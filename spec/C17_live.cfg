CONSTANTS
 Procs = {"p1", "p2", "p3"}
 Queues = {"q1", "q2"}
 MaxMax = 2
 MultiLens = {2}
 Confs <- SingleConfs
SPECIFICATION Spec
INVARIANTS Bound NoOrphan
PROPERTY Termination

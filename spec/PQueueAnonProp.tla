-------------------------- MODULE PQueueAnonProp --------------------------
(***************************************************************************)
(* (P) monitor for C17 when entries have no identity of their own          *)
(* (pqueue.Queue[struct{}], as the regsync and regbot throttles use it:    *)
(* all entries of a zero-size type share one address).  Every event is     *)
(* attributed to the CALLER whose goroutine emitted it, so the monitor      *)
(* tracks callers, and hand-overs (promotions) are anonymous: a counter.   *)
(*   hold[q]   callers that hold a slot                                    *)
(*   wait[q]   callers that enqueued and have neither been woken nor left  *)
(*   pend[q]   promotions whose wake-up nobody has consumed yet            *)
(*   zomb[q]   cancelled callers that were handed a slot and owe a release *)
(* Obligations: bound, count (the queue's own lengths agree with what the  *)
(* callers did), handover (a wake-up is consumed by a waiter, a promotion  *)
(* needs a waiter), gaveup, quiescent (when every caller is parked: no     *)
(* wake-up is in flight, and a waiter implies a full queue), final, no     *)
(* deadlock.  First violated obligation latched in `bad`.                  *)
(***************************************************************************)
EXTENDS Integers, FiniteSets, Sequences, TLC
VARIABLES hold, wait, pend, zomb, mx, bad
avars == <<hold, wait, pend, zomb, mx, bad>>

GetS(f, q) == IF q \in DOMAIN f THEN f[q] ELSE {}
GetN(f, q) == IF q \in DOMAIN f THEN f[q] ELSE 0
Put(f, q, v) == [x \in DOMAIN f \cup {q} |-> IF x = q THEN v ELSE f[x]]
First(checks) == IF bad # "" THEN bad
                 ELSE IF \E i \in 1..Len(checks) : checks[i][1]
                      THEN checks[CHOOSE i \in 1..Len(checks) : checks[i][1] /\ \A j \in 1..(i-1) : ~checks[j][1]][2]
                      ELSE ""
\* the queue's own lengths, logged under its mutex, against the callers' view
CountBad(q, h, w, p, z, nAct, nQue) ==
  \/ nAct >= 0 /\ nAct # Cardinality(h) + p + Cardinality(z)
  \/ nQue >= 0 /\ nQue # Cardinality(w) - p

AInit == hold = <<>> /\ wait = <<>> /\ pend = <<>> /\ zomb = <<>> /\ mx = <<>> /\ bad = ""
AReset == hold' = <<>> /\ wait' = <<>> /\ pend' = <<>> /\ zomb' = <<>> /\ mx' = <<>> /\ bad' = ""

AAdmit(q, p, m, nAct, nQue) ==
  LET h == GetS(hold, q) \cup {p} IN
  /\ hold' = Put(hold, q, h) /\ mx' = Put(mx, q, m)
  /\ bad' = First(<< <<p \in GetS(hold, q) \cup GetS(wait, q), "double-admit">>,
                    <<Cardinality(h) + GetN(pend, q) + Cardinality(GetS(zomb, q)) > m, "bound">>,
                    <<CountBad(q, h, GetS(wait, q), GetN(pend, q), GetS(zomb, q), nAct, nQue), "count">> >>)
  /\ UNCHANGED <<wait, pend, zomb>>

AEnqueue(q, p, m, nAct, nQue) ==
  LET w == GetS(wait, q) \cup {p} IN
  /\ wait' = Put(wait, q, w) /\ mx' = Put(mx, q, m)
  /\ bad' = First(<< <<p \in GetS(hold, q) \cup GetS(wait, q), "double-enqueue">>,
                    <<CountBad(q, GetS(hold, q), w, GetN(pend, q), GetS(zomb, q), nAct, nQue), "count">> >>)
  /\ UNCHANGED <<hold, pend, zomb>>

\* a release hands its slot to some waiter (counts are checked at the `released` event that follows)
APromote(q) ==
  /\ pend' = Put(pend, q, GetN(pend, q) + 1)
  /\ bad' = First(<< <<Cardinality(GetS(wait, q)) - GetN(pend, q) < 1, "promote-without-waiter">> >>)
  /\ UNCHANGED <<hold, wait, zomb, mx>>

AWake(q, p) ==
  /\ wait' = Put(wait, q, GetS(wait, q) \ {p})
  /\ hold' = Put(hold, q, GetS(hold, q) \cup {p})
  /\ pend' = Put(pend, q, GetN(pend, q) - 1)
  /\ bad' = First(<< <<p \notin GetS(wait, q), "wake-of-non-waiter">>,
                    <<GetN(pend, q) < 1, "wake-without-handover">> >>)
  /\ UNCHANGED <<zomb, mx>>

ACancelRemove(q, p, nAct, nQue) ==
  LET w == GetS(wait, q) \ {p} IN
  /\ wait' = Put(wait, q, w)
  /\ bad' = First(<< <<p \notin GetS(wait, q), "cancel-remove-nonwaiter">>,
                    <<CountBad(q, GetS(hold, q), w, GetN(pend, q), GetS(zomb, q), nAct, nQue), "count">> >>)
  /\ UNCHANGED <<hold, pend, zomb, mx>>

ACancelPass(q, p, nAct, nQue) ==
  LET w == GetS(wait, q) \ {p}
      z == GetS(zomb, q) \cup {p} IN
  /\ wait' = Put(wait, q, w) /\ zomb' = Put(zomb, q, z)
  /\ pend' = Put(pend, q, GetN(pend, q) - 1)
  /\ bad' = First(<< <<p \notin GetS(wait, q), "cancel-pass-nonwaiter">>,
                    <<GetN(pend, q) < 1, "cancel-pass-without-handover">>,
                    <<CountBad(q, GetS(hold, q), w, GetN(pend, q) - 1, z, nAct, nQue), "count">> >>)
  /\ UNCHANGED <<hold, mx>>

AReleased(q, p, m, nAct, nQue) ==
  LET h == GetS(hold, q) \ {p}
      z == GetS(zomb, q) \ {p} IN
  /\ hold' = Put(hold, q, h) /\ zomb' = Put(zomb, q, z)
  /\ bad' = First(<< <<p \notin GetS(hold, q) \cup GetS(zomb, q), "release-by-non-holder">>,
                    <<Cardinality(h) + GetN(pend, q) + Cardinality(z) > m, "bound">>,
                    <<CountBad(q, h, GetS(wait, q), GetN(pend, q), z, nAct, nQue), "count">> >>)
  /\ UNCHANGED <<wait, pend, mx>>

ATryFail(q, p, nAct, nQue) ==
  /\ bad' = First(<< <<CountBad(q, GetS(hold, q), GetS(wait, q), GetN(pend, q), GetS(zomb, q), nAct, nQue), "count">> >>)
  /\ UNCHANGED <<hold, wait, pend, zomb, mx>>

AGaveUp(p) ==
  /\ bad' = First(<< <<\E q \in DOMAIN hold : p \in hold[q], "gaveup-keeps-slot">>,
                    <<\E q \in DOMAIN wait : p \in wait[q], "gaveup-still-queued">>,
                    <<\E q \in DOMAIN zomb : p \in zomb[q], "gaveup-owes-handover">> >>)
  /\ UNCHANGED <<hold, wait, pend, zomb, mx>>

AHolding(q, p) ==
  /\ bad' = First(<< <<p \notin GetS(hold, q), "holding-not-active">> >>)
  /\ UNCHANGED <<hold, wait, pend, zomb, mx>>

\* every caller goroutine is parked (goroutine dump): a wake-up that was sent has been consumed
AQuiescent ==
  /\ bad' = First(<< <<\E q \in DOMAIN pend : pend[q] # 0, "lost-wake-up">>,
                    <<\E q \in DOMAIN zomb : zomb[q] # {}, "handover-not-passed-on">>,
                    <<\E q \in DOMAIN wait : wait[q] # {} /\ Cardinality(GetS(hold, q)) < mx[q], "waiter-with-free-slot">> >>)
  /\ UNCHANGED <<hold, wait, pend, zomb, mx>>

AFinal ==
  /\ bad' = First(<< <<(\E q1 \in DOMAIN hold : hold[q1] # {}) \/ (\E q2 \in DOMAIN wait : wait[q2] # {})
                      \/ (\E q3 \in DOMAIN pend : pend[q3] # 0) \/ (\E q4 \in DOMAIN zomb : zomb[q4] # {}),
                      "leftover-after-all-finished">> >>)
  /\ UNCHANGED <<hold, wait, pend, zomb, mx>>

AStuck == bad' = First(<< <<TRUE, "deadlock">> >>) /\ UNCHANGED <<hold, wait, pend, zomb, mx>>
AOk == bad = ""
=============================================================================

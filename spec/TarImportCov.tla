----------------------------- MODULE TarImportCov -----------------------------
(***************************************************************************)
(* Action coverage for TarImport (TLC's own -coverage runs out of memory on *)
(* the recursive operators): every action of the importer sets a TLC        *)
(* register when it is taken; the postcondition prints the names of the     *)
(* actions that were never taken ("COVERAGE", must be all "").  Run with    *)
(* -workers 1 (registers are per worker).                                   *)
(***************************************************************************)
EXTENDS TarImportMC
Acts == <<"Begin", "ScanLink", "ScanNoHandler", "HLayout", "HIndex", "HDockerJSON", "HEntry", "HBlob",
          "HDkConfig", "HDkLayer", "EndPassRescan", "Fallback", "NotFound", "FinishPush", "FinishTag",
          "FinishDone", "DockerPush">>
Mark(i) == TLCSet(10 + i, 1)
CovNext == \/ (Begin /\ Mark(1))
           \/ (ScanLink /\ Mark(2))
           \/ (ScanNoHandler /\ Mark(3))
           \/ (HLayout /\ Mark(4))
           \/ (HIndex /\ Mark(5))
           \/ (HDockerJSON /\ Mark(6))
           \/ (HEntry /\ Mark(7))
           \/ (HBlob /\ Mark(8))
           \/ (HDkConfig /\ Mark(9))
           \/ (HDkLayer /\ Mark(10))
           \/ (EndPassRescan /\ Mark(11))
           \/ (Fallback /\ Mark(12))
           \/ (NotFound /\ Mark(13))
           \/ (FinishPush /\ Mark(14))
           \/ (FinishTag /\ Mark(15))
           \/ (FinishDone /\ Mark(16))
           \/ (DockerPush /\ Mark(17))
           \/ Terminated
ASSUME \A i \in 1..Len(Acts) : TLCSet(10 + i, 0)
Report == PrintT(<<"COVERAGE", [i \in 1..Len(Acts) |-> IF TLCGet(10 + i) > 0 THEN "" ELSE Acts[i]]>>)
=============================================================================

INIT Init
NEXT Next
CONSTANTS
 Confs <- ThoroughConfs
 MaxPartial = 2
 MaxFaults = 0
 DefChunk = 2
 ChunkLimit = 6
 RetryLimit = 10
 HttpRetries = 5
 IgnoreInvalidDigest = FALSE
INVARIANTS O1 O2 O3 BufInSync PatchShape SessPrefix HashedIsRead OnlyVerified ChunkBound

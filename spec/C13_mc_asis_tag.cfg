\* before the repair (FixTag off): nothing is pushed for an unchanged image, the new tag does not exist
CONSTANTS
 Images <- ImagesData
 Options <- OptsAsisTag
 MaxProg = 1
 Places = {"same-tag"}
 SrcKinds = {"reg"}
 FixData = TRUE
 FixWriter = TRUE
 FixAdded = TRUE
 FixTag = FALSE
 FixClose = TRUE
 FixDesc = TRUE
 Fine = FALSE
SPECIFICATION Spec
INVARIANTS PostResolves
CHECK_DEADLOCK FALSE

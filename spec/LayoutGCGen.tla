----------------------------- MODULE LayoutGCGen -----------------------------
(* Scenario generator for C08: behaviours of the design spec LayoutGC with   *)
(* the history of the steps taken.  harness/cmd/c08drv imposes a history on  *)
(* the real code: calls (CopyBegin, Close, deletes, pushes) are made by the  *)
(* driver's scheduler, gated steps are the moments a copy's request to the   *)
(* source registry is released, internal steps ("i:...") happen on their     *)
(* own as soon as they are enabled.  The generator therefore runs internal   *)
(* steps with priority (the real process is run to quiescence after every    *)
(* scheduler step); the exhaustive check of LayoutGC itself has no such      *)
(* priority.  Every record carries the layout state (files, index) in which  *)
(* the step is taken, so that the driver can report drift.  Closes are       *)
(* generated only where they can matter (CloseUseful).  Used with            *)
(* -simulate; each behaviour that reaches Done is printed once.              *)
(* A collecting close appears as CloseBegin, SweepDir (one per algorithm     *)
(* directory), CloseEnd, with the calls made while it runs (CopyCall: they   *)
(* wait for OCIDir.mu, "i:CopyBegin" follows the CloseEnd) in between.       *)
EXTENDS LayoutGCMC, Json
VARIABLE hist
gvars == <<vars, hist>>

Rec(a, c, n, t) == hist' = Append(hist, [a |-> a, c |-> c, n |-> n, t |-> t, f |-> files, x |-> idx])

IntStep == \E c \in Copies :
  \/ \E n \in Mans : \/ CopyCheck(c, n) /\ Rec("i:CopyCheck", c, n, "")
                     \/ CopyPutManifest(c, n) /\ Rec("i:CopyPutManifest", c, n, "")
  \/ \E b \in Nodes : \/ CopyBlobCheck(c, b) /\ Rec("i:CopyBlobCheck", c, b, "")
                      \/ CopyBlobCommit(c, b) /\ Rec("i:CopyBlobCommit", c, b, "")
                      \/ CopyFailDrain(c, b) /\ Rec("i:CopyFailDrain", c, b, "")
  \/ CopyEnd(c) /\ Rec("i:CopyEnd", c, "", "")
  \/ CopyFailEnd(c) /\ Rec("i:CopyFailEnd", c, "", "")
  \/ cst[c] = "call" /\ CopyBegin(c) /\ Rec("i:CopyBegin", c, "", "")     \* GCLock gets the mutex

\* a close is worth a step of the history when the path was modified since the last collection
\* (it then either collects or is held off by a lock); once every copy has returned the remaining
\* budget is spent
CloseUseful(k) == (modRefs[GcKey(k)].ex /\ modRefs[GcKey(k)].mod) \/ \A c \in Copies : cst[c] \in {"ok", "err"}
SchedStep ==
  \/ \E c \in Copies :
       \/ cst[c] = "idle" /\ CopyBegin(c) /\ Rec("CopyBegin", c, "", "")
       \/ CopyHeadSame(c) /\ Rec("CopyHeadSame", c, CP(c).root, "")
       \/ CopyAbort(c) /\ Rec("CopyAbort", c, "", "")
       \/ \E n \in Mans : \/ CopyFetch(c, n) /\ Rec("CopyFetch", c, n, "")
                          \/ CopyRefList(c, n) /\ Rec("CopyRefList", c, n, "")
       \/ \E b \in Nodes : CopyBlobStart(c, b) /\ Rec("CopyBlobStart", c, b, "")
  \/ \E k \in conf.ckeys, x \in CtxKinds : CloseUseful(k) /\ Close(k, x) /\ Rec("Close", "", k, x)
  \/ \E t \in {e[1] : e \in idx} : TagDelete(t) /\ Rec("TagDelete", "", t, "")
  \/ \E n \in Mans : ManifestDelete(n) /\ Rec("ManifestDelete", "", n, "")
  \/ \E p \in conf.retags : Retag(p) /\ Rec("Retag", "", p[1], p[2])
  \/ \E b \in Nodes : PushBlob(b) /\ Rec("PushBlob", "", b, "")
  \/ PushBlobBad /\ Rec("PushBlobBad", "", "", "")
  \/ \E p \in conf.pmans : PushManifest(p) /\ Rec("PushManifest", "", p[1], p[2])

\* a close that collects is a sequence of scheduler steps: the driver holds the real Close at the
\* matching point (a log handler that blocks), makes the calls that fall in between, lets it go on
CollectStep ==
  \/ \E k \in conf.ckeys, x \in CtxKinds : CloseUseful(k) /\ CloseBegin(k, x) /\ Rec("CloseBegin", "", k, x)
  \/ SweepDir /\ Rec("SweepDir", "", NextDir, "")
  \/ CloseEnd /\ Rec("CloseEnd", "", "", "")
CallStep == \E c \in Copies : CopyCall(c) /\ Rec("CopyCall", c, "", "") /\ gcr' = gcr

GInit == Init /\ hist = <<>>
GNext == /\ ~Done
         /\ IF AnyInternal THEN IntStep /\ gcr' = gcr
            ELSE \/ MutexFree /\ SchedStep /\ gcr' = gcr
                 \/ CollectStep
                 \/ CallStep
         /\ DirsNext
GSpec == GInit /\ [][GNext]_gvars

Emit == Done => PrintT(<<"SCN", ToJson([conf |-> conf, steps |-> hist, fin |-> [f |-> files, x |-> idx]])>>)
=============================================================================

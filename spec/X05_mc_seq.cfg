INIT MCInit
NEXT MCNext
INVARIANTS Ok MutexSane
CONSTRAINT Bounded
CHECK_DEADLOCK FALSE
CONSTANTS
 Hosts <- H1
 CredOf <- CredUP
 Reqs <- ReqsA
 NProcs = 1
 NCalls = 3
 RegMoods <- MoodsAll
 TokKinds <- KindsAll
 Budget = 2
 RetryLimit = 5
 MaxTok = 6
 Fix <- AllFix
 Mut = {}

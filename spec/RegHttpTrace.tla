----------------------------- MODULE RegHttpTrace -----------------------------
(* Trace spec for C12: replays ndjson event logs recorded from the real       *)
(* internal/reghttp and scheme/reg (drivers harness/cmd/c12drv: transports of *)
(* the model hosts + API results) through the monitor RegHttpProp.  Mirrors   *)
(* no code.  One monitor step per line; `bad` latches the first violated      *)
(* obligation of the current trace, `badl` the line where that happened.      *)
(*   TSpec    + INVARIANT Ok: stops at the first rejected trace (used through *)
(*            vlib.validate_batch: binding demo, small batches)               *)
(*   TSpecAll no invariant: every rejected trace is printed when the next     *)
(*            trace begins (<<"REJ", trace id, obligation, line>>), so one    *)
(*            TLC run validates a whole batch (the runner appends a final     *)
(*            reset line as sentinel).                                        *)
EXTENDS RegHttpProp, Json, IOUtils
Log == ndJsonDeserialize(IOEnv.VERIF_TRACE)
VARIABLES l, m, bad, badl, tid
tvars == <<l, m, bad, badl, tid>>
Ev == Log[l]
TInit == l = 1 /\ m = MZero /\ bad = "" /\ badl = 0 /\ tid = ""
Step == /\ l <= Len(Log)
        /\ l' = l + 1
        /\ m' = PStep(m, Ev)
        /\ bad' = m'.bad
        /\ badl' = IF Ev.ev = "reset" THEN 0 ELSE IF bad = "" /\ m'.bad # "" THEN l ELSE badl
        /\ tid' = IF Ev.ev = "reset" THEN Ev.trace ELSE tid
TNext == Step
TSpec == TInit /\ [][TNext]_tvars
TNextAll == /\ l <= Len(Log)
            /\ (Ev.ev = "reset" /\ bad # "") => PrintT(<<"REJ", tid, bad, badl>>)
            /\ Step
TSpecAll == TInit /\ [][TNextAll]_tvars
Ok == bad = ""
HW == TLCSet(1, IF TLCGet(1) > l THEN TLCGet(1) ELSE l)
Accepted == PrintT(<<"HIGHWATER", TLCGet(1), Len(Log)>>)
ASSUME TLCSet(1, 0)
=============================================================================

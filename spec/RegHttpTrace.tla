----------------------------- MODULE RegHttpTrace -----------------------------
(* Trace spec for C12: replays ndjson event logs recorded from the real       *)
(* internal/reghttp and scheme/reg (drivers harness/cmd/c12drv: transports of *)
(* the model hosts + API results) through the monitor RegHttpProp.  Mirrors   *)
(* no code.  One monitor step per line; `bad` latches the first violated      *)
(* obligation (invariant Ok).                                                  *)
EXTENDS RegHttpProp, Json, IOUtils
Log == ndJsonDeserialize(IOEnv.VERIF_TRACE)
VARIABLES l, m, bad
Ev == Log[l]
TInit == l = 1 /\ m = MZero /\ bad = ""
TNext == /\ l <= Len(Log)
         /\ l' = l + 1
         /\ m' = PStep(m, Ev)
         /\ bad' = m'.bad
TSpec == TInit /\ [][TNext]_<<l, m, bad>>
Ok == bad = ""
HW == TLCSet(1, IF TLCGet(1) > l THEN TLCGet(1) ELSE l)
Accepted == PrintT(<<"HIGHWATER", TLCGet(1), Len(Log)>>)
ASSUME TLCSet(1, 0)
=============================================================================

----------------------------- MODULE LayoutGCMC -----------------------------
(* Model-checking instances of LayoutGC: the configurations explored.       *)
(* Mirrors no code; a configuration fixes what the two ImageCopy calls copy *)
(* (root, target tag, platforms left out, with referrers or not, spelling   *)
(* of the layout path), whether ocidir.WithGC is on, what the layout held   *)
(* before (pre: images copied by an earlier process, plant: temp files left *)
(* by a crashed process) and which other calls may happen.                  *)
EXTENDS LayoutGC

\* rk: ImageWithReferrerTgt naming this very layout (spelled rk), "" = not given; rsrc: ImageWithReferrerSrc
\* (another source repository, no effect on the layout)
CC(root, tag, skip, refs, key) == [root |-> root, tag |-> tag, skip |-> skip, refs |-> refs, key |-> key, rt |-> FALSE,
                                   rk |-> "", rsrc |-> FALSE]
\* ImageWithReferrers + ImageWithReferrerTgt(this layout): the image goes to another layout
CCR(root, tag, key) == [root |-> root, tag |-> tag, skip |-> {}, refs |-> TRUE, key |-> key, rt |-> TRUE,
                        rk |-> "", rsrc |-> FALSE]
\* ImageWithReferrers + ImageWithReferrerTgt(the target layout itself, spelled rk)
CCS(root, tag, key, rk, rsrc) == [root |-> root, tag |-> tag, skip |-> {}, refs |-> TRUE, key |-> key, rt |-> FALSE,
                                  rk |-> rk, rsrc |-> rsrc]
Base == [cp |-> [c \in Copies |-> CC("M3", "t1", {}, FALSE, "p")], gc |-> TRUE, pre |-> {}, plant |-> {},
         ckeys |-> {"p"}, okey |-> "p", faults |-> TRUE, dels |-> {}, tdels |-> {"t1"},
         pblobs |-> {}, badput |-> FALSE, pmans |-> {}, retags |-> {}, fresh |-> FALSE]
Two(a, b) == [c \in Copies |-> IF c = "c1" THEN a ELSE b]
WithGC(S) == S \cup {[x EXCEPT !.gc = FALSE] : x \in S}

\* the lock protocol: two small images (config + one shared layer), all interleavings
LockConfs == WithGC({
  [Base EXCEPT !.cp = Two(CC("M3", "t1", {}, FALSE, "p"), CC("M4", "t2", {}, FALSE, "p"))],
  [Base EXCEPT !.cp = Two(CC("M3", "t1", {}, FALSE, "p"), CC("M3", "t1", {}, FALSE, "p"))],
  [Base EXCEPT !.cp = Two(CC("M3", "t1", {}, FALSE, "p"), CC("M4", "t2", {}, FALSE, "p")),
               !.pre = {<<"M3", "t1">>}, !.plant = {"tmp-plant"}],
  [Base EXCEPT !.cp = Two(CC("M3", "t1", {}, FALSE, "p"), CC("M4", "t1", {}, FALSE, "p"))] })

\* the lock protocol with three blobs per image (one shared), all interleavings, gc on
LockConfsBig == {
  [Base EXCEPT !.cp = Two(CC("M1", "t1", {}, FALSE, "p"), CC("M2", "t2", {}, FALSE, "p"))],
  [Base EXCEPT !.cp = Two(CC("M1", "t1", {}, FALSE, "p"), CC("M2", "t1", {}, FALSE, "p")),
               !.pre = {<<"M1", "t1">>}] }

\* a copy that writes nothing (its image is already in the layout) next to a copy that writes
NoopConfs == {
  [Base EXCEPT !.cp = Two(CC("M3", "t1", {}, FALSE, "p"), CC(r, "t2", {}, FALSE, "p")),
               !.pre = {<<"M3", "t1">>}, !.plant = pl, !.tdels = {"t1", "t2"}, !.retags = {<<"t1", "t3">>}]
    : r \in {"M4", "M1", "S1"}, pl \in {{}, {"tmp-plant", "tmp-plant-man"}} }

\* graph shapes: nested index, schema1, sparse copies, referrers, pushes and deletes
ShapeConfs == WithGC({
  [Base EXCEPT !.cp = Two(CC("N1", "t1", {}, FALSE, "p"), CC("S1", "t2", {}, FALSE, "p")),
               !.tdels = {"t1", "t2"}, !.faults = FALSE],
  [Base EXCEPT !.cp = Two(CC("I1", "t1", {"M2"}, FALSE, "p"), CC("I1", "t2", {"M1"}, FALSE, "p")),
               !.tdels = {"t1", "t2"}, !.retags = {<<"t1", "t3">>}, !.faults = FALSE],
  [Base EXCEPT !.cp = Two(CC("M1", "t1", {}, TRUE, "p"), CC("M3", "t2", {}, FALSE, "p")),
               !.dels = {"A1", "A2"}, !.tdels = {"t1", FB}, !.faults = FALSE],
  [Base EXCEPT !.cp = Two(CC("M1", "t1", {}, FALSE, "p"), CC("M1", "t1", {}, FALSE, "p")),
               !.pmans = {<<"A1", "">>, <<"A2", "child">>, <<"S1", "legacy">>}, !.pblobs = {"B1", "L4"},
               !.badput = TRUE, !.dels = {"A1", "S1", "M1"}, !.tdels = {"legacy"}, !.faults = FALSE] })

\* the same directory reached through two spellings of its path: with NormKeys (gcKey) they share
\* one modRefs entry; with the literal r.Path of the tree as found they do not (finding C08-1)
AliasConfs == {
  [Base EXCEPT !.cp = Two(CC("M3", "t1", {}, FALSE, "p"), CC("M4", "t2", {}, FALSE, "p/")),
               !.ckeys = {"p", "p/"}, !.faults = FALSE],
  [Base EXCEPT !.cp = Two(CC("M3", "t1", {}, FALSE, "p/"), CC("M4", "t2", {}, FALSE, "p")),
               !.ckeys = {"p/"}, !.okey = "p/", !.pre = {<<"M3", "t1">>}, !.tdels = {"t1", "t2"}],
  [Base EXCEPT !.cp = Two(CC("M1", "t1", {}, FALSE, "p/"), CC("S1", "t2", {}, FALSE, "p")),
               !.ckeys = {"p", "p/"}, !.tdels = {"t1", "t2"}, !.faults = FALSE],
  [Base EXCEPT !.cp = Two(CC("M3", "t1", {}, FALSE, "r"), CC("M4", "t2", {}, FALSE, "p")),
               !.ckeys = {"p", "r"}, !.okey = "r", !.tdels = {"t1", "t2"}],
  [Base EXCEPT !.cp = Two(CC("M3", "t1", {}, FALSE, "r"), CC("M4", "t2", {}, FALSE, "p/")),
               !.ckeys = {"r", "p/"}, !.fresh = TRUE] }

\* one client that reaches the layout through the symbolic link and through the real path in the
\* same history: Clean + Abs keeps two keys (finding C08-2), resolving the links gives one
LinkMixConfs == {
  [Base EXCEPT !.cp = Two(CC("M3", "t1", {}, FALSE, "l"), CC("M4", "t2", {}, FALSE, "p")),
               !.ckeys = {"p", "l"}, !.fresh = fr, !.tdels = {"t1", "t2"}, !.faults = FALSE]
    : fr \in BOOLEAN } \cup {
  [Base EXCEPT !.cp = Two(CC("M1", "t1", {}, FALSE, "p"), CC("M4", "t2", {}, FALSE, "l")),
               !.ckeys = {"l"}, !.okey = "l", !.pre = {<<"M3", "t3">>}, !.tdels = {"t1", "t3"}] }
\* a copy whose referrers are written to this layout while the image goes elsewhere, next to a
\* plain copy into this layout
RefTgtConfs == {
  [Base EXCEPT !.cp = Two(CCR("M1", "t1", k), CC("M4", "t2", {}, FALSE, "p")),
               !.ckeys = {"p"}, !.fresh = fr, !.tdels = {"t2", FB}, !.dels = {"A1"}, !.faults = FALSE]
    : k \in {"p", "l"}, fr \in BOOLEAN }

\* a copy whose referrer target is its own target layout (locked twice, unlocked twice) overlapping
\* with a plain copy; the small image M3 has no referrers, M1 has two
SameTgtConfs == {
  [Base EXCEPT !.cp = Two(CCS(r, "t1", "p", rk, rs), CC("M4", "t2", {}, FALSE, "p")),
               !.ckeys = {"p"}, !.tdels = {"t1", "t2"}, !.faults = fl]
    : r \in {"M3"}, rk \in {"p", "p/"}, rs \in {FALSE}, fl \in BOOLEAN }
SameTgtConfsGen == SameTgtConfs \cup {
  [Base EXCEPT !.cp = Two(CCS(r, "t1", "p", rk, rs), CC("M4", "t2", {}, FALSE, k2)),
               !.ckeys = {"p"}, !.fresh = fr, !.tdels = {"t1", "t2", FB}, !.faults = FALSE]
    : r \in {"M3", "M1"}, rk \in {"p", "l"}, rs \in BOOLEAN, k2 \in {"p", "l"}, fr \in BOOLEAN }

\* a digest that is a blob of one manifest and a manifest of its own (an artifact that packages the
\* manifest of an image / of an index); the order of the two entries in index.json follows from
\* which copy pushes its tag first, retags and deletes move entries
BlobManConfs == {
  [Base EXCEPT !.cp = Two(CC("U1", "t1", {}, FALSE, "p"), CC("M4", "t2", {}, FALSE, "p")),
               !.tdels = {"t1", "t2"}, !.retags = {<<"t2", "t3">>}, !.faults = FALSE],
  [Base EXCEPT !.cp = Two(CC("U1", "t1", {}, FALSE, "p"), CC("M3", "t2", {}, FALSE, "p")),
               !.pre = {<<"M4", "t0">>}, !.tdels = {"t0", "t1"}, !.retags = {<<"t0", "t3">>}, !.faults = FALSE] }
BlobManConfsGen == BlobManConfs \cup {
  [Base EXCEPT !.cp = Two(CC("U2", "t1", {}, FALSE, "p"), CC("I1", "t2", {}, FALSE, "p")),
               !.tdels = {"t1", "t2"}, !.retags = {<<"t2", "t3">>, <<"t1", "t4">>}, !.dels = {"M1"}, !.faults = FALSE],
  [Base EXCEPT !.cp = Two(CC("U1", "t1", {}, FALSE, "p"), CC("X1", "t2", {}, FALSE, "p")),
               !.tdels = {"t1", "t2"}, !.pmans = {<<"M4", "t5">>}, !.dels = {"U1"}, !.faults = FALSE] }

\* a layout that does not exist when the history starts and / or is reached through a symbolic
\* link (one spelling per history: everything through the link, or everything through the real path)
LinkConfs == {
  [Base EXCEPT !.cp = Two(CC("M3", "t1", {}, FALSE, k), CC("M4", "t2", {}, FALSE, k)),
               !.ckeys = {k}, !.okey = k, !.fresh = fr, !.tdels = {"t1", "t2"}]
    : k \in {"p", "l"}, fr \in BOOLEAN } \cup {
  [Base EXCEPT !.cp = Two(CC("M3", "t1", {}, FALSE, "l"), CC("M3", "t1", {}, FALSE, "l")),
               !.ckeys = {"l"}, !.okey = "l", !.fresh = TRUE],
  [Base EXCEPT !.cp = Two(CC("M3", "t1", {}, FALSE, "p/"), CC("M4", "t1", {}, FALSE, "p")),
               !.ckeys = {"p", "p/"}, !.okey = "p/", !.fresh = TRUE] }
\* the same with larger graphs, for the real code only
LinkConfsGen == LinkConfs \cup {
  [Base EXCEPT !.cp = Two(CC("N1", "t1", {}, FALSE, k), CC("S1", "t2", {}, FALSE, k)),
               !.ckeys = {k}, !.okey = k, !.fresh = TRUE, !.tdels = {"t1", "t2"}, !.faults = FALSE]
    : k \in {"p", "l"} } \cup {
  [Base EXCEPT !.cp = Two(CC("M1", "t1", {}, TRUE, "l"), CC("I1", "t2", {"M1"}, FALSE, "l")),
               !.ckeys = {"l"}, !.okey = "l", !.fresh = TRUE, !.pmans = {<<"A1", "art">>}, !.pblobs = {"L3"},
               !.badput = TRUE, !.dels = {"A1"}, !.tdels = {"t1", "t2", "art"}, !.faults = FALSE] }

\* more histories for the real code only (too large for the exhaustive check): referrers of a
\* manifest nested two levels deep, copies that share children, deletes of manifests that other
\* manifests still list, a schema1 image that is already there
ShapeConfsGen == ShapeConfs \cup WithGC({
  [Base EXCEPT !.cp = Two(CC("N1", "t1", {}, TRUE, "p"), CC("S1", "t2", {}, FALSE, "p")),
               !.dels = {"A1", "I1"}, !.tdels = {"t1", "t2", FB}, !.faults = FALSE],
  [Base EXCEPT !.cp = Two(CC("N1", "t1", {}, FALSE, "p"), CC("I1", "t2", {"M1"}, FALSE, "p")),
               !.dels = {"I1", "M2", "N1"}, !.tdels = {"t1", "t2"}, !.faults = TRUE],
  [Base EXCEPT !.cp = Two(CC("I1", "t2", {}, FALSE, "p"), CC("M2", "t3", {}, FALSE, "p")),
               !.pre = {<<"N1", "t1">>}, !.plant = {"tmp-plant", "tmp-plant-man"},
               !.dels = {"I1", "N1", "M3"}, !.tdels = {"t1", "t2", "t3"}, !.faults = FALSE],
  [Base EXCEPT !.cp = Two(CC("M5", "t1", {}, FALSE, "p"), CC("X1", "t2", {}, FALSE, "p")),
               !.dels = {"M5"}, !.tdels = {"t1", "t2"}, !.pblobs = {"L5"}, !.faults = TRUE],
  [Base EXCEPT !.cp = Two(CC("X1", "t1", {}, FALSE, "p"), CC("M2", "t2", {}, FALSE, "p")),
               !.dels = {"X1", "M4"}, !.tdels = {"t1", "t2"}, !.retags = {<<"t1", "t2">>, <<"t2", "t3">>},
               !.faults = TRUE],
  [Base EXCEPT !.cp = Two(CC("S1", "t1", {}, FALSE, "p"), CC("M1", "t2", {}, TRUE, "p")),
               !.pre = {<<"S1", "legacy">>}, !.pmans = {<<"A1", "art">>, <<"M3", "child">>}, !.pblobs = {"C3", "L4"},
               !.badput = TRUE, !.dels = {"S1", "A1", "A2"}, !.tdels = {"legacy", "art", "t1", FB}, !.faults = TRUE] })
ShapeConfsOn == {x \in ShapeConfs : x.gc}

\* a collection in progress (Close between its lock check and the end of its sweep) when an image
\* copy is called: layouts with more than one blobs/<alg> directory (L5 of M5 is stored by sha512),
\* garbage in either directory (a deleted tag, pushed blobs, temp files of a crashed process)
SweepConfs == WithGC({
  [Base EXCEPT !.cp = Two(CC("M5", "t1", {}, FALSE, "p"), CC("M3", "t2", {}, FALSE, "p")),
               !.pre = {<<"M5", "t0">>}, !.plant = {"tmp-plant"}, !.tdels = {"t0", "t1"}, !.faults = FALSE],
  [Base EXCEPT !.cp = Two(CC("M5", "t1", {}, FALSE, "p"), CC("M5", "t1", {}, FALSE, "p")),
               !.pre = {<<"M3", "t0">>}, !.pblobs = {"L5", "L4"}, !.tdels = {"t0"}, !.faults = FALSE] })
SweepConfsGen == SweepConfs \cup {
  [Base EXCEPT !.cp = Two(CC("M5", "t1", {}, FALSE, k), CC("M4", "t2", {}, FALSE, "p")),
               !.pre = {<<"M5", "t0">>, <<"M3", "t3">>}, !.plant = pl, !.ckeys = {"p", k}, !.tdels = {"t0", "t1", "t3"},
               !.dels = {"M5"}, !.pblobs = {"L5", "B1"}, !.badput = TRUE, !.faults = fl]
    : k \in {"p", "p/", "l"}, pl \in {{}, {"tmp-plant", "tmp-plant-man"}}, fl \in BOOLEAN } \cup {
  [Base EXCEPT !.cp = Two(CC("M5", "t1", {}, FALSE, "p"), CC("I1", "t2", {"M2"}, FALSE, "p")),
               !.pre = {<<"M5", "t1">>, <<"S1", "legacy">>}, !.tdels = {"t1", "legacy"}, !.dels = {"S1"},
               !.retags = {<<"t1", "t3">>}, !.pblobs = {"L5"}, !.faults = FALSE] }
FalseVal == FALSE
GenConfs == LockConfs \cup ShapeConfs
=============================================================================

INIT Init
NEXT Next
CONSTANTS
 Procs = {1, 2}
 Len = 2
 FixedTmp = TRUE
INVARIANTS SuccessMeansStored

CONSTANTS
 Hosts = {"m1", "up"}
 Up = "up"
 Ids = {"A", "B"}
 N = 2
 RA = 50
 Kinds = {"ok", "ok206", "short0", "s500", "s429ra", "reset", "s404"}
 MaxFaults = 3
 MaxSeeks = 0
 Conc = 8
 LinkEntries = FALSE
 Directs = {"none", "m1", "up"}
 StoreAnchor = TRUE
 RelNR = TRUE
 FixLeak = TRUE
 PrioAsc = TRUE
 Rs = {3}
 Prios = {0}
 Meths = {"GET"}
 Waive <- WaiveNone
 Confs <- LinkConfs
INIT GInit
NEXT GNext
INVARIANTS Emit
CHECK_DEADLOCK FALSE

CONSTANTS
 ProcSeq <- P2
 Confs <- SensibleConfs
 Modes = {"tag", "api", "oci"}
 Caches = {0, 1}
 Pages = {0}
 TagDels = {1}
 SubjSel = {"ror"}
 Spells = {"dig"}
 Dopts = {"check"}
 Inits <- InitsMC0
 NAs <- NAsNone
 MaxOps = 3
 MaxConc = 2
 SameSubject = TRUE
 MixSameArt = FALSE
 LockPut = TRUE
 LockDel = TRUE
 LockDelEarly = TRUE
 ObsFilters = {"none", "t1"}
 ListConc = FALSE
 CowIndex = TRUE
 InvAfterDel = TRUE
 NormKey = TRUE
 TrustApplied = FALSE
 PlainIds = {}
 FeatFromPut = FALSE
 LockStyle = "global"
INIT MInit
NEXT MNext
VIEW MView
INVARIANTS Ok TagExact CacheRLExact CacheCoherent LockSane NoApiTag TagMutex
CHECK_DEADLOCK FALSE

--------------------------- MODULE LayoutFSTrace ---------------------------
(***************************************************************************)
(* Trace spec for C07: replays the ndjson facts recorded around the real   *)
(* regclient (strace of harness/cmd/c07drv + prefix replayer + independent *)
(* checker + fresh-client probes, see tools/props/c07.py) through the      *)
(* monitor LayoutFSProp.                                                   *)
(*                                                                         *)
(* Deviation from the skeleton in CONVENTIONS.md: every trace of the batch *)
(* is its own behaviour (one initial state per "reset" line) and the       *)
(* monitor's `bad` is not latched, so that TLC run with -continue reports  *)
(* EVERY state of EVERY observed trace in which an invariant is false      *)
(* (one known defect must not hide another one later in the same trace).   *)
(* All monitor actions are total, so acceptance of a trace = its "end"     *)
(* line was consumed (printed as DONE) and no invariant violation was      *)
(* reported for it.                                                        *)
(***************************************************************************)
EXTENDS LayoutFSProp, Json, IOUtils, Integers
Log == ndJsonDeserialize(IOEnv.VERIF_TRACE)
VARIABLE l          \* next line to consume
Ev == Log[l]
Starts == {i \in 1..Len(Log) : Log[i].ev = "reset"}
TInit == PInit /\ l \in Starts
TNext ==
  /\ l <= Len(Log)
  /\ (Ev.ev = "reset") => (k = 0 /\ op.kind = "")    \* a behaviour stops at the next trace's header
  /\ l' = l + 1
  /\ \/ Ev.ev = "reset" /\ PReset(Ev)
     \/ Ev.ev = "sys" /\ PSys(Ev)
     \/ Ev.ev = "fresh" /\ PFresh(Ev)
     \/ Ev.ev = "retry" /\ PRetry(Ev)
     \/ Ev.ev = "follow" /\ PFollow(Ev)
     \/ Ev.ev = "fault" /\ PFault(Ev)
     \/ Ev.ev = "fretry" /\ PRetry(Ev)
     \/ Ev.ev = "end" /\ PEnd(Ev) /\ PrintT(<<"DONE", Ev.trace>>)
     \/ Ev.ev \notin {"reset", "sys", "fresh", "retry", "follow", "fault", "fretry", "end"} /\ PUnknown
TSpec == TInit /\ [][TNext]_<<pvars, l>>
=============================================================================

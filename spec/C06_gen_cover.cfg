CONSTANTS
 Tags = {"t1", "t2", "t3"}
 Mans = {"m1", "m2", "m3"}
 MaxLen = 5
INIT GInit
NEXT CoverNext
VIEW View
INVARIANT WellFormed
CHECK_DEADLOCK FALSE

SPECIFICATION TSpec
CONSTRAINT HW
INVARIANT Collect
POSTCONDITION Accepted
CHECK_DEADLOCK FALSE

SPECIFICATION TSpec
CONSTANT Groups = {"C04"}
CONSTRAINT HW
INVARIANT Ok
POSTCONDITION Accepted
CHECK_DEADLOCK FALSE

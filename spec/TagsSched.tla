----------------------------- MODULE TagsSched -----------------------------
(* Schedule generator for C06: behaviours of the design spec Tags with the  *)
(* history of the steps taken.  Used with -simulate; each behaviour in      *)
(* which every goroutine finished its operations is printed once as a       *)
(* scenario: the configuration, the operation each goroutine starts (a =    *)
(* "START") and the order in which the goroutines' requests are served (a = *)
(* the request the goroutine was parked at).  harness/cmd/c06drv imposes    *)
(* that order on real goroutines through its gate (registry back end) and   *)
(* reports whether the requests it saw were the ones named here.            *)
EXTENDS TagsMC, Json
VARIABLE hist
svars == <<vars, hist>>
SInit == Init /\ hist = <<>>
\* the back-end state after the step (x index entries, f manifest files; rt, rm the registry's
\* tag map and pool manifests) and whether the goroutine's operation is complete: the driver
\* logs the same projection of the real back end after every operation of a sequential
\* scenario and the runner compares them step by step (a difference is drift of (D))
Snap(p) == [idle |-> pc'[p] = "idle", x |-> index', f |-> files', rt |-> rtags', rm |-> rmans' \cap Mans]
SNext == \E p \in Procs :
           \/ Step(p) /\ hist' = Append(hist, [p |-> p, a |-> pc[p], o |-> cur[p], s |-> Snap(p)])
           \/ \E o \in Ops : Start(p, o) /\ hist' = Append(hist, [p |-> p, a |-> "START", o |-> o, s |-> Snap(p)])
Emit == Done => PrintT(<<"SCN", ToJson([conf |-> conf, steps |-> hist])>>)
=============================================================================

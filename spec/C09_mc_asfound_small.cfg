SPECIFICATION Spec
CONSTANTS
 DrainBug = TRUE
 LinkCode = TRUE
 DupPathBug = TRUE
 Ids <- SmallIds
INVARIANTS PropExact Ordered PassBound
CHECK_DEADLOCK TRUE

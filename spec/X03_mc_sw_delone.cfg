SPECIFICATION MSpec
CONSTANTS
 DescPlatStrict = TRUE
 PlatLookupStrict = FALSE
 ReadFaults = FALSE
 EqualAnnStrict = TRUE
 PutFirst = FALSE
 DedupByDigest = FALSE
 DeleteKeepsOne = TRUE
 Faults = FALSE
 Alphabet <- AlphaCore
 MaxCmds = 2
INVARIANTS Holds TypeOk
CHECK_DEADLOCK FALSE

SPECIFICATION MSpec
CONSTANTS
 DescPlatStrict = FALSE
 PlatLookupStrict = FALSE
 ReadFaults = FALSE
 EqualAnnStrict = FALSE
 PutFirst = FALSE
 DedupByDigest = FALSE
 DeleteKeepsOne = TRUE
 Faults = FALSE
 Alphabet <- AlphaCore
 MaxCmds = 2
INVARIANTS Holds TypeOk
CHECK_DEADLOCK FALSE

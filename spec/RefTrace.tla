------------------------------ MODULE RefTrace ------------------------------
(***************************************************************************)
(* Trace spec / monitor for C15.  Each log line (env VERIF_TRACE) is one   *)
(* scenario of RefGrammar executed on the real types/ref by                *)
(* harness/cmd/c15drv ("ref": ref.New, CommonName, re-parse, setters;      *)
(* "host": ref.NewHost) or one accepted character-level mutant ("mutant":  *)
(* only the oracle-free laws).  The monitor is stateless: the verdict for  *)
(* a line depends on that line alone.                                      *)
(*   grammar     accepted iff inside the grammar (O4)                      *)
(*   components  parsed components are the expected, Docker-normalised     *)
(*               ones (O2)                                                 *)
(*   round-trip  New(CommonName(r)) succeeds with the same components (O1) *)
(*   setters     SetTag / SetDigest / AddDigest change only what they name *)
(*               (O3)                                                      *)
(***************************************************************************)
EXTENDS RefGrammar, Json, IOUtils, Integers
Log == ndJsonDeserialize(IOEnv.VERIF_TRACE)
VARIABLES l, bad
Ev == Log[l]
First(checks) == IF \E i \in 1..Len(checks) : checks[i][1]
                 THEN checks[CHOOSE i \in 1..Len(checks) : checks[i][1] /\ \A j \in 1..(i-1) : ~checks[j][1]][2]
                 ELSE ""
NewTag == "newtag-1.0"
NewDig == "sha256:" \o "ffffffffffffffffffffffffffffffff" \o "ffffffffffffffffffffffffffffffff"

X(e) == [kind |-> e.kind, sc |-> e.sc, scl |-> e.scl, hc |-> e.hc, h |-> e.h, pcc |-> e.pcc, pcs |-> e.pcs,
         tc |-> e.tc, t |-> e.t, dc |-> e.dc, d |-> e.d]
Parsed(e) == [scheme |-> e.scheme, registry |-> e.registry, repository |-> e.repository, tag |-> e.tag,
              digest |-> e.digest, path |-> e.path]
Again(e) == [scheme |-> e.c_scheme, registry |-> e.c_registry, repository |-> e.c_repository, tag |-> e.c_tag,
             digest |-> e.c_digest, path |-> e.c_path]
\* round trip and setter laws need no oracle
Laws(e) ==
  LET r == Parsed(e) IN
  << <<e.ok2 # 1 \/ Again(e) # r, "round-trip: New(CommonName()) differs from the parsed reference">>,
     <<[r EXCEPT !.tag = NewTag, !.digest = ""] #
         [scheme |-> e.st_scheme, registry |-> e.st_registry, repository |-> e.st_repository, tag |-> e.st_tag, digest |-> e.st_digest, path |-> e.st_path],
       "setters: SetTag changed something else">>,
     <<[r EXCEPT !.tag = "", !.digest = NewDig] #
         [scheme |-> e.sd_scheme, registry |-> e.sd_registry, repository |-> e.sd_repository, tag |-> e.sd_tag, digest |-> e.sd_digest, path |-> e.sd_path],
       "setters: SetDigest changed something else">>,
     <<[r EXCEPT !.digest = NewDig] #
         [scheme |-> e.ad_scheme, registry |-> e.ad_registry, repository |-> e.ad_repository, tag |-> e.ad_tag, digest |-> e.ad_digest, path |-> e.ad_path],
       "setters: AddDigest changed something else">> >>

\* For registry references the expected components are fully determined (Docker normalisation).  For a
\* layout reference the statement fixes scheme, tag and digest and that there is a path; how the path
\* string itself is normalised (e.g. a trailing slash) is left to the round-trip law.
ComponentsBad(e, x) ==
  IF x.kind = "dir"
  THEN [Parsed(e) EXCEPT !.path = ""] # [Expect(x) EXCEPT !.path = ""] \/ e.path = ""
  ELSE Parsed(e) # Expect(x)

RefBad(e) ==
  LET x == X(e) IN
  IF ~WellFormed(x) \/ e.s # Str(x) THEN "tooling:scenario"
  ELSE IF e.again = 0 THEN "history: the same string parsed differently the second time"
  ELSE IF e.ok = 1 /\ ~InGrammar(x) THEN "grammar: string outside the grammar accepted"
  ELSE IF e.ok = 0 /\ InGrammar(x) THEN "grammar: string inside the grammar rejected"
  ELSE IF e.ok = 0 THEN ""
  ELSE First(<< <<ComponentsBad(e, x), "components: parsed components differ from the expected normal form">> >> \o Laws(e))

HostBad(e) ==
  LET x == X(e) IN
  IF ~WellFormed(x) \/ e.s # Str(x) THEN "tooling:scenario"
  ELSE IF e.ok = 1 /\ ~InGrammar(x) THEN "grammar: host outside the grammar accepted"
  ELSE IF e.ok = 0 /\ InGrammar(x) THEN "grammar: host inside the grammar rejected"
  ELSE IF e.ok = 0 THEN ""
  ELSE First(<< <<IF x.sc = "none" THEN Parsed(e) # Expect(x)
                    ELSE [Parsed(e) EXCEPT !.path = ""] # [Expect(x) EXCEPT !.path = ""] \/ e.path = "",
                   "components: NewHost components differ">> >>)

\* an accepted string has no character outside the alphabet of the grammar (e.alien is computed by the
\* driver, character by character, without regular expressions)
MutantBad(e) == IF e.again = 0 THEN "history: the same string parsed differently the second time"
                ELSE IF e.ok = 0 THEN ""
                ELSE IF e.alien = 1 THEN "grammar: string with a character outside the alphabet accepted"
                ELSE First(Laws(e))

TInit == l = 1 /\ bad = ""
TNext ==
  /\ l <= Len(Log)
  /\ l' = l + 1
  /\ \/ Ev.ev = "ref" /\ bad' = RefBad(Ev)
     \/ Ev.ev = "host" /\ bad' = HostBad(Ev)
     \/ Ev.ev = "mutant" /\ bad' = MutantBad(Ev)
     \/ Ev.ev = "skip" /\ bad' = ""
TSpec == TInit /\ [][TNext]_<<l, bad>>
Ok == bad = ""
HW == TLCSet(1, IF TLCGet(1) > l THEN TLCGet(1) ELSE l)
Accepted == PrintT(<<"HIGHWATER", TLCGet(1), Len(Log)>>)
ASSUME TLCSet(1, 0)
=============================================================================

\* baseline (code since 5457c02: oci-layout written only when missing/unreadable, temp + rename): 61 scenarios, crash ANYWHERE + retry
CONSTANTS
 Scenarios <- Quick
 MaxCrash = 1
 MarkerMode = "ifbad"
 MarkerWindow = TRUE
 MaxFault = 0
INIT Init
NEXT Next
INVARIANTS TypeOK NoStuck CrashStateOK ReturnOK RetryOK FaultRetOK
CHECK_DEADLOCK FALSE

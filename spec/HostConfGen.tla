----------------------------- MODULE HostConfGen -----------------------------
(***************************************************************************)
(* X04 - scenario generators.  Every scenario is a value of the variable g *)
(* printed once as JSON (invariant Emit); it carries the inputs and what   *)
(* (D) HostConf predicts, so that the driver can run the same step on the  *)
(* real code and the runner can count drift between (D) and the code.      *)
(*   GMerge    one Host.Merge call per pair of records of the universe     *)
(*             (MGroup / MVals): every transition of (D)'s Merge           *)
(*   GNewName  one HostNewDefName / HostNewName call per name and default  *)
(*   GJson     one Marshal / Unmarshal round trip per record               *)
(*   GTls      two WithConfigHost entries, transport mode, three pings     *)
(*   GRegctl   a regctl config file, docker config and --host flags, with  *)
(*             the predicted observations of `regctl manifest head`        *)
(*   GRes*     behaviours of the source machine of HostConfMC (used with   *)
(*             -simulate): 1..MaxOpts sources and, for the final state,    *)
(*             the predicted observation sets of every probe of GProbes    *)
(* GOk is the verdict of the monitor (P) on (D)'s own prediction: with     *)
(* INVARIANT GOk the same enumerations are model checking runs of (D)      *)
(* against (P) for the one-step families; GMCInit / GMCNext run the source *)
(* machine of HostConfMC (verdict in bad).                                 *)
(***************************************************************************)
EXTENDS HostConfMC, Json

CONSTANTS GProbes,                                \* sequence of <<kind, registry>>
          TNames, TTls, TRegcert, TCert, TModes, TProbeSeqs
VARIABLE g
gvars == <<dvars, pvars, g>>

\* values for GProbes / TProbeSeqs (a cfg file cannot write tuples)
ProbesStd == << <<"ping", "r1.test">>, <<"head", "r1.test">>, <<"ping", "u.test">>, <<"ping", "m1.test">>,
                <<"head", "docker.io">>, <<"ping", "registry-1.docker.io">>, <<"head", "index.docker.io">>,
                <<"ping", "r2.test">> >>
TSeqsStd == {<<"r1.test", "r2.test", "r1.test">>, <<"r2.test", "r1.test", "r2.test">>}
TSeqsOne == {<<"r1.test", "r2.test", "r1.test">>}

Quiet == hosts = NoHosts /\ def = NoDef /\ nopt = 0 /\ ps = PInitState /\ bad = ""
GStop == FALSE /\ UNCHANGED gvars

GMerge == Quiet /\ g \in {[fam |-> "merge", b |-> b, n |-> n, d |-> Merge(b, n)] : b \in MergeRecsOf(MValsB), n \in MergeRecs}

DefRecs == {WithCred([Z EXCEPT !.tls = t, !.conc = c, !.prio = p, !.ao1 = a, !.hostname = hn], ck) :
              t \in {"", "insecure", "disabled"}, c \in {0, 5}, p \in {0, 2}, a \in {"", "a"}, hn \in {"", "alt.test"},
              ck \in {"none", "up2", "tok2", "h2"}}
GNewName == Quiet /\ g \in {[fam |-> "newname", hasdef |-> hd, d |-> d, n |-> n,
                             p |-> HostNewDefName(IF hd = 1 THEN d ELSE NoDef, n)] :
                              hd \in {0, 1}, d \in DefRecs, n \in Names \ {""}}

\* the product universe, plus a record with every field set, each field alone, each field missing
FullRec == [name |-> "r1.test", tls |-> "insecure", hostname |-> "alt.test", user |-> "u1", pass |-> "p1",
            token |-> "t1", helper |-> "h1", expire |-> 2, credhost |-> "alt.test", prefix |-> "pp",
            mirrors |-> "m1.test,r2.test", prio |-> 2, repoauth |-> 1, ao1 |-> "a", ao2 |-> "b", chunk |-> 1,
            bmax |-> -1, rps |-> 2, conc |-> 5, regcert |-> "ca-r1.test", ccert |-> "cc1", ckey |-> "ck1",
            api |-> "x", scheme |-> "x"]
JsonRecs == MergeRecs \cup {FullRec} \cup {[FullRec EXCEPT ![f] = Z[f]] : f \in Fields}
            \cup {[Z EXCEPT ![f] = FullRec[f]] : f \in Fields}
GJson == Quiet /\ g \in {[fam |-> "json", h |-> h] : h \in JsonRecs}

CertRec(c) == CASE c = "none" -> [cc |-> "", ck |-> ""] [] c = "pair1" -> [cc |-> "cc1", ck |-> "ck1"]
                [] c = "pair2" -> [cc |-> "cc2", ck |-> "ck2"] [] c = "mismatch" -> [cc |-> "cc1", ck |-> "ck2"]
TlsEntries == {[Z EXCEPT !.name = n, !.tls = t, !.regcert = rc, !.ccert = CertRec(c).cc, !.ckey = CertRec(c).ck] :
                 n \in TNames, t \in TTls, rc \in TRegcert, c \in TCert}
TlsPred(es, tmode, rs) ==
  LET hs == HostLoad(IF "hubDefault" \in Fix THEN NoHosts ELSE HostSet(NoHosts, NoDef, HubEntry), NoDef, es, 1)
      rh == CHOOSE x \in BuiltSet(FinalHosts(hs, NoDef)) : TRUE
  IN TlsRun(rh, NoDef, tmode, rs, 1, TlsInitState)
GTls == Quiet /\ g \in {[fam |-> "tls", tmode |-> tm, es |-> <<e1, e2>>, probes |-> rs,
                         pred |-> TlsPred(<<e1, e2>>, tm, rs)] :
                          e1 \in TlsEntries, e2 \in TlsEntries, tm \in TModes, rs \in TProbeSeqs}

\* regctl: a config file (hosts, hostDefault), a docker config, --host flags; the regctl binary is
\* run once per probe of RProbes (manifest head)
CONSTANTS RKeys, RTls, RCred, RHostname, RDefCred, RDockKey, RDockCred, RFlagName
RProbes == << <<"head", "r1.test">>, <<"head", "docker.io">>, <<"head", "u.test">> >>
RegctlConfs ==
  {[docker |-> dk, def |-> df, hosts |-> hs, flags |-> fl] :
     dk \in {NoDef} \cup {DockerConf(k, ck) : k \in RDockKey, ck \in RDockCred},
     df \in {NoDef} \cup {WithCred(Z, ck) : ck \in RDefCred},
     hs \in {<<>>} \cup {<<[k |-> k, h |-> WithCred([Z EXCEPT !.tls = t, !.hostname = hn], ck)]>> :
                            k \in RKeys, t \in RTls, ck \in RCred, hn \in RHostname},
     fl \in {<<>>} \cup {<<[Z EXCEPT !.name = n, !.user = "u2", !.pass = "p2"]>> : n \in RFlagName}}
RegctlPred(c) == LET st == RegctlState(c) IN
                 [i \in 1..Len(RProbes) |->
                    [kind |-> RProbes[i][1], r |-> RProbes[i][2],
                     alts |-> ObsSetsOf(st.hosts, st.def, RProbes[i][1], RProbes[i][2])]]
GRegctl == Quiet /\ g \in {[fam |-> "regctl", conf |-> c, pred |-> RegctlPred(c)] : c \in RegctlConfs}

\* the monitor's view of a regctl set-up: docker entries, host default, file entries, flags
RECURSIVE FoldFiles(_, _, _)
FoldFiles(s, hs, i) == IF i > Len(hs) THEN s
                       ELSE FoldFiles(FoldFile(s, [hs[i].h EXCEPT !.name = hs[i].k]), hs, i + 1)
RegctlFold(c) ==
  LET s1 == IF c.docker = NoDef THEN PInitState ELSE FoldSource(PInitState, [k |-> "docker", dc |-> c.docker])
      s2 == IF c.def = NoDef THEN s1 ELSE FoldDefault(s1, c.def)
  IN FoldHosts(FoldFiles(s2, c.hosts, 1), c.flags, 1)
RegctlVerdict ==
  LET s == RegctlFold(g.conf)
      v == UNION {UNION {{ReqBad(s, p.kind, p.r, o) : o \in os} \cup {DoneBad(s, p.kind, p.r, {o.addr : o \in os})} :
                          os \in p.alts} : p \in {g.pred[i] : i \in 1..Len(g.pred)}} \ {""}
  IN IF v = {} THEN "" ELSE CHOOSE x \in v : TRUE

PredNow(hs, d) == [i \in 1..Len(GProbes) |->
                     [kind |-> GProbes[i][1], r |-> GProbes[i][2],
                      alts |-> ObsSetsOf(hs, d, GProbes[i][1], GProbes[i][2])]]
\* a behaviour: pick the number of sources, apply them, then one closing step that marks the
\* scenario as complete (so that -simulate prints each behaviour once)
GResInit == /\ Init /\ ps = PInitState /\ bad = ""
            /\ g \in {[fam |-> "resolve", len |-> n, srcs |-> <<>>, pred |-> <<>>, done |-> FALSE] : n \in 1..MaxOpts}
GResNext == \/ /\ nopt < g.len
               /\ \E src \in Sources :
                    /\ Apply(src)
                    /\ g' = [g EXCEPT !.srcs = Append(@, src)]
               /\ UNCHANGED pvars
            \/ /\ nopt = g.len /\ ~g.done
               /\ g' = [g EXCEPT !.done = TRUE, !.pred = PredNow(hosts, def)]
               /\ UNCHANGED <<dvars, pvars>>

\* model checking of the source machine of HostConfMC in this module's variables
GMCInit == MCInit /\ g = [fam |-> "mc"]
GMCNext == MCNext /\ UNCHANGED g

Emit == (g.fam = "resolve" => g.done) => PrintT(<<"SCN", ToJson(g)>>)

RECURSIVE TlsVerdict(_, _)
TlsVerdict(s, i) == IF i > Len(g.probes) THEN ""
                    ELSE IF TlsBad(s, g.probes[i], g.pred[i]) # "" THEN TlsBad(s, g.probes[i], g.pred[i])
                    ELSE TlsVerdict(s, i + 1)
GVerdict == CASE g.fam = "merge" -> MergeBad(g.b, g.n, g.d)
              [] g.fam = "newname" -> NewNameBad(g.hasdef, g.d, g.n, g.p)
              [] g.fam = "json" -> JsonBad(JsonRoundTrip(g.h), JsonRoundTrip(g.h), JsonRoundTrip(g.h), JsonRoundTrip(g.h), 1)
              [] g.fam = "tls" -> TlsVerdict(FoldHosts(PInitState, g.es, 1), 1)
              [] g.fam = "regctl" -> RegctlVerdict
              [] OTHER -> bad
GOk == GVerdict = ""
=============================================================================

CONSTANTS
 Hosts = {"up"}
 Up = "up"
 Ids = {"A", "B"}
 N = 2
 RA = 50
 Kinds = {"ok", "ok206", "short0", "s500", "reset"}
 MaxFaults = 4
 MaxSeeks = 0
 Conc = 8
 LinkEntries = FALSE
 Directs = {"none"}
 StoreAnchor = TRUE
 RelNR = TRUE
 FixLeak = TRUE
 PrioAsc = TRUE
 Rs = {3}
 Prios = {0}
 Meths = {"GET"}
 Waive <- WaiveNone
 Confs <- PlainConfs
INIT MCInit
NEXT MCNext
INVARIANTS Ok RetryBound TypeOK NoThrottleBlock SlotsAccounted
CHECK_DEADLOCK FALSE

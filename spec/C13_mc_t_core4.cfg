\* thorough: alignment universe, every program of length <= 4 over the interaction core
CONSTANTS
 Images <- ImagesAlign
 Options <- OptsCoreQ
 MaxProg = 4
 Places = {"same-tag"}
 SrcKinds = {"reg"}
 FixData = TRUE
 FixWriter = TRUE
 FixAdded = TRUE
 FixTag = TRUE
 FixClose = TRUE
 FixDesc = TRUE
 Fine = FALSE
SPECIFICATION Spec
INVARIANTS TypeOK PostAligned PostTruthful PostResolves PostNoop PostNoopIff
CHECK_DEADLOCK FALSE

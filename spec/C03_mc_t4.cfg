CONSTANTS
 Confs <- MCConfs
 FixWaitErr = TRUE
 Reduce = TRUE
 MCShapes = {"img", "idx2", "nested", "dtag"}
 MCPairs = {"tworeg", "dir2reg", "samerepo", "dir2dir"}
 MCOpts <- MCOptsCore
 MCFeats <- MCFeatsAll
 MCInit = "corners"
 MCTag0 = {"none", "stale", "same"}
 MCByDigest = {FALSE, TRUE}
 MCTgtByDigest = {FALSE}
 MaxFaults = 0
 AllowCancel = FALSE
 AllowCrash = FALSE
 Cap = 0
INIT Init
NEXT Next
INVARIANTS TypeOK InvC04 InvFb InvFbListed InvC03 InvC14 InvC14T InvFailTag

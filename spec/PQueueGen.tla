---------------------------- MODULE PQueueGen ----------------------------
(* Scenario generator for C17: behaviours of PQueue with a history of the  *)
(* steps taken (action name, caller, and the post-state queue lengths the  *)
(* replayer compares with the real queue).  Used with `-simulate`; each     *)
(* finished behaviour is printed once as a JSON scenario.                   *)
EXTENDS PQueueMC, Json
VARIABLE hist
gvars == <<vars, hist>>

Counts == [q \in Queues |-> <<Cardinality(active'[q]), Len(queued'[q])>>]
Rec(n, p) == hist' = Append(hist, [a |-> n, p |-> p, c |-> Counts])
MTryName(p) == IF ti[p] > Len(Want[p]) THEN "MTryDone"
               ELSE IF ti[p] = lockI[p] THEN "MTrySkip" ELSE "MTry"

GInit == Init /\ hist = <<>>
GNext == /\ UNCHANGED conf
         /\ \E p \in Procs :
            \/ AcqEnter(p) /\ Rec("AcqEnter", p)
            \/ RecvWake(p) /\ Rec("RecvWake", p)
            \/ SelectCancel(p) /\ Rec("SelectCancel", p)
            \/ CancelCS(p) /\ Rec("CancelCS", p)
            \/ PassOn(p) /\ Rec("PassOn", p)
            \/ Release(p) /\ Rec("Release", p)
            \/ TryOnly(p) /\ Rec("TryOnly", p)
            \/ MTry(p) /\ Rec(MTryName(p), p)
            \/ MRel(p) /\ Rec("MRel", p)
            \/ MUnlock(p) /\ Rec("MUnlock", p)
            \/ Cancel(p) /\ Rec("Cancel", p)
GSpec == GInit /\ [][GNext]_gvars

Emit == Finished => PrintT(<<"SCN", ToJson([conf |-> conf, steps |-> hist])>>)
=============================================================================

---------------------------- MODULE BlobReadProp ----------------------------
(***************************************************************************)
(* (P) property monitor for C01.  Observation shaped: it sees only what a  *)
(* caller of RegClient.BlobGet sees -- the descriptor it asked for (the    *)
(* content its digest names, as a symbol sequence, and the stated size),   *)
(* and for every call the symbols handed over and whether the call         *)
(* returned no error, the clean end of stream (io.EOF itself / a nil error *)
(* of a read-everything helper) or an error.  It knows nothing about       *)
(* LimitRead, readCur, digesters or HTTP.                                  *)
(*                                                                         *)
(* Property (statement of C01): a stream that is read to a clean end has   *)
(* delivered, since the last rewind, exactly the content the digest names  *)
(* and, when the descriptor states a size, exactly that many units.  Once  *)
(* a call has returned an error the stream has not completed cleanly,      *)
(* whatever later calls return, until it is rewound.  "Over-long" is also  *)
(* judged at the source: a clean end while the source still has bytes to   *)
(* give (observed by the driver at the transport / file) is a violation.   *)
(*                                                                         *)
(* Mirrors no code.  The `end` event carries two facts computed by the     *)
(* driver independently of regclient and of the symbol abstraction (real   *)
(* crypto/sha256 / sha512 over the concrete bytes, byte count); they must  *)
(* agree with the abstract comparison, otherwise the tooling is broken     *)
(* (bad = "oracle-disagree"; the runner first reports what the obligations *)
(* above say about the run and turns a disagreement into a tool error only *)
(* when no trace of the run violates them).                                *)
(***************************************************************************)
EXTENDS Integers, Sequences, TLC
VARIABLES hdr,        \* [intended |-> sequence of symbols, size |-> units, 0 = not stated]
          delivered,  \* symbols handed to the caller since the last rewind
          st,         \* "reading" | "clean" | "error"
          bad         \* first violated obligation
pvars == <<hdr, delivered, st, bad>>

Match(d) == d = hdr.intended /\ (hdr.size > 0 => Len(d) = hdr.size)
\* the property as a state predicate (used as invariant of the design spec)
CleanOk == st = "clean" => Match(delivered)

Flag(b, name) == IF bad # "" THEN bad ELSE IF b THEN name ELSE ""
After(err) == IF st = "error" \/ err = "err" THEN "error" ELSE IF err = "eof" THEN "clean" ELSE "reading"

PInit == hdr = [intended |-> <<>>, size |-> 0] /\ delivered = <<>> /\ st = "reading" /\ bad = ""
PReset(intended, size) ==
  /\ hdr' = [intended |-> intended, size |-> size]
  /\ delivered' = <<>> /\ st' = "reading" /\ bad' = ""

\* BlobGet returned: err = "none" | "err"
POpen(err) ==
  /\ st' = After(err)
  /\ UNCHANGED <<hdr, delivered, bad>>

\* one call that hands over data returned: syms = the symbols handed over by this call,
\* err = "none" | "eof" (clean end) | "err"
PRead(syms, err) ==
  /\ delivered' = delivered \o syms
  /\ st' = After(err)
  /\ hdr' = hdr
  /\ bad' = Flag(After(err) = "clean" /\ ~Match(delivered \o syms), "clean-end-on-wrong-content")

\* Seek(0, io.SeekStart) returned
PSeek0(err) ==
  /\ IF err = "none"
     THEN delivered' = <<>> /\ st' = "reading"
     ELSE delivered' = delivered /\ st' = "error"
  /\ UNCHANGED <<hdr, bad>>

\* end of the observation; shaOk / lenOk: the driver's independent concrete oracle (1 / 0);
\* left: bytes the source (response body within its Content-Length, blob file, inline data) still
\* had to give when the observation ended (-1 = not observed).  A clean end that leaves bytes of
\* the source unread has accepted an over-long stream.  partial: bytes of an incomplete symbol handed
\* over by the last call when the observation stopped without a further read (failed rewind).
\* the symbol view has the exact length of the bytes only when no incomplete symbol ("p") was
\* handed over; the length facts are compared only then (an incomplete symbol can never make the
\* digests equal, so the digest facts are always compared)
Whole(partial) == partial = 0 /\ \A i \in 1..Len(delivered) : delivered[i] # "p"
PEnd(shaOk, lenOk, left, partial) ==
  /\ bad' = IF bad # "" THEN bad
            ELSE IF \/ (shaOk = 1) # (delivered = hdr.intended /\ partial = 0)
                    \/ Whole(partial) /\ (lenOk = 1) # (hdr.size = 0 \/ Len(delivered) = hdr.size)
                 THEN "oracle-disagree"
            ELSE IF st = "clean" /\ left > 0 THEN "clean-end-before-end-of-source"
            ELSE ""
  /\ UNCHANGED <<hdr, delivered, st>>

PNote == UNCHANGED pvars

Ok == bad = ""
=============================================================================

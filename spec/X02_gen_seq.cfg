CONSTANTS
 Scenarios <- GenSeq
 MaxCrash = 0
 Variant = "code"
INIT GInit
NEXT GNext
INVARIANTS Emit
CHECK_DEADLOCK FALSE

CONSTANTS
 ProcSeq <- P2
 Confs <- GenConfs
 Modes = {"tag"}
 Caches = {0, 1}
 Pages = {0}
 TagDels = {1}
 SubjSel = {"same"}
 Spells = {"dig", "both"}
 Dopts = {"check", "man"}
 Inits <- InitsNone
 NAs <- NAsNone
 Script <- ScriptDD
 SerialPrefix = 2
 ObsPolicy = "end"
 EmitOnly = "all"
 MaxOps = 4
 MaxConc = 2
 SameSubject = TRUE
 MixSameArt = TRUE
 LockPut = TRUE
 LockDel = TRUE
 LockDelEarly = TRUE
 ObsFilters = {"none", "t1", "x"}
 ListConc = FALSE
 CowIndex = TRUE
 InvAfterDel = TRUE
 NormKey = TRUE
 TrustApplied = FALSE
 PlainIds = {"n1"}
 FeatFromPut = FALSE
 LockStyle = "global"
INIT GInit
NEXT GNext
INVARIANTS Emit
CHECK_DEADLOCK FALSE

SPECIFICATION MCSpec
VIEW view
INVARIANTS DryNoChange ThrottleOk NotBlocked
CONSTANTS
 Ungated = {}
 LeakOnErr = {}
 StubReads = {}
 NS = 3
 MaxLen = 1
 Pars = {1, 2}
 Alphabet = "throttle"

SPECIFICATION MCSpec
VIEW view
INVARIANTS DryNoChange ThrottleOk NotBlocked
CONSTANTS
 Gated = {"tag.delete", "m:delete", "manifest.put", "m:put", "blob.put", "b:put", "image.importTar", "image.copy", "image.copy+dt", "image.copy+fr"}
 RelOnErr = {"image.config", "m:config", "image.importTar", "image.exportTar", "image.copy", "image.copy+dt", "image.copy+fr"}
 StubReads = {}
 NS = 3
 MaxLen = 1
 Pars = {1, 2}
 Alphabet = "throttle"

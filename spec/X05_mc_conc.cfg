INIT MCInit
NEXT MCNext
INVARIANTS Ok MutexSane
CONSTRAINT Bounded
CHECK_DEADLOCK FALSE
CONSTANTS
 Hosts <- H1
 CredOf <- CredUP
 Reqs <- ReqsAB
 NProcs = 2
 NCalls = 1
 RegMoods <- MoodsBearer
 TokKinds <- KindsCore
 Budget = 1
 RetryLimit = 5
 MaxTok = 4
 Fix <- AllFix
 Mut = {}

------------------------------ MODULE RegbotGen ------------------------------
(***************************************************************************)
(* C19 - scenario generator.  A scenario is a regbot config: an initial    *)
(* world, `parallel`, and 1-3 scripts of at most 4 statements over the     *)
(* alphabet of RegbotMC.  Every config is executed by the design spec      *)
(* (Regbot.tla, scripts taken in order) once in dry-run and once in normal *)
(* mode; the observations of the model (per statement: ran / failed, the   *)
(* abstract result) and the final world are printed with the config, so    *)
(* the runner can compare them with what the real regbot binary did        *)
(* (model drift, never a verdict).                                         *)
(*                                                                         *)
(* Families (one set per shape of use the documentation describes):        *)
(*   Singles   every statement of the alphabet alone                       *)
(*   Chains    producer -> consumer over the Lua variables m b c r         *)
(*   AfterW    a write (or a protected failing call) followed by reads     *)
(*   Guarded   `if [not] exists(ref) then write`                           *)
(*   Loops     `for each tag of a repository do ...`                       *)
(*   Errors    error() between calls                                       *)
(*   Mixed     read, write, read, write over a reduced alphabet            *)
(*   Forms     method forms, objects / digests as references, option tables*)
(*   Isolation a script that fails (one per API function and failure       *)
(*             mode: bad argument, absent tag, nil object, failure while   *)
(*             the throttle slot is held, error(), a registry call cut off *)
(*             by the script's own timeout) followed by scripts that use   *)
(*             the throttled bindings; parallel 0, 1 and 2                 *)
(* Dimensions of a config beyond the scripts (the design spec is agnostic  *)
(* of the last three, the driver realises them):                           *)
(*   world  A, B (populated differently), N (the layout does not exist)    *)
(*   mt     "oci" | "docker": media types of the stored manifests          *)
(*   feat   "full" | "min": optional features of the model registries      *)
(*          (min: no tag delete API, no mount, no single-POST upload,      *)
(*          pages of one entry)                                            *)
(*          round 5: "rl-ok" | "rl-low" | "rl-rec": the registries send    *)
(*          RateLimit-Limit / RateLimit-Remaining with every manifest      *)
(*          reply (enough left | too low, never recovers | too low for the *)
(*          first manifest request of a run, then enough);                 *)
(*          "nohd": no Docker-Content-Digest header on manifest / blob     *)
(*          replies (the head bindings fall back to a GET);                *)
(*          "dmg": the body of config blob C2 is served with wrong bytes   *)
(*          (same length), so a read of the BODY fails after the request   *)
(*          succeeded ("trunc", a body cut off in the middle, is realised  *)
(*          by the driver but not generated: regclient retries with Range  *)
(*          requests and the outcome depends on reghttp's backoff clock);  *)
(*          suffix "+c1" = host setting `reqConcurrent: 1` for both hosts  *)
(*   tmo    where the script timeout is configured: "default" (defaults:)  *)
(*          "script" (per script) "none" (nowhere) "short" (2 s for the    *)
(*          first script only; with the tag `slow`, which the registries   *)
(*          do not answer, its only call is cut off by the timeout)        *)
(*   cmd    "once" | "server": which command makes the dry run             *)
(*   verb   -v trace | debug | info | warn | error                         *)
(*   logfmt "json" (--logopt json) | "text"                                *)
(*   cfgin  "file" (--config f) | "stdin" (--config -)                     *)
(***************************************************************************)
EXTENDS RegbotMC, Json

VARIABLES prog, hist, dims

Sq(x) == <<x>>
A1v1 == S("manifest.get", "a1", "v1", "", "")

(* ------------------------------ families ------------------------------- *)
Singles == {Sq(st) : st \in Simple \cup GuardStmts \cup ErrorStmts}

MProducers == {S(op, r[1], r[2], "", "") : op \in {"manifest.get", "manifest.getList", "manifest.head"},
                                         r \in {<<"a1", "v1">>, <<"a1", "ix">>, <<"lay", "v1">>, <<"lay", "ix">>, <<"b1", "v1">>, <<"a2", "v1">>}}
MConsumers == {S(op, "", "", "", "") : op \in {"m:get", "m:export", "m:config", "m:ratelimit", "m:delete"}}
              \cup {S("image.config", "$m", "", "", ""), S("reference.new", "$m", "", "", ""), S("tag.delete", "$m", "", "", ""),
                    S("tag.ls", "$m", "", "", ""), S("image.copy", "$m", "", "b1", "new"), S("image.exportTar", "$m", "", "out", "")}
              \cup {S("manifest.put", t[1], t[2], "", "") : t \in WriteTgts}
              \cup {S("m:put", t[1], t[2], "", "") : t \in {<<"b1", "new">>, <<"lay", "new">>}}
BProducers == {S(op, l, "", b, "") : op \in {"blob.get", "blob.head"}, l \in {"a1", "lay"}, b \in {"C1", "L2"}}
BConsumers == {S("blob.put", l, "", "$b", "") : l \in Locs} \cup {S("b:put", "", "", "str", "")}
CProducers == {S("image.config", r[1], r[2], "", "") : r \in {<<"a1", "v1">>, <<"lay", "v1">>, <<"b1", "v1">>}}
CConsumers == {S("blob.put", l, "", "$c", "") : l \in Locs} \cup {S("c:export", "", "", "", "")}
RProducers == {S("reference.new", r[1], r[2], "", "") : r \in {<<"a1", "v1">>, <<"lay", "ix">>, <<"a2", "none">>}}
RSetters == {S("r:tag", "", "", t, "") : t \in {"new", "v1", "none"}}
RConsumers == {S("manifest.head", "$r", "", "", ""), S("tag.delete", "$r", "", "", ""), S("image.copy", "a1", "v1", "$r", ""),
               S("r:tag", "", "", "", ""), S("r:digest", "", "", "", "")}
Chains == {<<p, c>> : p \in MProducers, c \in MConsumers}
          \cup {<<p, c>> : p \in BProducers, c \in BConsumers}
          \cup {<<p, c>> : p \in CProducers, c \in CConsumers}
          \cup {t \in {<<p, s, c>> : p \in RProducers, s \in RSetters, c \in RConsumers} : t[2].l2 # "none" \/ t[3].op \notin CopyOps}
          \cup {<<p, S("m:export", "", "", "", ""), S("manifest.put", "b1", "new", "", "")>> : p \in {A1v1}}

\* one write per write binding and kind of place, and the reads that would see its effect
WProbe == {S("image.copy", "a1", "v1", "b1", "new"), S("image.copy", "a1", "ix", "lay", "new"), S("image.copy", "lay", "v1", "a2", "v1"),
           S("image.copy", "a1", "v1", "a1", "new"), S("image.copy", "lay", "ix", "lay", "new"),
           S("tag.delete", "a1", "v1", "", ""), S("tag.delete", "lay", "v1", "", ""), S("tag.delete", "a1", "none", "", ""),
           S("image.importTar", "b1", "new", "good", ""), S("image.importTar", "lay", "new", "good", ""),
           S("blob.put", "a2", "", "str", ""), S("blob.put", "lay", "", "str", ""),
           S("image.exportTar", "a1", "v1", "out", "")}
RProbe(w) == {S("tag.ls", IF w.op \in CopyOps THEN w.l2 ELSE w.l1, "", "", ""),
              S("manifest.head", IF w.op \in CopyOps THEN w.l2 ELSE w.l1, IF w.op \in CopyOps THEN w.t2 ELSE IF w.t1 = "" THEN "v1" ELSE w.t1, "", ""),
              S("repo.ls", "rega", "", "", "")}
FailProbe == {P(S("manifest.get", "a1", "none", "", "")), P(S("image.config", "a1", "ix", "", "")), P(S("manifest.put", "a1", "new", "", "")),
              P(S("image.importTar", "b1", "new", "missing", "")), P(S("tag.ls", "bad", "", "", ""))}
AfterW == {<<w, r>> : w \in WProbe \cup FailProbe, r \in {S("tag.ls", "a1", "", "", ""), S("manifest.head", "b1", "new", "", ""), S("image.config", "a1", "v1", "", "")}}
         \cup UNION {{<<w, r>> : r \in RProbe(w)} : w \in WProbe}
         \cup {<<A1v1, S("manifest.put", t[1], t[2], "", ""), S("tag.ls", t[1], "", "", ""), S("manifest.head", t[1], t[2], "", "")>> : t \in WriteTgts}

Guarded == {<<S("ifnot.head", t[1], t[2], "", ""), S("image.copy", s[1], s[2], t[1], t[2]), S("tag.ls", t[1], "", "", "")>> :
               s \in {<<"a1", "v1">>, <<"lay", "ix">>}, t \in WriteTgts}
           \cup {<<S("if.head", r[1], r[2], "", ""), S("tag.delete", r[1], r[2], "", ""), S("tag.ls", r[1], "", "", "")>> : r \in Locs \X {"v1", "ix", "none"}}
           \cup {<<S("if.head", "a1", t, "", ""), S("error", "", "", "", ""), S("tag.ls", "a1", "", "", "")>> : t \in {"v1", "none"}}
           \cup {<<S("ifnot.head", "b1", "new", "", ""), S("image.importTar", "b1", "new", "good", ""), S("if.head", "b1", "new", "", ""), S("image.config", "b1", "new", "", "")>>}

F(l, n) == S("foreach", l, "", n, "")
LoopBodies1 == {<<b>> : b \in LoopStmts \ {S("m:delete", "", "", "", "")}}
LoopBodies2 == {<<S("manifest.head", "@", "", "", ""), S("m:delete", "", "", "", "")>>,
                <<S("manifest.getList", "@", "", "", ""), S("m:delete", "", "", "", "")>>,
                <<S("manifest.get", "@", "", "", ""), S("m:config", "", "", "", "")>>,
                <<P(S("image.config", "@", "", "", "")), S("image.copy", "@", "", "b1", "@")>>}
               \cup {<<S("ifnot.head", l, "@", "", ""), S("image.copy", "@", "", l, "@")>> : l \in Locs}
Loops == {<<F(l, "1")>> \o b : l \in Locs \cup {"bad"}, b \in LoopBodies1}
         \cup {<<F(l, "2")>> \o b : l \in Locs, b \in LoopBodies2}
         \cup {<<F(l, "1")>> \o b \o <<S("tag.ls", l, "", "", "")>> : l \in {"a1", "lay"}, b \in LoopBodies1}
         \cup {<<F(l, "2")>> \o b \o <<S("tag.ls", l, "", "", "")>> : l \in {"a1", "lay"}, b \in LoopBodies2}

Errors == {<<A1v1, e, S("tag.ls", "a1", "", "", "")>> : e \in ErrorStmts}
          \cup {<<P(e), S("tag.ls", "a1", "", "", "")>> : e \in ErrorStmts}
          \cup {<<S("if.head", "a1", t, "", ""), e, S("tag.ls", "a1", "", "", "")>> : t \in {"v1", "none"}, e \in ErrorStmts}
          \cup {<<ErrorStmt, A1v1>>, <<A1v1, ErrorStmt, S("tag.ls", "a1", "", "", "")>>,
           <<S("image.copy", "a1", "v1", "b1", "new"), ErrorStmt>>, <<S("tag.ls", "lay", "", "", ""), S("tag.delete", "lay", "v1", "", ""), ErrorStmt, S("tag.ls", "lay", "", "", "")>>}

R4 == {S("tag.ls", "a1", "", "", ""), S("manifest.getList", "lay", "ix", "", ""), S("image.config", "a1", "v1", "", ""), S("manifest.head", "b1", "new", "", "")}
W4 == {S("image.copy", "a1", "v1", "b1", "new"), S("tag.delete", "a1", "ix", "", ""), S("m:delete", "", "", "", ""),
       S("manifest.put", "lay", "new", "", ""), S("blob.put", "b1", "", "$c", ""), S("image.importTar", "a2", "new", "good", "")}
Mixed == {<<a, b, c, d>> : a \in R4, b \in W4, c \in R4, d \in W4}

\* method forms, objects and digests where a reference is expected, option tables
MGet(r) == S("manifest.get", r[1], r[2], "", "")
Forms ==
  {<<MGet(r), S(op, "", "", "", "")>> : r \in {<<"a1", "v1">>, <<"lay", "ix">>, <<"a1", "none">>}, op \in {"m:head", "m:ratelimitWait"}}
  \cup {<<S(p, l, "", "C1", ""), c>> : p \in {"blob.get", "blob.head"}, l \in {"a1", "lay"},
                                    c \in {S("b:get", "", "", "C1", ""), S("b:head", "", "", "C1", ""), S("b:put", "", "", "$b", ""), S("b:put", "", "", "str", "")}}
  \cup {<<S("image.config", "a1", "v1", "", ""), S("blob.get", l, "", "C1", ""), S("b:put", "", "", "$c", "")>> : l \in {"a1", "lay"}}
  \cup {<<S("image.config", r[1], r[2], "", ""), c>> : r \in {<<"a1", "v1">>, <<"lay", "v1">>}, c \in {S("tag.ls", "$c", "", "", ""), S("reference.new", "$c", "", "", "")}}
  \cup {<<S("reference.new", t[1], t[2], "", ""), w>> : t \in {<<"b1", "new">>, <<"lay", "new">>, <<"a1", "v1">>},
           w \in {S("blob.put", "$r", "", "str", ""), S("image.importTar", "$r", "", "good", ""), S("image.exportTar", "$r", "", "out", ""),
                  S("r:close", "", "", "", ""), S("tag.delete", "$r", "", "", "")}}
  \cup {<<MGet(<<"a1", "v1">>), S("reference.new", t[1], t[2], "", ""), w, S("tag.ls", t[1], "", "", "")>> :
           t \in {<<"b1", "new">>, <<"lay", "new">>}, w \in {S("manifest.put", "$r", "", "", ""), S("m:put", "$r", "", "", "")}}
  \cup {<<S("image.config", "a1", "v1", "", ""), S("reference.new", t[1], t[2], "", ""), S("blob.put", "$r", "", "$c", "")>> : t \in {<<"b1", "new">>, <<"lay", "new">>}}
  \cup {<<S(op, s[1], s[2], t[1], t[2]), S("tag.ls", t[1], "", "", "")>> : op \in {"image.copy+pf", "image.copy+ie", "image.copy+dt", "image.copy+fr"},
           s \in {<<"a1", "ix">>, <<"lay", "ix">>, <<"a1", "v1">>}, t \in {<<"b1", "new">>, <<"lay", "new">>, <<"a1", "new">>}}
  \cup {<<S("image.copy", l, "M1", t[1], t[2]), S("manifest.head", t[1], t[2], "", "")>> : l \in {"a1", "lay"}, t \in {<<"b1", "new">>, <<"lay", "new">>}}
  \cup {<<S("manifest.head", l, "M1", "", ""), S("m:delete", "", "", "", ""), S("tag.ls", l, "", "", "")>> : l \in {"a1", "lay"}}
  \cup {<<MGet(<<"a1", "v1">>), S("manifest.put", l, "M1", "", ""), S("manifest.head", l, "M1", "", "")>> : l \in {"b1", "lay"}}
  \cup {Sq(S("tag.delete", l, "M1", "", "")) : l \in {"a1", "lay"}}
  \cup {Sq(S("repo.ls+limit", r, "", "", "")) : r \in Regs}

(* ------------------------- failing scripts ----------------------------- *)
\* one per API function and failure mode; the last statement is the one that fails
FailBadArg == {Sq(S(op, "bad", "", "", "")) : op \in {"tag.ls", "tag.delete", "manifest.get", "manifest.getList", "manifest.head", "image.config",
                                                      "reference.new", "reference.close", "image.ratelimitWait"}}
              \cup {Sq(S("blob.get", "bad", "", "C1", "")), Sq(S("blob.head", "bad", "", "C1", "")), Sq(S("blob.put", "bad", "", "str", "")),
                    Sq(S("image.copy", "bad", "", "b1", "new")), Sq(S("image.copy", "a1", "v1", "bad", "")),
                    Sq(S("image.importTar", "bad", "", "good", "")), Sq(S("image.exportTar", "bad", "", "out", "")),
                    <<A1v1, S("manifest.put", "bad", "", "", "")>>}
FailAbsent == {Sq(S(op, "a1", "none", "", "")) : op \in {"manifest.get", "manifest.getList", "manifest.head", "image.config", "tag.delete", "image.ratelimitWait"}}
              \cup {Sq(S("tag.ls", "a2", "", "", "")), Sq(S("blob.get", "a1", "", "ZZ", "")), Sq(S("blob.head", "lay", "", "ZZ", "")),
                    Sq(S("image.copy", "a1", "none", "b1", "new")), Sq(S("image.exportTar", "lay", "none", "out", "")),
                    Sq(S("manifest.get", "lay", "none", "", ""))}
FailNil == {Sq(S(op, "", "", "", "")) : op \in {"m:get", "m:export", "m:config", "m:delete", "m:ratelimit", "c:export", "r:digest"}}
           \cup {Sq(S("manifest.put", "a1", "new", "", "")), Sq(S("blob.put", "a1", "", "$b", "")), Sq(S("blob.put", "a1", "", "$c", "")),
                 Sq(S("b:put", "", "", "str", "")), Sq(S("r:tag", "", "", "new", "")), Sq(S("image.config", "$m", "", "", ""))}
\* failures while the throttle slot is held
FailInside == {<<S("manifest.getList", "a1", "ix", "", ""), S("image.config", "$m", "", "", "")>>,
               <<S("manifest.getList", "lay", "ix", "", ""), S("m:config", "", "", "", "")>>,
               <<S("manifest.head", "a1", "v1", "", ""), S("m:config", "", "", "", "")>>,
               Sq(S("image.importTar", "b1", "new", "missing", "")), Sq(S("image.importTar", "lay", "new", "bad", "")),
               Sq(S("image.exportTar", "a1", "v1", "baddir", "")), Sq(S("image.exportTar", "a1", "none", "out", "")),
               Sq(S("image.copy", "lay", "none", "a1", "new")),
               <<F("a1", "2"), S("manifest.getList", "@", "", "", ""), S("m:config", "", "", "", "")>>}
\* every way of aborting, alone and after some registry work
FailError == {Sq(e) : e \in ErrorStmts} \cup {<<S("tag.ls", "a1", "", "", ""), e>> : e \in ErrorStmts}
FailScripts == FailBadArg \cup FailAbsent \cup FailNil \cup FailInside \cup FailError
\* with tmo = "short": the call on the tag `slow` is the only one of the first script and is cut
\* off by its timeout (no other statement runs under the short timeout: no dependence on speed)
FailTimeout == {Sq(S("manifest.head", "a1", "slow", "", "")), Sq(S("image.config", "a1", "slow", "", "")),
                Sq(S("image.copy", "a1", "slow", "b1", "new")), Sq(S("manifest.get", "a1", "slow", "", ""))}
FollowUps == {<<S("image.copy", "a1", "v1", "b1", "new"), S("image.config", "a1", "v1", "", "")>>,
              <<S("image.exportTar", "lay", "v1", "out", ""), S("tag.ls", "a1", "", "", "")>>,
              <<S("image.config", "lay", "v1", "", ""), S("image.importTar", "a2", "new", "good", "")>>}

Cfg(w, p, ss) == [world |-> w, mt |-> "oci", feat |-> "full", tmo |-> "default", cmd |-> "once", verb |-> "info", logfmt |-> "json",
                  cfgin |-> "file", par |-> p, scripts |-> ss]
(* round 5: reads under registry rate-limit headers; failures while a blob BODY is read *)
RlOne == {Sq(S("image.ratelimitWait", r[1], r[2], "", "")) : r \in {<<"a1", "v1">>, <<"a1", "ix">>, <<"lay", "v1">>, <<"b1", "v1">>}}
         \cup {<<S(p, "a1", "v1", "", ""), S(c, "", "", "", "")>> : p \in {"manifest.get", "manifest.head"}, c \in {"m:ratelimitWait", "m:ratelimit"}}
         \cup {<<S("image.ratelimitWait", "a1", "v1", "", ""), S("image.ratelimitWait", "a1", "v1", "", "")>>,
               <<S("if.head", "a1", "v1", "", ""), S("image.ratelimitWait", "a1", "v1", "", ""), S("tag.ls", "a1", "", "", "")>>,
               <<P(S("image.ratelimitWait", "a1", "none", "", "")), S("image.ratelimitWait", "a1", "v1", "", "")>>,
               <<S("image.ratelimitWait", "a1", "v1", "", ""), S("image.copy", "a1", "v1", "b1", "new")>>,
               <<S("tag.ls", "a1", "", "", ""), S("manifest.get", "a1", "ix", "", ""), S("image.config", "a1", "v1", "", "")>>,
               <<S("manifest.getList", "a1", "ix", "", ""), S("m:get", "", "", "", "")>>,
               <<S("image.copy", "a1", "v1", "b1", "new"), S("manifest.head", "b1", "new", "", "")>>}
\* every read binding that asks for a head / a digest, and writes fed by them, on a registry without digest headers
NoHdOne == {Sq(S(op, r[1], r[2], "", "")) : op \in {"manifest.head", "manifest.get", "manifest.getList", "image.config", "tag.delete"},
                                           r \in {<<"a1", "v1">>, <<"a1", "ix">>, <<"a1", "none">>, <<"a1", "M1">>}}
           \cup {Sq(S(op, "a1", "", b, "")) : op \in {"blob.head", "blob.get"}, b \in {"C1", "ZZ"}}
           \cup {<<S("manifest.head", "a1", "v1", "", ""), S(c, "", "", "", "")>> : c \in {"m:get", "m:head", "m:delete", "m:export"}}
           \cup {<<S("manifest.head", "a1", "ix", "", ""), S("m:put", "b1", "new", "", "")>>,
                 <<S("blob.head", "a1", "", "C1", ""), S("blob.put", "b1", "", "$b", "")>>,
                 <<S("ifnot.head", "b1", "new", "", ""), S("image.copy", "a1", "v1", "b1", "new"), S("tag.ls", "b1", "", "", "")>>,
                 <<S("if.head", "a1", "v1", "", ""), S("tag.delete", "a1", "v1", "", ""), S("tag.ls", "a1", "", "", "")>>,
                 <<F("a1", "1"), S("manifest.head", "@", "", "", "")>>,
                 <<S("image.copy", "a1", "ix", "b1", "new"), S("manifest.head", "b1", "new", "", "")>>}
DmgRead == {Sq(S("image.config", "a1", "M2", "", "")), Sq(S("image.exportTar", "a1", "M2", "out", "")),
            Sq(S("image.config", "b1", "v1", "", "")), Sq(S("image.config", "a1", "v1", "", "")),
            <<S("blob.get", "a1", "", "C2", ""), S("blob.put", "b1", "", "$b", "")>>,
            <<P(S("image.config", "a1", "M2", "", "")), S("image.config", "a1", "v1", "", "")>>,
            Sq(S("image.copy", "a1", "M2", "b1", "new")), Sq(S("image.copy", "a1", "ix", "lay", "new"))}
DmgFail == {S("image.config", "a1", "M2", "", ""), S("image.exportTar", "a1", "M2", "out", "")}
DmgFollow == {<<S("image.copy", "a1", "v1", "b1", "new"), S("image.config", "a1", "v1", "", "")>>,
              <<S("tag.ls", "a1", "", "", ""), S("manifest.head", "a1", "ix", "", "")>>}
\* the body read fails as often as the default per-host limit of concurrent requests (3), in one
\* script (protected) or in three scripts; then a script that reads intact images of that registry
DmgIso == {Cfg("A", p, <<<<P(f), P(f), f>>, u>>) : p \in {0, 1}, f \in DmgFail, u \in DmgFollow}
          \cup {Cfg("A", p, <<<<P(f), P(f), P(f), S("tag.ls", "a1", "", "", "")>>, u>>) : p \in {0, 2}, f \in DmgFail, u \in DmgFollow}
          \cup {Cfg("A", 0, <<<<P(f), f>>, <<P(f), f>>, u>>) : f \in DmgFail, u \in DmgFollow}
DmgIso1 == {Cfg("A", p, <<Sq(f), u>>) : p \in {0, 1}, f \in DmgFail, u \in DmgFollow}
           \cup {Cfg("A", 0, <<<<P(f), S("image.config", "a1", "v1", "", "")>>>>) : f \in DmgFail}

(* ------------------------------ configs -------------------------------- *)
One == Singles \cup Chains \cup AfterW \cup Guarded \cup Loops \cup Errors \cup Mixed \cup Forms
UsesLay(s) == \E i \in 1..Len(s) : "lay" \in {s[i].l1, s[i].l2}
IsoBase ==
  {Cfg("A", p, <<f, u>>) : p \in {0, 1}, f \in FailScripts, u \in FollowUps}
  \cup {Cfg("A", 2, <<f, f, u>>) : f \in FailScripts, u \in FollowUps}
  \cup {Cfg("A", p, <<u, f, v>>) : p \in {0, 1}, f \in FailInside, u \in FollowUps, v \in FollowUps}
\* dry run made by `regbot server`: one write per binding and place, and failing scripts next to others
ServerOne == {Sq(w) : w \in WProbe}
             \cup {<<A1v1, S("manifest.put", t[1], t[2], "", "")>> : t \in {<<"b1", "new">>, <<"lay", "new">>}}
             \cup {<<S("image.config", "a1", "v1", "", ""), S("blob.put", "b1", "", "$c", "")>>, <<S("tag.ls", "a1", "", "", ""), S("manifest.head", "lay", "v1", "", "")>>}
\* global command line options: every write binding on a registry and on the layout (alone, fed by
\* a producer, in a loop, behind a guard), some reads, failing scripts next to others
OptOne == {Sq(w) : w \in WProbe}
          \cup {<<A1v1, S(op, t[1], t[2], "", "")>> : op \in {"manifest.put", "m:put"}, t \in {<<"a1", "new">>, <<"b1", "new">>, <<"lay", "new">>}}
          \cup {<<S("manifest.getList", "a1", "ix", "", ""), S("m:put", "b1", "new", "", "")>>}
          \cup {<<S(op, r[1], r[2], "", ""), S("m:delete", "", "", "", "")>> : op \in {"manifest.head", "manifest.getList"}, r \in {<<"a1", "v1">>, <<"lay", "v1">>, <<"lay", "ix">>}}
          \cup {<<S("image.config", "a1", "v1", "", ""), S("blob.put", l, "", "$c", "")>> : l \in {"b1", "lay"}}
          \cup {<<S("blob.get", "a1", "", "C1", ""), c>> : c \in {S("blob.put", "lay", "", "$b", ""), S("blob.put", "a2", "", "$b", ""), S("b:put", "", "", "$b", "")}}
          \cup {Sq(S(op, "a1", "ix", t[1], t[2])) : op \in {"image.copy+dt", "image.copy+fr", "image.copy+pf", "image.copy+ie"}, t \in {<<"b1", "new">>, <<"lay", "new">>}}
          \cup {<<F(l, "1"), S("tag.delete", "@", "", "", "")>> : l \in {"a1", "lay"}}
          \cup {<<F(l, "2"), S("manifest.head", "@", "", "", ""), S("m:delete", "", "", "", "")>> : l \in {"a1", "lay"}}
          \cup {<<S("if.head", r[1], r[2], "", ""), S("tag.delete", r[1], r[2], "", ""), S("tag.ls", r[1], "", "", "")>> : r \in {<<"a1", "v1">>, <<"lay", "ix">>}}
          \cup {<<S("tag.ls", "a1", "", "", ""), S("manifest.get", "lay", "ix", "", ""), S("image.config", "a1", "v1", "", "")>>}
OptIso == {Cfg("A", p, <<f, u>>) : p \in {0, 1}, u \in {<<S("image.copy", "a1", "v1", "b1", "new"), S("image.config", "a1", "v1", "", "")>>},
             f \in {Sq(ErrorStmt), Sq(S("error:table", "", "", "", "")), Sq(S("manifest.get", "a1", "none", "", "")),
                    <<S("manifest.getList", "a1", "ix", "", ""), S("image.config", "$m", "", "", "")>>}}
OptBase == {Cfg("A", 0, <<s>>) : s \in OptOne} \cup OptIso
Configs ==
  {Cfg(w, 0, <<s>>) : w \in {"A", "B"}, s \in One}
  \cup {[c EXCEPT !.verb = v] : c \in OptBase, v \in {"trace", "debug", "warn", "error"}}
  \cup {[c EXCEPT !.logfmt = "text", !.verb = v] : c \in OptBase, v \in {"info", "error"}}
  \cup {[c EXCEPT !.cfgin = "stdin", !.verb = v] : c \in OptBase, v \in {"info", "warn"}}
  \cup {Cfg("N", 0, <<s>>) : s \in {x \in One \ Mixed : UsesLay(x)}}
  \cup {[Cfg("A", 0, <<s>>) EXCEPT !.mt = "docker"] : s \in Singles \cup Chains \cup Forms}
  \cup {[Cfg("A", 0, <<s>>) EXCEPT !.feat = "min"] : s \in Chains \cup AfterW \cup Guarded \cup Loops \cup Forms}
  \cup {[c EXCEPT !.tmo = t] : c \in IsoBase, t \in {"default", "script", "none"}}
  \cup {[Cfg("A", p, <<f, u>>) EXCEPT !.tmo = "short"] : p \in {0, 1, 2}, f \in FailTimeout, u \in FollowUps}
  \cup {[Cfg("A", 0, <<s>>) EXCEPT !.cmd = "server"] : s \in ServerOne}
  \cup {[Cfg("A", 0, <<s>>) EXCEPT !.feat = f] : s \in RlOne, f \in {"rl-ok", "rl-low", "rl-rec"}}
  \cup {[Cfg("A", 0, <<s>>) EXCEPT !.feat = "nohd"] : s \in RlOne \cup NoHdOne}
  \cup {[Cfg("A", 0, <<s>>) EXCEPT !.feat = f] : s \in DmgRead, f \in {"dmg"}}
  \cup {[c EXCEPT !.feat = f] : c \in DmgIso, f \in {"dmg"}}
  \cup {[c EXCEPT !.feat = f] : c \in DmgIso1, f \in {"dmg+c1", "full+c1"}}
  \cup {[Cfg("A", 1, <<f, u>>) EXCEPT !.cmd = "server"] : f \in FailInside \cup FailError, u \in FollowUps}

(* ------------------------- execution by (D) ---------------------------- *)
Pad(ss) == [s \in Scripts |-> IF s <= Len(ss) THEN ss[s] ELSE <<>>]
GInit == \E c \in Configs, m \in {"dry", "nor"} :
           /\ prog = Pad(c.scripts) /\ hist = <<>> /\ dims = [world |-> c.world, mt |-> c.mt, feat |-> c.feat, tmo |-> c.tmo, cmd |-> c.cmd, verb |-> c.verb, logfmt |-> c.logfmt, cfgin |-> c.cfgin]
           /\ InitWith(Worlds[c.world], m, c.par)
Ext(s) == IF ip[s] < Len(prog[s]) THEN prog[s][ip[s] + 1] ELSE NoStmt
BodyOf(s) == SubSeq(prog[s], ip[s] + 2, ip[s] + 1 + (IF Ext(s).l2 = "2" THEN 2 ELSE 1))
GStep(s) ==
  \/ Begin(s, Ext(s)) \/ Guard(s, Ext(s)) \/ Raise(s, Ext(s))
  \/ ~InLoop(s) /\ Ext(s).op = "foreach" /\ Foreach(s, Ext(s), BodyOf(s))
  \/ Acquire(s) \/ Body(s)
  \/ ip[s] = Len(prog[s]) /\ Finish(s)
\* one fixed schedule: scripts in order (for parallel > 0 one of the possible interleavings)
GNext == \E s \in Scripts :
           /\ \A j \in 1..(s - 1) : pc[j] \in {"done", "failed"}
           /\ GStep(s)
           /\ hist' = IF pc'[s] = "acq" \/ pc[s] = "acq" THEN hist ELSE Append(hist, last')
           /\ UNCHANGED <<prog, dims>>
GSpec == GInit /\ [][GNext]_<<vars, prog, hist, dims>>

X(st) == IF st.t1 = "" THEN st.l1 ELSE st.l1 \o ":" \o st.t1
Y(st) == IF st.t2 = "" THEN st.l2 ELSE st.l2 \o ":" \o st.t2
Out(st) == [op |-> st.op, x |-> X(st), y |-> Y(st), p |-> st.p]
NScripts == Cardinality({s \in Scripts : prog[s] # <<>>})
Scn == [world |-> dims.world, mt |-> dims.mt, feat |-> dims.feat, tmo |-> dims.tmo, cmd |-> dims.cmd, verb |-> dims.verb, logfmt |-> dims.logfmt, cfgin |-> dims.cfgin, tags |-> W0.tag, par |-> par, mode |-> mode,
        scripts |-> [s \in 1..NScripts |-> [i \in 1..Len(prog[s]) |-> Out(prog[s][i])]],
        exp |-> hist, final |-> W.tag, status |-> [s \in 1..NScripts |-> pc[s]], tar |-> tar]
Emit == AllOver => PrintT(<<"SCN", ToJson(Scn)>>)
\* no generated config may block in the model as it is specified (a blocked config would print nothing)
GenNotBlocked == NotBlocked
=============================================================================

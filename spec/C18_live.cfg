CONSTANTS
 Space = "par"
 Scenarios <- SpaceScns
 Anchoring = "fixed"
 PlatMatch = "fixed"
 Chars <- CharsDef
 NameOrder <- NameOrderDef
SPECIFICATION Spec
PROPERTY Terminates

SPECIFICATION MSpec
CONSTANTS
 DescPlatStrict = TRUE
 PlatLookupStrict = FALSE
 ReadFaults = FALSE
 EqualAnnStrict = FALSE
 PutFirst = FALSE
 DedupByDigest = FALSE
 DeleteKeepsOne = FALSE
 Faults = TRUE
 Alphabet <- AlphaEqual
 MaxCmds = 3
INVARIANTS Holds TypeOk
CHECK_DEADLOCK FALSE

CONSTANTS
 ProcSeq <- P3
 Confs <- GenConfs
 Modes = {"tag", "api", "oci"}
 Caches = {0, 1}
 Pages = {0, 1, 2}
 TagDels = {0, 1}
 SubjSel = {"all"}
 Spells = {"dig", "tag", "both", "plat"}
 Dopts = {"check", "man"}
 Inits <- InitsRev
 NAs <- NAsSome
 Script <- NoScript
 SerialPrefix = 0
 ObsPolicy = "any"
 EmitOnly = "all"
 MaxOps = 5
 MaxConc = 3
 SameSubject = TRUE
 MixSameArt = TRUE
 LockPut = TRUE
 LockDel = TRUE
 LockDelEarly = TRUE
 ObsFilters = {"none", "t1", "x"}
 ListConc = FALSE
 CowIndex = TRUE
 InvAfterDel = TRUE
 NormKey = TRUE
 TrustApplied = FALSE
 PlainIds = {"n1", "n2"}
 FeatFromPut = FALSE
 LockStyle = "global"
INIT GInit
NEXT GNext
INVARIANTS Emit
CHECK_DEADLOCK FALSE

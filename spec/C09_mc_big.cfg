SPECIFICATION Spec
CONSTANTS
 DrainBug = FALSE
 LinkCode = FALSE
 DupPathBug = FALSE
 Ids <- BigBfsIds
INVARIANTS PropHolds PropExact Ordered PassBound
CHECK_DEADLOCK TRUE

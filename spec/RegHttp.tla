------------------------------- MODULE RegHttp -------------------------------
(***************************************************************************)
(* (D) design spec for C12: the retry / back-off / mirror automaton of     *)
(* internal/reghttp, implementation shaped.  One action per wire attempt   *)
(* of the host loop and per API entry of the caller.                       *)
(*                                                                         *)
(* Code mirrored (internal/reghttp/http.go unless said otherwise):         *)
(*   Do        Client.Do: new Resp, readCur 0, readMax ExpectLen, next()   *)
(*   Enter     Resp.next, prologue: host list = mirrors (unless NoMirrors) *)
(*             + registry, sort.Slice(sortHostsCmp)                        *)
(*   LoopExit  Resp.next, top of the loop: no host left -> last error;     *)
(*             retryCount > retryLimit -> ErrRetryLimitExceeded            *)
(*   Attempt   Resp.next, one iteration: curHost wrap, retryCount++,       *)
(*             backoffGet + sleep, Range header when resuming, the reply   *)
(*             (environment), status classification (switch statusCode):   *)
(*             retryHost / dropHost / backoff, Content-Length and          *)
(*             Content-Range checks, backoffSet (or IgnoreErr: drop),      *)
(*             slices.Delete / curHost++                                   *)
(*   ReadAll   caller loop around Resp.Read until EOF or error             *)
(*   Consume   Resp.Read: EOF with everything read -> backoffReset, done;  *)
(*             early end -> backoffSet, next() with Range                  *)
(*   Seek      Resp.Seek (SeekStart): readCur := off, retryCount--, next() *)
(*   Close     Resp.Close: backoffReset unless done                        *)
(*   BodyFail  Resp.next, one iteration that ends at `req.BodyFunc()`: a   *)
(*             body that can be produced only once (scheme/reg             *)
(*             blobPutUploadFull with a source that is no io.Seeker) fails *)
(*             with ErrNotRetryable on the second call: dropHost, no wire  *)
(*             request; after the closure `throttleDone()`, then - when an *)
(*             earlier attempt of this next() failed - `return err`        *)
(*   Cancel    caller cancels the context of a logical request (between    *)
(*             calls); CtxExit: next() returns ctx.Err() at the loop top   *)
(*   PassRA    environment: time passes until no window is open            *)
(*   Idle      environment: the client is idle for longer than every       *)
(*             back-off delay in force (a sequence of operations with a    *)
(*             gap: backoffCur > 0 and a stale backoffLast are left behind)*)
(*   BackoffGet / BackoffSet / BackoffReset / Less: the functions of the   *)
(*             same name (Less = sortHostsCmp)                             *)
(*                                                                         *)
(* Time is logical: `now` only moves in the sleeps of backoffGet and in    *)
(* PassRA.  The unit is delayInit (so D = 1); delay = min(2^backoffCur,    *)
(* dmax); Retry-After is RA units.  0 stands for the zero time.Time.       *)
(*                                                                         *)
(* Deliberate deviations:                                                  *)
(*  - PrioAsc = TRUE transcribes sortHostsCmp as written (Priority         *)
(*    ascending, suspicion S1); FALSE is the documented order.  Equal      *)
(*    mirrors may come out in any order (the comparator is not a strict    *)
(*    weak order there).                                                   *)
(*  - the throttle (internal/pqueue, C17) is reduced to a slot counter per  *)
(*    host: Attempt needs a free slot (Acquire), gives it back on failure  *)
(*    and keeps it on success in resp.throttleDone until Close.  A later   *)
(*    next() of the same Resp (resume after an early end, Seek) first      *)
(*    returns that slot (FixLeak = TRUE, the code since commit eb4e31c).   *)
(*    FixLeak = FALSE is the code before: the new success overwrote        *)
(*    throttleDone and the earlier slot was never returned (finding        *)
(*    C12-4); Blocked is the state where Acquire can never succeed.        *)
(*    Every exit of next() gives the slot of its attempt back: failure,    *)
(*    not-retryable abort (RelNR = TRUE, the code; FALSE = the seeded      *)
(*    change seeded/C17-4: throttleDone() below the abort), context        *)
(*    cancel (returned before Acquire); only a success keeps it, until     *)
(*    Close.  SlotsAccounted states that.                                  *)
(*    No context cancellation, no reqFreq                                  *)
(*    rate limit, no TLS; auth is reduced to the three reactions of        *)
(*    HandleResponse (new challenge: immediate retry; stale; unusable:     *)
(*    drop the host);                                                      *)
(*    APIOpts disableHead, BodyFunc errors (ErrNotRetryable) and a stale   *)
(*    Retry-After header seen by backoffSet after a failed UpdateRequest   *)
(*    are left out.                                                        *)
(*  - one content of N symbols per logical request; bodies are delivered   *)
(*    by `avail` symbols at a time; Seek only from the start.              *)
(* `obs` is the observation output: the events RegHttpProp would see for   *)
(* this step, in the format of the real traces.                            *)
(***************************************************************************)
EXTENDS Integers, Sequences, FiniteSets, TLC

CONSTANTS Hosts,      \* host names (strings)
          Up,         \* the registry named in the request; the others are its mirrors
          Ids,        \* logical request ids (strings)
          N,          \* content length in symbols
          RA,         \* Retry-After in time units
          Kinds,      \* reply kinds the environment may use
          MaxFaults,  \* environment budget: non-ok replies per behaviour
          MaxSeeks,   \* caller budget
          PrioAsc,    \* TRUE: as the code sorts; FALSE: as documented
          Conc,       \* throttle slots per host (config.Host.ReqConcurrent)
          LinkEntries,\* FALSE: as the code since ac54726 (a request for a pagination link names the host that served the
                      \* link and carries NoMirrors); TRUE: as found (finding C12-5: the link request was walked through
                      \* every mirror entry although each entry sends to the same URL), kept for seeded/fixrev-C12-5
          StoreAnchor,\* TRUE: as the code (backoffGet stores the release time also when no wait is needed);
                      \* FALSE: seeded/C12-7 (the anchor goes stale while the host is idle)
          RelNR,      \* TRUE: as the code (throttleDone() before the ErrNotRetryable abort); FALSE: seeded/C17-4
          FixLeak,    \* TRUE: as the code since eb4e31c (next() returns the slot of the previous attempt first);
                      \* FALSE: the behaviour before that fix (finding C12-4), kept to explain seeded/fixrev-C12-4
          Confs       \* configurations explored (chosen in Init)

VARIABLES conf,   \* [R, dmax, prio : Hosts -> Nat, req : Ids -> [meth, nomir, ie, expect]]
          now,
          hs,     \* host -> [cur, last, reset, realm]     (clientHost.backoffCur/-Last/-Reset; auth has a realm)
          rs,     \* id -> Resp
          call,   \* the API call in progress (calls are sequential), or NoCall
          nf, ns, \* budgets used
          obs     \* events emitted by the last step
vars == <<conf, now, hs, rs, call, nf, ns, obs>>

NoCall == [id |-> "", kind |-> "none", ph |-> "", hosts |-> <<>>, ci |-> 1, err |-> FALSE]
Max2(a, b) == IF a > b THEN a ELSE b
Min2(a, b) == IF a < b THEN a ELSE b
Perms(S) == {s \in [1..Cardinality(S) -> S] : \A i, j \in 1..Cardinality(S) : i # j => s[i] # s[j]}
DropAt(s, i) == [j \in 1..(Len(s) - 1) |-> IF j < i THEN s[j] ELSE s[j + 1]]

RespZero == [st |-> "new", retry |-> 0, rcur |-> 0, rmax |-> 0, done |-> FALSE, has |-> FALSE,
             avail |-> 0, short |-> FALSE, mirror |-> Up, hasra |-> FALSE, slot |-> "none",
             bodyused |-> FALSE, cx |-> FALSE]
HostZero == [cur |-> 0, last |-> 0, reset |-> 0, realm |-> FALSE, act |-> 0]

Mut(id) == conf.req[id].meth \in {"PUT", "DELETE"}
Bit(b) == IF b THEN 1 ELSE 0
Sig(id) == conf.req[id].meth \o " /" \o id

\* ----------------------------------------------------------- back-off
Delay(c) == Min2(2 ^ c, conf.dmax)

BackoffGet(x, t) ==            \* -> [now, h]
  IF x.cur > 0
  THEN LET nx == Max2(t, x.last + Delay(x.cur))
       IN [now |-> nx, h |-> [x EXCEPT !.last = IF StoreAnchor \/ nx > t THEN nx ELSE @]]
  ELSE LET l == IF x.last # 0 /\ x.last < t THEN 0 ELSE x.last
       IN [now |-> Max2(t, l), h |-> [x EXCEPT !.last = l]]

BackoffSet(x, t, hasRA) ==     \* -> [h, lim]
  IF hasRA THEN [h |-> [x EXCEPT !.last = Max2(@, t + RA)], lim |-> FALSE]
  ELSE [h |-> [x EXCEPT !.cur = @ + 1, !.last = IF @ = 0 THEN t ELSE @], lim |-> x.cur + 1 >= conf.R]

BackoffReset(x) ==
  IF x.cur = 0 THEN x
  ELSE IF x.reset + 1 > 5 \/ x.cur > conf.R
       THEN [x EXCEPT !.reset = 0, !.cur = @ - 1, !.last = IF x.cur = 1 THEN 0 ELSE @]
       ELSE [x EXCEPT !.reset = @ + 1]

\* sortHostsCmp
Less(a, b, t) ==
  IF t < hs[a].last \/ t < hs[b].last THEN hs[a].last < hs[b].last
  ELSE IF conf.prio[a] # conf.prio[b]
       THEN (IF PrioAsc THEN conf.prio[a] < conf.prio[b] ELSE conf.prio[a] > conf.prio[b])
       ELSE a # Up /\ b = Up
Sorted(S, t) == {s \in Perms(S) : \A i, j \in 1..Cardinality(S) : i < j => ~Less(s[j], s[i], t)}
\* a request with a DirectURL (a pagination link of scheme/reg tagListLink / referrerListByAPIPage) goes to the
\* host `direct` whatever entry of the list is current; back-off state and throttle are those of the entry
Direct(id) == conf.req[id].direct
Wire(id, h) == IF Direct(id) # "none" THEN Direct(id) ELSE h
HostSet(id) == IF Direct(id) # "none" /\ ~LinkEntries THEN {Direct(id)}
               ELSE IF conf.req[id].nomir /\ Direct(id) = "none" THEN {Up} ELSE Hosts

\* ------------------------------------------------------------- events
EvDo(id)      == [ev |-> "do", id |-> id, mut |-> Bit(Mut(id)),
                  nomir |-> Bit(conf.req[id].nomir \/ (Direct(id) # "none" /\ ~LinkEntries)),
                  to |-> IF Direct(id) # "none" THEN Direct(id) ELSE Up,
                  ie |-> Bit(conf.req[id].ie), tc |-> now, os |-> Bit(conf.req[id].oneshot)]
EvSeek(id, off) == [ev |-> "seek", id |-> id, tc |-> now, off |-> off]
EvRead(id)    == [ev |-> "read", id |-> id, tc |-> now]
EvRet(id, c, ok) == [ev |-> "ret", id |-> id, call |-> c, ok |-> Bit(ok), eq |-> 1]
EvCut(id, h)  == [ev |-> "cut", id |-> id, h |-> Wire(id, h), t |-> now]
PKind(k) == CASE k \in {"ok", "ok206"} -> "ok"
              [] k \in {"short0", "short1", "short206"} -> "trunc"
              [] k \in {"s429", "s408", "s500", "s502", "s504"} -> "tf"
              [] k \in {"s429ra", "s500ra"} -> "ra"
              [] k = "reset" -> "reset"
              [] k = "s404" -> "nf"
              [] k = "s416" -> "rng"
              [] k \in {"s401n", "s401s", "s401b"} -> "auth"
              [] k \in {"okclbad", "ok200"} -> "badok"
              [] OTHER -> "other"
EvAtt(id, h, t, k) == [ev |-> "att", id |-> id, h |-> Wire(id, h), ta |-> t, tr |-> t, k |-> PKind(k),
                       ra |-> IF k \in {"s429ra", "s500ra"} THEN RA ELSE 0, mut |-> Bit(Mut(id)),
                       mir |-> Bit(~conf.req[id].nomir /\ ~Mut(id) /\ Direct(id) = "none"), sig |-> Sig(id), inj |-> Bit(PKind(k) # "ok"),
                       raw |-> k]

\* --------------------------------------------------------------- init
Init == /\ conf \in Confs
        /\ now = 1
        /\ hs = [h \in Hosts |-> HostZero]
        /\ rs = [i \in Ids |-> RespZero]
        /\ call = NoCall
        /\ nf = 0 /\ ns = 0
        /\ obs = <<>>

\* ----------------------------------------------------- next(): prologue
EnterCall(id, kind) == [id |-> id, kind |-> kind, ph |-> "next", hosts |-> <<>>, ci |-> 1, err |-> FALSE]

\* Do: first call of a logical request
Do(id) ==
  /\ call = NoCall /\ rs[id].st = "new"
  /\ \E s \in Sorted(HostSet(id), now) :
       call' = [EnterCall(id, "do") EXCEPT !.hosts = s]
  /\ rs' = [rs EXCEPT ![id].st = "busy", ![id].rmax = IF conf.req[id].expect THEN N ELSE 0]
  /\ obs' = <<EvDo(id)>>
  /\ UNCHANGED <<conf, now, hs, nf, ns>>

\* Seek(off, SeekStart) with off different from the current position
Seek(id, off) ==
  /\ call = NoCall /\ rs[id].st = "open" /\ ns < MaxSeeks
  /\ conf.req[id].meth = "GET" /\ off # rs[id].rcur
  /\ \E s \in Sorted(HostSet(id), now) :
       call' = [EnterCall(id, "seek") EXCEPT !.hosts = s]
  /\ rs' = [rs EXCEPT ![id].st = "busy", ![id].rcur = off, ![id].retry = @ - 1,
                       ![id].slot = IF FixLeak THEN "none" ELSE @]
  /\ hs' = IF FixLeak /\ rs[id].slot # "none" THEN [hs EXCEPT ![rs[id].slot].act = @ - 1] ELSE hs
  /\ ns' = ns + 1
  /\ obs' = <<EvSeek(id, off)>>
  /\ UNCHANGED <<conf, now, nf>>

\* the caller reads until EOF or error
ReadAll(id) ==
  /\ call = NoCall /\ rs[id].st = "open" /\ ~rs[id].done
  /\ conf.req[id].meth \in {"GET", "HEAD"}
  /\ call' = [EnterCall(id, "read") EXCEPT !.ph = "consume"]
  /\ rs' = [rs EXCEPT ![id].st = "busy"]
  /\ obs' = <<EvRead(id)>>
  /\ UNCHANGED <<conf, now, hs, nf, ns>>

\* ----------------------------------------------------- return of a call
Return(ok) ==
  LET id == call.id
      st == IF ok THEN "open" ELSE IF call.kind = "do" THEN "failed" ELSE "broken"
  IN /\ rs' = [rs EXCEPT ![id].st = st, ![id].done = IF ~ok /\ call.kind = "read" THEN TRUE ELSE @]
     /\ call' = NoCall

\* top of the host loop: give up
LoopExit ==
  /\ call.kind # "none" /\ call.ph = "next"
  /\ call.hosts = <<>> \/ rs[call.id].retry > conf.R
  /\ Return(FALSE)
  /\ obs' = <<EvRet(call.id, call.kind, FALSE)>>
  /\ UNCHANGED <<conf, now, hs, nf, ns>>

\* ------------------------------------------------ one attempt on the wire
\* replies that make sense for this request
Offered(id, range) ==
  {k \in Kinds :
     /\ k \in {"ok", "short0", "short1", "okclbad"} => ~range
     /\ k \in {"ok206", "ok200", "short206"} => range
     /\ k \in {"short0", "short1", "short206", "ok200", "ok206", "okclbad"} => conf.req[id].meth = "GET"
     /\ k \in {"ok206", "short206"} => rs[id].rcur < N    \* "bytes=N-N" is not satisfiable: 416
     /\ k = "short1" => N > 1
     /\ k = "okclbad" => conf.req[id].expect}

NextHost == call.hosts[IF call.ci > Len(call.hosts) THEN 1 ELSE call.ci]
Blocked == /\ call.kind # "none" /\ call.ph = "next"
           /\ call.hosts # <<>> /\ rs[call.id].retry <= conf.R /\ ~rs[call.id].cx
           /\ hs[NextHost].act >= Conc

Attempt ==
  /\ call.kind # "none" /\ call.ph = "next"
  /\ call.hosts # <<>> /\ rs[call.id].retry <= conf.R
  /\ ~rs[call.id].cx                            \* ctx.Err() at the loop top
  /\ hs[NextHost].act < Conc                    \* h.throttle.Acquire
  /\ ~(conf.req[call.id].oneshot /\ rs[call.id].bodyused)     \* else BodyFail
  /\ LET id    == call.id
         r     == rs[id]
         ci    == IF call.ci > Len(call.hosts) THEN 1 ELSE call.ci
         h     == call.hosts[ci]
         bg    == BackoffGet(hs[h], now)
         t     == bg.now
         range == r.rcur > 0 /\ r.rmax > 0
         ie    == conf.req[id].ie
     IN \E k \in Offered(id, range) :
        LET good    == k \in {"ok", "ok206", "short0", "short1", "short206"}
            retryH  == k = "s401n" \/ (k = "s401s" /\ ~bg.h.realm)
            bo      == k \in {"reset", "s429", "s429ra", "s500ra", "s408", "s500", "s502", "s504", "s403", "s503"}
            drop0   == k \in {"s401b", "s404", "s416", "s403", "s503", "ok200"} \/ (k = "s401s" /\ bg.h.realm)
            set     == BackoffSet(bg.h, t, k \in {"s429ra", "s500ra"})
            hst     == IF bo /\ ~ie THEN set.h ELSE bg.h
            drop    == drop0 \/ (bo /\ (ie \/ set.lim))
            hst2    == [hst EXCEPT !.realm = @ \/ k \in {"s401n", "s401s"}]
            left    == N - r.rcur
            deliver == CASE k \in {"ok", "ok206"} -> left
                         [] k = "short0" -> 0
                         [] k = "short1" -> 1
                         [] OTHER -> 0
            \* the regular answer costs nothing of the fault budget (a range starting at the end
            \* of the content is regularly answered 416)
            regular == k \in {"ok", "ok206"} \/ (k = "s416" /\ range /\ r.rcur >= N)
        IN /\ ~regular => nf < MaxFaults
           /\ nf' = IF regular THEN nf ELSE nf + 1
           /\ now' = t
           /\ hs' = [hs EXCEPT ![h] = IF good THEN [bg.h EXCEPT !.act = @ + 1] ELSE hst2]
           /\ obs' = <<EvAtt(id, h, t, k)>> \o (IF good /\ call.kind # "read" THEN <<EvRet(id, call.kind, TRUE)>> ELSE <<>>)
           /\ IF good
              THEN \* success: the body is open; Content-Length fixes readMax on a fresh read
                   /\ rs' = [rs EXCEPT ![id] = [r EXCEPT !.retry = @ + 1, !.mirror = h, !.has = TRUE,
                                                        !.done = FALSE, !.hasra = FALSE, !.slot = h, !.bodyused = TRUE,
                                                        !.rmax = IF r.rcur = 0 /\ conf.req[id].meth = "GET" THEN N ELSE @,
                                                        !.avail = IF conf.req[id].meth = "GET" THEN deliver ELSE 0,
                                                        !.short = k \in {"short0", "short1", "short206"},
                                                        !.st = IF call.kind = "read" THEN "busy" ELSE "open"]]
                   /\ call' = IF call.kind = "read" THEN [call EXCEPT !.ph = "consume", !.hosts = <<>>, !.ci = 1]
                              ELSE NoCall
              ELSE /\ rs' = [rs EXCEPT ![id] = [r EXCEPT !.retry = @ + 1, !.mirror = h, !.bodyused = TRUE,
                                                        !.has = k # "reset", !.hasra = k \in {"s429ra", "s500ra"}]]
                   /\ call' = [call EXCEPT !.err = TRUE,
                                           !.hosts = IF drop THEN DropAt(call.hosts, ci) ELSE @,
                                           !.ci = IF drop \/ retryH THEN ci ELSE ci + 1]
  /\ UNCHANGED <<conf, ns>>

\* an iteration that ends at req.BodyFunc(): the body cannot be produced a second time
BodyFail ==
  /\ call.kind # "none" /\ call.ph = "next"
  /\ call.hosts # <<>> /\ rs[call.id].retry <= conf.R /\ ~rs[call.id].cx
  /\ hs[NextHost].act < Conc
  /\ conf.req[call.id].oneshot /\ rs[call.id].bodyused
  /\ LET id == call.id
         ci == IF call.ci > Len(call.hosts) THEN 1 ELSE call.ci
         h  == call.hosts[ci]
         bg == BackoffGet(hs[h], now)
         abort == call.err          \* err != nil && errors.Is(loopErr, ErrNotRetryable)
     IN /\ now' = bg.now
        /\ hs' = [hs EXCEPT ![h] = IF abort /\ ~RelNR THEN [bg.h EXCEPT !.act = @ + 1] ELSE bg.h]
        /\ IF abort
           THEN /\ rs' = [rs EXCEPT ![id].retry = @ + 1, ![id].mirror = h,
                                    ![id].st = IF call.kind = "do" THEN "failed" ELSE "broken"]
                /\ call' = NoCall
                /\ obs' = <<EvRet(id, call.kind, FALSE)>>
           ELSE /\ rs' = [rs EXCEPT ![id].retry = @ + 1, ![id].mirror = h]
                /\ call' = [call EXCEPT !.err = TRUE, !.hosts = DropAt(call.hosts, ci), !.ci = ci]
                /\ obs' = <<>>
  /\ UNCHANGED <<conf, nf, ns>>

\* the caller cancels the context of a logical request (between two calls)
Cancel(id) ==
  /\ call = NoCall /\ rs[id].st = "open" /\ ~rs[id].cx /\ conf.req[id].meth = "GET"
  /\ rs' = [rs EXCEPT ![id].cx = TRUE]
  /\ obs' = <<[ev |-> "cancel", id |-> id]>>
  /\ UNCHANGED <<conf, now, hs, call, nf, ns>>

\* ctx.Err() at the top of the loop: next() returns before it waits for a slot
CtxExit ==
  /\ call.kind # "none" /\ call.ph = "next" /\ rs[call.id].cx
  /\ call.hosts # <<>> /\ rs[call.id].retry <= conf.R
  /\ rs' = [rs EXCEPT ![call.id].retry = @ + 1, ![call.id].st = "broken",
                       ![call.id].done = IF call.kind = "read" THEN TRUE ELSE @]
  /\ call' = NoCall
  /\ obs' = <<EvRet(call.id, call.kind, FALSE)>>
  /\ UNCHANGED <<conf, now, hs, nf, ns>>

\* the read reports ok for the do/seek that opened the body; a read call goes on consuming
\* ------------------------------------------------------------ Resp.Read
Consume ==
  /\ call.kind = "read" /\ call.ph = "consume"
  /\ LET id == call.id
         r  == rs[id]
         rc == r.rcur + r.avail
         h  == r.mirror
     IN IF ~r.short
        THEN \* io.EOF with everything read (HEAD: at once)
             /\ hs' = [hs EXCEPT ![h] = BackoffReset(@)]
             /\ rs' = [rs EXCEPT ![id] = [r EXCEPT !.rcur = rc, !.avail = 0, !.done = TRUE, !.st = "open"]]
             /\ call' = NoCall
             /\ obs' = <<EvRet(id, "read", TRUE)>>
        ELSE \* early end: backoffSet, then next() with a Range header
             LET set == BackoffSet(hs[h], now, r.hasra)
                 rel == FixLeak /\ ~set.lim /\ r.slot # "none"
                 hs1 == [hs EXCEPT ![h] = set.h]
             IN
             /\ hs' = IF rel THEN [hs1 EXCEPT ![r.slot].act = @ - 1] ELSE hs1
             /\ IF set.lim
                THEN /\ rs' = [rs EXCEPT ![id] = [r EXCEPT !.rcur = rc, !.avail = 0, !.short = FALSE,
                                                          !.done = TRUE, !.st = "broken"]]
                     /\ call' = NoCall
                     /\ obs' = <<EvCut(id, h), EvRet(id, "read", FALSE)>>
                ELSE /\ rs' = [rs EXCEPT ![id] = [r EXCEPT !.rcur = rc, !.avail = 0, !.short = FALSE,
                                                          !.slot = IF rel THEN "none" ELSE @]]
                     /\ \E s \in Sorted(HostSet(id), now) :
                          call' = [call EXCEPT !.ph = "next", !.hosts = s, !.ci = 1, !.err = FALSE]
                     /\ obs' = <<EvCut(id, h)>>
  /\ UNCHANGED <<conf, now, nf, ns>>

\* ----------------------------------------------------------- Resp.Close
Close(id) ==
  /\ call = NoCall /\ rs[id].st \in {"open", "broken", "failed"}
  /\ LET h1 == [hs EXCEPT ![rs[id].mirror] = IF rs[id].has /\ ~rs[id].done THEN BackoffReset(@) ELSE @]
     IN hs' = IF rs[id].slot = "none" THEN h1 ELSE [h1 EXCEPT ![rs[id].slot].act = @ - 1]
  /\ rs' = [rs EXCEPT ![id].st = "closed", ![id].done = TRUE, ![id].slot = "none"]
  /\ obs' = <<[ev |-> "note", what |-> "close", id |-> id]>>
  /\ UNCHANGED <<conf, now, call, nf, ns>>

\* ---------------------------------------------------------- environment
\* time passes until every window is over
PassRA ==
  /\ call = NoCall
  /\ \E h \in Hosts : hs[h].last > now
  /\ now' = 1 + CHOOSE t \in {hs[h].last : h \in Hosts} : \A h \in Hosts : hs[h].last <= t
  /\ obs' = <<[ev |-> "note", what |-> "pass"]>>
  /\ UNCHANGED <<conf, hs, rs, call, nf, ns>>

\* the client is not used for longer than any back-off delay in force (state left behind by earlier requests:
\* backoffCur stays > 0, the anchor backoffLast lies in the past)
Idle ==
  /\ call = NoCall
  /\ \E h \in Hosts : hs[h].cur > 0 /\ hs[h].last + conf.dmax >= now
  /\ now' = 1 + conf.dmax + CHOOSE t \in {hs[h].last : h \in {g \in Hosts : hs[g].cur > 0}} :
                                \A h \in {g \in Hosts : hs[g].cur > 0} : hs[h].last <= t
  /\ obs' = <<[ev |-> "note", what |-> "idle"]>>
  /\ UNCHANGED <<conf, hs, rs, call, nf, ns>>

Next == \/ Idle
        \/ \E id \in Ids : Do(id) \/ ReadAll(id) \/ Close(id) \/ Cancel(id) \/ \E off \in 0..N : Seek(id, off)
        \/ LoopExit \/ Attempt \/ BodyFail \/ CtxExit \/ Consume \/ PassRA

Spec == Init /\ [][Next]_vars /\ WF_vars(LoopExit \/ Attempt \/ BodyFail \/ CtxExit \/ Consume)

\* ------------------------------------------------- properties of (D) itself
TypeOK == /\ now \in Nat /\ nf \in 0..MaxFaults /\ ns \in 0..MaxSeeks
          /\ \A h \in Hosts : hs[h].cur \in Nat /\ hs[h].last \in Nat /\ hs[h].reset \in 0..5 /\ hs[h].act \in 0..Conc
          /\ \A i \in Ids : rs[i].rcur \in 0..N /\ rs[i].avail \in 0..N
\* O1 on the design: the attempt counter never passes the limit (+1), whatever was answered
RetryBound == \A i \in Ids : rs[i].retry <= conf.R + 1
\* O2: every call returns
CallsReturn == (call.kind # "none") ~> (call.kind = "none")
\* O2: Acquire never waits for a slot that only this caller could return
NoThrottleBlock == ~Blocked
\* O2: every exit of next() returned the slot of its attempt; only open responses hold one
SlotsAccounted == \A h \in Hosts : hs[h].act = Cardinality({i \in Ids : rs[i].slot = h})
Quiet == call = NoCall
=============================================================================

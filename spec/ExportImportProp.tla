------------------------- MODULE ExportImportProp -------------------------
(***************************************************************************)
(* (P) property monitor for C09: "export then import reproduces the image; *)
(* the archive is a valid OCI layout".                                      *)
(*                                                                          *)
(* Observation shaped: nothing in here knows how image.go works.  The       *)
(* vocabulary is what an outside observer has:                              *)
(*   S  the raw SOURCE store, walked with encoding/json + crypto/sha256/512 *)
(*      (objects digest -> sha256 of the bytes + the hash named by the      *)
(*      digest's algorithm, edges parent -> child with                      *)
(*      role config | layer | entry and position, the exported top digest,  *)
(*      the tag it is exported under, whether the top is a plain image);    *)
(*   T  the ARCHIVE written by ImageExport, parsed with archive/tar: entry  *)
(*      names, types, for every entry named blobs/<alg>/<hex> the hash of   *)
(*      its content computed with <alg>, the parsed oci-layout, index.json  *)
(*      and manifest.json;                                                  *)
(*   I  one IMPORT of a (re-packed) archive: result of ImageImport and the  *)
(*      raw TARGET store afterwards (objects, what the tag points to);      *)
(*   K  a Docker-save format archive built by the harness (config sha,      *)
(*      sha of every UNCOMPRESSED layer) and what the imported image holds. *)
(* Obligations (each returns "" or the name of the violated clause):        *)
(*   O1 archive well formed   O2 import reproduces   O3 Docker archive      *)
(* The operators are pure so that they serve (i) as invariants of the       *)
(* design spec (TarImportMC maps its state to S / I records) and (ii) as    *)
(* the oracle of real traces (TarImportTrace binds log lines to them).      *)
(* Deliberately NOT demanded: order of pushes, number of passes, which      *)
(* requests are made (those are (D) / drift); selection of names that the   *)
(* archive does not contain.                                                *)
(***************************************************************************)
EXTENDS Naturals, Sequences, FiniteSets, TLC

First(checks) == IF \E i \in 1..Len(checks) : checks[i][1]
                 THEN checks[CHOOSE i \in 1..Len(checks) : checks[i][1] /\ \A j \in 1..(i-1) : ~checks[j][1]][2]
                 ELSE ""

Range(s) == {s[i] : i \in 1..Len(s)}

(* ---- image graphs: closure of a digest under the edge relation -------- *)
RECURSIVE Reach(_, _)
Reach(E, X) == LET N == X \cup {e.c : e \in {x \in E : x.p \in X}}
               IN IF N = X THEN X ELSE Reach(E, N)
Closure(E, top) == Reach(E, {top})

\* digests of the objects of a store (set of [d, sha])
Digs(objs) == {o.d : o \in objs}
ShaOf(objs, d) == (CHOOSE o \in objs : o.d = d).sha
\* an object [d, sha, a, h] (name, sha256 of the bytes, algorithm of the name, hash of the bytes computed
\* with that algorithm) is sound when its name is that hash
Sound(o) == o.d = o.a \o ":" \o o.h

(* ---- O1: the archive is a well formed OCI layout ----------------------- *)
(* S = [objs, edges, top, tag, single]   T = [names, types, alg, hex, calc, sha,
   layoutN, layoutV, indexN, idigs, irefs, dockN, dcfg, dlayers, dtags, dforms]
   alg[i]/hex[i] = "" unless names[i] is blobs/<alg>/<hex>; calc[i] = <alg>-hash of the content;
   sha[i] = sha256 of the content of every regular file. *)
Files(T) == {i \in 1..Len(T.names) : T.types[i] = "file"}
BlobIdx(T) == {i \in Files(T) : T.hex[i] # ""}
EntryOf(T, name) == {i \in Files(T) : T.names[i] = name}
ArchiveDigs(T) == {T.alg[i] \o ":" \o T.hex[i] : i \in BlobIdx(T)}
Role(S, p, r) == {e \in S.edges : e.p = p /\ e.role = r}
LayerSeq(S, p) == LET L == Role(S, p, "layer")
                  IN [i \in 1..Cardinality(L) |-> (CHOOSE e \in L : e.i = i).c]

\* entry i holds the content named d
Holds(T, i, d) == d = "sha256:" \o T.sha[i] \/ (T.hex[i] # "" /\ d = T.alg[i] \o ":" \o T.calc[i])
DockerOK(S, T) ==
  /\ T.dockN = 1
  /\ \E c \in Role(S, S.top, "config") :
        \E i \in EntryOf(T, T.dcfg) : Holds(T, i, c.c)
  /\ Len(T.dlayers) = Cardinality(Role(S, S.top, "layer"))
  /\ \A k \in 1..Len(T.dlayers) :
        \E i \in EntryOf(T, T.dlayers[k]) : Holds(T, i, LayerSeq(S, S.top)[k])
\* every RepoTags entry is a plain name:tag (no digest: docker load refuses a canonical reference, and an
\* import by name does not find it) and names the tag the image is exported under (dforms[k]: syntactic class of
\* the entry, "nametag" | "digest" | "invalid"; dtags[k]: its tag part)
RepoTagsOK(S, T) ==
  /\ Len(T.dtags) >= 1
  /\ \A k \in 1..Len(T.dtags) : T.dforms[k] = "nametag"
  /\ S.tag # "" => \A k \in 1..Len(T.dtags) : T.dtags[k] = S.tag

O1(S, T) == First(<<
  <<T.layoutN # 1 \/ T.layoutV # "1.0.0", "O1-layout: oci-layout missing, duplicated or not version 1.0.0">>,
  <<T.indexN # 1, "O1-index: index.json missing or duplicated">>,
  <<~\E k \in 1..Len(T.idigs) : T.idigs[k] = S.top, "O1-index: index.json does not name the exported image">>,
  <<S.tag # "" /\ ~\E k \in 1..Len(T.idigs) : T.idigs[k] = S.top /\ T.irefs[k] = S.tag,
    "O1-tag: index.json does not carry the tag of the exported image">>,
  <<\E i \in BlobIdx(T) : T.calc[i] # T.hex[i], "O1-digest: an entry under a digest name has other content">>,
  <<\E i, j \in Files(T) : i # j /\ T.names[i] = T.names[j], "O1-once: an entry is written more than once">>,
  <<\E d \in Closure(S.edges, S.top) : d \notin ArchiveDigs(T), "O1-complete: content of the image is missing from the archive">>,
  <<S.single /\ ~DockerOK(S, T), "O1-docker: single image without a Docker-loadable manifest.json">>,
  <<S.single /\ ~RepoTagsOK(S, T), "O1-repotags: RepoTags of manifest.json is not a plain name:tag naming the exported tag">> >>)

(* ---- O2: the import reproduces the image ------------------------------- *)
(* I = [ok, objs, top, allow, must]: allow = the digests the import may bring over (the exported image; for an   *)
(* archive with several index.json entries: what the archive names with exactly the requested tag / name, or the *)
(* requested digest), must = the import has to succeed.  A failed import is acceptable only when must is FALSE.  *)
O2(S, I) ==
  IF ~I.ok THEN (IF I.must THEN "O2-failed: import of a well formed archive failed" ELSE "")
  ELSE First(<<
  <<I.top \notin I.allow, "O2-top: target does not name the top-level digest the archive names with the requested tag">>,
  <<\E d \in Closure(S.edges, I.top) : d \notin Digs(I.objs), "O2-missing: content of the image is missing at the target">>,
  <<\E d \in Closure(S.edges, I.top) : d \in Digs(I.objs) /\ d \in Digs(S.objs) /\ ShaOf(I.objs, d) # ShaOf(S.objs, d),
    "O2-content: target bytes differ from the source bytes">>,
  <<\E o \in I.objs : o.d \in Closure(S.edges, I.top) /\ ~Sound(o), "O2-content: target object does not hash to its name">> >>)

(* selection among several index.json entries.  q = [req, reqtag, ids, refs, reftags, names, nametags]: the      *)
(* requested tag or name (reqtag = its tag part when it is a full image name, else ""), and per entry its digest, *)
(* its org.opencontainers.image.ref.name, the tag part of that when it is a full image name (else ""), its        *)
(* io.containerd.image.name and the tag part of that.  An entry is named "with exactly the requested tag" when    *)
(* one of these strings IS the request (no suffix / prefix / substring / case folding); the import has to succeed *)
(* when the ref.name annotation itself is the request (the contract regclient documents), else it may fail.       *)
SelExact(q, k) == \/ q.refs[k] = q.req \/ q.names[k] = q.req
                  \/ (q.reftags[k] # "" /\ q.reftags[k] = q.req)
                  \/ (q.nametags[k] # "" /\ q.nametags[k] = q.req)
                  \/ (q.reqtag # "" /\ q.refs[k] = q.reqtag)
SelAllowed(q) == {q.ids[k] : k \in {j \in 1..Len(q.ids) : SelExact(q, j)}}
SelMust(q) == \E k \in 1..Len(q.ids) : q.refs[k] = q.req

(* ---- O3: Docker-save format archive ------------------------------------ *)
(* K = [cfg, layers]   J = [ok, found, cfg, layers]  (sha of config bytes, sha of each layer's
   uncompressed bytes; found = the tag resolves to a manifest whose config and layer blobs exist) *)
O3(K, J) == First(<<
  <<~J.ok, "O3-failed: import of a Docker format archive failed">>,
  <<~J.found, "O3-image: the tag does not resolve to an image whose blobs exist">>,
  <<J.cfg # K.cfg, "O3-config: config differs from the archive's">>,
  <<Len(J.layers) # Len(K.layers), "O3-layers: number of layers differs from the archive's">>,
  <<\E i \in 1..Len(K.layers) : i <= Len(J.layers) /\ J.layers[i] # K.layers[i],
    "O3-layers: an uncompressed layer differs from the archive's">> >>)

(* ---- the monitor: observed facts and the protocol of a log ------------- *)
(* A log is a sequence of blocks.  An export block: src, tar, export (O1).  *)
(* It is followed by import traces: imp_begin, imp_result, imp_target (O2). *)
(* A Docker block: dk_archive, then traces dk_begin, dk_result, dk_target   *)
(* (O3).  `st` enforces the order, so a dropped or duplicated event has no  *)
(* enabled step.                                                            *)
VARIABLES src, arc, dka, cur, st, bad
pvars == <<src, arc, dka, cur, st, bad>>

None == [none |-> TRUE]
PInit == /\ src = None /\ arc = None /\ dka = None /\ cur = None
         /\ st = "idle" /\ bad = ""

\* a new source store was scanned: forget everything that referred to the previous one
PSrc(S) == /\ st \in {"idle", "ready", "dkready"}
           /\ src' = S /\ arc' = None /\ cur' = None /\ dka' = None /\ st' = "src" /\ bad' = ""
PTar(T) == /\ st = "src"
           /\ arc' = T /\ st' = "tar" /\ bad' = ""
           /\ UNCHANGED <<src, dka, cur>>
\* ImageExport returned: O1 (skip = the line was neutralised after being reported)
PExport(ok, skip) == /\ st = "tar"
                     /\ st' = "ready"
                     /\ bad' = IF skip THEN "" ELSE IF ~ok THEN "O1-failed: export failed" ELSE O1(src, arc)
                     /\ UNCHANGED <<src, arc, dka, cur>>
PImpBegin(id, allow, must) == /\ st = "ready"
                       /\ cur' = [id |-> id, allow |-> allow, must |-> must, ok |-> FALSE]
                       /\ st' = "importing" /\ bad' = ""
                       /\ UNCHANGED <<src, arc, dka>>
PImpResult(id, ok) == /\ st = "importing" /\ cur.id = id
                      /\ cur' = [cur EXCEPT !.ok = ok]
                      /\ st' = "imported" /\ bad' = ""
                      /\ UNCHANGED <<src, arc, dka>>
PImpTarget(id, objs, top, skip) ==
  /\ st = "imported" /\ cur.id = id
  /\ st' = "ready" /\ cur' = None
  /\ bad' = IF skip THEN "" ELSE O2(src, [ok |-> cur.ok, objs |-> objs, top |-> top, allow |-> cur.allow, must |-> cur.must])
  /\ UNCHANGED <<src, arc, dka>>

PDkArchive(K) == /\ st \in {"idle", "ready", "dkready"}
                 /\ dka' = K /\ src' = None /\ arc' = None /\ cur' = None /\ st' = "dkready" /\ bad' = ""
PDkBegin(id) == /\ st = "dkready"
                /\ cur' = [id |-> id, allow |-> {}, must |-> TRUE, ok |-> FALSE]
                /\ st' = "dkimporting" /\ bad' = ""
                /\ UNCHANGED <<src, arc, dka>>
PDkResult(id, ok) == /\ st = "dkimporting" /\ cur.id = id
                     /\ cur' = [cur EXCEPT !.ok = ok]
                     /\ st' = "dkimported" /\ bad' = ""
                     /\ UNCHANGED <<src, arc, dka>>
PDkTarget(id, found, cfg, layers, skip) ==
  /\ st = "dkimported" /\ cur.id = id
  /\ st' = "dkready" /\ cur' = None
  /\ bad' = IF skip THEN "" ELSE O3(dka, [ok |-> cur.ok, found |-> found, cfg |-> cfg, layers |-> layers])
  /\ UNCHANGED <<src, arc, dka>>
\* a neutralised or informational line
PNote == bad' = "" /\ UNCHANGED <<src, arc, dka, cur, st>>

Ok == bad = ""
=============================================================================

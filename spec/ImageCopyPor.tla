---------------------------- MODULE ImageCopyPor ----------------------------
(* Cross-check of the partial-order reduction of ImageCopy (constant Reduce): *)
(* prints every reachable observable state (configuration, target store,      *)
(* manifests written, result and the final counters).  The runner explores    *)
(* the same configurations with and without the reduction and requires the    *)
(* two sets to be equal.                                                       *)
EXTENDS ImageCopyMC
Dump == PrintT(<<"ST", conf.shape, conf.pair, conf.init, conf.tag0, conf.mount, tb, tm, tt, written, ret,
                 IF ret = "ok" THEN <<getc, comc, nBlobReq, nManPut, nWrites>> ELSE <<>> >>)
=============================================================================

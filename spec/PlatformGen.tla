---------------------------- MODULE PlatformGen ----------------------------
(* Emits the spelled universe of Platform.tla with, for every member, its   *)
(* canonical form and class, so that the driver can instantiate it with the *)
(* real types/platform code.  One JSON line per platform.                   *)
EXTENDS Platform, Json, SequencesExt
VARIABLE done
U == SetToSeq(Universe)
Emit == \A i \in 1..Len(U) :
          PrintT(<<"SCN", ToJson([id |-> i, os |-> U[i].os, arch |-> U[i].ak, variant |-> U[i].variant,
                                  osver |-> U[i].osver, canon |-> CanonStr(Canon(U[i])),
                                  cvariant |-> Canon(U[i]).variant, cos |-> Canon(U[i]).os,
                                  carch |-> Canon(U[i]).arch])>>)
Init == done = FALSE
Next == done = FALSE /\ Emit /\ done' = TRUE
=============================================================================

SPECIFICATION GSpec
CONSTANTS
 FewerIsMismatch = FALSE
 NilCreatedSafe = FALSE
 NilPlatformSafe = FALSE
 Mut = ""
 Level = 2
 GenMode = "all"
INVARIANTS Emit
CHECK_DEADLOCK FALSE

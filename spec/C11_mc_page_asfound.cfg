SPECIFICATION Spec
VIEW View
INVARIANTS NoCrossConfigured
CHECK_DEADLOCK FALSE
CONSTANTS
 HonorsHost = FALSE
 SchemeBound = TRUE
 PgNoMirrors = FALSE
 FoldCase = TRUE
 StripOnRedirect = TRUE
 MaxFaults = 3
 Confs <- PageConfs
 ChalKinds <- AllChal
 FaultKinds <- AllFaults
 RedirTo <- Nothing
 TokReplies <- AllTok
 ForeignRealms <- TaRealm
 LocTo <- Nothing

CONSTANTS
 Confs <- MCConfs
 FixWaitErr = TRUE
 Reduce = TRUE
 MCShapes = {"sigloop"}
 MCPairs = {"tworeg", "reg2dir"}
 MCOpts <- MCOptsRefsDTags
 MCFeats <- MCFeatsDefault
 MCInit = "empty"
 MCTag0 = {"none"}
 MCByDigest = {FALSE}
 MCTgtByDigest = {FALSE}
 MaxFaults = 0
 AllowCancel = FALSE
 AllowCrash = FALSE
 Cap = 0
INIT Init
NEXT Next
INVARIANTS TypeOK InvC04

CONSTANTS
 Scenarios <- MutSet
 MaxCrash = 1
 Variant = "noremove"
INIT Init
NEXT Next
INVARIANTS StateOk EndOk RaceEndOk FreshOk RetryOk TypeOk
CHECK_DEADLOCK FALSE

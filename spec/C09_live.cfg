SPECIFICATION Spec
CONSTANTS
 DrainBug = TRUE
 LinkCode = TRUE
 DupPathBug = TRUE
 Ids <- LiveIds
PROPERTY Termination
CHECK_DEADLOCK TRUE

SPECIFICATION Spec
CONSTANTS
 DrainBug = FALSE
 LinkCode = FALSE
 DupPathBug = FALSE
 Ids <- LiveIds
PROPERTY Termination
CHECK_DEADLOCK TRUE

CONSTANTS
 ProcSeq <- P2
 Confs <- SensibleConfs
 Modes = {"tag"}
 Caches = {1}
 Pages = {0}
 TagDels = {0, 1}
 SubjSel = {"same"}
 Spells = {"dig"}
 Dopts = {"check"}
 Inits <- InitsMC0
 NAs <- NAsNone
 MaxOps = 3
 MaxConc = 2
 SameSubject = TRUE
 MixSameArt = TRUE
 LockPut = TRUE
 LockDel = FALSE
 LockDelEarly = FALSE
 ObsFilters = {"none", "t1"}
 ListConc = FALSE
 CowIndex = FALSE
 InvAfterDel = FALSE
 NormKey = TRUE
 TrustApplied = FALSE
 PlainIds = {}
 FeatFromPut = FALSE
 LockStyle = "global"
INIT MInit
NEXT MNext
VIEW MView
CHECK_DEADLOCK FALSE

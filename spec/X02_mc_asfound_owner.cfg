CONSTANTS
 Scenarios <- RootGroup
 MaxCrash = 1
 Variant = "asfound"
INIT Init
NEXT Next
INVARIANTS StateOk EndOk RaceEndOk FreshOk RetryOk TypeOk
CHECK_DEADLOCK FALSE

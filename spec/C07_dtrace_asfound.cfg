\* recorded call sequences of the real code must be behaviours of LayoutFS with MarkerMode = "rewrite" (as-found switch: explains the drift of a tree that rewrites oci-layout in place)
CONSTANTS
 Scenarios = {}
 MaxCrash = 0
 MarkerMode = "rewrite"
 MarkerWindow = TRUE
 MaxFault = 0
SPECIFICATION DSpec
CONSTRAINT HW
POSTCONDITION Reached
CHECK_DEADLOCK FALSE

---------------------------- MODULE TokenLifeTrace ----------------------------
(***************************************************************************)
(* X05 - trace spec: replays an ndjson log recorded by harness/cmd/x05drv  *)
(* from the real internal/reghttp + internal/auth through the monitor      *)
(* TokenLifeProp.  One event per line, every trace starts with a reset     *)
(* line {trace, seq, rl}.  Scope lists are arrays of [repository, action]. *)
(*   TSpec     stops at the first violated obligation (INVARIANT Ok)       *)
(*   TSpecAll  prints <<"REJ", trace, line, obligation>> and goes on       *)
(* It mirrors no code.                                                      *)
(***************************************************************************)
EXTENDS TokenLifeProp, Json, IOUtils
Log == ndJsonDeserialize(IOEnv.VERIF_TRACE)
VARIABLES l, tid
Ev == Log[l]
AsSet(x) == IF DOMAIN x = {} THEN {} ELSE {x[i] : i \in DOMAIN x}
RegEv == [c |-> Ev.c, h |-> Ev.h, repo |-> Ev.repo, meth |-> Ev.meth, akind |-> Ev.akind, aid |-> Ev.aid,
          tknown |-> Ev.tknown, tsvc |-> Ev.tsvc, tcov |-> Ev.tcov, tasked |-> Ev.tasked, auser |-> Ev.auser, status |-> Ev.status,
          chal |-> Ev.chal, crealm |-> Ev.crealm, cscope |-> AsSet(Ev.cscope)]
TokEv == [realm |-> Ev.realm, svc |-> Ev.svc, meth |-> Ev.meth, grant |-> Ev.grant, user |-> Ev.user,
          pw |-> Ev.pw, rt |-> Ev.rt, rtsvc |-> Ev.rtsvc, scopes |-> AsSet(Ev.scopes), reply |-> Ev.reply,
          status |-> Ev.status, good |-> Ev.good, tid |-> Ev.tid, rid |-> Ev.rid]
TInit == PInit /\ l = 1 /\ tid = ""
TNext ==
  /\ l <= Len(Log)
  /\ l' = l + 1
  /\ tid' = IF Ev.ev = "reset" THEN Ev.trace ELSE tid
  /\ \/ Ev.ev = "reset" /\ PReset(Ev.seq, Ev.rl)
     \/ Ev.ev = "host" /\ PHost(Ev.h, Ev.svc, Ev.user, Ev.cred, Ev.idt)
     \/ Ev.ev = "call" /\ PCall(Ev.c, Ev.h, Ev.repo, Ev.meth)
     \/ Ev.ev = "reg" /\ PReg(RegEv)
     \/ Ev.ev = "tok" /\ PTok(TokEv)
     \/ Ev.ev = "end" /\ PEnd(Ev.c, Ev.res)
     \/ Ev.ev = "note" /\ PNote
TSpec == TInit /\ [][TNext]_<<pvars, l, tid>>
TNextAll ==
  IF bad # ""
  THEN /\ PrintT(<<"REJ", tid, l - 1, bad>>)
       /\ bad' = ""
       /\ UNCHANGED <<ps, l, tid>>
  ELSE TNext
TSpecAll == TInit /\ [][TNextAll]_<<pvars, l, tid>>
HW == TLCSet(1, IF TLCGet(1) > l THEN TLCGet(1) ELSE l)
Accepted == PrintT(<<"HIGHWATER", TLCGet(1), Len(Log)>>)
ASSUME TLCSet(1, 0)
=============================================================================

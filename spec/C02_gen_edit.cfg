CONSTANTS
 MaxLen = 3
 Mode = "edit"
INIT Init
NEXT Next
INVARIANT Emit
CHECK_DEADLOCK FALSE

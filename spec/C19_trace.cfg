SPECIFICATION TSpec
CONSTRAINT HW
INVARIANT POk
POSTCONDITION Accepted
CHECK_DEADLOCK FALSE

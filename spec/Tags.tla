------------------------------- MODULE Tags -------------------------------
(***************************************************************************)
(* (D) design spec for C06: how regclient realises the tag map on its two  *)
(* back ends, shaped like the code, with the reference model TagsMap       *)
(* carried along as refinement witness (atags, amans).                     *)
(*                                                                         *)
(* REGISTRY back end (conf.backend = "reg").  Environment = the server     *)
(* side of the distribution API as the model registry simreg implements it *)
(* (rtags, rmans; DELETE by tag only if conf.tagdel; tags/list paged by    *)
(* conf.page with Link rel=next).  One action per HTTP request: Step(p)    *)
(* serves the request process p is parked at and runs the client up to its *)
(* next request or its return - exactly what the driver's gate can impose. *)
(* Start(p,o) runs the client code before the first request.               *)
(*   push/pushd  scheme/reg/manifest.go:ManifestPut   PUT, cacheMan.Set    *)
(*   tagdel      scheme/reg/tag.go:TagDelete          DELETE tag; on any   *)
(*               other answer than 202 the fall-back: HEAD tag (404 =>     *)
(*               error), [blob puts, not modelled], PUT placeholder to the *)
(*               tag, ManifestDelete(placeholder) = cacheMan.Delete, DELETE*)
(*   mdel/mdelr  scheme/reg/manifest.go:ManifestDelete  [CheckReferrers:   *)
(*               ManifestGet by digest], cacheMan.Delete, DELETE digest    *)
(*   head/get    ManifestHead/ManifestGet: by digest the manifest cache is *)
(*               consulted first; GET stores its result in the cache       *)
(*   list        scheme/reg/tag.go:TagList: GET tags/list, follow Link     *)
(*               rel=next until none                                       *)
(* LAYOUT back end (conf.backend = "layout").  State = index.json entries  *)
(* (ref.name: a tag, a full image name, or none), manifest files, marker   *)
(* file, the mutex o.mu.  One action per file-system access inside the     *)
(* critical sections of                                                    *)
(*   push/pushd  scheme/ocidir/manifest.go:manifestPut + ocidir.go:        *)
(*               updateIndex/indexSet/writeIndex  (PutFile, PutRead,       *)
(*               PutWrite)                                                 *)
(*   tagdel      scheme/ocidir/tag.go:tagDelete     (TdRead, TdWrite)      *)
(*   mdel/mdelr  scheme/ocidir/manifest.go:ManifestDelete (MdGet, MdRead,  *)
(*               MdWrite, MdFile)                                          *)
(*   head        ManifestHead: readIndex and os.Stat under the mutex       *)
(*               (HRead, HStat)                                            *)
(*   get         ManifestGet: one critical section (GRead, GFile)          *)
(*   list        ocidir/tag.go:TagList: one readIndex                      *)
(*   gc          scheme/ocidir/close.go:Close (RegClient.Close), one       *)
(*               critical section: skipped unless the layout was modified  *)
(*               through this client (mod = modRefs[..].mod, set by        *)
(*               refMod at the end of manifestPut / tagDelete /            *)
(*               ManifestDelete); mark = the digests the index lists       *)
(*               (GcRead: readIndex + closeProcManifest; the pool's        *)
(*               manifests have no children), sweep = every file under     *)
(*               blobs/ that is not marked is removed (GcSweep); the       *)
(*               reference model loses the manifests swept (TagsMap gc:    *)
(*               none a tag points at may go).  On a registry Close does   *)
(*               nothing (scheme reg has no Closer).                       *)
(* conf.init names the initial content (InitIdx; the same names and the    *)
(* same entries as the table `inits` of harness/cmd/c06drv), including     *)
(* indexes written by other tools.                                         *)
(* The spec describes the code as it is now, i.e. with the three repairs   *)
(* that came out of this check (findings/C06-1..4.md).  conf.old names the *)
(* repairs taken back, so that the earlier behaviour stays available as a  *)
(* switch (it explains the seeds seeded/fixrev-C06-*, and the cfgs         *)
(* C06_mc_old_*.cfg must keep producing their counterexamples):            *)
(*   "layout"  before bf19c36: tagDelete = forward range with slices.Delete*)
(*             (TDLoopOld: the entry after a removed one is skipped) and   *)
(*             tagDelete / indexSet match ref.name exactly; now every      *)
(*             entry naming the tag goes / is replaced, also one naming it *)
(*             through a full image name (refNameMatch)                    *)
(*   "cache"   before acae968: reg.ManifestDelete clears the cache entry   *)
(*             only before the DELETE; now once more after the 202         *)
(*   "head"    before 9cfa5d9: ocidir.ManifestHead stats the file outside  *)
(*             the mutex; now the mutex is held over index read and stat   *)
(*   "gc"      not a past state of the code but the neighbouring design    *)
(*             "Close holds o.mu for its bookkeeping and inside the        *)
(*             self-locking readers only" (seeded/C06-10): a push that     *)
(*             completes between mark and sweep loses its manifest file    *)
(*             (C06_mc_gc_unlocked.cfg must keep showing it)               *)
(*                                                                         *)
(* Deliberate deviations: blob uploads of the fall-back and reghttp        *)
(* retries are not modelled; placeholder digests are fresh values (the     *)
(* code derives them from time.Now(), assumed distinct per call); the      *)
(* cache never expires or evicts within a run; no referrers (the pool's    *)
(* manifests have no subject); blobs other than manifests are not modelled; *)
(* UseMutex =                                                               *)
(* FALSE removes o.mu and FreshPH = FALSE the uniqueness of placeholders,  *)
(* to show that both are load-bearing (expected counterexamples).          *)
(* conf.warm: the manifest cache already holds what the registry stores    *)
(* (the driver looked at every digest before the concurrent round).        *)
(*                                                                         *)
(* Checked (cfg C06_mc_*.cfg):                                             *)
(*   Glue          at every step the registry differs from the reference   *)
(*                 map only by a placeholder standing on a deleted tag     *)
(*   LayoutGlue    whenever the mutex is free the index projects onto the  *)
(*                 reference map, <= 1 entry per tag, files = manifests    *)
(*   NoViol        no operation returned what the reference model forbids  *)
(*                 (unjustified refusal, incomplete / phantom listing,     *)
(*                 stale answer)                                           *)
(*   Quiescent     when nothing is in flight no placeholder is left        *)
(*   CacheCoherent the manifest cache holds no deleted manifest            *)
(*   GetStable / HeadStable  a layout read never answers what the          *)
(*                 reference model did not hold at some moment of the call *)
(***************************************************************************)
EXTENDS TagsMap, Integers, TLC
CONSTANTS Procs,     \* client goroutines
          TagOrder,  \* the tags in the registry's listing order
          Confs,     \* set of configurations, one is picked in Init
          MaxOps,    \* operations per goroutine
          OpTags, OpMans, OpKinds,   \* alphabet of the operations issued
          UseMutex,  \* TRUE; FALSE removes o.mu (sanity: the lost update must show)
          FreshPH    \* TRUE: every fall-back delete makes its own placeholder; FALSE: one for all
                     \* (sanity: the uniqueness the code gets from time.Now() is load-bearing)

VARIABLES conf,
          rtags, rmans, nph,          \* registry: tag map, manifests, placeholders made so far
          index, files, marker, mu,   \* layout: entries, manifest files, oci-layout, mutex holder
          mod,                        \* layout: modified through this client since the last collection (modRefs)
          cache,                      \* client: digests in the manifest cache
          pc, cur, loc, nops,         \* per goroutine: parked at, operation, locals, ops started
          atags, amans, aamb,         \* reference model (refinement witness)
          viol                        \* first answer the reference model forbids
vars == <<conf, rtags, rmans, nph, index, files, marker, mu, mod, cache, pc, cur, loc, nops,
          atags, amans, aamb, viol>>

NoOp == [k |-> "", t |-> "", m |-> ""]
Op(k, t, m) == [k |-> k, t |-> t, m |-> m]
Alphabet ==
  {Op("push", t, m) : t \in OpTags, m \in OpMans} \cup {Op("tagdel", t, "") : t \in OpTags}
  \cup {Op(k, "", m) : k \in {"pushd", "mdel", "mdelr"}, m \in OpMans}
  \cup {Op(k, t, "") : k \in {"head", "get"}, t \in OpTags}
  \cup {Op(k, "", m) : k \in {"head", "get"}, m \in OpMans}
  \cup {Op("list", "", ""), Op("gc", "", "")}
Ops == {o \in Alphabet : o.k \in OpKinds}

IdleLoc == [acc |-> <<>>, last |-> "", ph |-> "", lidx |-> <<>>, d |-> "", must |-> {}, may |-> {},
            seen |-> {}]
PH(n) == "p" \o ToString(n)
IsPH(d) == d \notin Mans /\ d # NONE
Pos(t) == IF t = "" THEN 0 ELSE CHOOSE i \in 1..Len(TagOrder) : TagOrder[i] = t
RefOf(o) == IF o.t # "" THEN o.t ELSE o.m

----------------------------------------------------------------------------
(* index.json entries: k = "tag" (ref.name is the tag), "full" (ref.name is a full image name  *)
(* ending in :tag), "none" (no ref.name)                                                       *)
E(k, t, d) == [k |-> k, t |-> t, d |-> d]
InitIdx(name) ==
  CASE name = "pair" -> <<E("tag", "t1", "m1"), E("tag", "t2", "m1")>>
    [] name = "shared" -> <<E("tag", "t1", "m1"), E("tag", "t2", "m1"), E("tag", "t3", "m2")>>
    [] name = "dupadj" -> <<E("tag", "t1", "m1"), E("tag", "t1", "m2"), E("tag", "t2", "m2")>>
    [] name = "dupsame" -> <<E("tag", "t2", "m2"), E("tag", "t2", "m2"), E("tag", "t1", "m1")>>
    [] name = "dupsep" -> <<E("tag", "t1", "m1"), E("tag", "t2", "m2"), E("tag", "t1", "m2")>>
    [] name = "fullname" -> <<E("full", "t1", "m1"), E("tag", "t2", "m1")>>
    [] name = "untagged" -> <<E("none", "", "m1"), E("tag", "t1", "m1"), E("none", "", "m2")>>
    [] name = "mixed" -> <<E("full", "t1", "m1"), E("tag", "t1", "m2"), E("none", "", "m2")>>
    [] OTHER -> <<>>
InitFiles(name) == IF name \in {"empty", "nodir"} THEN {}
                   ELSE {InitIdx(name)[i].d : i \in 1..Len(InitIdx(name))}
Names(idx, t) == SelectSeq(idx, LAMBDA e : e.k \in {"tag", "full"} /\ e.t = t)
RemoveAt(s, i) == SubSeq(s, 1, i - 1) \o SubSeq(s, i + 1, Len(s))

\* ocidir.go:indexGet - exact ref.name first, then a full image name ending in :tag
IndexGet(idx, t) ==
  IF \E i \in 1..Len(idx) : idx[i].k = "tag" /\ idx[i].t = t
  THEN idx[CHOOSE i \in 1..Len(idx) : idx[i].k = "tag" /\ idx[i].t = t
                     /\ \A j \in 1..(i-1) : ~(idx[j].k = "tag" /\ idx[j].t = t)].d
  ELSE IF \E i \in 1..Len(idx) : idx[i].k = "full" /\ idx[i].t = t
       THEN idx[CHOOSE i \in 1..Len(idx) : idx[i].k = "full" /\ idx[i].t = t
                          /\ \A j \in 1..(i-1) : ~(idx[j].k = "full" /\ idx[j].t = t)].d
       ELSE NONE

\* ocidir/tag.go:TagList - every ref.name, reduced to what follows the last colon
IndexTags(idx) == {idx[i].t : i \in {j \in 1..Len(idx) : idx[j].k \in {"tag", "full"}}}

\* ocidir.go:indexSet - replace the first matching entry, prune later matches, else append
\* (exact: the matching before bf19c36, without refNameMatch)
SetMatch(e, t, d, exact) ==
  \/ e.k = "none" /\ e.d = d
  \/ t # "" /\ e.t = t /\ (e.k = "tag" \/ (~exact /\ e.k = "full"))
IndexSet(idx, t, d, exact) ==
  LET new == IF t = "" THEN E("none", "", d) ELSE E("tag", t, d)
      hits == {i \in 1..Len(idx) : SetMatch(idx[i], t, d, exact)} IN
  IF hits = {} THEN Append(idx, new)
  ELSE LET pos == CHOOSE i \in hits : \A j \in hits : i <= j
           keep == SelectSeq([i \in 1..Len(idx) |-> [e |-> idx[i], i |-> i]],
                             LAMBDA x : x.i <= pos \/ ~SetMatch(x.e, t, d, exact)) IN
       [i \in 1..Len(keep) |-> IF keep[i].i = pos THEN new ELSE keep[i].e]

\* ocidir/tag.go:tagDelete: slices.DeleteFunc over every entry that names the tag.  Before bf19c36
\* (old): `for i, desc := range index.Manifests` evaluates the slice
\* once (n0 iterations over the shared backing array) while slices.Delete shifts the tail left
\* and zeroes the vacated element: the element that follows a removed one is never looked at
RECURSIVE TDLoopOld(_, _, _, _)
TDLoopOld(s, i, n0, t) ==
  IF i > n0 THEN s
  ELSE IF i <= Len(s) /\ s[i].k = "tag" /\ s[i].t = t THEN TDLoopOld(RemoveAt(s, i), i + 1, n0, t)
       ELSE TDLoopOld(s, i + 1, n0, t)
TagDelIdx(idx, t, old) ==
  IF old THEN TDLoopOld(idx, 1, Len(idx), t)
  ELSE SelectSeq(idx, LAMBDA e : ~(e.k \in {"tag", "full"} /\ e.t = t))

----------------------------------------------------------------------------
(* observers in flight see every change: a paged listing accumulates the tag sets the server  *)
(* had during its interval, a layout read the answers the reference model gave                *)
SListed(rt) == {t \in Tags : rt[t] # NONE}
AnsSet(at, am, ab, ref) == IF ref \in Tags /\ ab[ref] # {} THEN ab[ref] \cup {NONE}
                           ELSE {MResolve(at, am, ref)}
Watch(q, rt, at, am, ab) ==
  IF pc[q] = "LIST" THEN [loc[q] EXCEPT !.must = @ \cap SListed(rt), !.may = @ \cup SListed(rt)]
  ELSE IF pc[q] \in {"HREAD", "HSTAT", "GREAD", "GFILE"} THEN [loc[q] EXCEPT !.seen = @ \cup AnsSet(at, am, ab, RefOf(cur[q]))]
  ELSE loc[q]
\* loc' when p's own locals become mine and everybody else watches the new state
Locs(p, mine, rt, at, am, ab) == [q \in Procs |-> IF q = p THEN mine ELSE Watch(q, rt, at, am, ab)]
Flag(b, name) == IF viol # "" THEN viol ELSE IF b THEN name ELSE ""

\* goroutine p returns: back to idle
Return(p) == /\ pc' = [pc EXCEPT ![p] = "idle"]
             /\ cur' = [cur EXCEPT ![p] = NoOp]
Park(p, at) == /\ pc' = [pc EXCEPT ![p] = at]
               /\ UNCHANGED cur
\* goroutine p takes up operation o and parks at its first request / file access
Go(p, o, at) == /\ pc' = [pc EXCEPT ![p] = at]
                /\ cur' = [cur EXCEPT ![p] = o]
\* the reference model takes the operation's effect
Lin(o) == /\ atags' = MTags(atags, o.k, o.t, o.m)
          /\ amans' = MMans(amans, o.k, o.m)
          /\ aamb' = IF o.k \in {"push", "tagdel"} THEN [aamb EXCEPT ![o.t] = {}] ELSE aamb
NoLin == UNCHANGED <<atags, amans, aamb>>
RegUnch == UNCHANGED <<rtags, rmans, nph>>
LayUnch == UNCHANGED <<index, files, marker, mu, mod>>
\* an error is justified only if the reference model has no target (or cannot know: ambiguous tag)
Unjust(o) == MPresent(atags, amans, o.k, o.t, o.m) /\ ~(o.k = "tagdel" /\ aamb[o.t] # {})

----------------------------------------------------------------------------
Init ==
  /\ conf \in Confs
  /\ rtags = [t \in Tags |-> IF conf.backend = "reg" THEN IndexGet(InitIdx(conf.init), t) ELSE NONE]
  /\ rmans = IF conf.backend = "reg" THEN InitFiles(conf.init) ELSE {}
  /\ nph = 0
  /\ index = IF conf.backend = "layout" THEN InitIdx(conf.init) ELSE <<>>
  /\ files = IF conf.backend = "layout" THEN InitFiles(conf.init) ELSE {}
  /\ marker = (conf.backend = "layout" /\ conf.init # "nodir")
  /\ mu = NONE
  /\ mod = (conf.backend = "layout" /\ conf.mod)
  \* conf.warm: the driver looked at every digest first, the cache holds what is stored
  /\ cache = IF conf.backend = "reg" /\ conf.cache /\ conf.warm THEN InitFiles(conf.init) ELSE {}
  /\ pc = [p \in Procs |-> "idle"]
  /\ cur = [p \in Procs |-> NoOp]
  /\ loc = [p \in Procs |-> IdleLoc]
  /\ nops = [p \in Procs |-> 0]
  /\ aamb = [t \in Tags |-> IF Len(Names(InitIdx(conf.init), t)) > 1
                            THEN {Names(InitIdx(conf.init), t)[i].d : i \in 1..Len(Names(InitIdx(conf.init), t))}
                            ELSE {}]
  /\ atags = [t \in Tags |-> IF Len(Names(InitIdx(conf.init), t)) = 1 THEN Names(InitIdx(conf.init), t)[1].d ELSE NONE]
  /\ amans = InitFiles(conf.init)
  /\ viol = ""

----------------------------------------------------------------------------
(* REGISTRY *)

\* client code before the first request of operation o
RegStart(p, o) ==
  /\ conf.backend = "reg"
  /\ LayUnch /\ RegUnch /\ NoLin
  /\ CASE o.k \in {"push", "pushd"} ->
            /\ Go(p, o, "PUT") /\ UNCHANGED <<cache, loc, viol>>
       [] o.k = "tagdel" ->
            /\ Go(p, o, "DELTAG") /\ UNCHANGED <<cache, loc, viol>>
       [] o.k = "mdel" ->
            \* cacheMan.Delete, then the DELETE request
            /\ Go(p, o, "DEL") /\ cache' = cache \ {o.m} /\ UNCHANGED <<loc, viol>>
       [] o.k = "mdelr" ->
            \* CheckReferrers: ManifestGet by digest - a cache hit needs no request
            IF conf.cache /\ o.m \in cache
            THEN /\ Go(p, o, "DEL") /\ cache' = cache \ {o.m} /\ UNCHANGED <<loc, viol>>
            ELSE /\ Go(p, o, "RGET") /\ UNCHANGED <<cache, loc, viol>>
       [] o.k \in {"head", "get"} ->
            IF o.m # "" /\ conf.cache /\ o.m \in cache
            THEN \* answered from the manifest cache without a request
                 \* (a stale answer here needs a stale cache: invariant CacheCoherent)
                 /\ UNCHANGED <<pc, cur, cache, loc, viol>>
            ELSE /\ Go(p, o, IF o.k = "head" THEN "HEAD" ELSE "GET") /\ UNCHANGED <<cache, loc, viol>>
       [] o.k = "gc" ->
            \* RegClient.Close: scheme reg is no Closer, nothing happens
            /\ UNCHANGED <<pc, cur, cache, loc, viol>>
       [] o.k = "list" ->
            /\ Go(p, o, "LIST")
            /\ loc' = [loc EXCEPT ![p] = [IdleLoc EXCEPT !.must = SListed(rtags), !.may = SListed(rtags)]]
            /\ UNCHANGED <<cache, viol>>

\* server: DELETE /manifests/<digest> removes the manifest and every tag pointing at it
SrvDelMan(d) == /\ rmans' = rmans \ {d}
                /\ rtags' = [t \in Tags |-> IF rtags[t] = d THEN NONE ELSE rtags[t]]
\* server: one page of tags/list after `last`
Page(last) ==
  LET rest == SelectSeq(TagOrder, LAMBDA t : rtags[t] # NONE /\ Pos(t) > Pos(last)) IN
  IF conf.page = 0 \/ Len(rest) <= conf.page THEN [tags |-> rest, more |-> FALSE]
  ELSE [tags |-> SubSeq(rest, 1, conf.page), more |-> TRUE]

RegStep(p) ==
  /\ conf.backend = "reg"
  /\ LayUnch
  /\ LET o == cur[p] IN
     CASE pc[p] = "PUT" ->
            LET d == o.m
                rt == IF o.t # "" THEN [rtags EXCEPT ![o.t] = d] ELSE rtags IN
            /\ rtags' = rt /\ rmans' = rmans \cup {d} /\ UNCHANGED nph
            /\ cache' = IF conf.cache THEN cache \cup {d} ELSE cache
            /\ Lin(o) /\ Return(p)
            /\ loc' = Locs(p, IdleLoc, rt, atags', amans', aamb')
            /\ UNCHANGED viol
       [] pc[p] = "DELTAG" ->
            IF conf.tagdel /\ rtags[o.t] # NONE
            THEN LET rt == [rtags EXCEPT ![o.t] = NONE] IN
                 /\ rtags' = rt /\ UNCHANGED <<rmans, nph, cache, viol>>
                 /\ Lin(o) /\ Return(p)
                 /\ loc' = Locs(p, IdleLoc, rt, atags', amans', aamb')
            ELSE \* 404 or 405: fall back
                 /\ Park(p, "FBHEAD") /\ RegUnch /\ NoLin /\ UNCHANGED <<cache, loc, viol>>
       [] pc[p] = "FBHEAD" ->
            IF rtags[o.t] = NONE
            THEN \* nothing to delete: TagDelete returns the error
                 /\ Return(p) /\ RegUnch /\ NoLin /\ UNCHANGED <<cache, loc>>
                 /\ viol' = Flag(Unjust(o), "refused-tagdel")
            ELSE /\ Park(p, "FBPUT") /\ RegUnch /\ NoLin /\ UNCHANGED <<cache, loc, viol>>
       [] pc[p] = "FBPUT" ->
            \* the placeholder overwrites the tag: from here on the old content is unreachable
            LET ph == IF FreshPH THEN PH(nph + 1) ELSE PH(0)
                rt == [rtags EXCEPT ![o.t] = ph] IN
            /\ rtags' = rt /\ rmans' = rmans \cup {ph} /\ nph' = nph + 1
            /\ UNCHANGED <<cache, viol>>   \* cacheMan.Set(ph) by ManifestPut, cacheMan.Delete(ph) by ManifestDelete
            /\ Lin(o) /\ Park(p, "FBDEL")
            /\ loc' = Locs(p, [loc[p] EXCEPT !.ph = ph], rt, atags', amans', aamb')
       [] pc[p] = "FBDEL" ->
            LET ph == loc[p].ph IN
            IF ph \in rmans
            THEN /\ SrvDelMan(ph) /\ UNCHANGED <<nph, viol>> /\ NoLin /\ Return(p)
                 \* a get of the tag served in the window has cached the placeholder (harmless: nobody
                 \* asks for that digest); the repaired ManifestDelete drops it
                 /\ cache' = IF "cache" \in conf.old THEN cache ELSE cache \ {ph}
                 /\ loc' = Locs(p, IdleLoc, rtags', atags, amans, aamb)
            ELSE /\ RegUnch /\ NoLin /\ Return(p) /\ UNCHANGED cache
                 /\ loc' = [loc EXCEPT ![p] = IdleLoc]
                 /\ viol' = Flag(TRUE, "placeholder-vanished")
       [] pc[p] = "RGET" ->
            IF o.m \in rmans
            THEN \* ManifestGet stores the manifest, ManifestDelete then drops it again
                 /\ Park(p, "DEL") /\ RegUnch /\ NoLin /\ UNCHANGED <<loc, viol>>
                 /\ cache' = cache \ {o.m}
            ELSE /\ Return(p) /\ RegUnch /\ NoLin /\ UNCHANGED <<cache, loc>>
                 /\ viol' = Flag(Unjust(o), "refused-mdelr")
       [] pc[p] = "DEL" ->
            IF o.m \in rmans
            THEN /\ SrvDelMan(o.m) /\ UNCHANGED <<nph, viol>>
                 \* cacheMan.Delete once more after the 202 (acae968)
                 /\ cache' = IF "cache" \in conf.old THEN cache ELSE cache \ {o.m}
                 /\ Lin(o) /\ Return(p)
                 /\ loc' = Locs(p, IdleLoc, rtags', atags', amans', aamb')
            ELSE /\ Return(p) /\ RegUnch /\ NoLin /\ UNCHANGED <<cache, loc>>
                 /\ viol' = Flag(Unjust(o), "refused-" \o o.k)
       [] pc[p] \in {"HEAD", "GET"} ->
            LET d == IF o.t # "" THEN rtags[o.t] ELSE IF o.m \in rmans THEN o.m ELSE NONE IN
            /\ RegUnch /\ NoLin /\ Return(p) /\ UNCHANGED loc
            /\ cache' = IF pc[p] = "GET" /\ conf.cache /\ d # NONE THEN cache \cup {d} ELSE cache
            \* the answer is the server's; it may be the placeholder of a delete in flight
            /\ viol' = Flag(~IsPH(d) /\ d # MResolve(atags, amans, RefOf(o)), "read-differs")
       [] pc[p] = "LIST" ->
            LET pg == Page(loc[p].last)
                acc == loc[p].acc \o pg.tags IN
            /\ RegUnch /\ NoLin /\ UNCHANGED cache
            /\ IF pg.more
               THEN /\ Park(p, "LIST") /\ UNCHANGED viol
                    /\ loc' = [loc EXCEPT ![p] = [@ EXCEPT !.acc = acc, !.last = pg.tags[Len(pg.tags)]]]
               ELSE /\ Return(p)
                    /\ loc' = [loc EXCEPT ![p] = IdleLoc]
                    /\ viol' = IF ~(loc[p].must \subseteq ToSet(acc)) THEN Flag(TRUE, "list-incomplete")
                              ELSE Flag(~(ToSet(acc) \subseteq loc[p].may) \/ Len(acc) # Cardinality(ToSet(acc)),
                                        "list-phantom")
       [] OTHER -> FALSE

----------------------------------------------------------------------------
(* LAYOUT *)

Free(p) == ~UseMutex \/ mu = NONE \/ mu = p
Lock(p) == mu' = IF UseMutex THEN p ELSE mu
Unlock == mu' = IF UseMutex THEN NONE ELSE mu
\* readIndex: valid() needs the marker file
ReadOK == marker

LayStart(p, o) ==
  /\ conf.backend = "layout"
  /\ RegUnch /\ NoLin /\ UNCHANGED <<cache, viol, index, files, marker, mu, mod>>
  /\ cur' = [cur EXCEPT ![p] = o]
  /\ pc' = [pc EXCEPT ![p] = CASE o.k \in {"push", "pushd"} -> "PUTFILE"
                                [] o.k = "tagdel" -> "TDREAD"
                                [] o.k \in {"mdel", "mdelr"} -> "MDGET"
                                [] o.k = "head" -> "HREAD"
                                [] o.k = "get" -> "GREAD"
                                [] o.k = "gc" -> "GCREAD"
                                [] OTHER -> "LLIST"]
  /\ loc' = [loc EXCEPT ![p] = [IdleLoc EXCEPT !.seen = AnsSet(atags, amans, aamb, RefOf(o))]]

LayStep(p) ==
  /\ conf.backend = "layout"
  /\ RegUnch /\ UNCHANGED cache
  \* refMod at the successful end of manifestPut, tagDelete, ManifestDelete; Close clears the entry
  /\ mod' = CASE pc[p] = "PUTWRITE" -> TRUE
             [] pc[p] = "TDWRITE" /\ Len(TagDelIdx(loc[p].lidx, cur[p].t, "layout" \in conf.old)) # Len(loc[p].lidx) -> TRUE
             [] pc[p] = "MDFILE" /\ cur[p].m \in files -> TRUE
             [] pc[p] = "GCSWEEP" -> FALSE
             [] OTHER -> mod
  /\ LET o == cur[p] IN
     CASE pc[p] = "PUTFILE" ->
            \* lock, initIndex (creates the marker when missing), manifest file written (tmp + rename)
            /\ Free(p) /\ Lock(p)
            /\ files' = files \cup {o.m} /\ marker' = TRUE /\ UNCHANGED index
            \* the manifest is on disk from now on, the tag follows at PUTWRITE; no index read can
            \* fall in between (the mutex is held), only the os.Stat of a ManifestHead of the time
            \* before 9cfa5d9 ("head" \in conf.old) can see the file early
            /\ amans' = amans \cup {o.m} /\ UNCHANGED <<atags, aamb>>
            /\ Park(p, "PUTREAD") /\ UNCHANGED viol
            /\ loc' = Locs(p, loc[p], rtags, atags, amans', aamb)
       [] pc[p] = "PUTREAD" ->
            \* updateIndex: readIndex, an unreadable index is replaced by an empty one
            /\ Free(p) /\ Park(p, "PUTWRITE") /\ NoLin /\ UNCHANGED <<index, files, marker, mu, viol>>
            /\ loc' = [loc EXCEPT ![p] = [@ EXCEPT !.lidx = IF ReadOK THEN index ELSE <<>>]]
       [] pc[p] = "PUTWRITE" ->
            /\ Free(p) /\ Unlock
            /\ index' = IndexSet(loc[p].lidx, o.t, o.m, "layout" \in conf.old) /\ marker' = TRUE /\ UNCHANGED files
            /\ Lin(o) /\ Return(p) /\ UNCHANGED viol
            /\ loc' = Locs(p, IdleLoc, rtags, atags', amans', aamb')
       [] pc[p] = "TDREAD" ->
            /\ Free(p)
            /\ IF ReadOK
               THEN /\ Lock(p) /\ Park(p, "TDWRITE") /\ NoLin /\ UNCHANGED <<index, files, marker, viol>>
                    /\ loc' = [loc EXCEPT ![p] = [@ EXCEPT !.lidx = index]]
               ELSE /\ Return(p) /\ NoLin /\ UNCHANGED <<index, files, marker, mu>>
                    /\ loc' = [loc EXCEPT ![p] = IdleLoc]
                    /\ viol' = Flag(Unjust(o), "refused-tagdel")
       [] pc[p] = "TDWRITE" ->
            LET nidx == TagDelIdx(loc[p].lidx, o.t, "layout" \in conf.old) IN
            /\ Free(p) /\ Unlock /\ Return(p) /\ UNCHANGED files
            /\ IF Len(nidx) = Len(loc[p].lidx)
               THEN \* no entry matched: not found
                    /\ NoLin /\ UNCHANGED <<index, marker>>
                    /\ loc' = [loc EXCEPT ![p] = IdleLoc]
                    /\ viol' = Flag(Unjust(o), "refused-tagdel")
               ELSE /\ index' = nidx /\ marker' = TRUE /\ Lin(o) /\ UNCHANGED viol
                    /\ loc' = Locs(p, IdleLoc, rtags, atags', amans', aamb')
       [] pc[p] = "MDGET" ->
            \* manifestGet inside the critical section: the file must be there
            /\ Free(p)
            /\ IF ReadOK /\ o.m \in files
               THEN /\ Lock(p) /\ Park(p, "MDREAD") /\ NoLin /\ UNCHANGED <<index, files, marker, loc, viol>>
               ELSE /\ Return(p) /\ NoLin /\ UNCHANGED <<index, files, marker, mu>>
                    /\ loc' = [loc EXCEPT ![p] = IdleLoc]
                    /\ viol' = Flag(Unjust(o), "refused-" \o o.k)
       [] pc[p] = "MDREAD" ->
            /\ Free(p) /\ Park(p, "MDWRITE") /\ NoLin /\ UNCHANGED <<index, files, marker, mu, viol>>
            /\ loc' = [loc EXCEPT ![p] = [@ EXCEPT !.lidx = index]]
       [] pc[p] = "MDWRITE" ->
            \* every entry with that digest goes (backward loop), index written when changed
            LET nidx == SelectSeq(loc[p].lidx, LAMBDA e : e.d # o.m) IN
            /\ Free(p) /\ Park(p, "MDFILE") /\ NoLin /\ UNCHANGED <<files, mu, loc, viol>>
            /\ index' = IF Len(nidx) # Len(loc[p].lidx) THEN nidx ELSE index
            /\ marker' = IF Len(nidx) # Len(loc[p].lidx) THEN TRUE ELSE marker
       [] pc[p] = "MDFILE" ->
            /\ Free(p) /\ Unlock /\ Return(p) /\ UNCHANGED <<index, marker>>
            /\ IF o.m \in files
               THEN /\ files' = files \ {o.m} /\ Lin(o) /\ UNCHANGED viol
                    /\ loc' = Locs(p, IdleLoc, rtags, atags', amans', aamb')
               ELSE /\ UNCHANGED files /\ NoLin
                    /\ loc' = [loc EXCEPT ![p] = IdleLoc]
                    /\ viol' = Flag(Unjust(o), "refused-" \o o.k)
       [] pc[p] = "HREAD" ->
            \* the mutex is taken for index read and stat (before 9cfa5d9: for the read only)
            LET d == IF ~ReadOK THEN NONE
                     ELSE IF o.t # "" THEN IndexGet(index, o.t) ELSE o.m IN
            /\ UseMutex => mu = NONE
            /\ NoLin /\ UNCHANGED <<index, files, marker>>
            /\ IF d = NONE
               THEN /\ Return(p) /\ loc' = [loc EXCEPT ![p] = IdleLoc] /\ UNCHANGED mu
                    /\ viol' = Flag(NONE \notin loc[p].seen, "read-differs")
               ELSE /\ Park(p, "HSTAT") /\ UNCHANGED viol
                    \* the mutex is kept until the file has been checked (9cfa5d9)
                    /\ IF "head" \in conf.old THEN UNCHANGED mu ELSE Lock(p)
                    /\ loc' = [loc EXCEPT ![p] = [@ EXCEPT !.d = d]]
       [] pc[p] = "HSTAT" ->
            \* os.Stat (before 9cfa5d9 outside the mutex)
            LET d == IF loc[p].d \in files THEN loc[p].d ELSE NONE IN
            /\ NoLin /\ UNCHANGED <<index, files, marker, viol>> /\ Return(p)
            /\ IF "head" \in conf.old THEN UNCHANGED mu ELSE Unlock
            /\ loc' = [loc EXCEPT ![p] = IdleLoc]   \* the answer d is judged by invariant HeadStable
       [] pc[p] = "GREAD" ->
            LET d == IF ~ReadOK THEN NONE
                     ELSE IF o.t # "" THEN IndexGet(index, o.t) ELSE o.m IN
            /\ Free(p) /\ NoLin /\ UNCHANGED <<index, files, marker>>
            /\ IF d = NONE
               THEN /\ UNCHANGED mu /\ Return(p) /\ loc' = [loc EXCEPT ![p] = IdleLoc]
                    /\ viol' = Flag(NONE \notin loc[p].seen, "read-differs")
               ELSE /\ Lock(p) /\ Park(p, "GFILE") /\ UNCHANGED viol
                    /\ loc' = [loc EXCEPT ![p] = [@ EXCEPT !.d = d]]
       [] pc[p] = "GFILE" ->
            LET d == IF loc[p].d \in files THEN loc[p].d ELSE NONE IN
            /\ Free(p) /\ Unlock /\ NoLin /\ UNCHANGED <<index, files, marker, viol>> /\ Return(p)
            /\ loc' = [loc EXCEPT ![p] = IdleLoc]   \* the answer d is judged by invariant GetStable
       [] pc[p] = "LLIST" ->
            LET got == IF ReadOK THEN IndexTags(index) ELSE {}
                amb == {t \in Tags : aamb[t] # {}} IN
            /\ UseMutex => mu = NONE
            /\ NoLin /\ UNCHANGED <<index, files, marker, mu>> /\ Return(p)
            /\ loc' = [loc EXCEPT ![p] = IdleLoc]
            /\ viol' = Flag(got \ amb # MListed(atags) \ amb, "list-differs")
       [] pc[p] = "GCREAD" ->
            \* Close: lock, skip unless modified, readIndex + closeProcManifest = the digests the index lists
            \* ("gc" \in conf.old: the lock is held inside readIndex only)
            /\ Free(p) /\ NoLin /\ UNCHANGED <<index, files, marker, viol>>
            /\ IF mod /\ ReadOK
               THEN /\ (IF "gc" \in conf.old THEN UNCHANGED mu ELSE Lock(p)) /\ Park(p, "GCSWEEP")
                    /\ loc' = [loc EXCEPT ![p] = [@ EXCEPT !.lidx = index]]
               ELSE /\ UNCHANGED mu /\ Return(p) /\ loc' = [loc EXCEPT ![p] = IdleLoc]
       [] pc[p] = "GCSWEEP" ->
            \* os.ReadDir(blobs/<alg>) + os.Remove of every file not marked; modRefs entry deleted
            LET keep == {loc[p].lidx[i].d : i \in 1..Len(loc[p].lidx)}
                nf == files \cap keep IN
            /\ ("gc" \in conf.old \/ Free(p))
            /\ (IF "gc" \in conf.old THEN UNCHANGED mu ELSE Unlock)
            /\ files' = nf /\ UNCHANGED <<index, marker>>
            /\ amans' = amans \cap nf /\ UNCHANGED <<atags, aamb>>
            /\ Return(p)
            /\ viol' = Flag(~MGcOK(atags, amans, amans \cap nf), "gc-lost-tagged")
            /\ loc' = Locs(p, IdleLoc, rtags, atags, amans', aamb)
       [] OTHER -> FALSE

----------------------------------------------------------------------------
Start(p, o) == /\ pc[p] = "idle" /\ nops[p] < MaxOps
               /\ nops' = [nops EXCEPT ![p] = @ + 1]
               /\ UNCHANGED conf
               /\ (RegStart(p, o) \/ LayStart(p, o))
Step(p) == /\ pc[p] # "idle"
           /\ UNCHANGED <<conf, nops>>
           /\ (RegStep(p) \/ LayStep(p))
Next == \E p \in Procs : Step(p) \/ \E o \in Ops : Start(p, o)
Spec == Init /\ [][Next]_vars

----------------------------------------------------------------------------
(* properties *)

AllIdle == \A p \in Procs : pc[p] = "idle"
Done == AllIdle /\ \A p \in Procs : nops[p] = MaxOps
NoViol == viol = ""
\* the registry differs from the reference map only by a placeholder standing on a deleted tag
Glue == conf.backend = "reg" =>
          /\ \A t \in Tags : \/ rtags[t] = atags[t]
                             \/ IsPH(rtags[t]) /\ atags[t] = NONE
          /\ rmans \cap Mans = amans
          /\ \A t \in Tags : rtags[t] = NONE \/ rtags[t] \in rmans
Quiescent == (conf.backend = "reg" /\ AllIdle) =>
               /\ \A t \in Tags : ~IsPH(rtags[t])
               /\ rmans \subseteq Mans
CacheCoherent == cache \subseteq rmans
\* whenever no critical section is open the index projects onto the reference map
LayoutGlue == (conf.backend = "layout" /\ (\A p \in Procs : pc[p] \notin
                 {"PUTREAD", "PUTWRITE", "TDWRITE", "MDREAD", "MDWRITE", "MDFILE", "GCSWEEP"})) =>
                /\ \A t \in Tags : aamb[t] = {} =>
                     /\ Len(Names(index, t)) <= 1
                     /\ atags[t] = NONE <=> Len(Names(index, t)) = 0
                     /\ atags[t] # NONE => Names(index, t)[1].d = atags[t] /\ IndexGet(index, t) = atags[t]
                /\ files = amans
\* the answer a layout read is about to give (file there: the digest it resolved, else not found)
\* is one the reference model gave at some moment since the read was called
Pending(p) == IF loc[p].d \in files THEN loc[p].d ELSE NONE
GetStable == \A p \in Procs : pc[p] = "GFILE" => Pending(p) \in loc[p].seen
\* With "head" \in conf.old (ManifestHead stats the file outside the mutex) three goroutines
\* (head t ; push t m2 ; mdel m1, t -> m1 before) make it report "not found" for a tag that was
\* present throughout: counterexample of C06_mc_old_head.cfg, seen on the real code of that time
\* about once in 4000 ungated rounds (finding C06-4).  The repaired code satisfies it.
HeadStable == \A p \in Procs : pc[p] = "HSTAT" => Pending(p) \in loc[p].seen
WellFormed == MWellFormed(atags, amans)
=============================================================================

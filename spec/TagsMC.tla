------------------------------ MODULE TagsMC ------------------------------
(* Model-checking instances of Tags (C06): the configuration spaces.       *)
(* A configuration = back end x (registry: tag-delete API, page size,      *)
(* manifest cache) x initial content (x layout code variant).              *)
EXTENDS Tags
MCTagOrder == <<"t1", "t2">>
MCTagOrder3 == <<"t1", "t2", "t3">>
C(b, td, pg, c, i, f) == [backend |-> b, tagdel |-> td, page |-> pg, cache |-> c, init |-> i, fixed |-> f, warm |-> FALSE]
Warm(S) == S \cup {[c EXCEPT !.warm = TRUE] : c \in {x \in S : x.cache}}
RegConfs == Warm({C("reg", td, pg, c, i, FALSE) : td \in BOOLEAN, pg \in {0, 1, 2}, c \in BOOLEAN, i \in {"empty", "pair"}})
RegNoCache == {c \in RegConfs : ~c.cache}
RegCache == {c \in RegConfs : c.cache}
\* smaller spaces for the 3-goroutine runs: paging matters with concurrency, the start content less
RegFallbackPair == {c \in RegNoCache : c.init = "pair" /\ ~c.tagdel /\ c.page = 0}
RegNoCacheShared == {c \in RegNoCache : c.init = "pair"}
RegCacheShared == {c \in RegCache : c.init = "pair" /\ c.page = 0}
LayClean == {C("layout", TRUE, 0, FALSE, i, FALSE) : i \in {"nodir", "empty", "pair", "untagged"}}
LayShared == {C("layout", TRUE, 0, FALSE, "pair", FALSE)}
\* layouts written by other tools: HEAD code (expected to violate: S5) and the repaired code
LayForeign == {C("layout", TRUE, 0, FALSE, i, FALSE) : i \in {"dupadj", "dupsep", "dupsame", "fullname", "mixed"}}
LayDupAdj == {C("layout", TRUE, 0, FALSE, "dupadj", FALSE)}
LayFullName == {C("layout", TRUE, 0, FALSE, i, FALSE) : i \in {"fullname", "mixed"}}
Fix(S) == {[c EXCEPT !.fixed = TRUE] : c \in S}
LayForeignFixed == {C("layout", TRUE, 0, FALSE, i, TRUE) : i \in {"dupadj", "dupsep", "dupsame", "fullname", "mixed", "untagged", "pair", "nodir"}}
\* the repaired code under concurrency: cache coherence and stable heads must hold
FixedConc == Fix(RegCache) \cup Fix(LayClean)
SeqConfs == RegConfs \cup LayClean
Conc2Confs == RegConfs \cup LayClean
\* schedule generation: 3 tags in the registry so that paging has something to page
RegConfs3 == Warm({C("reg", td, pg, c, i, FALSE) : td \in BOOLEAN, pg \in {0, 1, 2}, c \in BOOLEAN, i \in {"pair", "shared"}})
LayConfs3 == {C("layout", TRUE, 0, FALSE, i, FALSE) : i \in {"pair", "shared", "untagged", "nodir"}}
SchedConfs == RegConfs3 \cup LayConfs3
\* exhaustive schedule enumeration (thorough): every interleaving of 2 goroutines x 1 operation on the
\* registry variants where interleavings matter most (fall-back delete, paged listing, cache cold / warm)
\* sequential behaviours of (D) whose back-end state is compared with the real one after every
\* operation: every layout start content (HEAD code variant) and the registry without cache
Seq1Confs == {C("layout", TRUE, 0, FALSE, i, FALSE) : i \in {"nodir", "empty", "pair", "shared", "untagged", "dupadj",
                                                            "dupsep", "dupsame", "fullname", "mixed"}}
             \cup {C("reg", td, 0, FALSE, i, FALSE) : td \in BOOLEAN, i \in {"empty", "shared"}}
\* ... and the repaired layout code on the start contents where the two variants differ: the runner reports
\* which variant of (D) the code under test matches
Seq1Both == Seq1Confs \cup {C("layout", TRUE, 0, FALSE, i, TRUE) : i \in {"dupadj", "dupsep", "dupsame", "fullname", "mixed"}}
SchedAllConfs == {c \in RegConfs3 : c.init = "shared" /\ c.page = 1 /\ (c.cache => c.warm)}
SeqConfs3 == RegConfs3 \cup LayConfs3 \cup {C("reg", td, pg, c, "empty", FALSE) : td \in BOOLEAN, pg \in {0, 1, 2}, c \in BOOLEAN}
AllKinds == {"push", "pushd", "tagdel", "mdel", "mdelr", "head", "get", "list"}
MutOnly == {"push", "pushd", "tagdel", "mdel", "mdelr"}
HeadRaceKinds == {"push", "mdel", "head"}
=============================================================================

------------------------------ MODULE TagsMC ------------------------------
(* Model-checking instances of Tags (C06): the configuration spaces.       *)
(* A configuration = back end x (registry: tag-delete API, page size,      *)
(* manifest cache) x initial content (x layout code variant).              *)
EXTENDS Tags
MCTagOrder == <<"t1", "t2">>
MCTagOrder3 == <<"t1", "t2", "t3">>
C(b, td, pg, c, i, f) == [backend |-> b, tagdel |-> td, page |-> pg, cache |-> c, init |-> i, fixed |-> f]
RegConfs == {C("reg", td, pg, c, i, FALSE) : td \in BOOLEAN, pg \in {0, 1, 2}, c \in BOOLEAN, i \in {"empty", "shared"}}
RegNoCache == {c \in RegConfs : ~c.cache}
RegCache == {c \in RegConfs : c.cache}
\* smaller spaces for the 3-goroutine runs: paging matters with concurrency, the start content less
RegNoCacheShared == {c \in RegNoCache : c.init = "shared"}
RegCacheShared == {c \in RegCache : c.init = "shared" /\ c.page = 0}
LayClean == {C("layout", TRUE, 0, FALSE, i, FALSE) : i \in {"nodir", "empty", "shared", "untagged"}}
LayShared == {C("layout", TRUE, 0, FALSE, "shared", FALSE)}
\* layouts written by other tools: HEAD code (expected to violate: S5) and the repaired code
LayForeign == {C("layout", TRUE, 0, FALSE, i, FALSE) : i \in {"dupadj", "dupsep", "fullname", "mixed"}}
LayDupAdj == {C("layout", TRUE, 0, FALSE, "dupadj", FALSE)}
LayFullName == {C("layout", TRUE, 0, FALSE, i, FALSE) : i \in {"fullname", "mixed"}}
LayForeignFixed == {C("layout", TRUE, 0, FALSE, i, TRUE) : i \in {"dupadj", "dupsep", "fullname", "mixed", "untagged", "shared", "nodir"}}
SeqConfs == RegConfs \cup LayClean
AllKinds == {"push", "pushd", "tagdel", "mdel", "mdelr", "head", "get", "list"}
MutOnly == {"push", "pushd", "tagdel", "mdel", "mdelr"}
=============================================================================

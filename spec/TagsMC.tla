------------------------------ MODULE TagsMC ------------------------------
(* Model-checking instances of Tags (C06): the configuration spaces.       *)
(* A configuration = back end x (registry: tag-delete API, page size,      *)
(* manifest cache cold / warm) x initial content x repairs taken back      *)
(* (conf.old, {} = the code as it is).                                     *)
EXTENDS Tags
MCTagOrder == <<"t1", "t2">>
MCTagOrder3 == <<"t1", "t2", "t3">>
C(b, td, pg, c, i) == [backend |-> b, tagdel |-> td, page |-> pg, cache |-> c, init |-> i, old |-> {}, warm |-> FALSE, mod |-> FALSE]
Warm(S) == S \cup {[c EXCEPT !.warm = TRUE] : c \in {x \in S : x.cache}}
Old(S, o) == {[c EXCEPT !.old = o] : c \in S}
\* the layout was already modified through the client when the round starts (a collection has work to do)
Mod(S) == {[c EXCEPT !.mod = TRUE] : c \in S}
Reg(inits) == Warm({C("reg", td, pg, c, i) : td \in BOOLEAN, pg \in {0, 1, 2}, c \in BOOLEAN, i \in inits})
Lay(inits) == {C("layout", TRUE, 0, FALSE, i) : i \in inits}
CleanInits == {"nodir", "empty", "pair", "untagged"}
ForeignInits == {"dupadj", "dupsep", "dupsame", "fullname", "mixed"}   \* 2-tag versions of the driver's foreign layouts

RegConfs == Reg({"empty", "pair"})
RegCache == {c \in RegConfs : c.cache}
LayClean == Lay(CleanInits)
LayAll == Lay(CleanInits \cup ForeignInits)
LayPair == Lay({"pair"})
\* must hold: the code as it is
SeqConfs == RegConfs \cup LayAll
Conc2Confs == RegConfs \cup LayAll \cup Mod(Lay((CleanInits \cup ForeignInits) \ {"nodir", "empty"}))
\* 3 tags in the registry so that paging has something to page
RegConfs3 == Reg({"pair", "shared"})
LayConfs3 == Lay({"pair", "shared", "untagged", "nodir"})
SeqConfs3 == RegConfs3 \cup LayConfs3 \cup Reg({"empty"}) \cup Lay(ForeignInits)
SchedConfs == RegConfs3 \cup LayConfs3 \cup Mod(Lay({"pair", "shared", "untagged"}))

\* the behaviour before the repairs: each of these must keep producing its counterexample (they explain
\* the seeds seeded/fixrev-C06-* and keep the switch conf.old honest)
OldDup == Old(Lay({"dupadj"}), {"layout"})
OldFullName == Old(Lay({"fullname", "mixed"}), {"layout"})
OldCache == Old({c \in RegCache : c.init = "pair" /\ c.page = 0}, {"cache"})
OldHead == Old(LayPair, {"head"})
\* the neighbouring design of Close with the narrowed lock (seeded/C06-10)
GcUnlocked == Old(Mod(LayPair), {"gc"})
\* sanity variants of the design itself
RegFallbackPair == {c \in RegConfs : ~c.cache /\ c.init = "pair" /\ ~c.tagdel /\ c.page = 0}

\* sequential behaviours of (D) whose back-end state is compared with the real one after every operation:
\* every layout start content and the registry without cache; on the foreign start contents also the
\* behaviour before bf19c36 - the runner reports which variant the code under test matches
Seq1Confs == Lay(CleanInits \cup ForeignInits \cup {"shared"}) \cup {C("reg", td, 0, FALSE, i) : td \in BOOLEAN, i \in {"empty", "shared"}}
Seq1Both == Seq1Confs \cup Old(Lay(ForeignInits), {"layout"})
\* exhaustive schedule enumeration (thorough): every interleaving of 2 goroutines x 1 operation on the
\* registry variants where interleavings matter most (fall-back delete, paged listing, cache cold / warm)
SchedAllConfs == {c \in RegConfs3 : c.init = "shared" /\ c.page = 1 /\ (c.cache => c.warm)}

AllKinds == {"push", "pushd", "tagdel", "mdel", "mdelr", "head", "get", "list", "gc"}
MutOnly == {"push", "pushd", "tagdel", "mdel", "mdelr"}
MutGc == MutOnly \cup {"gc"}
GcRaceKinds == {"push", "gc"}
HeadRaceKinds == {"push", "mdel", "head"}
=============================================================================

------------------------------ MODULE CopyProp ------------------------------
(***************************************************************************)
(* (P) property monitor for image copy: C03 (a successful copy leaves the  *)
(* complete byte-identical image at the target), C04 (children before      *)
(* parents, the tag last, a failure never moves the tag) and C14 (only     *)
(* what the target lacks is transferred).                                  *)
(*                                                                         *)
(* Observation shaped.  It knows nothing about how regclient.ImageCopy     *)
(* (image.go) or BlobCopy (blob.go) decide; its variables hold only what   *)
(* an outside observer has:                                                *)
(*   - facts about the source, read from the raw source bytes by an        *)
(*     independent parser: which objects are manifests, which descriptors  *)
(*     each manifest carries (role, whether the requested platforms select *)
(*     it), which manifest names which subject (and whether the requested  *)
(*     referrer filter matches it), which source tags are digest tags;     *)
(*   - the options and the endpoint pairing of the copy (header);          *)
(*   - the raw content of the target repository / layout before the copy   *)
(*     and after every write (names stand for digests; an object is listed *)
(*     as present only if its stored bytes hash to what the source holds   *)
(*     under that digest, otherwise it is listed as corrupt);              *)
(*   - the requests served by the model registries, in serving order;      *)
(*   - the result of ImageCopy.                                            *)
(*                                                                         *)
(* Obligations (the first violated one is latched in `bad`; the constant   *)
(* Groups selects which property's obligations are latched, so the three   *)
(* checks give independent verdicts over the same traces):                 *)
(*  C03:incomplete      result ok, yet the target reference does not       *)
(*                      resolve to the source digest, or an object of the  *)
(*                      required closure (Req below) is absent or corrupt, *)
(*                      or a required digest tag is missing                *)
(*  C03:referrer-unlisted  result ok, target without referrers API: a      *)
(*                      referrer written by this copy is not named by the  *)
(*                      index behind its subject's fall-back tag           *)
(*  C04:child-missing   in some observed target state a manifest written   *)
(*                      by this copy lacks a (selected, hosted) child      *)
(*  C04:tag-other       the requested tag resolves to something that is    *)
(*                      neither its old value nor the source digest        *)
(*  C04:tag-dangling    the requested tag was moved to a manifest that is  *)
(*                      not (yet) there                                    *)
(*  C04:write-after-tag content is written after the requested tag         *)
(*                      (so a failure before that final write leaves the   *)
(*                      tag as it was: the tag only ever changes through   *)
(*                      the final write, which tag-other and child-missing *)
(*                      constrain)                                         *)
(*  C04:tag-moved-on-failure  the same at an error result, stated again     *)
(*                      where the statement does                           *)
(*  C14:get-present     source GET of a blob the target repository had     *)
(*  C14:twice           a blob fetched or pushed more than once            *)
(*  C14:no-mount        same registry: bytes moved for a blob whose mount  *)
(*                      the registry did not decline (a mount that would   *)
(*                      be granted has to be requested)                    *)
(*  C14:retag           same repository: a blob request, or (without the   *)
(*                      force-recursive option) not exactly one manifest   *)
(*                      PUT                                                *)
(*  C14:identical       identical image already at the target, yet a write *)
(* C03 and C14 are evaluated on runs without injected fault, cancellation  *)
(* or death (their quantifiers range over inputs, configurations and       *)
(* schedules, not over faults); C14:get-present, C14:no-mount and          *)
(* C14:identical also on runs whose only disturbances were transient       *)
(* faults below the retry limit; C04 on every run.                         *)
(*                                                                         *)
(* Reading of the statements where they leave room (see design.d):         *)
(*  - a manifest's "children" are its descriptors (config, layers,         *)
(*    manifests, blobs), not its subject;  foreign layers (urls) count     *)
(*    only for C03 and only with include-external; entries deselected by   *)
(*    the platforms option do not count;                                   *)
(*  - a target manifest equal to the source before the copy is trusted:    *)
(*    its descriptors are not demanded (unless force-recursive), but       *)
(*    referrers and digest tags of it and of the manifests below it are;   *)
(*  - the fast-check option stops at any manifest the target already has;  *)
(*  - with ImageWithReferrerTgt the referrers (and everything below them)  *)
(*    belong to the referrer target repository: names qualified "r/";      *)
(*  - the client-made referrers fall-back index (tag sha256-<hex>) is the  *)
(*    registry-side listing of referrers, not content of the image: it may *)
(*    follow the manifest it lists, also after the requested tag.          *)
(***************************************************************************)
EXTENDS Naturals, FiniteSets, Sequences, TLC
CONSTANT Groups      \* subset of {"C03", "C04", "C14"}
VARIABLES hdr,       \* header facts (record), see CopyTrace
          mkind,     \* set of <<manifest name, kind>>
          edges,     \* set of records [p, c, role, psel, hosted]
          refs,      \* set of records [r, s, match]
          dtags,     \* set of records [t, on, to, fb]: source tag t is a digest tag of manifest `on`, resolving to `to`
          alias,     \* set of <<q, n, pfx>>: q = pfx \o n names object n in a second target repository (the referrer
                     \* target of ImageWithReferrerTgt, pfx "r/"); objects of the image's own target have no entry
          init0,     \* target store before the copy
          cur,       \* latest observed target store
          written,   \* manifests written by this copy so far
          tagMoved,  \* the requested tag / top digest has been written by this copy
          gets,      \* bag of source blob GETs   (sequence of names)
          commits,   \* bag of blob pushes        (sequence of names)
          declined,  \* blobs whose cross-repository mount the registry declined (POST ?mount= answered 202)
          nBlobReq, nManPut, nWrites,
          res,       \* "" | "ok" | "err" | "dead"
          bad
pvars == <<hdr, mkind, edges, refs, dtags, alias, init0, cur, written, tagMoved, gets, commits, declined,
           nBlobReq, nManPut, nWrites, res, bad>>

Range(s) == {s[i] : i \in 1..Len(s)}
EmptyStore == [b |-> {}, m |-> {}, x |-> {}, t |-> {}]
\* a store from the snapshot fields of an event
Store(ev) == [b |-> Range(ev.blobs), m |-> Range(ev.mans), x |-> Range(ev.bad),
              t |-> {<<ev.tagk[i], ev.tagv[i]>> : i \in 1..Len(ev.tagk)}]
TagOf(st, k) == IF \E p \in st.t : p[1] = k THEN (CHOOSE p \in st.t : p[1] = k)[2] ELSE "-"
Present(st) == st.b \cup st.m
Count(seq, n) == Cardinality({i \in 1..Len(seq) : seq[i] = n})

Mans == {p[1] : p \in mkind}
Derived == {p[1] : p \in {q \in mkind : q[2] = "derived"}}
Root == hdr.root
Tagged == hdr.tagged = 1
On(f) == f = 1
FaultFree == hdr.faultfree = 1
\* repository-qualified names: Base(q) is the object, Pfx(q) the repository prefix ("" = the image's target)
Base(q) == IF \E a \in alias : a[1] = q THEN (CHOOSE a \in alias : a[1] = q)[2] ELSE q
Pfx(q) == IF \E a \in alias : a[1] = q THEN (CHOOSE a \in alias : a[1] = q)[3] ELSE ""
\* where the referrers of something in repository pfx go
RefPfx(pfx) == IF hdr.reftgt = 1 THEN "r/" ELSE pfx

\* ---------------------------------------------------------------- children
\* descriptors that have to be at the target before the manifest (C04)
Kids(m) == {e.c : e \in {e \in edges : e.p = m /\ e.role # "ext" /\ e.psel = 1}}
\* descriptors the copy is asked to bring along (C03)
SelKids(m) == {e.c : e \in {e \in edges : e.p = m /\ e.psel = 1 /\
                                         (e.role # "ext" \/ (On(hdr.inclext) /\ e.hosted = 1))}}
KidsQ(q) == {Pfx(q) \o c : c \in Kids(Base(q))}
RefsOf(m) == {r.r : r \in {r \in refs : r.s = m /\ r.match = 1}}
\* digest tags of m that the copy is asked to bring along
DTagsOf(m) == {d \in dtags : d.on = m /\ ~(d.fb = 1 /\ On(hdr.referrers))}

\* the target already holds this manifest, equal to the source
PreEq(st0, q) == IF q = Root /\ Tagged THEN TagOf(st0, "T") = Root /\ Root \in st0.m
                 ELSE q \in st0.m

\* ------------------------------------------------------- required closure
\* Walk items <<qualified name, demanded>>.  trust = FALSE computes the full closure.
Succ(st0, trust, it) ==
  LET q == it[1]
      n == Base(q)
      px == Pfx(q)
      d == it[2]
      pre == trust /\ PreEq(st0, q)
      cd == d /\ ~(pre /\ ~On(hdr.force))
  IN IF n \notin Mans THEN {}
     ELSE IF On(hdr.fast) /\ pre THEN {}
     ELSE {<<px \o c, cd>> : c \in SelKids(n)}
          \cup (IF On(hdr.referrers) THEN {<<RefPfx(px) \o r, TRUE>> : r \in RefsOf(n)} ELSE {})
          \cup (IF On(hdr.dtags) THEN {<<px \o dt.to, TRUE>> : dt \in DTagsOf(n)} ELSE {})
RECURSIVE Fix(_, _, _)
Fix(st0, trust, X) == LET Y == X \cup UNION {Succ(st0, trust, it) : it \in X}
                      IN IF Y = X THEN X ELSE Fix(st0, trust, Y)
Walk(st0, trust) == Fix(st0, trust, {<<Root, TRUE>>})
Req(st0, trust) == {it[1] : it \in {i \in Walk(st0, trust) : i[2]}}
\* required digest tags: <<qualified tag, qualified manifest>>
ReqDT(st0, trust) == IF On(hdr.dtags)
                     THEN UNION {{<<Pfx(it[1]) \o d.t, Pfx(it[1]) \o d.to>> : d \in DTagsOf(Base(it[1]))} :
                                 it \in {i \in Walk(st0, trust) : Base(i[1]) \in Mans /\
                                        ~(On(hdr.fast) /\ trust /\ PreEq(st0, i[1]))}}
                     ELSE {}
Complete(st, st0, trust) ==
  /\ Tagged => TagOf(st, "T") = Root
  /\ Req(st0, trust) \subseteq Present(st)
  /\ \A d \in ReqDT(st0, trust) : TagOf(st, d[1]) = d[2]
\* the identical image (with everything the options ask for) is at the target already
Identical == Complete(init0, init0, FALSE)

\* the requested tag has been set by this copy.  (For a copy to a digest reference the final write
\* is the PUT of the top manifest to that reference, an event, see PWrite: the top manifest may
\* legitimately appear earlier when it is also the target of a digest tag below itself.)
Moved(st) == Tagged /\ TagOf(st, "T") # TagOf(init0, "T")

\* ------------------------------------------------------------- latching
First(checks) ==
  IF bad # "" THEN bad
  ELSE IF \E i \in 1..Len(checks) : checks[i][1] \in Groups /\ checks[i][2]
       THEN checks[CHOOSE i \in 1..Len(checks) :
                     /\ checks[i][1] \in Groups /\ checks[i][2]
                     /\ \A j \in 1..(i-1) : ~(checks[j][1] \in Groups /\ checks[j][2])][3]
       ELSE ""

\* C04 obligations on an observed target state st with the manifests w written so far;
\* contentWrite: this observation shows a content write (not a referrers fall-back index)
StoreChecks(st, w, contentWrite) ==
  << <<"C04", \E m \in w : ~(KidsQ(m) \subseteq Present(st)), "C04:child-missing">>,
     <<"C04", Tagged /\ TagOf(st, "T") \notin {TagOf(init0, "T"), Root}, "C04:tag-other">>,
     <<"C04", Moved(st) /\ TagOf(st, "T") \notin st.m, "C04:tag-dangling">>,
     <<"C04", tagMoved /\ contentWrite, "C04:write-after-tag">> >>

\* ------------------------------------------------------------- actions
PInit == /\ hdr = [root |-> ""] /\ mkind = {} /\ edges = {} /\ refs = {} /\ dtags = {} /\ alias = {}
         /\ init0 = EmptyStore /\ cur = EmptyStore /\ written = {} /\ tagMoved = FALSE
         /\ gets = <<>> /\ commits = <<>> /\ declined = {} /\ nBlobReq = 0 /\ nManPut = 0 /\ nWrites = 0
         /\ res = "" /\ bad = ""
PReset(h) == /\ hdr' = h /\ mkind' = {} /\ edges' = {} /\ refs' = {} /\ dtags' = {} /\ alias' = {}
             /\ init0' = EmptyStore /\ cur' = EmptyStore /\ written' = {} /\ tagMoved' = FALSE
             /\ gets' = <<>> /\ commits' = <<>> /\ declined' = {} /\ nBlobReq' = 0 /\ nManPut' = 0 /\ nWrites' = 0
             /\ res' = "" /\ bad' = ""

Same(vs) == UNCHANGED vs
PMan(n, k) == mkind' = mkind \cup {<<n, k>>} /\
              Same(<<hdr, edges, refs, dtags, alias, init0, cur, written, tagMoved, gets, commits, declined, nBlobReq, nManPut, nWrites, res, bad>>)
PEdge(e) == edges' = edges \cup {e} /\
            Same(<<hdr, mkind, refs, dtags, alias, init0, cur, written, tagMoved, gets, commits, declined, nBlobReq, nManPut, nWrites, res, bad>>)
PReferrer(r) == refs' = refs \cup {r} /\
                Same(<<hdr, mkind, edges, dtags, alias, init0, cur, written, tagMoved, gets, commits, declined, nBlobReq, nManPut, nWrites, res, bad>>)
PDTag(d) == dtags' = dtags \cup {d} /\
            Same(<<hdr, mkind, edges, refs, alias, init0, cur, written, tagMoved, gets, commits, declined, nBlobReq, nManPut, nWrites, res, bad>>)
PAlias(q, n, pfx) == alias' = alias \cup {<<q, n, pfx>>} /\
                     Same(<<hdr, mkind, edges, refs, dtags, init0, cur, written, tagMoved, gets, commits, declined, nBlobReq, nManPut, nWrites, res, bad>>)
PInitStore(st) == init0' = st /\ cur' = st /\
                  Same(<<hdr, mkind, edges, refs, dtags, alias, written, tagMoved, gets, commits, declined, nBlobReq, nManPut, nWrites, res, bad>>)

BlobClasses == {"blob_head", "blob_get", "blob_delete", "upload_post", "mount_post", "upload_put",
                "upload_patch", "upload_get", "upload_delete"}
WriteClasses == {"upload_post", "mount_post", "upload_put", "upload_patch", "upload_delete",
                 "manifest_put", "manifest_delete", "blob_delete"}
OnTgt(side) == side \in {"tgt", "both"}
OnSrc(side) == side \in {"src", "both"}

\* a request without an effect on the target content
PReq(side, class, n, code, data) ==
  /\ gets' = IF class = "blob_get" /\ OnSrc(side) /\ code \in {200, 206} THEN Append(gets, n) ELSE gets
  /\ nBlobReq' = nBlobReq + (IF class \in BlobClasses THEN 1 ELSE 0)
  /\ nWrites' = nWrites + (IF class \in WriteClasses /\ OnTgt(side) THEN 1 ELSE 0)
  /\ declined' = IF class = "mount_post" /\ code = 202 THEN declined \cup {n} ELSE declined
  /\ Same(<<hdr, mkind, edges, refs, dtags, alias, init0, cur, written, tagMoved, commits, nManPut, res, bad>>)

\* a request that wrote to the target; s is the raw target store right after it.
\* pn: for a manifest PUT the name of the body's digest; fb: PUT to a referrers fall-back tag
\* top: for a copy to a digest reference, this is the PUT of the top manifest to that reference
PWrite(side, class, n, code, data, pn, fb, istag, s) ==
  LET w == written \cup (s.m \ init0.m) \cup (IF class = "manifest_put" /\ code = 201 THEN {pn} ELSE {})
      content == ~(class = "manifest_put" /\ fb = 1)
      top == ~Tagged /\ class = "manifest_put" /\ code = 201 /\ istag = 0 /\ pn = Root
  IN /\ cur' = s
     /\ written' = w
     /\ tagMoved' = (tagMoved \/ Moved(s) \/ top)
     /\ gets' = gets /\ declined' = declined
     /\ commits' = IF (class = "upload_put" /\ code = 201) \/ (class = "upload_post" /\ code = 201 /\ data > 0)
                   THEN Append(commits, n) ELSE commits
     /\ nBlobReq' = nBlobReq + (IF class \in BlobClasses THEN 1 ELSE 0)
     /\ nManPut' = nManPut + (IF class = "manifest_put" /\ code = 201 /\ fb = 0 THEN 1 ELSE 0)
     /\ nWrites' = nWrites + 1
     /\ bad' = First(StoreChecks(s, w, content))
     /\ Same(<<hdr, mkind, edges, refs, dtags, alias, init0, res>>)

\* an observation of a layout target (no requests to see): s is what the directory holds
PSnap(s) ==
  LET w == written \cup (s.m \ init0.m)
      new == (Present(s) \ Present(cur)) \ Derived
  IN /\ cur' = s
     /\ written' = w
     /\ tagMoved' = (tagMoved \/ Moved(s))
     /\ bad' = First(StoreChecks(s, w, new # {}))
     /\ Same(<<hdr, mkind, edges, refs, dtags, alias, init0, gets, commits, declined, nBlobReq, nManPut, nWrites, res>>)

C14Checks(s) ==
  LET bl == Range(gets) \cup Range(commits)
      ident == Identical
  IN << <<"C14", \E b \in Range(gets) : b \in init0.b, "C14:get-present">>,
        <<"C14", \E b \in bl : Count(gets, b) > 1 \/ Count(commits, b) > 1, "C14:twice">>,
        <<"C14", On(hdr.mountok) /\ (bl \ declined) # {}, "C14:no-mount">>,
        <<"C14", On(hdr.samerepo) /\ (nBlobReq > 0 \/ (~On(hdr.force) /\ nManPut # (IF ident THEN 0 ELSE 1))),
          "C14:retag">>,
        <<"C14", ident /\ ~On(hdr.force) /\ (nWrites > 0 \/ s # init0), "C14:identical">> >>

\* A target without referrers API lists referrers through the fall-back tag of the subject, which the client
\* maintains: after a successful copy with referrers every referrer manifest this copy wrote is named by the
\* index its subject's fall-back tag resolves to (else it is unreachable from the subject at the target).
Unlisted(s, w) ==
  {q \in w : \E r \in refs : r.r = Base(q) /\ r.match = 1 /\
                LET d == TagOf(s, Pfx(q) \o ("fb:" \o r.s))
                IN d = "-" \/ ~(\E e \in edges : e.p = Base(d) /\ e.c = r.r)}
ListingChecks(ok, s, w) ==
  << <<"C03", ok /\ FaultFree /\ On(hdr.referrers) /\ hdr.refapi_tgt = 0 /\ Unlisted(s, w) # {},
       "C03:referrer-unlisted">> >>

\* "Never downloads from the source a blob that already exists in the target repository" also holds
\* when the only disturbances were transient, retryable faults below the retry limit (hdr.transient):
\* they have to be absorbed without changing what is transferred.
Transient == hdr.transient = 1
\* So do "uses a server-side mount whenever the registry grants it" (a mount the registry grants on the
\* retried request is granted: a transient failure of the mount POST is no refusal, only a 202 declines)
\* and "copying onto a target that already holds the identical image writes nothing at all".
\* ("twice" is not judged there: a failed upload is legitimately followed by a second fetch.)
C14TChecks(s) ==
  LET bl == Range(gets) \cup Range(commits)
  IN << <<"C14", \E b \in Range(gets) : b \in init0.b, "C14:get-present">>,
        <<"C14", On(hdr.mountok) /\ (bl \ declined) # {}, "C14:no-mount">>,
        <<"C14", Identical /\ ~On(hdr.force) /\ (Len(commits) > 0 \/ nManPut > 0 \/ s # init0), "C14:identical">> >>

\* ImageCopy returned; s is the raw target store at that moment
PResult(ok, s) ==
  LET w == written \cup (s.m \ init0.m)
      new == (Present(s) \ Present(cur)) \ Derived
  IN /\ res' = IF ok = 1 THEN "ok" ELSE "err"
     /\ cur' = s
     /\ written' = w
     /\ tagMoved' = (tagMoved \/ Moved(s))
     /\ bad' = First(StoreChecks(s, w, new # {}) \o
                     << <<"C03", ok = 1 /\ FaultFree /\ (Req(init0, TRUE) \cap s.x) # {}, "C03:corrupt">>,
                        <<"C03", ok = 1 /\ FaultFree /\ ~Complete(s, init0, TRUE), "C03:incomplete">>,
                        ListingChecks(ok = 1, s, w)[1],
                        <<"C04", ok = 0 /\ Tagged /\ TagOf(s, "T") \notin {TagOf(init0, "T"), Root},
                          "C04:tag-moved-on-failure">> >>)
     /\ Same(<<hdr, mkind, edges, refs, dtags, alias, init0, gets, commits, declined, nBlobReq, nManPut, nWrites>>)

\* everything the copy started has ended (requests of goroutines it did not wait for included)
PFinal(s) ==
  LET w == written \cup (s.m \ init0.m)
      new == (Present(s) \ Present(cur)) \ Derived
  IN /\ cur' = s
     /\ written' = w
     /\ tagMoved' = (tagMoved \/ Moved(s))
     /\ bad' = First(StoreChecks(s, w, new # {}) \o
                     << <<"C03", res = "ok" /\ FaultFree /\ ~Complete(s, init0, TRUE), "C03:incomplete">> >> \o
                     ListingChecks(res = "ok", s, w) \o
                     (IF hdr.reftgt = 1 THEN <<>>          \* (two target repositories: C14's counters are per repository)
                      ELSE IF res = "ok" /\ FaultFree THEN C14Checks(s)
                      ELSE IF res = "ok" /\ Transient THEN C14TChecks(s) ELSE <<>>))
     /\ Same(<<hdr, mkind, edges, refs, dtags, alias, init0, gets, commits, declined, nBlobReq, nManPut, nWrites, res>>)

\* the process died here; s is what it leaves behind
PDeath(s) ==
  LET w == written \cup (s.m \ init0.m)
      new == (Present(s) \ Present(cur)) \ Derived
  IN /\ res' = "dead"
     /\ cur' = s
     /\ written' = w
     /\ tagMoved' = (tagMoved \/ Moved(s))
     /\ bad' = First(StoreChecks(s, w, new # {}))
     /\ Same(<<hdr, mkind, edges, refs, dtags, alias, init0, gets, commits, declined, nBlobReq, nManPut, nWrites>>)

PNote == UNCHANGED pvars
Ok == bad = ""
=============================================================================

---------------------------- MODULE PQueueMC ----------------------------
(* Model-checking instance of PQueue: the configuration space.            *)
(* A caller option is <<mode, want>>: acquire / try on one queue, or a     *)
(* multi-acquire over an ordered list of >= 2 distinct queues.  Callers    *)
(* are interchangeable, so only non-decreasing option assignments (by the  *)
(* fixed enumeration OptSeq) are explored.                                 *)
EXTENDS PQueue, SequencesExt
CONSTANTS MaxMax, MultiLens

Perms(S) == {s \in [1..Cardinality(S) -> S] : \A i, j \in 1..Cardinality(S) : i # j => s[i] # s[j]}
OrderedLists == UNION {Perms(S) : S \in {T \in SUBSET Queues : Cardinality(T) \in MultiLens}}
Options == {<<m, <<q>> >> : m \in {"acq", "try"}, q \in Queues} \cup {<<"multi", w>> : w \in OrderedLists}
OptSeq == SetToSeq(Options)
ProcSeq == SetToSeq(Procs)
N == Len(ProcSeq)
Assign == {f \in [1..N -> 1..Len(OptSeq)] : \A i \in 1..(N-1) : f[i] <= f[i+1]}
ConfOf(f, mx) == [want |-> [p \in Procs |-> OptSeq[f[CHOOSE i \in 1..N : ProcSeq[i] = p]][2]],
                  mode |-> [p \in Procs |-> OptSeq[f[CHOOSE i \in 1..N : ProcSeq[i] = p]][1]],
                  max  |-> mx]
AllConfs == {ConfOf(f, mx) : f \in Assign, mx \in [Queues -> 1..MaxMax]}
\* liveness is claimed for configurations without multi-acquire only (DESIGN C17, S12)
SingleConfs == {c \in AllConfs : \A p \in Procs : c.mode[p] # "multi"}
\* a fixed 5-caller configuration over 3 queues with overlapping multi-acquires (thorough tier)
FiveConfs == {[want |-> [p \in Procs |-> CASE p = "p1" -> <<"q1", "q2">> [] p = "p2" -> <<"q2", "q3", "q1">>
                                          [] p = "p3" -> <<"q3", "q1">> [] p = "p4" -> <<"q2">> [] OTHER -> <<"q3">>],
               mode |-> [p \in Procs |-> CASE p \in {"p1", "p2", "p3"} -> "multi" [] p = "p4" -> "acq" [] OTHER -> "try"],
               max  |-> mx] : mx \in {[q \in Queues |-> 1], [q \in Queues |-> IF q = "q2" THEN 2 ELSE 1]}}
=============================================================================

SPECIFICATION Spec
CONSTANTS
 DrainBug = TRUE
 LinkCode = TRUE
 DupPathBug = TRUE
 Table <- QuickTable
INVARIANTS PropHoldsButKnown KnownReproduced Ordered PassBound
CHECK_DEADLOCK TRUE

--------------------------- MODULE ThrottleUseGen ---------------------------
(* Scenario generator for X01: one initial state per configuration, printed as JSON.  Every        *)
(* assignment of programs gets one limit vector (derived from the programs, so that all limit      *)
(* vectors occur across the space).                                                                 *)
EXTENDS ThrottleUseConf, Json
VARIABLE x
HostIdx(h) == CASE h = "a" -> 0 [] h = "m" -> 1 [] OTHER -> 2
LimitsFor(pr) == LET s == Rank(pr["o1"]) + 3 * Rank(pr["o2"]) + 7 * Rank(pr["o3"])
                 IN [h \in MCHosts |-> 1 + ((s \div (IF HostIdx(h) = 0 THEN 1 ELSE IF HostIdx(h) = 1 THEN 3 ELSE 9)) % 3)]
Init == x \in {[max |-> LimitsFor(pr), prog |-> pr] : pr \in Assignments}
Next == UNCHANGED x
Emit == PrintT(<<"SCN", ToJson(x)>>)
=============================================================================

---------------------------- MODULE ConfFileObl ----------------------------
(***************************************************************************)
(* The obligations of area X02 (persistence of the user's configuration    *)
(* and credentials) as constant level operators.  Shared by the property   *)
(* monitor (P) ConfFileProp.tla and, for the invariants of the design      *)
(* spec, by (D) ConfFile.tla.  Mirrors no code: nothing here knows how     *)
(* regclient saves a file (no temp file, no system call, no ordering).     *)
(*                                                                         *)
(* An OBSERVATION f of the configuration directory at one instant:         *)
(*   f.cfg       label of what the config path names: "absent", "dir", or  *)
(*               a label of the complete byte content (equal labels =      *)
(*               byte-identical content; a truncated or partial file has   *)
(*               a label of its own)                                       *)
(*   f.cfg_mode, f.cfg_uid, f.cfg_gid   permission bits / owner of it      *)
(*   f.dir_ex, f.dir_mode               the directory holding it           *)
(*   f.tmp_go    group/other permission bits of every OTHER file in that   *)
(*               directory (temp files), f.tmp_n their number              *)
(*   f.others    digest of everything else below the home directory (path, *)
(*               content, mode, owner; e.g. ~/.docker/config.json)         *)
(* pv is the observation before the save started, news the set of labels   *)
(* of the complete new contents that saves in flight intend to write, id   *)
(* the identity of the saving process [priv, uid, gid].                    *)
(*                                                                         *)
(*  S1  at every instant the config path names the complete previous or a  *)
(*      complete new content (never absent after present, never partial)   *)
(*  S2  a save that reports failure leaves the previous file byte          *)
(*      identical (content, mode, owner) and no temp file behind; a save   *)
(*      that reports success has put its new content in place and left no  *)
(*      temp file behind                                                   *)
(*  S3  no file of the save (config file, temp file) carries at any        *)
(*      instant a group/other permission bit that the previous config file *)
(*      did not carry (none for a new file); an existing file keeps its    *)
(*      mode, and its owner and group when the process may set them; a     *)
(*      directory created for the file is private, an existing one keeps   *)
(*      its mode                                                           *)
(*  S4  a command leaves exactly the configuration it denotes (Denotes):   *)
(*      login / logout / set change the entry of the host they name and    *)
(*      nothing else, config set changes the option it names and nothing   *)
(*      else                                                               *)
(***************************************************************************)
EXTENDS Integers, Sequences, FiniteSets

Range(s) == {s[i] : i \in 1..Len(s)}
\* names of the failing checks of a list of <<is-violated, name>>
Failing(checks) == LET f == SelectSeq(checks, LAMBDA c : c[1]) IN [i \in 1..Len(f) |-> f[i][2]]

Bit(x, i) == (x \div (2^i)) % 2
SubMask(x, m) == \A i \in 0..11 : Bit(x, i) <= Bit(m, i)      \* every bit of x is a bit of m
GO(mode) == mode % 64                                         \* the group and other bits

IsFile(lbl) == lbl \notin {"absent", "dir"}
\* group/other bits a file of this save may carry: those of the previous config file
AllowedGO(pv) == IF IsFile(pv.cfg) THEN GO(pv.cfg_mode) ELSE 0
MaySetOwner(pv, id) == id.priv = 1 \/ (pv.cfg_uid = id.uid /\ pv.cfg_gid = id.gid)

\* S1 and S3 on one observation (any instant, in particular every crash point)
StateChecks(f, pv, news, id) ==
  << <<f.cfg \notin ({pv.cfg} \cup news), "S1-old-or-new">>,
     <<IsFile(pv.cfg) /\ IsFile(f.cfg) /\ f.cfg_mode # pv.cfg_mode, "S3-mode-kept">>,
     <<~IsFile(pv.cfg) /\ IsFile(f.cfg) /\ GO(f.cfg_mode) # 0, "S3-new-file-private">>,
     <<\E i \in 1..Len(f.tmp_go) : ~SubMask(f.tmp_go[i], AllowedGO(pv)), "S3-temp-private">>,
     <<IsFile(pv.cfg) /\ IsFile(f.cfg) /\ MaySetOwner(pv, id) /\ (f.cfg_uid # pv.cfg_uid \/ f.cfg_gid # pv.cfg_gid),
       "S3-owner-kept">>,
     <<pv.dir_ex = 1 /\ (f.dir_ex # 1 \/ f.dir_mode # pv.dir_mode), "S3-dir-kept">>,
     <<pv.dir_ex = 0 /\ f.dir_ex = 1 /\ GO(f.dir_mode) # 0, "S3-new-dir-private">>,
     <<f.others # pv.others, "S5-nothing-else-touched">> >>

\* S2 when ONE save (no concurrent one) has returned: ok = 1 success / 0 error; new = the label it meant to write
EndChecks(f, pv, new, ok) ==
  << <<ok = 1 /\ f.cfg # new, "S2-success-in-place">>,
     <<ok = 0 /\ (f.cfg # pv.cfg \/ (IsFile(pv.cfg) /\ (f.cfg_mode # pv.cfg_mode \/ f.cfg_uid # pv.cfg_uid
                                                       \/ f.cfg_gid # pv.cfg_gid))), "S2-failure-keeps-file">>,
     <<f.tmp_n > pv.tmp_n, "S2-no-temp-left">> >>

\* when all of several racing saves have returned: oknews = labels of those that reported success
RaceEndChecks(f, pv, oknews) ==
  << <<oknews # {} /\ f.cfg \notin oknews, "S2-last-rename-wins">>,
     <<oknews = {} /\ f.cfg # pv.cfg, "S2-failure-keeps-file">>,
     <<f.tmp_n > pv.tmp_n, "S2-no-temp-left">> >>

(* ------------------------------- S4 ------------------------------------ *)
(* A configuration table T as an independent parser reads it:              *)
(*   T.parse "ok" | "absent" | "bad"; T.hn host names (canonical), and per *)
(*   host, in parallel: T.hu user, T.hp password, T.ht identity token,     *)
(*   T.hl tls setting, T.hr digest of all other fields; T.blob the blob    *)
(*   limit, T.top digest of all other top-level options.                   *)
(* A command c: [kind, h, u, p, v]: login h u p | logout h | set h (tls=v) *)
(* | cset (blob limit = v) | put (save given bytes, no meaning).           *)
Has(T, h) == h \in Range(T.hn)
Idx(T, h) == CHOOSE i \in 1..Len(T.hn) : T.hn[i] = h
Ent(T, h) == LET i == Idx(T, h) IN <<T.hu[i], T.hp[i], T.ht[i], T.hl[i], T.hr[i]>>
Creds(T, h) == LET i == Idx(T, h) IN <<T.hu[i], T.hp[i], T.ht[i]>>
NonCred(T, h) == LET i == Idx(T, h) IN <<T.hl[i], T.hr[i]>>
OthersKept(B, A, hs) == /\ \A x \in Range(B.hn) \ hs : Has(A, x) /\ Ent(A, x) = Ent(B, x)
                        /\ Range(A.hn) \subseteq (Range(B.hn) \cup hs)
                        /\ Len(A.hn) = Cardinality(Range(A.hn))
TopKept(B, A) == A.top = B.top
SameTable(B, A) == /\ OthersKept(B, A, {}) /\ A.blob = B.blob /\ TopKept(B, A)
\* the credentials a login with user u and password p stores ("<token>" = identity token)
LoginCreds(u, p) == IF u = "<token>" THEN <<"", "", p>> ELSE <<u, p, "">>

\* A is what command c makes of B
Denotes(c, B, A) ==
  CASE c.kind = "login" ->
         /\ A.parse = "ok" /\ Has(A, c.h) /\ OthersKept(B, A, {c.h}) /\ A.blob = B.blob /\ TopKept(B, A)
         /\ Creds(A, c.h) = LoginCreds(c.u, c.p)
         /\ Has(B, c.h) => NonCred(A, c.h) = NonCred(B, c.h)
    [] c.kind = "logout" ->
         IF Has(B, c.h)
         THEN /\ A.parse = "ok" /\ Has(A, c.h) /\ OthersKept(B, A, {c.h}) /\ A.blob = B.blob /\ TopKept(B, A)
              /\ Creds(A, c.h) = <<"", "", "">> /\ NonCred(A, c.h) = NonCred(B, c.h)
         ELSE SameTable(B, A)
    [] c.kind = "set" ->
         /\ A.parse = "ok" /\ Has(A, c.h) /\ OthersKept(B, A, {c.h}) /\ A.blob = B.blob /\ TopKept(B, A)
         /\ A.hl[Idx(A, c.h)] = c.v
         /\ Has(B, c.h) => (Creds(A, c.h) = Creds(B, c.h) /\ A.hr[Idx(A, c.h)] = B.hr[Idx(B, c.h)])
         /\ ~Has(B, c.h) => Creds(A, c.h) = <<"", "", "">>
    [] c.kind = "cset" ->
         /\ A.parse = "ok" /\ OthersKept(B, A, {}) /\ A.blob = c.v /\ TopKept(B, A)
    [] OTHER -> TRUE

\* S4 for a command that returned: ok = 1 -> A is what c makes of one of the bases (one base when commands run one
\* after the other; with racing commands: any configuration that was in place while the command ran);
\* ok = 0 -> nothing changed (the file level is S2)
CmdChecks(c, bases, A, ok) ==
  << <<ok = 1 /\ c.kind # "put" /\ ~\E B \in bases : Denotes(c, B, A), "S4-denotes">>,
     <<A.parse = "bad" /\ \E B \in bases : B.parse # "bad", "S4-parses">>,
     <<ok = 1 /\ c.kind # "put" /\ \A B \in bases : B.parse = "bad", "S4-unparsable-refused">> >>
=============================================================================

SPECIFICATION TSpec
CONSTANT Groups = {"C03"}
CONSTRAINT HW
INVARIANT Ok
POSTCONDITION Accepted
CHECK_DEADLOCK FALSE

INIT GInit
NEXT GNext
CONSTANTS
 DrainBug = TRUE
 LinkCode = TRUE
 DupPathBug = TRUE
 Ids <- GenSmallIds
INVARIANTS EmitCat Emit
CHECK_DEADLOCK FALSE

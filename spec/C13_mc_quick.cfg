\* repaired design, alignment universe (<= 3 layers, every placement of <= 2 empty history entries), every program of length <= 2 over the layer moving options, one action per iteration of dagPut's loops
CONSTANTS
 Images <- ImagesAlign
 Options <- OptsAlign
 MaxProg = 2
 Places = {"same-tag"}
 SrcKinds = {"reg"}
 FixData = TRUE
 FixWriter = TRUE
 FixAdded = TRUE
 FixTag = TRUE
 FixClose = TRUE
 FixDesc = TRUE
 Fine = TRUE
SPECIFICATION Spec
INVARIANTS TypeOK PostAligned PostTruthful PostResolves PostNoop PostNoopIff
CHECK_DEADLOCK FALSE

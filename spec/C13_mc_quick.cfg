\* alignment automaton, repaired design: every image with <= 3 layers, every placement of <= 2 empty
\* history entries, every program of length <= 3 over the layer-moving options, one action per loop iteration
CONSTANTS
 Images <- ImagesAlign
 Options <- OptsAlign
 MaxProg = 3
 Places = {"same-tag"}
 FixData = TRUE
 FixWriter = TRUE
 FixAdded = TRUE
 FixTag = TRUE
 Fine = FALSE
SPECIFICATION Spec
INVARIANTS TypeOK PostAligned PostTruthful PostResolves PostNoop PostNoopIff
CHECK_DEADLOCK FALSE

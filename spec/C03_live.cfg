CONSTANTS
 Confs <- MCConfs
 FixWaitErr = TRUE
 Reduce = FALSE
 MCShapes = {"img"}
 MCPairs = {"tworeg", "reg2dir"}
 MCOpts <- MCOptsDefault
 MCFeats <- MCFeatsDefault
 MCInit = "empty"
 MCTag0 = {"none"}
 MCByDigest = {FALSE}
 MCTgtByDigest = {FALSE}
 MaxFaults = 1
 AllowCancel = TRUE
 AllowCrash = FALSE
 Cap = 2
SPECIFICATION FairSpec
PROPERTY Termination

----------------------------- MODULE RegSyncGen -----------------------------
(***************************************************************************)
(* Scenario generator for C18: behaviours of RegSync (as coded today:       *)
(* Anchoring = PlatMatch = "fixed") with what the design predicts after     *)
(* every run.  Used with `-simulate`; every finished behaviour is printed   *)
(* once as a JSON scenario {conf, src, tgt, steps, pred} that the driver    *)
(* replays on the real regsync binary.  Two sources (constant GenMode):     *)
(*   "space"  a random member of the exhaustively model-checked space the   *)
(*            configuration selects (RegSyncMC!SpaceScns)                    *)
(*   "rand"   a free random scenario over the full pool: 1-3 entries in 8   *)
(*            layouts (image / repository / registry, disjoint targets, the  *)
(*            target optionally inside the source registry),                 *)
(*            allow / deny lists of 0-2 expressions over ordered subsets of  *)
(*            five tags in three spellings, platform, media type list,       *)
(*            backup shape, switches, parallel 0-4, populations of four      *)
(*            source repositories, 2-4 runs of any mode with source tags     *)
(*            moved, deleted and moved back in between; one scripted fault   *)
(*            (registry x request class x 1st-6th request of the class x     *)
(*            kind: 404 / 410 / 416 / 403 / 400 / 405 / transient) in 50 % of*)
(*            the first and 20 % of the later runs (round 5)                 *)
(* Both add `env`, the environment of the runs (EnvDraw), which the design  *)
(* does not look at.                                                        *)
(* Random draws are taken in one step into the variable `draws` (explicit   *)
(* values) and the scenario is built from that variable in the next step,   *)
(* so that every draw is used exactly as stored.                            *)
(* Mirrors no code; adds only history to RegSync.                           *)
(***************************************************************************)
EXTENDS RegSyncMC, Json, SequencesExt
CONSTANT GenMode
VARIABLES draws, drawn, scn, hist
gvars == <<vars, draws, drawn, scn, hist>>
ScnSeqs == TLCEval([i \in DOMAIN Scenarios |-> SetToSeq(Scenarios[i])])

W(s) == s[RandomElement(1..Len(s))]           \* weighted choice: repeat an element to favour it
OrdSubs == {s \in UNION {[1..n -> T5 \cup {"V2"}] : n \in 0..3} : \A i, j \in DOMAIN s : i # j => s[i] # s[j]}
ROrdSubs == {s \in UNION {[1..n -> {"r1", "r10", "r2", "xr2"}] : n \in 0..3} : \A i, j \in DOMAIN s : i # j => s[i] # s[j]}
\* spellings of an entry (harness/cmd/c18drv: candidate): plain forms and regular expression features -
\* inline flags (unclosed, scoped, without effect), the user's own anchors, classes with counted
\* repetition, the empty entry.  The driver falls back to a group when a spelling would not select
\* exactly the subset.
Styles == <<"alt", "group", "group", "class", "class", "iflag", "iflag", "iscoped", "sflag", "uflag", "anch", "quant", "empty">>
ImgW == <<"", "", "", "A", "A", "B", "C", "X", "X", "Y", "Xa", "H", "H", "D", "A5">>
TgtW == <<"", "", "", "same", "same", "same", "same", "A", "B", "C", "X", "Xa", "H", "D", "A5">>
T5s == <<"v1", "v10", "xv2", "v2", "latest", "V2">>     \* the pool: five tags and a case variant
Grid == <<"r1", "r2", "r10", "xr2">>

\* registry x request class of the scripted fault (reads of the source, writes / probes of the target;
\* HEAD of the target tag and the backup copy are not faulted, see RegSync) and its kind: not-found
\* flavours, refusals, transient ones that regclient retries
FaultW == << <<"src", "blob_get">>, <<"src", "blob_get">>, <<"src", "blob_get">>, <<"src", "manifest_get">>, <<"src", "manifest_get">>,
             <<"src", "manifest_get">>, <<"src", "manifest_head">>, <<"src", "tag_list">>, <<"src", "catalog">>, <<"src", "referrers">>,
             <<"tgt", "upload_post">>, <<"tgt", "upload_put">>, <<"tgt", "upload_patch">>, <<"tgt", "manifest_put">>, <<"tgt", "manifest_put">>,
             <<"tgt", "blob_head">>, <<"tgt", "tag_list">>, <<"tgt", "referrers">> >>
KindW == <<"404", "404", "404", "404", "404e", "410", "416", "403", "403", "400", "405", "500once", "reset1">>
\* the environment of a run, which the design does not look at: page size of the registries'
\* listings, which registries omit Docker-Content-Digest (regclient then falls back from HEAD to
\* GET), blob mount / single POST upload support of the registries, regclient's cache and chunked
\* upload settings in the configuration, registries named by address or by alias + hostname, log
\* level / format, configuration read from stdin, source rate limit headers with ratelimit.min
EnvDraw(z) ==
  [page |-> W(<<0, 0, 0, 1, 2>>), nodig |-> W(<<"", "", "", "src", "tgt", "both">>), mount |-> W(<<TRUE, TRUE, FALSE>>),
   postput |-> W(<<TRUE, TRUE, FALSE>>), cache |-> W(<<FALSE, FALSE, TRUE>>), chunk |-> W(<<FALSE, FALSE, TRUE>>),
   direct |-> W(<<FALSE, FALSE, TRUE>>), verb |-> W(<<"info", "info", "debug", "trace", "warn">>), json |-> W(<<FALSE, FALSE, TRUE>>),
   stdin |-> W(<<FALSE, FALSE, TRUE>>), rl |-> W(<<FALSE, FALSE, TRUE>>)]

\* one explicit record of independent draws (z makes the definition state dependent: TLC would
\* otherwise evaluate it once when it starts)
Draw(z) ==
  [layout |-> RandomElement(1..8), par |-> RandomElement(0..4), env |-> EnvDraw(z),
   t1 |-> RandomElement(1..6), t2 |-> RandomElement(1..5),
   flt |-> TLCEval([i \in 1..18 |-> [tags |-> RandomElement(OrdSubs), style |-> W(Styles)]]),
   rflt |-> TLCEval([i \in 1..2 |-> [tags |-> RandomElement(ROrdSubs), style |-> W(<<"alt", "group", "class", "iflag", "iscoped", "anch", "quant">>)]]),
   nal |-> TLCEval([i \in 1..3 |-> W(<<0, 0, 1, 1, 2, 2>>)]), nde |-> TLCEval([i \in 1..3 |-> W(<<0, 0, 0, 1, 2, 2>>)]),
   nra |-> W(<<0, 0, 1>>), nrd |-> W(<<0, 0, 1>>),
   plat |-> TLCEval([i \in 1..3 |-> W(<<"", "", "", "amd64", "amd64", "arm64", "s390x">>)]),
   mts |-> TLCEval([i \in 1..3 |-> W(<< <<>>, <<>>, <<>>, <<"ociman", "dockerman">>, <<"ociman", "ociindex">>,
                                        <<"dockerlist", "dockerman", "ociindex">> >>)]),
   bk |-> TLCEval([i \in 1..3 |-> W(<<"none", "none", "tagtpl", "tagtpl", "const", "fullref", "othreg">>)]),
   sw |-> TLCEval([i \in 1..3 |-> W(<<1, 1, 1, 1, 2, 3, 4, 5, 6, 7>>)]),
   src |-> TLCEval([i \in 1..24 |-> W(ImgW)]), tgt |-> TLCEval([i \in 1..24 |-> W(TgtW)]),
   dt |-> RandomElement(1..3), xt |-> TLCEval([i \in 1..4 |-> W(<<"", "", "A", "B", "C">>)]),
   nruns |-> W(<<2, 2, 3, 3, 4>>),
   fl |-> TLCEval([i \in 1..4 |->
            IF RandomElement(1..100) <= (IF i = 1 THEN 50 ELSE 20)
            THEN LET c == W(FaultW) IN Flt(c[1], c[2], W(<<1, 1, 1, 1, 2, 2, 3, 4, 6>>), W(KindW)) ELSE NoF]),
   modes |-> TLCEval([i \in 1..4 |-> W(<<"once", "once", "once", "once", "check", "missing">>)]),
   nmv |-> TLCEval([i \in 1..3 |-> W(<<0, 1, 1, 2>>)]),
   mv |-> TLCEval([i \in 1..6 |-> [repo |-> W(<<"r1", "r1", "r2">>), tag |-> W(<<"v1", "v1", "v2", "latest", "v10", "V2">>),
                                   img |-> W(<<"A", "B", "B", "C", "X", "", "orig", "orig">>)]])]

SwOf(n) == CASE n = 1 -> <<FALSE, FALSE, FALSE, FALSE>> [] n = 2 -> <<TRUE, FALSE, FALSE, FALSE>>
             [] n = 3 -> <<FALSE, TRUE, FALSE, FALSE>> [] n = 4 -> <<FALSE, FALSE, TRUE, FALSE>>
             [] n = 5 -> <<FALSE, FALSE, FALSE, TRUE>> [] n = 6 -> <<FALSE, FALSE, TRUE, TRUE>>
             [] OTHER -> <<FALSE, TRUE, TRUE, FALSE>>
\* filters 6(i-1)+1.. belong to entry slot i: two allow, two deny expressions
Lst(d, i, off, n) == SubSeq(<<d.flt[6 * (i - 1) + off + 1], d.flt[6 * (i - 1) + off + 2]>>, 1, n)
Slot(d, i, e) == [Opt(e, d.plat[i], d.mts[i], d.bk[i], SwOf(d.sw[i])) EXCEPT
                    !.allow = IF e.type = "image" THEN <<>> ELSE Lst(d, i, 0, d.nal[i]),
                    !.deny = IF e.type = "image" THEN <<>> ELSE Lst(d, i, 2, d.nde[i])]
RepoE(s, t) == [E0 EXCEPT !.srepo = s, !.trepo = t]
Same(e) == [e EXCEPT !.treg = "src", !.trepo = "mirror/" \o e.trepo]
ImgE(sr, st, tr, tt) == [E0 EXCEPT !.type = "image", !.srepo = sr, !.stag = st, !.trepo = tr, !.ttag = tt]
RegE(d) == [E0 EXCEPT !.type = "registry", !.srepo = "", !.trepo = "",
                      !.rallow = SubSeq(<<d.rflt[1]>>, 1, d.nra), !.rdeny = SubSeq(<<d.rflt[2]>>, 1, d.nrd)]
Entries(d) ==
  LET a == T5s[d.t1]
      b == SelectSeq(T5s, LAMBDA t : t # a)[d.t2]
  IN CASE d.layout = 1 -> <<Slot(d, 1, RepoE("r1", "r1"))>>
       [] d.layout = 2 -> <<Slot(d, 1, RepoE("r1", "r1")), Slot(d, 2, RepoE("r2", "r2"))>>
       [] d.layout = 3 -> <<Slot(d, 1, ImgE("r1", a, "r1", a)), Slot(d, 2, RepoE("r2", "r2"))>>
       [] d.layout = 4 -> <<Slot(d, 1, RegE(d))>>
       [] d.layout = 5 -> <<Slot(d, 1, ImgE("r1", a, "r1", a)), Slot(d, 2, ImgE("r1", b, "r1", "copy")), Slot(d, 3, RepoE("r2", "r2"))>>
       [] d.layout = 6 -> <<Slot(d, 1, RegE(d)), Slot(d, 2, ImgE("r1", a, "solo", a))>>
       [] d.layout = 7 -> <<Slot(d, 1, Same(RepoE("r1", "r1"))), Slot(d, 2, Same(ImgE("r2", a, "r2", a)))>>
       [] OTHER -> <<Slot(d, 1, RepoE("r1", "r1")), Slot(d, 2, Same(RepoE("r2", "r2")))>>
\* two entries must not share a backup name: only the constant name can collide (same repository)
Fix(es, i) == IF es[i].backup = "const" /\ \E j \in 1..(i - 1) : es[j].backup = "const" /\ es[j].trepo = es[i].trepo
              THEN [es[i] EXCEPT !.backup = "tagtpl"] ELSE es[i]
Dedup(es) == IF Len(es) = 1 THEN es ELSE IF Len(es) = 2 THEN <<es[1], Fix(es, 2)>> ELSE <<es[1], Fix(es, 2), Fix(es, 3)>>
\* populations: r1, r2 over the five tags; r10, xr2 (registry layouts) over two tags each
Cell(d, g, t) == 6 * (g - 1) + t
SrcPop(d) ==
  {<<Grid[g], T5s[t], d.src[Cell(d, g, t)]>> : g \in 1..2, t \in 1..6} \cup
  (IF d.layout \in {4, 6} THEN {<<Grid[g], T5s[t], d.src[Cell(d, g, t)]>> : g \in 3..4, t \in 1..2} ELSE {}) \cup
  (IF d.dt = 1 THEN {<<"r1", "dtA", "S">>} ELSE {})
SrcSet(d) == {x \in SrcPop(d) : x[3] # ""}
SrcImg(d, r, t) == IF \E x \in SrcSet(d) : x[1] = r /\ x[2] = t THEN (CHOOSE x \in SrcSet(d) : x[1] = r /\ x[2] = t)[3] ELSE ""
TgtSet(d) ==
  LET raw == {<<Grid[g], T5s[t], d.tgt[Cell(d, g, t)]>> : g \in 1..4, t \in 1..6}
      res == {<<x[1], x[2], IF x[3] = "same" THEN SrcImg(d, x[1], x[2]) ELSE x[3]>> : x \in raw}
      ext == {<<"r1", "zz", d.xt[1]>>, <<"r1", "old", d.xt[2]>>, <<"r1", "bak-v1", d.xt[3]>>, <<"r1", "copy", d.xt[4]>>,
              <<"solo", "v1", d.xt[1]>>, <<"r2", "old", d.xt[3]>>}
  IN {x \in res \cup ext : x[3] # "" /\ (x[1] \in {"r1", "r2", "solo"} \/ d.layout \in {4, 6})}
\* layouts 7, 8: the mirror repositories live in the source registry
MirPop(d) == IF d.layout \in {7, 8}
             THEN {<<"mirror/" \o x[1], x[2], x[3]>> : x \in {y \in TgtSet(d) : y[1] \in {"r1", "r2"}}}
             ELSE {}
PlanOf(d) ==
  LET mvs(i) == [j \in 1..d.nmv[i] |->
                   LET m == d.mv[2 * (i - 1) + j] IN
                   Move(m.repo, m.tag, IF m.img = "orig" THEN SrcImg(d, m.repo, m.tag) ELSE m.img)]
      run(i) == IF d.fl[i] = NoF THEN Run(d.modes[i]) ELSE RunF(d.modes[i], d.fl[i])
      seg(i) == IF i = 1 THEN <<run(1)>> ELSE mvs(i - 1) \o <<run(i)>>
  IN IF d.nruns = 2 THEN seg(1) \o seg(2)
     ELSE IF d.nruns = 3 THEN seg(1) \o seg(2) \o seg(3)
     ELSE seg(1) \o seg(2) \o seg(3) \o seg(4)
Build(d) == Scn(Conf(d.par, Dedup(Entries(d))), SrcSet(d) \cup MirPop(d), TgtSet(d), PlanOf(d))

GInit == Init /\ draws = <<>> /\ drawn = FALSE /\ scn = <<>> /\ hist = <<>>
GDraw == /\ phase = "setup" /\ ~drawn
         /\ draws' = IF GenMode = "space"
                     THEN [a |-> RandomElement(0..999999), b |-> RandomElement(0..999999), env |-> EnvDraw(nrun)]
                     ELSE Draw(nrun)
         /\ drawn' = TRUE
         /\ UNCHANGED <<vars, scn, hist>>
GSetup == /\ phase = "setup" /\ drawn
          /\ LET i == (draws.a % Len(ScnSeqs)) + 1
                 s == IF GenMode = "space" THEN ScnSeqs[i][(draws.b % Len(ScnSeqs[i])) + 1] ELSE Build(draws) IN
             Load(s) /\ scn' = s
          /\ UNCHANGED <<draws, drawn, hist>>
TgtSide == {x \in world : x[1] # "src" \/ x[2] \in MirrorRepos}
GEnd == /\ EndRun
        /\ hist' = Append(hist, [mode |-> mode, exit |-> IF errs = {} THEN 0 ELSE 1, nw |-> nw, tags |-> TgtSide, fhit |-> fault.hit])
        /\ UNCHANGED <<draws, drawn, scn>>
GNext == \/ GDraw \/ GSetup \/ GEnd
         \/ /\ (StartRun \/ EnvMove \/ Idle \/ \E k \in DOMAIN proc : Step(k))
            /\ UNCHANGED <<draws, drawn, scn, hist>>
GSpec == GInit /\ [][GNext]_gvars
\* a registry that omits Docker-Content-Digest leaves a client no way to learn that it knows a
\* manifest by a sha512 digest (the client then computes sha256): the two are not combined
UsesA5 == \/ \E x \in scn.src \cup scn.tgt : x[3] = "A5"
          \/ \E i \in DOMAIN scn.plan : scn.plan[i].img = "A5"
EnvOf == IF UsesA5 THEN [draws.env EXCEPT !.nodig = ""] ELSE draws.env
Emit == Finished => PrintT(<<"SCN", ToJson([conf |-> scn.conf, src |-> scn.src, tgt |-> scn.tgt, steps |-> scn.plan, pred |-> hist,
                                                env |-> EnvOf])>>)
=============================================================================

\* before the repair (FixClose off): digest step inside a compression step, layout source
CONSTANTS
 Images <- ImagesData
 Options <- OptsAsisClose
 MaxProg = 2
 Places = {"cross"}
 SrcKinds = {"dir"}
 FixData = TRUE
 FixWriter = TRUE
 FixAdded = TRUE
 FixTag = TRUE
 FixClose = FALSE
 FixDesc = TRUE
 Fine = FALSE
SPECIFICATION Spec
INVARIANTS PostTruthful
CHECK_DEADLOCK FALSE

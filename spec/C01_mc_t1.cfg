CONSTANTS
 MaxLen = 2
 ReadSizes = {1, 2, 5}
 MaxDrops = 1
 MaxFails = 0
 MaxSeeks = 1
 MaxAgain = 1
 RetryLimit = 3
 Schemes = {"reg", "ocidir"}
 Vias = {"reader"}
 Withs = {TRUE, FALSE}
 Chunks = {5}
 LyingSizes = TRUE
 LieMax = 1
 InlineData = TRUE
 Conc = 3
 Probes = FALSE
 Exts = {0}
 KeepSlots = FALSE
 TarUnverified = FALSE
 MTs = {TRUE}
 DigestHdrs = {"served"}
 Trailers = {FALSE}
 Sts = {"std"}
 DropKinds = {"ueof"}
INIT Init
NEXT Next
VIEW View
INVARIANTS TypeOK PCleanOk HashIsGot CountIsGot Bounded EofVerified EofSized NeverSelfBlocked NoLeftover WantIsAsked
CHECK_DEADLOCK FALSE

CONSTANTS
 MaxLen = 2
 ReadSizes = {5}
 MaxDrops = 0
 MaxFails = 0
 MaxSeeks = 0
 MaxAgain = 0
 RetryLimit = 3
 Schemes = {"reg"}
 Vias = {"reader"}
 Withs = {TRUE, FALSE}
 Chunks = {5}
 LyingSizes = FALSE
 LieMax = 1
 InlineData = FALSE
 Conc = 3
 Probes = FALSE
 Exts = {0}
 KeepSlots = FALSE
 TarUnverified = FALSE
 MTs = {TRUE, FALSE}
 DigestHdrs = {"absent", "echo", "served", "servedother", "garbage"}
 Trailers = {FALSE}
 Sts = {"std"}
 DropKinds = {"ueof"}
INIT GInit
NEXT GNext
INVARIANTS Emit
CHECK_DEADLOCK FALSE
CONSTANTS
 Replies <- HdrReplies

CONSTANTS
  NOps = 3
  MaxFail = 2
  MaxRestart = 1
INIT Init
NEXT Next
INVARIANT Emit
CHECK_DEADLOCK FALSE

CONSTANTS
 Procs = {"p1", "p2", "p3", "p4", "p5"}
 Queues = {"q1", "q2", "q3"}
 MaxMax = 2
 MultiLens = {2, 3}
 Confs <- FiveConfs
INIT Init
NEXT Next
INVARIANTS Bound NoOrphan QueuedWait FailedClean QuiescentNoWaiters NoIdleSlotWhileWaiting

\* what if the title were cleaned as the comment says (seeded C20-1)?  expected: Containment violated by a bare ".."
CONSTANTS TitleClean = "stripdots" ExtractGuard = "reroot" Whiteout = "none" LinkPolicy = "skip" DeleteValidates = TRUE MaxFull = 2 MaxCore = 2
  Eps = {"art"}
SPECIFICATION Spec
INVARIANTS Containment
CHECK_DEADLOCK FALSE

INIT GInit
NEXT GNext
CONSTANTS
 DrainBug = TRUE
 LinkCode = TRUE
 DupPathBug = TRUE
 Ids <- GenLargeIds
INVARIANTS EmitCat Emit
CHECK_DEADLOCK FALSE

INIT GInit
NEXT GNext
CONSTANTS
 DrainBug = FALSE
 LinkCode = FALSE
 DupPathBug = FALSE
 Ids <- GenLargeIds
INVARIANTS EmitCat Emit
CHECK_DEADLOCK FALSE

\* the secondary input dimensions (PathSafe!SecondaryDims), one record per combination; the runner assigns them to scenarios
CONSTANTS TitleClean = "rooted" ExtractGuard = "reroot" Whiteout = "none" LinkPolicy = "skip" DeleteValidates = TRUE MaxFull = 1 MaxCore = 1
  Eps = {"dim"}
CONSTANT WithVerdict = FALSE
INIT Init
NEXT Next
INVARIANT Emit
CHECK_DEADLOCK FALSE

CONSTANTS
 Scenarios = {}
 MaxCrash = 0
 MarkerMode = "rewrite"
 MarkerWindow = TRUE
SPECIFICATION DSpec
CONSTRAINT HW
POSTCONDITION Reached
CHECK_DEADLOCK FALSE

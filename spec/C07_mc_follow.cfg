\* baseline, histories of two operations: crash state of the first, then import / copy of the image concerned (or the retry): holds
CONSTANTS
 Scenarios <- Histories
 MaxCrash = 1
 MarkerMode = "ifbad"
 MarkerWindow = TRUE
 MaxFault = 0
INIT Init
NEXT Next
INVARIANTS TypeOK NoStuck CrashStateOK ReturnOK RetryOK FollowOK
CHECK_DEADLOCK FALSE

SPECIFICATION Spec
CONSTANTS
 DrainBug = FALSE
 LinkCode = FALSE
 DupPathBug = TRUE
 Ids <- DupPathIds
INVARIANTS PropHolds
CHECK_DEADLOCK TRUE

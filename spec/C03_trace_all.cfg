SPECIFICATION TSpec
CONSTANT Groups = {"C03", "C04", "C14"}
CONSTRAINT HW
INVARIANT Ok
POSTCONDITION Accepted
CHECK_DEADLOCK FALSE

CONSTANTS
 Confs <- MCConfs
 FixWaitErr = TRUE
 Reduce = TRUE
 MCShapes = {"img", "empty", "schema1", "inline"}
 MCPairs = {"tworeg", "samereg", "samerepo", "reg2dir", "dir2reg", "dir2dir"}
 MCOpts <- MCOptsDefault
 MCFeats <- MCFeatsMount3
 MCInit = "all"
 MCTag0 = {"none", "stale", "same"}
 MCByDigest = {FALSE}
 MCTgtByDigest = {FALSE}
 MaxFaults = 0
 AllowCancel = FALSE
 AllowCrash = FALSE
 Cap = 0
INIT Init
NEXT Next
INVARIANTS TypeOK InvC04 InvFb InvFbListed InvC03 InvC14 InvC14T InvFailTag

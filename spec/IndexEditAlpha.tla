---------------------------- MODULE IndexEditAlpha ----------------------------
(***************************************************************************)
(* X03 - command constructors and the command alphabets used by the model  *)
(* checking configurations (IndexEditMC) and by the generator              *)
(* (IndexEditGen).  Mirrors no code.                                       *)
(***************************************************************************)
EXTENDS IndexEdit

C0 == Cmd("add", <<>>, <<>>, <<>>, <<>>, "", "", <<>>, "", "", FALSE, FALSE, FALSE)
Create(refs, plats) == [C0 EXCEPT !.op = "create", !.mt = "oci", !.refs = refs, !.plats = plats]
Add(refs, plats) == [C0 EXCEPT !.refs = refs, !.plats = plats]
Del(digs, plats) == [C0 EXCEPT !.op = "delete", !.digs = digs, !.plats = plats]

AlphaCore == {
  Create(<<"S1:ix1">>, <<"linux/amd64", "linux/arm/v7">>),
  Create(<<"S1:a64", "S1:arm64">>, <<>>),
  [Create(<<"S2:dl1">>, <<"linux/amd64">>) EXCEPT !.mt = "docker", !.ann = <<KV("a", "1")>>, !.at = "application/vnd.example.idx"],
  [Create(<<>>, <<>>) EXCEPT !.digs = <<"armv7", "armv7">>],
  [Create(<<"S1:a64">>, <<>>) EXCEPT !.mt = "bad"],
  [Create(<<"S1:a64">>, <<>>) EXCEPT !.bydig = TRUE],
  [Create(<<"S1:art">>, <<>>) EXCEPT !.subj = "a64", !.at = "application/vnd.example.idx", !.ann = <<KV("org.example.keep", "1")>>],
  [Create(<<>>, <<>>) EXCEPT !.subj = "v1"],
  Add(<<"S1:arm64">>, <<>>),
  [Add(<<"S1:a64">>, <<>>) EXCEPT !.dann = <<KV("a", "1")>>],
  [Add(<<"S1:ix1">>, <<"linux/amd64", "unknown/unknown">>) EXCEPT !.rfr = TRUE],
  [Add(<<"S1:a64">>, <<>>) EXCEPT !.dtags = TRUE],
  Add(<<"S1:nosuch">>, <<>>),
  Add(<<"S1:a64", "S1:nosuch">>, <<>>),
  Add(<<"S2:ixw">>, <<"windows/amd64,osver=10.0.17763", "linux/amd64">>),
  [Add(<<"S1:a64">>, <<>>) EXCEPT !.dplat = "linux/arm64/v8"],
  [Add(<<>>, <<>>) EXCEPT !.digs = <<"ghost">>],
  [Add(<<"S2:ixn">>, <<>>) EXCEPT !.digs = <<"armv8">>],
  Add(<<"S1:a64">>, <<"linux/amd64/bad!">>),
  Del(<<"a64">>, <<>>),
  Del(<<>>, <<"linux/amd64">>),
  Del(<<>>, <<"linux/arm", "windows/amd64,osver=10.0.17763.5458">>),
  Del(<<"art", "d64">>, <<"linux/arm64">>),
  Del(<<>>, <<"lin ux/amd64">>),
  Del(<<>>, <<"windows/amd64">>),
  Add(<<"S2:ixn">>, <<"linux/arm64">>),
  [Create(<<"S1:arm64">>, <<>>) EXCEPT !.digs = <<"armv7">>, !.dann = <<KV("a", "1"), KV("a", "3")>>]
}
\* a source that cannot be copied completely (only when the target is not that source repository)
AlphaBroken == {Add(<<"S1:ixb">>, <<>>), Add(<<"S1:ixb">>, <<"linux/arm64">>), Add(<<"S1:arm64", "S1:ixb">>, <<>>)}
\* an unparsable --desc-platform: as found it is swallowed (finding X03-1)
AlphaDescPlat == {[Add(<<"S1:a64">>, <<>>) EXCEPT !.dplat = "linux/amd64/bad!"],
                  [Create(<<"S1:a64">>, <<>>) EXCEPT !.dplat = "lin ux/amd64"]}
\* an annotation without value next to another key: as found descriptor.Equal takes them for equal (X03-3)
AlphaEqual == {[Create(<<"S1:armv7">>, <<>>) EXCEPT !.dann = <<KV("b", "")>>],
               [Add(<<"S1:armv7">>, <<>>) EXCEPT !.dann = <<KV("a", "1")>>],
               [Add(<<"S1:armv7">>, <<>>) EXCEPT !.dann = <<KV("b", "")>>], Del(<<"a64">>, <<>>)}
AlphaSmall == {Create(<<"S1:ix1">>, <<"linux/amd64", "linux/arm/v7">>), Add(<<"S1:arm64">>, <<>>),
               [Add(<<"S1:a64">>, <<>>) EXCEPT !.dann = <<KV("a", "1")>>], Add(<<"S1:a64", "S1:nosuch">>, <<>>),
               Del(<<"a64">>, <<>>), Del(<<>>, <<"linux/amd64">>), Add(<<"S1:ixb">>, <<>>)}
AlphaAll == AlphaCore \cup AlphaBroken
AlphaKnown == AlphaSmall \cup AlphaDescPlat

Allowed(c) == ~(same /\ \E i \in DOMAIN c.refs : c.refs[i] = "S1:ixb")

=============================================================================

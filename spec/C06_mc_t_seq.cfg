CONSTANTS
 Tags = {"t1", "t2", "t3"}
 Mans = {"m1", "m2", "m3"}
 TagOrder <- MCTagOrder3
 Procs = {"p1"}
 Confs <- SeqConfs3
 MaxOps = 4
 OpTags = {"t1", "t2", "t3"}
 OpMans = {"m1", "m2", "m3"}
 OpKinds <- AllKinds
 UseMutex = TRUE
 FreshPH = TRUE
SPECIFICATION Spec
INVARIANTS NoViol Glue Quiescent LayoutGlue WellFormed CacheCoherent GetStable HeadStable
CHECK_DEADLOCK FALSE

SPECIFICATION Spec
CONSTANTS
 FewerIsMismatch = FALSE
 NilCreatedSafe = TRUE
 NilPlatformSafe = TRUE
 Mut = ""
 Level = 0
INVARIANTS Holds
CHECK_DEADLOCK FALSE

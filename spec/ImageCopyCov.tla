---------------------------- MODULE ImageCopyCov ----------------------------
(* Coverage sanity of (D) ImageCopy: the next-state relation with every action  *)
(* of the spec as a separately named disjunct, so that `tlc -coverage` reports   *)
(* how often each one was taken.  The thorough tier of C03 runs it in            *)
(* simulation over a mixed configuration space (faults, cancellation and crash   *)
(* thinned out at random as in ImageCopyGen) and lists actions never taken       *)
(* (vacuous) in the evidence.                                                    *)
EXTENDS ImageCopyMC
CONSTANT Rare
Sometimes == RandomElement(1..(Rare + 0 * Len(tasks))) = 1

CovMStart == Live /\ \E i \in Ids : MStart(i) /\ (faults' > faults => Sometimes)
CovWSeen == Live /\ \E i \in Ids : WSeen(i) /\ (faults' > faults => Sometimes)
CovMHeadT == Live /\ \E i \in Ids : MHeadT(i) /\ (faults' > faults => Sometimes)
CovMHeadT2 == Live /\ \E i \in Ids : MHeadT2(i) /\ (faults' > faults => Sometimes)
CovMHeadS == Live /\ \E i \in Ids : MHeadS(i) /\ (faults' > faults => Sometimes)
CovMHeadS2 == Live /\ \E i \in Ids : MHeadS2(i) /\ (faults' > faults => Sometimes)
CovMSeenS == Live /\ \E i \in Ids : MSeenS(i) /\ (faults' > faults => Sometimes)
CovMGetS == Live /\ \E i \in Ids : MGetS(i) /\ (faults' > faults => Sometimes)
CovMSeenG == Live /\ \E i \in Ids : MSeenG(i) /\ (faults' > faults => Sometimes)
CovMSpawn == Live /\ \E i \in Ids : MSpawn(i) /\ (faults' > faults => Sometimes)
CovWait1Go == Live /\ \E i \in Ids : Wait1Go(i) /\ (faults' > faults => Sometimes)
CovWaitFail == Live /\ \E i \in Ids : WaitFail(i) /\ (faults' > faults => Sometimes)
CovMRefs == Live /\ \E i \in Ids : MRefs(i) /\ (faults' > faults => Sometimes)
CovMRefs2 == Live /\ \E i \in Ids : MRefs2(i) /\ (faults' > faults => Sometimes)
CovMDTags == Live /\ \E i \in Ids : MDTags(i) /\ (faults' > faults => Sometimes)
CovMDTagsR == Live /\ \E i \in Ids : MDTagsR(i) /\ (faults' > faults => Sometimes)
CovMDTags2 == Live /\ \E i \in Ids : MDTags2(i) /\ (faults' > faults => Sometimes)
CovWait2Done == Live /\ \E i \in Ids : Wait2Done(i) /\ (faults' > faults => Sometimes)
CovMPut == Live /\ \E i \in Ids : MPut(i) /\ (faults' > faults => Sometimes)
CovMFbGet == Live /\ \E i \in Ids : MFbGet(i) /\ (faults' > faults => Sometimes)
CovMFbPut == Live /\ \E i \in Ids : MFbPut(i) /\ (faults' > faults => Sometimes)
CovBStart == Live /\ \E i \in Ids : BStart(i) /\ (faults' > faults => Sometimes)
CovBHead == Live /\ \E i \in Ids : BHead(i) /\ (faults' > faults => Sometimes)
CovBAcq == Live /\ \E i \in Ids : BAcq(i) /\ (faults' > faults => Sometimes)
CovBMount == Live /\ \E i \in Ids : BMount(i) /\ (faults' > faults => Sometimes)
CovBMDel == Live /\ \E i \in Ids : BMDel(i) /\ (faults' > faults => Sometimes)
CovBGet == Live /\ \E i \in Ids : BGet(i) /\ (faults' > faults => Sometimes)
CovBPost == Live /\ \E i \in Ids : BPost(i) /\ (faults' > faults => Sometimes)
CovBPost2 == Live /\ \E i \in Ids : BPost2(i) /\ (faults' > faults => Sometimes)
CovBPut == Live /\ \E i \in Ids : BPut(i) /\ (faults' > faults => Sometimes)
CovBRewind == Live /\ \E i \in Ids : BRewind(i) /\ (faults' > faults => Sometimes)
CovBPatch == Live /\ \E i \in Ids : BPatch(i) /\ (faults' > faults => Sometimes)
CovBPut2 == Live /\ \E i \in Ids : BPut2(i) /\ (faults' > faults => Sometimes)
CovBDel == Live /\ \E i \in Ids : BDel(i) /\ (faults' > faults => Sometimes)
CovRetry == Live /\ \E i \in Ids : Retry(i) /\ (faults' > faults => Sometimes)
CovConsume == Live /\ \E i, c \in Ids : Consume(i, c)
CovReturn == Live /\ Return
CovCancel == Live /\ Cancel /\ Sometimes
CovCrash == Live /\ Crash /\ Sometimes
CovNext == \/ CovMStart
        \/ CovWSeen
        \/ CovMHeadT
        \/ CovMHeadT2
        \/ CovMHeadS
        \/ CovMHeadS2
        \/ CovMSeenS
        \/ CovMGetS
        \/ CovMSeenG
        \/ CovMSpawn
        \/ CovWait1Go
        \/ CovWaitFail
        \/ CovMRefs
        \/ CovMRefs2
        \/ CovMDTags
        \/ CovMDTagsR
        \/ CovMDTags2
        \/ CovWait2Done
        \/ CovMPut
        \/ CovMFbGet
        \/ CovMFbPut
        \/ CovBStart
        \/ CovBHead
        \/ CovBAcq
        \/ CovBMount
        \/ CovBMDel
        \/ CovBGet
        \/ CovBPost
        \/ CovBPost2
        \/ CovBPut
        \/ CovBRewind
        \/ CovBPatch
        \/ CovBPut2
        \/ CovBDel
        \/ CovRetry
        \/ CovConsume
        \/ CovReturn
        \/ CovCancel
        \/ CovCrash
=============================================================================

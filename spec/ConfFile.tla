------------------------------ MODULE ConfFile ------------------------------
(***************************************************************************)
(* (D) design spec for area X02: the save protocol of regctl's             *)
(* configuration file at SYSTEM CALL granularity, the commands that load,  *)
(* change and save it, process death (kill -9) between any two calls, and  *)
(* a fresh reader / a re-run of the interrupted command afterwards.        *)
(*                                                                         *)
(* Code mirrored (one action per system call / critical section):          *)
(*   Start, Load      cmd/regctl/config.go:ConfigLoadDefault ->            *)
(*                    ConfigLoadConfFile (conffile.Open, json Decode; a    *)
(*                    missing file is an empty config, an unreadable one   *)
(*                    fails the command before anything is written)        *)
(*   Apply            cmd/regctl/registry.go:runRegistryLogin / Logout /   *)
(*                    Set, config.go:runConfigSet (the change made to the  *)
(*                    loaded Config; logout of an unknown host returns     *)
(*                    without saving), config.go:ConfigSave (MarshalIndent *)
(*                    -> bytes.Reader -> conffile.Write)                   *)
(*   StatDir, Mkdir   internal/conffile/conffile.go:Write os.MkdirAll(dir, *)
(*                    0700) (Stat fast path, one mkdir per missing level)  *)
(*   Creat            Write: os.CreateTemp(dir, base) = openat(O_RDWR|     *)
(*                    O_CREAT|O_EXCL, 0600) of a fresh random name         *)
(*   Fstat            Write: tmp.Stat(); the deferred os.Remove of the     *)
(*                    temp file is registered after it                     *)
(*   WriteChunk,      Write: io.Copy(tmp, rdr): one write(2) per chunk the *)
(*   CopyFail,CopyEOF reader delivers (a bytes.Reader delivers one chunk); *)
(*                    a reader error or a write error ends the copy        *)
(*   Close            Write: tmp.Close() (always; error reported after a   *)
(*                    copy error)                                          *)
(*   Stat             Write: os.Stat(fullname): existing regular file ->   *)
(*                    its mode; existing -> its owner; ENOENT -> 0600 and  *)
(*                    the process's uid/gid; other errors fail the save    *)
(*   Chmod, Chown     Write: os.Chmod(tmp, mode); os.Chown(tmp, uid, gid)  *)
(*                    whenever the ids are known ("uid >= 0 && gid >= 0",  *)
(*                    i.e. always on unix, since c56fb15), error ignored   *)
(*   Rename           Write: os.Rename(tmp, fullname)                      *)
(*   Unlink           Write: deferred os.Remove(tmp) (ENOENT after a       *)
(*                    successful rename)                                   *)
(*   Crash, CrashOne  kill -9 of every / of one saving process             *)
(*   Retry            the interrupted command run again by a new process   *)
(*                    on what the crash left (stale temp files included)   *)
(*                                                                         *)
(* Deliberate deviations:                                                  *)
(*  - content is symbolic: a configuration value is <<entry A, entry B,    *)
(*    blob limit>>, an entry <<>> (no such host) or <<credential, tls>>;   *)
(*    a file holds [c: value, n: chunks written, sz: chunks of c] and is   *)
(*    complete iff n = sz (the JSON text itself is the business of the     *)
(*    independent parser on the real-code side)                            *)
(*  - users/groups: 0 = root, 1000 = the user running regctl, 2000 =       *)
(*    another user; chown succeeds for root, and for a user only when it   *)
(*    changes nothing                                                      *)
(*  - one fault per command (scenario input), on mkdir / creat / a read of *)
(*    the source / write / close / stat / chmod / chown / rename.  fstat   *)
(*    on a descriptor just opened and the final unlink are not failed (the *)
(*    code would leak the temp file on the first: noted in design.d/X02.md)*)
(*  - the pre-check of the directory by MkdirAll is one StatDir step       *)
(*  - Variant is a switch: "code" = the code as it is since /repo c56fb15  *)
(*    (baseline of every config that must hold and of the trace binding):  *)
(*    the temp file is chowned to the owner of the file it replaces        *)
(*    whenever that owner is known.  "asfound" keeps the guard as it was   *)
(*    found ("if uid > 0 && gid > 0": no chown when the owner OR the group *)
(*    of the existing file is root): finding X02-1; its config             *)
(*    X02_mc_asfound_owner.cfg carries the expected counterexample         *)
(*    (S3-owner-kept) and explains the seed fixrev-X02-owner-root-group.   *)
(*    The other values are DESIGN-LEVEL MUTANTS kept to show that every    *)
(*    invariant can fail: "inplace" (write the config path directly),      *)
(*    "noremove" (no deferred remove), "tmp666" (temp file created 0666 &  *)
(*    ~umask), "chmodlate" (chmod after the rename), "nochmod" (existing   *)
(*    mode not carried over)                                               *)
(***************************************************************************)
EXTENDS Integers, Sequences, FiniteSets, TLC, ConfFileObl

CONSTANTS Scenarios,   \* set of [mode: "seq" | "race", start, id, umask, ws: sequence of commands]
          MaxCrash,    \* 0 no crash; 1 crash + retry; 2 the retry may be killed as well
          Variant

VARIABLES fs,    \* [miss, dir_mode, cfg, tmp, stale]  the directory
          pr,    \* slot -> the saving process in that slot
          ctl    \* [scen, phase, crashes, pvset, pv, news, ended, okn, base]
vars == <<fs, pr, ctl>>

MaxSlots == 4
Slots == 1..MaxSlots
Sc == ctl.scen
NW == Len(Sc.ws)

(* ------------------------------ values --------------------------------- *)
Hosts == <<"A", "B">>
HI(h) == IF h = "A" THEN 1 ELSE 2
EmptyVal == << <<>>, <<>>, "0" >>
\* registry.go: what each command makes of the loaded configuration
Apply(c, v) ==
  CASE c.kind = "put" -> c.val
    [] c.kind = "login" -> [v EXCEPT ![HI(c.h)] = IF @ = <<>> THEN <<c.u, "enabled">> ELSE <<c.u, @[2]>>]
    [] c.kind = "logout" -> [v EXCEPT ![HI(c.h)] = IF @ = <<>> THEN @ ELSE <<"none", @[2]>>]
    [] c.kind = "set" -> [v EXCEPT ![HI(c.h)] = IF @ = <<>> THEN <<"none", c.v>> ELSE <<@[1], c.v>>]
    [] c.kind = "cset" -> [v EXCEPT ![3] = c.v]
Saves(c, v) == ~(c.kind = "logout" /\ v[HI(c.h)] = <<>>)       \* runRegistryLogout: "No configuration/credentials found"
\* the table an independent parser would read from a complete file holding v
CredOf(x) == CASE x = "u1" -> <<"u1", "p1", "">> [] x = "u2" -> <<"u2", "p2", "">> [] x = "tok" -> <<"", "", "p3">>
               [] OTHER -> <<"", "", "">>
TabOf(v) ==
  LET hs == SelectSeq(Hosts, LAMBDA h : v[HI(h)] # <<>>)
  IN [parse |-> "ok", hn |-> hs,
      hu |-> [i \in 1..Len(hs) |-> CredOf(v[HI(hs[i])][1])[1]],
      hp |-> [i \in 1..Len(hs) |-> CredOf(v[HI(hs[i])][1])[2]],
      ht |-> [i \in 1..Len(hs) |-> CredOf(v[HI(hs[i])][1])[3]],
      hl |-> [i \in 1..Len(hs) |-> v[HI(hs[i])][2]],
      hr |-> [i \in 1..Len(hs) |-> "r"], blob |-> v[3], top |-> "t"]
\* the command as (P) sees it: user name and password of the symbolic credential
CmdOf(c) == [kind |-> c.kind, h |-> c.h, v |-> c.v,
             u |-> IF c.u = "tok" THEN "<token>" ELSE c.u,
             p |-> CASE c.u = "u1" -> "p1" [] c.u = "u2" -> "p2" [] c.u = "tok" -> "p3" [] OTHER -> ""]
Label(c) == "c:" \o ToString(c)

(* ------------------------------ modes ---------------------------------- *)
RECURSIVE AndNotR(_, _, _)
AndNotR(x, m, i) == IF i > 11 THEN 0 ELSE (2^i) * Bit(x, i) * (1 - Bit(m, i)) + AndNotR(x, m, i + 1)
AndNot(x, m) == AndNotR(x, m, 0)
TmpPerm == IF Variant = "tmp666" THEN 438 ELSE 384        \* 0666 / 0600 (os.CreateTemp)

(* ------------------------------ the directory -------------------------- *)
NoFile == [ex |-> FALSE, c |-> EmptyVal, n |-> 0, sz |-> 0, mode |-> 0, uid |-> 0, gid |-> 0]
NoCfg == [kind |-> "none", c |-> EmptyVal, n |-> 0, sz |-> 0, mode |-> 0, uid |-> 0, gid |-> 0]
DirEx == fs.miss = 0
Complete(f) == f.n = f.sz
CfgLabel == CASE fs.cfg.kind = "none" -> "absent" [] fs.cfg.kind = "dir" -> "dir"
              [] Complete(fs.cfg) -> Label(fs.cfg.c)
              [] OTHER -> "torn:" \o ToString(<<fs.cfg.c, fs.cfg.n>>)
TmpSeq == SelectSeq([i \in Slots |-> i], LAMBDA i : fs.tmp[i].ex)
Facts == [cfg |-> CfgLabel, cfg_mode |-> fs.cfg.mode, cfg_uid |-> fs.cfg.uid, cfg_gid |-> fs.cfg.gid,
          dir_ex |-> IF DirEx THEN 1 ELSE 0, dir_mode |-> IF DirEx THEN fs.dir_mode ELSE 0,
          tmp_go |-> [i \in 1..Len(TmpSeq) |-> GO(fs.tmp[TmpSeq[i]].mode)] \o [i \in 1..fs.stale |-> 0],
          tmp_n |-> Len(TmpSeq) + fs.stale, others |-> "none"]     \* (D) has no other files: nothing to touch
\* "may set the owner": root, unless the scenario makes its chown fail (then the code goes on, the error is ignored)
Ident == [priv |-> IF Sc.id.uid = 0 /\ \A i \in 1..Len(Sc.ws) : Sc.ws[i].fault.at # "chown" THEN 1 ELSE 0, uid |-> Sc.id.uid, gid |-> Sc.id.gid]
CurTab == CASE fs.cfg.kind = "none" -> [TabOf(EmptyVal) EXCEPT !.parse = "absent"]
            [] fs.cfg.kind = "file" /\ Complete(fs.cfg) -> TabOf(fs.cfg.c)
            [] OTHER -> [TabOf(EmptyVal) EXCEPT !.parse = "bad"]

(* ------------------------------ processes ------------------------------ *)
Off == [pc |-> "off", cmd |-> 0, k |-> 0, err |-> "", mode |-> 0, uid |-> 0, gid |-> 0, val |-> EmptyVal, sz |-> 0,
        fd |-> FALSE, dfr |-> FALSE, flt |-> TRUE, saved |-> FALSE]
Cmd(w) == Sc.ws[pr[w].cmd]
Fault(w) == IF pr[w].flt THEN Cmd(w).fault ELSE [at |-> "none", k |-> 0]      \* a re-run is not faulted
FaultAt(w, at, k) == Fault(w).at = at /\ Fault(w).k = k
Active(w) == pr[w].pc \notin {"off", "idle", "done", "dead"}
InPlace == Variant = "inplace"
\* the file the copy goes to: the temp file of the slot, or (mutant) the config path itself
Dst(w) == IF InPlace THEN fs.cfg ELSE fs.tmp[w]
SetDst(w, f) == IF InPlace THEN [fs EXCEPT !.cfg = f] ELSE [fs EXCEPT !.tmp[w] = f]

Fail(w, what, cleanup) ==      \* the error path of Write: return, running the deferred remove when registered
  pr' = [pr EXCEPT ![w].err = what, ![w].pc = IF cleanup /\ pr[w].dfr THEN "unlink" ELSE "ret"]

Init ==
  \E sc \in Scenarios :
    /\ fs = [miss |-> sc.start.miss, dir_mode |-> sc.start.dir_mode, cfg |-> sc.start.cfg,
             tmp |-> [i \in Slots |-> NoFile], stale |-> sc.start.stale]
    /\ pr = [i \in Slots |-> IF i <= Len(sc.ws) THEN [Off EXCEPT !.pc = "idle", !.cmd = i] ELSE Off]
    /\ ctl = [scen |-> sc, phase |-> "run", crashes |-> 0, pvset |-> FALSE, pv |-> [cfg |-> "absent"], news |-> {},
              ended |-> 0, okn |-> {}, base |-> {}]

\* the first step of a command: ConfigLoadDefault opens the file
Start(w) ==
  /\ pr[w].pc = "idle" /\ ctl.phase \in {"run", "retry"}
  /\ Sc.mode = "seq" => \A v \in 1..(w - 1) : pr[v].pc \in {"done", "off", "dead"}
  /\ pr' = [pr EXCEPT ![w].pc = IF Cmd(w).kind = "put" THEN "statdir" ELSE "load"]
  /\ ctl' = IF Sc.mode = "seq" \/ ~ctl.pvset
            THEN [ctl EXCEPT !.pv = Facts, !.pvset = TRUE, !.news = IF Sc.mode = "seq" /\ ctl.phase = "run" THEN {} ELSE @, !.ended = 0,
                             !.base = IF Sc.mode = "seq" THEN {CurTab} ELSE @ \cup {CurTab}]
            ELSE [ctl EXCEPT !.ended = 0]
  /\ UNCHANGED fs

\* ConfigLoadConfFile + the command's change; the bytes to save are then fixed
Load(w) ==
  /\ pr[w].pc = "load"
  /\ LET readable == fs.cfg.kind = "none" \/ (fs.cfg.kind = "file" /\ Complete(fs.cfg))
         v == IF fs.cfg.kind = "none" THEN EmptyVal ELSE fs.cfg.c
     IN IF ~readable THEN Fail(w, "load", FALSE) /\ UNCHANGED ctl
        ELSE IF ~Saves(Cmd(w), v) THEN pr' = [pr EXCEPT ![w].pc = "ret", ![w].val = v] /\ UNCHANGED ctl
        ELSE /\ pr' = [pr EXCEPT ![w].pc = "statdir", ![w].val = Apply(Cmd(w), v)]
             /\ ctl' = [ctl EXCEPT !.news = @ \cup {Label(Apply(Cmd(w), v))}]
  /\ UNCHANGED fs

\* a "put" (the driver saving given bytes through conffile.Write) has no load: its content is known at once
PutVal(w) == IF pr[w].cmd # 0 /\ Cmd(w).kind = "put" THEN Cmd(w).val ELSE pr[w].val

StatDir(w) ==       \* os.MkdirAll: Stat of the directory chain
  /\ pr[w].pc = "statdir"
  /\ pr' = [pr EXCEPT ![w].pc = IF DirEx THEN "creat" ELSE "mkdir", ![w].val = PutVal(w), ![w].sz = Cmd(w).n,
                      ![w].saved = TRUE]
  /\ ctl' = [ctl EXCEPT !.news = @ \cup {Label(PutVal(w))}]
  /\ UNCHANGED fs

Mkdir(w) ==         \* one mkdirat per missing level; EEXIST (another process was faster) is not an error
  /\ pr[w].pc = "mkdir"
  /\ IF FaultAt(w, "mkdir", 0) THEN Fail(w, "mkdir", FALSE) /\ UNCHANGED fs
     ELSE /\ fs' = IF DirEx THEN fs
                   ELSE [fs EXCEPT !.miss = @ - 1, !.dir_mode = IF fs.miss = 1 THEN AndNot(448, Sc.umask) ELSE @]
          /\ pr' = [pr EXCEPT ![w].pc = IF fs.miss <= 1 THEN "creat" ELSE "mkdir"]
  /\ UNCHANGED ctl

Creat(w) ==         \* os.CreateTemp
  /\ pr[w].pc = "creat"
  /\ IF FaultAt(w, "creat", 0) THEN Fail(w, "creat", FALSE) /\ UNCHANGED fs
     ELSE IF InPlace
     THEN /\ fs.cfg.kind # "dir"
          /\ fs' = [fs EXCEPT !.cfg = IF @.kind = "file" THEN [@ EXCEPT !.c = pr[w].val, !.n = 0, !.sz = pr[w].sz]
                                      ELSE [kind |-> "file", c |-> pr[w].val, n |-> 0, sz |-> pr[w].sz,
                                            mode |-> AndNot(384, Sc.umask), uid |-> Sc.id.uid, gid |-> Sc.id.gid]]
          /\ pr' = [pr EXCEPT ![w].pc = "copy", ![w].fd = TRUE]
     ELSE /\ fs' = [fs EXCEPT !.tmp[w] = [ex |-> TRUE, c |-> pr[w].val, n |-> 0, sz |-> pr[w].sz,
                                         mode |-> AndNot(TmpPerm, Sc.umask), uid |-> Sc.id.uid, gid |-> Sc.id.gid]]
          /\ pr' = [pr EXCEPT ![w].pc = "fstat", ![w].fd = TRUE]
  /\ UNCHANGED ctl

Fstat(w) ==         \* tmp.Stat(); defer os.Remove(tmp)
  /\ pr[w].pc = "fstat"
  /\ pr' = [pr EXCEPT ![w].pc = "copy", ![w].dfr = Variant # "noremove"]
  /\ UNCHANGED <<fs, ctl>>

WriteChunk(w) ==    \* io.Copy: Read a chunk, write(2) it
  /\ pr[w].pc = "copy" /\ pr[w].k < pr[w].sz
  /\ ~FaultAt(w, "read", pr[w].k) /\ ~FaultAt(w, "write", pr[w].k)
  /\ fs' = SetDst(w, [Dst(w) EXCEPT !.n = @ + 1])
  /\ pr' = [pr EXCEPT ![w].k = @ + 1]
  /\ UNCHANGED ctl

CopyFail(w) ==      \* the source reader fails, or write(2) fails (ENOSPC, EIO): nothing of that chunk is written
  /\ pr[w].pc = "copy"
  /\ \/ FaultAt(w, "read", pr[w].k) /\ pr[w].k <= pr[w].sz
     \/ FaultAt(w, "write", pr[w].k) /\ pr[w].k < pr[w].sz
  /\ pr' = [pr EXCEPT ![w].pc = "close", ![w].err = Fault(w).at]
  /\ UNCHANGED <<fs, ctl>>

CopyEOF(w) ==
  /\ pr[w].pc = "copy" /\ pr[w].k = pr[w].sz /\ ~FaultAt(w, "read", pr[w].k)
  /\ pr' = [pr EXCEPT ![w].pc = "close"]
  /\ UNCHANGED <<fs, ctl>>

Close(w) ==         \* tmp.Close(); "failed to write config" / "failed to close config"
  /\ pr[w].pc = "close"
  /\ LET e == IF pr[w].err # "" THEN pr[w].err ELSE IF FaultAt(w, "close", 0) THEN "close" ELSE ""
     IN pr' = [pr EXCEPT ![w].fd = FALSE, ![w].err = e,
                         ![w].pc = IF e # "" THEN (IF pr[w].dfr THEN "unlink" ELSE "ret")
                                   ELSE IF InPlace THEN "ret" ELSE "stat"]
  /\ UNCHANGED <<fs, ctl>>

Stat(w) ==          \* os.Stat(fullname)
  /\ pr[w].pc = "stat"
  /\ IF FaultAt(w, "stat", 0) THEN Fail(w, "stat", TRUE)
     ELSE pr' = [pr EXCEPT ![w].pc = "chmod",
                           ![w].mode = IF fs.cfg.kind = "file" /\ Variant # "nochmod" THEN fs.cfg.mode ELSE 384,
                           ![w].uid = IF fs.cfg.kind = "none" THEN Sc.id.uid ELSE fs.cfg.uid,
                           ![w].gid = IF fs.cfg.kind = "none" THEN Sc.id.gid ELSE fs.cfg.gid]
  /\ UNCHANGED <<fs, ctl>>

ChownWanted(w) == IF Variant = "asfound" THEN pr[w].uid > 0 /\ pr[w].gid > 0 ELSE TRUE
ChownWorks(w) == /\ ~FaultAt(w, "chown", 0)
                 /\ Sc.id.uid = 0 \/ (pr[w].uid = fs.tmp[w].uid /\ pr[w].gid = fs.tmp[w].gid)
AfterChmod(w) == IF ChownWanted(w) THEN "chown" ELSE "rename"

Chmod(w) ==
  /\ pr[w].pc = "chmod"
  /\ IF Variant = "chmodlate" THEN pr' = [pr EXCEPT ![w].pc = AfterChmod(w)] /\ UNCHANGED fs
     ELSE IF FaultAt(w, "chmod", 0) THEN Fail(w, "chmod", TRUE) /\ UNCHANGED fs
     ELSE /\ fs' = [fs EXCEPT !.tmp[w].mode = pr[w].mode]
          /\ pr' = [pr EXCEPT ![w].pc = AfterChmod(w)]
  /\ UNCHANGED ctl

Chown(w) ==         \* the error of os.Chown is ignored
  /\ pr[w].pc = "chown"
  /\ fs' = IF ChownWorks(w) THEN [fs EXCEPT !.tmp[w].uid = pr[w].uid, !.tmp[w].gid = pr[w].gid] ELSE fs
  /\ pr' = [pr EXCEPT ![w].pc = "rename"]
  /\ UNCHANGED ctl

Rename(w) ==        \* os.Rename(tmp, fullname): atomic replacement; a directory in the way is an error
  /\ pr[w].pc = "rename"
  /\ IF FaultAt(w, "rename", 0) \/ fs.cfg.kind = "dir" THEN Fail(w, "rename", TRUE) /\ UNCHANGED fs
     ELSE /\ fs' = [fs EXCEPT !.cfg = [kind |-> "file", c |-> fs.tmp[w].c, n |-> fs.tmp[w].n, sz |-> fs.tmp[w].sz,
                                      mode |-> fs.tmp[w].mode, uid |-> fs.tmp[w].uid, gid |-> fs.tmp[w].gid],
                           !.tmp[w] = NoFile]
          /\ pr' = [pr EXCEPT ![w].pc = IF Variant = "chmodlate" THEN "chmod2" ELSE IF pr[w].dfr THEN "unlink" ELSE "ret"]
  /\ UNCHANGED ctl

Chmod2(w) ==        \* mutant "chmodlate": the mode is set on the config path after the rename
  /\ pr[w].pc = "chmod2"
  /\ fs' = [fs EXCEPT !.cfg.mode = pr[w].mode]
  /\ pr' = [pr EXCEPT ![w].pc = IF pr[w].dfr THEN "unlink" ELSE "ret"]
  /\ UNCHANGED ctl

Unlink(w) ==        \* deferred os.Remove(tmp): ENOENT after a successful rename
  /\ pr[w].pc = "unlink"
  /\ fs' = [fs EXCEPT !.tmp[w] = NoFile]
  /\ pr' = [pr EXCEPT ![w].pc = "ret"]
  /\ UNCHANGED ctl

Return(w) ==        \* the command returns (exit status = err)
  /\ pr[w].pc = "ret"
  /\ pr' = [pr EXCEPT ![w].pc = "done"]
  /\ ctl' = [ctl EXCEPT !.ended = w,
                        !.okn = IF pr[w].err = "" /\ pr[w].saved THEN @ \cup {Label(pr[w].val)} ELSE @,
                        !.phase = IF ctl.phase = "retry" THEN "end" ELSE @]
  /\ UNCHANGED fs

Step(w) == \/ Start(w) \/ Load(w) \/ StatDir(w) \/ Mkdir(w) \/ Creat(w) \/ Fstat(w) \/ WriteChunk(w) \/ CopyFail(w)
           \/ CopyEOF(w) \/ Close(w) \/ Stat(w) \/ Chmod(w) \/ Chown(w) \/ Rename(w) \/ Chmod2(w) \/ Unlink(w)
           \/ Return(w)

\* kill -9 of every process of the scenario, between any two steps
Crash ==
  /\ ctl.phase \in {"run", "retry"} /\ ctl.crashes < MaxCrash
  /\ \E w \in Slots : Active(w)
  /\ pr' = [w \in Slots |-> IF Active(w) THEN [pr[w] EXCEPT !.pc = "dead", !.fd = FALSE]
                            ELSE IF pr[w].pc = "idle" THEN [pr[w] EXCEPT !.pc = "off"] ELSE pr[w]]
  /\ ctl' = [ctl EXCEPT !.phase = "crashed", !.crashes = @ + 1, !.ended = 0]
  /\ UNCHANGED fs

\* kill -9 of one of two racing processes; the other one goes on
CrashOne(w) ==
  /\ Sc.mode = "race" /\ ctl.phase = "run" /\ ctl.crashes < MaxCrash
  /\ Active(w) /\ \E v \in Slots \ {w} : Active(v) \/ pr[v].pc = "idle"
  /\ pr' = [pr EXCEPT ![w].pc = "dead", ![w].fd = FALSE]
  /\ ctl' = [ctl EXCEPT !.crashes = @ + 1]
  /\ UNCHANGED fs

\* the interrupted command is run again by a new process (a fresh reader first: the load of that command)
Retry ==
  /\ ctl.phase = "crashed"
  /\ \E i \in Slots : pr[i].pc = "off"
  /\ \E d \in Slots : /\ pr[d].pc = "dead"
                      /\ LET s == CHOOSE i \in Slots : pr[i].pc = "off" /\ \A j \in Slots : pr[j].pc = "off" => i <= j
                         IN pr' = [pr EXCEPT ![s] = [Off EXCEPT !.pc = "idle", !.cmd = pr[d].cmd, !.flt = FALSE]]
  /\ ctl' = [ctl EXCEPT !.phase = "retry"]
  /\ UNCHANGED fs

Next == (\E w \in Slots : Step(w) \/ CrashOne(w)) \/ Crash \/ Retry
Spec == Init /\ [][Next]_vars

(* ------------------------------ invariants ----------------------------- *)
\* every state is an instant at which the process may die: S1 and S3 hold in all of them
PV == IF ctl.pvset THEN ctl.pv ELSE Facts
StateFail == Failing(StateChecks(Facts, PV, ctl.news, Ident))
StateOk == StateFail = <<>>

\* a command has just returned (commands one after the other): S2 and S4 against the state it started from.
\* A re-run after a crash may find its own new content already in place: then "previous" is that content.
EndFail ==
  IF ctl.ended = 0 \/ Sc.mode # "seq" THEN <<>>
  ELSE LET w == ctl.ended
           ok == IF pr[w].err = "" THEN 1 ELSE 0
       IN Failing(EndChecks(Facts, PV, IF pr[w].saved THEN Label(pr[w].val) ELSE PV.cfg, ok)
                  \o CmdChecks(CmdOf(Cmd(w)), ctl.base, CurTab, ok))
EndOk == EndFail = <<>>

\* racing commands: when all have returned or died, the file is the complete output of one that reported success
AllReturned == \A w \in Slots : pr[w].pc \in {"done", "off", "dead"}
RaceEndFail ==
  IF Sc.mode # "race" \/ ~AllReturned \/ ctl.crashes > 0 THEN <<>>
  ELSE Failing(RaceEndChecks(Facts, PV, ctl.okn))
RaceEndOk == RaceEndFail = <<>>

\* a fresh reader (ConfigLoadDefault) can load what a crash left behind
StartReadable == Sc.start.cfg.kind = "none" \/ (Sc.start.cfg.kind = "file" /\ Sc.start.cfg.n = Sc.start.cfg.sz)
FreshOk == (ctl.phase = "crashed" /\ StartReadable) => CurTab.parse # "bad"

\* the re-run of an interrupted command succeeds (nothing a crash leaves behind blocks it)
RetryOk == (ctl.phase = "end" /\ ctl.ended # 0) => (pr[ctl.ended].err = "" \/ ~StartReadable)

\* sanity of the model itself
TypeOk == /\ fs.miss \in 0..2 /\ fs.cfg.kind \in {"none", "file", "dir"}
          /\ \A w \in Slots : pr[w].fd => (Active(w))
=============================================================================

CONSTANTS
 Copies = {"c1", "c2"}
 Confs <- SweepConfs
 MaxCloses = 2
 MaxOps = 1
 KeyMode = "resolve"
 LockRefTgt = TRUE
 CtxKinds = {"bg"}
 MarkCtx = FALSE
 Eager = FALSE
 SweepLocked <- FalseVal
SPECIFICATION Spec
INVARIANTS TypeOK LocksNonNeg
PROPERTIES O1 O3
CHECK_DEADLOCK FALSE

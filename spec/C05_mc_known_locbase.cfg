\* expected counterexample: resolving the Location against the URL that was requested (not the one
\* that answered) loses the session as soon as a redirect meets a reference without a host
SPECIFICATION LSpec
CONSTANTS
  Base = "requested"
  NReq = 4
INVARIANTS Reached
CHECK_DEADLOCK FALSE

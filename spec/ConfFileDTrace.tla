---------------------------- MODULE ConfFileDTrace ----------------------------
(***************************************************************************)
(* Binding of the design spec of area X02 to the code: the sequence of     *)
(* system calls recorded from the real regctl / x02drv (strace; calls on   *)
(* the configuration directory, classified by tools/props/x02.py, with     *)
(* their results) for a sequential scenario must be a behaviour of         *)
(* ConfFile started in that scenario (the header carries the scenario      *)
(* record that ConfFileGen printed).  Each recorded call is matched by the *)
(* action of that name of the running command with the same outcome; the   *)
(* steps of (D) that make no system call (Start, CopyEOF, a failing read   *)
(* of the source) are silent.  A trace that cannot be matched is DRIFT     *)
(* between (D) and the code - counted in the evidence, never a violation.  *)
(* Every trace of the batch is its own behaviour; TLCGet(h) keeps the      *)
(* high-water mark of the trace whose header is line h.                    *)
(* Mirrors: ConfFile's actions; deviations: none.                          *)
(***************************************************************************)
EXTENDS ConfFile, Json, IOUtils
Log == ndJsonDeserialize(IOEnv.VERIF_TRACE)
VARIABLES l, h
Ev == Log[l]
DStarts == {i \in 1..Len(Log) : Log[i].ev = "reset"}
DInit == \E i \in DStarts :
           /\ h = i /\ l = i + 1
           /\ LET sc == Log[i].scn IN
              /\ fs = [miss |-> sc.start.miss, dir_mode |-> sc.start.dir_mode, cfg |-> sc.start.cfg,
                       tmp |-> [j \in Slots |-> NoFile], stale |-> sc.start.stale]
              /\ pr = [j \in Slots |-> IF j <= Len(sc.ws) THEN [Off EXCEPT !.pc = "idle", !.cmd = j] ELSE Off]
              /\ ctl = [scen |-> sc, phase |-> "run", crashes |-> 0, pvset |-> FALSE, pv |-> [cfg |-> "absent"],
                        news |-> {}, ended |-> 0, okn |-> {}, base |-> {}]

\* the outcome of the step just taken by w: 1 = the call succeeded
Outcome(w) == IF pr'[w].err = pr[w].err THEN 1 ELSE 0
DSys(w, e) ==
  CASE e.call = "load" -> Load(w) /\ e.ok = Outcome(w)
    [] e.call = "statdir" -> StatDir(w)
    [] e.call = "mkdir" -> Mkdir(w) /\ e.ok = Outcome(w)
    [] e.call = "creat" -> Creat(w) /\ e.ok = Outcome(w)
    [] e.call = "fstat" -> Fstat(w)
    [] e.call = "write" -> IF e.ok = 1 THEN WriteChunk(w) ELSE (CopyFail(w) /\ Fault(w).at = "write")
    [] e.call = "close" -> Close(w) /\ e.ok = (IF FaultAt(w, "close", 0) THEN 0 ELSE 1)
    [] e.call = "stat" -> Stat(w) /\ e.ok = Outcome(w)
    [] e.call = "chmod" -> Chmod(w) /\ e.ok = Outcome(w)
    [] e.call = "chown" -> Chown(w) /\ e.ok = (IF ChownWorks(w) THEN 1 ELSE 0)
    [] e.call = "rename" -> Rename(w) /\ e.ok = Outcome(w)
    [] e.call = "unlink" -> Unlink(w) /\ e.ok = (IF fs.tmp[w].ex THEN 1 ELSE 0)
    [] OTHER -> FALSE
DSilent(w) == \/ Start(w)
              \/ CopyEOF(w)
              \/ CopyFail(w) /\ Fault(w).at = "read"
DNext ==
  /\ l <= Len(Log)
  /\ h' = h
  /\ \/ Ev.ev = "dsys" /\ l' = l + 1 /\ DSys(Ev.w, Ev)
     \/ l' = l /\ \E w \in Slots : DSilent(w)
     \/ Ev.ev = "dend" /\ l' = l + 1 /\ Return(Ev.w) /\ Ev.ok = (IF pr[Ev.w].err = "" THEN 1 ELSE 0)
     \/ Ev.ev = "ddone" /\ l' = l + 1 /\ PrintT(<<"DONE", Log[h].trace>>) /\ UNCHANGED vars
DSpec == DInit /\ [][DNext]_<<vars, l, h>>
HW == TLCSet(h, IF TLCGet(h) > l THEN TLCGet(h) ELSE l)              \* CONSTRAINT: per-trace high-water mark
Reached == PrintT(<<"HIGHWATER", [i \in DStarts |-> TLCGet(i)]>>)    \* POSTCONDITION (always TRUE)
ASSUME \A i \in DStarts : TLCSet(i, 0)
=============================================================================

\* baseline, the retry may be killed as well (two crashes)
CONSTANTS
 Scenarios <- Quick
 MaxCrash = 2
 MarkerMode = "ifbad"
 MarkerWindow = TRUE
 MaxFault = 0
INIT Init
NEXT Next
INVARIANTS TypeOK NoStuck CrashStateOK ReturnOK RetryOK
CHECK_DEADLOCK FALSE

SPECIFICATION TSpec
CONSTRAINT HW
INVARIANT Rejects
POSTCONDITION Accepted
CHECK_DEADLOCK FALSE

------------------------------ MODULE TokenLife ------------------------------
(***************************************************************************)
(* X05 - design spec (D): bearer token and scope lifecycle of              *)
(* /repo/internal/auth/auth.go as driven by /repo/internal/reghttp/http.go *)
(* (Resp.next).  Implementation shaped: one action per method / critical   *)
(* section / wire round trip; Auth.mu is the variable mu (held across the  *)
(* token round trips of GenerateAuth, exactly as in the code).             *)
(*   CallStart  reghttp.Client.Do                                          *)
(*   LoopTop    Resp.next: retryCount > retryLimit check, retryCount++     *)
(*   AddScope   Resp.next -> Auth.AddScope -> bearerHandler.AddScope /     *)
(*              scopeExists / addScope / tryExtendExistingScope            *)
(*   UpdBegin   Auth.UpdateRequest: loop over basic, bearer;               *)
(*              basicHandler.GenerateAuth; bearerHandler.GenerateAuth up   *)
(*              to the decision "token present and not expired"           *)
(*   TokReq     bearerHandler.tryPost / tryGet + validateResponse and the  *)
(*              rest of GenerateAuth (post refused -> get)                 *)
(*   Send       hc.Do(httpReq): the registry answers (environment)         *)
(*   Handle     Auth.HandleResponse: ParseAuthHeaders, handler creation,   *)
(*              basicHandler/bearerHandler.ProcessChallenge, the           *)
(*              ErrNoNewChallenge comparison with the previous header      *)
(*   Finish     Resp.next returns                                          *)
(* Environment: the registry picks a mood per request (RegMoods), the      *)
(* token service a reply kind per token request (TokKinds); choices other  *)
(* than the default cost one unit of Budget.                               *)
(* Time: isExpired is the boolean tok.exp computed by validateResponse     *)
(* from the reply kind (issued_at in the past / missing, expires_in below  *)
(* the minimum); it never changes afterwards (a token does not expire      *)
(* inside a behaviour: time.Now() has no injection point).                 *)
(* Fix  = repaired behaviours present (findings X05-1 requireToken,        *)
(*        X05-2 keepRefresh); the code as found is Fix = {}.               *)
(* Mut  = design mutants (expected counterexamples).                       *)
(* Deviations: b.scopes is a set of <<repo, action>> (order and the string *)
(* form abstracted; scopes the code cannot parse are not modelled); one    *)
(* service per registry and two realms; mirrors, backoff, throttle and     *)
(* RepoAuth are not modelled; jwtHubHandler is not modelled.               *)
(***************************************************************************)
EXTENDS TokenLifeDefs
CONSTANTS Hosts, CredOf, Reqs, NProcs, NCalls, RegMoods, TokKinds, Budget, RetryLimit, MaxTok, Fix, Mut
VARIABLES hs, mu, pr, srv, ev
dvars == <<hs, mu, pr, srv, ev>>

Procs == 1..NProcs
TokName == <<"t1", "t2", "t3", "t4", "t5", "t6", "t7", "t8", "t9", "t10", "t11", "t12">>
RtName == <<"rt1", "rt2", "rt3", "rt4", "rt5", "rt6", "rt7", "rt8", "rt9", "rt10", "rt11", "rt12">>
Svc(h) == h
User(h) == IF CredOf[h] = "userpass" THEN h ELSE ""
K(h) == IF "sharedAuth" \in Mut THEN CHOOSE x \in Hosts : TRUE ELSE h

NoTok == [n |-> 0, exp |-> TRUE, rt |-> 0]
HInit == [made |-> FALSE, bmade |-> FALSE, brealm |-> "", realm |-> "", scopes |-> {}, tok |-> NoTok]
NoAuth == [k |-> "none", n |-> 0]
NoChal == [chal |-> "none", crealm |-> "", cscope |-> {}]
NoRq == [h |-> "", repo |-> "", meth |-> ""]
Tau == [ev |-> "tau"]

Init ==
  /\ hs = [h \in Hosts |-> HInit]
  /\ mu = [h \in Hosts |-> 0]
  /\ pr = [p \in Procs |-> [pc |-> "idle", cnt |-> 0, rq |-> NoRq, tries |-> 0, auth |-> NoAuth,
                             chal |-> NoChal, ret |-> "", res |-> ""]]
  /\ srv = [n |-> 0, nr |-> 0, tab |-> <<>>, rtab |-> <<>>, bud |-> Budget]
  /\ ev = Tau

(* bearerHandler.addScope: extend, never drop; the old token string is deleted *)
AddSc(S, sc) == IF "dropScopes" \in Mut THEN sc ELSE S \cup sc

Cid(p) == p * 100 + pr[p].cnt
SetP(p, r) == pr' = [pr EXCEPT ![p] = r]

CallStart(p) ==
  /\ pr[p].pc = "idle" /\ pr[p].cnt < NCalls
  /\ \E rq \in Reqs :
       /\ SetP(p, [pr[p] EXCEPT !.pc = "loop", !.cnt = @ + 1, !.rq = rq, !.tries = 0, !.auth = NoAuth])
       /\ ev' = [ev |-> "call", c |-> p * 100 + pr[p].cnt + 1, h |-> rq.h, repo |-> rq.repo, meth |-> rq.meth]
  /\ UNCHANGED <<hs, mu, srv>>

LoopTop(p) ==
  /\ pr[p].pc = "loop"
  /\ IF pr[p].tries > RetryLimit
     THEN SetP(p, [pr[p] EXCEPT !.pc = "end", !.res = "fail"])
     ELSE SetP(p, [pr[p] EXCEPT !.pc = "scope", !.tries = @ + 1])
  /\ ev' = Tau /\ UNCHANGED <<hs, mu, srv>>

AddScope(p) ==
  /\ pr[p].pc = "scope"
  /\ LET rq == pr[p].rq  k == K(rq.h)  s == hs[k]  sc == Sc(rq.repo, Conv(rq.meth)) IN
     /\ mu[k] = 0
     /\ IF s.made /\ ~(sc \subseteq s.scopes)
        THEN hs' = [hs EXCEPT ![k].scopes = AddSc(@, sc), ![k].tok.n = 0]
        ELSE UNCHANGED hs
  /\ SetP(p, [pr[p] EXCEPT !.pc = "upd"])
  /\ ev' = Tau /\ UNCHANGED <<mu, srv>>

(* the value GenerateAuth hands back once a token string is there *)
GenOk(p, n) ==
  IF pr[p].ret = "upd" THEN [pr[p] EXCEPT !.pc = "send", !.auth = [k |-> "bearer", n |-> n]]
  ELSE IF [k |-> "bearer", n |-> n] # pr[p].auth THEN [pr[p] EXCEPT !.pc = "loop"]
  ELSE [pr[p] EXCEPT !.pc = "end", !.res = "fail"]
GenFail(p) == [pr[p] EXCEPT !.pc = "end", !.res = "fail"]

(* bearerHandler.GenerateAuth, first part; ret = who called (UpdateRequest / HandleResponse) *)
GenStart(p, k, ret) ==
  LET s == hs[k]  q == [pr[p] EXCEPT !.ret = ret] IN
  IF s.tok.n # 0 /\ ~s.tok.exp
  THEN /\ pr' = [pr EXCEPT ![p] =
                   IF ret = "upd" THEN [q EXCEPT !.pc = "send", !.auth = [k |-> "bearer", n |-> s.tok.n]]
                   ELSE IF [k |-> "bearer", n |-> s.tok.n] # pr[p].auth THEN [q EXCEPT !.pc = "loop"]
                   ELSE [q EXCEPT !.pc = "end", !.res = "fail"]]
       /\ UNCHANGED mu
  ELSE /\ pr' = [pr EXCEPT ![p] = [q EXCEPT !.pc =
                   IF (s.tok.rt # 0 \/ CredOf[pr[p].rq.h] = "idtoken") /\ "neverPost" \notin Mut
                   THEN "post" ELSE "get"]]
       /\ mu' = [mu EXCEPT ![k] = p]

UpdBegin(p) ==
  /\ pr[p].pc = "upd"
  /\ LET rq == pr[p].rq  k == K(rq.h)  s == hs[k] IN
     /\ mu[k] = 0
     /\ IF ~s.made /\ ~s.bmade
        THEN SetP(p, [pr[p] EXCEPT !.pc = "send", !.auth = NoAuth]) /\ UNCHANGED mu
        ELSE IF s.bmade /\ CredOf[rq.h] = "userpass"
        THEN SetP(p, [pr[p] EXCEPT !.pc = "send", !.auth = [k |-> "basic", n |-> 0]]) /\ UNCHANGED mu
        ELSE IF ~s.made
        THEN SetP(p, [pr[p] EXCEPT !.pc = "end", !.res = "fail"]) /\ UNCHANGED mu
        ELSE GenStart(p, k, "upd")
  /\ ev' = Tau /\ UNCHANGED <<hs, srv>>

(* tryPost / tryGet, validateResponse, and how GenerateAuth goes on *)
TokReq(p) ==
  /\ pr[p].pc \in {"post", "get"}
  /\ LET rq == pr[p].rq  h == rq.h  k == K(h)  s == hs[k]
         post == pr[p].pc = "post"
         useRt == post /\ s.tok.rt # 0
         user == IF ~post THEN User(h) ELSE ""
     IN
     /\ mu[k] = p
     /\ \E kind \in TokKinds :
        /\ kind = "ok" \/ srv.bud > 0
        /\ LET good == kind \in GoodKinds
               newn == srv.n + 1
               grants == IF kind = "part" THEN {x \in s.scopes : x[2] = "pull"} ELSE s.scopes
               keep == IF "keepRefresh" \in Fix THEN s.tok.rt ELSE 0
               newrt == IF kind = "okr" THEN srv.nr + 1 ELSE keep
               exp == \/ kind = "okshort" /\ "noMinLife" \in Mut
                      \/ kind \in {"okpast", "oknoiat"} /\ "noRestamp" \in Mut
               accepted == good \/ (kind = "empty" /\ "requireToken" \notin Fix)
           IN
           /\ ev' = [ev |-> "tok", realm |-> s.realm, svc |-> Svc(h), meth |-> IF post THEN "POST" ELSE "GET",
                     grant |-> IF post THEN "refresh_token" ELSE "", user |-> user,
                     pw |-> IF user # "" THEN 1 ELSE 0,
                     rt |-> IF useRt THEN RtName[s.tok.rt] ELSE IF post THEN h ELSE "",
                     rtsvc |-> IF useRt THEN srv.rtab[s.tok.rt] ELSE IF post THEN Svc(h) ELSE "",
                     scopes |-> s.scopes, reply |-> kind, status |-> IF kind = "deny" THEN 401 ELSE 200,
                     good |-> IF good THEN 1 ELSE 0,
                     tid |-> IF good THEN TokName[newn] ELSE "",
                     rid |-> IF kind = "okr" THEN RtName[srv.nr + 1] ELSE ""]
           /\ srv' = [srv EXCEPT !.bud = IF kind = "ok" THEN @ ELSE @ - 1,
                                 !.n = IF good THEN newn ELSE @,
                                 !.tab = IF good THEN Append(@, [h |-> Svc(h), g |-> grants, a |-> s.scopes]) ELSE @,
                                 !.nr = IF kind = "okr" THEN @ + 1 ELSE @,
                                 !.rtab = IF kind = "okr" THEN Append(@, Svc(h)) ELSE @]
           /\ hs' = IF good THEN [hs EXCEPT ![k].tok = [n |-> newn, exp |-> exp, rt |-> newrt]]
                    ELSE IF accepted THEN [hs EXCEPT ![k].tok = [n |-> 0, exp |-> FALSE, rt |-> keep]]
                    ELSE hs
           /\ IF kind = "deny" /\ post
              THEN SetP(p, [pr[p] EXCEPT !.pc = "get"]) /\ UNCHANGED mu
              ELSE /\ mu' = [mu EXCEPT ![k] = 0]
                   /\ SetP(p, IF accepted THEN GenOk(p, IF good THEN newn ELSE 0) ELSE GenFail(p))

(* the registry: 200 only to a token issued for this service whose grant covers the request *)
Send(p) ==
  /\ pr[p].pc = "send"
  /\ LET rq == pr[p].rq  h == rq.h  a == pr[p].auth
         nd == Sc(rq.repo, Need(rq.meth))
         tknown == a.k = "bearer" /\ a.n # 0
         tcov == tknown /\ nd \subseteq srv.tab[a.n].g
         tasked == tknown /\ nd \subseteq srv.tab[a.n].a
         covered == tcov /\ srv.tab[a.n].h = Svc(h)
     IN
     \E m \in RegMoods :
       /\ m = "std" \/ srv.bud > 0
       /\ LET r == CASE m = "std" -> IF covered THEN [status |-> 200, chal |-> "none", crealm |-> "", cscope |-> {}]
                                     ELSE [status |-> 401, chal |-> "good", crealm |-> "t1", cscope |-> nd]
                     [] m = "stub" -> [status |-> 401, chal |-> "good", crealm |-> "t1", cscope |-> nd]
                     [] m = "nosc" -> IF covered THEN [status |-> 200, chal |-> "none", crealm |-> "", cscope |-> {}]
                                      ELSE [status |-> 401, chal |-> "nosc", crealm |-> "t1", cscope |-> {}]
                     [] m = "pullsc" -> IF covered THEN [status |-> 200, chal |-> "none", crealm |-> "", cscope |-> {}]
                                        ELSE IF Need(rq.meth) = {"pull"}
                                        THEN [status |-> 401, chal |-> "good", crealm |-> "t1", cscope |-> nd]
                                        ELSE [status |-> 401, chal |-> "pullsc", crealm |-> "t1", cscope |-> Sc(rq.repo, {"pull"})]
                     [] m = "realm2" -> IF covered THEN [status |-> 200, chal |-> "none", crealm |-> "", cscope |-> {}]
                                        ELSE [status |-> 401, chal |-> "realm2", crealm |-> "t2", cscope |-> nd]
                     [] m = "basic" -> IF a.k = "basic" THEN [status |-> 200, chal |-> "none", crealm |-> "", cscope |-> {}]
                                       ELSE [status |-> 401, chal |-> "basic", crealm |-> "", cscope |-> {}]
                     [] OTHER -> [status |-> 401, chal |-> "none", crealm |-> "", cscope |-> {}]
          IN
          /\ ev' = [ev |-> "reg", c |-> Cid(p), h |-> h, repo |-> rq.repo, meth |-> rq.meth, akind |-> a.k,
                    aid |-> IF a.k = "bearer" THEN (IF a.n = 0 THEN "b:" ELSE TokName[a.n])
                            ELSE IF a.k = "basic" THEN "basic" ELSE "",
                    tknown |-> IF tknown THEN 1 ELSE 0, tsvc |-> IF tknown THEN srv.tab[a.n].h ELSE "",
                    tcov |-> IF tcov THEN 1 ELSE 0, tasked |-> IF tasked THEN 1 ELSE 0, auser |-> IF a.k = "basic" THEN User(h) ELSE "",
                    status |-> r.status, chal |-> r.chal, crealm |-> r.crealm, cscope |-> r.cscope, mood |-> m]
          /\ srv' = [srv EXCEPT !.bud = IF m = "std" THEN @ ELSE @ - 1]
          /\ SetP(p, IF r.status = 200 THEN [pr[p] EXCEPT !.pc = "end", !.res = "ok"]
                     ELSE [pr[p] EXCEPT !.pc = "handle",
                                        !.chal = [chal |-> r.chal, crealm |-> r.crealm, cscope |-> r.cscope]])
  /\ UNCHANGED <<hs, mu>>

Handle(p) ==
  /\ pr[p].pc = "handle"
  /\ LET rq == pr[p].rq  k == K(rq.h)  s == hs[k]  c == pr[p].chal
         existing == c.cscope \subseteq s.scopes
     IN
     /\ mu[k] = 0
     /\ CASE c.chal = "none" ->
               SetP(p, [pr[p] EXCEPT !.pc = "end", !.res = "fail"]) /\ UNCHANGED <<hs, mu>>
          [] c.chal = "basic" ->
               /\ hs' = [hs EXCEPT ![k].bmade = TRUE, ![k].brealm = "model"]
               /\ UNCHANGED mu
               /\ IF s.brealm # "model" \/ "noCompare" \in Mut
                     \/ (CredOf[rq.h] = "userpass" /\ pr[p].auth.k # "basic")
                  THEN SetP(p, [pr[p] EXCEPT !.pc = "loop"])
                  ELSE SetP(p, [pr[p] EXCEPT !.pc = "end", !.res = "fail"])
          [] OTHER ->
               IF s.realm = c.crealm /\ existing /\ (s.tok.n = 0 \/ ~s.tok.exp)
               THEN (* ErrNoNewChallenge: compare a freshly generated header with the one sent *)
                    /\ hs' = [hs EXCEPT ![k].made = TRUE]
                    /\ IF "noCompare" \in Mut
                       THEN SetP(p, [pr[p] EXCEPT !.pc = "loop"]) /\ UNCHANGED mu
                       ELSE GenStart(p, k, "handle")
               ELSE IF s.realm # "" /\ s.realm # c.crealm
               THEN /\ hs' = [hs EXCEPT ![k].made = TRUE]
                    /\ SetP(p, [pr[p] EXCEPT !.pc = "end", !.res = "fail"]) /\ UNCHANGED mu
               ELSE /\ hs' = [hs EXCEPT ![k].made = TRUE, ![k].realm = c.crealm,
                                        ![k].scopes = IF existing THEN @ ELSE AddSc(@, c.cscope),
                                        ![k].tok.n = IF existing THEN @ ELSE 0]
                    /\ SetP(p, [pr[p] EXCEPT !.pc = "loop"]) /\ UNCHANGED mu
  /\ ev' = Tau /\ UNCHANGED srv

Finish(p) ==
  /\ pr[p].pc = "end"
  /\ ev' = [ev |-> "end", c |-> Cid(p), res |-> pr[p].res]
  /\ SetP(p, [pr[p] EXCEPT !.pc = "idle"])
  /\ UNCHANGED <<hs, mu, srv>>

Next == \E p \in Procs : \/ CallStart(p) \/ LoopTop(p) \/ AddScope(p) \/ UpdBegin(p)
                         \/ TokReq(p) \/ Send(p) \/ Handle(p) \/ Finish(p)
Spec == Init /\ [][Next]_dvars

Quiet == \A p \in Procs : pr[p].pc = "idle"
Bounded == srv.n <= MaxTok
(* the mutex is only held inside a token round trip *)
MutexSane == \A h \in Hosts : mu[h] # 0 => pr[mu[h]].pc \in {"post", "get"}
=============================================================================

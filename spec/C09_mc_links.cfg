SPECIFICATION Spec
CONSTANTS
 DrainBug = FALSE
 LinkCode = TRUE
 DupPathBug = FALSE
 Ids <- LinkBadIds
INVARIANTS PropHolds
CHECK_DEADLOCK TRUE

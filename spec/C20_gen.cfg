CONSTANTS TitleClean = "rooted" ExtractGuard = "reroot" Whiteout = "none" LinkPolicy = "skip" DeleteValidates = TRUE MaxFull = 3 MaxCore = 5
  Eps = {"art", "tar", "lnk", "imp", "lay"}
CONSTANT WithVerdict = FALSE
INIT Init
NEXT Next
INVARIANT Emit
CHECK_DEADLOCK FALSE

SPECIFICATION MSpec
CONSTANTS
 DescPlatStrict = FALSE
 PlatLookupStrict = FALSE
 ReadFaults = FALSE
 PutFirst = TRUE
 DedupByDigest = FALSE
 DeleteKeepsOne = FALSE
 Faults = TRUE
 Alphabet <- AlphaSmall
 MaxCmds = 2
INVARIANTS Holds TypeOk
CHECK_DEADLOCK FALSE

SPECIFICATION MSpec
CONSTANTS
 DescPlatStrict = FALSE
 PlatLookupStrict = FALSE
 ReadFaults = FALSE
 EqualAnnStrict = FALSE
 PutFirst = TRUE
 DedupByDigest = FALSE
 DeleteKeepsOne = FALSE
 Faults = TRUE
 Alphabet <- AlphaSmall
 MaxCmds = 2
INVARIANTS Holds TypeOk
CHECK_DEADLOCK FALSE

SPECIFICATION MSpec
CONSTANTS
 DescPlatStrict = TRUE
 PlatLookupStrict = FALSE
 ReadFaults = FALSE
 EqualAnnStrict = TRUE
 PutFirst = TRUE
 DedupByDigest = FALSE
 DeleteKeepsOne = FALSE
 Faults = TRUE
 Alphabet <- AlphaSmall
 MaxCmds = 2
INVARIANTS Holds TypeOk
CHECK_DEADLOCK FALSE

INIT MCInit
NEXT MCNext
INVARIANTS Ok
CONSTRAINT Bounded
CHECK_DEADLOCK FALSE
CONSTANTS
 Hosts <- H1
 CredOf <- CredID
 Reqs <- ReqsA
 NProcs = 1
 NCalls = 2
 RegMoods <- MoodsBearer
 TokKinds <- KindsAll
 Budget = 2
 RetryLimit = 5
 MaxTok = 5
 Fix <- AllFix
 Mut = {"neverPost"}

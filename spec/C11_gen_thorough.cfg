SPECIFICATION Spec
INVARIANTS Emit
CHECK_DEADLOCK FALSE
CONSTANTS
 HonorsHost = FALSE
 SchemeBound = TRUE
 PgNoMirrors = TRUE
 FoldCase = TRUE
 StripOnRedirect = TRUE
 MaxFaults = 2
 Confs <- QuickGenConfs
 ChalKinds <- AllChal
 FaultKinds <- AllFaults
 RedirTo <- AllRedir
 TokReplies <- AllTok
 ForeignRealms <- TaRealm
 LocTo <- AllLoc

SPECIFICATION Spec
INVARIANTS Emit
CHECK_DEADLOCK FALSE
CONSTANTS
 HonorsHost = FALSE
 SchemeBound = FALSE
 StripOnRedirect = FALSE
 MaxFaults = 2
 Confs <- ThoroughGenConfs
 ChalKinds <- AllChal
 FaultKinds <- AllFaults
 RedirTo <- CoreRedir
 TokReplies <- AllTok
 ForeignRealms <- TaRealm

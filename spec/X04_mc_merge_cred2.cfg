\* X04: quick tier: (D) Merge against (P), credential group, two values per field
INIT GMerge
NEXT GStop
INVARIANT GOk
CHECK_DEADLOCK FALSE
CONSTANTS
 Fix = {"mergeToken", "cloneTransport"}
 MGroup = {"user", "pass", "token", "helper", "expire"}
 MVals = 2
 MValsB = 2
 MaxOpts = 2
 UNames = {"r1.test", "docker.io", "registry-1.docker.io", ""}
 UTls = {"", "insecure", "disabled"}
 UCred = {"none", "up1", "tok1", "h1"}
 UHostname = {"", "alt.test"}
 UMirrors = {"", "m1.test"}
 UPrefix = {""}
 UDefTls = {"", "insecure"}
 UDefCred = {"none", "up2", "h2"}
 UDefHostname = {"", "alt.test"}
 UDockKey = {"r1.test", "http://r1.test", "https://index.docker.io/v1/", "r1.test/ns"}
 UDockCred = {"up1", "tok1", "u1", "h1", "up1h1", "s1"}
 TNames = {"r1.test", "r2.test"}
 TTls = {"", "insecure", "disabled"}
 TRegcert = {"", "ca-r1.test"}
 TCert = {"none", "pair1"}
 TModes = {"default", "shared"}
 RKeys = {"r1.test", "docker.io", "registry-1.docker.io"}
 RTls = {"", "insecure", "disabled"}
 RCred = {"none", "up1", "tok1", "h1"}
 RHostname = {"", "alt.test"}
 RDefCred = {"up2", "h2"}
 RDockKey = {"r1.test", "https://index.docker.io/v1/"}
 RDockCred = {"up1", "h1", "s1"}
 RFlagName = {"r1.test", "docker.io"}
 ProbeSet <- ProbeSetStd
 GProbes <- ProbesStd
 TProbeSeqs <- TSeqsStd

CONSTANTS
 Confs <- MCConfs
 FixWaitErr = FALSE
 Reduce = FALSE
 MCShapes = {"img", "idx2"}
 MCPairs = {"tworeg", "samereg", "reg2dir", "dir2reg"}
 MCOpts <- MCOptsDefault
 MCFeats <- MCFeatsDefault
 MCInit = "corners"
 MCTag0 = {"none", "stale"}
 MCByDigest = {FALSE}
 MCTgtByDigest = {FALSE}
 MaxFaults = 1
 AllowCancel = TRUE
 AllowCrash = TRUE
 Cap = 0
 Rare = 25
INIT GInit
NEXT GNext
INVARIANTS Emit
CHECK_DEADLOCK FALSE

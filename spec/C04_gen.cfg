CONSTANTS
 Confs <- MCConfs
 FixWaitErr = TRUE
 Reduce = FALSE
 MCShapes = {"img", "dup", "idx2", "dtag", "art", "diamond2"}
 MCPairs = {"tworeg", "samereg", "reg2dir", "dir2reg"}
 MCOpts <- MCOptsCore
 MCFeats <- MCFeatsMount
 MCInit = "corners"
 MCTag0 = {"none", "stale"}
 MCByDigest = {FALSE}
 MCTgtByDigest = {FALSE}
 MaxFaults = 2
 AllowCancel = TRUE
 AllowCrash = TRUE
 Cap = 0
 Rare = 25
INIT GInit
NEXT GNext
INVARIANTS Emit
CHECK_DEADLOCK FALSE

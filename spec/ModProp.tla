------------------------------- MODULE ModProp -------------------------------
(***************************************************************************)
(* (P) property monitor for C13.  Observation shaped: it knows nothing of  *)
(* how mod.Apply works.  It reads the facts the harness recorded around    *)
(* one Apply (independent audit of the target closure, source before /     *)
(* after, second run) and states the property, obligation by obligation:   *)
(*   O1-panic      Apply returns: an image or an error, never a panic      *)
(*   O1-result     the reference Apply returned names a manifest stored at *)
(*                 the target (and the target tag, if any, points at it)   *)
(*   O1-present    every descriptor found in a written manifest names      *)
(*                 content that exists at the target (external urls aside) *)
(*   O1-digest / O1-size / O1-data / O1-mediatype                          *)
(*                 ... whose independent hash is the digest, whose length  *)
(*                 is the size, which equals the inline data if there is   *)
(*                 any, and which is what the media type announces         *)
(*                 (compression of a layer, media type of a manifest)      *)
(*   O1-unparsable a written manifest or config is not JSON                *)
(*   O2-diffid     per config: as many diff ids as layers, each the digest *)
(*                 of the independently decompressed layer                 *)
(*   O2-history    per config: the non-empty history entries are, in       *)
(*                 order, the entries of the layers (identity of a layer:  *)
(*                 marker file in its tar; of an entry: created_by)        *)
(*   O3-orphan     a manifest written by Apply is named by the result      *)
(*                 (index entries name the rewritten children)             *)
(*   O4-source     source tag and the content reachable from it as before, *)
(*                 none of its referrers gone, unless the source tag is    *)
(*                 the target (new referrers next to it are not a change)  *)
(*   O5-noop       options that change nothing: the result is the original *)
(*                 digest                                                  *)
(*   O6-repeat     the same options on the same input again: same outcome, *)
(*                 same digest                                             *)
(* `bad` is the verdict on the current event only (not latched), so that   *)
(* one validation run shows every violated obligation of a trace.          *)
(***************************************************************************)
EXTENDS Naturals, Sequences, TLC
VARIABLES srcTag,   \* digest the source tag pointed at before Apply
          srcClo,   \* identity of the content of the source closure before Apply
          mode,     \* what the harness asked for: [ok, same, replace, noop, hist]
          bad
pvars == <<srcTag, srcClo, mode, bad>>

First(checks) == IF \E i \in 1..Len(checks) : checks[i][1]
                 THEN checks[CHOOSE i \in 1..Len(checks) : checks[i][1] /\ \A j \in 1..(i - 1) : ~checks[j][1]][2]
                 ELSE ""
NoMode == [ok |-> 0, same |-> 0, replace |-> 0, noop |-> 0, hist |-> 0]

PInit == srcTag = "" /\ srcClo = "" /\ mode = NoMode /\ bad = ""
PReset == srcTag' = "" /\ srcClo' = "" /\ mode' = NoMode /\ bad' = ""

PSrcBefore(tag, clo) == srcTag' = tag /\ srcClo' = clo /\ bad' = "" /\ UNCHANGED mode

PApply(ok, same, replace, noop, hist) ==
  /\ mode' = [ok |-> ok, same |-> same, replace |-> replace, noop |-> noop, hist |-> hist]
  /\ bad' = "" /\ UNCHANGED <<srcTag, srcClo>>

\* the result: dig = what the returned reference resolves to at the target ("" = nothing)
PRoot(dig, present, tagged) ==
  /\ bad' = First(<< <<dig = "" \/ present = 0 \/ tagged = 0, "O1-result">>,
                    <<mode.noop = 1 /\ dig # srcTag, "O5-noop">> >>)
  /\ UNCHANGED <<srcTag, srcClo, mode>>

\* one descriptor found in a manifest of the result closure
PDesc(ext, present, sha, size, data, mt) ==
  /\ bad' = First(<< <<ext = 0 /\ present = 0, "O1-present">>,
                    <<present = 1 /\ sha = 0, "O1-digest">>,
                    <<present = 1 /\ size = 0, "O1-size">>,
                    <<data = 2, "O1-data">>,
                    <<mt = 0, "O1-mediatype">> >>)
  /\ UNCHANGED <<srcTag, srcClo, mode>>

\* one image config of the result closure.  diff[i]: 1 = diff id i is the digest of the uncompressed layer i,
\* 0 = it is not, 2 = unknown (external layer not stored).  lids / hids: identities of the layers and of the
\* non-empty history entries ("EXT": external layer, cannot be told).
Lines(h, l) == h = l \/ l = "EXT"
PImage(nl, nd, diff, lids, hids, nohist) ==
  /\ bad' = First(<< <<nd # nl \/ \E i \in 1..Len(diff) : diff[i] = 0, "O2-diffid">>,
                    <<nohist = 0 /\ (Len(hids) # Len(lids) \/ \E k \in 1..Len(hids) : k <= Len(lids) /\ ~Lines(hids[k], lids[k])),
                      "O2-history">>,
                    \* a file system image of a source with history has lost all of it ("A": artifact content, as in an
                    \* attestation manifest, whose config never had a history)
                    <<nohist = 1 /\ mode.hist = 1 /\ Len(lids) > 0 /\ \A k \in 1..Len(lids) : lids[k] \notin {"A", "EXT"}, "O2-history">> >>)
  /\ UNCHANGED <<srcTag, srcClo, mode>>

PPanic == bad' = "O1-panic" /\ UNCHANGED <<srcTag, srcClo, mode>>
PUnparsable == bad' = "O1-unparsable" /\ UNCHANGED <<srcTag, srcClo, mode>>

\* manifests that appeared at the target during Apply and are not reachable from the result
PWritten(orphans) ==
  /\ bad' = (IF orphans > 0 THEN "O3-orphan" ELSE "")
  /\ UNCHANGED <<srcTag, srcClo, mode>>

PSrcAfter(tag, clo, refsLost) ==
  /\ bad' = (IF mode.replace = 0 /\ (tag # srcTag \/ clo # srcClo \/ refsLost > 0) THEN "O4-source" ELSE "")
  /\ UNCHANGED <<srcTag, srcClo, mode>>

PTwice(ok1, ok2, d1, d2) ==
  /\ bad' = (IF ok1 # ok2 \/ (ok1 = 1 /\ d1 # d2) THEN "O6-repeat" ELSE "")
  /\ UNCHANGED <<srcTag, srcClo, mode>>

PSkip == bad' = "" /\ UNCHANGED <<srcTag, srcClo, mode>>

Ok == bad = ""
=============================================================================

---------------------------- MODULE ReferrersMC ----------------------------
(***************************************************************************)
(* Model-checking instance for C10: the design spec (D) Referrers composed *)
(* with the property monitor (P) ReferrersProp.  Every observable event of *)
(* a (D) step (`out`: call, ret, stored, list, tag, fetch) is fed to the   *)
(* SAME monitor actions that judge the traces of the real code, so         *)
(* "(D) refines (P)" is the invariant bad = "" (Ok).  Digests are compared  *)
(* inside this module (the monitor only learns same / other).              *)
(* SensibleConfs is the configuration space of a cfg.                      *)
(***************************************************************************)
EXTENDS Referrers, ReferrersProp
CONSTANTS Modes, Caches, Pages, TagDels, SubjSel, Spells, Dopts,
          Inits,   \* initial states left by another client: sequences of artifacts (<<>> = empty repository)
          NAs      \* sets of artifacts without annotations

WithInit(c, i, n) == [f \in DOMAIN c \cup {"init", "idup", "na"} |->
                         CASE f = "init" -> i [] f = "idup" -> 0 [] f = "na" -> n [] OTHER -> c[f]]
SensibleConfs == {WithInit(c, i, n) : c \in ConfSpace(Modes, Caches, Pages, TagDels, SubjSel, Spells, Dopts),
                                       i \in Inits, n \in NAs}

InitsMC0 == {<<>>}
InitsMC1 == {<<>>, <<"a2", "a1">>}
InitsMC2 == {<<"a2", "a1">>}
NAsNone == {{}}
NAsMC1 == {{}, {"a1"}}
P1 == <<"p1">>
P2 == <<"p1", "p2">>
P3 == <<"p1", "p2", "p3">>
P4 == <<"p1", "p2", "p3", "p4">>

Feed(o) ==
  CASE o.ev = "call"   -> PCall(o.id, o.k, o.a)
    [] o.ev = "ret"    -> PRet(o.id, o.res)
    [] o.ev = "stored" -> PStored(o.set)
    [] o.ev = "list"   -> PList(o.s, o.f, o.res, o.types, o.anns, o.err)
    [] o.ev = "tag"    -> PTag(o.s, o.res, o.types, o.anns)
    [] o.ev = "fetch"  -> PFetch(IF o.got = o.asked THEN "same" ELSE "other", "same")
    [] OTHER           -> PNote

MInit == /\ Init
         /\ subj = conf.subj /\ mode = conf.mode /\ na = NA /\ pend = <<>>
         /\ poss = {[st |-> Range(InitSeq), ap |-> {}]}   \* the other client's pushes have returned
         /\ cur = {} /\ quiet = FALSE /\ bad = ""
MNext == Next /\ Feed(out')
MSpec == MInit /\ [][MNext]_<<dvars, pvars>>
MView == <<dview, pvars>>
=============================================================================

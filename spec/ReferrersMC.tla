---------------------------- MODULE ReferrersMC ----------------------------
(***************************************************************************)
(* Model-checking instance for C10: the design spec (D) Referrers composed *)
(* with the property monitor (P) ReferrersProp.  Every observable event of *)
(* a (D) step (`out`: call, ret, stored, list, tag, fetch) is fed to the   *)
(* SAME monitor actions that judge the traces of the real code, so         *)
(* "(D) refines (P)" is the invariant bad = "" (Ok).  Digests are compared  *)
(* inside this module (the monitor only learns same / other).              *)
(* ConfsOf builds the configuration space of a cfg.                        *)
(***************************************************************************)
EXTENDS Referrers, ReferrersProp
CONSTANTS Modes, Caches, Pages, TagDels, SubjSel

\* subject maps explored: "ror" a3 names a1 (referrer of a referrer), "same" all three name one
\* subject, "split" a2 names the absent subject s2, "all" every admissible map
SubjOf(sel) == CASE sel = "ror"   -> {[a \in Arts |-> IF a = "a3" THEN "a1" ELSE "s1"]}
                 [] sel = "same"  -> {[a \in Arts |-> "s1"]}
                 [] sel = "split" -> {[a \in Arts |-> IF a = "a2" THEN "s2" ELSE "s1"]}
                 [] sel = "all"   -> SubjMaps
ConfsOf == {[mode |-> m, cache |-> c, page |-> g, tagdel |-> t, subj |-> sm] :
              m \in Modes, c \in Caches, g \in Pages, t \in TagDels, sm \in UNION {SubjOf(x) : x \in SubjSel}}
\* paging only matters with the API, the cache and tag delete only for registries
SensibleConfs == {c \in ConfsOf : /\ (c.mode # "api" => c.page = 0)
                                  /\ (c.mode = "oci" => c.cache = 0 /\ c.tagdel = 1)
                                  /\ (c.mode = "api" => c.tagdel = 1)}

P1 == <<"p1">>
P2 == <<"p1", "p2">>
P3 == <<"p1", "p2", "p3">>
P4 == <<"p1", "p2", "p3", "p4">>

Feed(o) ==
  CASE o.ev = "call"   -> PCall(o.id, o.k, o.a)
    [] o.ev = "ret"    -> PRet(o.id, o.res)
    [] o.ev = "stored" -> PStored(o.set)
    [] o.ev = "list"   -> PList(o.s, o.f, o.res, o.types, o.anns, o.err)
    [] o.ev = "tag"    -> PTag(o.s, o.res, o.types, o.anns)
    [] o.ev = "fetch"  -> PFetch(IF o.got = o.asked THEN "same" ELSE "other")
    [] OTHER           -> PNote

MInit == /\ Init
         /\ subj = conf.subj /\ mode = conf.mode /\ pend = <<>> /\ poss = {[st |-> {}, ap |-> {}]}
         /\ cur = {} /\ quiet = FALSE /\ bad = ""
MNext == Next /\ Feed(out')
MSpec == MInit /\ [][MNext]_<<dvars, pvars>>
MView == <<dview, pvars>>
=============================================================================

------------------------------ MODULE TarExport ------------------------------
(***************************************************************************)
(* (D) for the export side of C09 and its composition with the importer:    *)
(* ImageExport writes the archive entry by entry into `arch`, then the       *)
(* importer of TarImport reads exactly that sequence.                        *)
(*                                                                          *)
(* Code mirrored (image.go):                                                 *)
(*   XBegin      ImageExport: ManifestGet, tarWriteFileJSON(oci-layout),     *)
(*               tarWriteFileJSON(index.json) with the single descriptor of  *)
(*               the exported manifest, manifest.json when the manifest is   *)
(*               an Imager, first call of imageExportDescriptor              *)
(*   XVisit      imageExportDescriptor: skip a digest already written        *)
(*               (twd.files), else write blobs/<alg>/<hex> (tarWriteHeader   *)
(*               emits the directory entries blobs/ and blobs/<alg>/ before  *)
(*               the first file below them) and recurse: image manifest ->   *)
(*               config, layers in order; index -> entries in order; any     *)
(*               other media type of the DESCRIPTOR -> BlobGet, no recursion *)
(*   XDone       ImageExport returns (tar writer closed)                     *)
(* The recursion is an explicit stack of descriptors.                        *)
(*                                                                          *)
(* Composition: when the export is done the importer starts (phase "init")   *)
(* with the archive fixed (rest = {}), i.e. it imports the stream as it is.  *)
(* Properties: every name written once; the written entries are exactly the  *)
(* catalogue's BaseEntries (plus the two directories) - this ties the        *)
(* catalogue used by the importer model to the export walk; the archive in   *)
(* export order is imported in ONE pass; the property (P) holds at the end.  *)
(* Deviation: one exported root per behaviour (a multi image source is       *)
(* exported once per tag by the driver and merged outside regclient).        *)
(***************************************************************************)
EXTENDS TarImportMC

VARIABLES xstack,   \* descriptors still to be visited, top first
          xfiles,   \* twd.files: names written
          xdirs     \* twd.dirs
xvars == <<xstack, xfiles, xdirs>>
allvars == <<vars, xvars>>

Dirent(name) == [name |-> name, kind |-> "dir", ln |-> <<>>, abs |-> FALSE, c |-> ""]
XRoot == sc.roots[1]
XSingle == Node(XRoot.n).k = "image"

XInit == /\ sid \in Ids
         /\ Len(sc.roots) = 1 /\ sc.kind = "oci" /\ sc.lp = "none" /\ sc.sel.pre = "none"
         /\ arch = <<>> /\ rest = {}
         /\ pos = 1 /\ pass = 0 /\ phase = "export"
         /\ imp = ImpInit /\ tgt = TgtInit /\ err = ""
         /\ xstack = <<>> /\ xfiles = {} /\ xdirs = {}

XBegin == /\ phase = "export" /\ xfiles = {}
          /\ arch' = <<F(LayoutName, "layout"), F(IndexName, "index")>>
                     \o (IF XSingle THEN <<F(DockerName, "docker")>> ELSE <<>>)
          /\ xfiles' = {LayoutName, IndexName} \cup (IF XSingle THEN {DockerName} ELSE {})
          /\ xstack' = <<[n |-> XRoot.n, t |-> "man"]>>
          /\ UNCHANGED <<sid, rest, pos, pass, phase, imp, tgt, err, xdirs>>

\* the directories tarWriteHeader has to announce before writing `name`
NewDirs(name) == LET ds == <<SubSeq(name, 1, 1), SubSeq(name, 1, 2)>>
                 IN SelectSeq(ds, LAMBDA d : d \notin xdirs)
Rev(s) == [i \in 1..Len(s) |-> s[Len(s) + 1 - i]]

XVisit == /\ phase = "export" /\ xstack # <<>>
          /\ LET d == Head(xstack)
                 name == BPath(d.n)
             IN IF name \in xfiles
                THEN xstack' = Tail(xstack) /\ UNCHANGED <<arch, xfiles, xdirs>>
                ELSE /\ arch' = arch \o [i \in 1..Len(NewDirs(name)) |-> Dirent(NewDirs(name)[i])] \o <<F(name, d.n)>>
                     /\ xfiles' = xfiles \cup {name}
                     /\ xdirs' = xdirs \cup Range(NewDirs(name))
                     /\ xstack' = (IF d.t = "man" THEN Node(d.n).kids ELSE <<>>) \o Tail(xstack)
          /\ UNCHANGED <<sid, rest, pos, pass, phase, imp, tgt, err>>

XDone == /\ phase = "export" /\ xfiles # {} /\ xstack = <<>>
         /\ phase' = "init"
         /\ UNCHANGED <<sid, arch, rest, pos, pass, imp, tgt, err, xvars>>

XStep == XBegin \/ XVisit \/ XDone
RTNext == XStep \/ (Step /\ UNCHANGED xvars) \/ (Terminated /\ UNCHANGED xvars)
RTSpec == XInit /\ [][RTNext]_allvars /\ WF_allvars(RTNext)

(* ----------------------------- properties ------------------------------ *)
Written == {arch[i] : i \in 1..Len(arch)}
\* each digest (each name) is written once
XOnce == \A i, j \in 1..Len(arch) : i # j => arch[i].name # arch[j].name
\* what the export yields is the complete archive the catalogue says (plus the directory entries)
XComplete == phase # "export" =>
               {e \in Written : e.kind = "file"} = sc.entries
\* manifest.json of a single image (DockerOf, what the Docker format remainder is imported by): Config and every
\* position of the manifest's layer list name a file of the archive - a layer listed twice is written once
\* (XOnce) but listed twice
XDocker == phase # "export" /\ XSingle =>
             LET d == sc.docker[1]
                 names == {e.name : e \in Written}
                 kids == Node(XRoot.n).kids
             IN /\ d.cfg = BPath(kids[1].n) /\ d.cfg \in names
                /\ Len(d.layers) = Len(kids) - 1
                /\ \A i \in 1..Len(d.layers) : d.layers[i] = BPath(kids[i + 1].n) /\ d.layers[i] \in names
\* parents are written before their children, so the importer needs a single pass over its own export
XSinglePass == Terminal /\ ~ExpectedBad => pass = 1
\* and the round trip satisfies the property
XRoundTrip == PropExact
=============================================================================

SPECIFICATION MCSpec
VIEW view
INVARIANTS NotBlocked
CONSTANTS
 Ungated = {}
 LeakOnErr = {"image.config", "m:config"}
 StubReads = {}
 NS = 2
 MaxLen = 2
 Pars = {1}
 Alphabet = "throttle"

CONSTANTS
 Scenarios <- QuickCrashSet
 MaxCrash = 1
 Variant = "code"
INIT Init
NEXT Next
INVARIANTS StateOk EndOk RaceEndOk FreshOk RetryOk TypeOk
CHECK_DEADLOCK FALSE

\* what if Extract joined the raw name and tested containment with a string prefix (seeded C20-4)?  expected: Containment
\* violated by a sibling of the extract directory whose name starts with its base name (../out2)
CONSTANTS TitleClean = "rooted" ExtractGuard = "strprefix" Whiteout = "none" LinkPolicy = "skip" DeleteValidates = TRUE MaxFull = 1 MaxCore = 1
  Eps = {"tar"}
SPECIFICATION Spec
INVARIANTS Containment
CHECK_DEADLOCK FALSE

SPECIFICATION GSpec
INVARIANTS Emit GenNotBlocked ThrottleOk DryNoChange
CHECK_DEADLOCK FALSE
CONSTANTS
 Ungated = {}
 LeakOnErr = {}
 StubReads = {}
 NS = 3
 MaxLen = 4
 Pars = {0}
 Alphabet = "full"

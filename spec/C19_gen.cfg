SPECIFICATION GSpec
INVARIANTS Emit GenNotBlocked ThrottleOk
CHECK_DEADLOCK FALSE
CONSTANTS
 Gated = {"tag.delete", "m:delete", "image.copy", "image.copy+dt", "image.copy+fr"}
 RelOnErr = {"image.config", "m:config", "image.importTar", "image.exportTar", "image.copy", "image.copy+dt", "image.copy+fr"}
 StubReads = {}
 NS = 3
 MaxLen = 4
 Pars = {0}
 Alphabet = "full"

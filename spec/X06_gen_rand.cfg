SPECIFICATION GSpec
CONSTANTS
 FewerIsMismatch = TRUE
 NilCreatedSafe = TRUE
 NilPlatformSafe = FALSE
 Mut = ""
 Level = 1
 GenMode = "all"
INVARIANTS Emit
CHECK_DEADLOCK FALSE

SPECIFICATION GSpec
CONSTANTS
 FewerIsMismatch = FALSE
 NilCreatedSafe = FALSE
 NilPlatformSafe = FALSE
 Mut = ""
 Level = 1
 GenMode = "all"
INVARIANTS Emit
CHECK_DEADLOCK FALSE

---------------------------- MODULE LayoutGCTrace ----------------------------
(* Trace spec for C08: replays the ndjson event log recorded by               *)
(* harness/cmd/c08drv from the real regclient (ImageCopy into ocidir://,      *)
(* rc.Close, deletes, pushes; directory audits at quiescent points) through   *)
(* the monitor LayoutGCProp.  Mirrors no code.                                *)
EXTENDS LayoutGCProp, Json, IOUtils, Integers
Log == ndJsonDeserialize(IOEnv.VERIF_TRACE)
VARIABLE l
Ev == Log[l]
TInit == PInit /\ l = 1
TNext ==
  /\ l <= Len(Log)
  /\ l' = l + 1
  /\ \/ Ev.ev = "reset" /\ PReset
     \/ Ev.ev = "start" /\ PStart(Ev.gc)
     \/ Ev.ev = "copy_begin" /\ PCopyBegin(Ev.c)
     \/ Ev.ev = "copy_call" /\ PCopyCall(Ev.c)
     \/ Ev.ev = "copy_active" /\ PCopyActive(Ev.c)
     \/ Ev.ev = "close_mid" /\ PCloseMid(Ev.files, Ev.other)
     \/ Ev.ev = "copy_end" /\ PCopyEnd(Ev.c, Ev.files)
     \/ Ev.ev = "op" /\ POp(Ev.op, Ev.d)
     \/ Ev.ev = "close" /\ PClose(Ev.b_files, Ev.b_other, Ev.a_files, Ev.a_other, Ev.idx, Ev.ep, Ev.ec, Ev.ek)
     \/ Ev.ev = "final" /\ PFinal(Ev.b_files, Ev.idx, Ev.ep, Ev.ec, Ev.ek, Ev.strict)
     \/ Ev.ev \in {"skip", "died"} /\ PSkip     \* "died": the driver process ended here, the events before it are judged
TSpec == TInit /\ [][TNext]_<<pvars, l>>
HW == TLCSet(1, IF TLCGet(1) > l THEN TLCGet(1) ELSE l)
Accepted == PrintT(<<"HIGHWATER", TLCGet(1), Len(Log)>>)
ASSUME TLCSet(1, 0)
=============================================================================

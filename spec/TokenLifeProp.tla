---------------------------- MODULE TokenLifeProp ----------------------------
(***************************************************************************)
(* X05 - property monitor (P) for the bearer token / scope lifecycle of     *)
(* internal/auth as driven by internal/reghttp.  Observation shaped: the   *)
(* variables are only what an observer of the wire and of the API sees.     *)
(* It mirrors no code; it states extra.d/X05.json:                           *)
(*   host   the configuration of one registry (service name its challenges  *)
(*          announce, the user / identity token configured for it)          *)
(*   call   an API request (reghttp.Client.Do) begins                        *)
(*   reg    one request on the wire to a registry and its reply             *)
(*   tok    one request on the wire to a token service and its reply        *)
(*   end    the API request returns                                          *)
(* Facts about tokens (issued by the model token service or not, for which  *)
(* service, whether the grant covers the request) are computed by the model *)
(* token service of the driver - an oracle independent of regclient - and    *)
(* logged in the events.                                                     *)
(* Obligations (bad = name of the first violated one):                      *)
(*  O1 scopes-dropped / request-scope-missing / challenge-scope-missing     *)
(*  O2 refused-authorization-repeated / retry-limit-exceeded /              *)
(*     valid-token-refetched                                                 *)
(*  O3 refresh-token-not-used                                                *)
(*  O4 token-of-other-host / credentials-of-other-host /                    *)
(*     refresh-token-of-other-host / token-request-for-unknown-service      *)
(*  O5 bearer-without-issued-token / garbage-authorization                  *)
(*  O6 failed-though-cooperative                                             *)
(* Calls are windows: in a sequential trace (seq = 1) the token requests    *)
(* inside a window belong to that call; in a concurrent trace only the      *)
(* obligations that do not need that attribution are evaluated.             *)
(***************************************************************************)
EXTENDS TokenLifeDefs
VARIABLES ps, bad
pvars == <<ps, bad>>

Get(f, k, d) == IF k \in DOMAIN f THEN f[k] ELSE d
Put(f, k, v) == [x \in DOMAIN f \cup {k} |-> IF x = k THEN v ELSE f[x]]
Empty == [x \in {} |-> 0]

PState(seq, rl, cfg, rt) ==
  [seq |-> seq, rl |-> rl, cfg |-> cfg, open |-> Empty, asked |-> Empty, lastgood |-> Empty, rt |-> rt, realm |-> Empty]
PInit == ps = PState(1, 5, Empty, Empty) /\ bad = ""
PReset(seq, rl) == ps' = PState(seq, rl, Empty, Empty) /\ bad' = ""

Set(b) == bad' = IF bad # "" THEN bad ELSE b

PHost(h, svc, user, cred, idt) ==
  /\ ps' = [ps EXCEPT !.cfg = Put(@, h, [svc |-> svc, user |-> user, cred |-> cred]),
                      !.rt = IF cred = "idtoken" THEN Put(@, svc, idt) ELSE @]
  /\ UNCHANGED bad

PCall(c, h, repo, meth) ==
  /\ ps' = [ps EXCEPT !.open = Put(@, c, [h |-> h, repo |-> repo, meth |-> meth, n |-> 0,
                                           refused |-> {},
                                           adverse |-> Get(ps.realm, h, "") \in {"!", "basic"}, chals |-> {}])]
  /\ Set(IF h \in DOMAIN ps.cfg THEN "" ELSE "call-for-unknown-host")

Ann(e) == IF e.chal = "basic" THEN "basic" ELSE e.crealm
(* a reply that does not tell a well behaved client how to go on *)
Unhelpful(e) ==
  /\ e.status # 200
  /\ \/ e.status # 401
     \/ e.chal # "good"
     \/ Ann(e) # Get(ps.realm, e.h, Ann(e))              \* the registry changed its realm / auth type
     \/ e.akind = "bearer" /\ e.tknown = 1 /\ e.tcov = 1
     \/ e.akind = "bearer" /\ e.tknown = 1 /\ e.tcov = 0 /\ e.tasked = 1   \* granted less than asked

RegViol(e, o) ==
  IF e.akind = "other" THEN "garbage-authorization"
  ELSE IF e.akind = "bearer" /\ e.tknown = 0 THEN "bearer-without-issued-token"
  ELSE IF e.akind = "bearer" /\ e.tsvc # ps.cfg[e.h].svc THEN "token-of-other-host"
  ELSE IF e.akind = "basic" /\ e.auser # ps.cfg[e.h].user THEN "credentials-of-other-host"
  ELSE IF e.akind # "basic" /\ e.aid \in o.refused THEN "refused-authorization-repeated"
  ELSE IF o.n + 1 > ps.rl + 1 THEN "retry-limit-exceeded"
  ELSE ""

PReg(e) ==
  IF e.c \notin DOMAIN ps.open \/ e.h \notin DOMAIN ps.cfg
  THEN Set("request-outside-call") /\ UNCHANGED ps
  ELSE LET o == ps.open[e.c] IN
       /\ Set(RegViol(e, o))
       /\ ps' = [ps EXCEPT !.realm = IF Ann(e) = "" THEN @
                                      ELSE Put(@, e.h, IF Get(@, e.h, Ann(e)) # Ann(e) THEN "!" ELSE Ann(e)),
                           !.open[e.c] =
                   [o EXCEPT !.n = @ + 1,
                             !.refused = IF e.status = 401 /\ e.chal \in {"good", "nosc", "pullsc", "realm2"}
                                        THEN @ \cup {e.aid} ELSE @,   \* refused with a Bearer challenge
                             !.adverse = @ \/ Unhelpful(e),
                             !.chals = IF e.status = 401 /\ e.chal \in {"good", "pullsc", "realm2"}
                                       THEN @ \cup {<<e.crealm, s>> : s \in e.cscope} ELSE @]]

SvcHosts(svc) == {h \in DOMAIN ps.cfg : ps.cfg[h].svc = svc}

TokViol(e, hh) ==
  LET R == Get(ps.rt, e.svc, "")
      lg == Get(ps.lastgood, e.svc, [valid |-> FALSE, scopes |-> {}])
      mine == {c \in DOMAIN ps.open : ps.open[c].h = hh}
  IN
  IF e.user # "" /\ e.user # ps.cfg[hh].user THEN "credentials-of-other-host"
  ELSE IF e.rt # "" /\ e.rtsvc # e.svc THEN "refresh-token-of-other-host"
  ELSE IF ~(Get(ps.asked, e.svc, {}) \subseteq e.scopes) THEN "scopes-dropped"
  ELSE IF ps.seq = 1 /\ \E c \in mine : ~(Sc(ps.open[c].repo, Conv(ps.open[c].meth)) \subseteq e.scopes)
       THEN "request-scope-missing"
  ELSE IF ps.seq = 1 /\ \E c \in mine : \E x \in ps.open[c].chals : x[1] = e.realm /\ x[2] \notin e.scopes
       THEN "challenge-scope-missing"
  ELSE IF lg.valid /\ lg.scopes = e.scopes THEN "valid-token-refetched"
  ELSE IF R # "" /\ ~(e.grant = "refresh_token" /\ e.rt = R /\ e.pw = 0) THEN "refresh-token-not-used"
  ELSE ""

PTok(e) ==
  IF SvcHosts(e.svc) = {}
  THEN Set("token-request-for-unknown-service") /\ UNCHANGED ps
  ELSE LET hh == CHOOSE h \in SvcHosts(e.svc) : TRUE
           R == Get(ps.rt, e.svc, "")
           adv == e.good = 0 \/ e.reply = "part"
       IN
       /\ Set(TokViol(e, hh))
       /\ ps' = [ps EXCEPT
            !.asked = Put(@, e.svc, Get(@, e.svc, {}) \cup e.scopes),
            !.lastgood = Put(@, e.svc, [valid |-> e.good = 1, scopes |-> e.scopes]),
            !.rt = Put(@, e.svc, IF e.rid # "" THEN e.rid
                                 ELSE IF e.grant = "refresh_token" /\ e.status # 200 THEN ""
                                 ELSE R),
            !.open = [c \in DOMAIN ps.open |-> [ps.open[c] EXCEPT !.adverse = @ \/ adv]]]

PEnd(c, res) ==
  IF c \notin DOMAIN ps.open
  THEN Set("end-outside-call") /\ UNCHANGED ps
  ELSE /\ Set(IF res # "ok" /\ ~ps.open[c].adverse THEN "failed-though-cooperative" ELSE "")
       /\ ps' = [ps EXCEPT !.open = [x \in DOMAIN @ \ {c} |-> @[x]]]

PNote == UNCHANGED pvars

Ok == bad = ""
=============================================================================

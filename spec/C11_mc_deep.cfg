SPECIFICATION Spec
VIEW View
INVARIANTS TypeOK LeaksOnlyS3 LeaksOnlyKnown
CHECK_DEADLOCK FALSE
CONSTANTS
 HonorsHost = FALSE
 SchemeBound = TRUE
 PgNoMirrors = TRUE
 FoldCase = TRUE
 StripOnRedirect = TRUE
 MaxFaults = 4
 Confs <- DeepConfs
 ChalKinds <- CoreChal
 FaultKinds <- QuickFaults
 RedirTo <- CoreRedir
 TokReplies <- AllTok
 ForeignRealms <- TaRealm
 LocTo <- AllLoc

SPECIFICATION Spec
VIEW View
INVARIANTS TypeOK LeaksOnlyKnown
CHECK_DEADLOCK FALSE
CONSTANTS
 HonorsHost = FALSE
 SchemeBound = FALSE
 StripOnRedirect = FALSE
 MaxFaults = 4
 Confs <- DeepConfs
 ChalKinds <- CoreChal
 FaultKinds <- QuickFaults
 RedirTo <- CoreRedir
 TokReplies <- AllTok
 ForeignRealms <- TaRealm

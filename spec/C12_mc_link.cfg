CONSTANTS
 Hosts = {"m1", "up"}
 Up = "up"
 Ids = {"A", "B"}
 N = 2
 RA = 50
 Kinds = {"ok", "s500", "s429ra", "reset", "s404"}
 MaxFaults = 2
 MaxSeeks = 0
 Conc = 8
 LinkEntries = FALSE
 Directs = {"none", "m1", "up"}
 StoreAnchor = TRUE
 RelNR = TRUE
 FixLeak = TRUE
 PrioAsc = TRUE
 Rs = {3}
 Prios = {0}
 Meths = {"GET"}
 Waive <- WaiveNone
 Confs <- LinkConfs
INIT MCInit
NEXT MCNext
INVARIANTS Ok RetryBound TypeOK NoThrottleBlock SlotsAccounted
CHECK_DEADLOCK FALSE

CONSTANTS
 Tags = {"t1", "t2"}
 Mans = {"m1", "m2"}
 TagOrder <- MCTagOrder
 Procs = {"p1", "p2"}
 Confs <- LayAll
 MaxOps = 2
 OpTags = {"t1", "t2"}
 OpMans = {"m1", "m2"}
 OpKinds <- AllKinds
 UseMutex = TRUE
 FreshPH = TRUE
SPECIFICATION Spec
INVARIANTS NoViol Glue Quiescent LayoutGlue WellFormed CacheCoherent GetStable HeadStable
CHECK_DEADLOCK FALSE

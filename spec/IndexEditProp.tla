---------------------------- MODULE IndexEditProp ----------------------------
(***************************************************************************)
(* X03 (P) - property monitor for `regctl index create / add / delete`.    *)
(* Observation shaped: it sees the commands given, what tag v1 of the      *)
(* target repository resolved to whenever the repository changed and when  *)
(* a command ended, which of the manifests the stored index references     *)
(* were missing at those moments, and which pool manifests / digest tags   *)
(* the repository held after the command.  It states the behaviour a user  *)
(* relies on (extra.d/X03.json), nothing about how regctl gets there:      *)
(*                                                                         *)
(*  Denote   a command that ends with exit status 0 leaves under the tag   *)
(*           exactly the index the command denotes (Outcome below): create *)
(*           = the entries named by --digest then by --ref (each --ref in  *)
(*           the order given, a list filtered by --platform in list order) *)
(*           with the index level fields asked for; add = the previous     *)
(*           entries followed by the named ones; delete = the previous     *)
(*           entries minus those with a named digest or platform; after    *)
(*           create / add of equal descriptors only the first is kept.     *)
(*           Entries not named keep every field; add / delete keep the     *)
(*           index level fields.  --by-digest stores the index under its   *)
(*           digest only: the tag stays.                                   *)
(*  Reject   a command that denotes nothing (missing source, digest not in *)
(*           the repository, unparsable platform, no index to edit, wrong  *)
(*           media type, missing subject) ends with a non-zero status; one *)
(*           that denotes something ends with 0 unless the environment     *)
(*           refused a request.                                            *)
(*  Unchanged a command that ends with a non-zero status leaves the tag as *)
(*           it was.                                                       *)
(*  NoDangling at every observed instant every manifest the index under    *)
(*           the tag references (at any depth, with its blobs) is in the   *)
(*           target repository.                                            *)
(*  Atomic   while a command runs the tag shows the old or the new index,  *)
(*           nothing else, and never the old one again after the new one.  *)
(*  Flags    with --referrers / --digest-tags the referrers / digest tags  *)
(*           of every manifest the command adds are in the target.         *)
(*                                                                         *)
(* Mirrors no code.  Deviations: none known; the media type and platform   *)
(* vocabulary is that of IndexEditWorld.                                   *)
(***************************************************************************)
EXTENDS IndexEditWorld

VARIABLES pcur,      \* what the tag resolves to: [k |-> "none"] | [k |-> "other"] | [k |-> "idx", v |-> index value]
          phave,     \* pool manifests last seen in the target repository
          pcmd,      \* the command running, or None
          pwant,     \* Outcome of it
          pnew,      \* the tag has been seen with the new index during this command
          bad        \* "" or the obligation that failed
pvars == <<pcur, phave, pcmd, pwant, pnew, bad>>

----------------------------------------------------------------------------
(* what a command denotes *)
PlatOk(s) == s \in DOMAIN CliPlat /\ CliPlat[s] # ParseError
EntryMatches(plat, typed) ==
  plat # "" /\ plat \in DOMAIN StoredPlat /\ \E i \in DOMAIN typed : SamePlat(StoredPlat[plat], CliPlat[typed[i]])

RefMan(r) == IF r \in DOMAIN Ref THEN Ref[r].man ELSE None
\* the manifests a --ref names: itself, or the entries of a list that match a --platform
Tops(r, plats) ==
  LET m == RefMan(r) IN
  IF ~IsList(m) \/ plats = <<>> THEN <<m>>
  ELSE LET es == SelectSeq(Man[m].ents, LAMBDA e : EntryMatches(e.plat, plats)) IN [i \in DOMAIN es |-> es[i].id]
RECURSIVE Flat(_)
Flat(ss) == IF ss = <<>> THEN <<>> ELSE Head(ss) \o Flat(Tail(ss))
RefTops(c) == Flat([i \in DOMAIN c.refs |-> Tops(c.refs[i], c.plats)])
Named(c) == c.digs \o RefTops(c)
\* the manifests it adds from a source repository, with that repository
TopsFrom(c) ==
  UNION {{<<Ref[c.refs[i]].repo, Tops(c.refs[i], c.plats)[j]>> : j \in DOMAIN Tops(c.refs[i], c.plats)} :
         i \in DOMAIN c.refs}
\* manifests a command copies into the target before it looks up its digests: everything below the
\* named ones, with --referrers / --digest-tags their referrers / digest tagged manifests too
\* (Sure); with --digest-tags alone referrers may come along when the source records them in a
\* fallback tag (Perhaps)
Below(c) == UNION {{<<t[1], n>> : n \in Reach(t[2])} : t \in TopsFrom(c)}
RefersOf(S) == UNION {{<<t[1], r>> : r \in Referrers(t[1], t[2])} : t \in S}
TaggedOf(S) == UNION {{<<t[1], r>> : r \in DigestTagged(t[1], t[2])} : t \in S}
Sure(c) ==
  LET b == Below(c)
      x == (IF c.rfr THEN RefersOf(b) ELSE {}) \cup (IF c.dtags THEN TaggedOf(b) ELSE {})
  IN {t[2] : t \in b \cup x}
Perhaps(c) == IF c.dtags THEN {t[2] : t \in RefersOf(Below(c))} ELSE {}
NewEntry(c, id) ==
  En(id, Man[id].mt, IF c.dplat # "" THEN DescPlatStored(c.dplat) ELSE Man[id].cplat, AnnStr(c.dann), "")

SameEntry(a, b) ==
  /\ a.id = b.id /\ a.mt = b.mt /\ a.sz = b.sz /\ a.ann = b.ann /\ a.x = b.x
  /\ IF a.plat = "" \/ b.plat = "" THEN a.plat = b.plat
     ELSE a.plat \in DOMAIN StoredPlat /\ b.plat \in DOMAIN StoredPlat /\ SamePlat(StoredPlat[a.plat], StoredPlat[b.plat])
\* keep the first of equal descriptors
FirstOnly(s) ==
  LET keep == {i \in DOMAIN s : \A j \in 1..(i - 1) : ~SameEntry(s[j], s[i])}
      F[i \in 0..Len(s)] == IF i = 0 THEN <<>> ELSE IF i \in keep THEN Append(F[i - 1], s[i]) ELSE F[i - 1]
  IN F[Len(s)]

\* --subject: a digest of the repository, or a tag of it (here v1 itself: the manifest the tag
\* resolved to, "self" when that is an index this tag held)
SubjOf(c, cv) == IF c.subj # "v1" THEN c.subj ELSE IF cv.k = "pool" THEN cv.id ELSE "self"
Fail(why) == [ok |-> "no", why |-> why, v |-> None, tagged |-> FALSE, tops |-> {}]
\* ok: "yes" must be accepted (unless the environment refuses a request), "no" must be refused,
\*     "maybe" a source that cannot be copied completely: success is impossible without a dangling entry
BuildNew(c, hv) ==
  IF \E i \in DOMAIN c.plats : ~PlatOk(c.plats[i]) THEN Fail("platform")
  ELSE IF c.dplat # "" /\ ~PlatOk(c.dplat) THEN Fail("desc-platform")
  ELSE IF \E i \in DOMAIN c.refs : RefMan(c.refs[i]) = None THEN Fail("source")
  ELSE IF \E i \in DOMAIN c.digs : c.digs[i] \notin (hv \cup Sure(c) \cup Perhaps(c)) THEN Fail("digest")
  ELSE [ok |-> IF "ghost" \in Sure(c) \/ \E i \in DOMAIN c.digs : c.digs[i] \notin (hv \cup Sure(c))
               THEN "maybe" ELSE "yes",
        why |-> "",
        v |-> [i \in DOMAIN Named(c) |-> NewEntry(c, Named(c)[i])], tagged |-> TRUE,
        tops |-> TopsFrom(c)]

Outcome(c, cv, hv) ==
  CASE c.op = "create" ->
         IF c.mt \notin {"oci", "docker"} THEN Fail("media-type")
         ELSE LET n == BuildNew(c, hv) IN
              IF n.ok = "no" THEN n
              ELSE IF c.mt = "oci" /\ c.subj # "" /\ c.subj \notin (hv \cup Sure(c)) /\ ~(c.subj = "v1" /\ cv.k # "none")
                   THEN Fail("subject")
              ELSE [n EXCEPT !.v = IF c.mt = "oci"
                                   THEN IV("ocii", FirstOnly(n.v), AnnStr(c.ann), c.at, SubjOf(c, cv))
                                   ELSE IV("dkl", FirstOnly(n.v), AnnStr(c.ann), "", ""),
                             !.tagged = ~c.bydig]
    [] c.op = "add" ->
         IF cv.k # "idx" THEN Fail("no-index")
         ELSE LET n == BuildNew(c, hv) IN
              IF n.ok = "no" THEN n ELSE [n EXCEPT !.v = [cv.v EXCEPT !.ents = FirstOnly(cv.v.ents \o n.v)]]
    [] c.op = "delete" ->
         IF cv.k # "idx" THEN Fail("no-index")
         ELSE IF \E i \in DOMAIN c.plats : ~PlatOk(c.plats[i]) THEN Fail("platform")
         ELSE [ok |-> "yes", why |-> "", tagged |-> TRUE, tops |-> {},
               v |-> [cv.v EXCEPT !.ents = SelectSeq(cv.v.ents, LAMBDA e :
                        /\ \A i \in DOMAIN c.digs : c.digs[i] # e.id
                        /\ ~EntryMatches(e.plat, c.plats))]]

----------------------------------------------------------------------------
(* the monitor *)
NoCmd == [op |-> "none"]
PInit == pcur = [k |-> "none"] /\ phave = {} /\ pcmd = NoCmd /\ pwant = None /\ pnew = FALSE /\ bad = ""

Set(s) == {s[i] : i \in DOMAIN s}
\* header: the state the driver found after setting the target up
PReset(otag, ohave) ==
  /\ pcur' = otag /\ phave' = Set(ohave) /\ pcmd' = NoCmd /\ pwant' = None /\ pnew' = FALSE /\ bad' = ""

PCmd(c) ==
  /\ pcmd = NoCmd
  /\ pcmd' = c /\ pwant' = Outcome(c, pcur, phave) /\ pnew' = FALSE
  /\ UNCHANGED <<pcur, phave, bad>>

NewTag == [k |-> "idx", v |-> pwant.v]
Say(b) == bad' = IF bad # "" THEN bad ELSE b

\* the target repository changed while the command ran
PObs(otag, omiss) ==
  /\ pcmd # NoCmd
  /\ LET isnew == pwant.ok # "no" /\ pwant.tagged /\ otag = NewTag
         isold == otag = pcur
     IN /\ Say(IF omiss # <<>> THEN "dangling"
               ELSE IF ~isold /\ pwant.ok = "no" THEN "accepted:" \o pwant.why
               ELSE IF ~isnew /\ ~isold THEN "intermediate"
               ELSE IF pnew /\ ~isnew THEN "flip-back"
               ELSE "")
        /\ pnew' = (pnew \/ (isnew /\ ~isold))
  /\ UNCHANGED <<pcur, phave, pcmd, pwant>>

\* the command ended.  rc: exit status; faulted: the environment refused one of its requests;
\* pushed: with --by-digest, the index stored under the digest the command printed ([k |-> "none"] otherwise);
\* xt: digest tags in the repository (names of the subjects)
PDone(rc, faulted, otag, omiss, ohave, oxt, opush) ==
  /\ pcmd # NoCmd
  /\ LET h == Set(ohave)
         want == IF rc = 0 /\ pwant.ok # "no" /\ pwant.tagged THEN NewTag ELSE pcur
     IN /\ Say(IF omiss # <<>> THEN "dangling"
               ELSE IF rc = 0 /\ pwant.ok = "no" THEN "accepted:" \o pwant.why
               ELSE IF rc # 0 /\ pwant.ok = "yes" /\ faulted = 0 THEN "refused"
               ELSE IF rc # 0 /\ otag # pcur THEN "failed-but-changed"
               ELSE IF rc = 0 /\ otag # want /\ otag.k = "idx" /\ want.k = "idx" /\ otag.v.ents = want.v.ents THEN "index-fields"
               ELSE IF rc = 0 /\ otag # want THEN "entries"
               ELSE IF rc = 0 /\ ~pwant.tagged /\ opush # NewTag THEN "by-digest"
               ELSE IF rc = 0 /\ pcmd.rfr /\ \E t \in pwant.tops : ~(Referrers(t[1], t[2]) \subseteq h) THEN "referrers"
               ELSE IF rc = 0 /\ pcmd.dtags /\ \E t \in pwant.tops :
                          ~(DigestTagged(t[1], t[2]) \subseteq h /\ (DigestTagged(t[1], t[2]) # {} => t[2] \in Set(oxt))) THEN "digest-tags"
               ELSE "")
        /\ pcur' = otag /\ phave' = h
  /\ pcmd' = NoCmd /\ pwant' = None /\ pnew' = FALSE

\* between commands nothing may change; the driver logs one observation per command, this is it
Ok == bad = ""
=============================================================================

SPECIFICATION Spec
VIEW View
INVARIANTS TypeOK NoLeak
CHECK_DEADLOCK FALSE
CONSTANTS
 HonorsHost = TRUE
 SchemeBound = TRUE
 PgNoMirrors = TRUE
 FoldCase = TRUE
 StripOnRedirect = TRUE
 MaxFaults = 3
 Confs <- QuickGenConfs
 ChalKinds <- AllChal
 FaultKinds <- AllFaults
 RedirTo <- AllRedir
 TokReplies <- AllTok
 ForeignRealms <- TaRealm
 LocTo <- AllLoc

----------------------------- MODULE IndexEditGen -----------------------------
(***************************************************************************)
(* X03 - scenario generator: behaviours of (D) IndexEdit with what the     *)
(* design expects after every command (exit class, what the tag resolves   *)
(* to, the pool manifests and digest tags in the target).  Every finished  *)
(* behaviour is printed once as a JSON scenario {init, tkind, same, env,   *)
(* fault, cmds, exp}; harness/cmd/x03drv replays the commands on the real  *)
(* regctl binary.  Three sources (constant GenMode):                       *)
(*   "each"  exhaustive (no -simulate): every command of the model checked *)
(*           alphabet alone and after a create, from every initial state   *)
(*           of a registry and of a layout target                          *)
(*   "alpha" -simulate: random sequences of 1-4 alphabet commands in a     *)
(*           random environment                                            *)
(*   "rand"  -simulate: 1-4 free random commands (flags drawn              *)
(*           independently from weighted lists over the whole vocabulary   *)
(*           of IndexEditWorld) in a random environment                    *)
(* env is the part of the environment the design looks at only through sfb *)
(* (source kind, referrers API on source / target, target on the source    *)
(* host) or not at all (fault: the n-th state changing request - kind       *)
(* "write" - or the n-th blob read - kind "read" - that command k sends to  *)
(* the target registry is refused with 403; the design's expectation is     *)
(* then not compared).                                                      *)
(* Random draws are taken in one step into `draws` (explicit values).      *)
(* Mirrors no code; adds only history to IndexEdit.                        *)
(***************************************************************************)
EXTENDS IndexEditAlpha, Json, SequencesExt

CONSTANT GenMode
VARIABLES ncmd, draws, drawn, genv, hist, iname
gvars == <<vars, ncmd, draws, drawn, genv, hist, iname>>

W(s) == s[RandomElement(1..Len(s))]
RefW == <<"S1:a64", "S1:a64", "S1:arm64", "S1:armv7", "S1:art", "S1:ix1", "S1:ix1", "S1:ix1", "S1@IX1", "S1@arm64",
          "S1:ixb", "S1:nosuch", "S1@d64", "S2:ixw", "S2:ixw", "S2:dl1", "S2:ixn", "S2:d64", "S2:w17">>
PlatW == <<"linux/amd64", "linux/amd64", "linux/arm64", "linux/arm64", "linux/arm64/v8", "linux/arm/v7", "linux/arm",
           "linux/s390x", "linux/ppc64le", "linux/amd64,osver=9", "unknown/unknown", "windows/amd64",
           "windows/amd64,osver=10.0.17763.5458", "windows/amd64,osver=10.0.17763", "windows/amd64,osver=10.0.20348.2322",
           "freebsd/amd64,osver=13", "freebsd/amd64", "linux/amd64/bad!", "lin ux/amd64">>
DigW == <<"a64", "a64", "arm64", "armv7", "armv7", "armv8", "art", "IX1", "d64", "d390", "w17", "att", "ghost", "sbom">>
DannW == << <<>>, <<>>, <<>>, <<>>, <<KV("a", "1")>>, <<KV("a", "2")>>, <<KV("a", "1"), KV("b", "2")>>,
            <<KV("a", "1"), KV("a", "3")>>, <<KV("b", "")>> >>
DplatW == <<"", "", "", "", "", "", "", "", "linux/arm64/v8", "linux/arm", "windows/amd64,osver=10.0.17763.5458",
            "linux/s390x", "linux/amd64/bad!">>
AnnW == << <<>>, <<>>, <<KV("org.example.keep", "1")>>, <<KV("a", "1"), KV("b", "2")>> >>

Take(w, n) == [i \in 1..n |-> W(w)]
DrawCmd(z) ==
  LET op == W(<<"create", "create", "create", "add", "add", "add", "add", "add", "delete", "delete", "delete", "delete">>) IN
  IF op = "delete"
  THEN Del(Take(DigW, W(<<0, 1, 1, 2>>)), Take(PlatW, W(<<0, 1, 1, 2>>)))
  ELSE [C0 EXCEPT !.op = op,
                  !.refs = Take(RefW, W(<<0, 1, 1, 1, 2, 2>>)),
                  !.plats = Take(PlatW, W(<<0, 0, 0, 1, 1, 2>>)),
                  !.digs = Take(DigW, W(<<0, 0, 0, 0, 1, 2>>)),
                  !.dann = W(DannW), !.dplat = W(DplatW),
                  !.dtags = W(<<FALSE, FALSE, FALSE, TRUE>>), !.rfr = W(<<FALSE, FALSE, FALSE, TRUE>>),
                  !.mt = IF op = "create" THEN W(<<"oci", "oci", "oci", "oci", "docker", "docker", "bad">>) ELSE "",
                  !.ann = IF op = "create" THEN W(AnnW) ELSE <<>>,
                  !.at = IF op = "create" THEN W(<<"", "", "application/vnd.example.idx">>) ELSE "",
                  !.subj = IF op = "create" THEN W(<<"", "", "", "", "a64", "armv7", "v1", "d390">>) ELSE "",
                  !.bydig = IF op = "create" THEN W(<<FALSE, FALSE, FALSE, FALSE, TRUE>>) ELSE FALSE]
AlphaSeq == SetToSeq(AlphaAll)
Draw(z) ==
  [n |-> W(<<1, 2, 2, 3, 3, 4>>),
   cmds |-> IF GenMode = "alpha" THEN TLCEval([i \in 1..4 |-> W(AlphaSeq)]) ELSE TLCEval([i \in 1..4 |-> DrawCmd(z + i)]),
   fault |-> IF W(<<0, 0, 0, 0, 0, 1>>) = 1
             THEN [cmd |-> W(<<1, 1, 2, 2, 3>>), at |-> W(<<1, 1, 2, 2, 3, 4, 6, 9>>), kind |-> W(<<"write", "write", "read">>)]
             ELSE [cmd |-> 0, at |-> 0, kind |-> "write"]]

\* when the target is source repository S1: a source that cannot be copied completely would be a
\* target that is broken from the start, and a digest S1 does not hold may appear there by a copy
Fix(c) == [c EXCEPT !.refs = [i \in DOMAIN c.refs |-> IF same /\ c.refs[i] = "S1:ixb" THEN "S1:ix1"
                                                       ELSE IF same /\ c.refs[i] = "S1@d64" THEN "S1:nosuch"
                                                       ELSE c.refs[i]]]

Envs == [skind : {"reg", "dir"}, srcapi : BOOLEAN, tgtapi : BOOLEAN, samehost : BOOLEAN]
EnvOk(e) == /\ sfb = (e.skind = "dir" \/ ~e.srcapi)
            /\ same => e.skind = tkind
            /\ e.samehost => (tkind = "reg" /\ e.skind = "reg")
            /\ (same /\ tkind = "reg") => (e.samehost /\ e.tgtapi = e.srcapi)
            /\ GenMode = "each" => (~same /\ e.skind = tkind /\ e.srcapi /\ e.tgtapi /\ ~e.samehost)

InitName == CHOOSE i \in Inits : InitTag(i) = tag
GInit == Init /\ ncmd = 0 /\ draws = <<>> /\ drawn = FALSE /\ hist = <<>> /\ genv \in Envs /\ EnvOk(genv) /\ iname = InitName

EachFirst == {Create(<<"S1:ix1">>, <<"linux/amd64", "linux/arm/v7">>)}
GDraw == /\ ~drawn /\ GenMode # "each"
         /\ draws' = Draw(ncmd) /\ drawn' = TRUE
         /\ UNCHANGED <<vars, ncmd, genv, hist, iname>>
\* "each": the sequences <<c>> and <<create, c>> for every c of the alphabet
GDrawEach == /\ ~drawn /\ GenMode = "each"
             /\ \E c \in AlphaAll, p \in {0, 1} :
                  draws' = [n |-> 1 + p, fault |-> [cmd |-> 0, at |-> 0, kind |-> "write"],
                            cmds |-> IF p = 0 THEN <<c>> ELSE <<CHOOSE f \in EachFirst : TRUE, c>>]
             /\ drawn' = TRUE
             /\ UNCHANGED <<vars, ncmd, genv, hist, iname>>
\* "each" also: directed sequences that exercise the recorded findings X03-1, X03-2, X03-3 in every run
NoFault == [cmd |-> 0, at |-> 0, kind |-> "write"]
Directed == <<
  [cmds |-> <<[Create(<<"S1:a64">>, <<>>) EXCEPT !.dplat = "linux/amd64/bad!"]>>, fault |-> NoFault],
  [cmds |-> <<[Create(<<"S1:a64">>, <<>>) EXCEPT !.digs = <<"armv7">>], Add(<<"S1:arm64">>, <<>>)>>,
   fault |-> [cmd |-> 2, at |-> 1, kind |-> "read"]],
  [cmds |-> <<[Create(<<"S1:armv7">>, <<>>) EXCEPT !.dann = <<KV("b", "")>>],
              [Add(<<"S1:armv7">>, <<>>) EXCEPT !.dann = <<KV("a", "1")>>]>>, fault |-> NoFault] >>
GDrawDirected == /\ ~drawn /\ GenMode = "each"
                 /\ \E d \in DOMAIN Directed :
                      draws' = [n |-> Len(Directed[d].cmds), fault |-> Directed[d].fault, cmds |-> Directed[d].cmds]
                 /\ drawn' = TRUE
                 /\ UNCHANGED <<vars, ncmd, genv, hist, iname>>
GBegin == /\ drawn /\ ncmd < draws.n
          /\ Begin(Fix(draws.cmds[ncmd + 1]))
          /\ ncmd' = ncmd + 1
          /\ UNCHANGED <<draws, drawn, genv, hist, iname>>
GStep == /\ drawn /\ Step
         /\ hist' = IF pc = "close" THEN Append(hist, [out |-> out, tag |-> tag', have |-> tman', xt |-> xt']) ELSE hist
         /\ UNCHANGED <<ncmd, draws, drawn, genv, iname>>
GNext == GDraw \/ GDrawEach \/ GDrawDirected \/ GBegin \/ GStep
GSpec == GInit /\ [][GNext]_gvars

Finished == drawn /\ pc = "idle" /\ ncmd = draws.n
Emit == Finished =>
  PrintT(<<"SCN", ToJson([init |-> iname, tkind |-> tkind, same |-> same, env |-> genv, fault |-> draws.fault,
                          cmds |-> [i \in 1..draws.n |-> Fix(draws.cmds[i])], exp |-> hist])>>)
ASSUME PrintT(<<"WORLD", ToJson(World)>>)
=============================================================================

CONSTANTS
  Ops <- MCOps
  Hosts <- MCHosts
  Confs <- MCConfs
  RetryLimit <- MCRetry
  LeakOn <- MCLeak
  NOps = 2
  MaxFail = 2
  MaxRestart = 1
  Limits = {1}
  Leak = "restart-keeps-slot"
SPECIFICATION Spec
INVARIANTS TypeOK SlotBound SendUnderSlot InnerUnderSlot NoLeak NoneLeftWaiting NoIdleSlot
CHECK_DEADLOCK FALSE

------------------------------- MODULE AuthProp ------------------------------
(***************************************************************************)
(* (P) property monitor for C11.  Observation shaped: its events are what  *)
(* an observer of the wire and of the log sees, recorded by                *)
(* harness/cmd/c11drv (recording RoundTripper in front of the model hosts, *)
(* slog handler at the lowest level):                                      *)
(*   reset(tls)                   start of a run; hosts configured for TLS *)
(*   msg(to, scheme, owners)      a request reached host `to`; owners =    *)
(*                                registries whose secrets occur in its    *)
(*                                URL, headers or body (any encoding)      *)
(*   challenge(from, type, realm) host `from` sent a 401 challenge; realm  *)
(*                                = host of the token endpoint it names    *)
(*   log(owners)                  a log record containing secrets          *)
(*   errout(owners)               the error value returned to the caller,  *)
(*                                owners of the secrets in its text        *)
(* It states exactly O1, O2, O3 of AuthObl.tla; the first violated         *)
(* obligation is latched in `bad`.  Mirrors no code.                       *)
(***************************************************************************)
EXTENDS AuthObl, Naturals, Sequences, FiniteSets, TLC
VARIABLES tls,     \* hosts configured for TLS
          named,   \* <<host, realm host>> : realm named by that host in a challenge
          bad
pvars == <<tls, named, bad>>
SeqToSet(s) == {s[i] : i \in 1..Len(s)}
\* the obligations an event violates in the current state, as texts
MsgBads(to, scheme, owners) ==
  LET os == SeqToSet(owners) IN
  {"O1 secret of " \o o \o " sent to " \o to : o \in O1Bad(named, os, to)}
  \cup (IF O2Bad(tls, scheme, to, os) THEN {"O2 secret sent over " \o scheme \o " to " \o to} ELSE {})
LogBads(owners) == IF O3Bad(SeqToSet(owners)) THEN {"O3 secret in log output"} ELSE {}
\* what the client hands back to its caller is emitted output as well (callers print and log it)
ErrBads(owners) == IF O3Bad(SeqToSet(owners)) THEN {"O3 secret in returned error"} ELSE {}
Latch(bads) == IF bad # "" THEN bad ELSE IF bads = {} THEN "" ELSE CHOOSE x \in bads : TRUE

PInit == tls = {} /\ named = {} /\ bad = ""
PReset(t) == tls' = SeqToSet(t) /\ named' = {} /\ bad' = ""
PMsg(to, scheme, owners) ==
  /\ bad' = Latch(MsgBads(to, scheme, owners))
  /\ UNCHANGED <<tls, named>>
PChallenge(from, realm) ==
  /\ named' = IF realm # "" THEN named \cup {<<from, realm>>} ELSE named
  /\ UNCHANGED <<tls, bad>>
PLog(owners) ==
  /\ bad' = Latch(LogBads(owners))
  /\ UNCHANGED <<tls, named>>
PErr(owners) ==
  /\ bad' = Latch(ErrBads(owners))
  /\ UNCHANGED <<tls, named>>
PNote == UNCHANGED pvars
Ok == bad = ""
=============================================================================

------------------------------- MODULE AuthProp ------------------------------
(***************************************************************************)
(* (P) property monitor for C11.  Observation shaped: its events are what  *)
(* an observer of the wire and of the log sees, recorded by                *)
(* harness/cmd/c11drv (recording RoundTripper in front of the model hosts, *)
(* slog handler at the lowest level):                                      *)
(*   reset(tls)                   start of a run; hosts configured for TLS *)
(*   msg(to, scheme, owners)      a request reached host `to`; owners =    *)
(*                                registries whose secrets occur in its    *)
(*                                URL, headers or body (any encoding)      *)
(*   challenge(from, type, realm) host `from` sent a 401 challenge; realm  *)
(*                                = host of the token endpoint it names    *)
(*   log(owners)                  a log record containing secrets          *)
(* It states exactly O1, O2, O3 of AuthObl.tla; the first violated         *)
(* obligation is latched in `bad`.  Mirrors no code.                       *)
(***************************************************************************)
EXTENDS AuthObl, Naturals, Sequences, FiniteSets, TLC
VARIABLES tls,     \* hosts configured for TLS
          named,   \* <<host, realm host>> : realm named by that host in a challenge
          bad
pvars == <<tls, named, bad>>
SeqToSet(s) == {s[i] : i \in 1..Len(s)}
Latch(checks) ==   \* checks: sequence of <<is-bad, text>>
  IF bad # "" THEN bad
  ELSE IF \E i \in 1..Len(checks) : checks[i][1]
       THEN checks[CHOOSE i \in 1..Len(checks) : checks[i][1] /\ \A j \in 1..(i - 1) : ~checks[j][1]][2]
       ELSE ""

PInit == tls = {} /\ named = {} /\ bad = ""
PReset(t) == tls' = SeqToSet(t) /\ named' = {} /\ bad' = ""
PMsg(to, scheme, owners) ==
  LET os == SeqToSet(owners)
      o1 == O1Bad(named, os, to)
  IN /\ bad' = Latch(<< <<o1 # {}, "O1 secret of " \o (IF o1 # {} THEN CHOOSE o \in o1 : TRUE ELSE "") \o " sent to " \o to>>,
                        <<O2Bad(tls, scheme, to, os), "O2 secret sent over " \o scheme \o " to " \o to>> >>)
     /\ UNCHANGED <<tls, named>>
PChallenge(from, realm) ==
  /\ named' = IF realm # "" THEN named \cup {<<from, realm>>} ELSE named
  /\ UNCHANGED <<tls, bad>>
PLog(owners) ==
  /\ bad' = Latch(<< <<O3Bad(SeqToSet(owners)), "O3 secret in log output">> >>)
  /\ UNCHANGED <<tls, named>>
PNote == UNCHANGED pvars
Ok == bad = ""
=============================================================================

INIT XInit
NEXT XStep
CONSTANTS
 DrainBug = FALSE
 LinkCode = FALSE
 DupPathBug = FALSE
 Ids <- ThoroughIds
INVARIANTS EmitOrder XOnce
CHECK_DEADLOCK FALSE

INIT XInit
NEXT XStep
CONSTANTS
 DrainBug = TRUE
 LinkCode = TRUE
 DupPathBug = TRUE
 Ids <- ThoroughIds
INVARIANTS EmitOrder XOnce
CHECK_DEADLOCK FALSE

\* X04: thorough: every sequence of 3 sources of a mid universe
INIT GMCInit
NEXT GMCNext
INVARIANT Ok
CHECK_DEADLOCK FALSE
CONSTANTS
 Fix = {"mergeToken", "cloneTransport"}
 MGroup = {}
 MVals = 2
 MValsB = 2
 MaxOpts = 3
 UNames = {"r1.test", "docker.io"}
 UTls = {"", "insecure", "disabled"}
 UCred = {"none", "up1", "tok1", "h1"}
 UHostname = {"", "alt.test"}
 UMirrors = {"", "m1.test"}
 UPrefix = {""}
 UDefTls = {""}
 UDefCred = {"up2", "h2"}
 UDefHostname = {""}
 UDockKey = {"r1.test", "https://index.docker.io/v1/"}
 UDockCred = {"up1", "h1"}
 TNames = {"r1.test", "r2.test"}
 TTls = {"", "insecure", "disabled"}
 TRegcert = {"", "ca-r1.test"}
 TCert = {"none", "pair1"}
 TModes = {"default", "shared"}
 RKeys = {"r1.test", "docker.io", "registry-1.docker.io"}
 RTls = {"", "insecure", "disabled"}
 RCred = {"none", "up1", "tok1", "h1"}
 RHostname = {"", "alt.test"}
 RDefCred = {"up2", "h2"}
 RDockKey = {"r1.test", "https://index.docker.io/v1/"}
 RDockCred = {"up1", "h1", "s1"}
 RFlagName = {"r1.test", "docker.io"}
 ProbeSet <- ProbeSetStd
 GProbes <- ProbesStd
 TProbeSeqs <- TSeqsStd

CONSTANTS
 Confs <- MCConfs
 FixWaitErr = TRUE
 Reduce = FALSE
 MCShapes = {"img", "dup", "idx2", "nested", "docker", "bentry", "empty", "inline", "dupentry", "sha512"}
 MCPairs = {"tworeg", "samereg", "samerepo", "reg2dir", "dir2reg", "dir2dir"}
 MCOpts <- MCOptsDefault
 MCFeats <- MCFeatsMount3
 MCInit = "corners"
 MCTag0 = {"none", "stale", "same"}
 MCByDigest = {FALSE}
 MCTgtByDigest = {FALSE}
 MaxFaults = 0
 AllowCancel = FALSE
 AllowCrash = FALSE
 Cap = 3
 Rare = 25
INIT GInit
NEXT GNext
INVARIANTS Emit
CHECK_DEADLOCK FALSE

\* repaired design, round 5: forms of the added stream x the options that read or rewrite the added layer, programs <= 2, every placement class and source kind
CONSTANTS
 Images <- ImagesForms
 Options <- OptsFormsWith
 MaxProg = 2
 Places = {"same-digest", "same-tag", "same-replace", "cross"}
 SrcKinds = {"reg", "dir"}
 FixData = TRUE
 FixWriter = TRUE
 FixAdded = TRUE
 FixTag = TRUE
 FixClose = TRUE
 FixDesc = TRUE
 Fine = FALSE
SPECIFICATION Spec
INVARIANTS TypeOK PostAligned PostTruthful PostResolves PostNoop PostNoopIff
CHECK_DEADLOCK FALSE

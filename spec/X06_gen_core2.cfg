SPECIFICATION GSpec
CONSTANTS
 FewerIsMismatch = TRUE
 NilCreatedSafe = TRUE
 NilPlatformSafe = FALSE
 Mut = ""
 Level = 2
 GenMode = "core"
INVARIANTS Emit
CHECK_DEADLOCK FALSE

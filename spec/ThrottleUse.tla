---------------------------- MODULE ThrottleUse ----------------------------
(***************************************************************************)
(* X01 (extra area) - how regclient's operations USE the per-host request  *)
(* throttles.  C17 is about the queue itself (internal/pqueue); this       *)
(* module is about its users:                                              *)
(*   internal/reghttp/http.go  Resp.next   the request loop: per        *)
(*        attempt Acquire(h.throttle) - send - on failure release and go   *)
(*        on with the same / the next host - on success keep the slot      *)
(*        until Close; a restart (Seek, short read) releases the slot of   *)
(*        the previous attempt first                                       *)
(*   internal/reghttp/http.go  Resp.Close / Read   release at Close     *)
(*   blob.go  BlobCopy         AcquireMulti over the throttles of source   *)
(*        (+ mirrors) and target, inner requests run under the returned    *)
(*        context without a slot of their own, cleanup releases all        *)
(*   scheme/ocidir/blob.go BlobPut   Acquire / deferred release            *)
(* One action per critical section of that code.  The queue is abstracted  *)
(* to what C17 establishes about it: a counting semaphore with a FIFO of   *)
(* waiters whose release hands the slot over.  Deliberate deviations:      *)
(* AcquireMulti is one atomic step that waits until every queue has a free *)
(* slot (its back-off loop is C17's subject); the priority function is     *)
(* FIFO; token requests to an auth server are not modelled (they are sent  *)
(* while the registry's slot is held and need none of their own).          *)
(***************************************************************************)
EXTENDS Naturals, Sequences, FiniteSets, TLC

CONSTANTS Ops,        \* operation (caller) ids
          Hosts,      \* throttled hosts
          Confs,      \* the configurations explored: records [max, prog]
                      \*   max: host -> limit
                      \*   prog: op -> [kind, hosts, fail, restarts, cancel]
                      \*   kind "req": one request, response consumed and closed inside the call
                      \*   kind "reader": the response stays open until the user closes it
                      \*   kind "copy": multi-acquire over `hosts`, inner requests, cleanup
                      \*   hosts: sequence of hosts to try in order (mirrors first, then upstream)
                      \*   fail: number of attempts that fail before one succeeds (may exceed the hosts);
                      \*         for a copy: > 0 = an inner request fails for good and the copy returns an error
                      \*   restarts: number of restarts (seek / short read) of an open reader
                      \*   cancel: TRUE when the caller's context is cancelled while it waits
          RetryLimit, \* attempts per logical request
          LeakOn      \* "" = the code as it is; otherwise the name of a seeded leak (expected counterexamples)

VARIABLES conf,     \* the configuration, chosen initially
          pc,       \* op -> control state
          att,      \* op -> number of attempts made
          hi,       \* op -> index into Prog[o].hosts of the current host
          rst,      \* op -> restarts still to do
          slots,    \* host -> set of ops holding a slot
          waitq     \* host -> sequence of waiting ops
vars == <<conf, pc, att, hi, rst, slots, waitq>>
Prog == conf.prog
Max == conf.max

Cur(o) == Prog[o].hosts[hi[o]]
HostSet(o) == {Prog[o].hosts[i] : i \in 1..Len(Prog[o].hosts)}
Free(h) == Cardinality(slots[h]) + Len(waitq[h]) < Max[h]
Remove(s, x) == SelectSeq(s, LAMBDA y : y # x)

Init ==
  /\ conf \in Confs
  /\ pc = [o \in Ops |-> "idle"]
  /\ att = [o \in Ops |-> 0]
  /\ hi = [o \in Ops |-> 1]
  /\ rst = [o \in Ops |-> conf.prog[o].restarts]
  /\ slots = [h \in Hosts |-> {}]
  /\ waitq = [h \in Hosts |-> <<>>]

\* release of op o's slot on host h: the oldest waiter, if any, takes it over (pqueue.release)
Released(o, h) ==
  IF waitq[h] # <<>> /\ Cardinality(slots[h] \ {o}) < Max[h]
  THEN /\ slots' = [slots EXCEPT ![h] = (@ \ {o}) \cup {Head(waitq[h])}]
       /\ waitq' = [waitq EXCEPT ![h] = Tail(@)]
  ELSE /\ slots' = [slots EXCEPT ![h] = @ \ {o}]
       /\ UNCHANGED waitq

\* ---- reghttp request loop ------------------------------------------------------------------
\* Do / a restart enters the loop (next): attempt counter checked, then Acquire on the current host
Enter(o) ==
  /\ pc[o] \in {"idle", "again"} /\ Prog[o].kind \in {"req", "reader"}
  /\ IF att[o] >= RetryLimit \/ hi[o] > Len(Prog[o].hosts)
     THEN pc' = [pc EXCEPT ![o] = "failed"] /\ UNCHANGED <<att, hi, rst, slots, waitq>>
     ELSE /\ att' = [att EXCEPT ![o] = @ + 1]
          /\ IF Free(Cur(o))
             THEN slots' = [slots EXCEPT ![Cur(o)] = @ \cup {o}] /\ pc' = [pc EXCEPT ![o] = "holding"] /\ UNCHANGED waitq
             ELSE waitq' = [waitq EXCEPT ![Cur(o)] = Append(@, o)] /\ pc' = [pc EXCEPT ![o] = "waiting"] /\ UNCHANGED slots
          /\ UNCHANGED <<hi, rst>>

\* a waiter was handed a slot (Released moved it into slots): Acquire returns
Woken(o) ==
  /\ pc[o] = "waiting" /\ o \in slots[Cur(o)]
  /\ pc' = [pc EXCEPT ![o] = "holding"]
  /\ UNCHANGED <<att, hi, rst, slots, waitq>>

\* the context is cancelled while the caller waits: it leaves the queue and the call fails
CancelWaiting(o) ==
  /\ pc[o] = "waiting" /\ Prog[o].cancel /\ o \notin slots[Cur(o)]
  /\ waitq' = [waitq EXCEPT ![Cur(o)] = Remove(@, o)]
  /\ pc' = [pc EXCEPT ![o] = "failed"]
  /\ UNCHANGED <<att, hi, rst, slots>>

\* the request is sent while the slot is held; it fails: the slot is released, next host / retry
SendFail(o) ==
  /\ pc[o] = "holding" /\ att[o] <= Prog[o].fail
  /\ IF LeakOn = "fail-keeps-slot" /\ att[o] >= RetryLimit
     THEN UNCHANGED <<slots, waitq>>
     ELSE Released(o, Cur(o))
  /\ hi' = [hi EXCEPT ![o] = IF hi[o] < Len(Prog[o].hosts) THEN hi[o] + 1 ELSE hi[o]]
  /\ pc' = [pc EXCEPT ![o] = "again"]
  /\ UNCHANGED <<att, rst>>

\* it succeeds: the slot stays with the response
SendOk(o) ==
  /\ pc[o] = "holding" /\ att[o] > Prog[o].fail
  /\ pc' = [pc EXCEPT ![o] = "open"]
  /\ UNCHANGED <<att, hi, rst, slots, waitq>>

\* a read from the open response (only legal while the slot is held: see ReadUnderSlot)
\* Seek to another offset / short read: the request restarts; the slot of the previous attempt is
\* released first (next(), top), then the loop is entered again
Restart(o) ==
  /\ pc[o] = "open" /\ Prog[o].kind = "reader" /\ rst[o] > 0
  /\ rst' = [rst EXCEPT ![o] = @ - 1]
  /\ IF LeakOn = "restart-keeps-slot" THEN UNCHANGED <<slots, waitq>> ELSE Released(o, Cur(o))
  /\ pc' = [pc EXCEPT ![o] = "again"]
  /\ UNCHANGED <<att, hi>>

\* Close (by the call itself for "req", by the user for "reader")
Close(o) ==
  /\ pc[o] = "open" /\ (Prog[o].kind = "req" \/ rst[o] = 0)
  /\ Released(o, Cur(o))
  /\ pc' = [pc EXCEPT ![o] = "done"]
  /\ UNCHANGED <<att, hi, rst>>

\* ---- BlobCopy: multi-acquire, inner requests, cleanup ---------------------------------------
MultiAcquire(o) ==
  /\ pc[o] = "idle" /\ Prog[o].kind = "copy"
  /\ \A h \in HostSet(o) : Free(h)
  /\ slots' = [h \in Hosts |-> IF h \in HostSet(o) THEN slots[h] \cup {o} ELSE slots[h]]
  /\ pc' = [pc EXCEPT ![o] = "multi"]
  /\ UNCHANGED <<att, hi, rst, waitq>>

\* the inner requests (BlobGet at the source, BlobPut at the target) run under the transaction
MultiWork(o) ==
  /\ pc[o] = "multi"
  /\ pc' = [pc EXCEPT ![o] = "multi_done"]
  /\ UNCHANGED <<att, hi, rst, slots, waitq>>

\* cleanup releases every queue of the transaction (one Released per queue, in one step here)
RECURSIVE ReleaseAll(_, _, _, _)
ReleaseAll(o, hs, sl, wq) ==
  IF hs = {} THEN <<sl, wq>>
  ELSE LET h == CHOOSE x \in hs : TRUE
           take == wq[h] # <<>> /\ Cardinality(sl[h] \ {o}) < Max[h]
           sl2 == [sl EXCEPT ![h] = IF take THEN (@ \ {o}) \cup {Head(wq[h])} ELSE @ \ {o}]
           wq2 == [wq EXCEPT ![h] = IF take THEN Tail(@) ELSE @]
       IN ReleaseAll(o, hs \ {h}, sl2, wq2)
\* (also on the error paths: the inner request failed, Prog[o].fail > 0, and BlobCopy returns the error)
MultiCleanup(o) ==
  /\ pc[o] = "multi_done"
  /\ LET hs == IF LeakOn = "cleanup-skips-source" THEN {Prog[o].hosts[Len(Prog[o].hosts)]}
                ELSE IF LeakOn = "error-skips-cleanup" /\ Prog[o].fail > 0 THEN {}
                ELSE HostSet(o)
         r == ReleaseAll(o, hs, slots, waitq)
     IN slots' = r[1] /\ waitq' = r[2]
  /\ pc' = [pc EXCEPT ![o] = IF Prog[o].fail > 0 THEN "failed" ELSE "done"]
  /\ UNCHANGED <<att, hi, rst>>

Next == UNCHANGED conf /\ \E o \in Ops : \/ Enter(o) \/ Woken(o) \/ CancelWaiting(o) \/ SendFail(o) \/ SendOk(o)
                       \/ Restart(o) \/ Close(o) \/ MultiAcquire(o) \/ MultiWork(o) \/ MultiCleanup(o)
Finished == \A o \in Ops : pc[o] \in {"done", "failed"}
Spec == Init /\ [][Next]_vars
\* users close what they opened and every enabled step of the code is eventually taken
Step(o) == UNCHANGED conf /\ (Enter(o) \/ Woken(o) \/ CancelWaiting(o) \/ SendFail(o) \/ SendOk(o)
                                \/ Restart(o) \/ Close(o) \/ MultiWork(o) \/ MultiCleanup(o))
\* the multi-acquire needs strong fairness: it is enabled only while every queue has room (AcquireMulti's
\* own progress is C17's subject and not part of its statement beyond deadlock freedom)
FairSpec == Spec /\ \A o \in Ops : WF_vars(Step(o)) /\ SF_vars(UNCHANGED conf /\ MultiAcquire(o))

\* ---- the statement ---------------------------------------------------------------------------
TypeOK == /\ \A h \in Hosts : slots[h] \subseteq Ops
          /\ \A o \in Ops : hi[o] \in 1..Len(Prog[o].hosts)
SlotBound == \A h \in Hosts : Cardinality(slots[h]) <= Max[h]
\* a request is on the wire / a response is being read only while its sender holds a slot of that host
SendUnderSlot == \A o \in Ops : pc[o] \in {"holding", "open"} => o \in slots[Cur(o)]
InnerUnderSlot == \A o \in Ops : pc[o] \in {"multi", "multi_done"} => \A h \in HostSet(o) : o \in slots[h]
\* every slot is given back on every path
NoLeak == \A o \in Ops : pc[o] \in {"done", "failed", "again", "idle"} =>
             \A h \in Hosts : o \notin slots[h] /\ \A i \in 1..Len(waitq[h]) : waitq[h][i] # o
NoneLeftWaiting == Finished => \A h \in Hosts : slots[h] = {} /\ waitq[h] = <<>>
\* nobody waits next to a free slot (no lost hand-over)
NoIdleSlot == \A h \in Hosts : (\E i \in 1..Len(waitq[h]) : waitq[h][i] \notin slots[h]) =>
                 Cardinality(slots[h]) >= Max[h]
\* liveness: every operation returns
Terminates == <>Finished
=============================================================================

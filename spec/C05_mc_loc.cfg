SPECIFICATION LSpec
CONSTANTS
  Base = "answered"
  NReq = 4
INVARIANTS Reached HoldsName
CHECK_DEADLOCK FALSE

\* before the repair (FixAdded off): an added layer run through a per-file step is re-pushed from the consumed reader
CONSTANTS
 Images <- ImagesData
 Options <- OptsAsisAdded
 MaxProg = 2
 Places = {"same-tag"}
 SrcKinds = {"reg"}
 FixData = TRUE
 FixWriter = TRUE
 FixAdded = FALSE
 FixTag = TRUE
 FixClose = TRUE
 FixDesc = TRUE
 Fine = FALSE
SPECIFICATION Spec
INVARIANTS PostAligned
CHECK_DEADLOCK FALSE

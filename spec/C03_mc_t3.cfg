CONSTANTS
 Confs <- MCConfs
 FixWaitErr = TRUE
 Reduce = FALSE
 MCShapes = {"img", "schema1", "inline", "empty", "ext"}
 MCPairs = {"tworeg", "samereg", "dir2dir"}
 MCOpts <- MCOptsDefault
 MCFeats <- MCFeatsDefault
 MCInit = "corners"
 MCTag0 = {"none", "stale"}
 MCByDigest = {FALSE}
 MCTgtByDigest = {FALSE, TRUE}
 MaxFaults = 0
 AllowCancel = FALSE
 AllowCrash = FALSE
 Cap = 3
INIT Init
NEXT Next
INVARIANTS TypeOK InvC04 InvFb InvFbListed InvC03 InvC14 InvC14T InvFailTag

---------------------------- MODULE CheckBaseTrace ----------------------------
(***************************************************************************)
(* X06 - trace spec: replays the ndjson log (env VERIF_TRACE) recorded by  *)
(* harness/cmd/x06drv around real calls of regclient.ImageCheckBase through *)
(* the monitor CheckBaseProp.  One trace = one call; events:               *)
(*   reset  the facts of the world (options, image graph, base graph as    *)
(*          re-read from the registry state by the driver)                 *)
(*   req    a request reached a registry: method, refused (fault) or not   *)
(*   done   result class (nil / mismatch / err / panic), registry changed  *)
(* Mirrors no code.                                                        *)
(***************************************************************************)
EXTENDS CheckBaseProp, Json, IOUtils
Log == ndJsonDeserialize(IOEnv.VERIF_TRACE)
VARIABLE l
Ev == Log[l]
TInit == PInit /\ l = 1
TNext ==
  /\ l <= Len(Log)
  /\ l' = l + 1
  /\ \/ Ev.ev = "reset" /\ PReset([opt |-> Ev.opt, img |-> Ev.img, base |-> Ev.base])
     \/ Ev.ev = "req" /\ PReq(Ev.method, Ev.refused)
     \/ Ev.ev = "done" /\ PDone(Ev.res, Ev.mutated)
TSpec == TInit /\ [][TNext]_<<pvars, l>>
HW == TLCSet(1, IF TLCGet(1) > l THEN TLCGet(1) ELSE l)
Accepted == PrintT(<<"HIGHWATER", TLCGet(1), Len(Log)>>)
ASSUME TLCSet(1, 0)
=============================================================================

------------------------------ MODULE Referrers ------------------------------
(***************************************************************************)
(* (D) design spec for C10: how regclient keeps the referrers of a subject *)
(* - scheme/reg (registry with the referrers API, or client-managed        *)
(* fall-back tag) and scheme/ocidir (OCI layout).  Implementation shaped:  *)
(* one action per HTTP request (served atomically by the registry) and one *)
(* per client-side critical section (cache mutex, muRefTag); the registry, *)
(* the Go scheduler and the history of calls are nondeterministic.         *)
(*                                                                         *)
(* Code mirrored (file:function -> actions; a pc ending in _rq is an HTTP   *)
(* request, everything else is client-local):                              *)
(*  scheme/reg/manifest.go:ManifestPut                                     *)
(*     p_put_rq  PUT manifests/<digest>, OCI-Subject acknowledged iff API  *)
(*     p_cman    cacheMan.Set(artifact)                                    *)
(*     p_crl     cacheRL.Delete(subject); API acknowledged -> return       *)
(*  scheme/reg/referrer.go:referrerPut                                     *)
(*     p_lock    muRefTag.Lock (iff LockPut; the code: TRUE); the lock is   *)
(*               an object (lkmap / lkheld / want, LockStyle), see below   *)
(*     p_get_rq  referrerListByTag = ManifestGet(fall-back tag) (+ the     *)
(*               cacheMan.Set inside ManifestGet) + ReferrerList.Add       *)
(*               (new manifest object; as found: SetOrig on the fetched)   *)
(*     p_puttag_rq  ManifestPut(tag, index)                                *)
(*     p_cman2   cacheMan.Set(index) inside that ManifestPut               *)
(*     p_crl2    cacheRL.Set(subject, list); deferred Unlock; return       *)
(*  scheme/reg/manifest.go:ManifestPut of a manifest WITHOUT a subject     *)
(*     n_put_rq  PUT manifests/<digest>;  n_done  nothing about referrers  *)
(*               (FeatFromPut: the feature cache is set from the missing   *)
(*               acknowledgement - seed C10-8)                             *)
(*  scheme/reg/manifest.go:ManifestDelete (WithManifestCheckReferrers)     *)
(*     d_get / d_get_rq   ManifestGet(artifact): cacheMan hit or GET; not  *)
(*               at all when the caller passes the manifest (WithManifest) *)
(*     d_unl     (deferred Unlock of referrerDelete) cacheMan.Delete(art.)  *)
(*     d_delete_rq  DELETE manifests/<digest>                              *)
(*     d_cman2   after a successful DELETE: cacheMan.Delete(artifact) again *)
(*               and (InvAfterDel) cacheRL.Delete(subject) again           *)
(*  scheme/reg/referrer.go:referrerDelete                                  *)
(*     d_crl     cacheRL.Delete(subject)                                   *)
(*     d_ping / d_ping_rq  referrerPing: feature cache or GET referrers/   *)
(*     d_lock    muRefTag.Lock (iff LockDel; as found: not taken, S7);     *)
(*               with LockDelEarly it precedes d_crl                       *)
(*     d_gettag_rq  referrerListByTag + ReferrerList.Delete                *)
(*     d_puttag_rq  ManifestPut(tag, index) (+ cacheMan.Set)               *)
(*     d_tagdel_rq  TagDelete: DELETE manifests/<tag>                      *)
(*  scheme/reg/tag.go:TagDelete fall-back when DELETE by tag fails         *)
(*     d_tdhead_rq HEAD tag; d_tdput_rq PUT tag := unique dummy image;     *)
(*     d_tdrm_rq   DELETE dummy by digest (the registry drops its tags)    *)
(*  scheme/reg/referrer.go:ReferrerList (the lister, only when quiescent)  *)
(*     l_cache   cacheRL.Get under ListKey (the subject reference after   *)
(*               SetDigest);  l_api_rq  referrerListByAPIPage (paging);    *)
(*     l_api_done featureSet + cacheRL.Set (not for artifactType queries); *)
(*     l_tag_rq  referrerListByTag (+ cacheMan.Set, cacheRL.Set)           *)
(*     followed by scheme.ReferrerFilter (client side)                     *)
(*  scheme/ocidir/{manifest,referrer}.go: o_run = the whole call under     *)
(*     OCIDir.mu (manifestPut+referrerPut / referrerDelete+remove file)    *)
(*  internal/cache: Set/Get/Delete as map updates                          *)
(*                                                                         *)
(* Objects and aliasing (suspicion S8).  A manifest is a mutable Go        *)
(* object; cacheMan stores the pointer.  obj[p] is the index object call p *)
(* works on; a cacheMan entry is either frozen content ("val") or a        *)
(* reference to the object of a running call ("ref", p), resolved through  *)
(* obj[p]; when the call returns its references are frozen.  With          *)
(* CowIndex = FALSE (as found) Add/Delete mutate the object that           *)
(* ManifestGet just cached under the OLD digest; with TRUE (the code now)  *)
(* they build a new object.  Digests are ideal: the digest of an           *)
(* index IS its content (a sequence of artifacts).                         *)
(*                                                                         *)
(* Design switches.  The defaults of the registered configs are the code  *)
(* as it is now (LockPut = LockDel = LockDelEarly = CowIndex = InvAfterDel *)
(* = TRUE: referrerDelete takes muRefTag before its cacheRL.Delete, Add /   *)
(* Delete build a new manifest, ManifestDelete invalidates cacheRL again   *)
(* after its DELETE - fix commits afda30b, 81bfe70, 7834b3b).  Setting a   *)
(* switch to FALSE gives the design as it was found: LockDel = FALSE is    *)
(* finding C10-1 (lost update on the fall-back tag), CowIndex = FALSE is   *)
(* C10-2 (SetOrig mutates the object cached under the OLD digest),         *)
(* InvAfterDel = FALSE with ListConc is C10-4; LockDelEarly = FALSE is the *)
(* insufficient repair "lock only around the read-modify-write" (stale     *)
(* cached list).  MixSameArt lets a push and a delete of ONE artifact      *)
(* overlap (finding C10-3, still open: not serialisable by these locks).   *)
(* ListConc lets the lister run while calls are in flight (beyond the      *)
(* statement's quantifier; even the current design keeps a finer race).    *)
(*                                                                         *)
(* Initial state (round 5): the repository may already hold referrers that *)
(* ANOTHER client pushed (conf.init) together with the fall-back index it  *)
(* wrote - other order than this client would produce, every entry twice   *)
(* (conf.idup), fewer descriptor fields (driver only) - see NA / InitSeq.  *)
(* ReferrerList.Add / Delete on such an index: AddTo appends only when the *)
(* DIGEST is not listed yet, Without removes EVERY entry of the digest.    *)
(*                                                                         *)
(* Deliberate deviations: cache expiry / pruning and the expiry of the     *)
(* feature cache are not modelled (minutes; a history lasts milliseconds); *)
(* descriptor slices are values (no aliasing of backing arrays: in-place   *)
(* filtering bugs are left to the monitor on real traces); artifact type   *)
(* and annotations ride on the artifact identity; the blob uploads of      *)
(* TagDelete's dummy image are local; API pages are cut in a1<a2<a3 order  *)
(* (the registry sorts by digest); a call is launched only by the          *)
(* smallest idle goroutine (they are interchangeable); warnings, rate      *)
(* limits, retries and auth are below this spec (C11, C12).                *)
(***************************************************************************)
EXTENDS ReferrersDefs, TLC
CONSTANTS ProcSeq,     \* updater goroutines, as a sequence (fixes the launch order)
          Confs,       \* configurations [mode, cache, page, tagdel, subj]
          MaxOps,      \* calls per history
          MaxConc,     \* calls in flight at once
          SameSubject, \* TRUE: overlapping calls all name one subject
          MixSameArt,  \* TRUE: a push and a delete of the SAME artifact may overlap
          LockPut,     \* referrerPut takes muRefTag        (code: TRUE)
          LockDel,     \* referrerDelete takes muRefTag     (code: TRUE, as found: FALSE)
          LockDelEarly,\* ... and takes it before cacheRL.Delete (code: TRUE)
          CowIndex,    \* Add/Delete build a new object     (code: TRUE, as found: FALSE)
          InvAfterDel, \* ManifestDelete clears cacheRL again after its DELETE (code: TRUE, as found: FALSE)
          LockStyle,   \* "global" (the code: the one mutex muRefTag) | "persubj" | "dropfree" | "perart"
          PlainIds,    \* manifests WITHOUT a subject that a history may also push ("n1" image, "n2" index)
          FeatFromPut, \* ManifestPut records "referrers API yes/no" from the OCI-Subject acknowledgement of
                       \* EVERY push, also of manifests without a subject (code: FALSE; seed C10-8)
          TrustApplied,\* an artifactType query answered with OCI-Filters-Applied is returned without ANY client
                       \* side filtering, so the other filters of the same call are lost (code: FALSE; seed C10-7)
          NormKey,     \* ReferrerList normalises the subject reference (SetDigest: tag dropped) before
                       \* it is used as the key of cacheRL, like every invalidation site (code: TRUE)
          ObsFilters,  \* the queries the lister may issue (a subset of Filters)
          ListConc     \* TRUE: ReferrerList may also run while calls are in flight (beyond the
                       \* statement's quantifier; its own result is then not judged)

Procs == {ProcSeq[i] : i \in 1..Len(ProcSeq)}
PIdx(p) == CHOOSE i \in 1..Len(ProcSeq) : ProcSeq[i] = p

VARIABLES conf,
          srvMan, srvTag, srvIdx,                 \* registry / layout
          feat, cacheRL, cacheArt, cacheIdx,      \* client (reg.Reg)
          lkmap, lkheld, want,                    \* the lock(s) of the fall-back tag update
          pc, op, obj,                            \* updater goroutines
          lpc, lq, lacc, lcur, lconc,             \* the lister
          phase, left,                            \* history control
          out                                     \* observable event of the last step
dvars == <<conf, srvMan, srvTag, srvIdx, feat, cacheRL, cacheArt, cacheIdx, lkmap, lkheld, want,
           pc, op, obj, lpc, lq, lacc, lcur, lconc, phase, left, out>>
\* everything except `out` (which no action reads): the VIEW of the model-checking configs
dview == <<conf, srvMan, srvTag, srvIdx, feat, cacheRL, cacheArt, cacheIdx, lkmap, lkheld, want,
           pc, op, obj, lpc, lq, lacc, lcur, lconc, phase, left>>

NoTag == [k |-> "none", v |-> <<>>]
IdxTag(v) == [k |-> "idx", v |-> v]
TmpTag(p) == [k |-> "tmp", v |-> <<p>>]
NoList == [k |-> "none", v |-> <<>>]
AList(v) == [k |-> "list", v |-> v]
NoObj == [k |-> "none", v |-> <<>>]
RefEnt(p) == [k |-> "ref", p |-> p, v |-> <<>>]
ValEnt(v) == [k |-> "val", p |-> "", v |-> v]
NoOp == [k |-> "none", a |-> ""]
Quiet == [ev |-> "none"]

Ord == [a \in Arts |-> CASE a = "a1" -> 1 [] a = "a2" -> 2 [] OTHER -> 3]
Upd(f, k, v) == [x \in DOMAIN f \cup {k} |-> IF x = k THEN v ELSE f[x]]
\* ---- round 5: two optional fields of a configuration (absent = the values of all earlier rounds)
\*   conf.na    the artifacts whose manifest has no annotations (absent member or empty map)
\*   conf.init  what ANOTHER client left in the repository before this client starts: the artifacts it
\*              pushed, in the order it listed them in the fall-back index of their subject (client
\*              managed back ends; with the referrers API only the manifests); conf.idup = 1: that client
\*              listed every referrer twice (legal in an OCI index)
NA == IF "na" \in DOMAIN conf THEN conf.na ELSE {}
InitSeq == IF "init" \in DOMAIN conf THEN conf.init ELSE <<>>
InitDup == "idup" \in DOMAIN conf /\ conf.idup = 1
InitIdx(s) == LET v == SelectSeq(InitSeq, LAMBDA a : conf.subj[a] = s) IN IF InitDup THEN v \o v ELSE v
InitTag(s) == IF conf.mode # "api" /\ InitIdx(s) # <<>> THEN [k |-> "idx", v |-> InitIdx(s)] ELSE [k |-> "none", v |-> <<>>]
Sel(s, f) == SelectSeq(s, LAMBDA a : MatchN(NA, a, f))
Without(s, a) == SelectSeq(s, LAMBDA b : b # a)
\* content a cacheMan entry resolves to (objv: the obj function to resolve references in)
Deref(e, objv) == IF e.k = "ref" THEN objv[e.p].v ELSE e.v
Freeze(c, p, v) == [d \in DOMAIN c |-> IF c[d].k = "ref" /\ c[d].p = p THEN ValEnt(v) ELSE c[d]]

\* keys of the lock map and the lock objects (see "the lock as an object" below)
LKeys == {"g"} \cup Subj \cup Arts
LSeq == <<"L1", "L2", "L3", "L4", "L5", "L6">>
LockIds == {"G"} \cup Range(LSeq)
Cache == conf.cache = 1
\* keys of cacheRL: the normalised subject reference (the subject itself) and, for a caller that
\* writes repo:tag@digest, the reference as written; put / delete only ever use the normalised one
RawKey(s) == CASE s = "s1" -> "s1#" [] s = "s2" -> "s2#" [] OTHER -> "a1#"
RLKeys == Subj \cup {RawKey(s) : s \in Subj}
KeySubj(k) == IF k \in Subj THEN k ELSE CHOOSE s \in Subj : RawKey(s) = k
ListKey(s) == IF NormKey \/ conf.spell # "both" THEN s ELSE RawKey(s)
Reg == conf.mode # "oci"
A(p) == op[p].a
S(p) == IF op[p].k = "plain" THEN "-" ELSE conf.subj[op[p].a]
Idle(p) == pc[p] = "idle"
AllIdle == \A p \in Procs : Idle(p)
Running == {p \in Procs : ~Idle(p)}

Init ==
  /\ conf \in Confs
  /\ srvMan = Range(InitSeq) /\ srvTag = [s \in Subj |-> InitTag(s)]
  /\ srvIdx = {InitIdx(s) : s \in {x \in Subj : InitTag(x).k = "idx"}}
  /\ feat = "unknown" /\ cacheRL = [k \in RLKeys |-> NoList] /\ cacheArt = {} /\ cacheIdx = <<>>
  /\ lkmap = [k \in LKeys |-> IF k = "g" THEN "G" ELSE ""] /\ lkheld = [o \in LockIds |-> ""]
  /\ want = [p \in Procs |-> ""]
  /\ pc = [p \in Procs |-> "idle"] /\ op = [p \in Procs |-> NoOp] /\ obj = [p \in Procs |-> NoObj]
  /\ lpc = "idle" /\ lq = [s |-> "s1", f |-> "none"] /\ lacc = <<>> /\ lcur = 0 /\ lconc = FALSE
  /\ phase = "run" /\ left = MaxOps
  /\ out = Quiet

\* ------------------------------------------------------------------ helpers
Goto(p, l) == pc' = [pc EXCEPT ![p] = l]
Say(e) == out' = e
Silent == out' = Quiet
\* the call of p returns: freeze its cacheMan references, drop its object, report
Finish(p, res, c, ov) ==
  /\ pc' = [pc EXCEPT ![p] = "idle"]
  /\ cacheIdx' = Freeze(c, p, ov)
  /\ obj' = [obj EXCEPT ![p] = NoObj]
  /\ out' = [ev |-> "ret", id |-> p, res |-> res]
\* ---- the lock as an object.  muRefTag is ONE mutex ("G", LockStyle = "global": the code).  The other
\* styles are designs that keep a mutex per key in a map, looked up (and created) before it is locked:
\*   "persubj"  one per subject, entries stay            (correct, equivalent while calls share a subject)
\*   "dropfree" one per subject, the releaser deletes the entry without looking for waiters: a waiter
\*              then owns a mutex that is no longer in the map and a newcomer creates a fresh one
\*   "perart"   keyed by the artifact being pushed / deleted instead of its subject
\* lkmap: key -> lock object, lkheld: lock object -> holder, want[p]: the object p looked up / holds.
KeyOf(p) == CASE LockStyle = "global" -> "g" [] LockStyle = "perart" -> A(p) [] OTHER -> S(p)
InUse == {lkmap[k] : k \in LKeys} \cup {want[q] : q \in Procs} \cup {o \in LockIds : lkheld[o] # ""}
Fresh == LSeq[CHOOSE i \in 1..Len(LSeq) : LSeq[i] \notin InUse /\ \A j \in 1..(i - 1) : LSeq[j] \in InUse]
\* the object p is going for: the one it looked up, else the global mutex, else none yet
Tgt(w, p) == IF w[p] # "" THEN w[p] ELSE IF LockStyle = "global" THEN "G" ELSE ""
\* one step at a lock pc: look the mutex up in the map (map styles, first visit), else Lock() it
TakeLock(p, next) ==
  IF LockStyle # "global" /\ want[p] = ""
  THEN LET o == IF lkmap[KeyOf(p)] # "" THEN lkmap[KeyOf(p)] ELSE Fresh IN
       /\ lkmap' = [lkmap EXCEPT ![KeyOf(p)] = o]
       /\ want' = [want EXCEPT ![p] = o]
       /\ UNCHANGED <<lkheld, pc>>
  ELSE /\ lkheld[Tgt(want, p)] = ""
       /\ lkheld' = [lkheld EXCEPT ![Tgt(want, p)] = p]
       /\ want' = [want EXCEPT ![p] = Tgt(want, p)]
       /\ Goto(p, next)
       /\ UNCHANGED lkmap
Held(p) == want[p] # "" /\ lkheld[want[p]] = p
Unlock(p) ==
  IF Held(p)
  THEN /\ lkheld' = [lkheld EXCEPT ![want[p]] = ""]
       /\ want' = [want EXCEPT ![p] = ""]
       /\ lkmap' = IF LockStyle = "dropfree" THEN [lkmap EXCEPT ![KeyOf(p)] = ""] ELSE lkmap
  ELSE UNCHANGED <<lkmap, lkheld, want>>

\* ---------------------------------------------------------------- launching
Launch(p, k, a) ==
  /\ left > 0 /\ (lpc = "idle" \/ ListConc)
  /\ lconc' = (lconc \/ lpc # "idle")
  /\ Idle(p) /\ \A q \in Procs : Idle(q) => PIdx(p) <= PIdx(q)
  /\ Cardinality(Running) < MaxConc
  /\ (SameSubject /\ k # "plain") => \A q \in Running : op[q].k # "plain" => S(q) = conf.subj[a]
  /\ MixSameArt \/ \A q \in Running : A(q) = a => op[q].k = k
  /\ op' = [op EXCEPT ![p] = [k |-> k, a |-> a]]
  /\ pc' = [pc EXCEPT ![p] = IF ~Reg THEN "o_run" ELSE IF k = "put" THEN "p_put_rq"
                              ELSE IF k = "plain" THEN "n_put_rq" ELSE "d_get"]
  /\ left' = left - 1 /\ phase' = "run"
  /\ out' = [ev |-> "call", id |-> p, k |-> k, a |-> a]
  /\ UNCHANGED <<conf, srvMan, srvTag, srvIdx, feat, cacheRL, cacheArt, cacheIdx, lkmap, lkheld, want, obj, lpc, lq, lacc, lcur>>

\* ------------------------------------------------ reg: ManifestPut + referrerPut
PPutRq(p) ==
  /\ pc[p] = "p_put_rq"
  /\ srvMan' = srvMan \cup {A(p)}
  /\ Goto(p, "p_cman") /\ Silent
  /\ UNCHANGED <<conf, srvTag, srvIdx, feat, cacheRL, cacheArt, cacheIdx, lkmap, lkheld, want, op, obj, lpc, lq, lacc, lcur, lconc, phase, left>>

PCMan(p) ==
  /\ pc[p] = "p_cman"
  /\ cacheArt' = IF Cache THEN cacheArt \cup {A(p)} ELSE cacheArt
  /\ Goto(p, "p_crl") /\ Silent
  /\ UNCHANGED <<conf, srvMan, srvTag, srvIdx, feat, cacheRL, cacheIdx, lkmap, lkheld, want, op, obj, lpc, lq, lacc, lcur, lconc, phase, left>>

PCRL(p) ==
  /\ pc[p] = "p_crl"
  /\ feat' = IF FeatFromPut THEN (IF conf.mode = "api" THEN "yes" ELSE "no") ELSE feat
  /\ cacheRL' = [cacheRL EXCEPT ![S(p)] = NoList]
  /\ IF conf.mode = "api"
     THEN Finish(p, "ok", cacheIdx, <<>>)
     ELSE Goto(p, "p_lock") /\ Silent /\ UNCHANGED <<cacheIdx, obj>>
  /\ UNCHANGED <<conf, srvMan, srvTag, srvIdx, cacheArt, lkmap, lkheld, want, op, lpc, lq, lacc, lcur, lconc, phase, left>>

PLock(p) ==
  /\ pc[p] = "p_lock"
  /\ IF LockPut THEN TakeLock(p, "p_get_rq") ELSE Goto(p, "p_get_rq") /\ UNCHANGED <<lkmap, lkheld, want>>
  /\ Silent
  /\ UNCHANGED <<conf, srvMan, srvTag, srvIdx, feat, cacheRL, cacheArt, cacheIdx, op, obj, lpc, lq, lacc, lcur, lconc, phase, left>>

\* ManifestGet(tag) caches the fetched object under its digest, then Add mutates it
AddTo(v, a) == IF a \in Range(v) THEN v ELSE Append(v, a)
PGetRq(p) ==
  /\ pc[p] = "p_get_rq"
  /\ LET t == srvTag[S(p)] IN
     CASE t.k = "none" ->
            /\ obj' = [obj EXCEPT ![p] = IdxTag(AddTo(<<>>, A(p)))]
            /\ Goto(p, "p_puttag_rq") /\ Silent
            /\ UNCHANGED <<cacheIdx, lkmap, lkheld, want>>
       [] t.k = "idx" ->
            /\ obj' = [obj EXCEPT ![p] = IdxTag(AddTo(t.v, A(p)))]
            /\ cacheIdx' = IF ~Cache THEN cacheIdx
                           ELSE Upd(cacheIdx, t.v, IF CowIndex /\ AddTo(t.v, A(p)) # t.v THEN ValEnt(t.v) ELSE RefEnt(p))
            /\ Goto(p, "p_puttag_rq") /\ Silent
            /\ UNCHANGED <<lkmap, lkheld, want>>
       [] OTHER -> \* the tag holds TagDelete's dummy image: "manifest is not an OCI index"
            /\ Unlock(p)
            /\ Finish(p, "err", cacheIdx, <<>>)
  /\ UNCHANGED <<conf, srvMan, srvTag, srvIdx, feat, cacheRL, cacheArt, op, lpc, lq, lacc, lcur, lconc, phase, left>>

PPutTagRq(p) ==
  /\ pc[p] = "p_puttag_rq"
  /\ srvTag' = [srvTag EXCEPT ![S(p)] = IdxTag(obj[p].v)]
  /\ srvIdx' = srvIdx \cup {obj[p].v}
  /\ Goto(p, "p_cman2") /\ Silent
  /\ UNCHANGED <<conf, srvMan, feat, cacheRL, cacheArt, cacheIdx, lkmap, lkheld, want, op, obj, lpc, lq, lacc, lcur, lconc, phase, left>>

PCMan2(p) ==
  /\ pc[p] = "p_cman2"
  /\ cacheIdx' = IF Cache THEN Upd(cacheIdx, obj[p].v, RefEnt(p)) ELSE cacheIdx
  /\ Goto(p, "p_crl2") /\ Silent
  /\ UNCHANGED <<conf, srvMan, srvTag, srvIdx, feat, cacheRL, cacheArt, lkmap, lkheld, want, op, obj, lpc, lq, lacc, lcur, lconc, phase, left>>

PCRL2(p) ==
  /\ pc[p] = "p_crl2"
  /\ cacheRL' = IF Cache THEN [cacheRL EXCEPT ![S(p)] = AList(obj[p].v)] ELSE cacheRL
  /\ Unlock(p)
  /\ Finish(p, "ok", cacheIdx, obj[p].v)
  /\ UNCHANGED <<conf, srvMan, srvTag, srvIdx, feat, cacheArt, op, lpc, lq, lacc, lcur, lconc, phase, left>>

\* --------------------------------------- reg: ManifestDelete + referrerDelete
DGet(p) ==
  /\ pc[p] = "d_get"
  /\ Goto(p, IF conf.dopt = "man" \/ (Cache /\ A(p) \in cacheArt)
              THEN (IF LockDel /\ LockDelEarly THEN "d_lock" ELSE "d_crl") ELSE "d_get_rq") /\ Silent
  /\ UNCHANGED <<conf, srvMan, srvTag, srvIdx, feat, cacheRL, cacheArt, cacheIdx, lkmap, lkheld, want, op, obj, lpc, lq, lacc, lcur, lconc, phase, left>>

DGetRq(p) ==
  /\ pc[p] = "d_get_rq"
  /\ IF A(p) \in srvMan
     THEN /\ cacheArt' = IF Cache THEN cacheArt \cup {A(p)} ELSE cacheArt
          /\ Goto(p, IF LockDel /\ LockDelEarly THEN "d_lock" ELSE "d_crl") /\ Silent
          /\ UNCHANGED <<cacheIdx, obj>>
     ELSE /\ Finish(p, "err", cacheIdx, <<>>)     \* failed to pull manifest for refers
          /\ UNCHANGED cacheArt
  /\ UNCHANGED <<conf, srvMan, srvTag, srvIdx, feat, cacheRL, lkmap, lkheld, want, op, lpc, lq, lacc, lcur, lconc, phase, left>>

DCRL(p) ==
  /\ pc[p] = "d_crl"
  /\ cacheRL' = [cacheRL EXCEPT ![S(p)] = NoList]
  /\ Goto(p, "d_ping") /\ Silent
  /\ UNCHANGED <<conf, srvMan, srvTag, srvIdx, feat, cacheArt, cacheIdx, lkmap, lkheld, want, op, obj, lpc, lq, lacc, lcur, lconc, phase, left>>

\* where the call continues once it knows whether the registry has the API
AfterPing(p, f) == IF f = "yes" THEN "d_unl" ELSE IF LockDel /\ ~LockDelEarly THEN "d_lock" ELSE "d_gettag_rq"
DPing(p) ==
  /\ pc[p] = "d_ping"
  /\ Goto(p, IF feat = "unknown" THEN "d_ping_rq" ELSE AfterPing(p, feat)) /\ Silent
  /\ UNCHANGED <<conf, srvMan, srvTag, srvIdx, feat, cacheRL, cacheArt, cacheIdx, lkmap, lkheld, want, op, obj, lpc, lq, lacc, lcur, lconc, phase, left>>

DPingRq(p) ==
  /\ pc[p] = "d_ping_rq"
  /\ feat' = IF conf.mode = "api" THEN "yes" ELSE "no"
  /\ Goto(p, AfterPing(p, feat')) /\ Silent
  /\ UNCHANGED <<conf, srvMan, srvTag, srvIdx, cacheRL, cacheArt, cacheIdx, lkmap, lkheld, want, op, obj, lpc, lq, lacc, lcur, lconc, phase, left>>

DLock(p) ==
  /\ pc[p] = "d_lock"
  /\ TakeLock(p, IF LockDelEarly THEN "d_crl" ELSE "d_gettag_rq") /\ Silent
  /\ UNCHANGED <<conf, srvMan, srvTag, srvIdx, feat, cacheRL, cacheArt, cacheIdx, op, obj, lpc, lq, lacc, lcur, lconc, phase, left>>

DGetTagRq(p) ==
  /\ pc[p] = "d_gettag_rq"
  /\ LET t == srvTag[S(p)] IN
     CASE t.k = "none" ->      \* empty list: Delete reports ErrNotFound, which ManifestDelete ignores
            /\ Goto(p, "d_unl") /\ Silent
            /\ UNCHANGED <<cacheIdx, obj>>
       [] t.k = "idx" /\ A(p) \notin Range(t.v) ->
            /\ cacheIdx' = IF Cache THEN Upd(cacheIdx, t.v, ValEnt(t.v)) ELSE cacheIdx
            /\ Goto(p, "d_unl") /\ Silent
            /\ UNCHANGED obj
       [] t.k = "idx" /\ A(p) \in Range(t.v) ->
            /\ obj' = [obj EXCEPT ![p] = IdxTag(Without(t.v, A(p)))]
            /\ cacheIdx' = IF ~Cache THEN cacheIdx
                           ELSE Upd(cacheIdx, t.v, IF CowIndex THEN ValEnt(t.v) ELSE RefEnt(p))
            /\ Goto(p, IF Without(t.v, A(p)) = <<>> THEN "d_tagdel_rq" ELSE "d_puttag_rq") /\ Silent
       [] OTHER ->             \* dummy image in the tag: not an OCI index, the delete fails
            /\ Goto(p, "d_fail") /\ Silent
            /\ UNCHANGED <<cacheIdx, obj>>
  /\ UNCHANGED <<conf, srvMan, srvTag, srvIdx, feat, cacheRL, cacheArt, lkmap, lkheld, want, op, lpc, lq, lacc, lcur, lconc, phase, left>>

DFail(p) ==
  /\ pc[p] = "d_fail"
  /\ Unlock(p)
  /\ Finish(p, "err", cacheIdx, obj[p].v)
  /\ UNCHANGED <<conf, srvMan, srvTag, srvIdx, feat, cacheRL, cacheArt, op, lpc, lq, lacc, lcur, lconc, phase, left>>

DTagDelRq(p) ==
  /\ pc[p] = "d_tagdel_rq"
  /\ IF conf.tagdel = 1 /\ srvTag[S(p)].k # "none"
     THEN srvTag' = [srvTag EXCEPT ![S(p)] = NoTag] /\ Goto(p, "d_unl")
     ELSE UNCHANGED srvTag /\ Goto(p, "d_tdhead_rq")
  /\ Silent
  /\ UNCHANGED <<conf, srvMan, srvIdx, feat, cacheRL, cacheArt, cacheIdx, lkmap, lkheld, want, op, obj, lpc, lq, lacc, lcur, lconc, phase, left>>

DTdHeadRq(p) ==
  /\ pc[p] = "d_tdhead_rq"
  /\ Goto(p, IF srvTag[S(p)].k = "none" THEN "d_puttag_rq" ELSE "d_tdput_rq") /\ Silent
  /\ UNCHANGED <<conf, srvMan, srvTag, srvIdx, feat, cacheRL, cacheArt, cacheIdx, lkmap, lkheld, want, op, obj, lpc, lq, lacc, lcur, lconc, phase, left>>

DTdPutRq(p) ==
  /\ pc[p] = "d_tdput_rq"
  /\ srvTag' = [srvTag EXCEPT ![S(p)] = TmpTag(p)]
  /\ Goto(p, "d_tdrm_rq") /\ Silent
  /\ UNCHANGED <<conf, srvMan, srvIdx, feat, cacheRL, cacheArt, cacheIdx, lkmap, lkheld, want, op, obj, lpc, lq, lacc, lcur, lconc, phase, left>>

DTdRmRq(p) ==
  /\ pc[p] = "d_tdrm_rq"
  /\ srvTag' = [s \in Subj |-> IF srvTag[s] = TmpTag(p) THEN NoTag ELSE srvTag[s]]
  /\ Goto(p, "d_unl") /\ Silent
  /\ UNCHANGED <<conf, srvMan, srvIdx, feat, cacheRL, cacheArt, cacheIdx, lkmap, lkheld, want, op, obj, lpc, lq, lacc, lcur, lconc, phase, left>>

DPutTagRq(p) ==
  /\ pc[p] = "d_puttag_rq"
  /\ srvTag' = [srvTag EXCEPT ![S(p)] = IdxTag(obj[p].v)]
  /\ srvIdx' = srvIdx \cup {obj[p].v}
  /\ cacheIdx' = IF Cache THEN Upd(cacheIdx, obj[p].v, RefEnt(p)) ELSE cacheIdx
  /\ Goto(p, "d_unl") /\ Silent
  /\ UNCHANGED <<conf, srvMan, feat, cacheRL, cacheArt, lkmap, lkheld, want, op, obj, lpc, lq, lacc, lcur, lconc, phase, left>>

\* referrerDelete returns (deferred Unlock), ManifestDelete drops the artifact from cacheMan
DUnl(p) ==
  /\ pc[p] = "d_unl"
  /\ Unlock(p)
  /\ cacheArt' = cacheArt \ {A(p)}
  /\ Goto(p, "d_delete_rq") /\ Silent
  /\ UNCHANGED <<conf, srvMan, srvTag, srvIdx, feat, cacheRL, cacheIdx, op, obj, lpc, lq, lacc, lcur, lconc, phase, left>>

DDeleteRq(p) ==
  /\ pc[p] = "d_delete_rq"
  /\ srvMan' = srvMan \ {A(p)}
  /\ IF A(p) \in srvMan
     THEN Goto(p, "d_cman2") /\ Silent /\ UNCHANGED <<cacheIdx, obj>>
     ELSE Finish(p, "err", cacheIdx, obj[p].v)
  /\ UNCHANGED <<conf, srvTag, srvIdx, feat, cacheRL, cacheArt, lkmap, lkheld, want, op, lpc, lq, lacc, lcur, lconc, phase, left>>

\* after a successful DELETE the artifact is dropped from cacheMan once more (a concurrent push or
\* get of the same digest may have stored it again) and so is the cached referrer list of its
\* subject (a listing may have cached it while the delete was in progress; fix of C10-4)
DCMan2(p) ==
  /\ pc[p] = "d_cman2"
  /\ cacheArt' = cacheArt \ {A(p)}
  /\ cacheRL' = IF InvAfterDel THEN [cacheRL EXCEPT ![S(p)] = NoList] ELSE cacheRL
  /\ Finish(p, "ok", cacheIdx, obj[p].v)
  /\ UNCHANGED <<conf, srvMan, srvTag, srvIdx, feat, lkmap, lkheld, want, op, lpc, lq, lacc, lcur, lconc, phase, left>>

\* ------------------------------------ reg: ManifestPut of a manifest without a subject
\* scheme/reg/manifest.go:ManifestPut: PUT, cacheMan.Set, no subject -> nothing about referrers
NPutRq(p) ==
  /\ pc[p] = "n_put_rq"
  /\ Goto(p, "n_done") /\ Silent
  /\ UNCHANGED <<conf, srvMan, srvTag, srvIdx, feat, cacheRL, cacheArt, cacheIdx, lkmap, lkheld, want, op, obj, lpc, lq, lacc, lcur, lconc, phase, left>>

NDone(p) ==
  /\ pc[p] = "n_done"
  /\ feat' = IF FeatFromPut THEN "no" ELSE feat
  /\ Finish(p, "ok", cacheIdx, <<>>)
  /\ UNCHANGED <<conf, srvMan, srvTag, srvIdx, cacheRL, cacheArt, lkmap, lkheld, want, op, lpc, lq, lacc, lcur, lconc, phase, left>>

\* --------------------------------------------- ocidir: the whole call under o.mu
ORun(p) ==
  /\ pc[p] = "o_run" /\ op[p].k # "plain"
  /\ LET a == A(p)  s == S(p)  t == srvTag[s]  tv == IF t.k = "idx" THEN t.v ELSE <<>> IN
     IF op[p].k = "put"
     THEN /\ srvMan' = srvMan \cup {a}
          /\ srvTag' = [srvTag EXCEPT ![s] = IdxTag(AddTo(tv, a))]
          /\ srvIdx' = srvIdx \cup {AddTo(tv, a)}
          /\ Finish(p, "ok", cacheIdx, <<>>)
     ELSE IF a \notin srvMan
          THEN /\ Finish(p, "err", cacheIdx, <<>>)
               /\ UNCHANGED <<srvMan, srvTag, srvIdx>>
          ELSE /\ srvMan' = srvMan \ {a}
               /\ srvTag' = [srvTag EXCEPT ![s] = IF a \notin Range(tv) THEN t
                                                   ELSE IF Without(tv, a) = <<>> THEN NoTag
                                                   ELSE IdxTag(Without(tv, a))]
               /\ srvIdx' = IF a \in Range(tv) /\ Without(tv, a) # <<>> THEN srvIdx \cup {Without(tv, a)} ELSE srvIdx
               /\ Finish(p, "ok", cacheIdx, <<>>)
  /\ UNCHANGED <<conf, feat, cacheRL, cacheArt, lkmap, lkheld, want, op, lpc, lq, lacc, lcur, lconc, phase, left>>

OPlain(p) ==
  /\ pc[p] = "o_run" /\ op[p].k = "plain"
  /\ Finish(p, "ok", cacheIdx, <<>>)
  /\ UNCHANGED <<conf, srvMan, srvTag, srvIdx, feat, cacheRL, cacheArt, lkmap, lkheld, want, op, lpc, lq, lacc, lcur, lconc, phase, left>>

\* ------------------------------------------------------ quiescent observation
Quiesce ==
  /\ AllIdle /\ lpc = "idle" /\ phase = "run"
  /\ phase' = "obs"
  /\ out' = [ev |-> "stored", set |-> srvMan]
  /\ UNCHANGED <<conf, srvMan, srvTag, srvIdx, feat, cacheRL, cacheArt, cacheIdx, lkmap, lkheld, want, pc, op, obj, lpc, lq, lacc, lcur, lconc, left>>

ListEv(s, f, descs, err) ==
  LET r == Sel(descs, f) IN
  [ev |-> "list", s |-> s, f |-> f, res |-> r, types |-> [i \in 1..Len(r) |-> Type[r[i]]],
   anns |-> [i \in 1..Len(r) |-> AnnOf(NA, r[i])], err |-> err]

\* a listing that overlapped a call reports nothing to the monitor
Tell(e) == out' = IF lconc THEN Quiet ELSE e

ListStart(s, f) ==
  /\ lpc = "idle" /\ (phase = "obs" \/ (ListConc /\ ~AllIdle))
  /\ lq' = [s |-> s, f |-> f] /\ lacc' = <<>> /\ lcur' = 0 /\ lconc' = ~AllIdle
  /\ lpc' = IF Reg THEN "l_cache" ELSE "l_oci"
  /\ Silent
  /\ UNCHANGED <<conf, srvMan, srvTag, srvIdx, feat, cacheRL, cacheArt, cacheIdx, lkmap, lkheld, want, pc, op, obj, phase, left>>

LCache ==
  /\ lpc = "l_cache"
  /\ IF Cache /\ cacheRL[ListKey(lq.s)].k = "list"
     THEN lpc' = "idle" /\ Tell(ListEv(lq.s, lq.f, cacheRL[ListKey(lq.s)].v, ""))
     ELSE lpc' = (IF feat = "no" THEN "l_tag_rq" ELSE "l_api_rq") /\ Silent
  /\ UNCHANGED <<conf, srvMan, srvTag, srvIdx, feat, cacheRL, cacheArt, cacheIdx, lkmap, lkheld, want, pc, op, obj, lq, lacc, lcur, lconc, phase, left>>

\* one page of the referrers API: the matching manifests after the cursor, in key order
ApiAll == LET m == {a \in srvMan : conf.subj[a] = lq.s /\ TypeMatch(a, lq.f) /\ Ord[a] > lcur}
          IN  SelectSeq(<<"a1", "a2", "a3">>, LAMBDA a : a \in m)
LApiRq ==
  /\ lpc = "l_api_rq"
  /\ IF conf.mode # "api"
     THEN /\ feat' = IF feat = "unknown" THEN "no" ELSE feat
          /\ lpc' = "l_tag_rq"
          /\ UNCHANGED <<lacc, lcur>>
     ELSE LET rest == ApiAll
              n == IF conf.page > 0 /\ conf.page < Len(rest) THEN conf.page ELSE Len(rest)
              pg == SubSeq(rest, 1, n) IN
          /\ lacc' = lacc \o pg
          /\ lcur' = IF n > 0 THEN Ord[pg[n]] ELSE lcur
          /\ lpc' = IF n < Len(rest) THEN "l_api_rq" ELSE "l_api_done"
          /\ UNCHANGED feat
  /\ Silent
  /\ UNCHANGED <<conf, srvMan, srvTag, srvIdx, cacheRL, cacheArt, cacheIdx, lkmap, lkheld, want, pc, op, obj, lq, lconc, phase, left>>

LApiDone ==
  /\ lpc = "l_api_done"
  /\ feat' = IF feat = "unknown" THEN "yes" ELSE feat
  /\ cacheRL' = IF Cache /\ ~IsTypeFilter(lq.f) THEN [cacheRL EXCEPT ![ListKey(lq.s)] = AList(lacc)] ELSE cacheRL
  /\ lpc' = "idle"
  /\ Tell(IF TrustApplied /\ IsTypeFilter(lq.f)
          THEN [ListEv(lq.s, "none", lacc, "") EXCEPT !.f = lq.f]   \* nothing filtered on the client
          ELSE ListEv(lq.s, lq.f, lacc, ""))
  /\ UNCHANGED <<conf, srvMan, srvTag, srvIdx, cacheArt, cacheIdx, lkmap, lkheld, want, pc, op, obj, lq, lacc, lcur, lconc, phase, left>>

LTagRq ==
  /\ lpc = "l_tag_rq"
  /\ LET t == srvTag[lq.s] IN
     IF t.k = "tmp"
     THEN /\ Tell(ListEv(lq.s, lq.f, <<>>, "not an OCI index"))
          /\ UNCHANGED <<cacheRL, cacheIdx>>
     ELSE LET d == IF t.k = "idx" THEN t.v ELSE <<>> IN
          /\ cacheIdx' = IF Cache /\ t.k = "idx" THEN Upd(cacheIdx, t.v, ValEnt(t.v)) ELSE cacheIdx
          /\ cacheRL' = IF Cache THEN [cacheRL EXCEPT ![ListKey(lq.s)] = AList(d)] ELSE cacheRL
          /\ Tell(ListEv(lq.s, lq.f, d, ""))
  /\ lpc' = "idle"
  /\ UNCHANGED <<conf, srvMan, srvTag, srvIdx, feat, cacheArt, lkmap, lkheld, want, pc, op, obj, lq, lacc, lcur, lconc, phase, left>>

LOci ==
  /\ lpc = "l_oci"
  /\ lpc' = "idle"
  /\ Tell(ListEv(lq.s, lq.f, IF srvTag[lq.s].k = "idx" THEN srvTag[lq.s].v ELSE <<>>, ""))
  /\ UNCHANGED <<conf, srvMan, srvTag, srvIdx, feat, cacheRL, cacheArt, cacheIdx, lkmap, lkheld, want, pc, op, obj, lq, lacc, lcur, lconc, phase, left>>

\* raw content of the fall-back tag
TagObs(s) ==
  /\ phase = "obs" /\ lpc = "idle"
  /\ LET d == IF srvTag[s].k = "idx" THEN srvTag[s].v ELSE <<>> IN
     out' = [ev |-> "tag", s |-> s, res |-> d, types |-> [i \in 1..Len(d) |-> Type[d[i]]],
             anns |-> [i \in 1..Len(d) |-> AnnOf(NA, d[i])]]
  /\ UNCHANGED dview

\* ManifestGet by digest of an index stored earlier (reg: through cacheMan)
FetchGot(d) == IF Reg /\ Cache /\ d \in DOMAIN cacheIdx THEN Deref(cacheIdx[d], obj) ELSE d
Fetch(d) ==
  /\ phase = "obs" /\ lpc = "idle" /\ d \in srvIdx
  /\ cacheIdx' = IF Reg /\ Cache /\ d \notin DOMAIN cacheIdx THEN Upd(cacheIdx, d, ValEnt(d)) ELSE cacheIdx
  /\ out' = [ev |-> "fetch", asked |-> d, got |-> FetchGot(d)]
  /\ UNCHANGED <<conf, srvMan, srvTag, srvIdx, feat, cacheRL, cacheArt, lkmap, lkheld, want, pc, op, obj, lpc, lq, lacc, lcur, lconc, phase, left>>

\* ---------------------------------------------------------------- next-state
ReqPcs == {"n_put_rq", "p_put_rq", "p_get_rq", "p_puttag_rq", "d_get_rq", "d_ping_rq", "d_gettag_rq", "d_tagdel_rq",
           "d_tdhead_rq", "d_tdput_rq", "d_tdrm_rq", "d_puttag_rq", "d_delete_rq"}
LockPcs == {"p_lock", "d_lock"}
ReqStep(p) == NPutRq(p) \/ PPutRq(p) \/ PGetRq(p) \/ PPutTagRq(p) \/ DGetRq(p) \/ DPingRq(p) \/ DGetTagRq(p)
              \/ DTagDelRq(p) \/ DTdHeadRq(p) \/ DTdPutRq(p) \/ DTdRmRq(p) \/ DPutTagRq(p) \/ DDeleteRq(p)
LocalStep(p) == PCMan(p) \/ PCRL(p) \/ PLock(p) \/ PCMan2(p) \/ PCRL2(p) \/ DGet(p) \/ DCRL(p) \/ DPing(p)
                \/ DLock(p) \/ DFail(p) \/ DUnl(p) \/ DCMan2(p) \/ ORun(p) \/ OPlain(p) \/ NDone(p)
Step(p) == ReqStep(p) \/ LocalStep(p)
ListStep == LCache \/ LApiRq \/ LApiDone \/ LTagRq \/ LOci
Ops == ({"put", "del"} \X Arts) \cup ({"plain"} \X PlainIds)
Next ==
  \/ \E p \in Procs : Step(p)
  \/ \E p \in Procs, o \in Ops : Launch(p, o[1], o[2])
  \/ Quiesce
  \/ \E s \in Subj, f \in ObsFilters : ListStart(s, f)
  \/ ListStep
  \/ \E s \in Subj : TagObs(s)
  \/ \E d \in srvIdx : Fetch(d)
Spec == Init /\ [][Next]_dvars

\* the request the goroutine is about to send, as <<method, kind, target>>
ReqOf(p) == CASE pc[p] = "p_put_rq"    -> <<"PUT", "man", A(p)>>
              [] pc[p] = "n_put_rq"    -> <<"PUT", "man", A(p)>>
              [] pc[p] = "p_get_rq"    -> <<"GET", "tag", S(p)>>
              [] pc[p] = "p_puttag_rq" -> <<"PUT", "tag", S(p)>>
              [] pc[p] = "d_get_rq"    -> <<"GET", "man", A(p)>>
              [] pc[p] = "d_ping_rq"   -> <<"GET", "referrers", S(p)>>
              [] pc[p] = "d_gettag_rq" -> <<"GET", "tag", S(p)>>
              [] pc[p] = "d_tagdel_rq" -> <<"DELETE", "tag", S(p)>>
              [] pc[p] = "d_tdhead_rq" -> <<"HEAD", "tag", S(p)>>
              [] pc[p] = "d_tdput_rq"  -> <<"PUT", "tag", S(p)>>
              [] pc[p] = "d_tdrm_rq"   -> <<"DELETE", "man", "tmp">>
              [] pc[p] = "d_puttag_rq" -> <<"PUT", "tag", S(p)>>
              [] pc[p] = "d_delete_rq" -> <<"DELETE", "man", A(p)>>
              [] OTHER                 -> <<"", "", "">>

\* ------------------------------------------------------ design-level invariants
TagSet(s) == IF srvTag[s].k = "idx" THEN Range(srvTag[s].v) ELSE {}
\* where the client maintains the fall-back tag it is exact whenever no call is in flight
TagExact == (AllIdle /\ conf.mode # "api") =>
              \A s \in Subj : /\ srvTag[s].k # "tmp"
                              /\ TagSet(s) = Expect(srvMan, conf.subj, s, "none")
                              /\ ~HasDup(srvTag[s].v)
\* a cached referrer list is exact whenever no call is in flight
CacheRLExact == AllIdle => \A k \in RLKeys : cacheRL[k].k = "list" =>
                  /\ Range(cacheRL[k].v) = Expect(srvMan, conf.subj, KeySubj(k), "none")
                  /\ ~HasDup(cacheRL[k].v)
\* cacheMan serves under a digest only content that has this digest
CacheCoherent == \A d \in DOMAIN cacheIdx : Deref(cacheIdx[d], obj) = d
\* the lock is held only inside the locked regions, by a running call
LockSane == \A o \in LockIds : lkheld[o] # "" =>
              /\ lkheld[o] \in Procs /\ want[lkheld[o]] = o
              /\ pc[lkheld[o]] \notin {"idle", "p_put_rq", "p_cman", "p_crl", "p_lock", "d_get", "d_get_rq", "d_delete_rq", "d_cman2", "n_put_rq", "n_done"}
\* the read-modify-write of one fall-back tag is a critical section
RMWPcs == {"p_get_rq", "p_puttag_rq", "p_cman2", "p_crl2", "d_gettag_rq", "d_tagdel_rq", "d_tdhead_rq", "d_tdput_rq",
           "d_tdrm_rq", "d_puttag_rq"}
TagMutex == \A p, q \in Procs : (p # q /\ pc[p] \in RMWPcs /\ pc[q] \in RMWPcs) => S(p) # S(q)
NoApiTag == conf.mode = "api" => \A s \in Subj : srvTag[s] = NoTag
=============================================================================

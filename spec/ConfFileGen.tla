----------------------------- MODULE ConfFileGen -----------------------------
(***************************************************************************)
(* Scenario generator of area X02: the uninterrupted behaviours of         *)
(* ConfFile for a scenario set, printed once each as JSON for the real-code*)
(* side (tools/props/x02.py): the scenario itself (start state, identity,  *)
(* umask, commands with their fault points), the schedule of a race and    *)
(* the results (D) predicts (compared with the real results: drift).       *)
(* Racing saves are interleaved at the granularity the driver can enforce  *)
(* on the real code (harness/cmd/x02drv: a gate before the save and before *)
(* every read of the source): a writer keeps the processor from one gate   *)
(* to its next one; `sched` lists the gate releases.                       *)
(* Mirrors: the gates of x02drv.modeRace; deviations: none beyond ConfFile.*)
(***************************************************************************)
EXTENDS ConfFileMC, Json
VARIABLES sched, turn
gvars == <<vars, sched, turn>>

AtGate(v) == IF v = 0 THEN TRUE ELSE pr[v].pc \in {"idle", "copy", "done", "off", "dead"}
GInit == Init /\ sched = <<>> /\ turn = 0
GNext == \E w \in Slots :
           /\ turn = w \/ AtGate(turn)
           /\ Step(w)
           /\ turn' = w
           /\ sched' = IF Sc.mode = "race" /\ pr[w].pc \in {"idle", "copy"} THEN Append(sched, w) ELSE sched
GSpec == GInit /\ [][GNext]_gvars

Finished == \A w \in Slots : pr[w].pc \in {"done", "off"}
Emit == Finished => PrintT(<<"SCN", ToJson([scn |-> Sc, sched |-> sched,
                                            oks |-> [w \in 1..NW |-> IF pr[w].err = "" THEN 1 ELSE 0],
                                            errs |-> [w \in 1..NW |-> pr[w].err]])>>)
=============================================================================

SPECIFICATION MSpec
CONSTANTS
 DescPlatStrict = FALSE
 PlatLookupStrict = FALSE
 ReadFaults = FALSE
 EqualAnnStrict = FALSE
 PutFirst = FALSE
 DedupByDigest = FALSE
 DeleteKeepsOne = FALSE
 Faults = FALSE
 Alphabet <- AlphaAll
 MaxCmds = 2
INVARIANTS Holds TypeOk
CHECK_DEADLOCK FALSE

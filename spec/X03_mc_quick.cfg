SPECIFICATION MSpec
CONSTANTS
 DescPlatStrict = TRUE
 PlatLookupStrict = FALSE
 ReadFaults = FALSE
 EqualAnnStrict = TRUE
 PutFirst = FALSE
 DedupByDigest = FALSE
 DeleteKeepsOne = FALSE
 Faults = FALSE
 Alphabet <- AlphaAll
 MaxCmds = 2
INVARIANTS Holds TypeOk
CHECK_DEADLOCK FALSE

SPECIFICATION MSpec
CONSTANTS
 DescPlatStrict = FALSE
 PlatLookupStrict = FALSE
 ReadFaults = FALSE
 EqualAnnStrict = TRUE
 PutFirst = FALSE
 DedupByDigest = FALSE
 DeleteKeepsOne = FALSE
 Faults = FALSE
 Alphabet <- AlphaKnown
 MaxCmds = 2
INVARIANTS Holds TypeOk
CHECK_DEADLOCK FALSE

---------------------------- MODULE LayoutGCProp ----------------------------
(***************************************************************************)
(* (P) property monitor for C08.  Observation shaped: it knows nothing      *)
(* about modRefs, locks or how the collector walks manifests.  It sees      *)
(*   copy_begin / copy_end   an ImageCopy into the layout was called /      *)
(*                           returned                                       *)
(*   close                   one rc.Close on the layout, bracketed by two   *)
(*                           independent directory audits taken while       *)
(*                           nothing else runs: the digest named files and  *)
(*                           the other (temp) files under blobs/ before and *)
(*                           after, the digests index.json lists, and the   *)
(*                           edges manifest -> child found by parsing the   *)
(*                           files with plain encoding/json (harness/cmd/   *)
(*                           c08drv/audit.go)                               *)
(*   op                      an explicit manifest delete                    *)
(*   final                   audit at the end of the history                *)
(* and states the property.  Reach is computed here, from the logged index  *)
(* and edges, so the reachability oracle shares nothing with                *)
(* closeProcManifest.                                                       *)
(*   O1  a close deletes nothing the index reaches: every listed manifest,  *)
(*       nested manifests at any depth, configs, layers / blobs / fsLayers  *)
(*       (referrers are reached through their tagged fall-back index)       *)
(*   O2  when a collection runs (the close deleted something), no           *)
(*       unreachable digest and no temp file that was there before survives *)
(*   O3  no collection while a copy into the layout is in progress          *)
(*   O4  with collection disabled a close deletes nothing                   *)
(*   O5  at the end everything a tag reaches that was seen in the layout,   *)
(*       and was not collected as unreachable or deleted explicitly, is     *)
(*       still there (concurrent copies lose nothing)                       *)
(* Mirrors no code.  The first violated obligation is latched in `bad`.     *)
(***************************************************************************)
EXTENDS Naturals, FiniteSets, Sequences, TLC

VARIABLES inprog,   \* copies between copy_begin and copy_end
          gcon,     \* 1: collection enabled (ocidir default), 0: disabled
          live,     \* digests seen in the layout and not since collected / deleted explicitly
          bad
pvars == <<inprog, gcon, live, bad>>

Set(s) == {s[i] : i \in 1..Len(s)}
First(checks) == IF bad # "" THEN bad
                 ELSE IF \E i \in 1..Len(checks) : checks[i][1]
                      THEN checks[CHOOSE i \in 1..Len(checks) : checks[i][1] /\ \A j \in 1..(i-1) : ~checks[j][1]][2]
                      ELSE ""

(* Reachability from the index over the logged edges <<parent, child, kind>>.  A digest is read  *)
(* as a manifest only where it is listed as one (index entry, "m" edge); the subject edge ("s")   *)
(* points from a referrer to what it describes and keeps nothing alive.                           *)
Edges(ep, ec, ek) == {<<ep[i], ec[i], ek[i]>> : i \in 1..Len(ep)}
RECURSIVE ManRole(_, _)
ManRole(E, M) == LET N == M \cup {e[2] : e \in {x \in E : x[1] \in M /\ x[3] = "m"}}
                 IN IF N = M THEN M ELSE ManRole(E, N)
Reach(idx, E) == LET M == ManRole(E, Set(idx))
                 IN M \cup {e[2] : e \in {x \in E : x[1] \in M /\ x[3] # "s"}}

PInit == inprog = {} /\ gcon = 1 /\ live = {} /\ bad = ""
PReset == inprog' = {} /\ gcon' = 1 /\ live' = {} /\ bad' = ""

PStart(gc) == gcon' = gc /\ UNCHANGED <<inprog, live, bad>>

PCopyBegin(c) ==
  /\ inprog' = inprog \cup {c}
  /\ bad' = First(<< <<c \in inprog, "tooling: copy begun twice">> >>)
  /\ UNCHANGED <<gcon, live>>

PCopyEnd(c, files) ==
  /\ inprog' = inprog \ {c}
  /\ live' = live \cup Set(files)
  /\ bad' = First(<< <<c \notin inprog, "tooling: copy ended that was not begun">> >>)
  /\ UNCHANGED gcon

POp(op, d) ==
  /\ live' = IF op = "manifest_delete" THEN live \ {d} ELSE live
  /\ UNCHANGED <<inprog, gcon, bad>>

PClose(bf, bo, af, ao, idx, ep, ec, ek) ==
  LET B == Set(bf)  A == Set(af)  OB == Set(bo)  OA == Set(ao)
      R == Reach(idx, Edges(ep, ec, ek))
      ran == (B \ A) # {} \/ (OB \ OA) # {}
  IN /\ bad' = First(<<
            <<~(A \subseteq B) \/ ~(OA \subseteq OB), "tooling: files appeared during a close">>,
            <<(B \cap R) \ A # {}, "O1 reachable content deleted by a close">>,
            <<gcon = 0 /\ ran, "O4 files deleted by a close although collection is disabled">>,
            <<ran /\ inprog # {}, "O3 collection ran while a copy into the layout was in progress">>,
            <<ran /\ (A \ R) # {}, "O2 unreachable content kept by a collection">>,
            <<ran /\ OA # {}, "O2 temp files kept by a collection">> >>)
     /\ live' = (live \cup A) \ (B \ A)
     /\ UNCHANGED <<inprog, gcon>>

PFinal(files, idx, ep, ec, ek, strict) ==
  LET F == Set(files)
      R == Reach(idx, Edges(ep, ec, ek))
      must == IF strict = 1 THEN R ELSE R \cap live
  IN /\ bad' = First(<<
            <<inprog # {}, "tooling: history ended with a copy in progress">>,
            <<must \ F # {}, "O5 content reachable from a tag was lost">> >>)
     /\ UNCHANGED <<inprog, gcon, live>>

PSkip == UNCHANGED pvars
Ok == bad = ""
=============================================================================

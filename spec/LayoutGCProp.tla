---------------------------- MODULE LayoutGCProp ----------------------------
(***************************************************************************)
(* (P) property monitor for C08.  Observation shaped: it knows nothing      *)
(* about modRefs, locks or how the collector walks manifests.  It sees      *)
(*   copy_begin / copy_end   an ImageCopy into the layout was called /      *)
(*                           returned                                       *)
(*   close                   one rc.Close on the layout, bracketed by two   *)
(*                           independent directory audits taken while       *)
(*                           nothing else runs: the digest named files and  *)
(*                           the other (temp) files under blobs/ before and *)
(*                           after, the digests index.json lists, and the   *)
(*                           edges manifest -> child found by parsing the   *)
(*                           files with plain encoding/json (harness/cmd/   *)
(*                           c08drv/audit.go)                               *)
(*   copy_call / copy_active an ImageCopy into the layout was called while  *)
(*                           an rc.Close of the layout had not returned     *)
(*                           yet (the driver holds it at a log record) /    *)
(*                           that copy was seen at work (a request of it    *)
(*                           reached the source registry) or the close has  *)
(*                           returned: from then on it is in progress       *)
(*   close_mid               audit taken while that Close is held, after    *)
(*                           the calls were made and everything else had    *)
(*                           come to rest                                   *)
(*   op                      an explicit manifest delete                    *)
(*   final                   audit at the end of the history                *)
(* and states the property.  Reach is computed here, from the logged index  *)
(* and edges, so the reachability oracle shares nothing with                *)
(* closeProcManifest.                                                       *)
(*   O1  a close deletes nothing the index reaches: every listed manifest,  *)
(*       nested manifests at any depth, configs, layers / blobs / fsLayers  *)
(*       (referrers are reached through their tagged fall-back index)       *)
(*   O2  when a collection runs (the close deleted something), no           *)
(*       unreachable digest and no temp file that was there before survives *)
(*   O3  no collection while a copy into the layout is in progress: a close *)
(*       that deleted something does not overlap a copy in progress; for a  *)
(*       close that overlaps the *call* of a copy: nothing that was still   *)
(*       there when the copy was seen at work is deleted afterwards         *)
(*   O4  with collection disabled a close deletes nothing                   *)
(*   O5  at the end everything a tag reaches that was seen in the layout,   *)
(*       and was not collected as unreachable or deleted explicitly, is     *)
(*       still there (concurrent copies lose nothing)                       *)
(* Mirrors no code.  The first violated obligation is latched in `bad`.     *)
(***************************************************************************)
EXTENDS Naturals, FiniteSets, Sequences, TLC

VARIABLES inprog,   \* copies between copy_begin and copy_end
          gcon,     \* 1: collection enabled (ocidir default), 0: disabled
          live,     \* digests seen in the layout and not since collected / deleted explicitly
          called,   \* copies called while a close was running and not yet seen at work
          late,     \* files seen during the close that is running while a copy was already in progress
          mids,     \* number of audits taken during the close that is running
          during,   \* copies called during the close that is running
          bad
pvars == <<inprog, gcon, live, called, late, mids, during, bad>>

Set(s) == {s[i] : i \in 1..Len(s)}
First(checks) == IF bad # "" THEN bad
                 ELSE IF \E i \in 1..Len(checks) : checks[i][1]
                      THEN checks[CHOOSE i \in 1..Len(checks) : checks[i][1] /\ \A j \in 1..(i-1) : ~checks[j][1]][2]
                      ELSE ""

(* Reachability from the index over the logged edges <<parent, child, kind>>.  A digest is read  *)
(* as a manifest only where it is listed as one (index entry, "m" edge); the subject edge ("s")   *)
(* points from a referrer to what it describes and keeps nothing alive.                           *)
Edges(ep, ec, ek) == {<<ep[i], ec[i], ek[i]>> : i \in 1..Len(ep)}
RECURSIVE ManRole(_, _)
ManRole(E, M) == LET N == M \cup {e[2] : e \in {x \in E : x[1] \in M /\ x[3] = "m"}}
                 IN IF N = M THEN M ELSE ManRole(E, N)
Reach(idx, E) == LET M == ManRole(E, Set(idx))
                 IN M \cup {e[2] : e \in {x \in E : x[1] \in M /\ x[3] # "s"}}

PInit == inprog = {} /\ gcon = 1 /\ live = {} /\ called = {} /\ late = {} /\ mids = 0 /\ during = {} /\ bad = ""
PReset == inprog' = {} /\ gcon' = 1 /\ live' = {} /\ called' = {} /\ late' = {} /\ mids' = 0 /\ during' = {} /\ bad' = ""

PStart(gc) == gcon' = gc /\ UNCHANGED <<inprog, live, called, late, mids, during, bad>>

PCopyBegin(c) ==
  /\ inprog' = inprog \cup {c}
  /\ bad' = First(<< <<c \in inprog \cup called, "tooling: copy begun twice">> >>)
  /\ UNCHANGED <<gcon, live, called, late, mids, during>>

\* ImageCopy was called while a close is running: it may be waiting for the close to end
PCopyCall(c) ==
  /\ called' = called \cup {c}
  /\ bad' = First(<< <<c \in inprog \cup called, "tooling: copy begun twice">> >>)
  /\ during' = during \cup {c}
  /\ UNCHANGED <<inprog, gcon, live, late, mids>>

\* that copy was seen at work (or the close it might have waited for has returned)
PCopyActive(c) ==
  /\ called' = called \ {c}
  /\ inprog' = inprog \cup {c}
  /\ bad' = First(<< <<c \notin called, "tooling: copy seen at work that was not called">> >>)
  /\ UNCHANGED <<gcon, live, late, mids, during>>

\* audit while the close is held: what is there now, while a copy is in progress, must not be
\* deleted by this close any more
PCloseMid(files, other) ==
  /\ mids' = mids + 1
  /\ late' = IF inprog # {} THEN late \cup Set(files) \cup Set(other) ELSE late
  /\ UNCHANGED <<inprog, gcon, live, called, during, bad>>

PCopyEnd(c, files) ==
  /\ inprog' = inprog \ {c}
  /\ called' = called \ {c}
  /\ live' = live \cup Set(files)
  /\ bad' = First(<< <<c \notin inprog \cup called, "tooling: copy ended that was not begun">> >>)
  /\ UNCHANGED <<gcon, late, mids, during>>

POp(op, d) ==
  /\ live' = IF op = "manifest_delete" THEN live \ {d} ELSE live
  /\ UNCHANGED <<inprog, gcon, called, late, mids, during, bad>>

PClose(bf, bo, af, ao, idx, ep, ec, ek) ==
  LET B == Set(bf)  A == Set(af)  OB == Set(bo)  OA == Set(ao)
      R == Reach(idx, Edges(ep, ec, ek))
      ran == (B \ A) # {} \/ (OB \ OA) # {}
      \* a close during which no copy was called: a copy in progress at its end was in progress all
      \* along.  Otherwise: what was there before the close and still there when a copy was seen
      \* at work, and is gone now, was deleted under that copy.
      under == (ran /\ (inprog \ during) # {}) \/ ((late \cap (B \cup OB)) \ (A \cup OA)) # {}
  IN /\ bad' = First(<<
            <<mids = 0 /\ (~(A \subseteq B) \/ ~(OA \subseteq OB)), "tooling: files appeared during a close">>,
            <<under, "O3 collection ran while a copy into the layout was in progress">>,
            <<(B \cap R) \ A # {}, "O1 reachable content deleted by a close">>,
            <<gcon = 0 /\ ran, "O4 files deleted by a close although collection is disabled">>,
            <<ran /\ ((A \cap B) \ R) # {}, "O2 unreachable content kept by a collection">>,
            <<ran /\ (OA \cap OB) # {}, "O2 temp files kept by a collection">> >>)
     /\ live' = (live \cup A) \ (B \ A)
     /\ late' = {} /\ mids' = 0 /\ during' = {}
     /\ UNCHANGED <<inprog, gcon, called>>

PFinal(files, idx, ep, ec, ek, strict) ==
  LET F == Set(files)
      R == Reach(idx, Edges(ep, ec, ek))
      must == IF strict = 1 THEN R ELSE R \cap live
  IN /\ bad' = First(<<
            <<inprog \cup called # {}, "tooling: history ended with a copy in progress">>,
            <<must \ F # {}, "O5 content reachable from a tag was lost">> >>)
     /\ UNCHANGED <<inprog, gcon, live, called, late, mids, during>>

PSkip == UNCHANGED pvars
Ok == bad = ""
=============================================================================

\* layout scenarios with the verdict of the model of the code (default constants): esc must be 0 everywhere
CONSTANTS TitleClean = "rooted" ExtractGuard = "reroot" Whiteout = "none" LinkPolicy = "skip" DeleteValidates = TRUE MaxFull = 1 MaxCore = 1
  Eps = {"lay"}
CONSTANT WithVerdict = TRUE
INIT Init
NEXT Next
INVARIANT Emit
CHECK_DEADLOCK FALSE

SPECIFICATION Spec
VIEW View
INVARIANTS LeaksOnlyS3
CHECK_DEADLOCK FALSE
CONSTANTS
 HonorsHost = FALSE
 SchemeBound = TRUE
 PgNoMirrors = TRUE
 FoldCase = FALSE
 StripOnRedirect = TRUE
 MaxFaults = 3
 Confs <- QuickGenConfs
 ChalKinds <- AllChal
 FaultKinds <- AllFaults
 RedirTo <- AllRedir
 TokReplies <- AllTok
 ForeignRealms <- TaRealm
 LocTo <- AllLoc

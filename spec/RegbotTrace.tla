----------------------------- MODULE RegbotTrace -----------------------------
(***************************************************************************)
(* Trace spec for C19: replays the ndjson event log (env VERIF_TRACE)      *)
(* recorded by harness/cmd/c19drv from the real regbot binary through the  *)
(* monitor RegbotProp.  One trace = one config run with --dry-run and      *)
(* normally on the same world (plus solo runs); events:                    *)
(*   reset   header: number of scripts                                     *)
(*   req     a request received by a model registry in the dry run         *)
(*   fs      a change of the layout directory in the dry run               *)
(*   run     summary of a run (changes made to registries / layout)        *)
(*   stmt    what one statement logged in the dry and in the normal run    *)
(*   script  how a script ended (in the config, alone)                     *)
(***************************************************************************)
EXTENDS RegbotProp, Json, IOUtils, TLC
Log == ndJsonDeserialize(IOEnv.VERIF_TRACE)
VARIABLE l
Ev == Log[l]
TInit == PInit /\ l = 1
TNext ==
  /\ l <= Len(Log)
  /\ l' = l + 1
  /\ \/ Ev.ev = "reset" /\ PReset(Ev.nscripts)
     \/ Ev.ev = "req" /\ PReq(Ev.run, Ev.method)
     \/ Ev.ev = "fs" /\ PFs(Ev.run, Ev.src)
     \/ Ev.ev = "run" /\ PRun(Ev.run, Ev.nregchanged, Ev.nlaychanged)
     \/ Ev.ev = "stmt" /\ PStmt(Ev.op, Ev.dryst, Ev.norst, Ev.dry, Ev.nor, Ev.wprior)
     \/ Ev.ev = "script" /\ PScript(Ev.dry, Ev.nor, Ev.solodry, Ev.solonor, Ev.owrites, Ev.dryafter, Ev.norafter)
TSpec == TInit /\ [][TNext]_<<pvars, l>>
\* C19_trace_all.cfg: do not stop at the first rejected event, print every one (always TRUE)
Rejects == bad = "" \/ PrintT(<<"REJECT", l - 1, bad>>)
HW == TLCSet(1, IF TLCGet(1) > l THEN TLCGet(1) ELSE l)
Accepted == PrintT(<<"HIGHWATER", TLCGet(1), Len(Log)>>)
ASSUME TLCSet(1, 0)
=============================================================================

SPECIFICATION MCSpec
VIEW view
INVARIANTS DryNoChange ThrottleOk NotBlocked
CONSTANTS
 Ungated = {"manifest.put", "m:put", "blob.put", "b:put", "image.importTar"}
 LeakOnErr = {}
 StubReads = {}
 NS = 1
 MaxLen = 2
 Pars = {0}
 Alphabet = "core"

CONSTANTS
 Confs <- MCConfs
 FixWaitErr = FALSE
 Reduce = FALSE
 MCShapes = {"img", "schema1", "inline"}
 MCPairs = {"tworeg", "samereg", "dir2dir"}
 MCOpts <- MCOptsDefault
 MCFeats <- MCFeatsDefault
 MCInit = "all"
 MCTag0 = {"none", "stale"}
 MCByDigest = {FALSE}
 MCTgtByDigest = {FALSE, TRUE}
 MaxFaults = 0
 AllowCancel = FALSE
 AllowCrash = TRUE
 Cap = 0
INIT Init
NEXT Next
INVARIANTS TypeOK InvC04 InvFb InvC03 InvC14 InvFailTag

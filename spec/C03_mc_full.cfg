CONSTANTS
 Confs <- MCConfs
 FixWaitErr = TRUE
 Reduce = FALSE
 MCShapes = {"img", "inline"}
 MCPairs = {"tworeg"}
 MCOpts <- MCOptsDefault
 MCFeats <- MCFeatsDefault
 MCInit = "all"
 MCTag0 = {"none", "stale"}
 MCByDigest = {FALSE}
 MCTgtByDigest = {FALSE}
 MaxFaults = 0
 AllowCancel = FALSE
 AllowCrash = FALSE
 Cap = 0
INIT Init
NEXT Next
INVARIANTS TypeOK InvC04 InvFb InvFbListed InvC03 InvC14 InvC14T InvFailTag

CONSTANTS
 Procs = {"p1", "p2", "p3", "p4"}
 Queues = {"q1", "q2"}
 MaxMax = 2
 MultiLens = {2}
 Confs <- AllConfs
INIT Init
NEXT Next
INVARIANTS Bound NoOrphan QueuedWait FailedClean QuiescentNoWaiters NoIdleSlotWhileWaiting

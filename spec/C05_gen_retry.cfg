INIT GInit
NEXT GNext
CHECK_DEADLOCK FALSE
CONSTANTS
 Confs <- GenConfs
 MaxPartial = 2
 MaxFaults = 2
 DefChunk = 2
 ChunkLimit = 6
 RetryLimit = 10
 HttpRetries = 3
 IgnoreInvalidDigest = FALSE
INVARIANTS Emit

SPECIFICATION TSpec
CONSTRAINT HW
INVARIANTS Ok Harness
POSTCONDITION Accepted
CHECK_DEADLOCK FALSE

CONSTANTS
 Scenarios <- MutSet
 MaxCrash = 1
 Variant = "tmp666"
INIT Init
NEXT Next
INVARIANTS StateOk EndOk RaceEndOk FreshOk RetryOk TypeOk
CHECK_DEADLOCK FALSE

CONSTANTS
 Confs <- MCConfs
 FixWaitErr = TRUE
 Reduce = TRUE
 MCShapes = {"img", "inline", "dtag"}
 MCPairs = {"tworeg", "samereg", "reg2dir"}
 MCOpts <- MCOptsDTags
 MCFeats <- MCFeatsDefault
 MCInit = "empty"
 MCTag0 = {"none", "stale"}
 MCByDigest = {FALSE}
 MCTgtByDigest = {FALSE}
 MaxFaults = 0
 AllowCancel = FALSE
 AllowCrash = FALSE
 Cap = 0
INIT Init
NEXT Next
INVARIANTS Dump TypeOK

CONSTANTS
 Confs <- MCConfs
 FixWaitErr = FALSE
 Reduce = TRUE
 MCShapes = {"img", "dup", "dtag", "bentry", "inline"}
 MCPairs = {"tworeg", "samereg", "reg2dir"}
 MCOpts <- MCOptsCore
 MCFeats <- MCFeatsDefault
 MCInit = "corners"
 MCTag0 = {"none", "stale"}
 MCByDigest = {FALSE}
 MCTgtByDigest = {FALSE}
 MaxFaults = 0
 AllowCancel = FALSE
 AllowCrash = FALSE
 Cap = 0
INIT Init
NEXT Next
INVARIANTS Dump TypeOK

---------------------------- MODULE RegSyncDefs ----------------------------
(***************************************************************************)
(* Shared vocabulary of the C18 specs (regsync: after a one-shot run every *)
(* selected source tag is mirrored, nothing else is touched).  Pure        *)
(* operators only, used by the design spec RegSync.tla, by the property     *)
(* monitor RegSyncProp.tla and by the trace spec RegSyncTrace.tla.          *)
(*                                                                         *)
(* Mirrors (as *statement*, not as code): docs/regsync.md, the entry       *)
(* fields of cmd/regsync/config.go:ConfigSync, and the property text C18.  *)
(* Nothing in here looks at how cmd/regsync/root.go decides.                *)
(*                                                                         *)
(* Vocabulary                                                              *)
(*   registry state  a set of tuples <<reg, repo, tag, img, complete>>;     *)
(*                   reg in {"src","tgt","oth"}, img the name of an image   *)
(*                   of the small universe below ("?xxxxxxxx" for bytes the *)
(*                   universe does not know), complete in {0,1}: the result *)
(*                   of an independent closure walk over the raw registry   *)
(*   configuration   [parallel, entries], an entry is a record              *)
(*                   [type, srepo, stag, treg, trepo, ttag, allow, deny,    *)
(*                    rallow, rdeny, platform, mts, backup, referrers,      *)
(*                    digestTags, fastCheck, force]; treg is the registry   *)
(*                   of the target ("tgt", or "src": a mirror inside the    *)
(*                   source registry); allow/deny (tags) and rallow/rdeny   *)
(*                   (repositories of a registry entry) are sequences of    *)
(*                   filters [tags, style]: `tags` is the subset of the     *)
(*                   pool the regular expression matches when bound to both *)
(*                   ends (the documented meaning), `style` only says how   *)
(*                   the driver spells it (alt: a|b, group: (a|b), class).  *)
(* Deviations: regular expressions are abstracted to the subsets of a      *)
(* small pool they match; images are names, digests an ideal hash; the     *)
(* backup templates are four fixed shapes (BackupRef).                      *)
(***************************************************************************)
EXTENDS Naturals, Sequences, FiniteSets

\* ------------------------------------------------------------ image universe
\* D: an OCI manifest whose body has no mediaType field (the registry's Content-Type says what it
\* is).  A5: an image the registries know by a sha512 digest.  H: an image that target side repositories hold with one layer missing ("holed": its
\* tuples there have complete = 0) until a copy from the source brings the layer along.
MT == [A |-> "ociman", A5 |-> "ociman", B |-> "dockerman", C |-> "ociman", D |-> "ociman", H |-> "ociman", X |-> "ociindex", Xa |-> "ociman",
       Xb |-> "ociman", Y |-> "dockerlist", Ya |-> "dockerman", Yb |-> "dockerman",
       S |-> "ociman", R |-> "ociman"]
Kids == [X |-> [amd64 |-> "Xa", arm64 |-> "Xb"], Y |-> [amd64 |-> "Ya", arm64 |-> "Yb"]]
\* the same table in the shape the driver derives it from the concrete bytes (trace header)
ImgTable == << <<"A", "ociman", "", "">>, <<"A5", "ociman", "", "">>, <<"B", "dockerman", "", "">>, <<"C", "ociman", "", "">>,
               <<"D", "ociman", "", "">>, <<"H", "ociman", "", "">>,
               <<"R", "ociman", "", "">>, <<"S", "ociman", "", "">>, <<"X", "ociindex", "Xa", "Xb">>,
               <<"Xa", "ociman", "", "">>, <<"Xb", "ociman", "", "">>, <<"Y", "dockerlist", "Ya", "Yb">>,
               <<"Ya", "dockerman", "", "">>, <<"Yb", "dockerman", "", "">> >>
MtOf(i) == IF i \in DOMAIN MT THEN MT[i] ELSE "unknown"
IsList(i) == i \in DOMAIN Kids
\* the image a reference to i resolves to under the entry's platform setting ("none": no such platform)
Resolve(i, plat) == IF plat # "" /\ IsList(i)
                    THEN (IF plat \in DOMAIN Kids[i] THEN Kids[i][plat] ELSE "none")
                    ELSE i
DigTags == {"dtA"}          \* tags of the form sha256-<digest of A>.sig (abstracted by the driver)

\* ------------------------------------------------------------ registry states
Ref(x) == <<x[1], x[2], x[3]>>
Refs(st) == {Ref(x) : x \in st}
Has(st, r) == \E x \in st : Ref(x) = r
Img(st, r) == IF Has(st, r) THEN (CHOOSE x \in st : Ref(x) = r)[4] ELSE ""
Compl(st, r) == IF Has(st, r) THEN (CHOOSE x \in st : Ref(x) = r)[5] ELSE 0
SrcTags(st, repo) == {x[3] : x \in {y \in st : y[1] = "src" /\ y[2] = repo}}
SrcRepos(st) == {x[2] : x \in {y \in st : y[1] = "src"}}
SetTag(st, r, img, c) == {x \in st : Ref(x) # r} \cup (IF img = "" THEN {} ELSE {<<r[1], r[2], r[3], img, c>>})
SeqSet(s) == {s[i] : i \in DOMAIN s}
InS(x, s) == \E i \in DOMAIN s : s[i] = x

\* ------------------------------------------------------------ selection (the statement)
\* a filter expression is bound to both ends of the string: it selects its subset, nothing else
FMatch(f, t) == InS(t, f.tags)
\* allow first (an empty allow list allows everything), then deny
Passes(allow, deny, t) == /\ (Len(allow) = 0 \/ \E i \in DOMAIN allow : FMatch(allow[i], t))
                          /\ ~\E i \in DOMAIN deny : FMatch(deny[i], t)
Pair(k, sr, st, tg, tr, tt) == [k |-> k, srepo |-> sr, stag |-> st, treg |-> tg, trepo |-> tr, ttag |-> tt]
\* the (source tag, target tag) pairs entry number k selects in state st
Pairs(e, k, st) ==
  CASE e.type = "image" ->
         IF Has(st, <<"src", e.srepo, e.stag>>) THEN {Pair(k, e.srepo, e.stag, e.treg, e.trepo, e.ttag)} ELSE {}
    [] e.type = "repository" ->
         {Pair(k, e.srepo, t, e.treg, e.trepo, t) : t \in {u \in SrcTags(st, e.srepo) : Passes(e.allow, e.deny, u)}}
    [] e.type = "registry" ->
         UNION {{Pair(k, r, t, e.treg, r, t) : t \in {u \in SrcTags(st, r) : Passes(e.allow, e.deny, u)}} :
                r \in {q \in SrcRepos(st) : Passes(e.rallow, e.rdeny, q)}}
AllPairs(conf, st) == UNION {Pairs(conf.entries[k], k, st) : k \in DOMAIN conf.entries}
\* the source tags an entry looks at but its tag / repository filters exclude
Excluded(e, k, st) ==
  CASE e.type = "repository" -> {<<e.treg, e.trepo, t>> : t \in {u \in SrcTags(st, e.srepo) : ~Passes(e.allow, e.deny, u)}}
    [] e.type = "registry" -> {<<e.treg, x[2], x[3]>> : x \in {y \in st : y[1] = "src" /\
                                  ~(Passes(e.rallow, e.rdeny, y[2]) /\ Passes(e.allow, e.deny, y[3]))}}
    [] OTHER -> {}

SrcRef(p) == <<"src", p.srepo, p.stag>>
TRef(p) == <<p.treg, p.trepo, p.ttag>>
MtOk(e, img) == Len(e.mts) = 0 \/ InS(MtOf(img), e.mts)
\* pairs that also pass the entry's media type list
Live(conf, st) == {p \in AllPairs(conf, st) : MtOk(conf.entries[p.k], Img(st, SrcRef(p)))}
\* what the target tag has to be after a successful run: the platform's image (the source image
\* itself without platform); a target that already held the source image and is left alone also
\* "has the same digest as the source"
Acceptable(conf, st, p) ==
  LET i == Img(st, SrcRef(p))
      w == Resolve(i, conf.entries[p.k].platform)
  IN ({w} \ {"none"}) \cup (IF Img(st, TRef(p)) = i THEN {i} ELSE {})

\* the four backup template shapes the scenarios use
BackupRef(e, p) ==
  CASE e.backup = "tagtpl"  -> <<p.treg, p.trepo, "bak-" \o p.ttag>>
    [] e.backup = "const"   -> <<p.treg, p.trepo, "old">>
    [] e.backup = "fullref" -> <<p.treg, "backups/" \o p.trepo, p.ttag>>
    [] e.backup = "othreg"  -> <<"oth", "bk/" \o p.trepo, p.ttag \o "-old">>
    [] OTHER -> <<"none", "none", "none">>
HasBackup(e) == e.backup \in {"tagtpl", "const", "fullref", "othreg"}
\* pairs (of the live set L) whose previous target image belongs under backup reference r
BkOwners(conf, L, st, r) == {p \in L : /\ HasBackup(conf.entries[p.k])
                                      /\ BackupRef(conf.entries[p.k], p) = r
                                      /\ Has(st, TRef(p))}
\* pairs that may bring the digest tag r along (digestTags / referrers switched on)
DigOwners(conf, L, st, r) == {p \in L : /\ (conf.entries[p.k].digestTags \/ conf.entries[p.k].referrers)
                                       /\ r[1] = p.treg /\ r[2] = p.trepo /\ r[3] \in DigTags
                                       /\ Has(st, <<"src", p.srepo, r[3]>>)}

First(checks) == IF \E i \in 1..Len(checks) : checks[i][1]
                 THEN checks[CHOOSE i \in 1..Len(checks) : checks[i][1] /\ \A j \in 1..(i-1) : ~checks[j][1]][2]
                 ELSE ""

\* ------------------------------------------------------------ obligations
\* (O3) a tag is (over)written: where a backup name is configured the image the tag pointed to
\* is available (complete) under that name at this very moment.  cur: tag state just before the write
OverwriteBad(conf, before, cur, r, img) ==
  LET owners == {p \in Live(conf, before) : TRef(p) = r /\ HasBackup(conf.entries[p.k])}
      o == Img(cur, r)
  IN IF o # "" /\ o # img /\ owners # {} /\ Compl(cur, r) = 1 /\ (Img(before, r) = o => Compl(before, r) = 1) /\
        ~\E p \in owners : LET b == BackupRef(conf.entries[p.k], p) IN Img(cur, b) = o /\ Compl(cur, b) = 1
     THEN "backup: tag overwritten while its previous image is not under the backup name"
     ELSE ""
\* (an image that was already incomplete at the target cannot be made available anywhere: the
\* backup obligation is demanded for previous images that were complete - when the run started, if
\* the tag still holds that image: a holed image that a parallel entry happens to complete between
\* the (failed) backup attempt and the overwrite is the same case, as in EndBad's backup clause)

\* a tag that differs after the run (or was written during it) must be one the run had to write
TagExplained(conf, L, before, after, r) ==
  LET a == Img(after, r)
      b == Img(before, r)
  IN \/ \E p \in L : TRef(p) = r /\ a \in Acceptable(conf, before, p) \cup {b}
     \* a backup name is written only for a tag that is really overwritten
     \/ a = b /\ BkOwners(conf, L, before, r) # {}
     \/ \E p \in BkOwners(conf, L, before, r) : a = Img(before, TRef(p)) /\ Img(after, TRef(p)) # Img(before, TRef(p))
     \/ \E p \in DigOwners(conf, L, before, r) : a \in {Img(before, <<"src", p.srepo, r[3]>>), b}
DestRepos(conf, L, before) ==
  {<<p.treg, p.trepo>> : p \in L} \cup
  {<<BackupRef(conf.entries[p.k], p)[1], BackupRef(conf.entries[p.k], p)[2]>> :
     p \in {q \in L : HasBackup(conf.entries[q.k]) /\ Has(before, TRef(q))}}

\* obligations at the end of a run.  puts: set of references written during the run
EndBad(conf, mode, exit, before, after, puts, nwr, nmut) ==
  LET L == Live(conf, before)
      touched == {r \in Refs(before) \cup Refs(after) \cup puts : Img(before, r) # Img(after, r) \/ r \in puts}
      \* C03: a target that already equals the source is trusted to be complete unless a recursive
      \* copy is requested (fastCheck overrides forceRecursive), then its content is completed as well
      trusted(p) == /\ Img(after, TRef(p)) = Img(before, TRef(p)) /\ Compl(before, TRef(p)) = 0
                    /\ (~conf.entries[p.k].force \/ conf.entries[p.k].fastCheck)
      excl == UNION {Excluded(conf.entries[k], k, before) : k \in DOMAIN conf.entries}
  IN First(<<
       <<mode = "check" /\ (nwr # 0 \/ nmut # 0 \/ after # before),
         "check: a check-only run wrote to a registry">>,
       <<exit = 0 /\ mode = "once" /\ \E p \in L : Img(after, TRef(p)) \notin Acceptable(conf, before, p),
         "mirror: a selected source tag is not at the target with the source (platform) digest">>,
       <<exit = 0 /\ mode = "once" /\ \E p \in L : Compl(after, TRef(p)) # 1 /\ ~trusted(p),
         "mirror: a mirrored image is incomplete at the target">>,
       <<exit = 0 /\ \E r \in touched \cap excl : ~TagExplained(conf, L, before, after, r),
         "untouched: a tag excluded by the filters was written">>,
       <<exit = 0 /\ \E r \in touched : ~TagExplained(conf, L, before, after, r),
         "untouched: a tag outside the selection was written">>,
       <<\E p \in L : LET e == conf.entries[p.k]
                          b == Img(before, TRef(p))
                      IN /\ HasBackup(e) /\ b # "" /\ Img(after, TRef(p)) # b /\ Compl(before, TRef(p)) = 1
                         /\ BkOwners(conf, L, before, BackupRef(e, p)) = {p}
                         /\ (Img(after, BackupRef(e, p)) # b \/ Compl(after, BackupRef(e, p)) # 1),
         "backup: the overwritten image is not under the backup name after the run">> >>)

\* byte level facts of the trace: repB / repA sets of <<reg, repo, hash>>, lost set of <<reg, repo>>
RepoBad(conf, exit, before, repB, repA, lost) ==
  LET dest == DestRepos(conf, Live(conf, before), before)
  IN First(<<
       <<exit = 0 /\ \E x \in repB : <<x[1], x[2]>> \notin dest /\ x \notin repA,
         "untouched: a repository no selected tag is copied to was modified">>,
       <<exit = 0 /\ \E x \in repA : <<x[1], x[2]>> \notin dest /\ x \notin repB,
         "untouched: a repository no selected tag is copied to was created">>,
       <<exit = 0 /\ lost # {}, "untouched: content that existed before the run is gone or altered">> >>)
=============================================================================

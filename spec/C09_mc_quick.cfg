SPECIFICATION Spec
CONSTANTS
 DrainBug = FALSE
 LinkCode = FALSE
 DupPathBug = FALSE
 Ids <- QuickIds
INVARIANTS PropHolds PropExact Ordered PassBound
CHECK_DEADLOCK TRUE

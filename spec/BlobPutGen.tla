----------------------------- MODULE BlobPutGen -----------------------------
(* Scenario generator for C05: behaviours of spec/BlobPut.tla with a        *)
(* history of the server's steps (which request arrived, which choice the   *)
(* server took, what it answered).  The history is at the same time the     *)
(* script the scripted endpoint of harness/cmd/c05drv follows and the       *)
(* request sequence (D) predicts for the real client (compared by the       *)
(* runner: drift).  Used breadth-first (every behaviour of a small space    *)
(* once) and with -simulate (random behaviours of the large space).         *)
EXTENDS BlobPutMC, Json
VARIABLE hist
gvars == <<vars, hist>>

Kind == CASE req.m = "POST" -> (IF req.mount THEN "mount" ELSE "post")
          [] req.m = "PATCH" -> "patch"
          [] req.m = "PUT" -> "put"
          [] req.m = "GET" -> "get"
          [] OTHER -> "delete"
Rec(c) == [on |-> Kind, act |-> c.a, k |-> c.k, via |-> c.via, s |-> req.start, n |-> Len(req.body),
           st |-> rsp'.st, acc |-> IF req.m \in {"PATCH", "PUT"} THEN Len(sess'.data) - Len(sess.data) ELSE 0]

GInit == Init /\ hist = <<>>
GNext == \/ Client /\ UNCHANGED hist
         \/ \E c \in SrvChoices : Serve(c) /\ hist' = Append(hist, Rec(c))
GSpec == GInit /\ [][GNext]_gvars

Emit == Done => PrintT(<<"SCN", ToJson([cf |-> cf, script |-> hist, result |-> result, rsize |-> retD.size,
                                         minviol |-> minViol, mounted |-> mounted, retry |-> HttpRetries])>>)

\* every behaviour of a small space: one destination style, no faults, all partial acceptances
GenCoreConfs == Reg(0..5, 1..3, {-1}, {<<0, FALSE>>}, {TRUE}, {"none"}, {"else"}, {"query"})
\* declared descriptors, mount / refusal / fall-back decisions, no partial acceptance, no faults
GenDeclConfs == Reg({0, 1, 3}, {2}, {-1, 2}, {<<0, FALSE>>, <<2, TRUE>>}, BOOLEAN, Decls, {"else", "repo"}, {"query"})
                \cup Oci(0..3, Decls)
\* declared size smaller / larger than the stream, on and off chunk boundaries, with no digest,
\* the digest of the stream, or the digest of the prefix that has the declared size
GenSizeConfs == Reg(2..5, 1..3, {-1, 2}, {<<0, FALSE>>}, BOOLEAN,
                    {"sizeonlyplus", "sizeonlyminus", "prefix", "sizeplus", "sizeminus"}, {"else"}, {"query"})
\* minimum chunk length announced (enforced or not) against every chunk setting, on the plain POST
\* and on the mount reply, direct chunked upload and fall-back; no partial acceptance, no faults
GenMinConfs == Reg(0..4, 1..3, {-1, 2}, {<<2, TRUE>>, <<3, TRUE>>, <<3, FALSE>>}, {TRUE}, {"none", "right"}, {"else"}, {"query"})
\* the single request upload is refused and the session keeps 0 .. all units of it (0, below one
\* chunk, one chunk, several chunks, the whole blob), then the fall-back runs on that session
GenKeepConfs == Reg({1, 3, 4, 6, 7}, 1..3, {-1}, {<<0, FALSE>>}, {TRUE}, {"right"}, {"else"}, {"query"})
\* the four fault free, partial free breadth first spaces in one run
GenBreadthConfs == GenDeclConfs \cup GenSizeConfs \cup GenMinConfs \cup GenKeepConfs
\* the large space for random behaviours
GenConfs == Reg(0..7, 1..3, {-1, 2, 4}, MinsT, BOOLEAN, Decls, {"else", "repo"}, {"plain", "query", "move"})
            \cup Oci(0..4, Decls)
=============================================================================

----------------------------- MODULE TarImportGen -----------------------------
(***************************************************************************)
(* Scenario generator for C09.  Behaviours of TarImport (the importer as it *)
(* is now: DrainBug, LinkCode, DupPathBug FALSE in the configs) with a       *)
(* history of what reached the target; every finished behaviour is printed  *)
(* once as a JSON scenario:                                                 *)
(*   sid     scenario id <<graph, link pattern, selection>>                  *)
(*   arch    the archive order the environment chose (entries the first scan *)
(*           never reached are appended in a fixed order)                    *)
(*   ok / passes / pushes / err   what (D) predicts for the real importer:   *)
(*           result, number of seeks to the start of the archive, and the    *)
(*           sequence of accepted writes at the target (b:<blob>, m:<manifest *)
(*           by digest>, t:<manifest by tag>); the runner compares them with  *)
(*           what c09drv records (a difference is drift, not a violation).   *)
(* The catalogue entry of every scenario id is printed once ("CAT") from the *)
(* initial state, so that the driver builds its content from these records.  *)
(* Breadth first = every order (small archives); -simulate = random orders.  *)
(***************************************************************************)
EXTENDS TarImportMC, Json
VARIABLE plog
gvars == <<vars, plog>>

RECURSIVE SetSeq(_)
SetSeq(S) == IF S = {} THEN <<>> ELSE LET x == CHOOSE y \in S : TRUE IN <<x>> \o SetSeq(S \ {x})
GInit == Init /\ plog = <<>>
GNext == Step /\ plog' = IF tgt'.n > tgt.n THEN Append(plog, tgt'.w) ELSE plog     \* at most one write per step
GSpec == GInit /\ [][GNext]_gvars

EmitCat == phase = "init" => PrintT(<<"CAT", ToJson([sid |-> sid, sc |-> sc])>>)
Emit == Terminal => PrintT(<<"SCN", ToJson([sid |-> sid, arch |-> arch \o SetSeq(rest), ok |-> phase = "done",
                                              passes |-> pass, pushes |-> plog, err |-> err])>>)
=============================================================================

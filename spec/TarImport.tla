------------------------------ MODULE TarImport ------------------------------
(***************************************************************************)
(* (D) design spec for C09: the tar importer of regclient as the state      *)
(* machine it is (image.go), plus the environment that hands it an archive. *)
(*                                                                          *)
(* Code mirrored (action / operator  <-  image.go function):                *)
(*   Begin            ImageImport: trd set up, imageImportOCIAddHandler,     *)
(*                    imageImportDockerAddHandler, first tarReadAll seek     *)
(*   ScanLink         tarReadAll, branch TypeSymlink/TypeLink: target        *)
(*                    normalisation, linkAdd, "handler points to target"     *)
(*   ScanFile*        tarReadAll, else branch: linkList(name)+name, first    *)
(*                    handler runs, second one forces a re-scan (trdUsed),   *)
(*                    delete handler, processed, return when none is left    *)
(*     HLayout/HIndex imageImportOCIAddHandler closures + ociHandler         *)
(*     RootSelect     imageImportOCIHandleManifest(push=false): single entry *)
(*                    | r.Digest | ImageWithImportName | r.Tag               *)
(*     HDockerJSON    imageImportDockerAddHandler closure                    *)
(*     HEntry         handleManifest closure: io.ReadAll, switch MediaType   *)
(*     HandleMan      imageImportOCIHandleManifest(push=true): list -> child *)
(*                    handlers, image -> config + layer handlers, finish     *)
(*     HBlob          config / layer closure -> imageImportBlob              *)
(*     ImportBlob     imageImportBlob: BlobHead, BlobPut(trd.tr)             *)
(*     HDkConfig/HDkLayer  closures of imageImportDockerAddLayerHandlers     *)
(*   EndPassRescan / EndPassNotFound   tarReadAll, end of the inner loop     *)
(*   Fallback         ImageImport: ErrNotFound && dockerManifestFound ->     *)
(*                    imageImportDockerAddLayerHandlers + second tarReadAll  *)
(*   FinishPush / FinishTag   imageImportOCIPushManifests (reverse order)    *)
(*   DockerPush       ImageImport: manifest.New(WithOrig(dockerManifest)),   *)
(*                    ManifestPut                                            *)
(*   TarTarget        link target: Join(Dir(name), Linkname) for a relative   *)
(*                    symlink, Linkname for a hard link, Clean("/"+t)[1:]     *)
(*                    (CodeTarget = the filepath.Rel arithmetic as found)     *)
(*   AllLinks         linkList: index loop over the growing list, every level *)
(*                    (LinkListCode = the two levels followed as found)       *)
(*                                                                          *)
(* Paths are sequences of segments (<<"blobs","sha256","#m">>; "#x" stands   *)
(* for the hex digest of node x), so Clean / Rel / Dir are computed here     *)
(* exactly as path/filepath does on the cleaned, slash separated names.      *)
(*                                                                          *)
(* Environment: the archive is a permutation of the entry set of the         *)
(* scenario `sc`; it is produced lazily (each entry is chosen when the first *)
(* scan reaches it), which enumerates every order without an initial state   *)
(* per permutation.  The target is a store (blobs, manifests, tag), empty   *)
(* or pre-filled as the scenario says (BlobHead / ManifestHead short cuts);  *)
(* n / w count and label the accepted writes (the request log abstraction    *)
(* the generator turns into a prediction).                                   *)
(*                                                                          *)
(* Switches (CONSTANTS), all FALSE = the code as it is now.  TRUE brings back *)
(* the behaviour that was found and repaired: DrainBug (C09-1, fixed by       *)
(* ad30bfd: entry handler uploaded from the tar reader it had drained),       *)
(* LinkCode (C09-2 a529ea7: link target = filepath.Rel(...); C09-3 72bf6e2:   *)
(* linkList two levels deep), DupPathBug (C09-4 4eaa9ce: one Docker layer      *)
(* handler per path kept only the last position).  The as-found settings are  *)
(* used by the expected-counterexample configs, which explain what the seeds  *)
(* seeded/fixrev-C09-* re-introduce.                                          *)
(*                                                                          *)
(* Deliberate deviations: content is abstract (node names; the ideal hash    *)
(* assumption), JSON parsing always succeeds on a well formed file, gzip /   *)
(* decompression and the HTTP layer are not modelled (they do not influence  *)
(* the automaton), registry errors other than "blob body is empty" do not    *)
(* occur, oci-layout always carries the supported version.                   *)
(***************************************************************************)
EXTENDS TarImportCat

CONSTANTS DrainBug,    \* as found: entry handler uploads from the tar reader it drained with io.ReadAll
          LinkCode,    \* as found: link targets by filepath.Rel, link chains two levels deep
          DupPathBug,  \* as found: Docker layer handlers keyed by path, a repeated path keeps only the last index
          Ids          \* the scenario ids to explore (subset of DOMAIN AllTable, see TarImportCat)

VARIABLES sid,     \* id of the scenario (constant during a behaviour)
          arch,    \* archive produced so far (sequence of entries)
          rest,    \* entries not yet placed
          pos,     \* index of the next entry of the current pass
          pass,    \* number of seeks to the start of the archive so far
          phase,   \* "init" | "scan1" | "scan2" | "finish" | "dkpush" | "done" | "failed"
          imp,     \* tarReadData
          tgt,     \* target store
          err      \* why it failed
vars == <<sid, arch, rest, pos, pass, phase, imp, tgt, err>>
sc == AllTable[sid]                 \* the scenario record

(* ------------------------------ paths ---------------------------------- *)
Dir(p) == IF Len(p) <= 1 THEN <<>> ELSE SubSeq(p, 1, Len(p) - 1)     \* <<>> is "."
RECURSIVE CleanR(_, _, _)
\* Clean; abs = rooted (".." at the root is dropped), else leading ".." are kept
CleanR(out, p, abs) ==
  IF p = <<>> THEN out
  ELSE LET s == Head(p) IN
       IF s = "." \/ s = "" THEN CleanR(out, Tail(p), abs)
       ELSE IF s = ".." THEN
              IF Len(out) > 0 /\ out[Len(out)] # ".." THEN CleanR(SubSeq(out, 1, Len(out) - 1), Tail(p), abs)
              ELSE IF abs THEN CleanR(out, Tail(p), abs)
              ELSE CleanR(Append(out, ".."), Tail(p), abs)
       ELSE CleanR(Append(out, s), Tail(p), abs)
Clean(p) == CleanR(<<>>, p, FALSE)
CleanAbs(p) == CleanR(<<>>, p, TRUE)
RECURSIVE Common(_, _)
Common(a, b) == IF a # <<>> /\ b # <<>> /\ Head(a) = Head(b) THEN 1 + Common(Tail(a), Tail(b)) ELSE 0
Ups(n) == [i \in 1..n |-> ".."]
\* filepath.Rel(base, targ) for cleaned relative paths (base never starts with "..")
Rel(base, targ) == LET k == Common(base, targ)
                   IN Ups(Len(base) - k) \o SubSeq(targ, k + 1, Len(targ))
\* what tarReadAll computes for a link entry
CodeTarget(name, ln, abs) == CleanAbs(IF abs THEN ln ELSE Rel(Dir(name), Clean(ln)))
\* what the tar format means: symlink relative to its directory, hardlink relative to the archive root
TarTarget(kind, name, ln, abs) ==
  IF kind = "hard" \/ abs THEN CleanAbs(ln) ELSE CleanAbs(Dir(name) \o ln)
Target(e) == IF LinkCode THEN CodeTarget(Clean(e.name), e.ln, e.abs)
             ELSE TarTarget(e.kind, Clean(e.name), e.ln, e.abs)

(* ------------------------- partial functions --------------------------- *)
Has(f, k) == k \in DOMAIN f
Put(f, k, v) == (k :> v) @@ f
Del(f, k) == [x \in DOMAIN f \ {k} |-> f[x]]
Get(f, k, dflt) == IF k \in DOMAIN f THEN f[k] ELSE dflt
Empty == <<>>                                   \* the function with empty domain

(* ---------------------------- the graph -------------------------------- *)
Node(n) == sc.nodes[n]
IsMan(n) == Node(n).k # "blob"
BlobPath(n) == BPath(n)
LayoutName == <<"oci-layout">>
IndexName == <<"index.json">>
DockerName == <<"manifest.json">>

\* t handler type, n node (OCI), mt media type class of the descriptor, child, i Docker layer positions
HRec(t, n, mt, child, i) == [t |-> t, n |-> n, mt |-> mt, child |-> child, i |-> i]

(* ---------------------------- link list -------------------------------- *)
Links(s, t) == Get(s.links, t, <<>>)
RECURSIVE Flat(_, _)
Flat(s, list) == IF list = <<>> THEN <<>> ELSE Links(s, Head(list)) \o Flat(s, Tail(list))
RECURSIVE AllLinks(_, _, _)
\* the repaired design: every level, breadth first, bounded by the number of link names
AllLinks(s, list, fuel) == IF list = <<>> \/ fuel = 0 THEN <<>>
                           ELSE list \o AllLinks(s, Flat(s, list), fuel - 1)
\* linkList(tgt): the direct links, then the links to those (the range clause does not see appended elements)
LinkListCode(s, t) == Links(s, t) \o Flat(s, Links(s, t))
LinkLoop(s, t) == \E i \in 1..Len(Links(s, t)) : Links(s, t)[i] = t
LinkList(s, t) == IF LinkCode THEN LinkListCode(s, t)
                  ELSE AllLinks(s, Links(s, t), Cardinality(DOMAIN s.links) + 1)
InSeq(x, q) == \E i \in 1..Len(q) : q[i] = x
Range(q) == {q[i] : i \in 1..Len(q)}

(* ------------------------- handler effects ----------------------------- *)
\* an accepted write at the target: counted and labelled (see TgtInit)
Write(t, label) == [t EXCEPT !.n = @ + 1, !.w = label]
\* every effect maps [s (importer), t (target), ok, why] to the same shape
R(s, t) == [s |-> s, t |-> t, ok |-> TRUE, why |-> ""]
Fail(s, t, why) == [s |-> s, t |-> t, ok |-> FALSE, why |-> why]

\* handleManifest(d, child): register a handler for an index entry unless known
AddEntry(s, d, child) ==
  LET fn == BlobPath(d.n) IN
  IF fn \in s.done \/ Has(s.h, fn) THEN s
  ELSE [s EXCEPT !.h = Put(@, fn, HRec("entry", d.n, d.t, child, {}))]
\* config / layer of an image manifest
AddBlob(s, n) ==
  LET fn == BlobPath(n) IN
  IF fn \in s.done \/ Has(s.h, fn) THEN s
  ELSE [s EXCEPT !.h = Put(@, fn, HRec("blob", n, "", FALSE, {}))]
RECURSIVE AddKids(_, _, _)
AddKids(s, kids, isIndex) ==
  IF kids = <<>> THEN s
  ELSE AddKids(IF isIndex THEN AddEntry(s, Head(kids), TRUE) ELSE AddBlob(s, Head(kids).n), Tail(kids), isIndex)

\* imageImportOCIHandleManifest(push = true); c = content of the tar entry being read
\* (manifest.New verifies the digest of the descriptor against the bytes)
HandleMan(s, t, n, child, c) ==
  IF c # n THEN Fail(s, t, "manifest digest mismatch") ELSE
  LET s1 == [s EXCEPT !.mans = @ \cup {n}]
      s2 == AddKids(s1, Node(n).kids, Node(n).k = "index")
  IN R([s2 EXCEPT !.fin = Append(@, [op |-> "push", n |-> n, child |-> child]), !.added = TRUE], t)

\* imageImportBlob; drained = the tar reader was already consumed by io.ReadAll
ImportBlob(s, t, n, drained, c) ==
  IF n \in t.blobs THEN R(s, t)                                  \* BlobHead succeeds
  ELSE IF drained /\ DrainBug /\ Node(n).a # "empty" THEN Fail(s, t, "blob put from a drained reader")
  ELSE IF c # n THEN Fail(s, t, "blob digest mismatch")          \* the registry / layout verifies the digest
  ELSE R(s, Write([t EXCEPT !.blobs = @ \cup {n}], "b:" \o n))

\* root selection in imageImportOCIHandleManifest(push = false)
RootSelect ==
  LET dl == sc.roots
      ByTag(v) == {i \in 1..Len(dl) : dl[i].ref = v}       \* annotation equality
      Pick(S) == dl[CHOOSE i \in S : \A j \in S : i <= j]
  IN IF Len(dl) = 1 THEN [ok |-> TRUE, d |-> dl[1]]
     ELSE IF sc.sel.by = "digest" THEN [ok |-> TRUE, d |-> [n |-> sc.sel.v, t |-> "none", tag |-> "", ref |-> ""]]
     ELSE IF ByTag(sc.sel.v) = {} THEN [ok |-> FALSE, d |-> dl[1]]
     ELSE [ok |-> TRUE, d |-> Pick(ByTag(sc.sel.v))]       \* by = "name" (ImageWithImportName) or "tag" (r.Tag)

\* ociHandler: both oci-layout and index.json have been read
OciRoot(s, t) ==
  LET sel == RootSelect
      s1 == [s EXCEPT !.h = Del(@, DockerName)]
  IN IF ~sel.ok THEN Fail(s1, t, "could not find requested tag in index.json")
     ELSE R([AddEntry(s1, sel.d, FALSE) EXCEPT !.fin = Append(@, [op |-> "tag", n |-> sel.d.n, child |-> FALSE]),
                                              !.added = TRUE], t)

HLayoutEff(s, t) == LET s1 == [s EXCEPT !.fl = TRUE] IN IF s.fi THEN OciRoot(s1, t) ELSE R(s1, t)
HIndexEff(s, t) == LET s1 == [s EXCEPT !.fi = TRUE] IN IF s.fl THEN OciRoot(s1, t) ELSE R(s1, t)
HDockerEff(s, t) == R([s EXCEPT !.dk = TRUE], t)

\* closure registered by handleManifest: io.ReadAll first, then by media type of the descriptor
HEntryEff(s, t, h, c) ==
  CASE h.mt = "man" -> IF IsMan(h.n) THEN HandleMan(s, t, h.n, h.child, c) ELSE Fail(s, t, "not a manifest")
    [] h.mt = "lay" -> ImportBlob(s, t, h.n, TRUE, c)
    [] h.mt = "none" -> IF IsMan(h.n) THEN HandleMan(s, t, h.n, h.child, c) ELSE ImportBlob(s, t, h.n, TRUE, c)
    [] OTHER -> ImportBlob(s, t, h.n, TRUE, c)     \* "unk": manifest.New rejects the media type

HBlobEff(s, t, h, c) == ImportBlob(s, t, h.n, FALSE, c)

\* Docker fall-back: the digest is whatever the file holds (c), the descriptor goes into the manifest
\* (BlobPut without a digest: uploaded even when the target holds the content already)
HDkConfigEff(s, t, c) == R([s EXCEPT !.dkm.cfg = c], Write([t EXCEPT !.blobs = @ \cup {c}], "b:" \o c))
HDkLayerEff(s, t, h, c) ==
  R([s EXCEPT !.dkm.layers = [i \in DOMAIN @ |-> IF i \in h.i THEN c ELSE @[i]]], Write([t EXCEPT !.blobs = @ \cup {c}], "b:" \o c))

\* the handler registered under name x runs on the tar entry with content c
Run(s, t, x, c) ==
  LET h == s.h[x] IN
  CASE h.t = "layout" -> HLayoutEff(s, t)
    [] h.t = "index" -> HIndexEff(s, t)
    [] h.t = "docker" -> HDockerEff(s, t)
    [] h.t = "entry" -> HEntryEff(s, t, h, c)
    [] h.t = "blob" -> HBlobEff(s, t, h, c)
    [] h.t = "dkcfg" -> HDkConfigEff(s, t, c)
    [] h.t = "dklayer" -> HDkLayerEff(s, t, h, c)

\* the loop over linkList(name)+name inside tarReadAll
RECURSIVE Walk(_, _, _, _, _)
Walk(s, t, list, used, c) ==
  IF list = <<>> THEN [s |-> s, t |-> t, r |-> "cont", why |-> ""]
  ELSE LET x == Head(list) IN
       IF ~Has(s.h, x) THEN Walk(s, t, Tail(list), used, c)
       ELSE IF used THEN [s |-> [s EXCEPT !.added = TRUE], t |-> t, r |-> "cont", why |-> ""]
       ELSE LET res == Run(s, t, x, c) IN
            IF ~res.ok THEN [s |-> res.s, t |-> res.t, r |-> "fail", why |-> res.why]
            ELSE LET s2 == [res.s EXCEPT !.h = Del(@, x), !.done = @ \cup {x}]
                 IN IF DOMAIN s2.h = {} THEN [s |-> s2, t |-> res.t, r |-> "ret", why |-> ""]
                    ELSE Walk(s2, res.t, Tail(list), TRUE, c)

RECURSIVE FirstHandled(_, _)
FirstHandled(s, list) == IF list = <<>> THEN "none"
                         ELSE IF Has(s.h, Head(list)) THEN s.h[Head(list)].t
                         ELSE FirstHandled(s, Tail(list))

(* ------------------------------ actions -------------------------------- *)
ImpInit == [h |-> Empty, done |-> {}, links |-> Empty, fin |-> <<>>, added |-> FALSE,
            fl |-> FALSE, fi |-> FALSE, dk |-> FALSE, mans |-> {},
            dkm |-> [cfg |-> "", layers |-> <<>>]]
\* n / w: number of accepted writes and the label of the last one (b:<blob> upload, m:<manifest by digest>,
\* t:<manifest by tag>): the abstraction of the target's request log the generator turns into a prediction
TgtInit == [blobs |-> {}, mans |-> {}, tag |-> "", dk |-> [cfg |-> "", layers |-> <<>>], n |-> 0, w |-> ""]

Init == /\ sid \in Ids
        /\ arch = <<>> /\ rest = sc.entries
        /\ pos = 1 /\ pass = 0 /\ phase = "init"
        /\ imp = ImpInit /\ err = ""
        /\ tgt = [TgtInit EXCEPT !.blobs = sc.preblobs, !.mans = sc.premans, !.tag = sc.pretag]   \* what the target holds before

\* ImageImport up to the first seek
Begin == /\ phase = "init"
         /\ imp' = [imp EXCEPT !.h = Put(Put(Put(Empty, LayoutName, HRec("layout", "", "", FALSE, {})),
                                               IndexName, HRec("index", "", "", FALSE, {})),
                                           DockerName, HRec("docker", "", "", FALSE, {}))]
         /\ phase' = "scan1" /\ pass' = 1 /\ pos' = 1
         /\ UNCHANGED <<sid, arch, rest, tgt, err>>

Scanning == phase \in {"scan1", "scan2"}
\* trd.tr.Next(): the entry at pos; during the very first pass the environment decides which one it is
Cur == IF pos <= Len(arch) THEN {arch[pos]} ELSE rest
NextEntry(e) == IF pos <= Len(arch) THEN UNCHANGED <<arch, rest>>
                ELSE arch' = Append(arch, e) /\ rest' = rest \ {e}
MoreEntries == pos <= Len(arch) \/ rest # {}

ScanLink == \E e \in Cur :
  /\ Scanning /\ MoreEntries /\ NextEntry(e)
  /\ e.kind \in {"sym", "hard"}
  /\ LET name == Clean(e.name)
         target == Target(e)
         isNew == ~InSeq(name, Links(imp, target))
         s1 == IF isNew THEN [imp EXCEPT !.links = Put(@, target, Append(Links(imp, target), name))] ELSE imp
     IN IF isNew /\ ~imp.added /\ LinkLoop(s1, target)
        THEN /\ phase' = "failed" /\ err' = "symlink loop" /\ imp' = s1 /\ UNCHANGED <<pos, pass, tgt>>
        ELSE /\ imp' = IF isNew /\ ~imp.added /\ \E x \in Range(LinkList(s1, target) \o <<name>>) : Has(s1.h, x)
                       THEN [s1 EXCEPT !.added = TRUE] ELSE s1
             /\ pos' = pos + 1
             /\ UNCHANGED <<pass, phase, tgt, err>>
  /\ UNCHANGED sid

\* a regular file (or directory) entry whose first matching handler has type ht ("none": nothing to do)
ScanFile(ht) ==
  /\ Scanning /\ MoreEntries
  /\ ht = "none" \/ \E x \in DOMAIN imp.h : imp.h[x].t = ht      \* (cheap pre-test, implied by FirstHandled = ht)
  /\ \E e \in Cur :
       /\ NextEntry(e)
       /\ e.kind \in {"file", "dir"}
       /\ LET name == Clean(e.name) IN
          IF LinkLoop(imp, name)
          THEN ht = "none" /\ phase' = "failed" /\ err' = "symlink loop" /\ UNCHANGED <<imp, pos, pass, tgt>>
          ELSE LET list == LinkList(imp, name) \o <<name>>
                   w == Walk(imp, tgt, list, FALSE, e.c)
               IN /\ FirstHandled(imp, list) = ht
                  /\ imp' = w.s /\ tgt' = w.t
                  /\ CASE w.r = "fail" -> phase' = "failed" /\ err' = w.why /\ UNCHANGED <<pos, pass>>
                       [] w.r = "ret" -> /\ phase' = (IF phase = "scan1" THEN "finish" ELSE "dkpush")
                                         /\ UNCHANGED <<pos, pass, err>>
                       [] OTHER -> pos' = pos + 1 /\ UNCHANGED <<pass, phase, err>>
  /\ UNCHANGED sid

ScanNoHandler == ScanFile("none")
HLayout == ScanFile("layout")
HIndex == ScanFile("index")
HDockerJSON == ScanFile("docker")
HEntry == ScanFile("entry")
HBlob == ScanFile("blob")
HDkConfig == ScanFile("dkcfg")
HDkLayer == ScanFile("dklayer")

\* end of the archive reached and a handler was added: seek to the start again
EndPassRescan == /\ Scanning /\ ~MoreEntries /\ imp.added
                 /\ imp' = [imp EXCEPT !.added = FALSE]
                 /\ pos' = 1 /\ pass' = pass + 1
                 /\ UNCHANGED <<sid, arch, rest, phase, tgt, err>>

\* imageImportDockerAddLayerHandlers: one handler per (cleaned) path.  The code assigns
\* trd.handlers[path] once per position, so a path listed twice keeps only its last position
\* (DupPathBug); the repaired design lets the handler fill every position of its path.
RECURSIVE AddDkLayers(_, _, _)
AddDkLayers(h, layers, i) ==
  IF i > Len(layers) THEN h
  ELSE LET fn == Clean(layers[i])
           prev == IF Has(h, fn) /\ h[fn].t = "dklayer" /\ ~DupPathBug THEN h[fn].i ELSE {}
       IN AddDkLayers(Put(h, fn, HRec("dklayer", "", "", FALSE, prev \cup {i})), layers, i + 1)
\* index of the manifest.json entry to import: the first whose RepoTags hold the requested name, else the first
DkIndex == IF sc.sel.by = "name"
           THEN LET S == {i \in 1..Len(sc.docker) : InSeq(sc.sel.v, sc.docker[i].tags)}
                IN IF S = {} THEN 0 ELSE CHOOSE i \in S : \A j \in S : i <= j
           ELSE 1

\* nothing added during a whole pass: errs.ErrNotFound; ImageImport falls back to manifest.json if it was seen
EndPassNotFound ==
  /\ Scanning /\ ~MoreEntries /\ ~imp.added
  /\ IF phase = "scan1" /\ imp.dk /\ Len(sc.docker) > 0
     THEN LET h0 == Del(Del(imp.h, LayoutName), IndexName) IN
          IF DkIndex = 0
          THEN \* requested name not in any RepoTags: no handler is added; tarReadAll returns at once when no
               \* handler is left and a zero manifest is pushed (outside the statement, kept for fidelity)
               /\ imp' = [imp EXCEPT !.h = h0]
               /\ IF DOMAIN h0 = {} THEN phase' = "dkpush" /\ UNCHANGED <<pos, pass, err>>
                  ELSE phase' = "scan2" /\ pos' = 1 /\ pass' = pass + 1 /\ UNCHANGED err
          ELSE LET d == sc.docker[DkIndex]
                   h1 == Put(h0, Clean(d.cfg), HRec("dkcfg", "", "", FALSE, {}))
                   h2 == AddDkLayers(h1, d.layers, 1)
               IN /\ imp' = [imp EXCEPT !.h = h2, !.added = FALSE,
                                        !.dkm = [cfg |-> "", layers |-> [i \in 1..Len(d.layers) |-> ""]]]
                  /\ phase' = "scan2" /\ pos' = 1 /\ pass' = pass + 1
                  /\ UNCHANGED err
     ELSE /\ phase' = "failed"
          /\ err' = (IF phase = "scan1" THEN "unable to read all files from tar" ELSE "failed to import layers from docker tar")
          /\ UNCHANGED <<imp, pos, pass>>
  /\ UNCHANGED <<sid, arch, rest, tgt>>
Fallback == EndPassNotFound /\ phase' \in {"scan2", "dkpush"}
NotFound == EndPassNotFound /\ phase' = "failed"

\* imageImportOCIPushManifests: finish steps in reverse order
FinishStep(op) ==
  /\ phase = "finish" /\ imp.fin # <<>>
  /\ LET f == imp.fin[Len(imp.fin)] IN
     /\ f.op = op
     /\ imp' = [imp EXCEPT !.fin = SubSeq(@, 1, Len(@) - 1)]
     /\ IF op = "push"
        THEN /\ tgt' = IF f.n \in tgt.mans THEN tgt               \* ManifestHead ok -> skip, else ManifestPut
                        ELSE Write([tgt EXCEPT !.mans = @ \cup {f.n}], "m:" \o f.n)
             /\ UNCHANGED <<phase, err>>
        ELSE IF f.n \in imp.mans
             THEN \* ManifestPut(r, m): by tag, or by digest when the import reference carries a digest
                  tgt' = Write([tgt EXCEPT !.mans = @ \cup {f.n}, !.tag = f.n],
                               (IF sc.sel.by = "digest" THEN "m:" ELSE "t:") \o f.n) /\ UNCHANGED <<phase, err>>
             ELSE phase' = "failed" /\ err' = "could not find manifest to tag" /\ UNCHANGED tgt
  /\ UNCHANGED <<sid, arch, rest, pos, pass>>
FinishPush == FinishStep("push")
FinishTag == FinishStep("tag")
FinishDone == /\ phase = "finish" /\ imp.fin = <<>>
              /\ phase' = "done"
              /\ UNCHANGED <<sid, arch, rest, pos, pass, imp, tgt, err>>

\* ImageImport after the second tarReadAll: manifest.New(WithOrig(trd.dockerManifest)) + ManifestPut
DockerPush ==
  /\ phase = "dkpush"
  /\ tgt' = Write([tgt EXCEPT !.dk = imp.dkm, !.tag = "dkman"], "t:dkman")
  /\ phase' = "done"
  /\ UNCHANGED <<sid, arch, rest, pos, pass, imp, err>>

Terminated == phase \in {"done", "failed"} /\ UNCHANGED vars

Step == \/ Begin \/ ScanLink
        \/ ScanNoHandler \/ HLayout \/ HIndex \/ HDockerJSON \/ HEntry \/ HBlob \/ HDkConfig \/ HDkLayer
        \/ EndPassRescan \/ Fallback \/ NotFound
        \/ FinishPush \/ FinishTag \/ FinishDone \/ DockerPush
Next == Step \/ Terminated
Spec == Init /\ [][Next]_vars /\ WF_vars(Next)

(* ----------------------------- invariants ------------------------------ *)
\* every manifest at the target has all its children there: manifests are pushed after their blobs,
\* nested manifests first; with TagComplete: the tag comes last
KidsPresent(n) == \A i \in 1..Len(Node(n).kids) :
                     LET k == Node(n).kids[i].n IN k \in tgt.blobs \/ k \in tgt.mans
Closed == \A n \in tgt.mans : KidsPresent(n)
TagComplete == tgt.tag \notin {"", "dkman", "stale"} => tgt.tag \in tgt.mans
\* a manifest is stored as a manifest, a blob as a blob
Sorted == (\A n \in tgt.mans : IsMan(n)) /\ (\A n \in tgt.blobs : n \in DOMAIN sc.nodes => ~IsMan(n))

\* termination of the re-scan loop: the number of seeks is bounded by the scenario's bound
PassBound == pass <= sc.maxpass

Termination == <>(phase \in {"done", "failed"})
=============================================================================

------------------------------ MODULE Manifest ------------------------------
(***************************************************************************)
(* C02 - a manifest is exactly the bytes its digest names.  Abstract model *)
(* of types/manifest (manifest.go: New / fromOrig / fromCommon; oci1.go,   *)
(* docker2.go, docker1.go: setters funnelling through updateDesc) and the  *)
(* space of scenarios TLC enumerates for the driver.                       *)
(*                                                                         *)
(* Abstract object: the values the getters return.  A setter changes the   *)
(* field it names and nothing else; a refused call changes nothing.  The   *)
(* serialisation is abstract: Ser(fields) is injective, the descriptor is  *)
(* the ideal hash of it - so in the abstract O2/O4 hold by construction    *)
(* and the value of the model is (1) the program space and (2) the frame   *)
(* rule that the trace spec enforces on the real object.                   *)
(*                                                                         *)
(* Fetch side: which digest governs (descriptor, else reference, else the  *)
(* registry's header - manifest.New: "later digests will be ignored") and  *)
(* when a body may be returned.                                            *)
(***************************************************************************)
EXTENDS Naturals, Sequences, FiniteSets, TLC

Kinds == {"oci_image", "oci_index", "oci_artifact", "d2_image", "d2_list", "d1", "d1_signed"}
Algos == {"sha256", "sha512"}

\* ---- edit side: the setter alphabet (argument values are names of fixtures in the driver)
Ops == {<<"ann", "a=x">>, <<"ann", "a=y">>, <<"ann", "b=x">>, <<"ann", "a=">>,
        <<"config", "c1">>, <<"config", "c2">>,
        <<"layers", "l1">>, <<"layers", "l2">>, <<"layers", "l0">>,
        <<"mlist", "m1">>, <<"mlist", "m2">>, <<"mlist", "m1data">>, <<"mlist", "m1plat">>,
        <<"subject", "s1">>, <<"subject", "none">>,
        <<"orig", "o1">>, <<"orig", "o1badmt">>}   \* o1badmt: a struct that still carries another kind's media type
Fields == {"ann", "config", "layers", "mlist", "subject"}
\* the field(s) an accepted call may change
Frame(op) == IF op[1] = "orig" THEN Fields ELSE {op[1]}

Programs(maxLen) == UNION {[1..n -> Ops] : n \in 0..maxLen}
EditScenarios(maxLen) == {[kind |-> k, algo |-> a, prog |-> p] : k \in Kinds, a \in Algos, p \in Programs(maxLen)}

\* ---- fetch side
Src == {"absent", "right256", "right512", "wrong"}
\* a descriptor may also carry a digest string that is not a digest (truncated, upper-case hex, unregistered
\* algorithm, bare hex): it names nothing, so nothing may be returned for it
DescSrc == Src \cup {"malformed"}
Variants == {"canon", "reordered", "unknown_field"}
HdrMT == {"absent", "right", "wrong"}
\* new: manifest.New; reg / ocidir: RegClient.ManifestGet; regplat: ManifestGet of a tag that is an index with
\* WithManifestPlatform (the child is fetched for the digest of the index entry, logged as `desc`); regdata:
\* ManifestGet with a descriptor that carries the body as inline data
\* orig: manifest.New(WithOrig(struct)) together with the expected digest sources (the bytes are the struct's
\* serialisation); regputget: a client with the response cache on pushes the manifest to the reference (a registry
\* need not validate a push by digest) and then pulls that very reference - what the pull returns is held to the
\* same rule as any other fetch
Via == {"new", "reg", "ocidir", "regplat", "regdata", "orig", "regputget"}
\* how the caller of manifest.New spells the request (the order of the options and the shape of the
\* descriptor are the caller's business and must not matter): std = raw, descriptor (digest only, when
\* there is one), ref, header; ref_first = the ref before the descriptor; mt_desc = the descriptor also
\* carries media type and size - and is given, without a digest, when no digest is expected from it -
\* after the ref; mt_desc_first = the same before the ref
\* size_desc = a descriptor (with the digest, if one is expected from it) that states a wrong size;
\* size_entry (layout) = the entry of index.json states a wrong size
Forms == {"std", "ref_first", "mt_desc", "mt_desc_first", "size_desc", "size_entry"}
FormsOf(via) == IF via \in {"new", "orig"} THEN Forms \ {"size_entry"} ELSE IF via = "ocidir" THEN {"std", "size_entry"} ELSE {"std"}
FetchScenarios ==
  {x \in {[kind |-> k, variant |-> v, desc |-> d, ref |-> r, hdr |-> h, hdrmt |-> m, via |-> via, form |-> f] :
            k \in Kinds, v \in Variants, d \in DescSrc, r \in Src, h \in Src, m \in HdrMT, via \in Via, f \in Forms}
     : x.form \in FormsOf(x.via)}
\* the digest that governs the comparison
Governing(x) == IF x.desc # "absent" THEN x.desc ELSE IF x.ref # "absent" THEN x.ref ELSE x.hdr
MayReturn(x) == Governing(x) \notin {"wrong", "malformed"}
=============================================================================

CONSTANTS
 Hosts = {"m1", "up"}
 Up = "up"
 Ids = {"A", "B"}
 N = 2
 RA = 50
 Kinds = {"ok", "ok206", "short0", "s429ra", "s500", "s404", "reset"}
 MaxFaults = 3
 MaxSeeks = 0
 Conc = 8
 LinkEntries = FALSE
 Directs = {"none"}
 StoreAnchor = TRUE
 RelNR = TRUE
 FixLeak = TRUE
 PrioAsc = TRUE
 Rs = {2}
 Prios = {0}
 Meths = {"GET"}
 Waive <- WaiveNone
 Confs <- EqConfs
INIT MCInit
NEXT MCNext
INVARIANTS Ok RetryBound TypeOK NoThrottleBlock SlotsAccounted
CHECK_DEADLOCK FALSE

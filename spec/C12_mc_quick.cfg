CONSTANTS
 Hosts = {"m1", "up"}
 Up = "up"
 Ids = {"A"}
 N = 2
 RA = 50
 Kinds = {"ok", "ok206", "short0", "short1", "short206", "okclbad", "ok200", "reset", "s429", "s429ra", "s500ra", "s408", "s500", "s502", "s504", "s403", "s503", "s404", "s416", "s401n", "s401s", "s401b"}
 MaxFaults = 4
 MaxSeeks = 1
 Conc = 8
 LinkEntries = FALSE
 Directs = {"none"}
 StoreAnchor = TRUE
 RelNR = TRUE
 FixLeak = TRUE
 PrioAsc = TRUE
 Rs = {1, 2}
 Prios = {0}
 Meths = {"GET", "HEAD", "PUT", "DELETE"}
 Waive <- WaiveNone
 Confs <- EqConfs
INIT MCInit
NEXT MCNext
INVARIANTS Ok RetryBound TypeOK NoThrottleBlock SlotsAccounted
CHECK_DEADLOCK FALSE

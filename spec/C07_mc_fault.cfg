\* baseline, interruption WITHOUT death: up to two error returns / failing source readers (two copy goroutines whose context
\* was cancelled) in the first attempt, the process goes on through its error path (+ Close), may still be killed, then the retry: holds
CONSTANTS
 Scenarios <- FaultSet
 MaxCrash = 1
 MarkerMode = "ifbad"
 MarkerWindow = TRUE
 MaxFault = 2
INIT Init
NEXT Next
INVARIANTS TypeOK NoStuck CrashStateOK ReturnOK RetryOK FaultRetOK
CHECK_DEADLOCK FALSE

CONSTANTS
 Copies = {"c1", "c2"}
 Confs <- SweepConfs
 MaxCloses = 2
 MaxOps = 1
 KeyMode = "resolve"
 LockRefTgt = TRUE
 CtxKinds = {"bg"}
 MarkCtx = FALSE
 Eager = FALSE
SPECIFICATION Spec
INVARIANTS TypeOK LocksNonNeg LocksExact MarkIsReach FallbackPresent CopyKeeps
PROPERTIES O1 O2 O3 O4 OnlyCloseDeletes
CHECK_DEADLOCK FALSE

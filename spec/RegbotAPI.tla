----------------------------- MODULE RegbotAPI -----------------------------
(***************************************************************************)
(* C19 - the alphabet of the regbot scripting API, shared by the design    *)
(* spec (Regbot.tla) and the property monitor (RegbotProp.tla).            *)
(*                                                                         *)
(* Mirrors docs/regbot.md ("The following additional functions are         *)
(* available") and the binding tables of the sandbox:                      *)
(*   cmd/regbot/sandbox/repo.go:setupRepo            repo.ls               *)
(*   cmd/regbot/sandbox/tag.go:setupTag              tag.ls tag.delete     *)
(*   cmd/regbot/sandbox/manifest.go:setupManifest    manifest.get getList  *)
(*        head put, <manifest>:config delete export get put ratelimit      *)
(*   cmd/regbot/sandbox/blob.go:setupBlob            blob.get head put     *)
(*   cmd/regbot/sandbox/image.go:setupImage          image.config copy     *)
(*        exportTar importTar manifest manifestHead manifestList           *)
(*        ratelimitWait, <config>:export                                   *)
(*   cmd/regbot/sandbox/reference.go:setupReference  reference.new close   *)
(*        <ref>:tag <ref>:digest                                           *)
(* plus Lua's own error(), pcall (field p of a statement), `if` and `for`. *)
(*                                                                         *)
(* The classification below is what the documentation says a function     *)
(* does, not what its implementation happens to do: a WriteOp is a         *)
(* function documented to push, copy, import or delete something in a     *)
(* registry or layout; image.exportTar only writes a local tar file        *)
(* (neither a registry nor a layout; see design.d/C19.md); every other     *)
(* function is read-only.                                                  *)
(* Deviations: of the repo.ls options only `limit`; the <ref>:digest       *)
(* setter is not in the alphabet.                                          *)
(***************************************************************************)
\* image.copy with its option table: digestTags, forceRecursive (documented), platforms,
\* includeExternal (accepted by imageCopy, not documented)
CopyOps == {"image.copy", "image.copy+dt", "image.copy+fr", "image.copy+pf", "image.copy+ie"}
WriteOps == {"tag.delete", "m:delete", "manifest.put", "m:put", "blob.put", "b:put", "image.importTar"} \cup CopyOps
ExportOps == {"image.exportTar"}
\* method forms (<object>:fn) are operations of their own: a second entry point may get a second
\* implementation (seeded C19-4)
ManifestGetOps == {"manifest.get", "image.manifest", "m:get"}
ManifestListOps == {"manifest.getList", "image.manifestList"}
ManifestHeadOps == {"manifest.head", "image.manifestHead", "m:head"}
ReadOps == {"repo.ls", "repo.ls+limit", "tag.ls", "image.config", "m:config", "blob.get", "blob.head", "b:get", "b:head",
            "reference.new", "r:tag", "r:digest", "reference.close", "r:close", "m:export", "c:export", "m:ratelimit",
            "image.ratelimitWait", "m:ratelimitWait"}
           \cup ManifestGetOps \cup ManifestListOps \cup ManifestHeadOps
GuardOps == {"if.head", "ifnot.head"}
\* ways a script can abort: error("text"), error of a table / number / boolean / nothing, error with a
\* level argument, a Lua runtime fault (index of nil), unbounded recursion (stack overflow)
ErrorOps == {"error", "error:table", "error:number", "error:bool", "error:nil", "error:level", "error:index", "error:recurse"}
CtlOps == ErrorOps \cup {"foreach"} \cup GuardOps
AllOps == ReadOps \cup WriteOps \cup ExportOps \cup CtlOps
\* bindings that take a slot of the shared throttle (pqueue of size defaults.parallel)
ThrottledOps == {"image.config", "m:config", "image.importTar", "image.exportTar"} \cup CopyOps
\* HTTP methods that change state at a registry
WriteMethods == {"PUT", "POST", "PATCH", "DELETE"}
=============================================================================

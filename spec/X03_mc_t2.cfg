SPECIFICATION MSpec
CONSTANTS
 DescPlatStrict = TRUE
 PlatLookupStrict = FALSE
 ReadFaults = FALSE
 EqualAnnStrict = TRUE
 PutFirst = FALSE
 DedupByDigest = FALSE
 DeleteKeepsOne = FALSE
 Faults = FALSE
 Alphabet <- AlphaSmall
 MaxCmds = 5
INVARIANTS Holds TypeOk
CHECK_DEADLOCK FALSE

------------------------------ MODULE ImageCopy ------------------------------
(***************************************************************************)
(* (D) design spec of regclient.ImageCopy: the concurrent recursive copy   *)
(* of image.go (ImageCopy, imageCopyOpt, imageCopyBlob, imageSeenOrWait)   *)
(* and blob.go (BlobCopy) on top of scheme/reg (ManifestHead/Get/Put,      *)
(* BlobHead/Mount/Get/Put, ReferrerList, referrerPut, TagList) and         *)
(* scheme/ocidir (the same calls as atomic file operations).               *)
(* Implementation shaped: the client is a dynamically growing sequence of  *)
(* tasks, one per imageCopyOpt / imageCopyBlob call (= goroutine), with a  *)
(* program counter at every point where the code talks to the outside      *)
(* (one HTTP request = one action) or to the shared `seen` map.            *)
(*                                                                         *)
(* manifest task (imageCopyOpt)              blob task (imageCopyBlob+BlobCopy) *)
(*  start   imageSeenOrWait (digest known)    bstart  imageSeenOrWait       *)
(*  wseen   wait for the first copier         wseen   same                  *)
(*  headT   ManifestHead(target) [headT2:     bhead   same-repo exit | BlobHead(target) *)
(*          GET when no digest header]        bacq    pqueue.AcquireMulti   *)
(*  headS   ManifestHead(source) [headS2]     bmount  BlobMount (same registry) *)
(*  seenS   imageSeenOrWait (digest learnt)   bmdel   cancel the 202 session*)
(*  getS    ManifestGet(source) | inline data bget    BlobGet(source) | inline *)
(*  seenG   imageSeenOrWait (digest learnt)   bpost   BlobPut: anonymous mount POST *)
(*  spawn   go copy entries, config, layers   bpost2  BlobPut: POST upload  *)
(*  wait1   non-blocking early-abort loop     bput    PUT (monolithic)      *)
(*  refs    ReferrerList: API [refs2: tag]    bpatch  chunked fall-back PATCH *)
(*  dtags   lock opt.mu [dtagsR: TagList      brewind rewind = GET(source) again *)
(*          once, unlock; dtags2: spawn]      bput2   chunked final PUT     *)
(*  wait2   blocking wait for all children    bdel    cancel upload (best effort) *)
(*  put     ManifestPut [fbget, fbput: referrerPut = read-modify-write of   *)
(*          the fall-back tag under muRefTag]                               *)
(*  done    returned (seenCB, deferred cancel)                              *)
(*                                                                         *)
(* Error handling as written: the first child error cancels the task's     *)
(* context; "context canceled" is replaced by the next child result in     *)
(* search of a better message (FixWaitErr = TRUE: only by an error, the    *)
(* code since commit 7bc56ce; FALSE: even by a nil result, as found:       *)
(* findings/C04-1, kept as a switch for the expected-counterexample run);  *)
(* waiters on the seen map inherit the first copier's error; failed seen   *)
(* entries are forgotten; ReferrerList / TagList errors return at once     *)
(* without draining the children (which then run on as orphans with a      *)
(* cancelled context); a failed referrers API call falls back to the tag   *)
(* listing and is remembered (featureSet); loops detected on referrer /    *)
(* digest-tag copies are retried by finalFn after the top call returned.   *)
(*                                                                         *)
(* Environment: task interleaving (Next picks any task), per-request       *)
(* outcomes (served | fails | transient fault = repeated), Cancel of the   *)
(* caller's context, Crash (nothing moves any more; every invariant is a   *)
(* statement about every reachable state, hence about every crash state),  *)
(* the throttle as a capacity (conf.cap, 0 = unbounded).                   *)
(* Registries change state only when a request is served, and reghttp      *)
(* never sends a request on a context that is already cancelled (a request *)
(* overtaken by the cancellation while in flight is, for the store, the    *)
(* same as one served just before it); a layout target ignores the context *)
(* on ManifestPut (ocidir does not look at ctx).                           *)
(*                                                                         *)
(* Deliberate deviations: content is abstract (names = digests, ideal      *)
(* hash); reghttp's retry / back-off / auth automaton is one "transient    *)
(* fault" step (C12 models it); mirrors, rate limits, callbacks, warnings, *)
(* the platform-compat matcher, referrer source/target overrides and       *)
(* ImageWithChild are not modelled; the per-host throttles are one         *)
(* capacity; chunked upload is one PATCH + one PUT; the stale image at     *)
(* the target ("OLDM") is never touched.  The configuration (shape,        *)
(* pairing, options, features, pre-existing target, fault budget) is       *)
(* chosen in Init from Confs, so one TLC run covers many configurations.   *)
(* The property is stated by instantiating the monitor CopyProp on this    *)
(* spec's state (ImageCopyMC).                                             *)
(***************************************************************************)
EXTENDS Naturals, Sequences, FiniteSets, TLC, CopyShapes
CONSTANTS Confs,        \* set of configuration records (see ImageCopyMC)
          FixWaitErr,   \* TRUE: wait loops as repaired by 7bc56ce (findings/C04-1.patch); FALSE: as found before
          Reduce        \* TRUE: partial-order reduction for fault-free configurations (see Allowed)
VARIABLES conf, tasks, seen, tb, tm, tt, fbl, written, tagMoved, lateWrite,
          getc, comc, nBlobReq, nManPut, nWrites, faults, ctxC, crashed,
          refFeat, tagListed, refLock, omu, slots, finals, ret, retries
vars == <<conf, tasks, seen, tb, tm, tt, fbl, written, tagMoved, lateWrite,
          getc, comc, nBlobReq, nManPut, nWrites, faults, ctxC, crashed,
          refFeat, tagListed, refLock, omu, slots, finals, ret, retries>>

\* ------------------------------------------------------------ configuration
Sh == Shapes[conf.shape]
SrcIsDir == conf.pair \in {"dir2reg", "dir2dir"}
TgtIsDir == conf.pair \in {"reg2dir", "dir2dir"}
SameRepo == conf.pair = "samerepo"
SameReg == conf.pair \in {"samerepo", "samereg"}
RefApiSrc == conf.refApiSrc /\ ~SrcIsDir
RefApiTgt == IF SameReg THEN RefApiSrc ELSE conf.refApiTgt /\ ~TgtIsDir
\* the source holds fall-back indexes under sha256-<hex> tags: it lists referrers through them (no API), or it
\* has the API and the tags are left over (conf.leftover) - then they are ordinary digest tags
HasFB == ~RefApiSrc \/ conf.leftover
FBNodes == IF HasFB THEN {f[1] : f \in Sh.fbs} ELSE {}
Mans == DOMAIN Sh.mans \cup FBNodes
Kind(n) == IF n \in DOMAIN Sh.mans THEN Sh.mans[n] ELSE "index"
KidsSeq(n) == IF n \in DOMAIN Sh.kids THEN Sh.kids[n] ELSE <<>>
Root == Sh.root
HasSubject(n) == \E r \in Sh.refs : r[1] = n
SubjectOf(n) == (CHOOSE r \in Sh.refs : r[1] = n)[2]
AllRefs(n) == {r[1] : r \in {r \in Sh.refs : r[2] = n}}
\* every ImageWithReferrers(filter) option contributes what it selects; no filter option = everything
Listed(n) == {r[1] : r \in {r \in Sh.refs : r[2] = n /\ (conf.filter = {} \/ r[3] \in conf.filter)}}
FbTag(n) == "fb:" \o n
FbNode(n) == "FB:" \o n
\* digest tags of n at the source: <<tag, manifest it resolves to, is the referrers fall-back tag>>
DTagsOf(n) == {<<d[1], d[3], FALSE>> : d \in {d \in Sh.dtags : d[2] = n}} \cup
              (IF FbNode(n) \in FBNodes /\ n \notin Sh.long THEN {<<FbTag(n), FbNode(n), ~RefApiSrc>>} ELSE {})
SelKid(k) == /\ (k[2] \in {"entry", "bentry", "uentry"} /\ conf.plats) => k[3] = "linux/amd64"
             /\ k[2] = "ext" => conf.inclext
RECURSIVE SeqOfSet(_)
SeqOfSet(S) == IF S = {} THEN <<>> ELSE LET x == CHOOSE x \in S : TRUE IN <<x>> \o SeqOfSet(S \ {x})
InOrder(S) == SelectSeq(Sh.order, LAMBDA n : n \in S)

SetTag(T, k, v) == {p \in T : p[1] # k} \cup {<<k, v>>}
TagOfT(k) == IF \E p \in tt : p[1] = k THEN (CHOOSE p \in tt : p[1] = k)[2] ELSE "-"

OldNodes == IF conf.tag0 = "stale" THEN {"OLDM", "OLDC", "OLDL"} ELSE {}
AllNodes == Sh.blobs \cup Mans
InitB == IF SameRepo THEN Sh.blobs \cup (OldNodes \ {"OLDM"})
         ELSE (conf.init \cap Sh.blobs) \cup (OldNodes \ {"OLDM"})
InitM == IF SameRepo THEN Mans \cup (OldNodes \cap {"OLDM"})
         ELSE (conf.init \cap Mans) \cup (OldNodes \cap {"OLDM"}) \cup (IF conf.tag0 = "same" THEN {Root} ELSE {})
InitT == (CASE conf.tag0 = "stale" -> {<<"T", "OLDM">>}
            [] conf.tag0 = "same" -> {<<"T", Root>>}
            [] OTHER -> {}) \cup
         (IF SameRepo THEN {<<"S", Root>>} \cup {<<d[1], d[3]>> : d \in Sh.dtags} \cup
                           {<<FbTag(f[2]), f[1]>> : f \in {f \in Sh.fbs : HasFB}}
          ELSE {})

\* -------------------------------------------------------------------- tasks
NoTask == 0
\* rp: the target repository this call writes to ("" = the image's target, "r/" = the referrer target of
\* ImageWithReferrerTgt); everything in the target store, and the seen map, is named rp \o node
Task(k, node, par, pc, tag, sdig, via, inl, rp) ==
  [k |-> k, node |-> node, par |-> par, pc |-> pc, tag |-> tag, sdig |-> sdig, via |-> via, inl |-> inl, rp |-> rp,
   mt |-> "none", ms |-> "none", canc |-> FALSE, pend |-> 0, err |-> "none", res |-> "", got |-> FALSE,
   own |-> FALSE, hold |-> FALSE, wo |-> NoTask, rtag |-> FALSE, fbr |-> {}]
Ids == 1..Len(tasks)
Q(t) == t.rp \o t.node                     \* the object of task t in its target repository
QT(t) == t.rp \o t.tag                     \* its tag there
RefRp(t) == IF conf.refTgt THEN "r/" ELSE t.rp
RECURSIVE AncSelf(_)
AncSelf(i) == IF i = NoTask THEN {} ELSE {i} \cup AncSelf(tasks[i].par)
EffCancel(i) == ctxC \/ \E a \in AncSelf(i) : tasks[a].canc
\* digests of the manifests being copied above i (parents + own, as passed down by imageCopyOpt)
ParDigs(i) == {tasks[a].node : a \in {a \in AncSelf(tasks[i].par) : tasks[a].k = "man"}}
Returned == ret # ""
Live == ~crashed

Init == /\ conf \in Confs
        /\ tasks = <<Task("man", Shapes[conf.shape].root, NoTask, "start",
                          IF conf.tgtByDigest THEN "" ELSE "T", conf.byDigest, "top", FALSE, "")>>
        /\ seen = {}
        /\ tb = InitB /\ tm = InitM /\ tt = InitT /\ fbl = {}
        /\ written = {} /\ tagMoved = FALSE /\ lateWrite = FALSE
        /\ getc = [n \in Shapes[conf.shape].blobs |-> 0] /\ comc = [n \in Shapes[conf.shape].blobs |-> 0]
        /\ nBlobReq = 0 /\ nManPut = 0 /\ nWrites = 0 /\ faults = 0
        /\ ctxC = FALSE /\ crashed = FALSE /\ refFeat = "unknown" /\ tagListed = FALSE
        /\ refLock = NoTask /\ omu = NoTask /\ slots = 0 /\ finals = <<>> /\ ret = "" /\ retries = 0

\* ---------------------------------------------------------- small operators
ErrOf(i) == IF EffCancel(i) THEN "canceled" ELSE "other"
CanFault == faults < conf.maxFaults
CanFail(i) == EffCancel(i) \/ CanFault
Cost(i) == IF EffCancel(i) THEN 0 ELSE 1
Bump(f, n) == IF n \in DOMAIN f THEN [f EXCEPT ![n] = IF @ < 2 THEN @ + 1 ELSE @] ELSE f

\* task i returns r: seenCB(err) and the deferred cancel()
FinTasks(T, i, r) == [T EXCEPT ![i].pc = "done", ![i].res = r, ![i].canc = TRUE, ![i].hold = FALSE]
FinSeen(i, r) == IF ~tasks[i].own THEN seen
                 ELSE IF r = "ok" THEN {IF e.owner = i /\ e.st = "inprog" THEN [e EXCEPT !.st = "ok"] ELSE e : e \in seen}
                 ELSE {e \in seen : ~(e.owner = i /\ e.st = "inprog")}
FinSlots(i) == IF tasks[i].hold THEN slots - 1 ELSE slots
\* an unknown-media-type entry first tried as a manifest falls back to a blob copy on any error
Fallback(i, r) == tasks[i].via = "try" /\ r # "ok"
Finish(i, r) ==
  IF Fallback(i, r)
  THEN /\ tasks' = [tasks EXCEPT ![i].k = "blob", ![i].pc = "bstart", ![i].via = "kid", ![i].own = FALSE,
                                 ![i].sdig = TRUE, ![i].mt = "none", ![i].ms = "none"]
       /\ seen' = FinSeen(i, r)
       /\ slots' = slots
  ELSE /\ tasks' = FinTasks(tasks, i, r)
       /\ seen' = FinSeen(i, r)
       /\ slots' = FinSlots(i)
\* the same with further updates U of task i applied first (U is a tasks-valued expression)
FinishWith(U, i, r) ==
  /\ tasks' = FinTasks(U, i, r)
  /\ seen' = FinSeen(i, r)
  /\ slots' = FinSlots(i)

Obs == <<tb, tm, tt, fbl, written, tagMoved, lateWrite>>       \* target store and its history flags
Cnt == <<getc, comc, nBlobReq, nManPut, nWrites>>
Env == <<conf, ctxC, crashed, refFeat, tagListed, refLock, omu, finals, ret, retries>>

\* ------------------------------------------------------------ the seen map
SeenEntry(n, tg) == {e \in seen : e.node = n /\ e.tag = tg}
\* imageSeenOrWait for task i; np: where to go when i becomes the copier ("retok": nothing to do)
\* (opt.mu is free: the one long critical section of the code is the tag listing, see MDTags)
SeenStep(i, np, loopCheck) ==
  LET t == tasks[i]
      es == SeenEntry(Q(t), t.tag)
  IN omu = NoTask /\
     IF es = {}
     THEN IF np = "retok"
          THEN /\ tasks' = FinTasks(tasks, i, "ok")
               /\ seen' = seen \cup {[node |-> Q(t), tag |-> t.tag, owner |-> i, st |-> "ok"]}
               /\ slots' = slots
          ELSE /\ tasks' = [tasks EXCEPT ![i].pc = np, ![i].own = TRUE]
               /\ seen' = seen \cup {[node |-> Q(t), tag |-> t.tag, owner |-> i, st |-> "inprog"]}
               /\ slots' = slots
     ELSE LET e == CHOOSE e \in es : TRUE IN
          IF e.st = "ok" THEN Finish(i, "ok")
          ELSE IF loopCheck /\ t.node \in ParDigs(i) THEN Finish(i, "loop")
          ELSE /\ tasks' = [tasks EXCEPT ![i].pc = "wseen", ![i].wo = e.owner]
               /\ UNCHANGED <<seen, slots>>

WSeen(i) ==
  /\ tasks[i].pc = "wseen"
  /\ \/ /\ tasks[tasks[i].wo].pc = "done"                       \* the copier called seenCB
        /\ Finish(i, IF tasks[tasks[i].wo].res = "loop" THEN "other" ELSE tasks[tasks[i].wo].res)
     \/ /\ EffCancel(i) /\ Finish(i, "canceled")
  /\ UNCHANGED <<Obs, Cnt, Env, faults>>

\* ------------------------------------------------------------ manifest task
FastOk(t) == t.mt # "none" /\ (conf.fast \/ (~conf.force /\ ~conf.referrers /\ ~conf.dtags))
NeedGet(t) == ~t.sdig \/ t.mt \in {"none", "diff"} \/ conf.force \/ (t.mt = "same" /\ Kind(t.node) = "index")
Decide(t) == IF FastOk(t) /\ ~t.sdig THEN "headS"
             ELSE IF FastOk(t) /\ t.mt = "same" THEN "retok"
             ELSE IF t.mt # "none" /\ t.ms = "none" /\ ~conf.force /\ ~t.sdig THEN "headS"
             ELSE IF NeedGet(t) THEN "getS" ELSE "spawn"
NeedPut(t) == t.mt \in {"none", "diff"} \/ conf.force
\* what the target answers for the reference of t
Resolve(t) == IF t.tag # ""
              THEN (IF TagOfT(QT(t)) = Q(t) THEN "same" ELSE IF TagOfT(QT(t)) # "-" THEN "diff" ELSE "none")
              ELSE (IF Q(t) \in tm THEN "same" ELSE "none")
\* continue after the target HEAD with mt = m
AfterHeadT(i, m) ==
  LET t == [tasks[i] EXCEPT !.mt = m]
      d == Decide(t)
  IN IF d = "retok" THEN FinishWith([tasks EXCEPT ![i].mt = m], i, "ok")
     ELSE /\ tasks' = [tasks EXCEPT ![i].mt = m, ![i].pc = d] /\ UNCHANGED <<seen, slots>>

MStart(i) ==
  /\ tasks[i].k = "man" /\ tasks[i].pc = "start"
  /\ IF tasks[i].sdig THEN SeenStep(i, "headT", TRUE)
     ELSE tasks' = [tasks EXCEPT ![i].pc = "headT"] /\ UNCHANGED <<seen, slots>>
  /\ UNCHANGED <<Obs, Cnt, Env, faults>>

MHeadT(i) ==
  /\ tasks[i].pc = "headT"
  /\ IF TgtIsDir
     THEN AfterHeadT(i, Resolve(tasks[i])) /\ UNCHANGED faults
     ELSE \/ /\ ~EffCancel(i)                                   \* served
             /\ IF ~conf.headDigest /\ Resolve(tasks[i]) # "none"
                THEN tasks' = [tasks EXCEPT ![i].pc = "headT2", ![i].mt = Resolve(tasks[i])] /\ UNCHANGED <<seen, slots>>
                ELSE AfterHeadT(i, Resolve(tasks[i]))
             /\ UNCHANGED faults
          \/ /\ CanFail(i)                                      \* an HTTP status / early ctx error: "not there"
             /\ AfterHeadT(i, "none") /\ faults' = faults + Cost(i)
          \/ /\ CanFail(i)                                      \* url.Error: cannot reach the target
             /\ Finish(i, ErrOf(i)) /\ faults' = faults + Cost(i)
  /\ UNCHANGED <<Obs, Cnt, Env>>

MHeadT2(i) ==   \* WithManifestRequireDigest: GET because the HEAD carried no digest
  /\ tasks[i].pc = "headT2"
  /\ \/ /\ ~EffCancel(i) /\ AfterHeadT(i, tasks[i].mt) /\ UNCHANGED faults
     \/ /\ CanFail(i) /\ AfterHeadT(i, "none") /\ faults' = faults + Cost(i)
  /\ UNCHANGED <<Obs, Cnt, Env>>

MHeadS(i) ==
  /\ tasks[i].pc = "headS"
  /\ IF SrcIsDir
     THEN tasks' = [tasks EXCEPT ![i].pc = "seenS", ![i].sdig = TRUE, ![i].ms = "head"] /\ UNCHANGED <<seen, slots, faults>>
     ELSE \/ /\ ~EffCancel(i)
             /\ tasks' = [tasks EXCEPT ![i].pc = IF conf.headDigest THEN "seenS" ELSE "headS2", ![i].sdig = TRUE, ![i].ms = "head"]
             /\ UNCHANGED <<seen, slots, faults>>
          \/ /\ CanFail(i) /\ Finish(i, ErrOf(i)) /\ faults' = faults + Cost(i)
  /\ UNCHANGED <<Obs, Cnt, Env>>

MHeadS2(i) ==
  /\ tasks[i].pc = "headS2"
  /\ \/ /\ ~EffCancel(i)
        /\ tasks' = [tasks EXCEPT ![i].pc = "seenS", ![i].ms = "full"] /\ UNCHANGED <<seen, slots, faults>>
     \/ /\ CanFail(i) /\ Finish(i, ErrOf(i)) /\ faults' = faults + Cost(i)
  /\ UNCHANGED <<Obs, Cnt, Env>>

MSeenS(i) ==
  /\ tasks[i].pc = "seenS"
  /\ SeenStep(i, Decide(tasks[i]), TRUE)
  /\ UNCHANGED <<Obs, Cnt, Env, faults>>

MGetS(i) ==
  LET t == tasks[i]
      next == IF t.sdig THEN "spawn" ELSE "seenG"
      got == [tasks EXCEPT ![i].pc = next, ![i].ms = "full", ![i].sdig = TRUE]
  IN /\ t.pc = "getS"
     /\ IF t.node \notin Mans                      \* not a manifest at the source (unknown media type entry): 404
        THEN Finish(i, "other") /\ UNCHANGED faults
        ELSE IF t.inl \/ SrcIsDir                  \* inline data in the descriptor / a file read
        THEN tasks' = got /\ UNCHANGED <<seen, slots, faults>>
        ELSE \/ /\ ~EffCancel(i) /\ tasks' = got /\ UNCHANGED <<seen, slots, faults>>
             \/ /\ CanFail(i) /\ Finish(i, ErrOf(i)) /\ faults' = faults + Cost(i)
     /\ UNCHANGED <<Obs, Cnt, Env>>

MSeenG(i) ==
  /\ tasks[i].pc = "seenG"
  /\ SeenStep(i, "spawn", TRUE)
  /\ UNCHANGED <<Obs, Cnt, Env, faults>>

ChildOf(i, k) ==
  CASE k[2] = "entry"  -> Task("man", k[1], i, "start", "", TRUE, "kid", k[4], tasks[i].rp)
    [] k[2] = "uentry" -> Task("man", k[1], i, "start", "", TRUE, "try", k[4], tasks[i].rp)
    [] OTHER           -> Task("blob", k[1], i, "bstart", "", TRUE, "kid", k[4], tasks[i].rp)
MSpawn(i) ==
  LET t == tasks[i]
      ks == IF t.ms = "full" /\ ~SameRepo THEN SelectSeq(KidsSeq(t.node), SelKid) ELSE <<>>
  IN /\ t.pc = "spawn"
     /\ tasks' = [tasks EXCEPT ![i].pc = "wait1", ![i].pend = Len(ks)] \o [j \in 1..Len(ks) |-> ChildOf(i, ks[j])]
     /\ UNCHANGED <<seen, slots, Obs, Cnt, Env, faults>>

\* the parent receives the result of child c from waitCh
ChildErr(c) == LET r == tasks[c].res IN
               IF r = "ok" THEN "none"
               ELSE IF r = "loop" THEN (IF tasks[c].via \in {"ref", "dtag"} THEN "none" ELSE "loop")
               ELSE r                    \* (ErrLoopDetected travels up through index entries until a referrer /
                                         \* digest-tag goroutine turns it into a finalFn retry)
\* error latch values: none | canceled | other | loop
NewErr(cur, r) == IF cur = "none" THEN r
                  ELSE IF cur = "canceled" THEN (IF FixWaitErr /\ r = "none" THEN "canceled" ELSE r)
                  ELSE cur
Consume(i, c) ==
  /\ tasks[i].pc \in {"wait1", "wait2"}
  /\ Reduce => tasks[i].pc = "wait2"            \* (reduction: a nil result is as good received later)
  /\ tasks[c].par = i /\ tasks[c].pc = "done" /\ ~tasks[c].got
  /\ tasks' = [tasks EXCEPT ![c].got = TRUE, ![i].pend = @ - 1,
                            ![i].err = NewErr(@, ChildErr(c)),
                            ![i].canc = @ \/ (tasks[i].err = "none" /\ ChildErr(c) # "none")]
  /\ finals' = IF tasks[c].res = "loop" /\ tasks[c].via \in {"ref", "dtag"}
               THEN Append(finals, <<tasks[c].node, tasks[c].tag, tasks[c].rp>>) ELSE finals
  /\ UNCHANGED <<seen, slots, Obs, Cnt, conf, ctxC, crashed, refFeat, tagListed, refLock, omu, ret, faults, retries>>

Wait1Go(i) ==      \* "default: done = true" (no result ready) or all children reported nil
  /\ tasks[i].pc = "wait1" /\ tasks[i].err = "none"
  /\ tasks' = [tasks EXCEPT ![i].pc = "refs"]
  /\ UNCHANGED <<seen, slots, Obs, Cnt, Env, faults>>
WaitFail(i) ==     \* all children drained, an error is latched
  /\ tasks[i].pc \in {"wait1", "wait2"} /\ tasks[i].pend = 0 /\ tasks[i].err # "none"
  /\ Finish(i, tasks[i].err)
  /\ UNCHANGED <<Obs, Cnt, Env, faults>>

RefTask(i, n) == Task("man", n, i, "start", "", TRUE, "ref", FALSE, RefRp(tasks[i]))
SpawnRefs(i, L, byTag) ==
  LET ns == InOrder(L) IN
  tasks' = [tasks EXCEPT ![i].pc = "dtags", ![i].pend = @ + Len(ns), ![i].rtag = byTag]
           \o [j \in 1..Len(ns) |-> RefTask(i, ns[j])]
MRefs(i) ==
  LET t == tasks[i] IN
  /\ t.pc = "refs"
  /\ IF ~conf.referrers
     THEN tasks' = [tasks EXCEPT ![i].pc = "dtags"] /\ UNCHANGED <<seen, slots, refFeat, faults>>
     ELSE IF SrcIsDir                                            \* ocidir lists through the fall-back tag
     THEN SpawnRefs(i, Listed(t.node), AllRefs(t.node) # {}) /\ UNCHANGED <<seen, slots, refFeat, faults>>
     ELSE IF refFeat = "no"
     THEN tasks' = [tasks EXCEPT ![i].pc = "refs2"] /\ UNCHANGED <<seen, slots, refFeat, faults>>
     ELSE \/ /\ ~EffCancel(i) /\ RefApiSrc                       \* referrers API answers
             /\ SpawnRefs(i, Listed(t.node), FALSE)
             /\ refFeat' = "yes" /\ UNCHANGED <<seen, slots, faults>>
          \/ /\ ~EffCancel(i) /\ ~RefApiSrc                      \* 404: remember, fall back to the tag
             /\ tasks' = [tasks EXCEPT ![i].pc = "refs2"]
             /\ refFeat' = "no" /\ UNCHANGED <<seen, slots, faults>>
          \/ /\ CanFail(i)                                       \* any error: same fall-back
             /\ tasks' = [tasks EXCEPT ![i].pc = "refs2"]
             /\ refFeat' = (IF refFeat = "unknown" THEN "no" ELSE refFeat)
             /\ faults' = faults + Cost(i) /\ UNCHANGED <<seen, slots>>
  /\ UNCHANGED <<Obs, Cnt, conf, ctxC, crashed, tagListed, refLock, omu, finals, ret, retries>>

MRefs2(i) ==       \* referrerListByTag: GET sha256-<hex>; not found = no referrers
  LET t == tasks[i] IN
  /\ t.pc = "refs2"
  /\ \/ /\ ~EffCancel(i)
        /\ IF FbNode(t.node) \in FBNodes THEN SpawnRefs(i, Listed(t.node), TRUE) ELSE SpawnRefs(i, {}, FALSE)
        /\ UNCHANGED <<seen, slots, faults>>
     \/ /\ CanFail(i) /\ Finish(i, ErrOf(i)) /\ faults' = faults + Cost(i)   \* returns without draining
  /\ UNCHANGED <<Obs, Cnt, Env>>

DTagTask(i, d) == Task("man", d[2], i, "start", d[1], FALSE, "dtag", FALSE, tasks[i].rp)
\* opt.mu is held while the tags are listed: nobody gets past imageSeenOrWait during that request
MDTags(i) ==
  LET t == tasks[i] IN
  /\ t.pc = "dtags"
  /\ IF ~conf.dtags
     THEN tasks' = [tasks EXCEPT ![i].pc = "wait2"] /\ UNCHANGED <<tagListed, omu>>
     ELSE /\ omu = NoTask
          /\ IF tagListed \/ SrcIsDir
             THEN tasks' = [tasks EXCEPT ![i].pc = "dtags2"] /\ tagListed' = TRUE /\ UNCHANGED omu
             ELSE tasks' = [tasks EXCEPT ![i].pc = "dtagsR"] /\ omu' = i /\ UNCHANGED tagListed
  /\ UNCHANGED <<seen, slots, faults, Obs, Cnt, conf, ctxC, crashed, refFeat, refLock, finals, ret, retries>>
MDTagsR(i) ==
  /\ tasks[i].pc = "dtagsR" /\ omu = i
  /\ \/ /\ ~EffCancel(i) /\ tasks' = [tasks EXCEPT ![i].pc = "dtags2"] /\ tagListed' = TRUE
        /\ UNCHANGED <<seen, slots, faults>>
     \/ /\ CanFail(i) /\ FinishWith(tasks, i, ErrOf(i)) /\ faults' = faults + Cost(i) /\ UNCHANGED tagListed
  /\ omu' = NoTask
  /\ UNCHANGED <<Obs, Cnt, conf, ctxC, crashed, refFeat, refLock, finals, ret, retries>>
MDTags2(i) ==
  LET t == tasks[i]
      ds == SeqOfSet({d \in DTagsOf(t.node) : ~(d[3] /\ t.rtag)})
  IN /\ t.pc = "dtags2"
     /\ tasks' = [tasks EXCEPT ![i].pc = "wait2", ![i].pend = @ + Len(ds)] \o [j \in 1..Len(ds) |-> DTagTask(i, ds[j])]
     /\ UNCHANGED <<seen, slots, Obs, Cnt, Env, faults>>

Wait2Done(i) ==
  /\ tasks[i].pc = "wait2" /\ tasks[i].pend = 0 /\ tasks[i].err = "none"
  /\ IF NeedPut(tasks[i]) THEN tasks' = [tasks EXCEPT ![i].pc = "put"] /\ UNCHANGED <<seen, slots>>
     ELSE Finish(i, "ok")
  /\ UNCHANGED <<Obs, Cnt, Env, faults>>

\* the store after task i's manifest is written
IsTop(i) == tasks[i].via = "top"
PutEffect(i) ==
  LET t == tasks[i]
      tt2 == IF t.tag # "" THEN SetTag(tt, QT(t), Q(t)) ELSE tt
      \* the requested tag now differs from what it was before the copy / the top manifest is PUT to
      \* the requested digest reference (the monitor's notion of "the final write")
      final == IF conf.tgtByDigest THEN IsTop(i)
               ELSE t.rp = "" /\ t.tag = "T" /\ ~(\E p \in InitT : p = <<"T", t.node>>)
  IN /\ tm' = tm \cup {Q(t)}
     /\ tt' = tt2
     /\ written' = written \cup {Q(t)}
     /\ lateWrite' = (lateWrite \/ tagMoved)
     /\ tagMoved' = (tagMoved \/ final)
     /\ tb' = tb
     /\ nManPut' = nManPut + 1 /\ nWrites' = nWrites + 1
     /\ UNCHANGED <<getc, comc, nBlobReq>>
NeedFb(i) == HasSubject(tasks[i].node) /\ ~RefApiTgt
MPut(i) ==
  LET t == tasks[i] IN
  /\ t.pc = "put"
  /\ IF TgtIsDir
     THEN \* ocidir.ManifestPut: file + index under o.mu, then referrerPut; the context is not consulted
          /\ PutEffect(i)
          /\ fbl' = IF HasSubject(t.node) THEN fbl \cup {<<t.rp \o SubjectOf(t.node), Q(t)>>} ELSE fbl
          /\ Finish(i, "ok") /\ UNCHANGED faults
     ELSE \/ /\ ~EffCancel(i) /\ PutEffect(i) /\ fbl' = fbl
             /\ IF NeedFb(i) THEN tasks' = [tasks EXCEPT ![i].pc = "fbget"] /\ UNCHANGED <<seen, slots>>
                ELSE Finish(i, "ok")
             /\ UNCHANGED faults
          \/ /\ CanFail(i) /\ Finish(i, ErrOf(i)) /\ faults' = faults + Cost(i)
             /\ UNCHANGED <<Obs, Cnt>>
  /\ UNCHANGED Env

MFbGet(i) ==       \* referrerPut: lock muRefTag, GET the fall-back tag
  /\ tasks[i].pc = "fbget" /\ refLock = NoTask
  /\ \/ /\ ~EffCancel(i) /\ refLock' = i                 \* (the list as read now is what the PUT will extend)
        /\ tasks' = [tasks EXCEPT ![i].pc = "fbput",
                                  ![i].fbr = {p \in fbl : p[1] = tasks[i].rp \o SubjectOf(tasks[i].node)}]
        /\ UNCHANGED <<seen, slots, faults>>
     \/ /\ CanFail(i) /\ Finish(i, ErrOf(i)) /\ faults' = faults + Cost(i) /\ refLock' = NoTask
  /\ UNCHANGED <<Obs, Cnt, conf, ctxC, crashed, refFeat, tagListed, omu, finals, ret, retries>>
MFbPut(i) ==       \* PUT the updated referrers index under the fall-back tag, unlock
  LET t == tasks[i]
      s == SubjectOf(t.node)
  IN /\ t.pc = "fbput" /\ refLock = i
     /\ \/ /\ ~EffCancel(i)
           /\ fbl' = {p \in fbl : p[1] # t.rp \o s} \cup t.fbr \cup {<<t.rp \o s, Q(t)>>} /\ tt' = SetTag(tt, t.rp \o FbTag(s), t.rp \o ("D:" \o s))
           /\ nWrites' = nWrites + 1
           /\ Finish(i, "ok") /\ UNCHANGED <<faults, tb, tm, written, tagMoved, lateWrite, getc, comc, nBlobReq, nManPut>>
        \/ /\ CanFail(i) /\ Finish(i, ErrOf(i)) /\ faults' = faults + Cost(i) /\ UNCHANGED <<Obs, Cnt>>
     /\ refLock' = NoTask
     /\ UNCHANGED <<conf, ctxC, crashed, refFeat, tagListed, omu, finals, ret, retries>>

\* ---------------------------------------------------------------- blob task
BStart(i) ==
  /\ tasks[i].k = "blob" /\ tasks[i].pc = "bstart"
  /\ SeenStep(i, "bhead", FALSE)
  /\ UNCHANGED <<Obs, Cnt, Env, faults>>

BlobReq == nBlobReq' = nBlobReq + 1
BHead(i) ==
  LET t == tasks[i] IN
  /\ t.pc = "bhead"
  /\ IF SameRepo THEN Finish(i, "ok") /\ UNCHANGED <<faults, Cnt>>
     ELSE IF TgtIsDir
     THEN /\ IF Q(t) \in tb THEN Finish(i, "ok") ELSE tasks' = [tasks EXCEPT ![i].pc = "bacq"] /\ UNCHANGED <<seen, slots>>
          /\ UNCHANGED <<faults, Cnt>>
     ELSE \/ /\ ~EffCancel(i)
             /\ IF Q(t) \in tb THEN Finish(i, "ok") ELSE tasks' = [tasks EXCEPT ![i].pc = "bacq"] /\ UNCHANGED <<seen, slots>>
             /\ BlobReq /\ UNCHANGED <<faults, getc, comc, nManPut, nWrites>>
          \/ /\ CanFail(i)                                        \* any error reads as "not there"
             /\ tasks' = [tasks EXCEPT ![i].pc = "bacq"] /\ UNCHANGED <<seen, slots, Cnt>>
             /\ faults' = faults + Cost(i)
  /\ UNCHANGED <<Obs, Env>>

BAcq(i) ==         \* pqueue.AcquireMulti over the source and target throttles
  /\ tasks[i].pc = "bacq"
  /\ \/ /\ conf.cap = 0 \/ slots < conf.cap
        /\ tasks' = [tasks EXCEPT ![i].pc = IF SameReg THEN "bmount" ELSE "bget", ![i].hold = TRUE]
        /\ slots' = slots + 1 /\ UNCHANGED seen
     \/ /\ EffCancel(i) /\ Finish(i, "canceled")
  /\ UNCHANGED <<Obs, Cnt, Env, faults>>

BlobWrite(n) == /\ tb' = tb \cup {n} /\ lateWrite' = (lateWrite \/ tagMoved)
                /\ UNCHANGED <<tm, tt, fbl, written, tagMoved>>
\* the registry decides per request: mounts supported (conf.mount), except - when conf.decline - the mount
\* of one blob (the first object of the shape), which it answers like a registry without mount support
Granted(t) == conf.mount /\ ~(conf.decline /\ t.node = Sh.order[1])
BMount(i) ==
  LET t == tasks[i] IN
  /\ t.pc = "bmount"
  /\ \/ /\ ~EffCancel(i) /\ Granted(t)                          \* 201 mounted
        /\ BlobWrite(Q(t)) /\ Finish(i, "ok")
        /\ BlobReq /\ nWrites' = nWrites + 1 /\ UNCHANGED <<faults, getc, comc, nManPut>>
     \/ /\ ~EffCancel(i) /\ ~Granted(t)                         \* 202 with an upload session to cancel
        /\ tasks' = [tasks EXCEPT ![i].pc = "bmdel"] /\ UNCHANGED <<seen, slots, Obs, faults>>
        /\ BlobReq /\ nWrites' = nWrites + 1 /\ UNCHANGED <<getc, comc, nManPut>>
     \/ /\ CanFail(i)
        /\ tasks' = [tasks EXCEPT ![i].pc = "bget"] /\ UNCHANGED <<seen, slots, Obs, Cnt>>
        /\ faults' = faults + Cost(i)
  /\ UNCHANGED Env
BMDel(i) ==
  /\ tasks[i].pc = "bmdel"
  /\ tasks' = [tasks EXCEPT ![i].pc = "bget"]
  /\ \/ ~EffCancel(i) /\ BlobReq /\ nWrites' = nWrites + 1 /\ UNCHANGED <<faults, getc, comc, nManPut>>
     \/ CanFail(i) /\ faults' = faults + Cost(i) /\ UNCHANGED Cnt
  /\ UNCHANGED <<seen, slots, Obs, Env>>

BGet(i) ==
  LET t == tasks[i]
      next == IF TgtIsDir THEN "bput" ELSE "bpost"
  IN /\ t.pc = "bget"
     /\ IF t.inl \/ SrcIsDir
        THEN tasks' = [tasks EXCEPT ![i].pc = next] /\ UNCHANGED <<seen, slots, faults, Cnt>>
        ELSE \/ /\ ~EffCancel(i) /\ tasks' = [tasks EXCEPT ![i].pc = next]
                /\ getc' = Bump(getc, t.node) /\ BlobReq /\ UNCHANGED <<seen, slots, faults, comc, nManPut, nWrites>>
             \/ /\ CanFail(i) /\ Finish(i, ErrOf(i)) /\ faults' = faults + Cost(i) /\ UNCHANGED Cnt
     /\ UNCHANGED <<Obs, Env>>

BPost(i) ==        \* reg.BlobPut: anonymous mount attempt, answered 202 with a session
  /\ tasks[i].pc = "bpost"
  /\ \/ /\ ~EffCancel(i) /\ tasks' = [tasks EXCEPT ![i].pc = "bput"]
        /\ BlobReq /\ nWrites' = nWrites + 1 /\ UNCHANGED <<faults, getc, comc, nManPut>>
     \/ /\ CanFail(i) /\ tasks' = [tasks EXCEPT ![i].pc = "bpost2"]  \* IgnoreErr: ask for an upload URL
        /\ faults' = faults + Cost(i) /\ UNCHANGED Cnt
  /\ UNCHANGED <<seen, slots, Obs, Env>>
BPost2(i) ==
  /\ tasks[i].pc = "bpost2"
  /\ \/ /\ ~EffCancel(i) /\ tasks' = [tasks EXCEPT ![i].pc = "bput"] /\ UNCHANGED <<seen, slots>>
        /\ BlobReq /\ nWrites' = nWrites + 1 /\ UNCHANGED <<faults, getc, comc, nManPut>>
     \/ /\ CanFail(i) /\ Finish(i, ErrOf(i)) /\ faults' = faults + Cost(i) /\ UNCHANGED Cnt
  /\ UNCHANGED <<Obs, Env>>

Commit(i) == /\ BlobWrite(Q(tasks[i])) /\ comc' = Bump(comc, tasks[i].node)
             /\ BlobReq /\ nWrites' = nWrites + 1 /\ UNCHANGED <<getc, nManPut>>
BPut(i) ==
  LET t == tasks[i] IN
  /\ t.pc = "bput"
  /\ IF TgtIsDir
     THEN \* ocidir.BlobPut: tmp file, digest check, rename
          \/ /\ BlobWrite(Q(t)) /\ Finish(i, "ok") /\ UNCHANGED <<faults, Cnt>>
          \/ /\ EffCancel(i) /\ Finish(i, "canceled") /\ UNCHANGED <<faults, Cnt, Obs>>
     ELSE \/ /\ ~EffCancel(i) /\ Commit(i) /\ Finish(i, "ok") /\ UNCHANGED faults
          \/ /\ EffCancel(i) /\ Finish(i, "canceled") /\ UNCHANGED <<faults, Cnt, Obs>>
          \/ /\ ~EffCancel(i) /\ CanFault                       \* full PUT failed: rewind the source, go chunked
             /\ tasks' = [tasks EXCEPT ![i].pc = "brewind"] /\ faults' = faults + 1
             /\ UNCHANGED <<seen, slots, Cnt, Obs>>
  /\ UNCHANGED Env
\* rdrSeek.Seek(0): for a registry source reghttp re-issues the GET; if that fails the upload is
\* cancelled and the error of the failed PUT is returned
BRewind(i) ==
  LET t == tasks[i] IN
  /\ t.pc = "brewind"
  /\ IF t.inl \/ SrcIsDir
     THEN tasks' = [tasks EXCEPT ![i].pc = "bpatch"] /\ UNCHANGED <<faults, Cnt>>
     ELSE \/ /\ ~EffCancel(i) /\ tasks' = [tasks EXCEPT ![i].pc = "bpatch"]
             /\ getc' = Bump(getc, t.node) /\ BlobReq /\ UNCHANGED <<faults, comc, nManPut, nWrites>>
          \/ /\ CanFail(i) /\ tasks' = [tasks EXCEPT ![i].pc = "bdel"] /\ faults' = faults + Cost(i) /\ UNCHANGED Cnt
  /\ UNCHANGED <<seen, slots, Obs, Env>>
BPatch(i) ==
  /\ tasks[i].pc = "bpatch"
  /\ \/ /\ ~EffCancel(i) /\ tasks' = [tasks EXCEPT ![i].pc = "bput2"]
        /\ BlobReq /\ nWrites' = nWrites + 1 /\ UNCHANGED <<faults, getc, comc, nManPut>>
     \/ /\ CanFail(i) /\ tasks' = [tasks EXCEPT ![i].pc = "bdel"] /\ faults' = faults + Cost(i) /\ UNCHANGED Cnt
  /\ UNCHANGED <<seen, slots, Obs, Env>>
BPut2(i) ==
  /\ tasks[i].pc = "bput2"
  /\ \/ /\ ~EffCancel(i) /\ Commit(i) /\ Finish(i, "ok") /\ UNCHANGED faults
     \/ /\ CanFail(i) /\ tasks' = [tasks EXCEPT ![i].pc = "bdel"] /\ faults' = faults + Cost(i)
        /\ UNCHANGED <<seen, slots, Cnt, Obs>>
  /\ UNCHANGED Env
BDel(i) ==         \* blobUploadCancel, result ignored
  /\ tasks[i].pc = "bdel"
  /\ Finish(i, ErrOf(i))
  /\ \/ ~EffCancel(i) /\ BlobReq /\ nWrites' = nWrites + 1 /\ UNCHANGED <<faults, getc, comc, nManPut>>
     \/ CanFail(i) /\ faults' = faults + Cost(i) /\ UNCHANGED Cnt
  /\ UNCHANGED <<Obs, Env>>

\* a transient fault (5xx/429, connection reset, truncated body): reghttp repeats the request
ReqPcs == {"headT", "headT2", "headS", "headS2", "getS", "refs", "refs2", "dtagsR", "put", "fbget", "fbput",
           "bhead", "bmount", "bmdel", "bget", "bpost", "bpost2", "bput", "brewind", "bpatch", "bput2", "bdel"}
\* does task i talk to a registry at its current pc (a layout side has no requests)
OnSrcSide(pc) == pc \in {"headS", "headS2", "getS", "refs", "refs2", "dtagsR", "bget", "brewind"}
IsRequest(i) ==
  LET t == tasks[i] IN
  /\ t.pc \in ReqPcs
  /\ IF OnSrcSide(t.pc) THEN ~SrcIsDir ELSE ~TgtIsDir
  /\ ~(t.pc = "bhead" /\ SameRepo)
  /\ ~(t.pc \in {"getS", "bget", "brewind"} /\ t.inl)
  /\ ~(t.pc = "refs" /\ (~conf.referrers \/ refFeat = "no"))
  /\ ~(t.pc = "fbget" /\ refLock # NoTask)
Retry(i) ==
  /\ IsRequest(i) /\ ~EffCancel(i) /\ CanFault
  /\ faults' = faults + 1 /\ retries' = retries + 1
  /\ UNCHANGED <<tasks, seen, slots, Obs, Cnt, conf, ctxC, crashed, refFeat, tagListed, refLock, omu, finals, ret>>

\* ------------------------------------------------- top level and environment
TopDone == tasks[1].pc = "done"
FinalRunning == \E j \in Ids : tasks[j].via = "final" /\ tasks[j].pc # "done"
FinalDone == \E j \in Ids : tasks[j].via = "final" /\ tasks[j].pc = "done" /\ ~tasks[j].got
Return ==
  /\ ret = "" /\ TopDone /\ ~FinalRunning
  /\ IF tasks[1].res # "ok" THEN ret' = "err" /\ UNCHANGED <<tasks, finals>>
     ELSE IF FinalDone
     THEN LET j == CHOOSE j \in Ids : tasks[j].via = "final" /\ tasks[j].pc = "done" /\ ~tasks[j].got IN
          /\ tasks' = [tasks EXCEPT ![j].got = TRUE]
          /\ ret' = IF tasks[j].res = "ok" THEN "" ELSE "err"
          /\ UNCHANGED finals
     ELSE IF finals # <<>>                                        \* finalFn: retry what a loop postponed
     THEN /\ tasks' = Append(tasks, Task("man", finals[1][1], NoTask, "start", finals[1][2], finals[1][2] = "", "final", FALSE, finals[1][3]))
          /\ finals' = Tail(finals) /\ ret' = ""
     ELSE ret' = "ok" /\ UNCHANGED <<tasks, finals>>
  /\ UNCHANGED <<seen, slots, Obs, Cnt, conf, ctxC, crashed, refFeat, tagListed, refLock, omu, faults, retries>>

Cancel == /\ conf.cancel /\ ~ctxC /\ ret = ""
          /\ ctxC' = TRUE
          /\ UNCHANGED <<tasks, seen, slots, Obs, Cnt, conf, crashed, refFeat, tagListed, refLock, omu, finals, ret, faults, retries>>
Crash == /\ conf.crash /\ ret = ""
         /\ crashed' = TRUE
         /\ UNCHANGED <<tasks, seen, slots, Obs, Cnt, conf, ctxC, refFeat, tagListed, refLock, omu, finals, ret, faults, retries>>

Step(i) == \/ MStart(i) \/ WSeen(i) \/ MHeadT(i) \/ MHeadT2(i) \/ MHeadS(i) \/ MHeadS2(i) \/ MSeenS(i)
           \/ MGetS(i) \/ MSeenG(i) \/ MSpawn(i) \/ Wait1Go(i) \/ WaitFail(i) \/ MRefs(i) \/ MRefs2(i)
           \/ MDTags(i) \/ MDTagsR(i) \/ MDTags2(i) \/ Wait2Done(i) \/ MPut(i) \/ MFbGet(i) \/ MFbPut(i)
           \/ BStart(i) \/ BHead(i) \/ BAcq(i) \/ BMount(i) \/ BMDel(i) \/ BGet(i) \/ BPost(i) \/ BPost2(i)
           \/ BPut(i) \/ BRewind(i) \/ BPatch(i) \/ BPut2(i) \/ BDel(i) \/ Retry(i)
           \/ \E c \in Ids : Consume(i, c)
\* Partial-order reduction by hand, for fault-free configurations (no fault budget, no Cancel,
\* unbounded throttle; ImageCopyMC asserts this).  There no request fails and no context is ever
\* cancelled, so a step is local (independent of every step of every other task, never disabled,
\* and invisible to the invariants, which read the target store and at the very end the counters)
\* when it only moves the task's own record: reads of the immutable source, opening / cancelling an
\* upload session, the throttle, spawning (which otherwise multiplies states by the order in which
\* task ids are handed out), leaving the non-blocking wait, receiving a child's nil result in the
\* blocking wait, and -- for an object that only one descriptor in the whole graph names -- the
\* seen-map registration and the HEAD on the target (nobody else reads or writes that key / that
\* object).  With Reduce, whenever some task is at a local step only the lowest such task moves.
\* What remains interleaved are the writes and the waits on shared objects: one representative per
\* commit order.  The small shapes are explored without it as well.
Unique(n) == n \in (IF HasFB THEN Sh.uniqfb ELSE Sh.uniq)      \* precomputed in CopyShapes (per object: an
                                                               \* object reached in both target repositories is named twice)
LocalPcs == {"headS", "headS2", "spawn", "dtags2", "bacq", "bmdel", "bget", "bpost", "bpost2", "bpatch"}
IsLocal(j) ==
  LET t == tasks[j] IN
  \/ t.pc \in LocalPcs
  \/ t.pc = "getS" /\ t.node \in Mans
  \/ t.pc \in {"bhead", "headT", "headT2"} /\ t.tag = "" /\ t.via \in {"kid", "ref"} /\ Unique(t.node)
  \/ t.pc \in {"start", "bstart"} /\ t.tag = "" /\ t.via \in {"kid", "ref"} /\ Unique(t.node) /\ omu = NoTask
  \/ t.pc = "wait1" /\ t.err = "none"
  \/ t.pc = "refs" /\ (~conf.referrers \/ SrcIsDir \/ refFeat # "unknown")   \* (the first call settles refFeat)
  \/ t.pc = "refs2"
  \/ t.pc = "dtags" /\ (~conf.dtags \/ ((SrcIsDir \/ tagListed) /\ omu = NoTask))  \* (the first call lists the tags)
  \/ t.pc = "wait2" /\ \E c \in Ids : tasks[c].par = j /\ tasks[c].pc = "done" /\ ~tasks[c].got
  \/ t.pc = "wait2" /\ t.pend = 0 /\ t.err = "none" /\ (NeedPut(t) \/ (Unique(t.node) /\ t.tag = ""))
Allowed(i) == LET A == {j \in Ids : IsLocal(j)} IN
              IF ~Reduce \/ A = {} THEN TRUE ELSE i = CHOOSE j \in A : \A k \in A : j <= k
Quiet == \A i \in Ids : ~ENABLED Step(i)
Idle == (crashed \/ (ret # "" /\ Quiet)) /\ UNCHANGED vars
Next == \/ Live /\ \E i \in Ids : Allowed(i) /\ Step(i)
        \/ Live /\ Return
        \/ Live /\ Cancel
        \/ Live /\ Crash
        \/ Idle
Spec == Init /\ [][Next]_vars
FairSpec == Spec /\ WF_vars(Live /\ ((\E i \in Ids : Step(i)) \/ Return))
=============================================================================

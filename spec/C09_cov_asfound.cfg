INIT Init
NEXT CovNext
CONSTANTS
 DrainBug = TRUE
 LinkCode = TRUE
 DupPathBug = TRUE
 Ids <- QuickIds
POSTCONDITION Report
CHECK_DEADLOCK TRUE

CONSTANTS
 Scenarios = {}
 MaxCrash = 0
 Variant = "asfound"
SPECIFICATION DSpec
CONSTRAINT HW
POSTCONDITION Reached
CHECK_DEADLOCK FALSE

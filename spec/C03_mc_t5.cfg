CONSTANTS
 Confs <- MCConfs
 FixWaitErr = TRUE
 Reduce = TRUE
 MCShapes = {"diamond", "diamond2"}
 MCPairs = {"tworeg", "samereg", "reg2dir", "dir2dir"}
 MCOpts <- MCOptsCore
 MCFeats <- MCFeatsDefault
 MCInit = "corners"
 MCTag0 = {"none", "same"}
 MCByDigest = {FALSE}
 MCTgtByDigest = {FALSE}
 MaxFaults = 0
 AllowCancel = FALSE
 AllowCrash = FALSE
 Cap = 0
INIT Init
NEXT Next
INVARIANTS TypeOK InvC04 InvFb InvFbListed InvC03 InvC14 InvC14T InvFailTag

--------------------------- MODULE ThrottleUseMC ---------------------------
(* Model-checking instance of ThrottleUse (X01) over the configuration space of ThrottleUseConf. *)
EXTENDS ThrottleUse, ThrottleUseConf
CONSTANTS Limits, Leak
MCConfs == {[max |-> m, prog |-> pr] : m \in [MCHosts -> Limits], pr \in Assignments}
MCRetry == 2
MCLeak == Leak
=============================================================================

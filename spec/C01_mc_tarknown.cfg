CONSTANTS
 MaxLen = 2
 ReadSizes = {5}
 MaxDrops = 0
 MaxFails = 0
 MaxSeeks = 0
 MaxAgain = 0
 RetryLimit = 3
 Schemes = {"reg", "ocidir"}
 Vias = {"tariter", "tarraw", "tarwalk"}
 Withs = {FALSE}
 Chunks = {5}
 LyingSizes = TRUE
 LieMax = 1
 InlineData = FALSE
 Conc = 3
 Probes = FALSE
 Exts = {0}
 KeepSlots = FALSE
 TarUnverified = TRUE
 MTs = {TRUE}
 DigestHdrs = {"served"}
 Trailers = {FALSE}
 Sts = {"std"}
 DropKinds = {"ueof"}
INIT Init
NEXT Next
VIEW View
INVARIANTS TypeOK PCleanOk HashIsGot CountIsGot Bounded EofVerified EofSized NeverSelfBlocked NoLeftover WantIsAsked
CHECK_DEADLOCK FALSE

------------------------------ MODULE IndexEdit ------------------------------
(***************************************************************************)
(* X03 (D) - design spec of `regctl index create / add / delete`, one      *)
(* action per request group of /repo/cmd/regctl/index.go, over the world   *)
(* of IndexEditWorld.  The index under edit is an abstract value (media    *)
(* type, sequence of descriptors, annotations, artifactType, subject); the *)
(* target repository is the set of pool manifests it holds, the indexes    *)
(* pushed to it and what tag v1 resolves to.                               *)
(*                                                                         *)
(* Code mirrored (file:function per action)                                *)
(*   Begin        index.go: runIndexAdd / runIndexCreate / runIndexDelete  *)
(*                entry (ref.New, newRegClient)                            *)
(*   CheckType    runIndexCreate: "validate media type"                    *)
(*   Load         runIndexAdd / runIndexDelete: rc.ManifestGet of the tag, *)
(*                manifest.Indexer assertion, GetManifestList              *)
(*   ParsePlats   indexBuildDescList: platform.Parse of every --platform   *)
(*   RefHead      indexBuildDescList: rc.ManifestHead of a --ref, choice   *)
(*                between the whole manifest and the entries of a list     *)
(*                that indexPlatformInList accepts                         *)
(*   CopyBegin/CopyStep/CopyEnd  rc.ImageCopy(src, tgt@digest, child,      *)
(*                [digest-tags], [referrers]) of one named manifest:       *)
(*                image.go imageCopyOpt - HEAD of the target (skip when    *)
(*                present and neither flag is set), children / referrers / *)
(*                digest tags before the manifest itself                   *)
(*   Heads        indexBuildDescList second loop: ManifestHead of every    *)
(*                digest in the target repository, platform from           *)
(*                --desc-platform or the config (indexGetPlatform),        *)
(*                annotations from --desc-annotation                       *)
(*   Merge        runIndexCreate: indexDescListRmDup, subject lookup,      *)
(*                manifest.New; runIndexAdd: append + indexDescListRmDup + *)
(*                SetManifestList; runIndexDelete: the two removal loops + *)
(*                SetManifestList                                          *)
(*   Put          rc.ManifestPut of the index (by tag, or by digest with   *)
(*                --by-digest)                                             *)
(*   Close        deferred rc.Close: on an OCI layout the garbage          *)
(*                collection (scheme/ocidir/close.go)                      *)
(*   Abort        every `return err` above                                 *)
(*   Refuse       the environment refuses a write (fault injection)        *)
(*                                                                         *)
(* Deliberate deviations: blobs are not modelled separately (a manifest in *)
(* tman stands for the manifest with its config and layers: C03 / C04 talk *)
(* about those); the concurrent goroutines of one ImageCopy appear as the  *)
(* nondeterministic order of CopyStep; one client at a time (no CAS exists *)
(* in the protocol, concurrent editors lose updates by design).            *)
(*                                                                         *)
(* Switches (constants) re-create other designs so that the invariants are *)
(* shown to have teeth (expected-counterexample configs):                  *)
(*   DescPlatStrict  TRUE (default) = the code since fix 9d51d78: an        *)
(*                   unparsable --desc-platform is refused next to the     *)
(*                   --platform values, before anything is copied; FALSE = *)
(*                   as found: swallowed, entry added without platform     *)
(*                   (finding X03-1, seeded/fixrev-X03-1-...)              *)
(*   PlatLookupStrict FALSE (default) = as found: when the config of an    *)
(*                   image cannot be read (ReadFaults) the entry is added  *)
(*                   without platform and the command succeeds (finding    *)
(*                   X03-2, known); TRUE = the command fails               *)
(*   EqualAnnStrict  TRUE (default) = the code since fix c2e01d2:          *)
(*                   descriptor.Equal compares annotation maps; FALSE = as *)
(*                   found: key by key without checking that the key       *)
(*                   exists on the other side (finding X03-3,              *)
(*                   seeded/fixrev-X03-3-...)                              *)
(*   PutFirst        TRUE: the index is pushed before the copies           *)
(*   DedupByDigest   TRUE: duplicates are recognised by digest alone       *)
(*   DeleteKeepsOne  TRUE: delete stops after the first match              *)
(***************************************************************************)
EXTENDS IndexEditWorld

CONSTANTS DescPlatStrict, PlatLookupStrict, EqualAnnStrict, PutFirst, DedupByDigest, DeleteKeepsOne, Faults, ReadFaults

VARIABLES tkind,    \* "reg" | "dir": registry or OCI layout target
          same,     \* the target repository is source repository S1
          sfb,      \* sources record referrers in fallback tags (layout, or registry without the API)
          tman,     \* pool manifests in the target repository
          tidx,     \* index values pushed to the target repository
          tag,      \* [k |-> "none"] | [k |-> "pool", id |-> m] | [k |-> "idx", v |-> index value]
          xt,       \* subjects whose digest tag (sha256-<subject>.sig) is in the target
          roots,    \* manifests a layout lists without a tag, referrers recorded in fallback tags
          pc, cmd, cur, ri, tops, plan, ptags, acc, newv, out,
          rf        \* the environment refused a request of the running command
vars == <<tkind, same, sfb, tman, tidx, tag, xt, roots, pc, cmd, cur, ri, tops, plan, ptags, acc, newv, out, rf>>
env == <<tkind, same, sfb>>
repo == <<tman, tidx, tag, xt, roots>>

\* a command: every field present for every op (unused ones empty)
Cmd(op, refs, plats, digs, dann, dplat, mt, ann, at, subj, bydig, dtags, rfr) ==
  [op |-> op, refs |-> refs, plats |-> plats, digs |-> digs, dann |-> dann, dplat |-> dplat, mt |-> mt,
   ann |-> ann, at |-> at, subj |-> subj, bydig |-> bydig, dtags |-> dtags, rfr |-> rfr]

----------------------------------------------------------------------------
(* helpers mirroring the code *)
Cut(s, i) == SubSeq(s, 1, i - 1) \o SubSeq(s, i + 1, Len(s))

\* descriptor.Descriptor.Equal (types/descriptor/descriptor.go): digest, size, media type,
\* artifactType, platform (both nil or platform.Match), urls, annotations; `data` is not compared
XEq(a, b) == a = b \/ {a, b} = {"data", ""}
\* annotations: both nil, or the same number of keys and for every key of the first the same value in the
\* second - as found a key the second lacks reads as "" there (finding X03-3: {b: ""} equals {a: "1"})
AnnLookup(B, k) == IF \E q \in B : q[1] = k THEN (CHOOSE q \in B : q[1] = k)[2] ELSE ""
AnnEq(x, y) ==
  IF EqualAnnStrict \/ x \notin DOMAIN AnnPairs \/ y \notin DOMAIN AnnPairs THEN x = y
  ELSE LET A == AnnPairs[x]
           B == AnnPairs[y]
       IN IF A = {} \/ B = {} THEN A = B
          ELSE Cardinality(A) = Cardinality(B) /\ \A q \in A : AnnLookup(B, q[1]) = q[2]
Equal(a, b) ==
  IF DedupByDigest THEN a.id = b.id ELSE
  /\ a.id = b.id /\ a.sz = b.sz /\ a.mt = b.mt /\ XEq(a.x, b.x) /\ AnnEq(a.ann, b.ann)
  /\ IF a.plat = "" \/ b.plat = "" THEN a.plat = b.plat
     ELSE SamePlat(StoredPlat[a.plat], StoredPlat[b.plat])

\* indexDescListRmDup: for i from the front, j from the back down to i+1, delete dl[j] when equal
RECURSIVE RmDupJ(_, _, _), RmDupI(_, _)
RmDupJ(dl, i, j) == IF j <= i THEN dl ELSE RmDupJ(IF Equal(dl[i], dl[j]) THEN Cut(dl, j) ELSE dl, i, j - 1)
RmDupI(dl, i) == IF i >= Len(dl) THEN dl ELSE RmDupI(RmDupJ(dl, i, Len(dl)), i + 1)
RmDup(dl) == RmDupI(dl, 1)

\* runIndexDelete: for each --digest, then each --platform, walk the list from the back
RECURSIVE DelWalk(_, _, _, _)
DelWalk(dl, hit(_), i, done) ==
  IF i < 1 THEN dl
  ELSE IF hit(dl[i]) /\ ~(DeleteKeepsOne /\ done) THEN DelWalk(Cut(dl, i), hit, i - 1, TRUE)
  ELSE DelWalk(dl, hit, i - 1, done)
RECURSIVE DelDigs(_, _), DelPlats(_, _)
DelDigs(dl, ds) == IF ds = <<>> THEN dl ELSE DelDigs(DelWalk(dl, LAMBDA e : e.id = Head(ds), Len(dl), FALSE), Tail(ds))
DelPlats(dl, ps) ==
  IF ps = <<>> THEN dl
  ELSE DelPlats(DelWalk(dl, LAMBDA e : e.plat # "" /\ SamePlat(CliPlat[Head(ps)], StoredPlat[e.plat]), Len(dl), FALSE), Tail(ps))

PlatBad(s) == CliPlat[s] = ParseError
\* indexPlatformInList over the entries of a source list, in list order
RECURSIVE PickEntries(_, _)
PickEntries(es, ps) ==
  IF es = <<>> THEN <<>>
  ELSE (IF Head(es).plat # "" /\ \E i \in DOMAIN ps : SamePlat(StoredPlat[Head(es).plat], CliPlat[ps[i]])
        THEN <<Head(es).id>> ELSE <<>>) \o PickEntries(Tail(es), ps)

SrcRepoOf(r) == Ref[r].repo
Resolve(r) == Ref[r].man
InTarget(id) == id \in tman
\* imageCopyOpt: the manifests one ImageCopy of n from repository R visits (HEAD on the target first:
\* present and no flag -> nothing to do; the source manifest is fetched - and its children visited -
\* when the target lacks it or it is a list; referrers / digest tags of every visited manifest)
RECURSIVE Visit(_, _)
Visit(n, R) ==
  IF same /\ R = "S1" THEN {}
  ELSE IF InTarget(n) /\ ~cmd.rfr /\ ~cmd.dtags THEN {}
  ELSE {n} \cup
       (IF ~InTarget(n) \/ IsList(n) THEN UNION {Visit(c, R) : c \in Children(n)} ELSE {}) \cup
       (IF cmd.rfr \/ (cmd.dtags /\ sfb) THEN UNION {Visit(r, R) : r \in Referrers(R, n)} ELSE {}) \cup
       (IF cmd.dtags THEN UNION {Visit(d, R) : d \in DigestTagged(R, n)} ELSE {})

----------------------------------------------------------------------------
Init ==
  /\ tkind \in {"reg", "dir"} /\ same \in BOOLEAN /\ sfb \in BOOLEAN
  /\ \E i \in Inits :
       /\ tag = InitTag(i)
       /\ tman = InitHave(i) \cup (IF same THEN SrcHolds("S1") ELSE {})
       /\ tidx = (IF InitTag(i).k = "idx" THEN {InitTag(i).v} ELSE {})
       /\ roots = InitExtra[i] \cup (IF same THEN SrcHolds("S1") ELSE {})
  /\ xt = (IF same THEN DOMAIN SrcDigestTag["S1"] ELSE {})
  /\ pc = "idle" /\ cmd = None /\ cur = None /\ ri = 0 /\ tops = <<>> /\ plan = {} /\ ptags = {}
  /\ acc = <<>> /\ newv = None /\ out = "" /\ rf = FALSE

Goto(p) == pc' = p
AbortR(why, r) == /\ pc' = "close" /\ out' = "fail:" \o why /\ rf' = r
                  /\ UNCHANGED <<env, repo, cmd, cur, ri, tops, plan, ptags, acc, newv>>
Abort(why) == AbortR(why, rf)

Begin(c) ==
  /\ pc = "idle"
  /\ cmd' = c /\ cur' = None /\ ri' = 1 /\ tops' = <<>> /\ plan' = {} /\ ptags' = {} /\ acc' = <<>> /\ newv' = None
  /\ out' = "" /\ rf' = FALSE
  /\ Goto(IF c.op = "create" THEN "type" ELSE "load")
  /\ UNCHANGED <<env, repo>>

CheckType ==
  /\ pc = "type"
  /\ IF cmd.mt \notin {"oci", "docker"} THEN Abort("media-type")
     ELSE Goto("plats") /\ UNCHANGED <<env, rf, repo, cmd, cur, ri, tops, plan, ptags, acc, newv, out>>

Load ==
  /\ pc = "load"
  /\ IF tag.k # "idx" THEN Abort("no-index")
     ELSE /\ cur' = tag.v
          /\ Goto(IF cmd.op = "add" THEN "plats" ELSE "merge")
          /\ UNCHANGED <<env, rf, repo, cmd, ri, tops, plan, ptags, acc, newv, out>>

ParsePlats ==
  /\ pc = "plats"
  /\ IF \E i \in DOMAIN cmd.plats : PlatBad(cmd.plats[i]) THEN Abort("platform")
     ELSE IF DescPlatStrict /\ cmd.dplat # "" /\ PlatBad(cmd.dplat) THEN Abort("desc-platform")
     ELSE Goto(IF PutFirst THEN "heads" ELSE "refs") /\ UNCHANGED <<env, rf, repo, cmd, cur, ri, tops, plan, ptags, acc, newv, out>>

\* one --ref: head it, decide what it names
RefHead ==
  /\ pc = "refs" /\ tops = <<>> /\ plan = {}
  /\ IF ri > Len(cmd.refs)
     THEN Goto(IF PutFirst THEN "close" ELSE "heads") /\ out' = (IF PutFirst THEN "ok" ELSE out)
          /\ UNCHANGED <<env, rf, repo, cmd, cur, ri, tops, plan, ptags, acc, newv>>
     ELSE LET m == Resolve(cmd.refs[ri]) IN
          IF m = None THEN Abort("source")
          ELSE /\ tops' = (IF ~IsList(m) \/ cmd.plats = <<>> THEN <<m>> ELSE PickEntries(Man[m].ents, cmd.plats))
               /\ ri' = ri + 1
               /\ pc' = "copy"
               /\ UNCHANGED <<env, rf, repo, cmd, cur, plan, ptags, acc, newv, out>>

\* rc.ImageCopy of the next named manifest starts: HEADs decide what has to be written
CopyBegin ==
  /\ pc = "copy" /\ plan = {} /\ ptags = {}
  /\ IF tops = <<>> THEN Goto("refs") /\ UNCHANGED <<env, rf, repo, cmd, cur, ri, tops, plan, ptags, acc, newv, out>>
     ELSE LET R == SrcRepoOf(cmd.refs[ri - 1])
              v == Visit(Head(tops), R) IN
          /\ plan' = v \ tman
          /\ ptags' = (IF cmd.dtags THEN {n \in v : DigestTagged(R, n) # {}} ELSE {}) \ xt
          /\ pc' = "copying"
          /\ UNCHANGED <<env, rf, repo, cmd, cur, ri, tops, acc, newv, out>>

Refuse == Faults /\ AbortR("refused", TRUE)

\* one manifest (with its blobs) is written; children before parents
CopyStep ==
  /\ pc = "copying" /\ plan # {}
  /\ \E n \in plan :
       /\ Children(n) \cap plan = {}
       /\ IF n \notin SrcHolds(SrcRepoOf(cmd.refs[ri - 1])) THEN Abort("copy")
          ELSE /\ tman' = tman \cup {n} /\ plan' = plan \ {n}
               /\ roots' = (IF Man[n].subj # "" THEN roots \cup {n} ELSE roots)
               /\ UNCHANGED <<env, rf, tidx, tag, xt, pc, cmd, cur, ri, tops, ptags, acc, newv, out>>

CopyEnd ==
  /\ pc = "copying" /\ plan = {}
  /\ xt' = xt \cup ptags /\ ptags' = {}
  /\ acc' = Append(acc, Head(tops)) /\ tops' = Tail(tops)
  /\ pc' = "copy"
  /\ UNCHANGED <<env, rf, tman, tidx, tag, roots, cmd, cur, ri, plan, newv, out>>

\* second loop of indexBuildDescList: every digest must be in the target repository
DescOf(id) ==
  En(id, Man[id].mt,
     IF cmd.dplat = "" THEN Man[id].cplat ELSE IF PlatBad(cmd.dplat) THEN "" ELSE DescPlatStored(cmd.dplat),
     AnnStr(cmd.dann), "")
Heads ==
  /\ pc = "heads"
  /\ LET ds == IF PutFirst
               THEN cmd.digs \o [i \in DOMAIN cmd.refs |-> Resolve(cmd.refs[i])]      \* variant: names taken from the source
               ELSE cmd.digs \o acc IN
     IF ~PutFirst /\ \E i \in DOMAIN ds : ~InTarget(ds[i]) THEN Abort("digest")
     ELSE IF PutFirst /\ \E i \in DOMAIN ds : ds[i] = None THEN Abort("source")
     ELSE \* indexGetPlatform reads the config of every image: the environment may refuse one such read; as
          \* found the error is swallowed and the entry gets no platform (finding X03-2)
          \E lost \in {{}} \cup (IF Faults /\ ReadFaults /\ cmd.dplat = ""
                                THEN {{i} : i \in {j \in DOMAIN ds : ~IsList(ds[j])}} ELSE {}) :
            IF lost # {} /\ PlatLookupStrict THEN AbortR("refused", TRUE)
            ELSE /\ newv' = [i \in DOMAIN ds |-> IF i \in lost THEN [DescOf(ds[i]) EXCEPT !.plat = ""] ELSE DescOf(ds[i])]
                 /\ rf' = (rf \/ lost # {})
                 /\ Goto("merge")
                 /\ UNCHANGED <<env, repo, cmd, cur, ri, tops, plan, ptags, acc, out>>

SubjectOk == cmd.subj = "" \/ cmd.mt # "oci" \/ InTarget(cmd.subj) \/ (cmd.subj = "v1" /\ tag.k # "none")
SubjectVal == IF cmd.subj # "v1" THEN cmd.subj ELSE IF tag.k = "pool" THEN tag.id ELSE "self"
Merge ==
  /\ pc = "merge"
  /\ CASE cmd.op = "create" ->
            IF ~SubjectOk THEN Abort("subject")
            ELSE /\ newv' = (IF cmd.mt = "oci" THEN IV("ocii", RmDup(newv), AnnStr(cmd.ann), cmd.at, SubjectVal)
                             ELSE IV("dkl", RmDup(newv), AnnStr(cmd.ann), "", ""))
                 /\ Goto("put") /\ UNCHANGED <<env, rf, repo, cmd, cur, ri, tops, plan, ptags, acc, out>>
       [] cmd.op = "add" ->
            /\ newv' = [cur EXCEPT !.ents = RmDup(cur.ents \o newv)]
            /\ Goto("put") /\ UNCHANGED <<env, rf, repo, cmd, cur, ri, tops, plan, ptags, acc, out>>
       [] cmd.op = "delete" ->
            IF \E i \in DOMAIN cmd.plats : PlatBad(cmd.plats[i]) THEN Abort("platform")
            ELSE /\ newv' = [cur EXCEPT !.ents = DelPlats(DelDigs(cur.ents, cmd.digs), cmd.plats)]
                 /\ Goto("put") /\ UNCHANGED <<env, rf, repo, cmd, cur, ri, tops, plan, ptags, acc, out>>

Put ==
  /\ pc = "put"
  /\ tidx' = tidx \cup {newv}
  /\ tag' = (IF cmd.op = "create" /\ cmd.bydig THEN tag ELSE [k |-> "idx", v |-> newv])
  /\ IF PutFirst /\ cmd.op # "delete" THEN pc' = "refs" /\ out' = out
     ELSE pc' = "close" /\ out' = "ok"
  \* an index pushed by digest is listed in a layout's index.json, every version of an index with a subject
  \* is recorded in the referrers fallback tag of the subject: what it names stays reachable
  /\ roots' = (IF (cmd.op = "create" /\ cmd.bydig) \/ newv.subj # "" THEN roots \cup ({newv.ents[i].id : i \in DOMAIN newv.ents} \cap Ids) ELSE roots)
  /\ UNCHANGED <<env, rf, tman, xt, cmd, cur, ri, tops, plan, ptags, acc, newv>>

\* deferred rc.Close: an OCI layout collects what no tag, untagged index.json entry or recorded
\* referrer reaches
TagTargets == CASE tag.k = "pool" -> {tag.id}
                [] tag.k = "idx" -> {tag.v.ents[i].id : i \in DOMAIN tag.v.ents} \cap Ids
                [] OTHER -> {}
Keep == UNION {Reach(x) : x \in (roots \cup TagTargets \cup
                                 UNION {DigestTagged(R, s) : R \in Repos, s \in xt})}
Close ==
  /\ pc = "close"
  /\ tman' = (IF tkind = "dir" THEN tman \cap Keep ELSE tman)
  /\ pc' = "idle"
  /\ UNCHANGED <<env, rf, tidx, tag, xt, roots, cmd, cur, ri, tops, plan, ptags, acc, newv, out>>

Step ==
  \/ CheckType \/ Load \/ ParsePlats \/ RefHead \/ CopyBegin \/ CopyStep \/ CopyEnd \/ Heads \/ Merge \/ Put \/ Close
  \/ (pc \in {"copying", "put"} /\ Refuse)
=============================================================================

CONSTANTS
 Space = "none"
 GenMode = "rand"
 Scenarios <- SpaceScns
 Anchoring = "asis"
 PlatMatch = "asis"
 Chars <- CharsDef
 NameOrder <- NameOrderDef
INIT GInit
NEXT GNext
INVARIANTS Emit
CHECK_DEADLOCK FALSE

---------------------------- MODULE RegHttpProp ----------------------------
(***************************************************************************)
(* (P) property monitor for C12: bounded retries, recovery from transient  *)
(* faults, back-off, mirror order, writes skip mirrors.                    *)
(*                                                                         *)
(* Observation shaped.  It mirrors NO code: its input is what an outside   *)
(* observer at the registry hosts (the transports of the drivers) and at   *)
(* the API boundary sees, one flat event per observation:                  *)
(*                                                                         *)
(*   reset   header: R (retry limit), D (configured initial delay),        *)
(*           hosts / prio (parallel arrays), up (registry named in the     *)
(*           reference), slack, layer, waive                               *)
(*   do      a logical request starts (id, mut, nomir, ie, tc; os = 1: its *)
(*           body can be produced only once)                               *)
(*   seek    the caller seeks on the response (id, tc)                     *)
(*   read    the caller starts reading the body to the end (id, tc)        *)
(*   att     one request on the wire and its reply: host h, arrival ta,    *)
(*           reply tr, reply class k, ra (Retry-After as a duration),      *)
(*           mut (PUT/POST/PATCH/DELETE), mir (a read that may be offered  *)
(*           to mirrors), sig (method+path+query), inj (reply was an       *)
(*           injected fault)                                               *)
(*   cut     the client hit the end of a truncated body (id, h, t)         *)
(*   ret     an API call returned (id, call, ok, eq)                       *)
(*   op      layer 2: an operation of scheme/reg starts (tc; optional up,  *)
(*           set: the registry it names and the hosts its reads may go to) *)
(*   lseek   layer 2: the operation seeks on its open response (tc)        *)
(*   result  layer 2: the operation returned (eqret, eqstate: equal to     *)
(*           the fault-free run)                                           *)
(*   cancel  the caller cancelled the context of a logical request (id)    *)
(*   quiet   nothing is in progress and every response is closed: `free`   *)
(*           of the `conc` throttle slots of host h can be taken;          *)
(*           obligation slot-leak (a slot that is gone makes a later       *)
(*           operation wait for ever: termination)                         *)
(*   hang    a call is parked for good (the driver proved it from the      *)
(*           goroutine dump); obligation no-termination                    *)
(*   note    ignored                                                       *)
(* All times and durations are integers in one unit (micro seconds in real *)
(* traces, abstract ticks when (D) RegHttp.tla is checked against (P)).    *)
(*                                                                         *)
(* Obligations (the first violated one is latched in `bad`):               *)
(*   runaway            a host had to cut off a run-away repetition        *)
(*   write-to-mirror    a state changing request reached a host other than *)
(*                      the named registry                                 *)
(*   attempt-bound      one logical request was put on the wire more than  *)
(*                      R+1 times (+1 per Seek of the caller)              *)
(*   backoff-gap        after a transient failure the next request the     *)
(*                      rule applies to reached that host earlier than the *)
(*                      configured delay                                   *)
(*   retry-after-gap    ... earlier than the server requested              *)
(*   mirror-order:*     a read went to a host while a host that should     *)
(*                      have been offered it first was still untried       *)
(*   gave-up-early      a logical request failed although fewer than R     *)
(*                      attempts had failed and not every host had refused *)
(*   wrong-content      a successful read delivered other bytes            *)
(*   result-differs     layer 2: fewer than R transient faults, and the    *)
(*                      operation's result or effect differs from the      *)
(*                      fault-free run                                     *)
(*                                                                         *)
(* Reply classes k: ok | trunc (2xx whose body will end early) | tf        *)
(* (500 502 504 408 429 without Retry-After) | ra (the same with           *)
(* Retry-After) | reset (no reply) | nf (404) | rng (416) | auth (401) |   *)
(* other (any other status) | badok (a 2xx the client must refuse: wrong   *)
(* length, range ignored) | cap (the run-away cut-off of the model host).  *)
(*                                                                         *)
(* Soundness notes (why a correct client can never be rejected):           *)
(*  - Only lower bounds on time are demanded.  The reference of a demand   *)
(*    is `base`: a time that is provably not later than any instant from   *)
(*    which a client may count its delay (first failed reply of the host,  *)
(*    of any kind, advanced by D / Retry-After each time a demand was      *)
(*    applied and met, and never earlier than the last observation made    *)
(*    before the failed request itself arrived: a client releases a        *)
(*    request after everything that precedes it, so history left by an     *)
(*    earlier operation cannot excuse a retry), so scheduling noise -      *)
(*    including a late wake-up from an earlier back-off sleep - can only   *)
(*    enlarge the measured gap.                                            *)
(*  - The back-off demand applies to a request when the failed logical     *)
(*    request is known not to have opted out of back-off (layer 1: the ie  *)
(*    flag of the Req), or, when that is unknown (layer 2), when the       *)
(*    request repeats the failed one at once (same sig, same host, no      *)
(*    other request in between): a retry is what the back-off exists for,  *)
(*    and a request that opted out is never re-sent to the same host at    *)
(*    once (its host is dropped from the round).                           *)
(*  - For the order rule only a host without a back-off class failure      *)
(*    since its last complete reply counts as certainly not backing off    *)
(*    (the statement says "at least": a client may keep away from a host   *)
(*    that failed for as long as it likes); "a backing-off host was tried  *)
(*    first" is only claimed for Retry-After windows that extend at least  *)
(*    `slack` beyond the start of the call (layer 1 only).                 *)
(*  - A violation of the priority order is reported as priority-ascending *)
(*    when the offer is exactly what sorting the priorities the wrong way  *)
(*    round gives (known finding S1), else as priority-other.              *)
(*    waive = <<"prio-asc">> skips exactly the first case and nothing      *)
(*    else; it is used for the bulk validation, S1 itself is reported from *)
(*    traces validated without it.                                         *)
(***************************************************************************)
EXTENDS Integers, Sequences, FiniteSets, TLC

Max2(a, b) == IF a > b THEN a ELSE b
SeqToSet(s) == {s[i] : i \in 1..Len(s)}
Put(f, k, v) == [x \in DOMAIN f \cup {k} |-> IF x = k THEN v ELSE f[x]]

Transient == {"tf", "ra", "reset"}                 \* a cut (truncated body) is reported separately
DropClass == {"nf", "rng", "auth", "other", "badok"}
Success   == {"ok", "trunc"}

HostZero == [base |-> 0, due |-> 0, armed |-> 0, fsig |-> "", fie |-> 0, clean |-> TRUE, untilra |-> 0]
NewRound(t, sig) == [t0 |-> t, tried |-> {}, dropped |-> {}, failed |-> {}, sig |-> sig]

MZero == [R |-> 0, D |-> 0, up |-> "", hosts |-> {}, cand |-> {}, prio |-> <<>>, slack |-> 0, waive |-> {},
          layer |-> 0, lq |-> <<>>, rd |-> NewRound(0, ""), hs |-> <<>>,
          lastk |-> "", lasttr |-> 0, lastsig |-> "", lasth |-> "",
          runn |-> 0, runfail |-> 0, maxrunfail |-> 0, rundrop |-> {},
          nfail |-> 0, nbo |-> 0, injt |-> 0, injo |-> 0, bad |-> ""]

\* ---------------------------------------------------------------- reset
PHeader(e) ==
  LET hset == SeqToSet(e.hosts) IN
  [MZero EXCEPT !.R = e.R, !.D = e.D, !.up = e.up, !.hosts = hset,
                !.prio = [h \in hset |-> e.prio[CHOOSE i \in 1..Len(e.hosts) : e.hosts[i] = h]],
                !.slack = e.slack, !.waive = SeqToSet(e.waive), !.layer = e.layer,
                !.hs = [h \in hset |-> HostZero], !.cand = hset]

Fail(m, name) == IF m.bad # "" THEN m ELSE [m EXCEPT !.bad = name]
\* first failing check of a sequence of <<condition-that-is-bad, name>>
First(m, checks) ==
  IF m.bad # "" \/ ~(\E i \in 1..Len(checks) : checks[i][1]) THEN m
  ELSE [m EXCEPT !.bad = checks[CHOOSE i \in 1..Len(checks) :
                                 checks[i][1] /\ \A j \in 1..(i-1) : ~checks[j][1]][2]]

\* ------------------------------------------------------- API level events
PDo(m, e) ==
  [m EXCEPT !.lq = Put(m.lq, e.id, [mut |-> e.mut, nomir |-> e.nomir, ie |-> e.ie, n |-> 0, seeks |-> 0, cancelled |-> 0,
                                         os |-> IF "os" \in DOMAIN e THEN e.os ELSE 0,
                                         \* the host the request names (a pagination link: the host that served it)
                                         to |-> IF "to" \in DOMAIN e THEN e.to ELSE m.up]),
            !.rd = NewRound(e.tc, ""), !.lastk = "", !.lasttr = e.tc]

\* the caller cancelled the context of this logical request: its later failures are the caller's
PCancel(m, e) ==
  IF e.id \notin DOMAIN m.lq THEN Fail(m, "trace-malformed")
  ELSE [m EXCEPT !.lq[e.id].cancelled = 1]

\* quiescence: every response is closed / every call returned; `free` of the host's `conc` throttle slots
\* can be taken (fact logged by the driver through the public throttle of the client)
PQuiet(m, e) == First(m, << <<e.free < e.conc, "slot-leak">> >>)

PSeek(m, e) ==
  IF e.id \notin DOMAIN m.lq THEN Fail(m, "trace-malformed")
  ELSE [m EXCEPT !.lq[e.id].seeks = @ + 1, !.rd = NewRound(e.tc, ""), !.lastk = "", !.lasttr = e.tc]

PRead(m, e) == [m EXCEPT !.rd = NewRound(e.tc, ""), !.lastk = "", !.lasttr = e.tc]

\* (one client may use several registries one after the other: `up` names the registry of the reference of the
\* operation that starts, `set` the hosts its reads may be offered to = that registry and its configured mirrors)
POp(m, e) == [m EXCEPT !.rd = NewRound(e.tc, ""), !.lastk = "", !.lasttr = e.tc, !.lastsig = "", !.lasth = "",
                       !.runn = 0, !.runfail = 0, !.rundrop = {},
                       !.up = IF "up" \in DOMAIN e THEN e.up ELSE @,
                       !.cand = IF "set" \in DOMAIN e THEN SeqToSet(e.set) \cap m.hosts ELSE @]

\* layer 2: the operation announces a Seek of its own on the open response (not visible at the hosts): the
\* same logical request goes on with a fresh round of offers and one attempt credited
\* (the request that follows is the caller's, not a retry: lasth is cleared so that it proves nothing
\* about an early end of the body the caller may never have read up to)
PLSeek(m, e) == [m EXCEPT !.rd = NewRound(e.tc, m.lastsig), !.lastk = "seek", !.lasttr = e.tc, !.lasth = "",
                          !.runn = IF @ > 0 THEN @ - 1 ELSE 0, !.rundrop = {}]

\* -------------------------------------------------------------- attempts
ShouldPrio(m, g, h) == m.prio[g] > m.prio[h]
ShouldUp(m, g, h)   == m.prio[g] = m.prio[h] /\ h = m.up /\ g # m.up
\* the order an ascending sort of the priorities (registry last among equals) would give
KeyLe(m, a, b) == m.prio[a] < m.prio[b] \/ (m.prio[a] = m.prio[b] /\ (a # m.up \/ b = m.up))

PAtt2(m, e) ==
  LET h     == e.h
      l1    == e.id # "-"
      known == l1 /\ e.id \in DOMAIN m.lq
      \* a new round of host offers starts after a reply that was accepted, and (layer 2, where
      \* calls are not visible) when the request differs from the previous one
      newrd == m.lastk \in Success \/ (~l1 /\ e.sig # m.lastsig)
      rd    == IF newrd THEN NewRound(m.lasttr, e.sig) ELSE m.rd
      \* attempts of this logical request so far (layer 2: a run of equal requests not
      \* interrupted by a complete reply)
      \* ... nor by a refusal of this very host (after 404 / 416 / another final status a logical
      \* request can only go on at a different host; the same request to the same host is a new one)
      newrun == ~l1 /\ (e.sig # m.lastsig \/ m.lastk = "ok" \/ h \in m.rundrop)
      n     == IF l1 THEN (IF known THEN m.lq[e.id].n ELSE 0) + 1
               ELSE (IF newrun THEN 0 ELSE m.runn) + 1
      bound == m.R + 1 + (IF known THEN m.lq[e.id].seeks ELSE 0)
      ie    == IF known THEN m.lq[e.id].ie ELSE IF l1 THEN 0 ELSE 2
      hs    == m.hs[h]
      \* back-off demand: does it apply to this request?
      applies == hs.armed > 0 /\ (hs.fie = 0 \/ (hs.fie = 2 /\ hs.fsig = e.sig /\ m.lastsig = e.sig /\ m.lasth = h))
      others == (m.cand \ rd.tried) \ {h}
      idle(g) == m.hs[g].clean                   \* g gives the client no reason to back off from it
      \* is this offer exactly what sorting the priorities the wrong way round would produce?
      asc   == /\ \A g \in rd.tried : KeyLe(m, g, h)
               /\ \A g \in others : idle(g) => KeyLe(m, h, g)
      prioBad == e.mir = 1 /\ \E g \in others : idle(g) /\ ShouldPrio(m, g, h)
      m1 == First(m, <<
              <<l1 /\ ~known, "trace-malformed">>,
              <<e.k = "cap", "runaway">>,
              <<e.mut = 1 /\ h # m.up, "write-to-mirror">>,
              <<n > bound, "attempt-bound">>,
              <<applies /\ e.ta < hs.due, IF hs.armed = 2 THEN "retry-after-gap" ELSE "backoff-gap">>,
              <<e.mir = 1 /\ \E g \in others : idle(g) /\ rd.t0 + m.slack < hs.untilra,
                "mirror-order:backoff-first">>,
              <<prioBad /\ asc /\ "prio-asc" \notin m.waive, "mirror-order:priority-ascending">>,
              <<prioBad /\ ~asc, "mirror-order:priority-other">>,
              <<e.mir = 1 /\ \E g \in others : idle(g) /\ ShouldUp(m, g, h), "mirror-order:upstream-not-last">>
            >>)
      \* the demand was applied and met: the client's own reference is now at least `due`
      \* ... and whatever a client counts from, it is not earlier than the release of this very request, which
      \* comes after everything observed before it (m.lasttr: previous reply, start of the call, early end)
      base0 == IF applies THEN Max2(hs.base, hs.due) ELSE hs.base
      base1 == IF base0 # 0 THEN Max2(base0, m.lasttr) ELSE 0
      \* layer 2: a truncated body arms too (the hook `cut` does not exist there); the demand then
      \* only applies to the resuming request, which proves that the client met the early end
      arms  == (e.k \in Transient \/ (~l1 /\ e.k = "trunc")) /\ ie # 1
      \* a client may count from any failure of the host, also one this monitor does not arm on
      base2 == IF e.k \notin Success /\ base1 = 0 THEN e.tr ELSE IF arms /\ base1 = 0 THEN e.tr ELSE base1
      due2  == IF ~arms THEN 0 ELSE IF e.k = "ra" /\ e.ra > 0 THEN Max2(base2, e.tr + e.ra) ELSE base2 + m.D
      hs2   == [hs EXCEPT !.base = base2,
                          !.armed = IF ~arms THEN 0 ELSE IF e.k = "ra" /\ e.ra > 0 THEN 2 ELSE 1,
                          !.due = due2, !.fsig = e.sig, !.fie = ie,
                          !.clean = IF e.k = "ok" THEN TRUE
                                    ELSE IF e.k \in Transient \cup {"trunc", "other"} THEN FALSE ELSE @,
                          !.untilra = IF arms /\ e.k = "ra" /\ l1 THEN Max2(@, e.tr + e.ra) ELSE @]
      failed == e.k \notin Success
      \* layer 2: replies of this run that cost the logical request an attempt without completing it
      rfail == (IF newrun THEN 0 ELSE m.runfail) + (IF e.k # "ok" THEN 1 ELSE 0)
  IN [m1 EXCEPT
        !.hs[h] = hs2,
        !.lq = IF known THEN [m.lq EXCEPT ![e.id].n = n] ELSE m.lq,
        !.rd = [rd EXCEPT !.tried = @ \cup {h},
                          !.dropped = IF e.k \in DropClass THEN @ \cup {h} ELSE @,
                          !.failed = IF failed THEN @ \cup {h} ELSE @,
                          !.sig = e.sig],
        !.lastk = e.k, !.lasttr = e.tr, !.lastsig = e.sig, !.lasth = h,
        !.runn = IF l1 THEN 0 ELSE n,
        !.runfail = IF l1 THEN 0 ELSE rfail,
        !.maxrunfail = IF l1 THEN 0 ELSE Max2(m.maxrunfail, rfail),
        \* hosts that refused in the current round of offers (a resumed read offers to all again)
        !.rundrop = IF l1 \/ e.k \in Success THEN {}
                    ELSE (IF newrun THEN {} ELSE m.rundrop) \cup (IF e.k \in {"nf", "rng", "other"} THEN {h} ELSE {}),
        !.nfail = IF failed THEN @ + 1 ELSE @,
        \* replies that may count against a host in the client's back-off book-keeping
        !.nbo = IF e.k \in Transient \cup {"trunc", "other"} THEN @ + 1 ELSE @,
        !.injt = IF e.inj = 1 /\ e.k \in Transient \cup {"trunc"} THEN @ + 1 ELSE @,
        !.injo = IF e.inj = 1 /\ e.k \notin Transient \cup {"trunc"} THEN @ + 1 ELSE @]

PAtt(m, e) == IF e.h \notin m.hosts THEN Fail(m, "trace-malformed") ELSE PAtt2(m, e)

\* the client reached the premature end of a truncated body: a transient failure of host h at t
PCut(m, e) ==
  IF e.h \notin m.hosts THEN Fail(m, "trace-malformed") ELSE
  LET hs   == m.hs[e.h]
      ie   == IF e.id \in DOMAIN m.lq THEN m.lq[e.id].ie ELSE 2
      base == IF hs.base = 0 THEN e.t ELSE hs.base
  IN [m EXCEPT !.hs[e.h] = [hs EXCEPT !.base = base, !.armed = 1, !.due = base + m.D,
                                      !.fsig = m.lastsig, !.fie = ie, !.clean = FALSE],
               !.nfail = @ + 1, !.lasttr = Max2(m.lasttr, e.t)]

\* ------------------------------------------------------------ API results
PRet(m, e) ==
  IF e.id \notin DOMAIN m.lq THEN Fail(m, "trace-malformed") ELSE
  LET q == m.lq[e.id]
      S == IF q.nomir = 1 THEN {q.to} ELSE m.hosts
      \* os: the caller's body can be sent only once, so one failed attempt ends the request
      justified == \/ q.cancelled = 1
                   \/ (q.os = 1 /\ m.rd.failed # {})
                   \/ m.nfail >= m.R
                   \/ S \subseteq m.rd.dropped
                   \/ (q.ie = 1 /\ S \subseteq m.rd.failed)
  IN First(m, << <<e.call \in {"do", "read", "seek"} /\ e.ok = 0 /\ ~justified, "gave-up-early">>,
                 <<e.ok = 1 /\ e.eq = 0, "wrong-content">> >>)

PResult(m, e) ==
  \* only transient faults were injected, fewer than the limit; and neither one logical request
  \* (run) nor the hosts' failure history (natural failures of mirrors included) reached it
  \* (os = 1: the caller handed over a source that can be read only once, nothing can be re-sent)
  LET pre == m.injo = 0 /\ m.injt < m.R /\ m.maxrunfail < m.R /\ m.nbo < m.R
             /\ (IF "os" \in DOMAIN e THEN e.os = 0 ELSE TRUE)
  IN First(m, << <<pre /\ (e.eqret = 0 \/ e.eqstate = 0), "result-differs">> >>)

\* ------------------------------------------------------------------ step
PStep(m, e) ==
  CASE e.ev = "reset"  -> PHeader(e)
    [] e.ev = "do"     -> PDo(m, e)
    [] e.ev = "seek"   -> PSeek(m, e)
    [] e.ev = "read"   -> PRead(m, e)
    [] e.ev = "op"     -> POp(m, e)
    [] e.ev = "lseek"  -> PLSeek(m, e)
    [] e.ev = "att"    -> PAtt(m, e)
    [] e.ev = "cut"    -> PCut(m, e)
    [] e.ev = "ret"    -> PRet(m, e)
    [] e.ev = "result" -> PResult(m, e)
    [] e.ev = "hang"   -> Fail(m, "no-termination")
    [] e.ev = "cancel" -> PCancel(m, e)
    [] e.ev = "quiet"  -> PQuiet(m, e)
    [] e.ev = "note"   -> m
    [] OTHER           -> Fail(m, "trace-malformed")

RECURSIVE PFold(_, _)
PFold(m, es) == IF es = <<>> THEN m ELSE PFold(PStep(m, Head(es)), Tail(es))
=============================================================================

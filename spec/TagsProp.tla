---------------------------- MODULE TagsProp ----------------------------
(***************************************************************************)
(* (P) property monitor for C06: tags behave as a name->digest map;        *)
(* deleting a tag removes only that tag.                                   *)
(*                                                                         *)
(* Observation shaped.  It knows nothing about registries, index.json or   *)
(* caches; it carries the reference model of the statement (TagsMap: a map *)
(* tag -> digest and a set of stored manifests), advances it by the        *)
(* operations the client was asked to perform, and compares with it        *)
(*   - what the client reports afterwards: TagList, ManifestHead and       *)
(*     ManifestGet of every tag and every digest              (PObs)       *)
(*   - the state the back end is really in: the registry model's own       *)
(*     tag map / manifest set (PRawReg), or index.json parsed with an      *)
(*     independent JSON decoder plus the blob files (PRawIdx): valid OCI   *)
(*     index, at most one entry per tag                                    *)
(*   - the outcome of each operation: an error where the model succeeds    *)
(*     ("refused") is accepted only for a delete whose target is absent,   *)
(*     or on a back end that offers no way to delete (CanDo) - and then    *)
(*     the map must be unchanged.                                          *)
(* Mirrors: the API of regclient.RegClient (TagDelete, TagList,            *)
(* ManifestPut/Head/Get/Delete, tag.go / manifest.go) as a black box.      *)
(*                                                                         *)
(* The referrers fall-back tag.  Some pool manifests may name the pool     *)
(* manifest m1 as their subject (cf.subj).  Where the client keeps the     *)
(* referrers of a subject in a tag of the repository itself (cf.fallback = *)
(* 1: every layout, a registry without referrers API) that tag,            *)
(* sha256-<digest of m1>, is a tag like any other for the statement: it    *)
(* resolves to what was last put and once removed it does not come back.   *)
(* What is put there is the client's own doing, by its documented          *)
(* contract: a push of a manifest with a subject adds it to the list, a    *)
(* manifest delete that looks at the subject (on a layout always, on a     *)
(* registry with WithManifestCheckReferrers or WithManifest) takes it out, *)
(* the tag goes with its last entry.  refs is that list; the projection    *)
(* (field ft of an obs event: listed, resolves, manifests listed in the    *)
(* index it resolves to, decoded by the driver) must agree:                *)
(* reftag-extra (gone, yet listed or resolving), reftag-missing,           *)
(* reftag-wrong (lists other manifests than were last put).  With          *)
(* cf.fallback = 0 nothing is demanded of that tag.                        *)
(*                                                                         *)
(* Housekeeping (kind gc = RegClient.Close, the garbage collection of a    *)
(* layout): the statement gives it no effect on the map.  Demanded: the    *)
(* tags are what they were, every manifest a tag points at is still       *)
(* stored (nothing is demanded of an ambiguous tag, here as elsewhere),    *)
(* nothing that was not stored appears (gc-lost-tagged, gc-extra).  Which *)
(* of the unprotected manifests were swept is a fact the driver logs       *)
(* (directory audit after the call, field list of the op event); in conc   *)
(* mode the linearisation search tries every subset.  An error of Close is *)
(* not a matter of the map: nothing is demanded of the result.             *)
(*                                                                         *)
(* Two modes (header field `mode`):                                        *)
(*   seq   one operation at a time (event `op`), the model is              *)
(*         deterministic, the first violated obligation is latched in      *)
(*         `bad` (invariant Ok).                                           *)
(*   conc  operations issued by several goroutines (events `call`, `ret`   *)
(*         in real-time order).  PLin is a silent step that linearises a   *)
(*         pending map-changing operation; TLC searches all orders of them *)
(*         consistent with the call/return intervals, a read must answer   *)
(*         what the map held at some moment of its interval (= all         *)
(*         linearisations).  A violation shows as an event                 *)
(*         with no enabled step on any path (nothing is latched: a wrong   *)
(*         guess of the order is not a violation).                         *)
(*                                                                         *)
(* Deliberate limits of what is demanded (each is forced by the statement  *)
(* or by the environment, not by the implementation):                      *)
(*   - a layout written by another tool may start with several entries     *)
(*     for one tag (amb[t] = their digests).  A map cannot say what such a *)
(*     tag resolves to, so nothing is demanded of it except that it        *)
(*     resolves to one of those digests, until the client writes that tag  *)
(*     (push or tag delete); from then on it is an ordinary tag and the    *)
(*     index must hold at most one entry for it.                           *)
(*   - a registry that pages its tag list serves one listing by several    *)
(*     requests; concurrent writes can fall between them whatever the      *)
(*     client does.  With alist = 0 a concurrent listing must contain      *)
(*     every tag present during its whole interval and only tags present   *)
(*     at some moment of it ("complete"); with alist = 1 it linearises.    *)
(*   - a registry without a tag-delete API forces the client to overwrite  *)
(*     the tag with a placeholder first; with adel = 0 a read of that tag  *)
(*     overlapping its deletion may see the placeholder ("x").             *)
(***************************************************************************)
EXTENDS TagsMap, TLC
VARIABLES tags,   \* the reference map
          mans,   \* the reference set of stored manifests
          amb,    \* tag -> set of digests: foreign duplicate entries not yet written by the client
          pend,   \* conc mode: operation id -> record of a called, not yet returned operation
          refs,   \* the manifests the referrers fall-back tag of the pool's subject lists (see below)
          cf,     \* header: [mode, backend, alist, adel, fallback, withman, subj, mdelok]
          bad     \* seq mode: first violated obligation
pvars == <<tags, mans, amb, pend, refs, cf, bad>>

Get(f, k) == f[k]
Put(f, k, v) == [x \in DOMAIN f \cup {k} |-> IF x = k THEN v ELSE f[x]]
Del(f, k) == [x \in DOMAIN f \ {k} |-> f[x]]
Flag(b, name) == IF bad # "" THEN bad ELSE IF b THEN name ELSE ""
\* first non-empty string of a sequence of strings
FirstOf(ss) == IF \E i \in 1..Len(ss) : ss[i] # ""
               THEN ss[CHOOSE i \in 1..Len(ss) : ss[i] # "" /\ \A j \in 1..(i-1) : ss[j] = ""]
               ELSE ""
Latch(ss) == IF bad # "" THEN bad ELSE FirstOf(ss)

Amb == {t \in Tags : amb[t] # {}}
Listed == MListed(tags)

PInit == /\ tags = [t \in Tags |-> NONE] /\ mans = {} /\ amb = [t \in Tags |-> {}]
         /\ pend = <<>> /\ refs = {}
         /\ cf = [mode |-> "seq", backend |-> "reg", alist |-> 1, adel |-> 1, fallback |-> 0, withman |-> 0, subj |-> {}, mdelok |-> 1]
         /\ bad = ""

\* header: the abstraction of the initial content (computed by the driver from what it put
\* there itself: nothing for a fresh back end, the entries of a foreign index)
PReset(mode, backend, alist, adel, tags0, amb0, mans0, fallback, withman, subj, mdelok) ==
  /\ tags' = [t \in Tags |-> tags0[t]]
  /\ mans' = ToSet(mans0)
  /\ amb' = [t \in Tags |-> ToSet(amb0[t])]
  /\ pend' = <<>>
  /\ refs' = {}
  /\ cf' = [mode |-> mode, backend |-> backend, alist |-> alist, adel |-> adel, fallback |-> fallback,
            withman |-> withman, subj |-> ToSet(subj), mdelok |-> mdelok]
  /\ bad' = ""

----------------------------------------------------------------------------
(* the obligations on one observation; each returns "" or the obligation's name *)

ListBad(lst) ==
  LET S == ToSet(lst) IN
  IF Len(lst) # Cardinality(S) THEN "list-dup"
  ELSE IF \E t \in S : t \notin Tags THEN "list-unknown-tag"
  ELSE IF \E t \in S \ Amb : tags[t] = NONE THEN "list-extra"
  ELSE IF \E t \in Listed \ Amb : t \notin S THEN "list-missing"
  ELSE ""

\* f: reference (tag or digest) -> what head / get reported (digest name, NONE, or "x..." for
\* content that is none of the pool's manifests / whose bytes do not hash to its digest)
ResBad(pfx, f) ==
  IF \E t \in Tags \ Amb : tags[t] = NONE /\ f[t] # NONE THEN pfx \o "-tag-extra"
  ELSE IF \E t \in Tags \ Amb : tags[t] # NONE /\ f[t] = NONE THEN pfx \o "-tag-missing"
  ELSE IF \E t \in Tags \ Amb : f[t] # tags[t] THEN pfx \o "-tag-wrong"
  ELSE IF \E t \in Amb : f[t] \notin amb[t] \cup {NONE} THEN pfx \o "-tag-wrong"
  ELSE IF \E m \in Mans \ mans : f[m] # NONE THEN pfx \o "-digest-extra"
  ELSE IF \E m \in mans : f[m] = NONE THEN pfx \o "-digest-missing"
  ELSE IF \E m \in mans : f[m] # m THEN pfx \o "-digest-wrong"
  ELSE ""

\* rt: tag -> digest name in the registry model's own map; xt: number of other tags; rm: pool
\* manifests it stores
RawRegBad(rt, xt, rm) ==
  IF \E t \in Tags : tags[t] = NONE /\ rt[t] # NONE THEN "raw-tag-extra"
  ELSE IF \E t \in Tags : tags[t] # NONE /\ rt[t] = NONE THEN "raw-tag-missing"
  ELSE IF \E t \in Tags : rt[t] # tags[t] THEN "raw-tag-wrong"
  ELSE IF xt # 0 THEN "raw-unknown-tag"
  ELSE IF ToSet(rm) # mans THEN "raw-manifests"
  ELSE ""

\* valid: index.json decodes (encoding/json) as an OCI index with well-formed descriptors;
\* ent: tag -> sequence of digests of the entries naming it; files: pool manifests on disk
RawIdxBad(valid, ent, files) ==
  IF valid # 1 THEN "index-invalid"
  ELSE IF \E t \in Tags \ Amb : Len(ent[t]) > 1 THEN "index-dup"
  ELSE IF \E t \in Tags \ Amb : tags[t] = NONE /\ Len(ent[t]) > 0 THEN "index-tag-extra"
  ELSE IF \E t \in Tags \ Amb : tags[t] # NONE /\ Len(ent[t]) = 0 THEN "index-tag-missing"
  ELSE IF \E t \in Tags \ Amb : tags[t] # NONE /\ ent[t][1] # tags[t] THEN "index-tag-wrong"
  ELSE IF ToSet(files) # mans THEN "files"
  ELSE ""

\* Does the back end offer a way to do what a delete asks for?  A manifest can be deleted where DELETE by
\* digest is served (mdelok); a tag where DELETE by tag is served (adel) or, through the placeholder, where
\* DELETE by digest is.  Where there is none, an error is all the client can give - but the map must then be
\* what it was (the next projection is compared with the unchanged map as after any refused operation).
CanDo(k) == IF k = "tagdel" THEN cf.adel = 1 \/ cf.mdelok = 1
            ELSE IF k \in {"mdel", "mdelr"} THEN cf.mdelok = 1 ELSE TRUE

\* the referrers list after operation k on manifest m took effect (done: it succeeded; pres: the map had
\* the manifest)
NewRefs(k, m, done, pres) ==
  IF cf.fallback = 0 \/ ~done \/ m \notin cf.subj THEN refs
  ELSE IF k \in {"push", "pushd"} THEN refs \cup {m}
  ELSE IF k \in {"mdel", "mdelr"} /\ pres /\ (cf.backend = "layout" \/ k = "mdelr" \/ cf.withman = 1) THEN refs \ {m}
  ELSE refs
\* ft: [listed |-> 0/1, res |-> "-" | "ok" | "x...", refs |-> pool manifests the index lists]
RefTagBad(ft) ==
  IF cf.fallback = 0 THEN ""
  ELSE IF refs = {} /\ (ft.listed = 1 \/ ft.res # NONE) THEN "reftag-extra"
  ELSE IF refs # {} /\ (ft.listed = 0 \/ ft.res = NONE) THEN "reftag-missing"
  ELSE IF refs # {} /\ (ft.res # "ok" \/ ToSet(ft.refs) # refs) THEN "reftag-wrong"
  ELSE ""

\* the manifests a collection must keep
Prot == MProt(tags) \cap mans
GcBad(kept) == IF ~(Prot \subseteq kept) THEN "gc-lost-tagged"
               ELSE IF ~(kept \subseteq mans) THEN "gc-extra" ELSE ""

\* what head / get of one reference must report
AnsOK(ref, v) == IF ref \in Amb THEN v \in amb[ref] \cup {NONE} ELSE v = MResolve(tags, mans, ref)

----------------------------------------------------------------------------
(* seq mode *)

\* one complete operation.  k kind, t tag ("" if none), m manifest ("" if none), res "ok" |
\* "refused" for mutations, the reported digest name for head/get, lst the listing for list
POp(k, t, m, res, lst) ==
  /\ cf.mode = "seq"
  /\ IF k = "gc"
     THEN /\ UNCHANGED <<tags, amb, refs>>
          /\ mans' = ToSet(lst) \cap mans
          /\ bad' = Latch(<<GcBad(ToSet(lst))>>)
     ELSE IF k \in MutKinds
     THEN LET unsure == k = "tagdel" /\ t \in Amb
              pres == MPresent(tags, mans, k, t, m)
              done == res = "ok" IN
          /\ tags' = IF done THEN MTags(tags, k, t, m) ELSE tags
          /\ mans' = IF done THEN MMans(mans, k, m) ELSE mans
          /\ amb' = IF done /\ k \in {"push", "tagdel"} THEN [amb EXCEPT ![t] = {}] ELSE amb
          /\ refs' = NewRefs(k, m, done, pres)
          /\ bad' = Flag(~done /\ pres /\ ~unsure /\ CanDo(k), "refused-" \o k)
     ELSE /\ UNCHANGED <<tags, mans, amb, refs>>
          /\ bad' = IF k = "list" THEN Latch(<<ListBad(lst)>>)
                    ELSE LET ref == IF t # "" THEN t ELSE m
                             want == MResolve(tags, mans, ref) IN
                         Flag(~AnsOK(ref, res),
                              k \o (IF ref \in Amb THEN "-result-wrong"
                                    ELSE IF want = NONE THEN "-result-extra"
                                    ELSE IF res = NONE THEN "-result-missing" ELSE "-result-wrong"))
  /\ UNCHANGED <<pend, cf>>

PObs(lst, head, get, ft) ==
  /\ pend = <<>>
  /\ IF cf.mode = "seq"
     THEN bad' = Latch(<<ListBad(lst), ResBad("head", head), ResBad("get", get), RefTagBad(ft)>>)
     ELSE /\ ListBad(lst) = "" /\ ResBad("head", head) = "" /\ ResBad("get", get) = "" /\ RefTagBad(ft) = ""
          /\ UNCHANGED bad
  /\ UNCHANGED <<tags, mans, amb, pend, refs, cf>>

PRawReg(rt, xt, rm) ==
  /\ pend = <<>>
  /\ IF cf.mode = "seq" THEN bad' = Latch(<<RawRegBad(rt, xt, rm)>>)
     ELSE RawRegBad(rt, xt, rm) = "" /\ UNCHANGED bad
  /\ UNCHANGED <<tags, mans, amb, pend, refs, cf>>

PRawIdx(valid, ent, files) ==
  /\ pend = <<>>
  /\ IF cf.mode = "seq" THEN bad' = Latch(<<RawIdxBad(valid, ent, files)>>)
     ELSE RawIdxBad(valid, ent, files) = "" /\ UNCHANGED bad
  /\ UNCHANGED <<tags, mans, amb, pend, refs, cf>>

----------------------------------------------------------------------------
(* conc mode: call / linearise / return *)
(* Only operations that change the map are linearised by a step of their own (PLin).  A read  *)
(* does not change the map, so it can be placed anywhere in its interval independently of the   *)
(* other reads: it is explained iff its answer is one the map gave at some moment between its   *)
(* call and its return, relative to the one order of the PLin steps of the path.  The monitor   *)
(* therefore collects, per read in flight, the answers seen so far (seen / seenL) instead of    *)
(* guessing a linearisation point for it - the same acceptance, far fewer paths.                *)

WeakList(k) == k = "list" /\ cf.alist = 0
\* a read of tag t may see the placeholder while a non-atomic delete of t is in flight
DelInFlight(t) == cf.adel = 0 /\ \E j \in DOMAIN pend : pend[j].k = "tagdel" /\ pend[j].t = t
\* answer of the map (tg, ms, ab) to head / get of a reference; "any" for an ambiguous tag
AnsIn(tg, ms, ab, ref) == IF ref \in Tags /\ ab[ref] # {} THEN "any" ELSE MResolve(tg, ms, ref)
RefOfOp(o) == IF o.t # "" THEN o.t ELSE o.m

PCall(id, k, t, m) ==
  /\ cf.mode = "conc"
  /\ id \notin DOMAIN pend
  /\ LET rec == [k |-> k, t |-> t, m |-> m, st |-> "called", exp |-> "",
                 must |-> Listed, may |-> Listed,
                 seen |-> IF k \in {"head", "get"} THEN {AnsIn(tags, mans, amb, IF t # "" THEN t ELSE m)} ELSE {},
                 seenL |-> IF k = "list" THEN {Listed} ELSE {},
                 len |-> k \in {"head", "get"} /\ t # "" /\ DelInFlight(t)]
         \* a non-atomic tag delete that starts now makes the reads of that tag in flight lenient
         p1 == IF k = "tagdel" /\ cf.adel = 0
               THEN [j \in DOMAIN pend |-> IF pend[j].k \in {"head", "get"} /\ pend[j].t = t
                                           THEN [pend[j] EXCEPT !.len = TRUE] ELSE pend[j]]
               ELSE pend IN
     pend' = Put(p1, id, rec)
  /\ UNCHANGED <<tags, mans, amb, refs, cf, bad>>

\* silent: the map-changing operation id takes effect now (X: the unprotected manifests a collection sweeps)
PLinX(id, X) ==
  /\ LET o == pend[id]
         nt == MTags(tags, o.k, o.t, o.m)
         nm == IF o.k = "gc" THEN mans \ X ELSE MMans(mans, o.k, o.m)
         na == IF o.k \in {"push", "tagdel"} THEN [amb EXCEPT ![o.t] = {}] ELSE amb
         unsure == o.k = "tagdel" /\ o.t \in Amb
         ex == IF MPresent(tags, mans, o.k, o.t, o.m) /\ ~unsure /\ o.k # "gc" THEN "ok" ELSE "any" IN
     /\ tags' = nt /\ mans' = nm /\ amb' = na
     \* (an operation that fails in the end is linearised where the map has no target: pres = FALSE)
     /\ refs' = NewRefs(o.k, o.m, TRUE, MPresent(tags, mans, o.k, o.t, o.m))
     \* every read in flight has now seen one more state of the map
     /\ pend' = [j \in DOMAIN pend |->
                   IF j = id THEN [o EXCEPT !.st = "lin", !.exp = ex]
                   ELSE IF pend[j].k \in {"head", "get"}
                        THEN [pend[j] EXCEPT !.seen = @ \cup {AnsIn(nt, nm, na, RefOfOp(pend[j]))}]
                   ELSE IF pend[j].k = "list"
                        THEN [pend[j] EXCEPT !.must = @ \cap MListed(nt), !.may = @ \cup MListed(nt),
                                             !.seenL = @ \cup {MListed(nt)}]
                   ELSE pend[j]]
  /\ UNCHANGED <<cf, bad>>
PLin(id) ==
  /\ id \in DOMAIN pend
  /\ pend[id].st = "called"
  /\ pend[id].k \in MutKinds \cup {"gc"}
  /\ \E X \in (IF pend[id].k = "gc" THEN SUBSET (mans \ Prot) ELSE {{}}) : PLinX(id, X)

PRet(id, res, lst) ==
  /\ cf.mode = "conc"
  /\ id \in DOMAIN pend
  /\ LET o == pend[id] IN
     IF o.k \in MutKinds \cup {"gc"} THEN o.st = "lin" /\ (res = "ok" \/ (res = "refused" /\ o.exp = "any"))
     ELSE IF o.k = "list"
          THEN LET S == ToSet(lst) IN
               /\ Len(lst) = Cardinality(S)
               /\ IF WeakList(o.k)
                  THEN (o.must \ Amb) \subseteq S /\ (S \ Amb) \subseteq o.may
                  ELSE \E L \in o.seenL : L \ Amb = S \ Amb
          ELSE res \in o.seen \/ "any" \in o.seen \/ (o.len /\ res = "x")
  /\ pend' = Del(pend, id)
  /\ UNCHANGED <<tags, mans, amb, refs, cf, bad>>

PNote == UNCHANGED pvars

Ok == bad = ""
WellFormed == MWellFormed(tags, mans)
=============================================================================

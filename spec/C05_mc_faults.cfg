INIT Init
NEXT Next
CONSTANTS
 Confs <- FaultConfs
 MaxPartial = 1
 MaxFaults = 2
 DefChunk = 2
 ChunkLimit = 6
 RetryLimit = 10
 HttpRetries = 5
 IgnoreInvalidDigest = FALSE
INVARIANTS O1 O2 O3 BufInSync PatchShape SessPrefix HashedIsRead OnlyVerified ChunkBound

\* what if Extract materialised links behind a lexical guard (seeded C20-2)?  expected: Containment violated by a chain
CONSTANTS TitleClean = "rooted" ExtractGuard = "reroot" Whiteout = "none" LinkPolicy = "lexical" DeleteValidates = TRUE MaxFull = 1 MaxCore = 1
  Eps = {"lnk"}
SPECIFICATION Spec
INVARIANTS Containment
CHECK_DEADLOCK FALSE

INIT Init
NEXT Next
CONSTANTS
 Confs <- KeptAllConfs
 MaxPartial = 0
 MaxFaults = 0
 DefChunk = 2
 ChunkLimit = 6
 RetryLimit = 10
 HttpRetries = 5
 IgnoreInvalidDigest = FALSE
INVARIANTS O3Strict

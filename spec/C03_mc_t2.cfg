CONSTANTS
 Confs <- MCConfs
 FixWaitErr = FALSE
 Reduce = TRUE
 MCShapes = {"img", "idx2", "nested", "art", "artidx", "dtag"}
 MCPairs = {"tworeg", "dir2reg", "reg2dir"}
 MCOpts <- MCOptsCore
 MCFeats <- MCFeatsAll
 MCInit = "corners"
 MCTag0 = {"none", "stale", "same"}
 MCByDigest = {FALSE, TRUE}
 MCTgtByDigest = {FALSE, TRUE}
 MaxFaults = 0
 AllowCancel = FALSE
 AllowCrash = FALSE
 Cap = 0
INIT Init
NEXT Next
INVARIANTS TypeOK InvC04 InvFb InvC03 InvC14 InvFailTag

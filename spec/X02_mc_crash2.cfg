CONSTANTS
 Scenarios <- QuickSet
 MaxCrash = 2
 Variant = "code"
INIT Init
NEXT Next
INVARIANTS StateOk EndOk RaceEndOk FreshOk RetryOk TypeOk
CHECK_DEADLOCK FALSE

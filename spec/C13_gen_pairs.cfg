\* every pair of layer adding / removing options
CONSTANTS
 Images <- ImagesPairs
 Options <- OptsAddRm
 MaxProg = 2
 Places = {"same-tag", "cross"}
 FixData = TRUE
 FixWriter = TRUE
 FixAdded = TRUE
 FixTag = TRUE
 FixClose = TRUE
 FixDesc = TRUE
 SrcKinds = {"reg", "dir"}
 Fine = FALSE
SPECIFICATION Spec
INVARIANT Emit
CHECK_DEADLOCK FALSE

\* every pair of layer adding / removing options
CONSTANTS
 Images <- ImagesPairs
 Options <- OptsAddRm
 MaxProg = 2
 Places = {"same-tag", "cross"}
 FixData = FALSE
 FixWriter = FALSE
 FixAdded = FALSE
 FixTag = FALSE
 FixClose = FALSE
 SrcKinds = {"reg", "dir"}
 Fine = FALSE
SPECIFICATION Spec
INVARIANT Emit
CHECK_DEADLOCK FALSE
